import Yuiv.Proofs.C08Hom
import Yuiv.Props.C08
import Yuiv.Proofs.C11New
import Mathlib.LinearAlgebra.Matrix.Block
import Mathlib.LinearAlgebra.Matrix.NonsingularInverse
/-
C08 — composing the schedule-quantified pieces (C11 pivot search, C12 parallel Schur) with the Schur-step algebra and
"homotopy equivalence ⇒ isomorphic homology" (C08Hom).  Definitions and helper lemmas; the property theorems are in
`Yuiv/Props/C08Sched.lean`.

 1. `StepBlocks`: one reduction step at degree `k` of a WHOLE ℕ-indexed complex, in block form.  Every chain module is
    split as `ρ i ⊕ κ i` (`ρ i` = the pivot part that is removed, empty unless `i = k` or `i = k+1`), every
    differential is `M i = [[a i, b i],[c i, dd i]]`, `a k` has the two-sided inverse `ainv k`.  The maps are given by
    formulas uniform in `i` (`stepS`, `stepF`, `stepB`, `stepH`): at `i = k`, `k+1` they are literally
    `schurS / Ftgt / Bsrc / hmt` of `Proofs/C08Schur.lean`; elsewhere the `ρ`-blocks are empty.
    `StepBlocks.isHomotopyEquiv`: this is an `IsHomotopyEquiv` of the whole complex.
 2. `IsHomotopyEquiv.of_reindex`: renaming the bases (the permutations of `perms_by_pivots`).
 3. `TriPivots A upper P`: the matrix-level statement of what `find_pivots` returns (conclusion of
    `C11.find_pivots_triangular_in_matrix`); `pivBlock` is the leading block after `perms_by_pivots`; it is triangular
    with unit diagonal, so its determinant is a unit and it has a two-sided inverse.
 4. `Cpx`, `HEquiv`: complexes as bundled objects, homotopy equivalence as a reflexive transitive relation.
 5. `Represents a A`: the CSC storage `a` of C11 (observations `is_zero / is_pm_one / is_unit` of the stored values)
    describes the matrix `A` over the ring `R` truthfully.
-/
namespace Yuiv.C08
open Matrix
set_option linter.unusedSectionVars false

/-! ## 0. matrices over empty index types -/

section empty
variable {R : Type*} {l m n : Type*}

theorem mul_eq_zero_of_isEmpty_mid [Ring R] [Fintype m] [IsEmpty m] (A : Matrix l m R) (B : Matrix m n R) : A * B = 0 := by
  ext i j; simp [Matrix.mul_apply]

theorem eq_of_isEmpty_rows [IsEmpty l] (A B : Matrix l n R) : A = B := by
  ext i; exact isEmptyElim i

theorem eq_of_isEmpty_cols [IsEmpty n] (A B : Matrix l n R) : A = B := by
  ext i j; exact isEmptyElim j

end empty

/-! ## 1. one reduction step of a whole complex, block form -/

section step
variable {R : Type*} [Ring R] {ρ κ : ℕ → Type*}
  [∀ i, Fintype (ρ i)] [∀ i, DecidableEq (ρ i)] [∀ i, Fintype (κ i)] [∀ i, DecidableEq (κ i)]

/-- the differential `C_{i+1} = ρ(i+1) ⊕ κ(i+1) → C_i = ρ i ⊕ κ i` -/
def stepM (a : ∀ i, Matrix (ρ i) (ρ (i + 1)) R) (b : ∀ i, Matrix (ρ i) (κ (i + 1)) R)
    (c : ∀ i, Matrix (κ i) (ρ (i + 1)) R) (dd : ∀ i, Matrix (κ i) (κ (i + 1)) R) (i : ℕ) :
    Matrix (ρ i ⊕ κ i) (ρ (i + 1) ⊕ κ (i + 1)) R :=
  fromBlocks (a i) (b i) (c i) (dd i)

/-- the reduced differential `S i = dd i − c i · ainv i · b i` (`= schurS` at the reduced degree, `= dd i` elsewhere) -/
def stepS (ainv : ∀ i, Matrix (ρ (i + 1)) (ρ i) R) (b : ∀ i, Matrix (ρ i) (κ (i + 1)) R)
    (c : ∀ i, Matrix (κ i) (ρ (i + 1)) R) (dd : ∀ i, Matrix (κ i) (κ (i + 1)) R) (i : ℕ) :
    Matrix (κ i) (κ (i + 1)) R :=
  dd i - c i * ainv i * b i

/-- forward map `[−c a⁻¹, 1]` (`= Ftgt` at the target degree, `[0 1] = Fsrc` at the source degree) -/
def stepF (ainv : ∀ i, Matrix (ρ (i + 1)) (ρ i) R) (c : ∀ i, Matrix (κ i) (ρ (i + 1)) R) (i : ℕ) :
    Matrix (κ i) (ρ i ⊕ κ i) R :=
  fromCols (-(c i * ainv i)) 1

/-- backward map `[−a⁻¹ b; 1]` (`= Bsrc` at the source degree, `[0; 1] = Btgt` at the target degree) -/
def stepB (ainv : ∀ i, Matrix (ρ (i + 1)) (ρ i) R) (b : ∀ i, Matrix (ρ i) (κ (i + 1)) R) :
    ∀ i, Matrix (ρ i ⊕ κ i) (κ i) R
  | 0 => fromRows 0 1
  | i + 1 => fromRows (-(ainv i * b i)) 1

/-- the homotopy `[[−a⁻¹, 0],[0, 0]]` -/
def stepH (ainv : ∀ i, Matrix (ρ (i + 1)) (ρ i) R) (i : ℕ) :
    Matrix (ρ (i + 1) ⊕ κ (i + 1)) (ρ i ⊕ κ i) R :=
  fromBlocks (-(ainv i)) 0 0 0

/-- the five block identities from which the homotopy equivalence follows by block algebra alone -/
structure StepIds (a : ∀ i, Matrix (ρ i) (ρ (i + 1)) R) (ainv : ∀ i, Matrix (ρ (i + 1)) (ρ i) R)
    (b : ∀ i, Matrix (ρ i) (κ (i + 1)) R) (c : ∀ i, Matrix (κ i) (ρ (i + 1)) R)
    (dd : ∀ i, Matrix (κ i) (κ (i + 1)) R) : Prop where
  u1 : ∀ i, c i - c i * ainv i * a i = -(stepS ainv b c dd i * (c (i + 1) * ainv (i + 1)))
  u2 : ∀ j, b (j + 1) - a (j + 1) * (ainv (j + 1) * b (j + 1)) = -(ainv j * b j * stepS ainv b c dd (j + 1))
  u3 : a 0 * ainv 0 = 1
  u4 : ∀ j, c (j + 1) * ainv (j + 1) * (ainv j * b j) = 0
  u5 : ∀ i, ainv i * b i * (c (i + 1) * ainv (i + 1)) - 1 = -(a (i + 1) * ainv (i + 1)) - ainv i * a i

/-- block algebra: the five identities give the homotopy equivalence of the whole complex -/
theorem StepIds.isHomotopyEquiv {a : ∀ i, Matrix (ρ i) (ρ (i + 1)) R} {ainv : ∀ i, Matrix (ρ (i + 1)) (ρ i) R}
    {b : ∀ i, Matrix (ρ i) (κ (i + 1)) R} {c : ∀ i, Matrix (κ i) (ρ (i + 1)) R}
    {dd : ∀ i, Matrix (κ i) (κ (i + 1)) R} (u : StepIds a ainv b c dd) :
    IsHomotopyEquiv (stepM a b c dd) (stepS ainv b c dd) (stepF ainv c) (stepB ainv b) (stepH ainv) where
  F_comm i := by
    have h1 := u.u1 i
    simp only [stepF, stepM, fromCols_mul_fromBlocks, mul_fromCols, fromCols_ext_iff, Matrix.one_mul,
      Matrix.mul_one, Matrix.neg_mul, Matrix.mul_neg]
    refine ⟨?_, ?_⟩
    · rw [← h1]; abel
    · simp only [stepS]; abel
  B_comm i := by
    cases i with
    | zero =>
      have h3 := u.u3
      simp only [stepB, stepM, fromBlocks_mul_fromRows, fromRows_mul, fromRows_ext_iff, Matrix.one_mul,
        Matrix.mul_one, Matrix.mul_neg, Matrix.zero_mul]
      refine ⟨?_, ?_⟩
      · rw [← Matrix.mul_assoc, h3, Matrix.one_mul]; abel
      · simp only [stepS, Matrix.mul_assoc]; abel
    | succ j =>
      have h2 := u.u2 j
      simp only [stepB, stepM, fromBlocks_mul_fromRows, fromRows_mul, fromRows_ext_iff, Matrix.one_mul,
        Matrix.mul_one, Matrix.mul_neg, Matrix.neg_mul]
      refine ⟨?_, ?_⟩
      · rw [← h2]; abel
      · simp only [stepS, Matrix.mul_assoc]; abel
  FB i := by
    cases i with
    | zero => simp [stepF, stepB, fromCols_mul_fromRows]
    | succ j =>
      have h4 := u.u4 j
      simp only [stepF, stepB, fromCols_mul_fromRows, Matrix.one_mul, Matrix.neg_mul, Matrix.mul_neg, neg_neg, h4,
        zero_add]
  htpy_zero := by
    have h3 := u.u3
    simp only [stepF, stepB, stepM, stepH]
    rw [fromRows_mul_fromCols, fromBlocks_multiply, ← fromBlocks_one, sub_eq_add_neg, fromBlocks_neg,
      fromBlocks_add, fromBlocks_inj]
    simp [h3]
  htpy_succ i := by
    have h5 := u.u5 i
    simp only [stepF, stepB, stepM, stepH]
    rw [fromRows_mul_fromCols, fromBlocks_multiply, fromBlocks_multiply, ← fromBlocks_one, sub_eq_add_neg,
      fromBlocks_neg, fromBlocks_add, fromBlocks_add, fromBlocks_inj]
    refine ⟨?_, ?_, ?_, ?_⟩
    · simp only [Matrix.neg_mul, Matrix.mul_neg, neg_neg, Matrix.mul_zero, Matrix.zero_mul, add_zero]
      rw [← sub_eq_add_neg, h5]; abel
    · simp
    · simp
    · simp

/-- the five identities hold for a reduction step at degree `k`: the removed parts `ρ i` are empty unless `i = k` or
`i = k+1`, `a k` has the two-sided inverse `ainv k`, and consecutive differentials compose to zero -/
theorem stepIds_of_step {a : ∀ i, Matrix (ρ i) (ρ (i + 1)) R} {ainv : ∀ i, Matrix (ρ (i + 1)) (ρ i) R}
    {b : ∀ i, Matrix (ρ i) (κ (i + 1)) R} {c : ∀ i, Matrix (κ i) (ρ (i + 1)) R}
    {dd : ∀ i, Matrix (κ i) (κ (i + 1)) R} (k : ℕ)
    (hE : ∀ i, i ≠ k → i ≠ k + 1 → IsEmpty (ρ i))
    (hia : ainv k * a k = 1) (hai : a k * ainv k = 1)
    (hM : ∀ i, stepM a b c dd i * stepM a b c dd (i + 1) = 0) : StepIds a ainv b c dd := by
  have blocks : ∀ i, (a i * a (i + 1) + b i * c (i + 1) = 0 ∧ a i * b (i + 1) + b i * dd (i + 1) = 0) ∧
      c i * a (i + 1) + dd i * c (i + 1) = 0 ∧ c i * b (i + 1) + dd i * dd (i + 1) = 0 := by
    intro i
    have := hM i
    simp only [stepM] at this
    rw [fromBlocks_multiply, ← fromBlocks_zero, fromBlocks_inj] at this
    exact ⟨⟨this.1, this.2.1⟩, this.2.2.1, this.2.2.2⟩
  refine ⟨?_, ?_, ?_, ?_, ?_⟩
  · -- u1
    intro i
    by_cases h1 : i = k
    · subst h1
      have : IsEmpty (ρ (i + 1 + 1)) := hE _ (by omega) (by omega)
      rw [mul_eq_zero_of_isEmpty_mid (c (i + 1)) (ainv (i + 1)), Matrix.mul_zero, neg_zero, Matrix.mul_assoc, hia,
        Matrix.mul_one, sub_self]
    · by_cases h2 : i + 1 = k
      · subst h2
        have : IsEmpty (ρ i) := hE _ (by omega) (by omega)
        have h3 := (blocks i).2.1
        have h4 : c i * a (i + 1) * ainv (i + 1) + dd i * c (i + 1) * ainv (i + 1) = 0 := by
          rw [← Matrix.add_mul, h3, Matrix.zero_mul]
        rw [Matrix.mul_assoc, hai, Matrix.mul_one] at h4
        simp only [stepS]
        rw [mul_eq_zero_of_isEmpty_mid (c i * ainv i) (a i), mul_eq_zero_of_isEmpty_mid (c i * ainv i) (b i),
          sub_zero, sub_zero, ← Matrix.mul_assoc]
        exact eq_neg_of_add_eq_zero_left h4
      · have : IsEmpty (ρ (i + 1)) := hE _ (by omega) (by omega)
        exact eq_of_isEmpty_cols _ _
  · -- u2
    intro j
    by_cases h1 : j + 1 = k
    · subst h1
      have : IsEmpty (ρ j) := hE _ (by omega) (by omega)
      rw [mul_eq_zero_of_isEmpty_mid (ainv j) (b j), Matrix.zero_mul, neg_zero, ← Matrix.mul_assoc, hai,
        Matrix.one_mul, sub_self]
    · by_cases h2 : j = k
      · subst h2
        have : IsEmpty (ρ (j + 1 + 1)) := hE _ (by omega) (by omega)
        have h3 := (blocks j).1.2
        have h4 : ainv j * (a j * b (j + 1)) + ainv j * (b j * dd (j + 1)) = 0 := by
          rw [← Matrix.mul_add, h3, Matrix.mul_zero]
        rw [← Matrix.mul_assoc, hia, Matrix.one_mul] at h4
        simp only [stepS]
        rw [mul_eq_zero_of_isEmpty_mid (c (j + 1)) (ainv (j + 1)), Matrix.zero_mul, sub_zero,
          mul_eq_zero_of_isEmpty_mid (a (j + 1)) (ainv (j + 1) * b (j + 1)), sub_zero, Matrix.mul_assoc]
        exact eq_neg_of_add_eq_zero_left h4
      · have : IsEmpty (ρ (j + 1)) := hE _ (by omega) (by omega)
        exact eq_of_isEmpty_rows _ _
  · -- u3
    by_cases h1 : 0 = k
    · subst h1; exact hai
    · have : IsEmpty (ρ 0) := hE _ h1 (by omega)
      exact eq_of_isEmpty_rows _ _
  · -- u4
    intro j
    by_cases h1 : j = k
    · subst h1
      have : IsEmpty (ρ (j + 1 + 1)) := hE _ (by omega) (by omega)
      rw [mul_eq_zero_of_isEmpty_mid (c (j + 1)) (ainv (j + 1)), Matrix.zero_mul]
    · by_cases h2 : j = k + 1
      · subst h2
        have : IsEmpty (ρ (k + 1 + 1 + 1)) := hE _ (by omega) (by omega)
        rw [mul_eq_zero_of_isEmpty_mid (c (k + 1 + 1)) (ainv (k + 1 + 1)), Matrix.zero_mul]
      · have : IsEmpty (ρ j) := hE _ h1 h2
        rw [mul_eq_zero_of_isEmpty_mid (ainv j) (b j), Matrix.mul_zero]
  · -- u5
    intro i
    by_cases h1 : i = k
    · subst h1
      have : IsEmpty (ρ (i + 1 + 1)) := hE _ (by omega) (by omega)
      rw [mul_eq_zero_of_isEmpty_mid (c (i + 1)) (ainv (i + 1)), Matrix.mul_zero,
        mul_eq_zero_of_isEmpty_mid (a (i + 1)) (ainv (i + 1)), hia]
      abel
    · by_cases h2 : i + 1 = k
      · subst h2
        have : IsEmpty (ρ i) := hE _ (by omega) (by omega)
        rw [mul_eq_zero_of_isEmpty_mid (ainv i) (b i), Matrix.zero_mul,
          mul_eq_zero_of_isEmpty_mid (ainv i) (a i), hai]
        abel
      · have : IsEmpty (ρ (i + 1)) := hE _ (by omega) (by omega)
        exact eq_of_isEmpty_rows _ _

end step

/-- away from the reduced degree the reduced differential is just the `κ`-block -/
theorem stepS_of_isEmpty_left {ρ κ : ℕ → Type*} {R : Type*} [Ring R] [∀ i, Fintype (ρ i)]
    (ainv : ∀ i, Matrix (ρ (i + 1)) (ρ i) R) (b : ∀ i, Matrix (ρ i) (κ (i + 1)) R)
    (c : ∀ i, Matrix (κ i) (ρ (i + 1)) R) (dd : ∀ i, Matrix (κ i) (κ (i + 1)) R) (i : ℕ) [IsEmpty (ρ i)] :
    stepS ainv b c dd i = dd i := by
  rw [stepS, mul_eq_zero_of_isEmpty_mid (c i * ainv i) (b i), sub_zero]

theorem stepS_of_isEmpty_right {ρ κ : ℕ → Type*} {R : Type*} [Ring R] [∀ i, Fintype (ρ i)]
    (ainv : ∀ i, Matrix (ρ (i + 1)) (ρ i) R) (b : ∀ i, Matrix (ρ i) (κ (i + 1)) R)
    (c : ∀ i, Matrix (κ i) (ρ (i + 1)) R) (dd : ∀ i, Matrix (κ i) (κ (i + 1)) R) (i : ℕ) [IsEmpty (ρ (i + 1))] :
    stepS ainv b c dd i = dd i := by
  rw [stepS, mul_eq_zero_of_isEmpty_mid (c i) (ainv i), Matrix.zero_mul, sub_zero]

/-- a family with a prescribed member (used to extend the inverse of the pivot block to a family indexed by all degrees;
the other members never matter: they are matrices with an empty index type) -/
theorem exists_family {T : ℕ → Type*} [∀ i, Zero (T i)] (k : ℕ) (X : T k) : ∃ f : ∀ i, T i, f k = X :=
  ⟨fun i => if h : i = k then cast (by rw [h]) X else 0, by simp⟩

/-! ## 2. renaming the bases -/

section reindex
variable {R : Type*} [Ring R] {ι κ : ℕ → Type*}
  [∀ i, Fintype (ι i)] [∀ i, DecidableEq (ι i)] [∀ i, Fintype (κ i)] [∀ i, DecidableEq (κ i)]

theorem one_submatrix_mul {l m n : Type*} [Fintype m] [DecidableEq m] (e : l → m) (M : Matrix m n R) :
    (1 : Matrix m m R).submatrix e id * M = M.submatrix e id := by
  have := Matrix.submatrix_mul_equiv (1 : Matrix m m R) M e (Equiv.refl m) id
  simpa using this

theorem mul_one_submatrix {l m n : Type*} [Fintype m] [DecidableEq m] (e : l → m) (M : Matrix n m R) :
    M * (1 : Matrix m m R).submatrix id e = M.submatrix id e := by
  have := Matrix.submatrix_mul_equiv M (1 : Matrix m m R) id (Equiv.refl m) e
  simpa using this

/-- renaming the basis of every chain module by a bijection `e i : κ i ≃ ι i` (in the reducer: the permutations returned
by `perms_by_pivots`, also a change of index TYPE) is a homotopy equivalence with `h = 0` -/
theorem IsHomotopyEquiv.of_reindex (d : ∀ i, Matrix (ι i) (ι (i + 1)) R) (e : ∀ i, κ i ≃ ι i) :
    IsHomotopyEquiv d (fun i => (d i).submatrix (e i) (e (i + 1)))
      (fun i => (1 : Matrix (ι i) (ι i) R).submatrix (e i) id)
      (fun i => (1 : Matrix (ι i) (ι i) R).submatrix id (e i)) (fun _ => 0) where
  F_comm i := by
    show (1 : Matrix (ι i) (ι i) R).submatrix (e i) id * d i
      = (d i).submatrix (e i) (e (i + 1)) * (1 : Matrix (ι (i + 1)) (ι (i + 1)) R).submatrix (e (i + 1)) id
    rw [one_submatrix_mul, Matrix.submatrix_mul_equiv, Matrix.mul_one]
  B_comm i := by
    show d i * (1 : Matrix (ι (i + 1)) (ι (i + 1)) R).submatrix id (e (i + 1))
      = (1 : Matrix (ι i) (ι i) R).submatrix id (e i) * (d i).submatrix (e i) (e (i + 1))
    rw [mul_one_submatrix, Matrix.submatrix_mul_equiv, Matrix.one_mul]
  FB i := by
    show (1 : Matrix (ι i) (ι i) R).submatrix (e i) id * (1 : Matrix (ι i) (ι i) R).submatrix id (e i) = 1
    rw [one_submatrix_mul, Matrix.submatrix_submatrix]
    simp
  htpy_zero := by
    show (1 : Matrix (ι 0) (ι 0) R).submatrix id (e 0) * (1 : Matrix (ι 0) (ι 0) R).submatrix (e 0) id - 1 = d 0 * 0
    rw [Matrix.submatrix_mul_equiv, Matrix.mul_one, Matrix.submatrix_id_id, sub_self, Matrix.mul_zero]
  htpy_succ i := by
    show (1 : Matrix (ι (i + 1)) (ι (i + 1)) R).submatrix id (e (i + 1))
      * (1 : Matrix (ι (i + 1)) (ι (i + 1)) R).submatrix (e (i + 1)) id - 1 = d (i + 1) * 0 + 0 * d i
    rw [Matrix.submatrix_mul_equiv, Matrix.mul_one, Matrix.submatrix_id_id, sub_self, Matrix.mul_zero,
      Matrix.zero_mul, add_zero]

end reindex

/-! ## 3. pivots: the matrix-level statement of what `find_pivots` returns -/

section pivots
variable {R : Type*} [CommRing R] {m n : ℕ}

/-- the matrix read at natural-number coordinates (`0` outside) -/
def entry (A : Matrix (Fin m) (Fin n) R) (i j : ℕ) : R :=
  if h : i < m ∧ j < n then A ⟨i, h.1⟩ ⟨j, h.2⟩ else 0

theorem entry_of_lt (A : Matrix (Fin m) (Fin n) R) {i j : ℕ} (hi : i < m) (hj : j < n) :
    entry A i j = A ⟨i, hi⟩ ⟨j, hj⟩ := by
  simp [entry, hi, hj]

/-- `P` (matrix coordinates `(row, col)`, in the order returned by `find_pivots`) is a valid pivot list of `A`:
in range, rows pairwise distinct, columns pairwise distinct, every pivot entry a unit, and for `p` before `q` the entry
`(row q, col p)` vanishes (`upper = true`, `PivotType::Rows`) resp. the entry `(row p, col q)` (`upper = false`, `Cols`) -/
structure TriPivots (A : Matrix (Fin m) (Fin n) R) (upper : Bool) (P : List (ℕ × ℕ)) : Prop where
  bound : ∀ p ∈ P, p.1 < m ∧ p.2 < n
  rows : (P.map (·.1)).Nodup
  cols : (P.map (·.2)).Nodup
  unit : ∀ p ∈ P, IsUnit (entry A p.1 p.2)
  tri : P.Pairwise (fun p q => if upper then entry A q.1 p.2 = 0 else entry A p.1 q.2 = 0)

/-- row of the `x`-th pivot: where `perm_for_indices(m, pivs.map(|(i,_)| i))` sends position `x` -/
def pivRow (P : List (ℕ × ℕ)) (hb : ∀ p ∈ P, p.1 < m ∧ p.2 < n) (x : Fin P.length) : Fin m :=
  ⟨(P[x.1]).1, (hb _ (List.getElem_mem x.2)).1⟩

/-- column of the `x`-th pivot -/
def pivCol (P : List (ℕ × ℕ)) (hb : ∀ p ∈ P, p.1 < m ∧ p.2 < n) (x : Fin P.length) : Fin n :=
  ⟨(P[x.1]).2, (hb _ (List.getElem_mem x.2)).2⟩

/-- the leading `r × r` block of the matrix permuted by `perms_by_pivots` -/
def pivBlock (A : Matrix (Fin m) (Fin n) R) (P : List (ℕ × ℕ)) (hb : ∀ p ∈ P, p.1 < m ∧ p.2 < n) :
    Matrix (Fin P.length) (Fin P.length) R :=
  A.submatrix (pivRow P hb) (pivCol P hb)

theorem pivBlock_apply (A : Matrix (Fin m) (Fin n) R) (P : List (ℕ × ℕ)) (hb : ∀ p ∈ P, p.1 < m ∧ p.2 < n)
    (x y : Fin P.length) : pivBlock A P hb x y = entry A (P[x.1]).1 (P[y.1]).2 := by
  rw [entry_of_lt A (hb _ (List.getElem_mem x.2)).1 (hb _ (List.getElem_mem y.2)).2]
  rfl

theorem pivRow_injective {P : List (ℕ × ℕ)} (hb : ∀ p ∈ P, p.1 < m ∧ p.2 < n) (h : (P.map (·.1)).Nodup) :
    Function.Injective (pivRow P hb) := by
  intro x y hxy
  have h1 : (P[x.1]).1 = (P[y.1]).1 := congrArg Fin.val hxy
  have hx : x.1 < (P.map (·.1)).length := by simp
  have hy : y.1 < (P.map (·.1)).length := by simp
  have h2 : (P.map (·.1))[x.1] = (P.map (·.1))[y.1] := by simpa using h1
  exact Fin.ext ((List.Nodup.getElem_inj_iff h).1 h2)

theorem pivCol_injective {P : List (ℕ × ℕ)} (hb : ∀ p ∈ P, p.1 < m ∧ p.2 < n) (h : (P.map (·.2)).Nodup) :
    Function.Injective (pivCol P hb) := by
  intro x y hxy
  have h1 : (P[x.1]).2 = (P[y.1]).2 := congrArg Fin.val hxy
  have hx : x.1 < (P.map (·.2)).length := by simp
  have hy : y.1 < (P.map (·.2)).length := by simp
  have h2 : (P.map (·.2))[x.1] = (P.map (·.2))[y.1] := by simpa using h1
  exact Fin.ext ((List.Nodup.getElem_inj_iff h).1 h2)

variable {A : Matrix (Fin m) (Fin n) R} {upper : Bool} {P : List (ℕ × ℕ)}

theorem TriPivots.diag_unit (h : TriPivots A upper P) (x : Fin P.length) : IsUnit (pivBlock A P h.bound x x) := by
  rw [pivBlock_apply]; exact h.unit _ (List.getElem_mem x.2)

theorem TriPivots.upper_tri (h : TriPivots A true P) : (pivBlock A P h.bound).BlockTriangular id := by
  intro x y hxy
  rw [pivBlock_apply]
  have := (List.pairwise_iff_getElem.1 h.tri) y.1 x.1 y.2 x.2 hxy
  simpa using this

theorem TriPivots.lower_tri (h : TriPivots A false P) :
    (pivBlock A P h.bound).BlockTriangular OrderDual.toDual := by
  intro x y hxy
  rw [pivBlock_apply]
  have hlt : x.1 < y.1 := hxy
  have := (List.pairwise_iff_getElem.1 h.tri) x.1 y.1 x.2 y.2 hlt
  simpa using this

/-- the determinant of the leading block is the product of the pivot entries, hence a unit -/
theorem TriPivots.det_isUnit (h : TriPivots A upper P) : IsUnit (pivBlock A P h.bound).det := by
  have hprod : IsUnit (∏ x, pivBlock A P h.bound x x) :=
    (IsUnit.prod_univ_iff).2 fun x => h.diag_unit x
  cases upper with
  | true => rw [Matrix.det_of_upperTriangular h.upper_tri]; exact hprod
  | false => rw [Matrix.det_of_lowerTriangular _ h.lower_tri]; exact hprod

end pivots

/-! ## 4. bundled complexes, homotopy equivalence as a relation, one step in a whole complex -/

/-- a chain complex of finite free modules `… → C_{i+1} --d i--> C_i → … → C_0` (convention of `IsReduction`) -/
structure Cpx (R : Type) [CommRing R] where
  ι : ℕ → Type
  [fin : ∀ i, Fintype (ι i)]
  [dec : ∀ i, DecidableEq (ι i)]
  d : ∀ i, Matrix (ι i) (ι (i + 1)) R
  sq : ∀ i, d i * d (i + 1) = 0

attribute [instance] Cpx.fin Cpx.dec

section cpx
variable {R : Type} [CommRing R]

/-- `C'` is a reduction of `C` with a chain homotopy `B F − 1 = d h + h d` (and `F B = 1`) -/
def HEquiv (C C' : Cpx R) : Prop := ∃ F B h, IsHomotopyEquiv C.d C'.d F B h

theorem HEquiv.refl (C : Cpx R) : HEquiv C C := ⟨_, _, _, IsHomotopyEquiv.refl C.d⟩

theorem HEquiv.trans {C C' C'' : Cpx R} (h₁ : HEquiv C C') (h₂ : HEquiv C' C'') : HEquiv C C'' := by
  obtain ⟨F₁, B₁, k₁, e₁⟩ := h₁
  obtain ⟨F₂, B₂, k₂, e₂⟩ := h₂
  exact ⟨_, _, _, e₁.comp e₂⟩

theorem HEquiv.homology {C C' : Cpx R} (h : HEquiv C C') (n : ℕ) : Nonempty (Hn C.d n ≃ₗ[R] Hn C'.d n) := by
  obtain ⟨F, B, k, e⟩ := h
  exact ⟨e.homologyIso n⟩

/-- the shape of a reduction step of `C` at degree `k` (on `d k : C_{k+1} → C_k`): every chain module is split by a
bijection `e i : ρ i ⊕ κ i ≃ ι i` into a removed part `ρ i` and a kept part `κ i`; nothing is removed outside the
degrees `k`, `k+1`.  In the reducer `e k`, `e (k+1)` are the permutations of `perms_by_pivots` (pivot rows / columns
first) and `e i` is the identity elsewhere. -/
structure StepShape (C : Cpx R) (k : ℕ) where
  ρ : ℕ → Type
  κ : ℕ → Type
  [finρ : ∀ i, Fintype (ρ i)]
  [decρ : ∀ i, DecidableEq (ρ i)]
  [finκ : ∀ i, Fintype (κ i)]
  [decκ : ∀ i, DecidableEq (κ i)]
  e : ∀ i, ρ i ⊕ κ i ≃ C.ι i
  empty : ∀ i, i ≠ k → i ≠ k + 1 → IsEmpty (ρ i)

attribute [instance] StepShape.finρ StepShape.decρ StepShape.finκ StepShape.decκ

namespace StepShape
variable {C : Cpx R} {k : ℕ} (S : StepShape C k)

/-- the permuted differential -/
def blk (i : ℕ) : Matrix (S.ρ i ⊕ S.κ i) (S.ρ (i + 1) ⊕ S.κ (i + 1)) R := (C.d i).submatrix (S.e i) (S.e (i + 1))
/-- its four blocks; `a k` is the pivot block -/
def a (i : ℕ) : Matrix (S.ρ i) (S.ρ (i + 1)) R := (S.blk i).toBlocks₁₁
def b (i : ℕ) : Matrix (S.ρ i) (S.κ (i + 1)) R := (S.blk i).toBlocks₁₂
def c (i : ℕ) : Matrix (S.κ i) (S.ρ (i + 1)) R := (S.blk i).toBlocks₂₁
def dd (i : ℕ) : Matrix (S.κ i) (S.κ (i + 1)) R := (S.blk i).toBlocks₂₂

theorem blk_eq (i : ℕ) : S.blk i = stepM S.a S.b S.c S.dd i := (fromBlocks_toBlocks _).symm

theorem blk_sq (i : ℕ) : stepM S.a S.b S.c S.dd i * stepM S.a S.b S.c S.dd (i + 1) = 0 := by
  rw [← blk_eq, ← blk_eq, blk, blk, Matrix.submatrix_mul_equiv, C.sq, Matrix.submatrix_zero]
  rfl

/-- the homotopy equivalence of the whole complex for a step whose pivot block `a k` is invertible -/
theorem isHomotopyEquiv (ainv : ∀ i, Matrix (S.ρ (i + 1)) (S.ρ i) R)
    (hia : ainv k * S.a k = 1) (hai : S.a k * ainv k = 1) :
    ∃ F B h, IsHomotopyEquiv C.d (stepS ainv S.b S.c S.dd) F B h := by
  have e1 := IsHomotopyEquiv.of_reindex C.d S.e
  have hfun : (fun i => (C.d i).submatrix (S.e i) (S.e (i + 1))) = stepM S.a S.b S.c S.dd :=
    funext fun i => S.blk_eq i
  rw [hfun] at e1
  have e2 := (stepIds_of_step k S.empty hia hai S.blk_sq).isHomotopyEquiv
  exact ⟨_, _, _, e1.comp e2⟩

/-- the reduced complex: kept parts `κ i`, differential `dd k − c k · a k⁻¹ · b k` at degree `k` and the kept block
`dd i` elsewhere (`reduced_d_of_ne`) -/
def reduced (ainv : ∀ i, Matrix (S.ρ (i + 1)) (S.ρ i) R)
    (hia : ainv k * S.a k = 1) (hai : S.a k * ainv k = 1) : Cpx R where
  ι := S.κ
  d := stepS ainv S.b S.c S.dd
  sq := by
    obtain ⟨F, B, h, e⟩ := S.isHomotopyEquiv ainv hia hai
    exact e.toIsReduction.sq_zero C.sq

theorem hEquiv (ainv : ∀ i, Matrix (S.ρ (i + 1)) (S.ρ i) R)
    (hia : ainv k * S.a k = 1) (hai : S.a k * ainv k = 1) : HEquiv C (S.reduced ainv hia hai) :=
  S.isHomotopyEquiv ainv hia hai

theorem reduced_d_of_ne (ainv : ∀ i, Matrix (S.ρ (i + 1)) (S.ρ i) R)
    (hia : ainv k * S.a k = 1) (hai : S.a k * ainv k = 1) (i : ℕ) (hi : i ≠ k) :
    (S.reduced ainv hia hai).d i = S.dd i := by
  show stepS ainv S.b S.c S.dd i = S.dd i
  by_cases h1 : i = k + 1
  · subst h1
    have : IsEmpty (S.ρ (k + 1 + 1)) := S.empty _ (by omega) (by omega)
    exact stepS_of_isEmpty_right _ _ _ _ _
  · have : IsEmpty (S.ρ i) := S.empty _ hi h1
    exact stepS_of_isEmpty_left _ _ _ _ _

/-- (S1) at the level of the step: if the removed rows / columns at degree `k` are the pivots of a `TriPivots` list, in
list order (what `perms_by_pivots` does), the pivot block `a k` is the triangular block `pivBlock` and has a two-sided
inverse -/
theorem exists_inv_of_pivots {m n : ℕ} (eT : Fin m ≃ C.ι k) (eS : Fin n ≃ C.ι (k + 1))
    {upper : Bool} {P : List (ℕ × ℕ)} (hP : TriPivots ((C.d k).submatrix eT eS) upper P)
    (er : Fin P.length ≃ S.ρ k) (es : Fin P.length ≃ S.ρ (k + 1))
    (hr : ∀ x, S.e k (Sum.inl (er x)) = eT (pivRow P hP.bound x))
    (hc : ∀ x, S.e (k + 1) (Sum.inl (es x)) = eS (pivCol P hP.bound x)) :
    S.a k = (pivBlock ((C.d k).submatrix eT eS) P hP.bound).submatrix er.symm es.symm ∧
    ∃ X : Matrix (S.ρ (k + 1)) (S.ρ k) R, X * S.a k = 1 ∧ S.a k * X = 1 := by
  have ha : S.a k = (pivBlock ((C.d k).submatrix eT eS) P hP.bound).submatrix er.symm es.symm := by
    ext x y
    have h1 := hr (er.symm x)
    have h2 := hc (es.symm y)
    rw [Equiv.apply_symm_apply] at h1 h2
    show C.d k (S.e k (Sum.inl x)) (S.e (k + 1) (Sum.inl y)) = _
    rw [h1, h2]
    rfl
  refine ⟨ha, ((pivBlock ((C.d k).submatrix eT eS) P hP.bound)⁻¹).submatrix es.symm er.symm, ?_, ?_⟩
  · rw [ha, Matrix.submatrix_mul_equiv, Matrix.nonsing_inv_mul _ hP.det_isUnit, Matrix.submatrix_one_equiv]
  · rw [ha, Matrix.submatrix_mul_equiv, Matrix.mul_nonsing_inv _ hP.det_isUnit, Matrix.submatrix_one_equiv]

end StepShape

end cpx

/-! ## 5. from the CSC storage of C11 to a matrix over a ring -/

section bridge
open Yuiv.C11
variable {R : Type} [CommRing R]

/-- the CSC storage `a` of `Model/C11New.lean` — whose values are the four observations `MatrixStr::new` makes of a ring
element — describes the matrix `A` truthfully: where no non-zero value is stored the entry is `0`; `is_pm_one()` is
only true of `±1`; `is_unit()` is only true of units -/
structure Represents (a : Csc) (A : Matrix (Fin a.nrows) (Fin a.ncols) R) : Prop where
  zero : ∀ (i : Fin a.nrows) (j : Fin a.ncols), (∀ r, ¬ a.Stored i.1 j.1 r) → A i j = 0
  pmOne : ∀ (i : Fin a.nrows) (j : Fin a.ncols) (r : Scl), a.Stored i.1 j.1 r → r.pmOne = true →
    A i j = 1 ∨ A i j = -1
  unit : ∀ (i : Fin a.nrows) (j : Fin a.ncols) (r : Scl), a.Stored i.1 j.1 r → r.unit = true → IsUnit (A i j)

/-- the conclusion of `C11.find_pivots_triangular_in_matrix` about a list `L` of pivots in INTERNAL coordinates -/
def PivSpec (a : Csc) (t : PivType) (c : Cond) (L : List (ℕ × ℕ)) : Prop :=
  (L.map (·.1)).Nodup ∧ (L.map (·.2)).Nodup ∧
  (∀ p ∈ L, ∃ r, a.Stored (t.swap p.1 p.2).1 (t.swap p.1 p.2).2 r ∧ c.isCand r = true) ∧
  L.Pairwise (fun p q => ∀ r, ¬ a.Stored (t.swap q.1 p.2).1 (t.swap q.1 p.2).2 r)

/-- the pivots in matrix coordinates `(row, col)`: what `find_pivots` returns (`result()` maps back through `t`) -/
def matPivots (t : PivType) (L : List (ℕ × ℕ)) : List (ℕ × ℕ) := L.map fun p => t.swap p.1 p.2

/-- `PivotType::Rows ↦ TriangularType::Upper`, `Cols ↦ Lower` (`reduce_at_spec`) -/
def isUpper : PivType → Bool
  | .rows => true
  | .cols => false

theorem entry_zero_of_not_stored {a : Csc} {A : Matrix (Fin a.nrows) (Fin a.ncols) R} (hA : Represents a A)
    (i j : ℕ) (h : ∀ r, ¬ a.Stored i j r) : entry A i j = 0 := by
  unfold entry
  split
  · exact hA.zero _ _ h
  · rfl

theorem cand_unit {a : Csc} (ha : a.Valid) {A : Matrix (Fin a.nrows) (Fin a.ncols) R} (hA : Represents a A)
    (c : Cond) (i j : ℕ) (r : Scl) (hs : a.Stored i j r) (hc : c.isCand r = true) :
    (i < a.nrows ∧ j < a.ncols) ∧ IsUnit (entry A i j) := by
  have hj : j < a.ncols := hs.1
  have hi : i < a.nrows := (ha j hj).2 _ hs.2.1
  refine ⟨⟨hi, hj⟩, ?_⟩
  rw [entry_of_lt A hi hj]
  cases c with
  | one =>
    rcases hA.pmOne ⟨i, hi⟩ ⟨j, hj⟩ r hs hc with h | h
    · rw [h]; exact isUnit_one
    · rw [h]; exact isUnit_one.neg
  | weight w2 =>
    simp only [Cond.isCand, Bool.and_eq_true] at hc
    exact hA.unit ⟨i, hi⟩ ⟨j, hj⟩ r hs hc.1
  | anyUnit => exact hA.unit ⟨i, hi⟩ ⟨j, hj⟩ r hs hc

/-- (S1, first half) the pivots returned by ANY schedule of the search are a `TriPivots` list of the matrix -/
theorem triPivots_of_pivSpec {a : Csc} (ha : a.Valid) {A : Matrix (Fin a.nrows) (Fin a.ncols) R}
    (hA : Represents a A) (t : PivType) (c : Cond) (L : List (ℕ × ℕ)) (h : PivSpec a t c L) :
    TriPivots A (isUpper t) (matPivots t L) := by
  obtain ⟨hr, hc, hcand, htri⟩ := h
  cases t with
  | rows =>
    have hL : matPivots .rows L = L := by simp [matPivots, PivType.swap]
    rw [hL]
    refine ⟨fun p hp => ?_, hr, hc, fun p hp => ?_, ?_⟩
    · obtain ⟨r, hs, hcd⟩ := hcand p hp
      exact (cand_unit ha hA c _ _ r hs hcd).1
    · obtain ⟨r, hs, hcd⟩ := hcand p hp
      exact (cand_unit ha hA c _ _ r hs hcd).2
    · refine List.Pairwise.imp ?_ htri
      intro p q hpq
      simp only [isUpper, if_true]
      exact entry_zero_of_not_stored hA _ _ hpq
  | cols =>
    refine ⟨fun p hp => ?_, ?_, ?_, fun p hp => ?_, ?_⟩
    · obtain ⟨q, hq, rfl⟩ := List.mem_map.1 hp
      obtain ⟨r, hs, hcd⟩ := hcand q hq
      exact (cand_unit ha hA c _ _ r hs hcd).1
    · have : (matPivots .cols L).map (·.1) = L.map (·.2) := by simp [matPivots, PivType.swap]
      rw [this]; exact hc
    · have : (matPivots .cols L).map (·.2) = L.map (·.1) := by simp [matPivots, PivType.swap]
      rw [this]; exact hr
    · obtain ⟨q, hq, rfl⟩ := List.mem_map.1 hp
      obtain ⟨r, hs, hcd⟩ := hcand q hq
      exact (cand_unit ha hA c _ _ r hs hcd).2
    · rw [matPivots, List.pairwise_map]
      refine List.Pairwise.imp ?_ htri
      intro p q hpq
      simp only [isUpper, PivType.swap, Bool.false_eq_true, if_false]
      exact entry_zero_of_not_stored hA _ _ hpq

end bridge

/-! ## 6. one step of the reducer with some schedule, as a relation between complexes -/

section relation
open Yuiv.C11 Yuiv.Res
variable {R : Type} [CommRing R]

/-- `C'` is obtained from `C` by ONE `reduce_at_spec(k, t, c)` with SOME schedule of the parallel pivot search:
`a` is the CSC storage of `d k` (row / column numbering `eT`, `eS`), `acts` any interleaving of the workers, `keys` any
hash-map iteration order in `result()`, `L` the pivots returned; the step removes the pivot rows / columns in list order
(`perms_by_pivots`: `S.e k`, `S.e (k+1)` restricted to the removed part enumerate the pivots; the order of the rest is
free) and `C'` is the Schur complement complex for the inverse `ainv k` of the pivot block. -/
def ReducerStep (C C' : Cpx R) : Prop :=
  ∃ (k : ℕ) (a : Csc) (_ : a.Valid) (t : PivType) (c : Cond)
    (eT : Fin a.nrows ≃ C.ι k) (eS : Fin a.ncols ≃ C.ι (k + 1)) (_ : Represents a ((C.d k).submatrix eT eS))
    (s : Str) (_ : matrixStrNew a t c = ok s) (st0 : State) (_ : initState s = ok st0)
    (acts : List Act) (st : State) (os : List Outcome) (_ : run s st0 acts = ok (st, os))
    (keys : List ℕ) (_ : keys.Perm (st.S.map (·.2))) (L : List (ℕ × ℕ)) (_ : result s st.S keys = ok L)
    (hP : TriPivots ((C.d k).submatrix eT eS) (isUpper t) (matPivots t L))
    (S : StepShape C k) (er : Fin (matPivots t L).length ≃ S.ρ k) (es : Fin (matPivots t L).length ≃ S.ρ (k + 1))
    (_ : ∀ x, S.e k (Sum.inl (er x)) = eT (pivRow _ hP.bound x))
    (_ : ∀ x, S.e (k + 1) (Sum.inl (es x)) = eS (pivCol _ hP.bound x))
    (ainv : ∀ i, Matrix (S.ρ (i + 1)) (S.ρ i) R) (hia : ainv k * S.a k = 1) (hai : S.a k * ainv k = 1),
    C' = S.reduced ainv hia hai

theorem ReducerStep.hEquiv {C C' : Cpx R} (h : ReducerStep C C') : HEquiv C C' := by
  obtain ⟨k, a, _, t, c, eT, eS, _, s, _, st0, _, acts, st, os, _, keys, _, L, _, hP, S, er, es, _, _, ainv, hia,
    hai, rfl⟩ := h
  exact S.hEquiv ainv hia hai

theorem reflTransGen_hEquiv {C C' : Cpx R} (h : Relation.ReflTransGen ReducerStep C C') : HEquiv C C' := by
  induction h with
  | refl => exact HEquiv.refl C
  | tail _ hstep ih => exact ih.trans hstep.hEquiv

end relation

end Yuiv.C08
