import Yuiv.Proofs.C19CommDefs
/-
C19Cone — ONE decidable per-instance check `khiInstanceOk l p` under which (`Props/C19Cone.lean`) the reference cone of
`1 + τ` is a chain complex over 𝔽₂ and τ is a degree preserving involutive chain map.  Core Lean + the models only (no
Mathlib): a driver can import this file and evaluate the check.  `validKB`, `edgeOKB`, `cubeOKB` are verbatim copies of
`C06Cycle.validK`, `C02Mirror.edgeOK`, `C02Mirror.cubeOK` (which live in Mathlib-importing files); the equalities are
proved in `Proofs/C19ConeSq.lean`.
-/
namespace Yuiv.C19Cone
open Yuiv Yuiv.KhRef Yuiv.C19 Yuiv.C19Inv Yuiv.C19Comm

/-- every crossing has four slots and every edge label occurs in exactly two slots (`C06Cycle.validK`) -/
def validKB (l : Link) : Bool :=
  let slots := l.toList.flatMap (fun c => c.e.toList)
  l.all (fun c => c.e.size == 4) && slots.all (fun x => slots.count x == 2)

/-- indices of the circles of `cs` that are not circles of `cs'` -/
def goneB (cs cs' : Array (Array Nat)) : Array Nat :=
  (Array.range cs.size).filter (fun i => !cs'.contains cs[i]!)

/-- the two circle lists differ by one merge or one split (`C02Mirror.edgeOK`) -/
def edgeOKB (cs cs' : Array (Array Nat)) : Bool :=
  ((goneB cs cs').size == 2 && (goneB cs' cs).size == 1) || ((goneB cs cs').size == 1 && (goneB cs' cs).size == 2)

/-- every edge of the cube is a merge or a split (`C02Mirror.cubeOK`; exactly the test `Cube.d` performs) -/
def cubeOKB (c : Cube) : Bool :=
  allBelow (2 ^ c.n) (fun s => allBelow c.n (fun k => s.testBit k || edgeOKB c.circ[s]! c.circ[s ||| 1 <<< k]!))

/-- the reduced theory is only a complex for `t = 0`, and the base point must be an edge label (no condition when the
theory is unreduced or there is no base point) -/
def redOk (l : InvLink) (p : Params) : Bool :=
  !p.reduced ||
    (match l.base with
     | none => true
     | some e => p.t == 0 && (edgeLabels l.link).contains e)

/-- THE per-instance check: valid planar-diagram code with at most 64 edge labels, `mkICube` succeeds, every cube edge is
a merge or a split, the strengthened τ-check of `Props/C19Comm` holds with `F` = sorted image under the label involution,
the crossing positions are permuted by an involution, and (reduced theory) `t = 0` with a base point on the diagram -/
def khiInstanceOk (l : InvLink) (p : Params) : Bool :=
  validKB l.link && decide ((edgeLabels l.link).size ≤ 64) && piInvolB l && redOk l p &&
    (match mkICube l p with
     | some ic => cubeOKB ic.cube && icubeWf' (circImg l.invE) ic
     | none => false)

end Yuiv.C19Cone
