import Yuiv.Proofs.C06CycleDefs
import Mathlib.Algebra.BigOperators.Group.List.Lemmas
/-
C06Cycle — the arc relation of a neighbouring state.

Flipping one unresolved crossing `x` of a VALID diagram (every label in exactly two slots) from its 0- to its
1-resolution, when the two arcs of `x` in the state `s` lie on two DIFFERENT circles, merges these two circles and
leaves every other circle alone:

    Conn P' u v ↔ Conn P u v ∨ (A u ∧ A v),   A u := Conn P u a ∨ Conn P u c

(`P`, `P'` the arc pairs of `s`, `s' = s ||| 1 <<< k`; `a`, `c` labels on the two arcs of `x`).  The graph-theoretic
input is the parity lemma `even_special`: in a diagram all of whose labels occur exactly twice, a set of labels that
is closed under the arcs of all crossings but one contains an even number of the four slots of that crossing — so
cutting the arc `a—b` open leaves `a` and `b` connected through the rest of the circle.
-/
namespace Yuiv.C06Cycle
open Yuiv Yuiv.KhRef Yuiv.C04Inv
open Relation

/-! ### generated equivalence relations -/

theorem eqvGen_eq_of_le {r q : Nat → Nat → Prop} (hq : ∀ x y, q x y → r x y)
    (hr : ∀ x y, r x y → EqvGen q x y) (x y : Nat) : EqvGen r x y ↔ EqvGen q x y := by
  constructor
  · intro h
    induction h with
    | rel x y h => exact hr x y h
    | refl x => exact EqvGen.refl x
    | symm x y _ ih => exact EqvGen.symm _ _ ih
    | trans x y z _ _ ih1 ih2 => exact EqvGen.trans _ _ _ ih1 ih2
  · exact EqvGen.mono hq x y

/-- merging the classes of `a` and `c` -/
theorem eqvGen_merge {r q : Nat → Nat → Prop} (a c : Nat) (hq : ∀ x y, q x y → r x y)
    (hr : ∀ x y, r x y → EqvGen q x y ∨
      ((EqvGen q x a ∨ EqvGen q x c) ∧ (EqvGen q y a ∨ EqvGen q y c)))
    (hac : EqvGen r a c) (x y : Nat) :
    EqvGen r x y ↔ EqvGen q x y ∨ ((EqvGen q x a ∨ EqvGen q x c) ∧ (EqvGen q y a ∨ EqvGen q y c)) := by
  have sym : ∀ {u v}, EqvGen q u v → EqvGen q v u := fun h => EqvGen.symm _ _ h
  have tr : ∀ {u v w}, EqvGen q u v → EqvGen q v w → EqvGen q u w := fun h h' => EqvGen.trans _ _ _ h h'
  have hA : ∀ {u v}, EqvGen q u v → (EqvGen q v a ∨ EqvGen q v c) → (EqvGen q u a ∨ EqvGen q u c) := by
    intro u v huv hv
    rcases hv with h | h
    · exact Or.inl (tr huv h)
    · exact Or.inr (tr huv h)
  constructor
  · intro h
    induction h with
    | rel x y h => exact hr x y h
    | refl x => exact Or.inl (EqvGen.refl x)
    | symm x y _ ih =>
      rcases ih with h | ⟨h1, h2⟩
      · exact Or.inl (sym h)
      · exact Or.inr ⟨h2, h1⟩
    | trans x y z _ _ ih1 ih2 =>
      rcases ih1 with h | ⟨h1, h2⟩ <;> rcases ih2 with h' | ⟨h3, h4⟩
      · exact Or.inl (tr h h')
      · exact Or.inr ⟨hA h h3, h4⟩
      · exact Or.inr ⟨h1, hA (sym h') h2⟩
      · exact Or.inr ⟨h1, h4⟩
  · have up : ∀ {u v}, EqvGen q u v → EqvGen r u v := fun h => EqvGen.mono hq _ _ h
    have tr' : ∀ {u v w}, EqvGen r u v → EqvGen r v w → EqvGen r u w := fun h h' => EqvGen.trans _ _ _ h h'
    have hca : EqvGen r c a := EqvGen.symm _ _ hac
    rintro (h | ⟨h1, h2⟩)
    · exact up h
    · have toA : ∀ {u}, (EqvGen q u a ∨ EqvGen q u c) → EqvGen r u a := by
        intro u hu
        rcases hu with h | h
        · exact up h
        · exact tr' (up h) hca
      exact tr' (toA h1) (EqvGen.symm _ _ (toA h2))

/-! ### the pair list of a state, crossing by crossing -/

theorem mem_pairsL_iff (cs : List Crossing) (ts : List CT) (p : Nat × Nat) :
    p ∈ pairsL cs ts ↔ ∃ (j : Nat) (c : Crossing) (t : CT), cs[j]? = some c ∧ ts[j]? = some t ∧ p ∈ arcs c t := by
  induction cs generalizing ts with
  | nil => simp [pairsL]
  | cons c cs ih =>
    cases ts with
    | nil => simp [pairsL]
    | cons t ts =>
      simp only [pairsL, List.mem_append, ih]
      constructor
      · rintro (h | ⟨j, c', t', h1, h2, h3⟩)
        · exact ⟨0, c, t, rfl, rfl, h⟩
        · exact ⟨j + 1, c', t', by simpa using h1, by simpa using h2, h3⟩
      · rintro ⟨j, c', t', h1, h2, h3⟩
        cases j with
        | zero =>
          simp only [List.getElem?_cons_zero, Option.some.injEq] at h1 h2
          subst h1 h2
          exact Or.inl h3
        | succ j => exact Or.inr ⟨j, c', t', by simpa using h1, by simpa using h2, h3⟩

/-- number of unresolved crossings of a list -/
def unres (cs : List Crossing) : Nat := (cs.filter (fun c => !c.ct.isResolved)).length

theorem crossingNum_eq_unres (l : Link) : crossingNum l = unres l.toList := by
  unfold crossingNum unres
  rw [← Array.length_toList, Array.toList_filter]

theorem resTypes_resolved (cs : List Crossing) (s : Nat) : ∀ t ∈ resTypes cs s, t.isResolved = true := by
  induction cs generalizing s with
  | nil => simp [resTypes]
  | cons c cs ih =>
    intro t ht
    unfold resTypes at ht
    split at ht
    · rcases List.mem_cons.1 ht with rfl | h
      · assumption
      · exact ih _ _ h
    · rcases List.mem_cons.1 ht with rfl | h
      · rename_i hc
        cases hct : c.ct <;> simp [hct, CT.isResolved] at hc <;> cases s.testBit 0 <;> rfl
      · exact ih _ _ h

theorem or_shift_succ (s k : Nat) : (s ||| 1 <<< (k + 1)) / 2 = s / 2 ||| 1 <<< k := by
  rw [Nat.or_div_two]
  congr 1
  rw [Nat.shiftLeft_eq, Nat.shiftLeft_eq, Nat.pow_succ]
  omega

theorem or_shift_succ_bit0 (s k : Nat) : (s ||| 1 <<< (k + 1)).testBit 0 = s.testBit 0 := by
  simp

/-- flipping bit `k` of the state changes the type of exactly one crossing, the `k`-th unresolved one, from its
0-resolution to its 1-resolution -/
theorem resTypes_flip (cs : List Crossing) (s k : Nat) (hk : k < unres cs) (hb : s.testBit k = false) :
    ∃ (j : Nat) (c : Crossing), cs[j]? = some c ∧ c.ct.isResolved = false ∧
      (resTypes cs s)[j]? = some (c.ct.resolve false) ∧
      (resTypes cs (s ||| 1 <<< k))[j]? = some (c.ct.resolve true) ∧
      ∀ j', j' ≠ j → (resTypes cs (s ||| 1 <<< k))[j']? = (resTypes cs s)[j']? := by
  induction cs generalizing s k with
  | nil => simp [unres] at hk
  | cons c cs ih =>
    by_cases hc : c.ct.isResolved = true
    · have hk' : k < unres cs := by
        simpa [unres, List.filter_cons, hc] using hk
      obtain ⟨j, c', h1, h2, h3, h4, h5⟩ := ih s k hk' hb
      refine ⟨j + 1, c', by simpa using h1, h2, ?_, ?_, ?_⟩
      · simpa [resTypes, hc] using h3
      · simpa [resTypes, hc] using h4
      · intro j' hj'
        cases j' with
        | zero => simp [resTypes, hc]
        | succ j' =>
          have := h5 j' (by omega)
          simpa [resTypes, hc] using this
    · have hc' : c.ct.isResolved = false := by simpa using hc
      cases k with
      | zero =>
        refine ⟨0, c, rfl, hc', ?_, ?_, ?_⟩
        · simp [resTypes, hc', hb]
        · have : (s ||| 1 <<< 0).testBit 0 = true := by simp [Nat.testBit_or]
          simp [resTypes, hc', this]
        · intro j' hj'
          cases j' with
          | zero => exact absurd rfl hj'
          | succ j' =>
            have e : (s ||| 1) / 2 = s / 2 := by
              rw [Nat.or_div_two]; simp
            simp [resTypes, hc', e]
      | succ k =>
        have hk' : k < unres cs := by
          simp only [unres, List.filter_cons, hc', Bool.not_false, if_true, List.length_cons] at hk
          unfold unres; omega
        have hb' : (s / 2).testBit k = false := by
          rw [← Nat.testBit_succ]; exact hb
        obtain ⟨j, c', h1, h2, h3, h4, h5⟩ := ih (s / 2) k hk' hb'
        refine ⟨j + 1, c', by simpa using h1, h2, ?_, ?_, ?_⟩
        · simpa [resTypes, hc'] using h3
        · simpa [resTypes, hc', or_shift_succ] using h4
        · intro j' hj'
          cases j' with
          | zero => simp [resTypes, hc', or_shift_succ_bit0]
          | succ j' =>
            have := h5 j' (by omega)
            simpa [resTypes, hc', or_shift_succ] using this

/-! ### the parity lemma -/

section parity
open Classical

theorem countP_even_of_count_two (xs : List Nat) (h : ∀ x ∈ xs, xs.count x = 2) (p : Nat → Bool) :
    xs.countP p % 2 = 0 := by
  rw [← List.sum_map_count_dedup_filter_eq_countP p xs]
  have : ∀ ys : List Nat, (∀ y ∈ ys, xs.count y = 2) → ((ys.map (fun x => xs.count x)).sum) % 2 = 0 := by
    intro ys
    induction ys with
    | nil => simp
    | cons y ys ih =>
      intro hy
      simp only [List.map_cons, List.sum_cons]
      have h1 := hy y (by simp)
      have h2 := ih (fun z hz => hy z (List.mem_cons_of_mem _ hz))
      omega
  apply this
  intro y hy
  have := (List.mem_filter.1 hy).1
  exact h y (List.mem_dedup.1 this)

theorem toList4 (e : Array Nat) (h : e.size = 4) : e.toList = [e[0]!, e[1]!, e[2]!, e[3]!] := by
  apply List.ext_getElem
  · simp [h]
  · intro i h1 h2
    simp at h2
    have : i = 0 ∨ i = 1 ∨ i = 2 ∨ i = 3 := by omega
    rcases this with rfl | rfl | rfl | rfl <;> simp [getElem!_pos, h]

theorem crossing_even (S : Nat → Bool) (c : Crossing) (t : CT) (h4 : c.e.size = 4) (ht : t.isResolved = true)
    (hcl : ∀ p ∈ arcs c t, S p.1 = S p.2) : c.e.toList.countP S % 2 = 0 := by
  rw [toList4 c.e h4]
  cases t
  · cases ht
  · cases ht
  · have h1 := hcl (c.e[0]!, c.e[3]!) (by simp [arcs, arcIdx])
    have h2 := hcl (c.e[1]!, c.e[2]!) (by simp [arcs, arcIdx])
    simp only at h1 h2
    simp only [List.countP_cons, List.countP_nil, h1, h2]
    cases S c.e[3]! <;> cases S c.e[2]! <;> rfl
  · have h1 := hcl (c.e[0]!, c.e[1]!) (by simp [arcs, arcIdx])
    have h2 := hcl (c.e[2]!, c.e[3]!) (by simp [arcs, arcIdx])
    simp only at h1 h2
    simp only [List.countP_cons, List.countP_nil, h1, h2]
    cases S c.e[1]! <;> cases S c.e[3]! <;> rfl

/-- slots of all crossings but the `j0`-th contribute an even number of members of an arc-closed set -/
theorem parity_aux (S : Nat → Bool) : ∀ (cs : List Crossing) (ts : List CT) (j0 : Nat),
    (∀ (j : Nat) (c : Crossing) (t : CT), cs[j]? = some c → ts[j]? = some t → c.e.size = 4 ∧ t.isResolved = true) →
    cs.length = ts.length →
    (∀ (j : Nat) (c : Crossing) (t : CT), j ≠ j0 → cs[j]? = some c → ts[j]? = some t → ∀ p ∈ arcs c t, S p.1 = S p.2) →
    (cs.flatMap (fun c => c.e.toList)).countP S % 2 =
      (match cs[j0]? with | some c => c.e.toList.countP S % 2 | none => 0) := by
  intro cs
  induction cs with
  | nil => intro ts j0 _ _ _; simp
  | cons c cs ih =>
    intro ts j0 hwf hlen hcl
    cases ts with
    | nil => simp at hlen
    | cons t ts =>
      have hlen' : cs.length = ts.length := by simpa using hlen
      have hwf' : ∀ (j : Nat) (c : Crossing) (t : CT), cs[j]? = some c → ts[j]? = some t → c.e.size = 4 ∧ t.isResolved = true :=
        fun j c' t' h1 h2 => hwf (j + 1) c' t' (by simpa using h1) (by simpa using h2)
      rw [List.flatMap_cons, List.countP_append]
      cases j0 with
      | zero =>
        have := ih ts cs.length hwf' hlen' (fun j c' t' _ h1 h2 =>
          hcl (j + 1) c' t' (by omega) (by simpa using h1) (by simpa using h2))
        have e0 : cs[cs.length]? = none := List.getElem?_eq_none (Nat.le_refl _)
        rw [e0] at this
        dsimp only at this
        simp only [List.getElem?_cons_zero]
        show (_ + _) % 2 = List.countP S c.e.toList % 2
        omega
      | succ j0 =>
        have := ih ts j0 hwf' hlen' (fun j c' t' hj h1 h2 =>
          hcl (j + 1) c' t' (by omega) (by simpa using h1) (by simpa using h2))
        have h0 := crossing_even S c t (hwf 0 c t rfl rfl).1 (hwf 0 c t rfl rfl).2
          (hcl 0 c t (by omega) rfl rfl)
        simp only [List.getElem?_cons_succ]
        omega

end parity

end Yuiv.C06Cycle
