import Yuiv.Proofs.C06WalkDefs
import Yuiv.Proofs.C18Part
import Yuiv.Proofs.C06CycleConn
/-
C06Walk — the proved specification of the C18 code model's `components` (`Proofs/C18Part.components_check'` +
`Proofs/C18Check.checkComps_sound'`) transported to the cube reference's links (`KhRef.Link`) and relations
(`C04Inv.Conn`), helper file (no property theorem here).

  * `valid_toC18`            : `C06Cycle.validK L` ⇒ `C18.Valid (toC18 L ts)` (any crossing types);
  * `mem_passPairs`          : the pairs of `passPairs L ts`;
  * `conn_toC18`             : `C18.Conn (toC18 L ts) = C04Inv.Conn (passPairs L ts)`;
  * `walkSpec_of_check`      : the verdict of the Lean-verified checker `C18.checkComps`, as `WalkSpec`;
  * `c18_components_spec`    : on a valid diagram `C18.components (toC18 L ts)` returns a list with `WalkSpec`;
  * `passPairs_resolved`, `conn_passPairs_resolved`, `WalkSpec.resolved` : for the resolved types of a state the strand
    pairs are the arcs of the state (in both directions), so `WalkSpec` can be read in terms of `C04Inv.statePairs`.
-/
namespace Yuiv.C06Walk
open Yuiv Yuiv.KhRef Yuiv.C06Canon

/-! ### the crossings of `toC18 L ts` -/

/-- the `i`-th crossing of `toC18 L ts` -/
def cr (L : Link) (ts : Array CT) (i : Nat) : C18.Crossing :=
  ⟨ctC18 ts[i]!, L[i]!.e[0]!, L[i]!.e[1]!, L[i]!.e[2]!, L[i]!.e[3]!⟩

theorem toC18_eq (L : Link) (ts : Array CT) : toC18 L ts = (List.range L.size).map (cr L ts) := rfl

theorem mem_toC18 (L : Link) (ts : Array CT) (c : C18.Crossing) :
    c ∈ toC18 L ts ↔ ∃ i, i < L.size ∧ c = cr L ts i := by
  rw [toC18_eq, List.mem_map]
  constructor
  · rintro ⟨i, hi, rfl⟩; exact ⟨i, List.mem_range.1 hi, rfl⟩
  · rintro ⟨i, hi, rfl⟩; exact ⟨i, List.mem_range.2 hi, rfl⟩

theorem cr_edge (L : Link) (ts : Array CT) (i j : Nat) (hj : j < 4) : (cr L ts i).edge j = L[i]!.e[j]! := by
  have : j = 0 ∨ j = 1 ∨ j = 2 ∨ j = 3 := by omega
  rcases this with rfl | rfl | rfl | rfl <;> rfl

theorem ctC18_pass (t : CT) (j : Nat) : (ctC18 t).pass j = t.pass j := by
  cases t <;> rfl

theorem pass_lt4 (t : CT) (j : Nat) (hj : j < 4) : t.pass j < 4 := by
  cases t <;> simp only [CT.pass] <;> omega

theorem pass_pass (t : CT) (j : Nat) (hj : j < 4) : t.pass (t.pass j) = j := by
  cases t <;> simp only [CT.pass] <;> omega

theorem cr_pass (L : Link) (ts : Array CT) (i j : Nat) : (cr L ts i).ctype.pass j = ts[i]!.pass j :=
  ctC18_pass _ _

/-! ### labels -/

theorem toList4 (a : Array Nat) (h : a.size = 4) : a.toList = [a[0]!, a[1]!, a[2]!, a[3]!] := by
  obtain ⟨l⟩ := a
  match l, h with
  | [x0, x1, x2, x3], _ => rfl

theorem toList_eq_range_map (L : Link) : L.toList = (List.range L.size).map (fun i => L[i]!) := by
  apply List.ext_getElem
  · simp
  · intro i h1 h2
    have hi : i < L.size := by simpa using h1
    simp [getElem!_pos, hi]

theorem getElem!_mem (L : Link) (i : Nat) (hi : i < L.size) : L[i]! ∈ L := by
  rw [getElem!_pos L i hi]; exact Array.getElem_mem hi

theorem allEdges_toC18 (L : Link) (hwf : ∀ c ∈ L, c.e.size = 4) (ts : Array CT) :
    C18.allEdges (toC18 L ts) = C06Cycle.slotLabels L := by
  unfold C18.allEdges C06Cycle.slotLabels
  rw [toC18_eq, toList_eq_range_map L, List.flatMap_map, List.flatMap_map]
  apply List.flatMap_congr
  intro i hi
  have hi' := List.mem_range.1 hi
  rw [toList4 _ (hwf _ (getElem!_mem L i hi'))]
  rfl

theorem valid_toC18 (L : Link) (hv : C06Cycle.validK L = true) (ts : Array CT) : C18.Valid (toC18 L ts) := by
  obtain ⟨hwf, hc⟩ := C06Cycle.validK_spec L hv
  unfold C18.Valid
  rw [allEdges_toC18 L hwf ts]
  exact hc

theorem mem_slotLabels (L : Link) (x : Nat) : x ∈ C06Cycle.slotLabels L ↔ x ∈ edgeLabels L := by
  rw [C04Inv.mem_edgeLabels]
  unfold C06Cycle.slotLabels
  simp [List.mem_flatMap]

/-! ### `passPairs` -/

theorem mem_passPairs (L : Link) (ts : Array CT) (p : Nat × Nat) :
    p ∈ passPairs L ts ↔ ∃ i j, i < L.size ∧ j < 4 ∧ p = (L[i]!.e[j]!, L[i]!.e[ts[i]!.pass j]!) := by
  unfold passPairs
  simp only [List.mem_flatMap, List.mem_map, List.mem_range]
  constructor
  · rintro ⟨i, hi, j, hj, rfl⟩; exact ⟨i, j, hi, hj, rfl⟩
  · rintro ⟨i, j, hi, hj, rfl⟩; exact ⟨i, hi, j, hj, rfl⟩

theorem joined_toC18 (L : Link) (ts : Array CT) (a b : Nat) :
    C18.joined (toC18 L ts) a b = true ↔ (a, b) ∈ passPairs L ts := by
  rw [C18.joined_iff, mem_passPairs]
  constructor
  · rintro ⟨c, hc, j, hj, h1, h2⟩
    obtain ⟨i, hi, rfl⟩ := (mem_toC18 L ts c).1 hc
    rw [cr_pass, cr_edge _ _ _ _ (pass_lt4 _ _ hj)] at h2
    rw [cr_edge _ _ _ _ hj] at h1
    exact ⟨i, j, hi, hj, by rw [h1, h2]⟩
  · rintro ⟨i, j, hi, hj, h⟩
    have h1 := congrArg Prod.fst h
    have h2 := congrArg Prod.snd h
    simp only at h1 h2
    refine ⟨cr L ts i, (mem_toC18 L ts _).2 ⟨i, hi, rfl⟩, j, hj, ?_, ?_⟩
    · rw [cr_edge _ _ _ _ hj, h1]
    · rw [cr_pass, cr_edge _ _ _ _ (pass_lt4 _ _ hj), h2]

theorem passPairs_symm (L : Link) (ts : Array CT) (a b : Nat) (h : (a, b) ∈ passPairs L ts) :
    (b, a) ∈ passPairs L ts := by
  rw [mem_passPairs] at h ⊢
  obtain ⟨i, j, hi, hj, h⟩ := h
  refine ⟨i, ts[i]!.pass j, hi, pass_lt4 _ _ hj, ?_⟩
  rw [pass_pass _ _ hj]
  have h1 := congrArg Prod.fst h
  have h2 := congrArg Prod.snd h
  simp only at h1 h2
  rw [h1, h2]

/-- the two notions of connectedness agree -/
theorem conn_toC18 (L : Link) (ts : Array CT) (a b : Nat) :
    C18.Conn (toC18 L ts) a b ↔ C04Inv.Conn (passPairs L ts) a b := by
  constructor
  · intro h
    induction h with
    | refl => exact C04Inv.Conn.refl _
    | tail _ hj ih => exact ih.trans (C04Inv.Conn.of_mem ((joined_toC18 L ts _ _).1 hj))
  · intro h
    induction h with
    | rel x y r => exact C18.Conn.single ((joined_toC18 L ts _ _).2 r)
    | refl x => exact C18.Conn.refl _
    | symm x y _ ih => exact ih.symm
    | trans x y z _ _ ih1 ih2 => exact ih1.trans ih2

/-! ### `cycleOk` as `CyclicChain` -/

theorem chainOk_getD (l : C18.Link) : ∀ (es : List Nat), C18.chainOk l es = true →
    ∀ k, k + 1 < es.length → C18.joined l (es.getD k 0) (es.getD (k + 1) 0) = true := by
  intro es
  induction es with
  | nil => intro _ k hk; simp at hk
  | cons a r ih =>
    cases r with
    | nil => intro _ k hk; simp at hk
    | cons b r =>
      intro h k hk
      simp only [C18.chainOk, Bool.and_eq_true] at h
      cases k with
      | zero => simpa using h.1
      | succ k =>
        have := ih h.2 k (by simpa using hk)
        simpa using this

theorem cycleOk_chain (l : C18.Link) (es : List Nat) (h : C18.cycleOk l es = true) :
    CyclicChain (fun a b => C18.joined l a b = true) es := by
  cases es with
  | nil => simp [C18.cycleOk] at h
  | cons a r =>
    unfold C18.cycleOk at h
    rw [List.head?_cons, List.getLast?_eq_some_getLast (by simp)] at h
    simp only [Bool.and_eq_true] at h
    intro k hk
    by_cases hk1 : k + 1 < (a :: r).length
    · rw [Nat.mod_eq_of_lt hk1]
      exact chainOk_getD l _ h.1 k hk1
    · have hk2 : k + 1 = (a :: r).length := by omega
      rw [hk2, Nat.mod_self]
      have hl : (a :: r).getD k 0 = (a :: r).getLast (by simp) := by
        have hk3 : k = r.length := by simpa using hk2
        subst hk3
        rw [List.getLast_eq_getElem, List.getD_eq_getElem?_getD, List.getElem?_eq_getElem (by simp)]
        simp
      rw [hl]
      simpa using h.2

theorem checkComps_cycleOk (l : C18.Link) (cs : List C18.Path) (h : C18.checkComps l cs = true) :
    ∀ p ∈ cs, C18.cycleOk l p.edges = true := by
  unfold C18.checkComps at h
  simp only [Bool.and_eq_true] at h
  obtain ⟨⟨⟨h1, _⟩, _⟩, _⟩ := h
  rw [List.all_eq_true] at h1
  intro p hp
  have := h1 p hp
  simp only [Bool.and_eq_true] at this
  exact this.1.2

/-! ### the transported specification -/

/-- the C18 checker's verdict, transported -/
theorem walkSpec_of_check (L : Link) (hv : C06Cycle.validK L = true) (ts : Array CT) (cs : List C18.Path)
    (h : C18.checkComps (toC18 L ts) cs = true) : WalkSpec L (passPairs L ts) (cs.map convPath) := by
  obtain ⟨hwf, _⟩ := C06Cycle.validK_spec L hv
  obtain ⟨hcov, hnd, hcl⟩ := C18.checkComps_sound' _ _ h
  have hcy := checkComps_cycleOk _ _ h
  have hmem : ∀ q ∈ cs.map convPath, ∃ p ∈ cs, q.edges = p.edges ∧ q.closed = p.closed := by
    intro q hq
    obtain ⟨p, hp, rfl⟩ := List.mem_map.1 hq
    exact ⟨p, hp, rfl, rfl⟩
  refine ⟨?_, ?_, ?_, ?_, ?_⟩
  · intro e
    rw [← mem_slotLabels, ← allEdges_toC18 L hwf ts, hcov]
    constructor
    · rintro ⟨p, hp, he⟩; exact ⟨convPath p, List.mem_map_of_mem hp, he⟩
    · rintro ⟨q, hq, he⟩
      obtain ⟨p, hp, h1, _⟩ := hmem q hq
      exact ⟨p, hp, h1 ▸ he⟩
  · rw [List.flatMap_map]
    exact hnd
  · intro q hq
    obtain ⟨p, hp, h1, h2⟩ := hmem q hq
    rw [h1, h2]
    exact ⟨(hcl p hp).1, (hcl p hp).2.1⟩
  · intro q hq e he e'
    obtain ⟨p, hp, h1, _⟩ := hmem q hq
    rw [h1] at he ⊢
    rw [← conn_toC18]
    exact (hcl p hp).2.2 e he e'
  · intro q hq
    obtain ⟨p, hp, h1, _⟩ := hmem q hq
    rw [h1]
    intro k hk
    exact (joined_toC18 L ts _ _).1 (cycleOk_chain _ _ (hcy p hp) k hk)

/-- on a valid diagram the C18 model returns a list satisfying the specification -/
theorem c18_components_spec (L : Link) (hv : C06Cycle.validK L = true) (ts : Array CT) :
    ∃ cs, C18.components (toC18 L ts) = .ok cs ∧ WalkSpec L (passPairs L ts) (cs.map convPath) := by
  obtain ⟨cs, hc, hk⟩ := C18.components_check' (toC18 L ts) (valid_toC18 L hv ts)
  exact ⟨cs, hc, walkSpec_of_check L hv ts cs hk⟩

/-! ### resolved types: strand pairs = arcs of the state -/

theorem isResolved_cases (t : CT) (h : t.isResolved = true) : t = .V ∨ t = .H := by
  cases t <;> simp_all [CT.isResolved]

theorem resolvedTypes_getElem! (L : Link) (s : Nat) (i : Nat) (hi : i < L.size) :
    (C04Inv.resTypes L.toList s)[i]? = some (resolvedTypes L s)[i]! := by
  have hs := C04Inv.resolvedTypes_size L s
  rw [← C04Inv.resolvedTypes_toList, getElem!_pos _ i (by omega)]
  simp [hs, hi]

theorem resolvedTypes_resolved (L : Link) (s : Nat) (i : Nat) (hi : i < L.size) :
    (resolvedTypes L s)[i]! = .V ∨ (resolvedTypes L s)[i]! = .H := by
  apply isResolved_cases
  apply C06Cycle.resTypes_resolved L.toList s
  exact List.mem_of_getElem? (resolvedTypes_getElem! L s i hi)

theorem mem_statePairs (L : Link) (s : Nat) (p : Nat × Nat) :
    p ∈ C04Inv.statePairs L s ↔ ∃ i, i < L.size ∧ p ∈ C04Inv.arcs L[i]! (resolvedTypes L s)[i]! := by
  unfold C04Inv.statePairs
  rw [C06Cycle.mem_pairsL_iff]
  constructor
  · rintro ⟨j, c, t, h1, h2, h3⟩
    have hj : j < L.size := by
      have := (List.getElem?_eq_some_iff.1 h1).1
      simpa using this
    have e1 : c = L[j]! := by
      rw [getElem!_pos L j hj]
      have := (List.getElem?_eq_some_iff.1 h1).2
      simpa using this.symm
    have e2 : t = (resolvedTypes L s)[j]! := by
      rw [resolvedTypes_getElem! L s j hj] at h2
      exact (Option.some.inj h2).symm
    exact ⟨j, hj, e1 ▸ e2 ▸ h3⟩
  · rintro ⟨i, hi, h⟩
    refine ⟨i, L[i]!, (resolvedTypes L s)[i]!, ?_, resolvedTypes_getElem! L s i hi, h⟩
    rw [getElem!_pos L i hi]
    simp [hi]

theorem range4 : List.range 4 = [0, 1, 2, 3] := by decide

/-- at one crossing of resolved type: (slot `j`, slot `pass j`) = the arcs, in both directions -/
theorem pass_arcs (c : Crossing) (t : CT) (ht : t = .V ∨ t = .H) (a b : Nat) :
    (∃ j, j < 4 ∧ (a, b) = (c.e[j]!, c.e[t.pass j]!)) ↔ (a, b) ∈ C04Inv.arcs c t ∨ (b, a) ∈ C04Inv.arcs c t := by
  have hex : ∀ P : Nat → Prop, (∃ j, j < 4 ∧ P j) ↔ P 0 ∨ P 1 ∨ P 2 ∨ P 3 := by
    intro P
    constructor
    · rintro ⟨j, hj, h⟩
      have : j = 0 ∨ j = 1 ∨ j = 2 ∨ j = 3 := by omega
      rcases this with rfl | rfl | rfl | rfl <;> simp [h]
    · rintro (h | h | h | h)
      exacts [⟨0, by omega, h⟩, ⟨1, by omega, h⟩, ⟨2, by omega, h⟩, ⟨3, by omega, h⟩]
  rw [hex]
  rcases ht with rfl | rfl
  · simp only [CT.pass, C04Inv.arcs, C04Inv.arcIdx, List.map_cons, List.map_nil, List.mem_cons, List.not_mem_nil,
      or_false, Prod.mk.injEq]
    tauto
  · simp only [CT.pass, C04Inv.arcs, C04Inv.arcIdx, List.map_cons, List.map_nil, List.mem_cons, List.not_mem_nil,
      or_false, Prod.mk.injEq]
    tauto

/-- for the resolved types of a state the strand pairs are the arcs of the state (in both directions) -/
theorem passPairs_resolved (L : Link) (hwf : ∀ c ∈ L, c.e.size = 4) (s : Nat) (a b : Nat) :
    (a, b) ∈ passPairs L (resolvedTypes L s) ↔
      (a, b) ∈ C04Inv.statePairs L s ∨ (b, a) ∈ C04Inv.statePairs L s := by
  have _ := hwf
  rw [mem_passPairs, mem_statePairs, mem_statePairs]
  constructor
  · rintro ⟨i, j, hi, hj, h⟩
    rcases (pass_arcs L[i]! _ (resolvedTypes_resolved L s i hi) a b).1 ⟨j, hj, h⟩ with h | h
    · exact Or.inl ⟨i, hi, h⟩
    · exact Or.inr ⟨i, hi, h⟩
  · rintro (⟨i, hi, h⟩ | ⟨i, hi, h⟩)
    · obtain ⟨j, hj, h⟩ := (pass_arcs L[i]! _ (resolvedTypes_resolved L s i hi) a b).2 (Or.inl h)
      exact ⟨i, j, hi, hj, h⟩
    · obtain ⟨j, hj, h⟩ := (pass_arcs L[i]! _ (resolvedTypes_resolved L s i hi) a b).2 (Or.inr h)
      exact ⟨i, j, hi, hj, h⟩

theorem conn_passPairs_resolved (L : Link) (hwf : ∀ c ∈ L, c.e.size = 4) (s : Nat) (x y : Nat) :
    C04Inv.Conn (passPairs L (resolvedTypes L s)) x y ↔ C04Inv.Conn (C04Inv.statePairs L s) x y := by
  constructor
  · intro h
    induction h with
    | rel a b r =>
      rcases (passPairs_resolved L hwf s a b).1 r with h | h
      · exact C04Inv.Conn.of_mem h
      · exact (C04Inv.Conn.of_mem h).symm
    | refl a => exact C04Inv.Conn.refl _
    | symm a b _ ih => exact ih.symm
    | trans a b c _ _ ih1 ih2 => exact ih1.trans ih2
  · intro h
    exact C04Inv.Conn.mono (fun p hp => (passPairs_resolved L hwf s p.1 p.2).2 (Or.inl hp)) h

/-- the symmetrised arc list has the same members as the strand pairs of the resolved types -/
theorem mem_symPairs (L : Link) (hwf : ∀ c ∈ L, c.e.size = 4) (s : Nat) (p : Nat × Nat) :
    p ∈ C04Inv.statePairs L s ++ (C04Inv.statePairs L s).map (fun p => (p.2, p.1)) ↔
      p ∈ passPairs L (resolvedTypes L s) := by
  obtain ⟨a, b⟩ := p
  rw [passPairs_resolved L hwf s a b, List.mem_append, List.mem_map]
  constructor
  · rintro (h | ⟨q, hq, he⟩)
    · exact Or.inl h
    · obtain ⟨q1, q2⟩ := q
      simp only [Prod.mk.injEq] at he
      obtain ⟨rfl, rfl⟩ := he
      exact Or.inr hq
  · rintro (h | h)
    · exact Or.inl h
    · exact Or.inr ⟨(b, a), h, rfl⟩

/-- WalkSpec only depends on the relation up to this equivalence -/
theorem WalkSpec.resolved {L : Link} (hwf : ∀ c ∈ L, c.e.size = 4) {s : Nat} {paths : List Path}
    (h : WalkSpec L (passPairs L (resolvedTypes L s)) paths) :
    WalkSpec L (C04Inv.statePairs L s ++ (C04Inv.statePairs L s).map (fun p => (p.2, p.1))) paths := by
  have hm := mem_symPairs L hwf s
  have hconn : ∀ x y, C04Inv.Conn (passPairs L (resolvedTypes L s)) x y ↔
      C04Inv.Conn (C04Inv.statePairs L s ++ (C04Inv.statePairs L s).map (fun p => (p.2, p.1))) x y :=
    fun x y => ⟨C04Inv.Conn.mono (fun p hp => (hm p).2 hp), C04Inv.Conn.mono (fun p hp => (hm p).1 hp)⟩
  refine ⟨h.cover, h.nodup, h.closed, ?_, ?_⟩
  · intro p hp e he e'
    rw [← hconn]
    exact h.cls p hp e he e'
  · intro p hp k hk
    exact (hm _).2 (h.cyc p hp k hk)

end Yuiv.C06Walk
