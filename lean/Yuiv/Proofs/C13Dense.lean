import Yuiv.Proofs.C13
/-
C13 — part 3: dense matrices (`Mat`): every primitive yields the stated entry formula, conversions
between sparse and dense keep the entries.
-/
namespace Yuiv.C13
open Yuiv Res

set_option linter.unusedSectionVars false
set_option linter.unusedSimpArgs false
set_option linter.unusedVariables false

variable {R : Type} [CommRing R] [DecidableEq R]

theorem get_ofFn (m n : Nat) (f : Nat → Nat → R) (i j : Nat) (hi : i < m) (hj : j < n) :
    (DMat.ofFn m n f).get i j = f i j := by
  unfold DMat.get DMat.ofFn
  have hlt : i * n + j < m * n := by
    calc i * n + j < i * n + n := by omega
      _ = (i + 1) * n := by ring
      _ ≤ m * n := Nat.mul_le_mul_right n hi
  have hn : 0 < n := by omega
  have h1 : (i * n + j) / n = i := by
    rw [Nat.add_comm, Nat.add_mul_div_right _ _ hn, Nat.div_eq_of_lt hj, Nat.zero_add]
  have h2 : (i * n + j) % n = j := by
    rw [Nat.add_comm, Nat.add_mul_mod_self_right, Nat.mod_eq_of_lt hj]
  simp [Array.getD, hlt, h1, h2]

@[simp] theorem ofFn_nrows (m n : Nat) (f : Nat → Nat → R) : (DMat.ofFn m n f).nrows = m := rfl
@[simp] theorem ofFn_ncols (m n : Nat) (f : Nat → Nat → R) : (DMat.ofFn m n f).ncols = n := rfl

theorem assert_true {c : Bool} (h : c = true) : Res.assert c = ok () := by simp [Res.assert, h]
theorem assert_false {c : Bool} (h : c = false) : Res.assert c = panic := by simp [Res.assert, h]

/-! ### row / column primitives -/

theorem setRow_spec (A : DMat R) (i : Nat) (s : Nat → R) (hi : i < A.nrows) :
    ∃ B, A.setRow i s = ok B ∧ B.nrows = A.nrows ∧ B.ncols = A.ncols ∧
      ∀ r c, r < A.nrows → c < A.ncols → B.get r c = if r = i then s c else A.get r c := by
  unfold DMat.setRow
  rw [assert_true (by simp [hi])]
  refine ⟨_, rfl, rfl, rfl, ?_⟩
  intro r c hr hc; rw [get_ofFn _ _ _ _ _ hr hc]

theorem setCol_spec (A : DMat R) (j : Nat) (s : Nat → R) (hj : j < A.ncols) :
    ∃ B, A.setCol j s = ok B ∧ B.nrows = A.nrows ∧ B.ncols = A.ncols ∧
      ∀ r c, r < A.nrows → c < A.ncols → B.get r c = if c = j then s r else A.get r c := by
  unfold DMat.setCol
  rw [assert_true (by simp [hj])]
  refine ⟨_, rfl, rfl, rfl, ?_⟩
  intro r c hr hc; rw [get_ofFn _ _ _ _ _ hr hc]

theorem swapRows_spec (A : DMat R) (i j : Nat) (hi : i < A.nrows) (hj : j < A.nrows) :
    ∃ B, A.swapRows i j = ok B ∧ B.nrows = A.nrows ∧ B.ncols = A.ncols ∧
      ∀ r c, r < A.nrows → c < A.ncols →
        B.get r c = if r = i then A.get j c else if r = j then A.get i c else A.get r c := by
  unfold DMat.swapRows
  rw [assert_true (by simp [hi, hj])]
  refine ⟨_, rfl, rfl, rfl, ?_⟩
  intro r c hr hc; rw [get_ofFn _ _ _ _ _ hr hc]

theorem swapRows_reject (A : DMat R) (i j : Nat) (h : ¬ (i < A.nrows ∧ j < A.nrows)) : A.swapRows i j = panic := by
  have : (decide (i < A.nrows) && decide (j < A.nrows)) = false := by
    rw [Bool.and_eq_false_iff]; simp only [decide_eq_false_iff_not]; omega
  simp [DMat.swapRows, Res.assert, this]

theorem swapCols_spec (A : DMat R) (i j : Nat) (hi : i < A.ncols) (hj : j < A.ncols) :
    ∃ B, A.swapCols i j = ok B ∧ B.nrows = A.nrows ∧ B.ncols = A.ncols ∧
      ∀ r c, r < A.nrows → c < A.ncols →
        B.get r c = if c = i then A.get r j else if c = j then A.get r i else A.get r c := by
  unfold DMat.swapCols
  rw [assert_true (by simp [hi, hj])]
  refine ⟨_, rfl, rfl, rfl, ?_⟩
  intro r c hr hc; rw [get_ofFn _ _ _ _ _ hr hc]

theorem swapCols_reject (A : DMat R) (i j : Nat) (h : ¬ (i < A.ncols ∧ j < A.ncols)) : A.swapCols i j = panic := by
  have : (decide (i < A.ncols) && decide (j < A.ncols)) = false := by
    rw [Bool.and_eq_false_iff]; simp only [decide_eq_false_iff_not]; omega
  simp [DMat.swapCols, Res.assert, this]

theorem mulRow_spec (A : DMat R) (i : Nat) (a : R) (hi : i < A.nrows) :
    ∃ B, A.mulRow i a = ok B ∧ B.nrows = A.nrows ∧ B.ncols = A.ncols ∧
      ∀ r c, r < A.nrows → c < A.ncols → B.get r c = if r = i then A.get i c * a else A.get r c :=
  setRow_spec A i _ hi

theorem mulRow_reject (A : DMat R) (i : Nat) (a : R) (hi : ¬ i < A.nrows) : A.mulRow i a = panic := by
  simp [DMat.mulRow, DMat.setRow, Res.assert, hi]

theorem mulCol_spec (A : DMat R) (j : Nat) (a : R) (hj : j < A.ncols) :
    ∃ B, A.mulCol j a = ok B ∧ B.nrows = A.nrows ∧ B.ncols = A.ncols ∧
      ∀ r c, r < A.nrows → c < A.ncols → B.get r c = if c = j then A.get r j * a else A.get r c :=
  setCol_spec A j _ hj

theorem mulCol_reject (A : DMat R) (j : Nat) (a : R) (hj : ¬ j < A.ncols) : A.mulCol j a = panic := by
  simp [DMat.mulCol, DMat.setCol, Res.assert, hj]

theorem addRowTo_spec (A : DMat R) (i j : Nat) (a : R) (hi : i < A.nrows) (hj : j < A.nrows) :
    ∃ B, A.addRowTo i j a = ok B ∧ B.nrows = A.nrows ∧ B.ncols = A.ncols ∧
      ∀ r c, r < A.nrows → c < A.ncols → B.get r c = if r = j then A.get j c + A.get i c * a else A.get r c := by
  obtain ⟨B, h1, h2, h3, h4⟩ := setRow_spec A j (fun c => A.get j c + A.get i c * a) hj
  exact ⟨B, by simp [DMat.addRowTo, Res.assert, hi, h1], h2, h3, h4⟩

theorem addRowTo_reject (A : DMat R) (i j : Nat) (a : R) (h : ¬ (i < A.nrows ∧ j < A.nrows)) :
    A.addRowTo i j a = panic := by
  by_cases hi : i < A.nrows
  · have hj : ¬ j < A.nrows := fun e => h ⟨hi, e⟩
    simp [DMat.addRowTo, DMat.setRow, Res.assert, hi, hj]
  · simp [DMat.addRowTo, Res.assert, hi]

theorem addColTo_spec (A : DMat R) (i j : Nat) (a : R) (hi : i < A.ncols) (hj : j < A.ncols) :
    ∃ B, A.addColTo i j a = ok B ∧ B.nrows = A.nrows ∧ B.ncols = A.ncols ∧
      ∀ r c, r < A.nrows → c < A.ncols → B.get r c = if c = j then A.get r j + A.get r i * a else A.get r c := by
  obtain ⟨B, h1, h2, h3, h4⟩ := setCol_spec A j (fun r => A.get r j + A.get r i * a) hj
  exact ⟨B, by simp [DMat.addColTo, Res.assert, hi, h1], h2, h3, h4⟩

theorem addColTo_reject (A : DMat R) (i j : Nat) (a : R) (h : ¬ (i < A.ncols ∧ j < A.ncols)) :
    A.addColTo i j a = panic := by
  by_cases hi : i < A.ncols
  · have hj : ¬ j < A.ncols := fun e => h ⟨hi, e⟩
    simp [DMat.addColTo, DMat.setCol, Res.assert, hi, hj]
  · simp [DMat.addColTo, Res.assert, hi]

/-- `left_elementary([a,b,c,d], i, j)` with `i ≠ j` multiplies rows `(i, j)` by `[a b; c d]` from the left -/
theorem leftElementary_spec (A : DMat R) (a b c d : R) (i j : Nat) (hi : i < A.nrows) (hj : j < A.nrows) (hij : i ≠ j) :
    ∃ B, A.leftElementary a b c d i j = ok B ∧ B.nrows = A.nrows ∧ B.ncols = A.ncols ∧
      ∀ r k, r < A.nrows → k < A.ncols →
        B.get r k = if r = i then A.get i k * a + A.get j k * b
                    else if r = j then A.get i k * c + A.get j k * d else A.get r k := by
  obtain ⟨A1, h1, h2, h3, h4⟩ := setRow_spec A i (fun k => A.get i k * a + A.get j k * b) hi
  obtain ⟨B, g1, g2, g3, g4⟩ := setRow_spec A1 j (fun k => A.get i k * c + A.get j k * d) (by omega)
  refine ⟨B, by simp [DMat.leftElementary, Res.assert, hi, hj, h1, g1], by omega, by omega, ?_⟩
  intro r k hr hk
  rw [g4 r k (by omega) (by omega), h4 r k hr hk]
  by_cases e1 : r = j
  · have : ¬ r = i := fun e => hij (e ▸ e1 ▸ rfl)
    simp [e1, this, hij.symm]
  · simp [e1]

theorem leftElementary_reject (A : DMat R) (a b c d : R) (i j : Nat) (h : ¬ (i < A.nrows ∧ j < A.nrows)) :
    A.leftElementary a b c d i j = panic := by
  by_cases hi : i < A.nrows
  · have hj : ¬ j < A.nrows := fun e => h ⟨hi, e⟩
    simp [DMat.leftElementary, Res.assert, hi, hj]
  · simp [DMat.leftElementary, Res.assert, hi]

/-- `right_elementary([a,b,c,d], i, j)` with `i ≠ j` multiplies columns `(i, j)` by `[a c; b d]` from the right -/
theorem rightElementary_spec (A : DMat R) (a b c d : R) (i j : Nat) (hi : i < A.ncols) (hj : j < A.ncols) (hij : i ≠ j) :
    ∃ B, A.rightElementary a b c d i j = ok B ∧ B.nrows = A.nrows ∧ B.ncols = A.ncols ∧
      ∀ r k, r < A.nrows → k < A.ncols →
        B.get r k = if k = i then A.get r i * a + A.get r j * b
                    else if k = j then A.get r i * c + A.get r j * d else A.get r k := by
  obtain ⟨A1, h1, h2, h3, h4⟩ := setCol_spec A i (fun r => A.get r i * a + A.get r j * b) hi
  obtain ⟨B, g1, g2, g3, g4⟩ := setCol_spec A1 j (fun r => A.get r i * c + A.get r j * d) (by omega)
  refine ⟨B, by simp [DMat.rightElementary, Res.assert, hi, hj, h1, g1], by omega, by omega, ?_⟩
  intro r k hr hk
  rw [g4 r k (by omega) (by omega), h4 r k hr hk]
  by_cases e1 : k = j
  · have : ¬ k = i := fun e => hij (e ▸ e1 ▸ rfl)
    simp [e1, this, hij.symm]
  · simp [e1]

theorem rightElementary_reject (A : DMat R) (a b c d : R) (i j : Nat) (h : ¬ (i < A.ncols ∧ j < A.ncols)) :
    A.rightElementary a b c d i j = panic := by
  by_cases hi : i < A.ncols
  · have hj : ¬ j < A.ncols := fun e => h ⟨hi, e⟩
    simp [DMat.rightElementary, Res.assert, hi, hj]
  · simp [DMat.rightElementary, Res.assert, hi]

theorem dsubmat_spec (A : DMat R) (i0 i1 j0 j1 : Nat) (hi : i0 ≤ i1 ∧ i1 ≤ A.nrows) (hj : j0 ≤ j1 ∧ j1 ≤ A.ncols) :
    ∃ B, A.submat i0 i1 j0 j1 = ok B ∧ B.nrows = i1 - i0 ∧ B.ncols = j1 - j0 ∧
      ∀ i j, i < i1 - i0 → j < j1 - j0 → B.get i j = A.get (i0 + i) (j0 + j) := by
  unfold DMat.submat
  rw [assert_true (by simp [hi.1, hi.2]), assert_true (by simp [hj.1, hj.2])]
  refine ⟨_, rfl, rfl, rfl, ?_⟩
  intro i j h1 h2; rw [get_ofFn _ _ _ _ _ h1 h2]

theorem dsubmat_reject (A : DMat R) (i0 i1 j0 j1 : Nat)
    (h : ¬ ((i0 ≤ i1 ∧ i1 ≤ A.nrows) ∧ (j0 ≤ j1 ∧ j1 ≤ A.ncols))) : A.submat i0 i1 j0 j1 = panic := by
  unfold DMat.submat
  by_cases h1 : i0 ≤ i1 ∧ i1 ≤ A.nrows
  · have h2 : ¬ (j0 ≤ j1 ∧ j1 ≤ A.ncols) := fun e => h ⟨h1, e⟩
    have : (decide (j0 ≤ j1) && decide (j1 ≤ A.ncols)) = false := by
      rw [Bool.and_eq_false_iff]; simp only [decide_eq_false_iff_not]; omega
    simp [Res.assert, h1.1, h1.2, this]
  · have : (decide (i0 ≤ i1) && decide (i1 ≤ A.nrows)) = false := by
      rw [Bool.and_eq_false_iff]; simp only [decide_eq_false_iff_not]; omega
    simp [Res.assert, this]

/-! ### `+ − · neg` (nalgebra, by definition) -/

theorem dadd_spec (A B : DMat R) (h1 : A.nrows = B.nrows) (h2 : A.ncols = B.ncols) :
    ∃ C, A.add B = ok C ∧ C.nrows = A.nrows ∧ C.ncols = A.ncols ∧
      ∀ i j, i < A.nrows → j < A.ncols → C.get i j = A.get i j + B.get i j := by
  unfold DMat.add
  rw [assert_true (by simp [h1, h2])]
  refine ⟨_, rfl, rfl, rfl, ?_⟩
  intro i j hi hj; rw [get_ofFn _ _ _ _ _ hi hj]

theorem dsub_spec (A B : DMat R) (h1 : A.nrows = B.nrows) (h2 : A.ncols = B.ncols) :
    ∃ C, A.sub B = ok C ∧ C.nrows = A.nrows ∧ C.ncols = A.ncols ∧
      ∀ i j, i < A.nrows → j < A.ncols → C.get i j = A.get i j - B.get i j := by
  unfold DMat.sub
  rw [assert_true (by simp [h1, h2])]
  refine ⟨_, rfl, rfl, rfl, ?_⟩
  intro i j hi hj; rw [get_ofFn _ _ _ _ _ hi hj]

theorem dneg_spec (A : DMat R) (i j : Nat) (hi : i < A.nrows) (hj : j < A.ncols) : A.neg.get i j = - A.get i j := by
  unfold DMat.neg; rw [get_ofFn _ _ _ _ _ hi hj]

theorem list_range_sum (n : Nat) (f : Nat → R) : ((List.range n).map f).sum = ∑ k ∈ Finset.range n, f k := by
  induction n with
  | zero => simp
  | succ n ih => rw [List.range_succ, List.map_append, List.sum_append, ih, Finset.sum_range_succ]; simp

theorem dmul_spec (A B : DMat R) (h : A.ncols = B.nrows) :
    ∃ C, A.mul B = ok C ∧ C.nrows = A.nrows ∧ C.ncols = B.ncols ∧
      ∀ i j, i < A.nrows → j < B.ncols → C.get i j = ∑ k ∈ Finset.range A.ncols, A.get i k * B.get k j := by
  unfold DMat.mul
  rw [assert_true (by simp [h])]
  refine ⟨_, rfl, rfl, rfl, ?_⟩
  intro i j hi hj; rw [get_ofFn _ _ _ _ _ hi hj, list_range_sum]

/-! ### sparse ↔ dense -/

theorem toDense_get (A : SpMat R) (i j : Nat) (hi : i < A.nrows) (hj : j < A.ncols) :
    A.toDense.get i j = A.entry i j := by
  unfold SpMat.toDense; rw [get_ofFn _ _ _ _ _ hi hj]

theorem toSparse_spec (A : DMat R) :
    A.toSparse.nrows = A.nrows ∧ A.toSparse.ncols = A.ncols ∧ A.toSparse.WF ∧
      ∀ i j, i < A.nrows → j < A.ncols → A.toSparse.entry i j = A.get i j := by
  refine ⟨rfl, rfl, ⟨by simp [DMat.toSparse], ?_, ?_⟩, ?_⟩
  · intro c hc p hp
    simp only [DMat.toSparse, List.mem_map, List.mem_range] at hc
    obtain ⟨j, _, rfl⟩ := hc
    simp only [List.mem_map, List.mem_filter, List.mem_range] at hp
    obtain ⟨i, ⟨hi, _⟩, rfl⟩ := hp
    exact hi
  · intro c hc
    simp only [DMat.toSparse, List.mem_map, List.mem_range] at hc
    obtain ⟨j, _, rfl⟩ := hc
    simp only [List.map_map]
    have : ((fun p : Nat × R => p.1) ∘ fun i => (i, A.get i j)) = id := by funext i; rfl
    rw [this, List.map_id]
    exact (List.pairwise_lt_range).filter _
  · intro i j hi hj
    unfold SpMat.entry DMat.toSparse
    simp only [List.getD_eq_getElem?_getD, List.getElem?_map, List.getElem?_range hj, Option.map_some, Option.getD_some]
    unfold sumAt
    rw [filter_map_key _ _ ((List.nodup_range).filter _)]
    by_cases h0 : A.get i j = 0
    · simp [h0]
    · simp [h0, hi]

end Yuiv.C13
