import Yuiv.Gen.RatioFn
import Yuiv.Model.C14
/-
Helper definitions and lemmas for `Yuiv/Props/C14Gen.lean` (no property theorem here).

`Yuiv.GenRatio.*` is GENERATED from the source text of `/repo/yui/src/types/ratio.rs` by `tools/rs2lean_fn.py fn:ratio`
(type parameter `T := Int`, operators and trait methods of `Yuiv/Model/RustRing.lean`); `Yuiv.C14.Ratio.*` is the
hand-written code model the C14 theorems (`ratio_history`, `ratio_cmp_spec`, …) are about.  The generated struct
`RatioS` (fields `numer`, `denom`) is mapped to the model's `Ratio` (fields `num`, `den`) by `toR`.
-/
namespace Yuiv.C14Gen
open Yuiv Res Yuiv.Rust Yuiv.GenRatio

/-- generated struct ↦ model struct (field by field) -/
def toR (s : RatioS) : C14.Ratio := ⟨s.numer, s.denom⟩
/-- functorial action on results (`panic` ↦ `panic`, `err` ↦ `err`) -/
def mapR {α β} (f : α → β) : Res α → Res β
  | .ok a => .ok (f a)
  | .panic => .panic
  | .err => .err

theorem mapR_ok {α β} (f : α → β) (a : α) : mapR f (ok a) = ok (f a) := rfl
theorem mapR_panic {α β} (f : α → β) : mapR f (.panic : Res α) = .panic := rfl
theorem mapR_err {α β} (f : α → β) : mapR f (.err : Res α) = .err := rfl
theorem mapR_bind {α β γ} (f : β → γ) (x : Res α) (g : α → Res β) :
    mapR f (x >>= g) = x >>= fun a => mapR f (g a) := by cases x <;> rfl
theorem mapR_ite {α β} (f : α → β) (c : Prop) [Decidable c] (x y : Res α) :
    mapR f (if c then x else y) = if c then mapR f x else mapR f y := by split <;> rfl
theorem bind_assoc' {α β γ} (x : Res α) (f : α → Res β) (g : β → Res γ) :
    ((x >>= f) >>= g) = (x >>= fun a => f a >>= g) := by cases x <;> rfl
theorem ite_bind {α β} (c : Prop) [Decidable c] (x y : Res α) (f : α → Res β) :
    ((if c then x else y) >>= f) = if c then x >>= f else y >>= f := by split <;> rfl
theorem bind_congr' {α β} (x : Res α) {f g : α → Res β} (h : ∀ a, f a = g a) : (x >>= f) = (x >>= g) := by
  cases x <;> simp [h]
theorem assert_true : Res.assert true = ok () := rfl
theorem assert_false : Res.assert false = (.panic : Res Unit) := rfl

/-! ### the functions of `RustRing` are the integer primitives of the hand model -/

theorem is_zero_eq (a : Int) : RInt.is_zero a = (a == 0) := rfl
theorem is_one_eq (a : Int) : RInt.is_one a = (a == 1) := rfl
theorem is_unit_eq (a : Int) : RInt.is_unit a = C14.intIsUnit a := rfl
theorem nu_eq (a : Int) : RInt.normalizing_unit a = C14.intNormUnit a := rfl
theorem gcd_eq (a b : Int) : RInt.gcd a b = C14.intGcd a b := rfl
theorem lcm_eq (a b : Int) : RInt.lcm a b = C14.intLcm a b := rfl
theorem div_eq (a b : Int) : RInt.div a b = C14.tdivR a b := rfl
theorem rem_eq (a b : Int) : RInt.rem a b = C14.tmodR a b := rfl
theorem compare_eq_icmp (x y : Int) : compare x y = C14.icmp x y := by
  unfold C14.icmp
  rcases Int.lt_trichotomy x y with h | h | h
  · simp [h, Int.compare_eq_lt.2 h]
  · subst h; simp
  · have h1 : ¬ x < y := by omega
    have h2 : ¬ x = y := by omega
    simp [h1, h2, Int.compare_eq_gt.2 h]

theorem unwrap_some {α : Type} (a : α) : Opt.unwrap (some a) = ok a := rfl
theorem unwrap_none {α : Type} : Opt.unwrap (none : Option α) = .panic := rfl

end Yuiv.C14Gen
