import Mathlib.Data.Matrix.ColumnRowPartitioned
import Mathlib.LinearAlgebra.Matrix.NonsingularInverse
import Mathlib.Tactic.Ring
/-
C12 — the Schur-complement identities as pure block-matrix algebra (any commutative ring, any finite
block index types).  `M = [[A,B],[C,D]]`, `X` with `A·X = B`, `W` with `W·A = C`:

    F_tgt = [-W, 1]    B_tgt = [0; 1]      F_src = [0, 1]    B_src = [-X; 1]

are exactly the four matrices `Schur::from_partial_triangular` assembles (`X = a⁻¹b` by `solve_triangular`,
`W = c·a⁻¹` by `solve_triangular_left`).
-/
namespace Yuiv.C12
open Matrix
set_option linter.unusedSectionVars false

variable {R : Type} [CommRing R]
variable {r p q : Type} [Fintype r] [Fintype p] [Fintype q] [DecidableEq r] [DecidableEq p] [DecidableEq q]

/-- `F_tgt · M · B_src = D − C·X` -/
theorem schur_transfer (A : Matrix r r R) (B : Matrix r q R) (C : Matrix p r R) (D : Matrix p q R)
    (X : Matrix r q R) (W : Matrix p r R) (hX : A * X = B) (hW : W * A = C) :
    fromCols (-W) (1 : Matrix p p R) * fromBlocks A B C D * fromRows (-X) (1 : Matrix q q R) = D - C * X := by
  rw [fromCols_mul_fromBlocks, fromCols_mul_fromRows]
  have h1 : -W * A + (1 : Matrix p p R) * C = 0 := by rw [Matrix.neg_mul, hW, Matrix.one_mul, neg_add_cancel]
  have h2 : -W * B = -(C * X) := by rw [← hX, Matrix.neg_mul, ← Matrix.mul_assoc, hW]
  rw [h1, h2, Matrix.zero_mul, Matrix.one_mul, Matrix.mul_one, zero_add, neg_add_eq_sub]

/-- `F_src · B_src = 1` -/
theorem schur_src_id (X : Matrix r q R) :
    fromCols (0 : Matrix q r R) (1 : Matrix q q R) * fromRows (-X) (1 : Matrix q q R) = 1 := by
  rw [fromCols_mul_fromRows]; simp

/-- `F_tgt · B_tgt = 1` -/
theorem schur_tgt_id (W : Matrix p r R) :
    fromCols (-W) (1 : Matrix p p R) * fromRows (0 : Matrix r p R) (1 : Matrix p p R) = 1 := by
  rw [fromCols_mul_fromRows]; simp

/-- with `A` invertible the solution of `A·X = B` is `A⁻¹·B`, so `D − C·X = D − C·A⁻¹·B` -/
theorem schur_eq_inv (A : Matrix r r R) (B : Matrix r q R) (C : Matrix p r R) (D : Matrix p q R)
    (X : Matrix r q R) (hA : IsUnit A.det) (hX : A * X = B) :
    X = A⁻¹ * B ∧ D - C * X = D - C * A⁻¹ * B := by
  have : X = A⁻¹ * B := by rw [← hX, ← Matrix.mul_assoc, Matrix.nonsing_inv_mul A hA, Matrix.one_mul]
  exact ⟨this, by rw [this, Matrix.mul_assoc]⟩

/-- a right inverse (as `inv_triangular` computes: `A·Z = 1`) makes `A` invertible with `A⁻¹ = Z` -/
theorem isUnit_of_right_inv (A Z : Matrix r r R) (h : A * Z = 1) : IsUnit A.det ∧ A⁻¹ = Z :=
  ⟨Matrix.isUnit_det_of_right_inverse h, Matrix.inv_eq_right_inv h⟩

/-- `W·A = C` with `A` invertible: `W = C·A⁻¹` -/
theorem left_sol_eq_inv (A : Matrix r r R) (C W : Matrix p r R) (hA : IsUnit A.det) (hW : W * A = C) :
    W = C * A⁻¹ := by
  rw [← hW, Matrix.mul_assoc, Matrix.mul_nonsing_inv A hA, Matrix.mul_one]

end Yuiv.C12
