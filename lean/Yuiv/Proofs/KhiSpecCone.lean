import Yuiv.Proofs.KhiSpecExit
import Yuiv.Proofs.KhiSpecDefs
import Yuiv.Proofs.C19ConeEx
import Mathlib.Data.ZMod.Basic
import Mathlib.Algebra.BigOperators.Group.Finset.Basic
/-
KhiSpec — from the model's arrays and hash maps to the list-level cone differential `C19Comm.dI`: the differential table
returns `Cube.d` on the enumerated generators, `dIA` is `dI`, the meaning of `khiGensOk`, and the parity lemma behind the
`D∘D` check (`reduce2` inside and outside a `flatMap` does not change parities).
-/
namespace Yuiv.KhiSpec
open Yuiv Yuiv.KhRef Yuiv.C19 Yuiv.C06Cycle Yuiv.C19Inv Yuiv.C19Comm

/-! ### the differential table -/

theorem ins_fold (v : Gen → Array Term) (L : List Gen) (dm0 : DMap) (g : Gen) :
    (L.foldl (fun dm g => dm.insert g (v g)) dm0)[g]? = if g ∈ L then some (v g) else dm0[g]? := by
  induction L generalizing dm0 with
  | nil => simp
  | cons a L ih =>
    rw [List.foldl_cons, ih, Std.HashMap.getElem?_insert]
    by_cases h : g ∈ L
    · simp [h]
    · by_cases e : a = g
      · subst e; simp
      · have : ¬ g = a := fun e' => e e'.symm
        simp [h, e, this]

theorem ins_fold2 (v : Gen → Array Term) (LL : List (Array Gen)) (dm0 : DMap) (g : Gen) :
    (LL.foldl (fun dm gs => gs.foldl (fun dm g => dm.insert g (v g)) dm) dm0)[g]? =
      if ∃ gs ∈ LL, g ∈ gs then some (v g) else dm0[g]? := by
  induction LL generalizing dm0 with
  | nil => simp
  | cons a LL ih =>
    rw [List.foldl_cons, ih, ← Array.foldl_toList, ins_fold]
    by_cases h : ∃ gs ∈ LL, g ∈ gs
    · have : ∃ gs ∈ a :: LL, g ∈ gs := by obtain ⟨gs, h1, h2⟩ := h; exact ⟨gs, List.mem_cons_of_mem _ h1, h2⟩
      simp [h]
    · by_cases e : g ∈ a
      · have : ∃ gs ∈ a :: LL, g ∈ gs := ⟨a, by simp, e⟩
        simp [h, e]
      · have : ¬ ∃ gs ∈ a :: LL, g ∈ gs := by
          rintro ⟨gs, h1, h2⟩
          rcases List.mem_cons.1 h1 with rfl | h1
          · exact e h2
          · exact h ⟨gs, h1, h2⟩
        simp [h, e]

/-- on the enumerated generators the differential table is `Cube.d` -/
theorem dmapOf_get (c : Cube) (p : Params) (kgens : Array (Array Gen)) (g : Gen) (hg : ∃ gs ∈ kgens, g ∈ gs) :
    ((dmapOf c p kgens).get? g).getD #[] = (c.d p g).getD #[] := by
  unfold dmapOf
  rw [Std.HashMap.get?_eq_getElem?, ← Array.foldl_toList, ins_fold2]
  have : ∃ gs ∈ kgens.toList, g ∈ gs := by
    obtain ⟨gs, h1, h2⟩ := hg
    exact ⟨gs, Array.mem_toList_iff.2 h1, h2⟩
  rw [if_pos this]
  rfl

/-! ### `dIA` is `dI` -/

theorem dIA_toList (ic : ICube) (p : Params) (x : IGen) : (dIfull ic p x).toList = dI ic p x := by
  obtain ⟨b, g⟩ := x
  unfold dIfull dIA dI dK oddSupp
  cases b
  · simp only [Array.toList_append, Array.toList_map, Array.toList_filter, List.map_map]
    rfl
  · simp only [Array.toList_map, Array.toList_filter, List.map_map]
    rfl

theorem dIA_congr (ic : ICube) (dK1 dK2 : Gen → Array Term) (x : IGen) (h : dK1 x.2 = dK2 x.2) :
    dIA ic dK1 x = dIA ic dK2 x := by
  obtain ⟨b, g⟩ := x
  simp only at h
  cases b <;> simp only [dIA, h]

/-! ### the meaning of `khiGensOk` -/

theorem baseKeepB_eq (c : Cube) (g : Gen) : baseKeepB c g = baseKeep c g := rfl

theorem nodupB_spec (gs : Array IGen) (h : nodupB gs = true) : gs.toList.Nodup := by
  unfold nodupB at h
  rw [List.Nodup, List.pairwise_iff_getElem]
  intro i j hi hj hij
  have hj' : j < gs.size := by simpa using hj
  have := (allBelow_spec _ _).1 ((allBelow_spec _ _).1 h j hj') i hij
  rw [getElem!_pos gs j hj', getElem!_pos gs i (by omega)] at this
  simp only [Array.getElem_toList]
  intro e
  rw [e] at this
  simp at this

structure GensOk (ic : ICube) (p : Params) : Prop where
  valid : ∀ gs ∈ kgensOf ic.cube, ∀ g ∈ gs,
    g.s < 2 ^ ic.cube.n ∧ g.mask < 2 ^ (ic.cube.circ[g.s]!).size ∧ baseKeep ic.cube g = true
  nodup : ∀ i : Nat, (Array.toList ((coneGens ic.cube (kgensOf ic.cube))[i]!)).Nodup
  closed : ∀ i : Nat, i < (coneGens ic.cube (kgensOf ic.cube)).size → ∀ x ∈ (coneGens ic.cube (kgensOf ic.cube))[i]!,
    ∀ y ∈ dI ic p x, y ∈ (coneGens ic.cube (kgensOf ic.cube))[i + 1]!

theorem gensOk_spec (ic : ICube) (p : Params) (h : khiGensOk ic p = true) : GensOk ic p := by
  unfold khiGensOk at h
  simp only [Bool.and_eq_true, Array.all_eq_true_iff_forall_mem, decide_eq_true_eq] at h
  obtain ⟨⟨h1, h2⟩, h3⟩ := h
  refine ⟨?_, ?_, ?_⟩
  · intro gs hgs g hg
    obtain ⟨⟨a, b⟩, c⟩ := h1 gs hgs g hg
    exact ⟨a, b, c⟩
  · intro i
    by_cases hi : i < (coneGens ic.cube (kgensOf ic.cube)).size
    · rw [getElem!_pos _ i hi]
      exact nodupB_spec _ (h2 _ (Array.getElem_mem hi))
    · rw [getElem!_neg _ i hi]
      exact List.nodup_nil
  · intro i hi x hx y hy
    have := (allBelow_spec _ _).1 h3 i hi
    rw [Array.all_eq_true_iff_forall_mem] at this
    have := this x hx
    rw [Array.all_eq_true_iff_forall_mem] at this
    have := this y (by rw [← Array.mem_toList_iff, dIA_toList]; exact hy)
    exact Array.contains_iff_mem.1 this

theorem coneGens_size (c : Cube) (kg : Array (Array Gen)) : (coneGens c kg).size = c.n + 2 := by
  simp [coneGens]

/-- a cone generator of any degree sits over an enumerated cube generator -/
theorem coneGens_mem (c : Cube) (kg : Array (Array Gen)) (i : Nat) (x : IGen) (hx : x ∈ (coneGens c kg)[i]!) :
    ∃ gs ∈ kg, x.2 ∈ gs := by
  by_cases hi : i < (coneGens c kg).size
  · have key : ∀ j : Nat, ∀ g : Gen, g ∈ kg[j]! → ∃ gs ∈ kg, g ∈ gs := by
      intro j g hg
      by_cases hj : j < kg.size
      · rw [getElem!_pos kg j hj] at hg
        exact ⟨_, Array.getElem_mem hj, hg⟩
      · rw [getElem!_neg kg j hj] at hg
        exact absurd hg (Array.not_mem_empty g)
    rw [getElem!_pos _ i hi] at hx
    simp only [coneGens, Array.getElem_map, Array.getElem_range, Array.mem_append] at hx
    rcases hx with hx | hx
    · split at hx
      · obtain ⟨g, hg, rfl⟩ := Array.mem_map.1 hx
        exact key _ g hg
      · simp at hx
    · split at hx
      · obtain ⟨g, hg, rfl⟩ := Array.mem_map.1 hx
        exact key _ g hg
      · simp at hx
  · rw [getElem!_neg _ i hi] at hx
    exact absurd hx (Array.not_mem_empty x)

end Yuiv.KhiSpec
