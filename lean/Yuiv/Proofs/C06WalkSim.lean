import Yuiv.Proofs.C06WalkDefs
import Yuiv.Proofs.C18BridgeModel
import Yuiv.Proofs.C18BridgeSim
/-
C06WalkSim — the walk model `C06Canon.componentsOf L ts` (labels of the reference link `L`, crossing types `ts`)
computes the same result as the C18 code model `C18.components` on the link `toC18 L ts`:

    theorem componentsOf_sim : C06Canon.componentsOf L ts = (C18.components (toC18 L ts)).map (List.map convPath)

(the right hand side written as a `match` on `Res`).  Differences bridged here:
  * `KhRef.partner` (imperative) vs `C18.passEdge` (`find?` over `slots`)          — `partner_toC18`;
  * `walk` accumulates labels reversed, `traverseLoop` accumulates slots             — `walk_toC18`;
  * `passed ++ edges` vs `edges.reverse ++ passed` (only membership is ever read)    — relation `SR`;
  * the inline Boolean circle test vs `C18.mkPath`                                   — `mkPath_conv`.
No hypothesis on the input is needed (`toC18` reads `e[j]!` and `ts[i]!` exactly like the walk model does); the
hypotheses of `componentsOf_sim` are kept for the callers' convenience and are not used.
-/
namespace Yuiv.C06Walk
open Yuiv Yuiv.KhRef Yuiv.C06Canon Yuiv.C18Bridge

/-! ### `toC18` basics -/

theorem length_toC18 (L : Link) (ts : Array CT) : (toC18 L ts).length = L.size := by simp [toC18]

theorem getElem?_toC18 (L : Link) (ts : Array CT) (i : Nat) (hi : i < L.size) :
    (toC18 L ts)[i]? = some ⟨ctC18 ts[i]!, L[i]!.e[0]!, L[i]!.e[1]!, L[i]!.e[2]!, L[i]!.e[3]!⟩ := by
  unfold toC18
  rw [List.getElem?_map, List.getElem?_range hi]
  rfl

theorem edgeAt_toC18 (L : Link) (ts : Array CT) (i j : Nat) (hi : i < L.size) (hj : j < 4) :
    C18.edgeAt (toC18 L ts) i j = L[i]!.e[j]! := by
  unfold C18.edgeAt
  rw [getElem?_toC18 L ts i hi]
  match j, hj with
  | 0, _ => rfl
  | 1, _ => rfl
  | 2, _ => rfl
  | 3, _ => rfl

theorem ctypeAt_toC18 (L : Link) (ts : Array CT) (i : Nat) (hi : i < L.size) :
    C18.ctypeAt (toC18 L ts) i = ctC18 ts[i]! := by
  unfold C18.ctypeAt
  rw [getElem?_toC18 L ts i hi]

theorem pass_ctC18 (t : CT) (j : Nat) : (ctC18 t).pass j = t.pass j := by cases t <;> rfl

theorem ct_pass_lt (t : CT) (j : Nat) (hj : j < 4) : t.pass j < 4 := by
  cases t <;> simp only [CT.pass] <;> omega

/-! ### `KhRef.partner` on `L` is `pass_edge` on `toC18 L ts` -/

theorem partner_toC18 (L : Link) (ts : Array CT) (i k : Nat) (hi : i < L.size) (hk : k < 4) :
    KhRef.partner L i k = C18.passEdge (toC18 L ts) i k := by
  rw [partner_eq]
  unfold partnerF C18.passEdge
  dsimp only
  rw [slots_eq, List.find?_map, Option.map_map, length_toC18, edgeAt_toC18 L ts i k hi hk]
  have hcongr : ∀ p ∈ allSlots L.size,
      (L[p.1]!.e[p.2]! == L[i]!.e[k]! && !(p.1 == i && p.2 == k)) =
      ((fun (s : (Nat × Nat) × Nat) => s.2 == L[i]!.e[k]! && s.1 != (i, k)) ∘
        fun p => (p, C18.edgeAt (toC18 L ts) p.1 p.2)) p := by
    intro p hp
    obtain ⟨h1, h2⟩ := (mem_allSlots _ p).1 hp
    show _ = (C18.edgeAt (toC18 L ts) p.1 p.2 == L[i]!.e[k]! && p != (i, k))
    rw [edgeAt_toC18 L ts p.1 p.2 h1 h2]
    congr 1
  rw [find?_congr_mem _ _ _ hcongr]
  cases List.find? _ (allSlots L.size) <;> rfl

theorem passEdge_lt (l : C18.Link) (i k : Nat) (nxt : Nat × Nat) (h : C18.passEdge l i k = some nxt) :
    nxt.1 < l.length ∧ nxt.2 < 4 := by
  unfold C18.passEdge at h
  dsimp only at h
  rw [slots_eq, List.find?_map, Option.map_map] at h
  obtain ⟨p, hp, rfl⟩ := Option.map_eq_some_iff.1 h
  exact (mem_allSlots _ p).1 (List.mem_of_find?_eq_some hp)

/-! ### one walk -/

/-- the label at a slot of the C18 link -/
def lab (L : Link) (ts : Array CT) (p : Nat × Nat) : Nat := C18.edgeAt (toC18 L ts) p.1 p.2

/-- transport of a C18 result -/
def mapRes {α β} (f : α → β) : Res α → Res β
  | .ok a => .ok (f a)
  | .panic => .panic
  | .err => .err

theorem walk_toC18 (L : Link) (ts : Array CT) (start : Nat × Nat) (hs1 : start.1 < L.size) (hs2 : start.2 < 4) :
    ∀ (fuel i j : Nat) (acc : List (Nat × Nat)), i < L.size → j < 4 →
      walk L ts start fuel i j (acc.map (lab L ts)) =
        mapRes (fun path => (path.map (lab L ts)).reverse) (C18.traverseLoop (toC18 L ts) start fuel (i, j) acc) := by
  intro fuel
  induction fuel with
  | zero => intro i j acc _ _; rfl
  | succ fuel ih =>
    intro i j acc hi hj
    unfold walk C18.traverseLoop
    have hk : ts[i]!.pass j < 4 := ct_pass_lt _ _ hj
    simp only [ctypeAt_toC18 L ts i hi, pass_ctC18]
    rw [partner_toC18 L ts i _ hi hk]
    cases hp : C18.passEdge (toC18 L ts) i (ts[i]!.pass j) with
    | none =>
      simp only [mapRes, List.map_reverse, List.reverse_reverse, List.map_cons, lab,
        edgeAt_toC18 L ts i j hi hj, edgeAt_toC18 L ts i _ hi hk]
    | some nxt =>
      obtain ⟨hn1, hn2⟩ := passEdge_lt _ _ _ _ hp
      rw [length_toC18] at hn1
      simp only
      by_cases hret : nxt = start
      · have hb : (nxt == start) = true := by simp [hret]
        rw [if_pos hb, if_pos hret]
        simp only [mapRes, List.map_reverse, List.reverse_reverse, List.map_cons, lab,
          edgeAt_toC18 L ts i j hi hj, edgeAt_toC18 L ts start.1 start.2 hs1 hs2]
      · have hb : ¬ (nxt == start) = true := by simp [hret]
        rw [if_neg hb, if_neg hret]
        have := ih nxt.1 nxt.2 ((i, j) :: acc) hn1 hn2
        simp only [List.map_cons, lab, edgeAt_toC18 L ts i j hi hj] at this
        exact this

/-! ### the circle test -/

theorem mkPath_conv (edges : List Nat) :
    (if (decide (edges.length > 1) && edges.head? == edges.getLast?) = true
      then (⟨edges.dropLast, true⟩ : Path) else ⟨edges, false⟩) = convPath (C18.mkPath edges) := by
  unfold C18.mkPath
  by_cases h : edges.length > 1 ∧ edges.head? = edges.getLast?
  · have hb : (decide (edges.length > 1) && edges.head? == edges.getLast?) = true := by
      simp [h.1, h.2]
    rw [if_pos hb, if_pos h]; rfl
  · have hb : ¬ (decide (edges.length > 1) && edges.head? == edges.getLast?) = true := by
      simpa using h
    rw [if_neg hb, if_neg h]; rfl

/-! ### the `for i0` loop -/

/-- simulation relation of the loop states: same components, same SET of passed labels -/
def SR (a : List Path × List Nat) (b : List C18.Path × List Nat) : Prop :=
  a.1 = b.1.map convPath ∧ ∀ e, e ∈ a.2 ↔ e ∈ b.2

/-- both results of the same kind, `ok` states related -/
def ResRel : Res (List Path × List Nat) → Res (List C18.Path × List Nat) → Prop
  | .ok a, .ok b => SR a b
  | .panic, .panic => True
  | .err, .err => True
  | _, _ => False

theorem contains_congr {xs ys : List Nat} (h : ∀ e, e ∈ xs ↔ e ∈ ys) (e : Nat) : xs.contains e = ys.contains e := by
  cases h1 : ys.contains e with
  | true => simpa using (h e).2 (by simpa using h1)
  | false =>
    have : e ∉ ys := by simpa using h1
    simpa using fun hc => this ((h e).1 hc)

theorem componentsPass_sim (L : Link) (ts : Array CT) (j0 : Nat) (hj0 : j0 < 4) :
    ∀ (is : List Nat), (∀ i ∈ is, i < L.size) → ∀ a b, SR a b →
      ResRel (componentsPass L ts j0 is a) (is.foldlM (C18.compsStep (toC18 L ts) j0) b)
  | [], _, a, b, h => h
  | i0 :: rest, hlt, (comps, passed), b, h => by
    have hi0 : i0 < L.size := hlt i0 List.mem_cons_self
    have hrest : ∀ i ∈ rest, i < L.size := fun i hi => hlt i (List.mem_cons_of_mem _ hi)
    rw [List.foldlM_cons]
    unfold componentsPass
    rw [C18.compsStep, edgeAt_toC18 L ts i0 j0 hi0 hj0, contains_congr h.2]
    by_cases hc : b.2.contains (L[i0]!.e[j0]!) = true
    · rw [if_pos hc, if_pos hc]
      exact componentsPass_sim L ts j0 hj0 rest hrest _ _ h
    · rw [if_neg hc, if_neg hc]
      unfold C18.traverse
      have hw := walk_toC18 L ts (i0, j0) hi0 hj0 (4 * L.size) i0 j0 [] hi0 hj0
      rw [List.map_nil] at hw
      rw [hw, length_toC18]
      cases ht : C18.traverseLoop (toC18 L ts) (i0, j0) (4 * L.size) (i0, j0) [] with
      | panic => trivial
      | err => trivial
      | ok path =>
        simp only [mapRes, List.reverse_reverse, Res.bind_ok]
        have hR := componentsPass_sim L ts j0 hj0 rest hrest
          (comps ++ [convPath (C18.mkPath (path.map (lab L ts)))], passed ++ path.map (lab L ts))
          (b.1 ++ [C18.mkPath (path.map (lab L ts))], (path.map (lab L ts)).reverse ++ b.2)
          ⟨by
            show comps ++ _ = List.map convPath (b.1 ++ _)
            rw [List.map_append, ← h.1]; rfl,
           by
            intro e
            show e ∈ passed ++ _ ↔ e ∈ _ ++ b.2
            rw [List.mem_append, List.mem_append, List.mem_reverse, h.2 e]
            exact Or.comm⟩
        rw [← mkPath_conv] at hR
        exact hR

/-! ### the three passes -/

set_option linter.unusedVariables false in
/-- THE SIMULATION: the walk model on `(L, ts)` returns what the C18 code model returns on `toC18 L ts`.
(`hwf`, `hts` are not needed: both sides read `e[j]!` / `ts[i]!` with the same defaults.) -/
theorem componentsOf_sim (L : KhRef.Link) (hwf : ∀ c ∈ L, c.e.size = 4) (ts : Array KhRef.CT)
    (hts : ts.size = L.size) :
    C06Canon.componentsOf L ts =
      match C18.components (toC18 L ts) with
      | .ok cs => .ok (cs.map convPath)
      | .panic => .panic
      | .err => .err := by
  have hr : ∀ i ∈ List.range L.size, i < L.size := fun i hi => List.mem_range.1 hi
  have h0 := componentsPass_sim L ts 0 (by omega) (List.range L.size) hr ([], []) ([], []) ⟨rfl, fun _ => Iff.rfl⟩
  unfold componentsOf C18.components C18.compsPass
  rw [length_toC18]
  dsimp only
  cases e6 : componentsPass L ts 0 (List.range L.size) ([], []) with
  | panic =>
    cases e18 : List.foldlM (C18.compsStep (toC18 L ts) 0) ([], []) (List.range L.size) <;>
      simp only [e6, e18, ResRel] at h0
    rfl
  | err =>
    cases e18 : List.foldlM (C18.compsStep (toC18 L ts) 0) ([], []) (List.range L.size) <;>
      simp only [e6, e18, ResRel] at h0
    rfl
  | ok a0 =>
    cases e18 : List.foldlM (C18.compsStep (toC18 L ts) 0) ([], []) (List.range L.size) <;>
      simp only [e6, e18, ResRel] at h0
    rename_i b0
    have h1 := componentsPass_sim L ts 1 (by omega) (List.range L.size) hr a0 b0 h0
    simp only [Res.bind_ok]
    cases e6' : componentsPass L ts 1 (List.range L.size) a0 with
    | panic =>
      cases e18' : List.foldlM (C18.compsStep (toC18 L ts) 1) b0 (List.range L.size) <;>
        simp only [e6', e18', ResRel] at h1
      rfl
    | err =>
      cases e18' : List.foldlM (C18.compsStep (toC18 L ts) 1) b0 (List.range L.size) <;>
        simp only [e6', e18', ResRel] at h1
      rfl
    | ok a1 =>
      cases e18' : List.foldlM (C18.compsStep (toC18 L ts) 1) b0 (List.range L.size) <;>
        simp only [e6', e18', ResRel] at h1
      rename_i b1
      have h2 := componentsPass_sim L ts 2 (by omega) (List.range L.size) hr a1 b1 h1
      simp only [Res.bind_ok]
      cases e6'' : componentsPass L ts 2 (List.range L.size) a1 with
      | panic =>
        cases e18'' : List.foldlM (C18.compsStep (toC18 L ts) 2) b1 (List.range L.size) <;>
          simp only [e6'', e18'', ResRel] at h2
        rfl
      | err =>
        cases e18'' : List.foldlM (C18.compsStep (toC18 L ts) 2) b1 (List.range L.size) <;>
          simp only [e6'', e18'', ResRel] at h2
        rfl
      | ok a2 =>
        cases e18'' : List.foldlM (C18.compsStep (toC18 L ts) 2) b1 (List.range L.size) <;>
          simp only [e6'', e18'', ResRel] at h2
        rename_i b2
        simp only [Res.bind_ok, Res.pure_eq]
        rw [h2.1]

end Yuiv.C06Walk
