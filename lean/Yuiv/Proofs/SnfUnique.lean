import Mathlib.Data.ZMod.Basic
import Mathlib.SetTheory.Cardinal.Finite
import Mathlib.Data.Matrix.Mul
import Mathlib.Algebra.Order.BigOperators.GroupWithZero.Finset
import Mathlib.Algebra.BigOperators.Fin
import Mathlib.LinearAlgebra.Matrix.NonsingularInverse
import Mathlib.GroupTheory.Index
import Mathlib.GroupTheory.OrderOfElement
import Mathlib.Data.ZMod.QuotientGroup
/-
Uniqueness of the Smith normal form over ℤ — definitions and lemmas (the property theorems are in
`Props/SnfUnique.lean`).  Mathlib has neither this statement nor Cauchy–Binet; the proof is by COUNTING:

* `nsol q A` = number of solutions `x ∈ (ℤ/q)ⁿ` of `A·x = 0` is invariant under `A ↦ U·A·V` with `U`, `V` invertible
  over ℤ (`nsol_mul`: `x ↦ V·x` is a bijection of the solution sets);
* for a diagonal matrix it is `∏_{i<n} cz (d_i) q`, `cz d q = #{y ∈ ℤ/q | d·y = 0}` (`nsol_diag`; `d_i = 0` for `i ≥ m`);
* of `cz` only `0 < cz d q ≤ q`, `cz d q = q ↔ q ∣ d` and `cz (-d) q = cz d q` are needed (it is `gcd(d, q)`, not needed):
  if `q ∣ a_0` for a chain `a_0 ∣ a_1 ∣ …` then the product is `qⁿ`, which forces `q ∣ b_i` for all `i` (`head_dvd_of_prod`);
  so `a_0` and `b_0` divide each other, the first factors cancel, induction on `n` (`chain_unique`).
-/
namespace Yuiv.SnfUnique
open Matrix Finset

/-! ### the counting function `cz d q = #{y ∈ ℤ/q | d·y = 0}` -/

/-- number of solutions `y ∈ ℤ/q` of `d·y = 0` (it is `gcd(d, q)`; only the three properties below are used) -/
noncomputable def cz (d : ℤ) (q : ℕ) : ℕ := Nat.card {y : ZMod q // (d : ZMod q) * y = 0}

theorem cz_pos (d : ℤ) (q : ℕ) [NeZero q] : 0 < cz d q := by
  have : Nonempty {y : ZMod q // (d : ZMod q) * y = 0} := ⟨⟨0, mul_zero _⟩⟩
  exact Nat.card_pos

theorem cz_le (d : ℤ) (q : ℕ) [NeZero q] : cz d q ≤ q := by
  have := Nat.card_le_card_of_injective (Subtype.val : {y : ZMod q // (d : ZMod q) * y = 0} → ZMod q)
    Subtype.val_injective
  rwa [Nat.card_zmod] at this

theorem cz_eq_iff (d : ℤ) (q : ℕ) [NeZero q] : cz d q = q ↔ (q : ℤ) ∣ d := by
  constructor
  · intro h
    by_contra hnd
    have h1 : ¬ ((d : ZMod q) * 1 = 0) := by
      rw [mul_one, ZMod.intCast_zmod_eq_zero_iff_dvd]; exact hnd
    have := Fintype.card_subtype_lt (p := fun y : ZMod q => (d : ZMod q) * y = 0) h1
    rw [ZMod.card] at this
    unfold cz at h
    rw [Nat.card_eq_fintype_card] at h
    omega
  · intro h
    have h0 : (d : ZMod q) = 0 := (ZMod.intCast_zmod_eq_zero_iff_dvd d q).2 h
    unfold cz
    rw [Nat.card_congr (Equiv.subtypeUnivEquiv (by intro y; rw [h0, zero_mul])), Nat.card_zmod]

theorem cz_neg (d : ℤ) (q : ℕ) : cz (-d) q = cz d q := by
  unfold cz
  apply Nat.card_congr
  apply Equiv.subtypeEquivRight
  intro y
  simp

theorem cz_natAbs (d d' : ℤ) (q : ℕ) (h : d.natAbs = d'.natAbs) : cz d q = cz d' q := by
  rcases Int.natAbs_eq_natAbs_iff.1 h with h | h
  · rw [h]
  · rw [h, cz_neg]

/-! ### the arithmetic core: a divisibility chain is determined by the products `∏ cz (a i) q` -/

theorem chain_dvd (a : ℕ → ℤ) (h : ∀ i, a i ∣ a (i + 1)) (i : ℕ) : a 0 ∣ a i := by
  induction i with
  | zero => exact dvd_refl _
  | succ k ih => exact dvd_trans ih (h k)

theorem head_dvd_of_prod (n : ℕ) (a b : ℕ → ℤ) (ha : ∀ i, a i ∣ a (i + 1))
    (hprod : ∀ q : ℕ, 0 < q → ∏ i ∈ range (n + 1), cz (a i) q = ∏ i ∈ range (n + 1), cz (b i) q)
    (q : ℕ) (hq : 0 < q) (hqa : (q : ℤ) ∣ a 0) : (q : ℤ) ∣ b 0 := by
  have : NeZero q := ⟨by omega⟩
  have hall : ∀ i, cz (a i) q = q := fun i => (cz_eq_iff _ q).2 (dvd_trans hqa (chain_dvd a ha i))
  have h1 := hprod q hq
  rw [Finset.prod_congr rfl (fun i _ => hall i)] at h1
  by_contra hnd
  have hlt : cz (b 0) q < q := lt_of_le_of_ne (cz_le _ q) (fun h => hnd ((cz_eq_iff _ q).1 h))
  have := Finset.prod_lt_prod (s := range (n + 1)) (f := fun i => cz (b i) q) (g := fun _ => q)
    (fun i _ => cz_pos _ q) (fun i _ => cz_le _ q) ⟨0, by simp, hlt⟩
  omega

theorem head_dvd (n : ℕ) (a b : ℕ → ℤ) (ha : ∀ i, a i ∣ a (i + 1))
    (hprod : ∀ q : ℕ, 0 < q → ∏ i ∈ range (n + 1), cz (a i) q = ∏ i ∈ range (n + 1), cz (b i) q) :
    a 0 ∣ b 0 := by
  by_cases h0 : a 0 = 0
  · have hb : b 0 = 0 := by
      by_contra hb
      have := head_dvd_of_prod n a b ha hprod ((b 0).natAbs + 1) (by omega) (by rw [h0]; exact dvd_zero _)
      have h2 : ((b 0).natAbs + 1) ∣ (b 0).natAbs := Int.natCast_dvd.1 this
      have := Nat.le_of_dvd (Int.natAbs_pos.2 hb) h2
      omega
    rw [h0, hb]
  · have := head_dvd_of_prod n a b ha hprod (a 0).natAbs (Int.natAbs_pos.2 h0) (Int.natAbs_dvd.2 (dvd_refl _))
    exact Int.natAbs_dvd.1 this

/-- two divisibility chains `a 0 ∣ a 1 ∣ …`, `b 0 ∣ b 1 ∣ …` with `∏_{i<n} cz (a i) q = ∏_{i<n} cz (b i) q` for every
modulus `q ≥ 1` agree up to sign on `i < n` -/
theorem chain_unique (n : ℕ) : ∀ (a b : ℕ → ℤ), (∀ i, a i ∣ a (i + 1)) → (∀ i, b i ∣ b (i + 1)) →
    (∀ q : ℕ, 0 < q → ∏ i ∈ range n, cz (a i) q = ∏ i ∈ range n, cz (b i) q) →
    ∀ i, i < n → (a i).natAbs = (b i).natAbs := by
  induction n with
  | zero => intro a b _ _ _ i hi; omega
  | succ n ih =>
    intro a b ha hb hprod i hi
    have h0 : (a 0).natAbs = (b 0).natAbs :=
      Int.natAbs_eq_of_dvd_dvd (head_dvd n a b ha hprod) (head_dvd n b a hb (fun q hq => (hprod q hq).symm))
    cases i with
    | zero => exact h0
    | succ i =>
      refine ih (fun k => a (k + 1)) (fun k => b (k + 1)) (fun k => ha (k + 1)) (fun k => hb (k + 1)) ?_ i
        (by omega)
      intro q hq
      have : NeZero q := ⟨by omega⟩
      have := hprod q hq
      rw [Finset.prod_range_succ', Finset.prod_range_succ', cz_natAbs _ _ q h0] at this
      exact Nat.eq_of_mul_eq_mul_right (cz_pos _ q) this


/-! ### the invariant: number of solutions of `A·x = 0` over `ℤ/q` -/

variable {m n k : ℕ}

/-- the matrix reduced modulo `q` -/
noncomputable def red (q : ℕ) (A : Matrix (Fin m) (Fin n) ℤ) : Matrix (Fin m) (Fin n) (ZMod q) :=
  A.map (Int.castRingHom (ZMod q))

/-- `N_q(A)`: number of `x ∈ (ℤ/q)ⁿ` with `A·x = 0` -/
noncomputable def nsol (q : ℕ) (A : Matrix (Fin m) (Fin n) ℤ) : ℕ :=
  Nat.card {x : Fin n → ZMod q // red q A *ᵥ x = 0}

theorem red_mul (q : ℕ) (A : Matrix (Fin m) (Fin n) ℤ) (B : Matrix (Fin n) (Fin k) ℤ) :
    red q (A * B) = red q A * red q B := Matrix.map_mul

theorem red_one (q : ℕ) : red q (1 : Matrix (Fin n) (Fin n) ℤ) = 1 :=
  Matrix.map_one _ (map_zero _) (map_one _)

/-- `N_q` is invariant under `A ↦ U·A·V` for `U` left-invertible and `V` invertible -/
theorem nsol_mul (q : ℕ) (U Ui : Matrix (Fin m) (Fin m) ℤ) (V Vi : Matrix (Fin n) (Fin n) ℤ)
    (hU : Ui * U = 1) (hV : V * Vi = 1) (hV' : Vi * V = 1) (A : Matrix (Fin m) (Fin n) ℤ) :
    nsol q (U * A * V) = nsol q A := by
  have hU1 : red q Ui * red q U = 1 := by rw [← red_mul, hU, red_one]
  have hV1 : red q V * red q Vi = 1 := by rw [← red_mul, hV, red_one]
  have hV2 : red q Vi * red q V = 1 := by rw [← red_mul, hV', red_one]
  have hexp : ∀ x : Fin n → ZMod q, red q (U * A * V) *ᵥ x = red q U *ᵥ (red q A *ᵥ (red q V *ᵥ x)) := by
    intro x
    rw [red_mul, red_mul, Matrix.mulVec_mulVec, Matrix.mulVec_mulVec]
  unfold nsol
  refine Nat.card_congr
    { toFun := fun x => ⟨red q V *ᵥ x.1, ?_⟩
      invFun := fun y => ⟨red q Vi *ᵥ y.1, ?_⟩
      left_inv := ?_
      right_inv := ?_ }
  · have h := x.2
    rw [hexp] at h
    have h2 := congrArg (fun w => red q Ui *ᵥ w) h
    simp only [Matrix.mulVec_mulVec, Matrix.mulVec_zero] at h2
    rw [← Matrix.mul_assoc, ← Matrix.mul_assoc, hU1, Matrix.one_mul, ← Matrix.mulVec_mulVec] at h2
    exact h2
  · rw [hexp, Matrix.mulVec_mulVec _ (red q V), hV1, Matrix.one_mulVec, y.2, Matrix.mulVec_zero]
  · intro x
    apply Subtype.ext
    simp only
    rw [Matrix.mulVec_mulVec, hV2, Matrix.one_mulVec]
  · intro y
    apply Subtype.ext
    simp only
    rw [Matrix.mulVec_mulVec, hV1, Matrix.one_mulVec]

/-! ### diagonal matrices -/

/-- the `k`-th diagonal entry, `0` outside the matrix -/
def dgM (D : Matrix (Fin m) (Fin n) ℤ) (k : ℕ) : ℤ :=
  if h : k < m ∧ k < n then D ⟨k, h.1⟩ ⟨k, h.2⟩ else 0

/-- all entries off the main diagonal vanish -/
def IsDiagM (D : Matrix (Fin m) (Fin n) ℤ) : Prop := ∀ (i : Fin m) (j : Fin n), i.1 ≠ j.1 → D i j = 0

theorem red_mulVec_diag (q : ℕ) (D : Matrix (Fin m) (Fin n) ℤ) (hD : IsDiagM D) (x : Fin n → ZMod q)
    (i : Fin m) :
    (red q D *ᵥ x) i = (dgM D i.1 : ZMod q) * (if h : i.1 < n then x ⟨i.1, h⟩ else 0) := by
  simp only [Matrix.mulVec, dotProduct, red, Matrix.map_apply, Int.coe_castRingHom]
  by_cases h : i.1 < n
  · rw [dif_pos h, Finset.sum_eq_single (⟨i.1, h⟩ : Fin n)]
    · simp [dgM, h]
    · intro j _ hj
      rw [hD i j (fun e => hj (Fin.ext e.symm))]
      simp
    · intro hni; exact absurd (Finset.mem_univ _) hni
  · rw [dif_neg h, mul_zero]
    apply Finset.sum_eq_zero
    intro j _
    rw [hD i j (fun e => h (e ▸ j.2))]
    simp

theorem red_mulVec_eq_zero_iff (q : ℕ) (D : Matrix (Fin m) (Fin n) ℤ) (hD : IsDiagM D) (x : Fin n → ZMod q) :
    red q D *ᵥ x = 0 ↔ ∀ j : Fin n, (dgM D j.1 : ZMod q) * x j = 0 := by
  constructor
  · intro h j
    by_cases hj : j.1 < m
    · have := congrFun h ⟨j.1, hj⟩
      rw [red_mulVec_diag q D hD] at this
      simpa using this
    · simp [dgM, hj]
  · intro h
    funext i
    rw [red_mulVec_diag q D hD]
    by_cases hi : i.1 < n
    · rw [dif_pos hi]
      exact h ⟨i.1, hi⟩
    · rw [dif_neg hi, mul_zero]; rfl

/-- for a diagonal matrix `N_q(D) = ∏_{i<n} #{y | d_i·y = 0}` (`d_i = 0` for `i ≥ m`) -/
theorem nsol_diag (q : ℕ) (D : Matrix (Fin m) (Fin n) ℤ) (hD : IsDiagM D) :
    nsol q D = ∏ i ∈ range n, cz (dgM D i) q := by
  unfold nsol
  rw [Nat.card_congr (Equiv.subtypeEquivRight (red_mulVec_eq_zero_iff q D hD)),
    Nat.card_congr (Equiv.subtypePiEquivPi (β := fun _ : Fin n => ZMod q)
      (p := fun j y => (dgM D j.1 : ZMod q) * y = 0)), Nat.card_pi,
    ← Fin.prod_univ_eq_prod_range (fun i => cz (dgM D i) q) n]
  rfl


/-! ### Smith diagonal matrices and the uniqueness theorem -/

/-- a Smith diagonal: off-diagonal entries vanish and `d_0 ∣ d_1 ∣ d_2 ∣ …` (`d_k = 0` outside the matrix, so zeros
can only stand at the end of the diagonal) -/
structure IsSmith (D : Matrix (Fin m) (Fin n) ℤ) : Prop where
  diag : IsDiagM D
  chain : ∀ k, dgM D k ∣ dgM D (k + 1)

theorem dgM_out (D : Matrix (Fin m) (Fin n) ℤ) (k : ℕ) (h : n ≤ k) : dgM D k = 0 := by
  unfold dgM
  rw [dif_neg (by omega)]

/-- **uniqueness of the Smith diagonal** (explicit inverses) -/
theorem smith_natAbs_eq (D D' : Matrix (Fin m) (Fin n) ℤ) (hD : IsSmith D) (hD' : IsSmith D')
    (U Ui : Matrix (Fin m) (Fin m) ℤ) (V Vi : Matrix (Fin n) (Fin n) ℤ)
    (hU : Ui * U = 1) (hV : V * Vi = 1) (hV' : Vi * V = 1) (h : D' = U * D * V) (k : ℕ) :
    (dgM D k).natAbs = (dgM D' k).natAbs := by
  by_cases hk : k < n
  · refine chain_unique n (dgM D) (dgM D') hD.chain hD'.chain ?_ k hk
    intro q _
    rw [← nsol_diag q D hD.diag, ← nsol_diag q D' hD'.diag, h, nsol_mul q U Ui V Vi hU hV hV']
  · rw [dgM_out D k (by omega), dgM_out D' k (by omega)]

/-- two Smith forms `D = U·A·V`, `D' = U'·A·V'` of the same matrix (one-sided inverses given, as the code hands them
out: `U·Ui = 1` …) have the same diagonal up to sign -/
theorem smith_natAbs_eq_of_same (A D D' : Matrix (Fin m) (Fin n) ℤ) (hD : IsSmith D) (hD' : IsSmith D')
    (U Ui U' Ui' : Matrix (Fin m) (Fin m) ℤ) (V Vi V' Vi' : Matrix (Fin n) (Fin n) ℤ)
    (hU : U * Ui = 1) (hV : V * Vi = 1) (hU' : U' * Ui' = 1) (hV' : V' * Vi' = 1)
    (h : U * A * V = D) (h' : U' * A * V' = D') (k : ℕ) :
    (dgM D k).natAbs = (dgM D' k).natAbs := by
  have hUc : Ui * U = 1 := mul_eq_one_comm.mp hU
  have hVc : Vi * V = 1 := mul_eq_one_comm.mp hV
  have hUc' : Ui' * U' = 1 := mul_eq_one_comm.mp hU'
  have hVc' : Vi' * V' = 1 := mul_eq_one_comm.mp hV'
  have hA : A = Ui * D * Vi := by
    rw [← h]
    calc A = (Ui * U) * A * (V * Vi) := by rw [hUc, hV, Matrix.one_mul, Matrix.mul_one]
      _ = Ui * (U * A * V) * Vi := by simp only [Matrix.mul_assoc]
  refine smith_natAbs_eq D D' hD hD' (U' * Ui) (U * Ui') (Vi * V') (Vi' * V) ?_ ?_ ?_ ?_ k
  · calc U * Ui' * (U' * Ui) = U * (Ui' * U') * Ui := by simp only [Matrix.mul_assoc]
      _ = 1 := by rw [hUc', Matrix.mul_one, hU]
  · calc Vi * V' * (Vi' * V) = Vi * (V' * Vi') * V := by simp only [Matrix.mul_assoc]
      _ = 1 := by rw [hV', Matrix.mul_one, hVc]
  · calc Vi' * V * (Vi * V') = Vi' * (V * Vi) * V' := by simp only [Matrix.mul_assoc]
      _ = 1 := by rw [hV, Matrix.mul_one, hVc']
  · rw [← h', hA]
    simp only [Matrix.mul_assoc]

/-- a diagonal matrix is determined by its diagonal -/
theorem eq_of_dgM_eq (D D' : Matrix (Fin m) (Fin n) ℤ) (hD : IsDiagM D) (hD' : IsDiagM D')
    (h : ∀ k, dgM D k = dgM D' k) : D = D' := by
  ext i j
  by_cases hij : i.1 = j.1
  · have := h i.1
    unfold dgM at this
    rw [dif_pos ⟨i.2, hij ▸ j.2⟩, dif_pos ⟨i.2, hij ▸ j.2⟩] at this
    have hj : j = ⟨i.1, hij ▸ j.2⟩ := Fin.ext hij.symm
    rw [hj]
    exact this
  · rw [hD i j hij, hD' i j hij]

theorem eq_of_natAbs_eq_of_nonneg {a b : ℤ} (h : a.natAbs = b.natAbs) (ha : 0 ≤ a) (hb : 0 ≤ b) : a = b := by
  omega

/-! ### the explicit value `cz d q = gcd(|d|, q)` (not needed for uniqueness) -/

theorem range_mulLeft (q : ℕ) (x : ZMod q) :
    (AddMonoidHom.mulLeft x).range = AddSubgroup.zmultiples x := by
  ext z
  simp only [AddMonoidHom.mem_range, AddMonoidHom.coe_mulLeft, AddSubgroup.mem_zmultiples_iff]
  constructor
  · rintro ⟨y, rfl⟩
    refine ⟨(y.cast : ℤ), ?_⟩
    rw [zsmul_eq_mul, ZMod.intCast_cast, ZMod.cast_id', id, mul_comm]
  · rintro ⟨k, rfl⟩
    exact ⟨(k : ZMod q), by rw [zsmul_eq_mul, mul_comm]⟩

theorem addOrderOf_intCast (d : ℤ) (q : ℕ) [NeZero q] :
    addOrderOf (d : ZMod q) = q / Nat.gcd q d.natAbs := by
  rcases Int.natAbs_eq d with h | h
  · rw [h]
    simp only [Int.cast_natCast, Int.natAbs_natCast]
    exact ZMod.addOrderOf_coe _ (NeZero.ne q)
  · rw [h]
    simp only [Int.cast_neg, Int.cast_natCast, addOrderOf_neg, Int.natAbs_neg, Int.natAbs_natCast]
    exact ZMod.addOrderOf_coe _ (NeZero.ne q)

theorem card_arith (K g q : ℕ) (hq : 0 < q) (hg : g ∣ q) (h : K * (q / g) = q) : K = g := by
  obtain ⟨c, rfl⟩ := hg
  have hgpos : 0 < g := Nat.pos_of_mul_pos_right hq
  have hcpos : 0 < c := Nat.pos_of_mul_pos_left hq
  rw [Nat.mul_div_cancel_left _ hgpos] at h
  exact Nat.eq_of_mul_eq_mul_right hcpos h

/-- `#{y ∈ ℤ/q | d·y = 0} = gcd(|d|, q)` -/
theorem cz_eq_gcd (d : ℤ) (q : ℕ) [NeZero q] : cz d q = Nat.gcd d.natAbs q := by
  have h1 := AddSubgroup.card_mul_index (AddMonoidHom.mulLeft (d : ZMod q)).ker
  rw [AddSubgroup.index_ker, range_mulLeft, Nat.card_zmultiples, addOrderOf_intCast, Nat.card_zmod] at h1
  have hk : cz d q = Nat.card (AddMonoidHom.mulLeft (d : ZMod q)).ker := by
    unfold cz
    apply Nat.card_congr
    exact Equiv.subtypeEquivRight (fun y => by simp [AddMonoidHom.mem_ker])
  rw [hk, Nat.gcd_comm]
  exact card_arith _ _ q (Nat.pos_of_ne_zero (NeZero.ne q)) (Nat.gcd_dvd_left _ _) h1

/-- for a diagonal matrix and `q ≥ 1`: `N_q(D) = ∏_{i<n} gcd(|d_i|, q)` -/
theorem nsol_diag_gcd (q : ℕ) [NeZero q] (D : Matrix (Fin m) (Fin n) ℤ) (hD : IsDiagM D) :
    nsol q D = ∏ i ∈ range n, Nat.gcd (dgM D i).natAbs q := by
  rw [nsol_diag q D hD]
  exact Finset.prod_congr rfl fun i _ => cz_eq_gcd _ q

end Yuiv.SnfUnique
