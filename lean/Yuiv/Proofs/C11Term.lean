import Yuiv.Proofs.C11Fuel
/-
C11 — no livelock: every step of the parallel phase strictly decreases a natural-number measure, so every
schedule is finite (a retry is always caused by somebody else's commit, and commits are bounded by the rows).
-/
namespace Yuiv.C11
open Yuiv Res Std

def bnd (st : State) : Nat := st.S.length + st.ws.length + st.todo.length

def wterm (B : Nat) (w : Worker) : Nat := 2 * (B - w.k) + (if w.chosen.isSome then 0 else 1)

/-- the termination measure -/
def measure (st : State) : Nat :=
  (st.ws.map (wterm (bnd st))).sum + (2 * bnd st + 2) * st.todo.length

theorem bind_eq_ok {α β} {x : Res α} {f : α → Res β} {b : β} (h : (x >>= f) = .ok b) :
    ∃ a, x = .ok a ∧ f a = .ok b := by
  cases x with
  | ok a => exact ⟨a, rfl, h⟩
  | err => cases h
  | panic => cases h

theorem filter_row_self (ws : List Worker) (i : Nat) (h : i ∉ ws.map (·.row)) : dropWorker ws i = ws := by
  unfold dropWorker
  rw [List.filter_eq_self]
  intro w hw
  have : w.row ≠ i := fun e => h (List.mem_map.2 ⟨w, hw, e⟩)
  simp [this]

theorem sum_split (f : Worker → Nat) : ∀ (ws : List Worker) (i : Nat) (w : Worker), (ws.map (·.row)).Nodup →
    findWorker ws i = some w →
    (ws.map f).sum = f w + ((dropWorker ws i).map f).sum ∧ ws.length = (dropWorker ws i).length + 1 := by
  intro ws
  induction ws with
  | nil => intro i w _ h; simp [findWorker] at h
  | cons a ws ih =>
    intro i w hnd h
    simp only [List.map_cons, List.nodup_cons] at hnd
    unfold findWorker at h
    rw [List.find?_cons] at h
    by_cases ha : a.row = i
    · simp only [ha, beq_self_eq_true] at h
      cases h
      have hni : i ∉ ws.map (·.row) := ha ▸ hnd.1
      have : dropWorker (a :: ws) i = ws := by
        have h1 : dropWorker (a :: ws) i = dropWorker ws i := by
          simp [dropWorker, ha]
        rw [h1, filter_row_self ws i hni]
      rw [this]
      simp
    · have hb : (a.row == i) = false := by simp [ha]
      simp only [hb] at h
      have h' : findWorker ws i = some w := h
      obtain ⟨h1, h2⟩ := ih i w hnd.2 h'
      have : dropWorker (a :: ws) i = a :: dropWorker ws i := by
        simp [dropWorker, ha]
      rw [this]
      simp only [List.map_cons, List.sum_cons, List.length_cons]
      omega

theorem wterm_mono {B B' : Nat} (h : B' ≤ B) (w : Worker) : wterm B' w ≤ wterm B w := by
  unfold wterm; omega

theorem sum_wterm_mono {B B' : Nat} (h : B' ≤ B) (ws : List Worker) :
    (ws.map (wterm B')).sum ≤ (ws.map (wterm B)).sum := by
  induction ws with
  | nil => simp
  | cons a ws ih =>
    simp only [List.map_cons, List.sum_cons]
    have := wterm_mono h a
    omega

theorem updateDiff_nil (w : Worker) : updateDiff [] w = .ok w := rfl

/-- every enabled step strictly decreases the measure -/
theorem step_decreases (s : Str) (_hwf : s.WF) (st : State) (h : GInv s st) (a : Act) (st' : State) (o : Outcome)
    (hs : step s st a = .ok (st', o)) : measure st' < measure st := by
  cases a with
  | start i k =>
    rw [step] at hs
    split at hs
    · rename_i hc
      simp only [Bool.and_eq_true, decide_eq_true_eq, List.contains_iff_mem] at hc
      obtain ⟨w, _, hw2⟩ := bind_eq_ok hs
      cases hw2
      have hlen : (st.todo.erase i).length = st.todo.length - 1 := List.length_erase_of_mem hc.1.1
      have hpos : 0 < st.todo.length := List.length_pos_of_mem hc.1.1
      have hB : bnd { st with todo := st.todo.erase i, ws := w :: st.ws } = bnd st := by
        simp only [bnd, List.length_cons, hlen]; omega
      unfold measure
      rw [hB]
      simp only [List.map_cons, List.sum_cons, hlen]
      have hw : wterm (bnd st) w ≤ 2 * bnd st + 1 := by unfold wterm; split <;> omega
      generalize (st.ws.map (wterm (bnd st))).sum = X
      generalize bnd st = B at *
      have : (2 * B + 2) * (st.todo.length - 1) + (2 * B + 2) = (2 * B + 2) * st.todo.length := by
        rw [← Nat.mul_succ]; congr 1; omega
      omega
    · cases hs
  | search i choice =>
    rw [step] at hs
    cases hf : findWorker st.ws i with
    | none => rw [hf] at hs; cases hs
    | some w =>
      rw [hf] at hs
      simp only at hs
      obtain ⟨hw, hr⟩ := findWorker_some hf
      have hg := h.workers w hw
      obtain ⟨hsum, hlen⟩ := sum_split (wterm (bnd st)) st.ws i w h.wsNodup hf
      split at hs
      · cases hs
      · rename_i hch
        have hchn : w.chosen.isSome = false := by simpa using hch
        obtain ⟨w1, hw1, hs2⟩ := bind_eq_ok hs
        obtain ⟨_, hm1, _⟩ := (traverse_good s (st.S.take w.k) w hg.inv).of_ok hw1
        have hwt : wterm (bnd st) w = 2 * (bnd st - w.k) + 1 := by simp [wterm, hchn]
        cases choice with
        | none =>
          simp only at hs2
          cases hs2
          have hB : bnd { st with ws := dropWorker st.ws i } + 1 = bnd st := by
            simp only [bnd]; omega
          unfold measure
          have h1 := sum_wterm_mono (B := bnd st) (B' := bnd { st with ws := dropWorker st.ws i }) (by omega)
            (dropWorker st.ws i)
          have h2 : (2 * bnd { st with ws := dropWorker st.ws i } + 2) * st.todo.length
              ≤ (2 * bnd st + 2) * st.todo.length := Nat.mul_le_mul_right _ (by omega)
          show (List.map (wterm (bnd { st with ws := dropWorker st.ws i })) (dropWorker st.ws i)).sum +
            (2 * bnd { st with ws := dropWorker st.ws i } + 2) * st.todo.length < _
          omega
        | some j =>
          simp only at hs2
          split at hs2
          · cases hs2
            have hB : bnd { st with ws := { w1 with chosen := some j } :: dropWorker st.ws i } = bnd st := by
              simp only [bnd, List.length_cons]; omega
            unfold measure
            rw [hB]
            simp only [List.map_cons, List.sum_cons]
            have : wterm (bnd st) { w1 with chosen := some j } = 2 * (bnd st - w.k) := by
              simp [wterm, hm1.k]
            omega
          · cases hs2
  | validate i =>
    rw [step] at hs
    cases hf : findWorker st.ws i with
    | none => rw [hf] at hs; cases hs
    | some w =>
      rw [hf] at hs
      simp only at hs
      obtain ⟨hw, hr⟩ := findWorker_some hf
      have hg := h.workers w hw
      obtain ⟨hsum, hlen⟩ := sum_split (wterm (bnd st)) st.ws i w h.wsNodup hf
      cases hch : w.chosen with
      | none => rw [hch] at hs; cases hs
      | some j =>
        rw [hch] at hs
        simp only at hs
        obtain ⟨w', hw', hs2⟩ := bind_eq_ok hs
        have hwt : wterm (bnd st) w = 2 * (bnd st - w.k) := by simp [wterm, hch]
        have hkS : w.k ≤ st.S.length := hg.kle
        split at hs2
        · -- retry
          rename_i hre
          cases hs2
          have hlt : w.k < st.S.length := by
            apply Classical.byContradiction
            intro hnot
            have hnil : st.S.drop w.k = [] := List.drop_eq_nil_iff.2 (by omega)
            rw [hnil, updateDiff_nil] at hw'
            cases hw'
            have := (hg.chosen j hch).2
            simp [Worker.shouldRetry, this] at hre
          have hB : bnd { st with ws := { w' with k := st.S.length, chosen := none } :: dropWorker st.ws i } = bnd st := by
            simp only [bnd, List.length_cons]; omega
          unfold measure
          rw [hB]
          simp only [List.map_cons, List.sum_cons]
          have : wterm (bnd st) { w' with k := st.S.length, chosen := none } = 2 * (bnd st - st.S.length) + 1 := by
            simp [wterm]
          have hSB : st.S.length ≤ bnd st := by simp only [bnd]; omega
          omega
        · -- commit
          obtain ⟨S', hS', hs3⟩ := bind_eq_ok hs2
          cases hs3
          have hlenS : S'.length = st.S.length + 1 := by
            unfold Pivs.set at hS'
            split at hS'
            · cases hS'
            · cases hS'; simp
          have hB : bnd { st with S := S', ws := dropWorker st.ws i } = bnd st := by
            simp only [bnd, hlenS]; omega
          unfold measure
          rw [hB]
          show (List.map (wterm (bnd st)) (dropWorker st.ws i)).sum + (2 * bnd st + 2) * st.todo.length < _
          have hSB : st.S.length < bnd st := by simp only [bnd]; omega
          omega

/-- every schedule that the model accepts has at most `measure st` steps -/
theorem run_length_le (s : Str) (hwf : s.WF) : ∀ (acts : List Act) (st st' : State) (os : List Outcome),
    GInv s st → run s st acts = .ok (st', os) → acts.length ≤ measure st := by
  intro acts
  induction acts with
  | nil => intro st st' os _ _; exact Nat.zero_le _
  | cons a acts ih =>
    intro st st' os h hr
    rw [run] at hr
    obtain ⟨⟨st1, o⟩, h1, hr2⟩ := bind_eq_ok hr
    obtain ⟨⟨st2, os2⟩, h2, _⟩ := bind_eq_ok hr2
    have hg1 : GInv s st1 := (step_good s hwf st h a).of_ok h1
    have hd := step_decreases s hwf st h a st1 o h1
    have := ih st1 st2 os2 hg1 h2
    simp only [List.length_cons]
    omega

end Yuiv.C11
