import Yuiv.Proofs.KhSnfMat
/-
KhSnf — an abstract invariant for elimination algorithms that work on a shrinking "live" matrix.

`GInv m n A mr nc G units` : the original `m × n` matrix `A` is unimodularly equivalent (`Reach`) to a matrix `V` that
consists of
  * `units` many unit pivots `(pr t, pc t)` (entries ±1, alone in their row and in their column),
  * a copy of the live matrix (the `mr × nc` corner of `G : ℕ → ℕ → ℤ`) placed at the rows `ρ k` and the columns `κ c`
    (zero in the live rows outside the columns `κ c`),
  * zero rows elsewhere.
A live column `κ c` MAY coincide with a pivot column `pc t` (this happens after `ginv_peel`, which keeps the pivot column
among the live columns); then column `c` of `G` is zero.  This is why `ginv_colOps` needs `hqz`: the coefficient of a
zero column of `G` must vanish.  (Without it the statement is false for this invariant: `A = 1` (2 × 2), peel `(0,0)`,
live matrix `[0 1]`; the column operation with source 1 and `q 0 = 5` gives `[5 1]`, which cannot be placed beside a unit
pivot that is alone in its column.)

API: `ginv_init`, `ginv_congr`, `ginv_rowOps`, `ginv_colOps` (`ginv_colOps'`), `ginv_rows`, `ginv_cols`, `ginv_peel`,
`ginv_final` (the diagonal form of `A` at the end of the elimination).
-/
namespace Yuiv.KhSnf
open Matrix Yuiv.C03Uct

/-- the shape of the transformed matrix `V` -/
structure GForm (m n : ℕ) (V : ℕ → ℕ → ℤ) (mr nc : ℕ) (G : ℕ → ℕ → ℤ) (units : ℕ) (ρ κ pr pc : ℕ → ℕ) : Prop where
  ρlt : ∀ k, k < mr → ρ k < m
  ρinj : ∀ k k', k < mr → k' < mr → ρ k = ρ k' → k = k'
  κlt : ∀ c, c < nc → κ c < n
  κinj : ∀ c c', c < nc → c' < nc → κ c = κ c' → c = c'
  plt : ∀ t, t < units → pr t < m ∧ pc t < n
  prinj : ∀ t t', t < units → t' < units → pr t = pr t' → t = t'
  pcinj : ∀ t t', t < units → t' < units → pc t = pc t' → t = t'
  ρpr : ∀ k t, k < mr → t < units → ρ k ≠ pr t
  live : ∀ k c, k < mr → c < nc → V (ρ k) (κ c) = G k c
  liveZ : ∀ k j, k < mr → j < n → (∀ c, c < nc → κ c ≠ j) → V (ρ k) j = 0
  pu : ∀ t, t < units → (V (pr t) (pc t) = 1 ∨ V (pr t) (pc t) = -1)
  prow : ∀ t j, t < units → j < n → j ≠ pc t → V (pr t) j = 0
  pcol : ∀ t i, t < units → i < m → i ≠ pr t → V i (pc t) = 0
  zrow : ∀ i, i < m → (∀ k, k < mr → ρ k ≠ i) → (∀ t, t < units → pr t ≠ i) → ∀ j, j < n → V i j = 0

def GInv (m n : ℕ) (A : Matrix (Fin m) (Fin n) ℤ) (mr nc : ℕ) (G : ℕ → ℕ → ℤ) (units : ℕ) : Prop :=
  ∃ (V : ℕ → ℕ → ℤ) (ρ κ pr pc : ℕ → ℕ), Reach A (box m n V) ∧ GForm m n V mr nc G units ρ κ pr pc

/-- transport of coefficients along an injective (on `[0,N)`) re-indexing `f` -/
noncomputable def lift (N : ℕ) (f : ℕ → ℕ) (q : ℕ → ℤ) (i : ℕ) : ℤ := by
  classical exact if h : ∃ k, k < N ∧ f k = i then q (Classical.choose h) else 0

theorem lift_apply {N : ℕ} {f : ℕ → ℕ} (hinj : ∀ k k', k < N → k' < N → f k = f k' → k = k') (q : ℕ → ℤ)
    {k : ℕ} (hk : k < N) : lift N f q (f k) = q k := by
  have h : ∃ k', k' < N ∧ f k' = f k := ⟨k, hk, rfl⟩
  unfold lift
  rw [dif_pos h]
  have := Classical.choose_spec h
  rw [hinj _ _ this.1 hk this.2]

theorem lift_not {N : ℕ} {f : ℕ → ℕ} (q : ℕ → ℤ) {i : ℕ} (h : ∀ k, k < N → f k ≠ i) : lift N f q i = 0 := by
  unfold lift
  rw [dif_neg]
  rintro ⟨k, hk, e⟩
  exact h k hk e

namespace GForm
variable {m n : ℕ} {V : ℕ → ℕ → ℤ} {mr nc : ℕ} {G : ℕ → ℕ → ℤ} {units : ℕ} {ρ κ pr pc : ℕ → ℕ}

/-- a live row is zero in `V` if it is zero in `G` -/
theorem rowZero (h : GForm m n V mr nc G units ρ κ pr pc) {k : ℕ} (hk : k < mr) (hz : ∀ c, c < nc → G k c = 0)
    {j : ℕ} (hj : j < n) : V (ρ k) j = 0 := by
  by_cases hex : ∃ c, c < nc ∧ κ c = j
  · obtain ⟨c, hc, rfl⟩ := hex
    rw [h.live k c hk hc, hz c hc]
  · exact h.liveZ k j hk hj (fun c hc e => hex ⟨c, hc, e⟩)

/-- an entry of a live row is zero in `V` if the row of `G` vanishes at the live columns sitting there -/
theorem rowZero' (h : GForm m n V mr nc G units ρ κ pr pc) {k : ℕ} (hk : k < mr) {j : ℕ} (hj : j < n)
    (hz : ∀ c, c < nc → κ c = j → G k c = 0) : V (ρ k) j = 0 := by
  by_cases hex : ∃ c, c < nc ∧ κ c = j
  · obtain ⟨c, hc, e⟩ := hex
    rw [← e, h.live k c hk hc, hz c hc e]
  · exact h.liveZ k j hk hj (fun c hc e => hex ⟨c, hc, e⟩)

/-- a live column with a non-zero entry is not a pivot column -/
theorem κ_ne_pc (h : GForm m n V mr nc G units ρ κ pr pc) {k c t : ℕ} (hk : k < mr) (hc : c < nc) (ht : t < units)
    (hne : G k c ≠ 0) : κ c ≠ pc t := by
  intro e
  apply hne
  rw [← h.live k c hk hc, e]
  exact h.pcol t (ρ k) ht (h.ρlt k hk) (h.ρpr k t hk ht)

end GForm

theorem ginv_init (m n : ℕ) (F : ℕ → ℕ → ℤ) : GInv m n (box m n F) m n F 0 := by
  refine ⟨F, id, id, id, id, Reach.refl _, ?_⟩
  exact
    { ρlt := fun k hk => hk
      ρinj := fun k k' _ _ e => e
      κlt := fun c hc => hc
      κinj := fun c c' _ _ e => e
      plt := fun t ht => absurd ht (Nat.not_lt_zero t)
      prinj := fun t t' ht => absurd ht (Nat.not_lt_zero t)
      pcinj := fun t t' ht => absurd ht (Nat.not_lt_zero t)
      ρpr := fun k t _ ht => absurd ht (Nat.not_lt_zero t)
      live := fun k c _ _ => rfl
      liveZ := fun k j _ hj h => absurd rfl (h j hj)
      pu := fun t ht => absurd ht (Nat.not_lt_zero t)
      prow := fun t j ht => absurd ht (Nat.not_lt_zero t)
      pcol := fun t i ht => absurd ht (Nat.not_lt_zero t)
      zrow := fun i hi h _ => absurd rfl (h i hi) }

theorem ginv_congr {m n A mr nc units} {G G' : ℕ → ℕ → ℤ} (h : ∀ k c, k < mr → c < nc → G k c = G' k c)
    (hG : GInv m n A mr nc G units) : GInv m n A mr nc G' units := by
  obtain ⟨V, ρ, κ, pr, pc, hR, hF⟩ := hG
  exact ⟨V, ρ, κ, pr, pc, hR, { hF with live := fun k c hk hc => (hF.live k c hk hc).trans (h k c hk hc) }⟩

/-- row operations with source row `s` -/
theorem ginv_rowOps {m n A mr nc units} {G : ℕ → ℕ → ℤ} (s : ℕ) (hs : s < mr) (q : ℕ → ℤ) (hq : q s = 0)
    (hG : GInv m n A mr nc G units) : GInv m n A mr nc (fun k c => G k c + q k * G s c) units := by
  obtain ⟨V, ρ, κ, pr, pc, hR, hF⟩ := hG
  have hl : ∀ k, k < mr → lift mr ρ q (ρ k) = q k := fun k hk => lift_apply hF.ρinj q hk
  have hp : ∀ t, t < units → lift mr ρ q (pr t) = 0 := fun t ht => lift_not q (fun k hk => hF.ρpr k t hk ht)
  have hsp : ∀ t, t < units → V (ρ s) (pc t) = 0 := fun t ht =>
    hF.pcol t (ρ s) ht (hF.ρlt s hs) (hF.ρpr s t hs ht)
  refine ⟨fun i c => V i c + lift mr ρ q i * V (ρ s) c, ρ, κ, pr, pc,
    hR.trans (reach_rowOps m n V (ρ s) (hF.ρlt s hs) (lift mr ρ q) (by rw [hl s hs, hq])), ?_⟩
  exact
    { ρlt := hF.ρlt, ρinj := hF.ρinj, κlt := hF.κlt, κinj := hF.κinj, plt := hF.plt, prinj := hF.prinj
      pcinj := hF.pcinj, ρpr := hF.ρpr
      live := fun k c hk hc => by
        show V (ρ k) (κ c) + lift mr ρ q (ρ k) * V (ρ s) (κ c) = _
        rw [hl k hk, hF.live k c hk hc, hF.live s c hs hc]
      liveZ := fun k j hk hj h => by
        show V (ρ k) j + lift mr ρ q (ρ k) * V (ρ s) j = 0
        rw [hF.liveZ k j hk hj h, hF.liveZ s j hs hj h]; simp
      pu := fun t ht => by
        show V (pr t) (pc t) + lift mr ρ q (pr t) * V (ρ s) (pc t) = 1 ∨
          V (pr t) (pc t) + lift mr ρ q (pr t) * V (ρ s) (pc t) = -1
        rw [hp t ht]; simpa using hF.pu t ht
      prow := fun t j ht hj h => by
        show V (pr t) j + lift mr ρ q (pr t) * V (ρ s) j = 0
        rw [hp t ht, hF.prow t j ht hj h]; simp
      pcol := fun t i ht hi h => by
        show V i (pc t) + lift mr ρ q i * V (ρ s) (pc t) = 0
        rw [hsp t ht, hF.pcol t i ht hi h]; simp
      zrow := fun i hi h1 h2 j hj => by
        show V i j + lift mr ρ q i * V (ρ s) j = 0
        rw [lift_not q h1, hF.zrow i hi h1 h2 j hj]; simp }

/-- column operations with source column `s`, which must not be a zero column of `G`; the coefficients of the zero
columns of `G` must vanish (a zero live column may sit on a pivot column of `V`) -/
theorem ginv_colOps {m n A mr nc units} {G : ℕ → ℕ → ℤ} (s : ℕ) (hs : s < nc) (q : ℕ → ℤ) (hq : q s = 0)
    (hnz : ∃ k, k < mr ∧ G k s ≠ 0) (hqz : ∀ c, c < nc → (∀ k, k < mr → G k c = 0) → q c = 0)
    (hG : GInv m n A mr nc G units) :
    GInv m n A mr nc (fun k c => G k c + q c * G k s) units := by
  obtain ⟨V, ρ, κ, pr, pc, hR, hF⟩ := hG
  obtain ⟨k0, hk0, hne0⟩ := hnz
  have hl : ∀ c, c < nc → lift nc κ q (κ c) = q c := fun c hc => lift_apply hF.κinj q hc
  have hκs : ∀ t, t < units → κ s ≠ pc t := fun t ht => hF.κ_ne_pc hk0 hs ht hne0
  have hps : ∀ t, t < units → V (pr t) (κ s) = 0 := fun t ht => hF.prow t (κ s) ht (hF.κlt s hs) (hκs t ht)
  -- the coefficient of a pivot column vanishes
  have hqp : ∀ t, t < units → lift nc κ q (pc t) = 0 := by
    intro t ht
    by_cases hex : ∃ c, c < nc ∧ κ c = pc t
    · obtain ⟨c, hc, e⟩ := hex
      rw [← e, hl c hc]
      apply hqz c hc
      intro k hk
      rw [← hF.live k c hk hc, e]
      exact hF.pcol t (ρ k) ht (hF.ρlt k hk) (hF.ρpr k t hk ht)
    · exact lift_not q (fun c hc e => hex ⟨c, hc, e⟩)
  refine ⟨fun i c => V i c + lift nc κ q c * V i (κ s), ρ, κ, pr, pc,
    hR.trans (reach_colOps m n V (κ s) (hF.κlt s hs) (lift nc κ q) (by rw [hl s hs, hq])), ?_⟩
  exact
    { ρlt := hF.ρlt, ρinj := hF.ρinj, κlt := hF.κlt, κinj := hF.κinj, plt := hF.plt, prinj := hF.prinj
      pcinj := hF.pcinj, ρpr := hF.ρpr
      live := fun k c hk hc => by
        show V (ρ k) (κ c) + lift nc κ q (κ c) * V (ρ k) (κ s) = _
        rw [hl c hc, hF.live k c hk hc, hF.live k s hk hs]
      liveZ := fun k j hk hj h => by
        show V (ρ k) j + lift nc κ q j * V (ρ k) (κ s) = 0
        rw [hF.liveZ k j hk hj h, lift_not q h]; simp
      pu := fun t ht => by
        show V (pr t) (pc t) + lift nc κ q (pc t) * V (pr t) (κ s) = 1 ∨
          V (pr t) (pc t) + lift nc κ q (pc t) * V (pr t) (κ s) = -1
        rw [hps t ht]; simpa using hF.pu t ht
      prow := fun t j ht hj h => by
        show V (pr t) j + lift nc κ q j * V (pr t) (κ s) = 0
        rw [hps t ht, hF.prow t j ht hj h]; simp
      pcol := fun t i ht hi h => by
        show V i (pc t) + lift nc κ q (pc t) * V i (κ s) = 0
        rw [hqp t ht, hF.pcol t i ht hi h]; simp
      zrow := fun i hi h1 h2 j hj => by
        show V i j + lift nc κ q j * V i (κ s) = 0
        rw [hF.zrow i hi h1 h2 j hj, hF.zrow i hi h1 h2 (κ s) (hF.κlt s hs)]; simp }

/-- `ginv_colOps` with the side condition on the coefficients in contrapositive form -/
theorem ginv_colOps' {m n A mr nc units} {G : ℕ → ℕ → ℤ} (s : ℕ) (hs : s < nc) (q : ℕ → ℤ) (hq : q s = 0)
    (hnz : ∃ k, k < mr ∧ G k s ≠ 0) (hqz : ∀ c, c < nc → q c ≠ 0 → ∃ k, k < mr ∧ G k c ≠ 0)
    (hG : GInv m n A mr nc G units) :
    GInv m n A mr nc (fun k c => G k c + q c * G k s) units := by
  refine ginv_colOps s hs q hq hnz (fun c hc h0 => ?_) hG
  by_contra hne
  obtain ⟨k, hk, hkc⟩ := hqz c hc hne
  exact hkc (h0 k hk)

/-- re-indexing / dropping rows: the rows not hit by `idx` must be zero -/
theorem ginv_rows {m n A mr nc units} {G : ℕ → ℕ → ℤ} (mr' : ℕ) (idx : ℕ → ℕ) (hidx : ∀ p, p < mr' → idx p < mr)
    (hinj : ∀ p p', p < mr' → p' < mr' → idx p = idx p' → p = p')
    (hz : ∀ k, k < mr → (∀ p, p < mr' → idx p ≠ k) → ∀ c, c < nc → G k c = 0)
    (hG : GInv m n A mr nc G units) : GInv m n A mr' nc (fun p c => G (idx p) c) units := by
  obtain ⟨V, ρ, κ, pr, pc, hR, hF⟩ := hG
  refine ⟨V, fun p => ρ (idx p), κ, pr, pc, hR, ?_⟩
  exact
    { ρlt := fun p hp => hF.ρlt _ (hidx p hp)
      ρinj := fun p p' hp hp' e => hinj p p' hp hp' (hF.ρinj _ _ (hidx p hp) (hidx p' hp') e)
      κlt := hF.κlt, κinj := hF.κinj, plt := hF.plt, prinj := hF.prinj, pcinj := hF.pcinj
      ρpr := fun p t hp ht => hF.ρpr _ t (hidx p hp) ht
      live := fun p c hp hc => hF.live _ c (hidx p hp) hc
      liveZ := fun p j hp hj h => hF.liveZ _ j (hidx p hp) hj h
      pu := hF.pu, prow := hF.prow, pcol := hF.pcol
      zrow := fun i hi h1 h2 j hj => by
        by_cases hex : ∃ k, k < mr ∧ ρ k = i
        · obtain ⟨k, hk, rfl⟩ := hex
          exact hF.rowZero hk (hz k hk (fun p hp e => h1 p hp (by rw [e]))) hj
        · exact hF.zrow i hi (fun k hk e => hex ⟨k, hk, e⟩) h2 j hj }

/-- re-indexing / dropping columns: the columns not hit by `jdx` must be zero -/
theorem ginv_cols {m n A mr nc units} {G : ℕ → ℕ → ℤ} (nc' : ℕ) (jdx : ℕ → ℕ) (hjdx : ∀ c, c < nc' → jdx c < nc)
    (hinj : ∀ c c', c < nc' → c' < nc' → jdx c = jdx c' → c = c')
    (hz : ∀ j, j < nc → (∀ c, c < nc' → jdx c ≠ j) → ∀ k, k < mr → G k j = 0)
    (hG : GInv m n A mr nc G units) : GInv m n A mr nc' (fun k c => G k (jdx c)) units := by
  obtain ⟨V, ρ, κ, pr, pc, hR, hF⟩ := hG
  refine ⟨V, ρ, fun c => κ (jdx c), pr, pc, hR, ?_⟩
  exact
    { ρlt := hF.ρlt, ρinj := hF.ρinj
      κlt := fun c hc => hF.κlt _ (hjdx c hc)
      κinj := fun c c' hc hc' e => hinj c c' hc hc' (hF.κinj _ _ (hjdx c hc) (hjdx c' hc') e)
      plt := hF.plt, prinj := hF.prinj, pcinj := hF.pcinj, ρpr := hF.ρpr
      live := fun k c hk hc => hF.live k _ hk (hjdx c hc)
      liveZ := fun k j hk hj h => by
        by_cases hex : ∃ c0, c0 < nc ∧ κ c0 = j
        · obtain ⟨c0, hc0, rfl⟩ := hex
          rw [hF.live k c0 hk hc0]
          exact hz c0 hc0 (fun c hc e => h c hc (by rw [e])) k hk
        · exact hF.liveZ k j hk hj (fun c hc e => hex ⟨c, hc, e⟩)
      pu := hF.pu, prow := hF.prow, pcol := hF.pcol, zrow := hF.zrow }

/-- peeling a unit pivot at `(s, j)`: row `s` and column `j` of `G` are otherwise zero; row `s` is dropped together with
the rows not hit by `idx` (which must be zero) -/
theorem ginv_peel {m n A mr nc units} {G : ℕ → ℕ → ℤ} (s j : ℕ) (hs : s < mr) (hj : j < nc)
    (hu : G s j = 1 ∨ G s j = -1) (hrow : ∀ c, c < nc → c ≠ j → G s c = 0) (hcol : ∀ k, k < mr → k ≠ s → G k j = 0)
    (mr' : ℕ) (idx : ℕ → ℕ) (hidx : ∀ p, p < mr' → idx p < mr ∧ idx p ≠ s)
    (hinj : ∀ p p', p < mr' → p' < mr' → idx p = idx p' → p = p')
    (hz : ∀ k, k < mr → k ≠ s → (∀ p, p < mr' → idx p ≠ k) → ∀ c, c < nc → G k c = 0)
    (hG : GInv m n A mr nc G units) : GInv m n A mr' nc (fun p c => G (idx p) c) (units + 1) := by
  obtain ⟨V, ρ, κ, pr, pc, hR, hF⟩ := hG
  have hne : G s j ≠ 0 := by rcases hu with h | h <;> rw [h] <;> decide
  have hκj : ∀ t, t < units → κ j ≠ pc t := fun t ht => hF.κ_ne_pc hs hj ht hne
  have hlt : ∀ t, t < units + 1 → ¬ t < units → t = units := fun t h1 h2 => by omega
  refine ⟨V, fun p => ρ (idx p), κ, fun t => if t < units then pr t else ρ s,
    fun t => if t < units then pc t else κ j, hR, ?_⟩
  exact
    { ρlt := fun p hp => hF.ρlt _ (hidx p hp).1
      ρinj := fun p p' hp hp' e => hinj p p' hp hp' (hF.ρinj _ _ (hidx p hp).1 (hidx p' hp').1 e)
      κlt := hF.κlt, κinj := hF.κinj
      plt := fun t _ => by
        by_cases h : t < units
        · simpa [h] using hF.plt t h
        · simpa [h] using And.intro (hF.ρlt s hs) (hF.κlt j hj)
      prinj := fun t t' ht ht' => by
        by_cases h : t < units <;> by_cases h' : t' < units <;> simp only [h, h', if_true, if_false]
        · exact hF.prinj t t' h h'
        · exact fun e => absurd e.symm (hF.ρpr s t hs h)
        · exact fun e => absurd e (hF.ρpr s t' hs h')
        · exact fun _ => by omega
      pcinj := fun t t' ht ht' => by
        by_cases h : t < units <;> by_cases h' : t' < units <;> simp only [h, h', if_true, if_false]
        · exact hF.pcinj t t' h h'
        · exact fun e => absurd e.symm (hκj t h)
        · exact fun e => absurd e (hκj t' h')
        · exact fun _ => by omega
      ρpr := fun p t hp _ => by
        by_cases h : t < units <;> simp only [h, if_true, if_false]
        · exact hF.ρpr _ t (hidx p hp).1 h
        · exact fun e => (hidx p hp).2 (hF.ρinj _ _ (hidx p hp).1 hs e)
      live := fun p c hp hc => hF.live _ c (hidx p hp).1 hc
      liveZ := fun p j' hp hj' h => hF.liveZ _ j' (hidx p hp).1 hj' h
      pu := fun t _ => by
        by_cases h : t < units <;> simp only [h, if_true, if_false]
        · exact hF.pu t h
        · rw [hF.live s j hs hj]; exact hu
      prow := fun t j' _ hj' => by
        by_cases h : t < units <;> simp only [h, if_true, if_false]
        · exact hF.prow t j' h hj'
        · intro hjj
          exact hF.rowZero' hs hj' (fun c hc e => hrow c hc (fun ecj => hjj (by rw [← e, ecj])))
      pcol := fun t i _ hi => by
        by_cases h : t < units <;> simp only [h, if_true, if_false]
        · exact hF.pcol t i h hi
        · intro his
          by_cases hex : ∃ k, k < mr ∧ ρ k = i
          · obtain ⟨k, hk, rfl⟩ := hex
            rw [hF.live k j hk hj]
            exact hcol k hk (fun e => his (by rw [e]))
          · by_cases hex' : ∃ t', t' < units ∧ pr t' = i
            · obtain ⟨t', ht', rfl⟩ := hex'
              exact hF.prow t' (κ j) ht' (hF.κlt j hj) (hκj t' ht')
            · exact hF.zrow i hi (fun k hk e => hex ⟨k, hk, e⟩) (fun t' ht' e => hex' ⟨t', ht', e⟩) (κ j)
                (hF.κlt j hj)
      zrow := fun i hi h1 h2 j' hj' => by
        have h2s : ρ s ≠ i := by simpa using h2 units (Nat.lt_succ_self units)
        have h2p : ∀ t, t < units → pr t ≠ i := fun t ht => by simpa [ht] using h2 t (Nat.lt_succ_of_lt ht)
        by_cases hex : ∃ k, k < mr ∧ ρ k = i
        · obtain ⟨k, hk, rfl⟩ := hex
          have hks : k ≠ s := fun e => h2s (by rw [e])
          exact hF.rowZero hk (hz k hk hks (fun p hp e => h1 p hp (by rw [e]))) hj'
        · exact hF.zrow i hi (fun k hk e => hex ⟨k, hk, e⟩) h2p j' hj' }

theorem getD_units_append (units r : ℕ) (f : ℕ → ℤ) (k : ℕ) (hk : k < units + r) :
    (List.replicate units (1 : ℤ) ++ (List.range r).map f).getD k 0 = if k < units then 1 else f (k - units) := by
  rw [List.getD_eq_getElem?_getD]
  by_cases h : k < units
  · rw [List.getElem?_append_left (by simpa using h)]
    simp [h]
  · rw [List.getElem?_append_right (by simpa using h)]
    have : k - units < r := by omega
    simp [h, this]

theorem getD_range_map (N : ℕ) (f : ℕ → ℤ) (k : ℕ) (hk : k < N) : ((List.range N).map f).getD k 0 = f k := by
  rw [List.getD_eq_getElem?_getD]
  simp [hk]

/-- the end: the live matrix is diagonal with non-zero entries `e t` at `(t, t)`, `t < r`, zero elsewhere -/
theorem ginv_final {m n A mr nc units} {G : ℕ → ℕ → ℤ} (r : ℕ) (hr : r ≤ mr) (hr' : r ≤ nc) (e : ℕ → ℤ)
    (hne : ∀ t, t < r → e t ≠ 0) (hd : ∀ t, t < r → G t t = e t)
    (hz : ∀ k c, k < mr → c < nc → ¬ (k = c ∧ k < r) → G k c = 0)
    (hG : GInv m n A mr nc G units) :
    EquivDiag A (List.replicate units 1 ++ (List.range r).map (fun t => (Int.ofNat (e t).natAbs : ℤ))) := by
  obtain ⟨V, ρ, κ, pr, pc, hR, hF⟩ := hG
  have hκ : ∀ t' t, t' < r → t < units → κ t' ≠ pc t := fun t' t ht' ht =>
    hF.κ_ne_pc (Nat.lt_of_lt_of_le ht' hr) (Nat.lt_of_lt_of_le ht' hr') ht (by rw [hd t' ht']; exact hne t' ht')
  have hgen := equivDiag_of_genDiag m n V (units + r)
    (fun t => if t < units then pr t else ρ (t - units)) (fun t => if t < units then pc t else κ (t - units))
    (fun t => if t < units then V (pr t) (pc t) else e (t - units))
    (fun t ht => by
      by_cases h : t < units <;> simp only [h, if_true, if_false]
      · exact (hF.plt t h).1
      · exact hF.ρlt _ (by omega))
    (fun t ht => by
      by_cases h : t < units <;> simp only [h, if_true, if_false]
      · exact (hF.plt t h).2
      · exact hF.κlt _ (by omega))
    (fun t t' ht ht' => by
      by_cases h : t < units <;> by_cases h' : t' < units <;> simp only [h, h', if_true, if_false]
      · exact hF.prinj t t' h h'
      · exact fun e => absurd e.symm (hF.ρpr _ t (by omega) h)
      · exact fun e => absurd e (hF.ρpr _ t' (by omega) h')
      · intro e
        have := hF.ρinj _ _ (by omega) (by omega) e
        omega)
    (fun t t' ht ht' => by
      by_cases h : t < units <;> by_cases h' : t' < units <;> simp only [h, h', if_true, if_false]
      · exact hF.pcinj t t' h h'
      · exact fun e => absurd e.symm (hκ _ t (by omega) h)
      · exact fun e => absurd e (hκ _ t' (by omega) h')
      · intro e
        have := hF.κinj _ _ (by omega) (by omega) e
        omega)
    (fun t ht => by
      by_cases h : t < units <;> simp only [h, if_true, if_false]
      rw [hF.live _ _ (by omega) (by omega)]
      exact hd _ (by omega))
    (fun i j hi hj hno => by
      by_cases hex' : ∃ t, t < units ∧ pr t = i
      · obtain ⟨t, ht, rfl⟩ := hex'
        apply hF.prow t j ht hj
        intro ej
        exact hno ⟨t, by omega, by simp [ht], by simp [ht, ej]⟩
      · by_cases hex : ∃ k, k < mr ∧ ρ k = i
        · obtain ⟨k, hk, rfl⟩ := hex
          apply hF.rowZero' hk hj
          intro c hc ec
          apply hz k c hk hc
          rintro ⟨rfl, hkr⟩
          exact hno ⟨units + k, by omega, by simp, by simp [ec]⟩
        · exact hF.zrow i hi (fun k hk e => hex ⟨k, hk, e⟩) (fun t ht e => hex' ⟨t, ht, e⟩) j hj)
  refine equivDiag_signs (equivDiag_of_reach hR hgen) (by simp) ?_
  intro k hk
  have hk' : k < units + r := by simpa using hk
  rw [getD_units_append units r _ k hk', getD_range_map _ _ k hk']
  by_cases h : k < units <;> simp only [h, if_true, if_false]
  · rcases hF.pu k h with h1 | h1 <;> rw [h1] <;> simp
  · rcases Int.natAbs_eq (e (k - units)) with h1 | h1
    · left; exact h1.symm
    · right
      have : (Int.ofNat (e (k - units)).natAbs : ℤ) = ((e (k - units)).natAbs : ℤ) := rfl
      rw [this]; omega

end Yuiv.KhSnf
