import Yuiv.Proofs.C10TermHnf
/-
C10 — the Hermite variant never PANICS (helper lemmas; no property theorem here).

In Hermite mode (`LLLData::new` without `setup()`) `det`/`lambda` are the integral Gram–Schmidt data of the rows of the
TRANSFORM `P` (Havas–Majewski–Matthews), which is unimodular, so `det[i] > 0` always: no division by zero in
`reduce`/`swap`.  `Data.BookP` is `Data.Book` with `p` (m×m) in place of `target`; it is preserved by the same abstract
update lemmas (`addgs_data`, `mulgs_data`, `swapgs_data`) of `Proofs/C10GS.lean`.
-/
namespace Yuiv.C10
open Yuiv Res Finset

/-- bookkeeping invariant of Hermite mode: `det`/`lambda` are the integral Gram–Schmidt data of the rows of `p` -/
def Data.BookP (d : Data) : Prop :=
  d.det.size = d.tr.m ∧
  ∃ bs mu : Nat → Nat → ℚ,
    IsGSData d.tr.m d.tr.m (ent d.tr.p) bs mu (fun i => d.det.getD i 0) (ent d.lam)

theorem Data.BookP.dv_pos {d : Data} (hB : d.BookP) {i : Nat} (hi : i < d.tr.m) : 0 < d.dv i := by
  obtain ⟨_, bs, mu, hD⟩ := hB
  have h1 := hD.det_eq i hi
  have h2 := hD.gs.gsP_pos (i + 1) (by omega)
  rw [← h1] at h2
  exact_mod_cast h2

/-- the Gram–Schmidt data of the identity: `det = [1, …, 1]`, `lambda = 0` -/
theorem isGSData_id (m : Nat) :
    IsGSData m m (ent (idMat m)) (fun i c => if i = c then 1 else 0) (fun _ _ => 0)
      (fun i => (Array.replicate m (1 : Int)).getD i 0) (ent (zeroMat m m)) := by
  have hn1 : ∀ j < m, nrm m (fun i c => if i = c then (1 : ℚ) else 0) j = 1 := by
    intro j hj
    unfold nrm
    rw [Finset.sum_eq_single j]
    · simp
    · intro b _ hb; simp [Ne.symm hb]
    · intro h; exact absurd (mem_range.mpr hj) h
  refine ⟨⟨?_, ?_, ?_⟩, ?_, ?_⟩
  · intro i hi c hc
    rw [ent_idMat hi hc]
    simp
  · intro i hi j hj
    apply Finset.sum_eq_zero
    intro c _
    by_cases h1 : i = c
    · have : ¬ j = c := by omega
      simp [this]
    · simp [h1]
  · intro i hi
    have := hn1 i hi
    unfold nrm at this
    rw [this]
    exact one_pos
  · intro i hi
    have e : (Array.replicate m (1 : Int)).getD i 0 = 1 := by simp [Array.getD_eq_getD_getElem?, hi]
    rw [e]
    unfold gsP
    rw [Finset.prod_eq_one]
    · simp
    · intro j hj; exact hn1 j (by have := mem_range.mp hj; omega)
  · intro i hi j hj
    rw [zeroMat, ent_mkMat _ hi (by omega)]
    simp

/-- the initial state `(A, I, I)` of Hermite mode satisfies `BookP` -/
theorem Data.new_bookP (m n : Nat) (A : Mat) : (Data.new m n A).BookP :=
  ⟨by show (Array.replicate m (1 : Int)).size = m; simp, _, _, isGSData_id m⟩

/-! ### the primitives keep `BookP` -/

theorem Data.addRowTo_bookP (d d' : Data) (i k : Nat) (r : Int) (h : d.addRowTo i k r = ok d') (hB : d.BookP) :
    d'.BookP := by
  obtain ⟨hsz, bs, mu, hD⟩ := hB
  unfold Data.addRowTo at h
  simp only [bind_eq_ok] at h
  obtain ⟨tr, h1, di, h2, h⟩ := h
  simp only [pure_eq, Res.ok.injEq] at h
  subst h
  unfold Tr.addRowTo at h1
  rw [assert_bind] at h1
  obtain ⟨hik, h1⟩ := h1
  rw [assert_bind] at h1
  obtain ⟨hk, h1⟩ := h1
  simp only [decide_eq_true_eq] at hik hk
  simp only [pure_eq, Res.ok.injEq] at h1
  subst h1
  obtain ⟨_, hdi⟩ := detAt_ok h2
  subst hdi
  refine ⟨hsz, bs, addMu mu i k r, ?_⟩
  refine addgs_data d.tr.m d.tr.m (ent d.tr.p) _ bs mu _ (ent d.lam) _ i k r hik hk hD ?_ ?_
  · intro a ha c hc
    show ent (mAddRowTo d.tr.m d.tr.m d.tr.p i k r) a c = _
    rw [mAddRowTo, ent_mkMat _ ha hc]
  · intro a ha b hb
    show ent (mkMat d.tr.m d.tr.m _) a b = _
    rw [ent_mkMat _ ha (lt_trans hb ha)]

theorem Data.mulRow_bookP (d d' : Data) (i : Nat) (u : Int) (h : d.mulRow i u = ok d') (hB : d.BookP) :
    d'.BookP := by
  obtain ⟨hsz, bs, mu, hD⟩ := hB
  unfold Data.mulRow at h
  simp only [bind_eq_ok] at h
  obtain ⟨tr, h1, h⟩ := h
  simp only [pure_eq, Res.ok.injEq] at h
  subst h
  unfold Tr.mulRow at h1
  rw [assert_bind] at h1
  obtain ⟨hu, h1⟩ := h1
  rw [assert_bind] at h1
  obtain ⟨_, h1⟩ := h1
  simp only [pure_eq, Res.ok.injEq] at h1
  subst h1
  refine ⟨hsz, mulBs bs i u, mulMu mu i u, ?_⟩
  refine mulgs_data d.tr.m d.tr.m (ent d.tr.p) _ bs mu _ (ent d.lam) _ i u (isUnitZ_sq hu) hD ?_ ?_
  · intro a ha c hc
    show ent (mMulRow d.tr.m d.tr.m d.tr.p i u) a c = _
    rw [mMulRow, ent_mkMat _ ha hc]
  · intro a ha b hb
    have hb' : b < d.tr.m := lt_trans hb ha
    show ent (mMulCol d.tr.m d.tr.m (mMulRow d.tr.m d.tr.m d.lam i u) i u) a b = _
    rw [mMulCol, ent_mkMat _ ha hb', mMulRow, ent_mkMat _ ha hb']

theorem Data.swap_bookP (d d' : Data) (k : Nat) (h : d.swap k = ok d') (hB : d.BookP) : d'.BookP := by
  unfold Data.swap at h
  simp only [bind_eq_ok] at h
  obtain ⟨_, hk, tr, h1, d0, hd0, d1, hd1, d2, hd2, _, hne, h⟩ := h
  have hk0 := Data.swap_assert_ok hk
  have hne' := Data.swap_assert_ok hne
  simp only [decide_eq_true_eq] at hk0
  simp only [bne_iff_ne, ne_eq] at hne'
  obtain ⟨p, rfl⟩ : ∃ p, k = p + 1 := ⟨k - 1, by omega⟩
  simp only [Nat.add_sub_cancel] at h h1 hd1
  unfold Tr.swapRows at h1
  rw [assert_bind] at h1
  obtain ⟨hc, h1⟩ := h1
  simp only [Bool.and_eq_true, decide_eq_true_eq] at hc
  obtain ⟨hpm, hkm⟩ := hc
  simp only [pure_eq, Res.ok.injEq] at h1 h
  subst h1
  subst h
  obtain ⟨hsz, bs, mu, hD⟩ := hB
  obtain ⟨hp1, hd1⟩ := Data.swap_detAt hd1
  obtain ⟨hp2, hd2⟩ := Data.swap_detAt hd2
  -- `d0 = d_p`
  have hd0q : (d0 : ℚ) = gsP d.tr.m bs p := by
    unfold detPrev at hd0
    by_cases h2 : p + 1 ≥ 2
    · rw [if_pos h2] at hd0
      obtain ⟨_, e⟩ := Data.swap_detAt hd0
      have := hD.det_eq (p + 1 - 2) (by omega)
      rw [show p + 1 - 2 + 1 = p by omega] at this
      rw [e]
      exact this
    · rw [if_neg h2] at hd0
      simp only [pure_eq, Res.ok.injEq] at hd0
      have hp0 : p = 0 := by omega
      subst hp0
      rw [← hd0, gsP_zero]
      simp
  -- `λ1` on the index range
  have hl1 : ∀ a < d.tr.m, ∀ b < d.tr.m,
      ent (mkMat d.tr.m d.tr.m fun a b =>
        if b < p then ent d.lam (if a = p then p + 1 else if a = p + 1 then p else a) b else ent d.lam a b) a b
      = if b < p then ent d.lam (if a = p then p + 1 else if a = p + 1 then p else a) b else ent d.lam a b :=
    fun a ha b hb => ent_mkMat _ ha hb
  have hlt1 : ¬ p < p := lt_irrefl p
  have hlt2 : ¬ p + 1 < p := by omega
  refine ⟨?_, swapgs_bs d.tr.m bs mu p, swapgs_mu d.tr.m bs mu p, ?_⟩
  · show (d.det.set! p _).size = d.tr.m
    rw [Array.set!, Array.size_setIfInBounds]
    exact hsz
  · refine swapgs_congrB (swapgs_data hD hkm d0 hd0q _ _ ?_ ?_) ?_
    · intro i _
      show (d.det.set! p _).getD i 0 = _
      rw [Data.swap_getD_set _ _ _ _ hp1, hl1 (p + 1) hkm p hpm, if_neg hlt1, hd1, hd2]
    · intro i hi j hj
      have hjm : j < d.tr.m := by omega
      show ent (mkMat d.tr.m d.tr.m _) i j = _
      rw [ent_mkMat _ hi hjm]
      rw [hl1 (p + 1) hkm p hpm, if_neg hlt1, hl1 i hi p hpm, if_neg hlt1, hl1 i hi (p + 1) hkm, if_neg hlt2,
        hl1 i hi j hjm, hd1, hd2]
      by_cases hik : p + 1 < i
      · rw [if_pos hik, if_pos hik]
        by_cases hjp : j = p
        · rw [if_pos hjp, if_pos hjp]
        · rw [if_neg hjp, if_neg hjp]
          by_cases hjk : j = p + 1
          · rw [if_pos hjk, if_pos hjk]
          · rw [if_neg hjk, if_neg hjk]
            have h3 : i ≠ p := by omega
            have h4 : i ≠ p + 1 := by omega
            rw [if_neg h3, if_neg h4]
            simp
      · rw [if_neg hik, if_neg hik]
    · intro r hr c hc
      show ent (mSwapRows d.tr.m d.tr.m d.tr.p p (p + 1)) r c = _
      rw [mSwapRows, ent_mkMat _ hr hc]


theorem Data.reduce_bookP (d d' : Data) (i k : Nat) (h : d.reduce i k = ok d') (hB : d.BookP) : d'.BookP := by
  unfold Data.reduce at h
  simp only [bind_eq_ok] at h
  obtain ⟨_, _, _, _, di, _, q, _, h⟩ := h
  split at h
  · exact Data.addRowTo_bookP d d' i k _ h hB
  · simp only [pure_eq, Res.ok.injEq] at h
    subst h
    exact hB

theorem Data.mulRowIf_bookP (d d' : Data) (i : Nat) (u : Int) (h : d.mulRowIf i u = ok d') (hB : d.BookP) :
    d'.BookP := by
  unfold Data.mulRowIf at h
  split at h
  · exact Data.mulRow_bookP d d' i u h hB
  · simp only [pure_eq, Res.ok.injEq] at h
    subst h
    exact hB

theorem hnfReduce_bookP (d d' : Data) (i k : Nat) (h : hnfReduce d i k = ok d') (hB : d.BookP) : d'.BookP := by
  unfold hnfReduce at h
  rw [assert_bind] at h
  obtain ⟨_, h⟩ := h
  rw [assert_bind] at h
  obtain ⟨_, h⟩ := h
  split at h
  · simp only [bind_eq_ok] at h
    obtain ⟨d1, h1, q, _, h3⟩ := h
    have hB1 := Data.mulRowIf_bookP d d1 i _ h1 hB
    split at h3
    · exact Data.addRowTo_bookP d1 d' i k _ h3 hB1
    · simp only [pure_eq, Res.ok.injEq] at h3
      subst h3
      exact hB1
  · exact Data.reduce_bookP d d' i k h hB

theorem Data.back_bookP (d : Data) (hB : d.BookP) : d.back.BookP := by
  unfold Data.back; split
  · exact hB
  · exact hB

theorem revLoop_bookP (f : Data → Nat → Res Data) (hf : ∀ d d' i, f d i = ok d' → d.BookP → d'.BookP) :
    ∀ (n : Nat) (d d' : Data), revLoop f d n = ok d' → d.BookP → d'.BookP := by
  intro n
  induction n with
  | zero => intro d d' h hB; simp only [revLoop, pure_eq, Res.ok.injEq] at h; subst h; exact hB
  | succ i ih =>
    intro d d' h hB
    simp only [revLoop, bind_eq_ok] at h
    obtain ⟨d1, h1, h2⟩ := h
    exact ih d1 d' h2 (hf d d1 i h1 hB)

/-! ### the primitives return -/

theorem Data.mulRow_ok (d : Data) (i : Nat) (u : Int) (hu : u = 1 ∨ u = -1) (hi : i < d.tr.m) :
    ∃ d', d.mulRow i u = ok d' := by
  have hunit : isUnitZ u = true := by
    unfold isUnitZ
    rcases hu with rfl | rfl <;> decide
  unfold Data.mulRow Tr.mulRow
  simp only [Res.assert, hunit, hi, decide_true, if_true, bind_ok, pure_eq]
  exact ⟨_, rfl⟩

theorem Data.mulRowIf_ok (d : Data) (i : Nat) (u : Int) (hu : u = 1 ∨ u = -1) (hi : i < d.tr.m) :
    ∃ d', d.mulRowIf i u = ok d' := by
  unfold Data.mulRowIf
  split
  · exact Data.mulRow_ok d i u hu hi
  · exact ⟨d, rfl⟩

theorem Data.reduceP_ok (d : Data) (hB : d.BookP) (i k : Nat) (hik : i < k) (hk : k < d.tr.m) :
    ∃ d', d.reduce i k = ok d' := by
  have hsz := hB.1
  have hpos := hB.dv_pos (show i < d.tr.m by omega)
  obtain ⟨q, hq⟩ := divRound_total' (ent d.lam k i) (d.dv i) (ne_of_gt hpos)
  have hred : d.reduce i k = (if q ≠ 0 then d.addRowTo i k (-q) else pure d) := by
    unfold Data.reduce
    simp only [Res.assert, hik, hk, decide_true, if_true, bind_ok, detAt_eq d i (by omega : i < d.det.size)]
    rw [hq]
    rfl
  rw [hred]
  split
  · obtain ⟨d', h, _⟩ := Data.addRowTo_ok d i k (-q) hik hk hsz
    exact ⟨d', h⟩
  · exact ⟨d, rfl⟩

theorem sign_unit (a : Int) : (if a < 0 then (-1 : Int) else 1) = 1 ∨ (if a < 0 then (-1 : Int) else 1) = -1 := by
  split
  · exact Or.inr rfl
  · exact Or.inl rfl

theorem hnfReduce_ok (d : Data) (hB : d.BookP) (i k : Nat) (hik : i < k) (hk : k < d.tr.m) :
    ∃ d', hnfReduce d i k = ok d' := by
  have him : i < d.tr.m := by omega
  cases hj : d.nzColIn i with
  | none =>
    obtain ⟨d', h⟩ := Data.reduceP_ok d hB i k hik hk
    refine ⟨d', ?_⟩
    unfold hnfReduce
    simp only [Res.assert, hik, hk, decide_true, if_true, bind_ok, hj]
    exact h
  | some j =>
    obtain ⟨d1, h1⟩ := Data.mulRowIf_ok d i (if ent d.tr.target i j < 0 then -1 else 1) (sign_unit _) him
    have hB1 := Data.mulRowIf_bookP d d1 i _ h1 hB
    obtain ⟨u, hu, hpos, ht1⟩ := normalize_tgt d d1 i j hj h1
    obtain ⟨_, hjn⟩ := nzColIn_some hj
    have e0 : ent d1.tr.target i j = ent d.tr.target i j * u := by
      rw [ht1.2.2.2 i him j hjn]; simp
    have hne : ent d1.tr.target i j ≠ 0 := by rw [e0]; exact ne_of_gt hpos
    obtain ⟨q, hq⟩ := divRound_total' (ent d1.tr.target k j) (ent d1.tr.target i j) hne
    have hgoal : hnfReduce d i k = (if q ≠ 0 then d1.addRowTo i k (-q) else pure d1) := by
      unfold hnfReduce
      simp only [Res.assert, hik, hk, decide_true, if_true, bind_ok, hj, h1, hq]
    rw [hgoal]
    split
    · obtain ⟨d', h, _⟩ := Data.addRowTo_ok d1 i k (-q) hik (by rw [ht1.1]; exact hk) hB1.1
      exact ⟨d', h⟩
    · exact ⟨d1, rfl⟩

theorem hnfIsOk_ok (d : Data) (k : Nat) (hk0 : 0 < k) (hk : k < d.tr.m) (hsz : d.det.size = d.tr.m) :
    ∃ b, hnfIsOk d k = ok b := by
  unfold hnfIsOk
  simp only [Res.assert, hk0, decide_true, if_true, bind_ok]
  split
  · exact ⟨_, rfl⟩
  · exact ⟨_, rfl⟩
  · exact ⟨_, rfl⟩
  · exact ⟨_, Data.lovaszOk_eq d k hk0 hk hsz⟩

theorem revLoop_hnf_ok (k : Nat) : ∀ (cnt : Nat) (d : Data), d.BookP → cnt ≤ k → k < d.tr.m →
    ∃ d', revLoop (fun d i => hnfReduce d i k) d cnt = ok d' ∧ d'.tr.m = d.tr.m ∧ d'.step = d.step := by
  intro cnt
  induction cnt with
  | zero => intro d _ _ _; exact ⟨d, rfl, rfl, rfl⟩
  | succ cnt ih =>
    intro d hB hc hk
    obtain ⟨d1, h1⟩ := hnfReduce_ok d hB cnt k (by omega) hk
    obtain ⟨_, _, _, _, _, ⟨m1, _, s1, _⟩, _, _⟩ := hnfReduce_tgt d d1 cnt k h1
    obtain ⟨d2, h2, m2, s2⟩ := ih d1 (hnfReduce_bookP d d1 cnt k h1 hB) (by omega) (by omega)
    refine ⟨d2, ?_, m2.trans m1, s2.trans s1⟩
    show (hnfReduce d cnt k >>= fun d' => revLoop (fun d i => hnfReduce d i k) d' cnt) = ok d2
    rw [h1]; exact h2

/-- one iteration of the Hermite loop at `1 ≤ step < m` returns (no panic) and keeps `BookP` -/
theorem hnfIterate_ok (d : Data) (hB : d.BookP) (h1 : 1 ≤ d.step) (h2 : d.step < d.tr.m) :
    ∃ d', hnfIterate d = ok d' ∧ d'.BookP ∧ d'.tr.m = d.tr.m ∧ 1 ≤ d'.step := by
  obtain ⟨k, hk⟩ : ∃ k, d.step = k := ⟨_, rfl⟩
  obtain ⟨d1, r1⟩ := hnfReduce_ok d hB (k - 1) k (by omega) (by omega)
  have hB1 := hnfReduce_bookP d d1 _ _ r1 hB
  obtain ⟨_, _, _, _, _, ⟨m1, _, s1, _⟩, _, _⟩ := hnfReduce_tgt d d1 _ _ r1
  obtain ⟨b, rb⟩ := hnfIsOk_ok d1 k (by omega) (by omega) hB1.1
  unfold hnfIterate
  rw [hk]
  simp only [r1, bind_ok, rb]
  cases b with
  | true =>
    obtain ⟨d2, r2, m2, _⟩ := revLoop_hnf_ok k (k - 1) d1 hB1 (by omega) (by omega)
    have hB2 := revLoop_bookP _ (fun d d' i h => hnfReduce_bookP d d' i k h) _ d1 d2 r2 hB1
    refine ⟨d2.next, ?_, hB2, ?_, ?_⟩
    · simp only [if_true, r2, bind_ok, pure_eq]
    · show d2.tr.m = d.tr.m
      exact m2.trans m1
    · show 1 ≤ d2.step + 1; omega
  | false =>
    have hpos1 : 0 < d1.dv (k - 1) := hB1.dv_pos (by omega)
    obtain ⟨d2, r2, s2, m2, _⟩ := Data.swap_ok d1 k (by omega) (by omega) hB1.1 (ne_of_gt hpos1)
    refine ⟨d2.back, ?_, Data.back_bookP d2 (Data.swap_bookP d1 d2 k r2 hB1), ?_, ?_⟩
    · simp only [Bool.false_eq_true, if_false, r2, bind_ok, pure_eq]
    · rw [Data.back_tr]; exact m2.trans m1
    · rw [Data.back_step, s2, s1, hk]; split <;> omega

/-- the Hermite loop never panics: it returns (keeping `BookP`) or runs out of fuel -/
theorem loopWhile_hnf_no_panic : ∀ (fuel : Nat) (d : Data), d.BookP → 1 ≤ d.step →
    (∃ d', loopWhile hnfIterate fuel d = ok d' ∧ d'.BookP ∧ d'.tr.m = d.tr.m) ∨
      loopWhile hnfIterate fuel d = err := by
  intro fuel
  induction fuel with
  | zero =>
    intro d hB _
    by_cases hlt : d.step < d.tr.m
    · right; simp only [loopWhile, if_pos hlt]
    · left; exact ⟨d, by simp only [loopWhile, if_neg hlt, pure_eq], hB, rfl⟩
  | succ fuel ih =>
    intro d hB h1
    by_cases hlt : d.step < d.tr.m
    · obtain ⟨d1, r1, hB1, m1, s1⟩ := hnfIterate_ok d hB h1 hlt
      have e : loopWhile hnfIterate (fuel + 1) d = loopWhile hnfIterate fuel d1 := by
        simp only [loopWhile, if_pos hlt, r1, bind_ok]
      rw [e]
      rcases ih d1 hB1 s1 with ⟨d2, r2, hB2, m2⟩ | herr
      · exact Or.inl ⟨d2, r2, hB2, m2.trans m1⟩
      · exact Or.inr herr
    · left; exact ⟨d, by simp only [loopWhile, if_neg hlt, pure_eq], hB, rfl⟩

theorem hnfNormalizeLast_ok (d : Data) : ∃ d', hnfNormalizeLast d = ok d' ∧ d'.tr.m = d.tr.m := by
  unfold hnfNormalizeLast
  by_cases hm0 : 0 < d.tr.m
  · rw [if_pos hm0]
    simp only
    cases hj : d.nzColIn (d.tr.m - 1) with
    | none => exact ⟨d, rfl, rfl⟩
    | some j =>
      obtain ⟨d', h⟩ := Data.mulRowIf_ok d (d.tr.m - 1) (if ent d.tr.target (d.tr.m - 1) j < 0 then -1 else 1)
        (sign_unit _) (by omega)
      obtain ⟨_, _, _, ht⟩ := normalize_tgt d d' (d.tr.m - 1) j hj h
      exact ⟨d', h, ht.1⟩
  · rw [if_neg hm0]
    exact ⟨d, rfl, rfl⟩

theorem reverseRows_ok : ∀ (cnt i : Nat) (t : Tr), i + cnt ≤ t.m / 2 → ∃ t', reverseRows t cnt i = ok t' := by
  intro cnt
  induction cnt with
  | zero => intro i t _; exact ⟨t, rfl⟩
  | succ cnt ih =>
    intro i t hle
    have hi : i < t.m := by omega
    have hj : t.m - i - 1 < t.m := by omega
    simp only [reverseRows]
    rw [if_neg (by omega)]
    unfold Tr.swapRows
    simp only [Res.assert, hi, hj, decide_true, Bool.and_self, if_true, bind_ok, pure_eq]
    exact ih (i + 1) _ (by show i + 1 + cnt ≤ t.m / 2; omega)

/-- `lll_hnf` (model) never panics, for any input and any fuel -/
theorem lllHnf_no_panic (fuel m n : Nat) (A : Mat) : lllHnf fuel m n A ≠ panic := by
  unfold lllHnf
  rcases loopWhile_hnf_no_panic fuel (Data.new m n A) (Data.new_bookP m n A) (le_refl 1) with ⟨d1, r1, _, _⟩ | herr
  · obtain ⟨d2, r2, _⟩ := hnfNormalizeLast_ok d1
    obtain ⟨t, r3⟩ := reverseRows_ok (d2.tr.m / 2) 0 d2.tr (by omega)
    simp only [r1, bind_ok, r2, r3]
    exact fun h => by cases h
  · rw [herr]
    exact fun h => by cases h

theorem lllHnf_mono (m n : Nat) (A : Mat) (fuel fuel' : Nat) (h : lllHnf fuel m n A ≠ err) (hle : fuel ≤ fuel') :
    lllHnf fuel' m n A = lllHnf fuel m n A := by
  unfold lllHnf at h ⊢
  have hne : loopWhile hnfIterate fuel (Data.new m n A) ≠ err := by
    intro e; rw [e] at h; exact h rfl
  rw [loopWhile_mono hnfIterate fuel _ hne fuel' hle]

/-- the Hermite-mode bookkeeping invariant holds at the end of every run of the loop that returns -/
theorem loopWhile_hnf_bookP (fuel m n : Nat) (A : Mat) (d : Data)
    (h : loopWhile hnfIterate fuel (Data.new m n A) = ok d) : d.BookP := by
  rcases loopWhile_hnf_no_panic fuel (Data.new m n A) (Data.new_bookP m n A) (le_refl 1) with ⟨d1, r1, hB, _⟩ | herr
  · rw [r1] at h
    injection h with h
    subst h
    exact hB
  · rw [herr] at h; cases h

end Yuiv.C10
