import Yuiv.Model.C19
import Init.Internal.Order.While
import Std.Data.HashMap.Lemmas
import Mathlib.LinearAlgebra.Matrix.Rank
import Mathlib.Data.ZMod.Basic
import Mathlib.Algebra.Field.ZMod
/-
KhSnfF2 — the 𝔽₂ rank computation `Yuiv.C19.rankF2` of the reference (rows as bitsets, Gaussian elimination
by leading bit with a `HashMap` leading bit ↦ pivot row) computes the matrix rank over `ZMod 2`.

  * `rankF2_eq_foldl`          functional form: `rankF2 rows = (rows.toList.foldl f2Step (∅, 0)).2`, where
                               `f2Step` runs the inner `while` loop (`Lean.Loop.forIn` over `f2Body`);
  * `f2Step_zero/_none/_some`  the three one-step equations of the inner loop (no hypotheses on the map);
  * `f2_inner`                 under `PivInv` (every stored `p` is non-zero and stored under `log2 p`) the inner
                               loop terminates with `r' = r ^^^ p₁ ^^^ … ^^^ pₖ` (`pᵢ` stored pivots); `r' = 0`
                               leaves the state unchanged, `r' ≠ 0` is stored under its fresh leading bit
                               (termination measure: `r ^^^ p < r`, `xor_lt_of_log2_eq`);
  * `F2Inv`, `f2Inv_step`, `f2Inv_foldl`   outer invariant: `PivInv`, all pivots `< 2^n`, `rank = piv.size`,
                               `span (pivot vectors) = span (vectors of processed rows)`;
  * `linearIndependent_pivVec` vectors with pairwise distinct leading bits are linearly independent;
  * `rankF2_spec`              `rankF2 rows = (bitMat n rows).rank` for rows `< 2^n`.

The `while` loop is unfolded one iteration at a time with `Lean.Loop.forIn_eq_of_monadTail`
(technique of `C18BridgeModel` / `KhSnfRows`; `f2_loop_unfold` is a private copy of `loop_unfold`).
-/
namespace Yuiv.KhSnf
open Yuiv Matrix

theorem f2_loop_unfold {β : Type} (f : Unit → β → Id (ForInStep β)) (s : β) :
    forIn (m := Id) Lean.Loop.mk s f =
      (match f () s with
        | ForInStep.done v => v
        | ForInStep.yield v => forIn (m := Id) Lean.Loop.mk v f) := by
  show Lean.Loop.forIn Lean.Loop.mk s f = _
  rw [Lean.Loop.forIn_eq_of_monadTail]
  cases f () s <;> rfl

abbrev PivMap := Std.HashMap Nat Nat
abbrev F2S := PivMap × Nat × Nat × Bool

/-- body of the inner `while` loop of `rankF2` -/
def f2Body (_ : Unit) (s : F2S) : Id (ForInStep F2S) :=
  if s.2.2.2 = true then
    if (s.2.2.1 == 0) = true then ForInStep.yield (s.1, s.2.1, s.2.2.1, false)
    else
      match s.1.get? s.2.2.1.log2 with
      | some p => ForInStep.yield (s.1, s.2.1, s.2.2.1 ^^^ p, s.2.2.2)
      | none => ForInStep.yield (s.1.insert s.2.2.1.log2 s.2.2.1, s.2.1 + 1, s.2.2.1, false)
  else ForInStep.done s

/-- one row of `rankF2`: run the inner loop, keep `(piv, rank)` -/
def f2Step (s : PivMap × Nat) (r0 : Nat) : PivMap × Nat :=
  let t := forIn (m := Id) Lean.Loop.mk ((s.1, s.2, r0, true) : F2S) f2Body
  (t.1, t.2.1)

theorem rankF2_eq_foldl (rows : Array Nat) :
    C19.rankF2 rows = (rows.toList.foldl f2Step (∅, 0)).2 := by
  unfold C19.rankF2
  show (forIn (m := Id) rows ((∅ : PivMap), 0) (fun r0 s => pure (ForInStep.yield (f2Step s r0))) >>= fun s => pure s.2).run = _
  rw [Array.forIn_pure_yield_eq_foldl]
  simp [← Array.foldl_toList]

/-- every stored pivot is non-zero and stored under its leading bit -/
def PivInv (piv : PivMap) : Prop := ∀ b p, piv[b]? = some p → p ≠ 0 ∧ p.log2 = b

theorem xor_lt_of_log2_eq {r p : Nat} (hr : r ≠ 0) (hp : p ≠ 0) (h : p.log2 = r.log2) :
    r ^^^ p < r := by
  have h1 : r ^^^ p < 2 ^ r.log2 := by
    apply Nat.lt_pow_two_of_testBit
    intro i hi
    rw [Nat.testBit_xor]
    rcases Nat.eq_or_lt_of_le hi with rfl | hlt
    · rw [Nat.testBit_log2 hr, ← h, Nat.testBit_log2 hp]; rfl
    · have h2 : r < 2 ^ i := Nat.lt_of_lt_of_le Nat.lt_log2_self (Nat.pow_le_pow_right (by omega) hlt)
      have h3 : p < 2 ^ i :=
        Nat.lt_of_lt_of_le Nat.lt_log2_self (Nat.pow_le_pow_right (by omega) (by omega))
      rw [Nat.testBit_lt_two_pow h2, Nat.testBit_lt_two_pow h3]; rfl
  exact Nat.lt_of_lt_of_le h1 (Nat.log2_self_le hr)

/-- inner loop on the zero row: nothing changes -/
theorem f2Step_zero (piv : PivMap) (rank : Nat) : f2Step (piv, rank) 0 = (piv, rank) := by
  unfold f2Step
  have hb1 : f2Body () ((piv, rank, 0, true) : F2S) = ForInStep.yield (piv, rank, 0, false) := by
    simp [f2Body]
  have hb2 : f2Body () ((piv, rank, 0, false) : F2S) = ForInStep.done (piv, rank, 0, false) := by
    simp [f2Body]
  simp only []
  rw [f2_loop_unfold, hb1]
  simp only []
  rw [f2_loop_unfold, hb2]

/-- inner loop on a non-zero row without a pivot at its leading bit: the row becomes a new pivot -/
theorem f2Step_none (piv : PivMap) (rank : Nat) {r : Nat} (hr : r ≠ 0) (hg : piv[r.log2]? = none) :
    f2Step (piv, rank) r = (piv.insert r.log2 r, rank + 1) := by
  unfold f2Step
  have hb1 : f2Body () ((piv, rank, r, true) : F2S)
      = ForInStep.yield (piv.insert r.log2 r, rank + 1, r, false) := by
    simp [f2Body, hr, hg]
  have hb2 : f2Body () ((piv.insert r.log2 r, rank + 1, r, false) : F2S)
      = ForInStep.done (piv.insert r.log2 r, rank + 1, r, false) := by
    simp [f2Body]
  simp only []
  rw [f2_loop_unfold, hb1]
  simp only []
  rw [f2_loop_unfold, hb2]

/-- inner loop on a non-zero row with a pivot `p` at its leading bit: continue with `r ^^^ p` -/
theorem f2Step_some (piv : PivMap) (rank : Nat) {r p : Nat} (hr : r ≠ 0) (hg : piv[r.log2]? = some p) :
    f2Step (piv, rank) r = f2Step (piv, rank) (r ^^^ p) := by
  unfold f2Step
  have hb1 : f2Body () ((piv, rank, r, true) : F2S)
      = ForInStep.yield (piv, rank, r ^^^ p, true) := by
    simp [f2Body, hr, hg]
  simp only []
  rw [f2_loop_unfold, hb1]

/-- the inner loop under the pivot invariant: the row is XOR-ed with a list `ps` of stored pivots;
if the result `r'` is zero nothing changes, otherwise `r'` is stored under its (fresh) leading bit -/
theorem f2_inner (piv : PivMap) (hinv : PivInv piv) (rank : Nat) :
    ∀ r : Nat, ∃ (r' : Nat) (ps : List Nat),
      (∀ p ∈ ps, ∃ b : Nat, piv[b]? = some p) ∧ r' = ps.foldl (· ^^^ ·) r ∧
      ((r' = 0 ∧ f2Step (piv, rank) r = (piv, rank)) ∨
       (r' ≠ 0 ∧ piv[r'.log2]? = none ∧
          f2Step (piv, rank) r = (piv.insert r'.log2 r', rank + 1))) := by
  intro r
  induction r using Nat.strongRecOn with
  | _ r ih =>
    by_cases hr : r = 0
    · subst hr
      exact ⟨0, [], by simp, rfl, Or.inl ⟨rfl, f2Step_zero piv rank⟩⟩
    · cases hg : piv[r.log2]? with
      | none => exact ⟨r, [], by simp, rfl, Or.inr ⟨hr, hg, f2Step_none piv rank hr hg⟩⟩
      | some p =>
        obtain ⟨hp0, hpl⟩ := hinv _ _ hg
        obtain ⟨r', ps, hps, hr'eq, hres⟩ := ih (r ^^^ p) (xor_lt_of_log2_eq hr hp0 hpl)
        refine ⟨r', p :: ps, ?_, ?_, ?_⟩
        · intro q hq
          rcases List.mem_cons.1 hq with rfl | hq
          · exact ⟨_, hg⟩
          · exact hps q hq
        · simpa using hr'eq
        · rw [f2Step_some piv rank hr hg]; exact hres

/-! ### vectors over `ZMod 2` -/

/-- the 0/1 vector of the low `n` bits of `x` -/
def bitVec (n : Nat) (x : Nat) : Fin n → ZMod 2 := fun j => if x.testBit j then 1 else 0

/-- the 0/1 matrix over `ZMod 2` of an array of bit rows with `n` columns -/
def bitMat (n : Nat) (rows : Array Nat) : Matrix (Fin rows.size) (Fin n) (ZMod 2) :=
  fun i j => if (rows[i]).testBit j then 1 else 0

theorem bitVec_zero (n : Nat) : bitVec n 0 = 0 := by
  funext j; simp [bitVec]

theorem bitVec_xor (n x y : Nat) : bitVec n (x ^^^ y) = bitVec n x + bitVec n y := by
  funext j
  simp only [bitVec, Nat.testBit_xor, Pi.add_apply]
  cases x.testBit j <;> cases y.testBit j <;> decide

theorem bitVec_foldl_xor (n : Nat) (ps : List Nat) (r : Nat) :
    bitVec n (ps.foldl (· ^^^ ·) r) = bitVec n r + (ps.map (bitVec n)).sum := by
  induction ps generalizing r with
  | nil => simp
  | cons p ps ih => simp [ih, bitVec_xor, add_assoc]

theorem foldl_xor_lt (n : Nat) (ps : List Nat) (r : Nat) (hr : r < 2 ^ n) (hps : ∀ p ∈ ps, p < 2 ^ n) :
    ps.foldl (· ^^^ ·) r < 2 ^ n := by
  induction ps generalizing r with
  | nil => simpa using hr
  | cons p ps ih =>
    simp only [List.foldl_cons]
    exact ih _ (Nat.xor_lt_two_pow hr (hps p (by simp))) (fun q hq => hps q (by simp [hq]))

/-- the vectors of the stored pivots -/
def pivSet (n : Nat) (piv : PivMap) : Set (Fin n → ZMod 2) :=
  {v | ∃ (b p : Nat), piv[b]? = some p ∧ v = bitVec n p}

/-- the vectors of a list of rows -/
def rowSet (n : Nat) (L : List Nat) : Set (Fin n → ZMod 2) := {v | ∃ x ∈ L, v = bitVec n x}

theorem rowSet_append_singleton (n : Nat) (L : List Nat) (r : Nat) :
    rowSet n (L ++ [r]) = insert (bitVec n r) (rowSet n L) := by
  ext v
  simp only [rowSet, List.mem_append, List.mem_singleton, Set.mem_ofPred_eq, Set.mem_insert_iff]
  constructor
  · rintro ⟨x, hx | rfl, rfl⟩
    · exact Or.inr ⟨x, hx, rfl⟩
    · exact Or.inl rfl
  · rintro (rfl | ⟨x, hx, rfl⟩)
    · exact ⟨r, Or.inr rfl, rfl⟩
    · exact ⟨x, Or.inl hx, rfl⟩

theorem pivSet_insert (n : Nat) (piv : PivMap) (b r : Nat) (hb : piv[b]? = none) :
    pivSet n (piv.insert b r) = insert (bitVec n r) (pivSet n piv) := by
  ext v
  simp only [pivSet, Set.mem_ofPred_eq, Set.mem_insert_iff, Std.HashMap.getElem?_insert]
  constructor
  · rintro ⟨c, p, hcp, rfl⟩
    by_cases hc : b = c
    · subst hc
      simp at hcp
      subst hcp
      exact Or.inl rfl
    · have : (b == c) = false := by simpa using hc
      rw [this] at hcp
      exact Or.inr ⟨c, p, hcp, rfl⟩
  · rintro (rfl | ⟨c, p, hcp, rfl⟩)
    · exact ⟨b, r, by simp, rfl⟩
    · refine ⟨c, p, ?_, rfl⟩
      have : (b == c) = false := by
        simp only [beq_eq_false_iff_ne, ne_eq]
        rintro rfl
        rw [hb] at hcp; cases hcp
      simpa [this] using hcp

theorem span_insert_add {M : Type} [AddCommGroup M] [Module (ZMod 2) M] (S : Set M) (v w : M)
    (hw : w ∈ Submodule.span (ZMod 2) S) :
    Submodule.span (ZMod 2) (insert (v + w) S) = Submodule.span (ZMod 2) (insert v S) := by
  have hw' : w ∈ Submodule.span (ZMod 2) (insert v S) :=
    Submodule.span_mono (Set.subset_insert _ _) hw
  have hw'' : w ∈ Submodule.span (ZMod 2) (insert (v + w) S) :=
    Submodule.span_mono (Set.subset_insert _ _) hw
  apply le_antisymm
  · apply Submodule.span_le.2
    apply Set.insert_subset_iff.2
    exact ⟨add_mem (Submodule.subset_span (Set.mem_insert _ _)) hw',
      (Set.subset_insert _ _).trans Submodule.subset_span⟩
  · apply Submodule.span_le.2
    apply Set.insert_subset_iff.2
    refine ⟨?_, (Set.subset_insert _ _).trans Submodule.subset_span⟩
    have hv : v = (v + w) - w := by abel
    have := sub_mem (Submodule.subset_span (Set.mem_insert (v + w) S)) hw''
    rwa [← hv] at this

theorem span_insert_congr {M : Type} [AddCommGroup M] [Module (ZMod 2) M] (S T : Set M) (v : M)
    (h : Submodule.span (ZMod 2) S = Submodule.span (ZMod 2) T) :
    Submodule.span (ZMod 2) (insert v S) = Submodule.span (ZMod 2) (insert v T) := by
  rw [Submodule.span_insert, Submodule.span_insert, h]

/-- the invariant of the outer loop of `rankF2` after the rows `L` -/
structure F2Inv (n : Nat) (L : List Nat) (s : PivMap × Nat) : Prop where
  inv : PivInv s.1
  bound : ∀ (b p : Nat), s.1[b]? = some p → p < 2 ^ n
  count : s.2 = s.1.size
  span : Submodule.span (ZMod 2) (pivSet n s.1) = Submodule.span (ZMod 2) (rowSet n L)

theorem f2Inv_init (n : Nat) : F2Inv n [] ((∅ : PivMap), 0) where
  inv := by intro b p h; simp at h
  bound := by intro b p h; simp at h
  count := by simp
  span := by
    have h1 : pivSet n (∅ : PivMap) = ∅ := by
      ext v; simp [pivSet]
    have h2 : rowSet n [] = ∅ := by
      ext v; simp [rowSet]
    rw [h1, h2]

theorem f2Inv_step (n : Nat) (L : List Nat) (s : PivMap × Nat) (r : Nat) (h : F2Inv n L s)
    (hr : r < 2 ^ n) : F2Inv n (L ++ [r]) (f2Step s r) := by
  obtain ⟨piv, rank⟩ := s
  obtain ⟨hinv, hbound, hcount, hspan⟩ := h
  simp only at hinv hbound hcount hspan
  obtain ⟨r', ps, hps, hr', hres⟩ := f2_inner piv hinv rank r
  have hvec : bitVec n r' = bitVec n r + (ps.map (bitVec n)).sum := by
    rw [hr']; exact bitVec_foldl_xor n ps r
  have hlt : r' < 2 ^ n := by
    rw [hr']
    apply foldl_xor_lt n ps r hr
    intro p hp
    obtain ⟨b, hb⟩ := hps p hp
    exact hbound b p hb
  have hw : (ps.map (bitVec n)).sum ∈ Submodule.span (ZMod 2) (pivSet n piv) := by
    apply list_sum_mem
    intro v hv
    obtain ⟨p, hp, rfl⟩ := List.mem_map.1 hv
    obtain ⟨b, hb⟩ := hps p hp
    exact Submodule.subset_span ⟨b, p, hb, rfl⟩
  rcases hres with ⟨h0, hst⟩ | ⟨h0, hnone, hst⟩
  · rw [hst]
    refine ⟨hinv, hbound, hcount, ?_⟩
    show Submodule.span (ZMod 2) (pivSet n piv) = _
    rw [rowSet_append_singleton, hspan, Submodule.span_insert_eq_span]
    rw [h0, bitVec_zero] at hvec
    have : bitVec n r = -(ps.map (bitVec n)).sum := eq_neg_of_add_eq_zero_left hvec.symm
    rw [this, ← hspan]
    exact neg_mem hw
  · rw [hst]
    refine ⟨?_, ?_, ?_, ?_⟩
    · intro b p hbp
      simp only [Std.HashMap.getElem?_insert] at hbp
      by_cases hc : r'.log2 = b
      · simp [hc] at hbp
        subst hbp
        exact ⟨h0, hc⟩
      · have : (r'.log2 == b) = false := by simpa using hc
        rw [this] at hbp
        exact hinv b p hbp
    · intro b p hbp
      simp only [Std.HashMap.getElem?_insert] at hbp
      by_cases hc : r'.log2 = b
      · simp [hc] at hbp
        subst hbp
        exact hlt
      · have : (r'.log2 == b) = false := by simpa using hc
        rw [this] at hbp
        exact hbound b p hbp
    · show rank + 1 = (piv.insert r'.log2 r').size
      have hnm : ¬ r'.log2 ∈ piv := by
        intro hm
        rw [Std.HashMap.mem_iff_isSome_getElem?, hnone] at hm
        cases hm
      rw [Std.HashMap.size_insert, if_neg hnm, hcount]
    · show Submodule.span (ZMod 2) (pivSet n (piv.insert r'.log2 r')) = _
      rw [pivSet_insert n piv _ _ hnone, rowSet_append_singleton, hvec, span_insert_add _ _ _ hw]
      exact span_insert_congr _ _ _ hspan

theorem f2Inv_foldl (n : Nat) (rest : List Nat) (hrest : ∀ r ∈ rest, r < 2 ^ n) :
    ∀ (L : List Nat) (s : PivMap × Nat), F2Inv n L s → F2Inv n (L ++ rest) (rest.foldl f2Step s) := by
  induction rest with
  | nil => intro L s h; simpa using h
  | cons r rest ih =>
    intro L s h
    have := ih (fun x hx => hrest x (by simp [hx])) (L ++ [r]) (f2Step s r)
      (f2Inv_step n L s r h (hrest r (by simp)))
    simpa using this

/-! ### distinct leading bits ⇒ linearly independent -/

/-- the finite set of keys -/
def pivKeys (piv : PivMap) : Finset Nat := piv.keys.toFinset

theorem mem_pivKeys (piv : PivMap) (b : Nat) : b ∈ pivKeys piv ↔ b ∈ piv := by
  simp [pivKeys, Std.HashMap.mem_keys]

theorem card_pivKeys (piv : PivMap) : (pivKeys piv).card = piv.size := by
  rw [pivKeys, List.toFinset_card_of_nodup Std.HashMap.nodup_keys, Std.HashMap.length_keys]

/-- the vector stored under the key `b` -/
def pivVec (n : Nat) (piv : PivMap) (b : Nat) : Fin n → ZMod 2 := bitVec n (piv[b]?.getD 0)

theorem exists_of_mem_pivKeys {piv : PivMap} {b : Nat} (hb : b ∈ pivKeys piv) :
    ∃ p, piv[b]? = some p := by
  rw [mem_pivKeys, Std.HashMap.mem_iff_isSome_getElem?] at hb
  exact Option.isSome_iff_exists.1 hb

theorem range_pivVec (n : Nat) (piv : PivMap) :
    Set.range (fun b : pivKeys piv => pivVec n piv b) = pivSet n piv := by
  ext v
  simp only [Set.mem_range, pivSet, Set.mem_ofPred_eq]
  constructor
  · rintro ⟨⟨b, hb⟩, rfl⟩
    obtain ⟨p, hp⟩ := exists_of_mem_pivKeys hb
    exact ⟨b, p, hp, by simp [pivVec, hp]⟩
  · rintro ⟨b, p, hp, rfl⟩
    have hb : b ∈ pivKeys piv := by
      rw [mem_pivKeys, Std.HashMap.mem_iff_isSome_getElem?, hp]; rfl
    exact ⟨⟨b, hb⟩, by simp [pivVec, hp]⟩

/-- vectors with pairwise distinct leading bits are linearly independent -/
theorem linearIndependent_pivVec (n : Nat) (piv : PivMap) (hinv : PivInv piv)
    (hbound : ∀ (b p : Nat), piv[b]? = some p → p < 2 ^ n) :
    LinearIndependent (ZMod 2) (fun b : pivKeys piv => pivVec n piv b) := by
  rw [Fintype.linearIndependent_iff]
  intro g hg
  by_contra hne
  push Not at hne
  have hT : (Finset.univ.filter (fun i : pivKeys piv => g i ≠ 0)).Nonempty := by
    obtain ⟨i, hi⟩ := hne
    exact ⟨i, by simp [hi]⟩
  obtain ⟨i0, hi0, hmax⟩ := Finset.exists_max_image _ (fun i : pivKeys piv => (i : Nat)) hT
  simp only [Finset.mem_filter, Finset.mem_univ, true_and] at hi0 hmax
  obtain ⟨p0, hp0⟩ := exists_of_mem_pivKeys i0.2
  obtain ⟨hp0ne, hp0log⟩ := hinv _ _ hp0
  have hlt : (i0 : Nat) < n := by
    rw [← hp0log]; exact (Nat.log2_lt hp0ne).2 (hbound _ _ hp0)
  have hsum := congr_fun hg ⟨i0, hlt⟩
  rw [Finset.sum_apply, Finset.sum_eq_single i0] at hsum
  · apply hi0
    have h1 : pivVec n piv i0 ⟨i0, hlt⟩ = 1 := by
      simp only [pivVec, hp0, Option.getD_some, bitVec]
      rw [← hp0log, Nat.testBit_log2 hp0ne]; rfl
    simpa [h1] using hsum
  · intro i _ hi
    by_cases hgi : g i = 0
    · simp [hgi]
    · have hle := hmax i hgi
      have hlt' : (i : Nat) < i0 := by
        rcases Nat.lt_or_ge (i : Nat) i0 with h | h
        · exact h
        · exact absurd (Subtype.ext (Nat.le_antisymm hle h)) hi
      obtain ⟨p, hp⟩ := exists_of_mem_pivKeys i.2
      obtain ⟨hpne, hplog⟩ := hinv _ _ hp
      have hp2 : p < 2 ^ (i0 : Nat) :=
        Nat.lt_of_lt_of_le Nat.lt_log2_self (Nat.pow_le_pow_right (by omega) (by omega))
      have h0 : pivVec n piv i ⟨i0, hlt⟩ = 0 := by
        simp only [pivVec, hp, Option.getD_some, bitVec]
        rw [Nat.testBit_lt_two_pow hp2]; rfl
      simp [h0]
  · intro h; exact absurd (Finset.mem_univ _) h

theorem finrank_span_pivSet (n : Nat) (piv : PivMap) (hinv : PivInv piv)
    (hbound : ∀ (b p : Nat), piv[b]? = some p → p < 2 ^ n) :
    Module.finrank (ZMod 2) (Submodule.span (ZMod 2) (pivSet n piv)) = piv.size := by
  rw [← range_pivVec, finrank_span_eq_card (linearIndependent_pivVec n piv hinv hbound),
    Fintype.card_coe, card_pivKeys]

theorem range_bitMat_row (n : Nat) (rows : Array Nat) :
    Set.range (bitMat n rows).row = rowSet n rows.toList := by
  ext v
  simp only [Set.mem_range, rowSet, Set.mem_ofPred_eq]
  constructor
  · rintro ⟨i, rfl⟩
    exact ⟨rows[i], by simp, rfl⟩
  · rintro ⟨x, hx, rfl⟩
    obtain ⟨i, hi, rfl⟩ := List.getElem_of_mem hx
    exact ⟨⟨i, by simpa using hi⟩, rfl⟩

/-- `rankF2` computes the rank over `𝔽₂` of the matrix of bit rows -/
theorem rankF2_spec (n : Nat) (rows : Array Nat) (h : ∀ r ∈ rows.toList, r < 2 ^ n) :
    Yuiv.C19.rankF2 rows = (bitMat n rows).rank := by
  have hI := f2Inv_foldl n rows.toList h [] _ (f2Inv_init n)
  have hr := Matrix.rank_eq_finrank_span_row (bitMat n rows)
  rw [rankF2_eq_foldl, hI.count, hr, range_bitMat_row,
    ← finrank_span_pivSet n _ hI.inv hI.bound, hI.span, List.nil_append]

theorem rankF2_ex_356 : Yuiv.C19.rankF2 #[3, 5, 6] = 2 := by
  have l3 : Nat.log2 3 = 1 := by decide
  have l5 : Nat.log2 5 = 2 := by decide
  have l6 : Nat.log2 6 = 2 := by decide
  have s1 : f2Step ((∅ : PivMap), 0) 3 = ((∅ : PivMap).insert 1 3, 1) := by
    have := f2Step_none (∅ : PivMap) 0 (r := 3) (by decide) (by simp)
    rwa [l3] at this
  have s2 : f2Step ((∅ : PivMap).insert 1 3, 1) 5 = (((∅ : PivMap).insert 1 3).insert 2 5, 2) := by
    have := f2Step_none ((∅ : PivMap).insert 1 3) 1 (r := 5) (by decide)
      (by simp [l5])
    rwa [l5] at this
  have s3 : f2Step (((∅ : PivMap).insert 1 3).insert 2 5, 2) 6
      = (((∅ : PivMap).insert 1 3).insert 2 5, 2) := by
    rw [f2Step_some (p := 5) _ _ (by decide) (by simp [l6]),
      f2Step_some (r := 6 ^^^ 5) (p := 3) _ _ (by decide)
        (by simp [l3, Std.HashMap.getElem_insert])]
    exact f2Step_zero _ _
  rw [rankF2_eq_foldl]
  show (f2Step (f2Step (f2Step ((∅ : PivMap), 0) 3) 5) 6).2 = 2
  rw [s1, s2, s3]

theorem rankF2_ex_124 : Yuiv.C19.rankF2 #[1, 2, 4] = 3 := by
  have l1 : Nat.log2 1 = 0 := by decide
  have l2 : Nat.log2 2 = 1 := by decide
  have l4 : Nat.log2 4 = 2 := by decide
  have s1 : f2Step ((∅ : PivMap), 0) 1 = ((∅ : PivMap).insert 0 1, 1) := by
    have := f2Step_none (∅ : PivMap) 0 (r := 1) (by decide) (by simp)
    rwa [l1] at this
  have s2 : f2Step ((∅ : PivMap).insert 0 1, 1) 2 = (((∅ : PivMap).insert 0 1).insert 1 2, 2) := by
    have := f2Step_none ((∅ : PivMap).insert 0 1) 1 (r := 2) (by decide)
      (by simp [l2])
    rwa [l2] at this
  have s3 : f2Step (((∅ : PivMap).insert 0 1).insert 1 2, 2) 4
      = ((((∅ : PivMap).insert 0 1).insert 1 2).insert 2 4, 3) := by
    have := f2Step_none (((∅ : PivMap).insert 0 1).insert 1 2) 2 (r := 4) (by decide)
      (by simp [l4])
    rwa [l4] at this
  rw [rankF2_eq_foldl]
  show (f2Step (f2Step (f2Step ((∅ : PivMap), 0) 1) 2) 4).2 = 3
  rw [s1, s2, s3]

/-- the hypothesis of `rankF2_spec` is satisfiable by a non-trivial value, and the conclusion is then
a statement about a non-zero matrix: `rank (bitMat 3 #[3, 5, 6]) = 2` -/
example : (bitMat 3 #[3, 5, 6]).rank = 2 := by
  rw [← rankF2_spec 3 #[3, 5, 6] (by decide)]
  exact rankF2_ex_356
end Yuiv.KhSnf
