import Yuiv.Proofs.KhiSpecMat
/-
KhiSpec — the matrix statements of `Proofs/KhiSpecMat.lean` for an arbitrary degree-wise family `G` of cone generators that
is duplicate-free, closed under `dI`, sits over enumerated cube generators and on which the cone is a complex (`Fam`);
used for the slices of constant quantum degree.  (Same proofs, `cgens ic i` replaced by `G[i]!`.)
-/
namespace Yuiv.KhiSpec
open Yuiv Yuiv.KhRef Yuiv.C19 Yuiv.C06Cycle Yuiv.C19Inv Yuiv.C19Comm Matrix

structure Fam (ic : ICube) (p : Params) (G : Array (Array IGen)) : Prop where
  nodup : ∀ i : Nat, (Array.toList G[i]!).Nodup
  closed : ∀ i : Nat, i < G.size → ∀ x ∈ G[i]!, ∀ y ∈ dI ic p x, y ∈ G[i + 1]!
  base : ∀ (i : Nat) (x : IGen), x ∈ G[i]! → ∃ gs ∈ kgensOf ic.cube, x.2 ∈ gs
  cone : ∀ (i : Nat) (x : IGen), x ∈ G[i]! → ∀ z, ((dI ic p x).flatMap (dI ic p)).count z % 2 = 0

/-- the matrix of the cone differential out of position `i` of the family -/
def DmG (ic : ICube) (p : Params) (G : Array (Array IGen)) (i : Nat) :
    Matrix (Fin (G[i]!).size) (Fin (G[i + 1]!).size) (ZMod 2) :=
  fun a b => (((dI ic p (G[i]!)[a]).count (G[i + 1]!)[b] : Nat) : ZMod 2)

theorem dIm_eqG (ic : ICube) (p : Params) (x : IGen) (hx : ∃ gs ∈ kgensOf ic.cube, x.2 ∈ gs) :
    dIm ic p x = dIfull ic p x := by
  unfold dIm dIfull
  apply dIA_congr
  exact dmapOf_get _ _ _ _ hx

section
variable (ic : ICube) (p : Params) (G : Array (Array IGen)) (F : Fam ic p G)
include F

theorem row_closedG (i : Nat) (hi : i < G.size) (x : IGen) (hx : x ∈ G[i]!) :
    (dIm ic p x).toList = dI ic p x ∧ ∀ y ∈ reduce2 (dIm ic p x), y ∈ G[i + 1]! := by
  have e1 : (dIm ic p x).toList = dI ic p x := by rw [dIm_eqG ic p x (F.base i x hx), dIA_toList]
  refine ⟨e1, ?_⟩
  intro y hy
  rw [mem_reduce2, e1] at hy
  apply F.closed i hi x hx y
  apply List.count_pos_iff.1
  omega

/-- the bit rows are the rows of `Dm`, and `rankF2` of them is its rank -/
theorem rankF2_rowsG (i : Nat) (hi : i < G.size) :
    rankF2 (rowsOf (dIm ic p) G i) = (DmG ic p G i).rank := by
  have hsz : (rowsOf (dIm ic p) G i).size = (G[i]!).size := by
    simp [rowsOf]
  have hbit : ∀ (a : Nat) (ha : a < (G[i]!).size) (j : Nat),
      ((rowsOf (dIm ic p) G i)[a]'(by omega)).testBit j = true ↔
        j < (G[i + 1]!).size ∧ (dI ic p (G[i]!)[a]).count (G[i + 1]!)[j]! % 2 = 1 := by
    intro a ha j
    have hx : (G[i]!)[a] ∈ G[i]! := Array.getElem_mem ha
    obtain ⟨e1, hcl⟩ := row_closedG ic p G F i hi _ hx
    have := row_testBit (G[i + 1]!) (F.nodup (i + 1)) (dIm ic p (G[i]!)[a]) hcl j
    rw [e1] at this
    rw [← this]
    simp only [rowsOf, Array.getElem_map]
  rw [KhSnf.rankF2_spec (G[i + 1]!).size]
  · have : KhSnf.bitMat (G[i + 1]!).size (rowsOf (dIm ic p) G i) =
        (DmG ic p G i).submatrix (finCongr hsz) (Equiv.refl _) := by
      funext a b
      simp only [KhSnf.bitMat, Matrix.submatrix_apply, DmG, Equiv.refl_apply, finCongr_apply]
      rw [natCast_zmod2]
      have := hbit a.1 (by have := a.2; omega) b.1
      rw [getElem!_pos _ b.1 b.2] at this
      by_cases h : (List.count (G[i + 1]!)[b] (dI ic p (G[i]!)[(Fin.cast hsz a)])) % 2 = 1
      · rw [if_pos h, if_pos]
        exact this.2 ⟨b.2, h⟩
      · rw [if_neg h, if_neg]
        intro h'
        exact h (this.1 h').2
    rw [this, Matrix.rank_submatrix]
  · intro r hr
    obtain ⟨a, ha, rfl⟩ := List.mem_iff_getElem.1 hr
    have ha' : a < (G[i]!).size := by simpa [hsz] using ha
    apply Nat.lt_pow_two_of_testBit
    intro j hj
    cases hb : ((rowsOf (dIm ic p) G i).toList[a]).testBit j with
    | false => rfl
    | true =>
      rw [Array.getElem_toList] at hb
      have := ((hbit a ha' j).1 hb).1
      omega

end

/-! ### consecutive matrices multiply to zero -/

theorem DmG_mul (ic : ICube) (p : Params) (G : Array (Array IGen)) (F : Fam ic p G)
    (i : Nat) (hi : i < G.size) : DmG ic p G i * DmG ic p G (i + 1) = 0 := by
  funext a c
  rw [Matrix.mul_apply, Matrix.zero_apply]
  have hx : (G[i]!)[a] ∈ G[i]! := Array.getElem_mem a.2
  have := sum_count_arr (R := ZMod 2) (G[i + 1]!) (F.nodup (i + 1)) (dI ic p (G[i]!)[a])
    (fun y hy => F.closed i hi _ hx y hy)
    (fun y => (((dI ic p y).count (G[i + 1 + 1]!)[c] : Nat) : ZMod 2))
  unfold DmG
  rw [this]
  have e0 : (List.map (fun y => (((dI ic p y).count (G[i + 1 + 1]!)[c] : Nat) : ZMod 2)) (dI ic p (G[i]!)[a])) =
      List.map Nat.cast (List.map (fun y => List.count (G[i + 1 + 1]!)[c] (dI ic p y)) (dI ic p (G[i]!)[a])) := by
    rw [List.map_map]; rfl
  rw [e0, ← Nat.cast_list_sum]
  have e : (List.map (fun y => List.count (G[i + 1 + 1]!)[c] (dI ic p y)) (dI ic p (G[i]!)[a])).sum =
      ((dI ic p (G[i]!)[a]).flatMap (dI ic p)).count (G[i + 1 + 1]!)[c] := by
    rw [List.count_flatMap]
    rfl
  rw [e, natCast_zmod2, if_neg]
  rw [F.cone i _ hx]
  decide

/-! ### the reported dimensions -/

theorem rkAtG_eq (ic : ICube) (p : Params) (G : Array (Array IGen)) (F : Fam ic p G) (i : Nat)
    (hi : i < G.size) :
    rkAt (dIm ic p) G i = (DmG ic p G i).rank := by
  unfold rkAt
  split
  · exact rankF2_rowsG ic p G F i hi
  · rename_i h
    have hz : (G[i + 1]!).size = 0 := by
      rw [getElem!_neg G (i + 1) h]
      rfl
    have := Matrix.rank_le_card_width (DmG ic p G i)
    rw [Fintype.card_fin] at this
    omega

/-- the dimension reported by `homo` at position `i` -/
theorem dimAtG_eq (ic : ICube) (p : Params) (G : Array (Array IGen)) (F : Fam ic p G) (i : Nat)
    (hi : i < G.size) :
    dimAt (dIm ic p) G i =
      (G[i]!).size - (DmG ic p G i).rank - (if i = 0 then 0 else (DmG ic p G (i - 1)).rank) := by
  unfold dimAt
  rw [rkAtG_eq ic p G F i hi]
  by_cases h0 : i = 0
  · simp [h0]
  · rw [rkAtG_eq ic p G F (i - 1) (by omega)]

/-- `ker / im` at an inner position `j + 1`: the reported dimension is the dimension of the homology of
`𝔽₂^{gens j} → 𝔽₂^{gens (j+1)} → 𝔽₂^{gens (j+2)}` -/
theorem homology_dimG (ic : ICube) (p : Params) (G : Array (Array IGen)) (F : Fam ic p G)
    (j : Nat) (hj : j < G.size) :
    Module.finrank (ZMod 2) (C03Uct.Homology (DmG ic p G j)ᵀ (DmG ic p G (j + 1))ᵀ) =
      (G[j + 1]!).size - (DmG ic p G j).rank - (DmG ic p G (j + 1)).rank := by
  have : Fact (Nat.Prime 2) := ⟨Nat.prime_two⟩
  have h0 : (DmG ic p G (j + 1))ᵀ * (DmG ic p G j)ᵀ = 0 := by
    rw [← Matrix.transpose_mul, DmG_mul ic p G F j hj, Matrix.transpose_zero]
  rw [C03Uct.finrank_homology _ _ h0, Matrix.rank_transpose, Matrix.rank_transpose]


end Yuiv.KhiSpec
