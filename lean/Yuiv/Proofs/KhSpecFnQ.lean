import Yuiv.Proofs.KhSpecFn
/-
KhSpec (helper): loop-free form of `KhRef.khHomology` (BIGRADED computation) on its success path.

    def qsOf c q0 gens    : the q-degrees of the generators, without repetition, sorted (the `qs'` of `khHomology`)
    def gensQ c q0 gens q : the generators of q-degree `q`
    theorem khHomology_bigraded : (all `Cube.d` defined) → (`d∘d = 0`) → (`d` preserves the q-degree) →
        khHomology l signs p k true = .ok ⟨(flatMap over q ∈ qsOf of the cells of `homologyOf k (gensQ … q) dTab`).toArray⟩
    theorem mem_qsOf, qsOf_nodup : `qsOf` lists exactly the q-degrees of the generators, each once
-/
namespace Yuiv.KhSpec
open Yuiv Yuiv.KhRef Yuiv.KhSnf

/-- the q-degrees of the generators, without repetition, sorted (the `qs'` of `khHomology`) -/
def qsOf (c : Cube) (q0 : Int) (gens : Array (Array Gen)) : Array Int :=
  (gens.toList.foldl (fun qs gs => gs.toList.foldl (fun qs g =>
    if qs.contains (c.qDeg q0 g) then qs else qs.push (c.qDeg q0 g)) qs) #[]).qsort (· < ·)

/-- the generators of q-degree `q` -/
def gensQ (c : Cube) (q0 : Int) (gens : Array (Array Gen)) (q : Int) : Array (Array Gen) :=
  gens.map (fun gs => gs.filter (fun g => c.qDeg q0 g == q))

/-- the unsorted list of q-degrees -/
def preQs (c : Cube) (q0 : Int) (gens : Array (Array Gen)) : Array Int :=
  gens.toList.foldl (fun qs gs => gs.toList.foldl (fun qs g =>
    if qs.contains (c.qDeg q0 g) then qs else qs.push (c.qDeg q0 g)) qs) #[]

theorem qsOf_eq (c : Cube) (q0 : Int) (gens : Array (Array Gen)) : qsOf c q0 gens = (preQs c q0 gens).qsort (· < ·) := rfl

/-! ### the collect loop -/

theorem qsLoop_eq (c : Cube) (q0 : Int) (gens : Array (Array Gen)) : qsLoop c q0 gens = preQs c q0 gens := by
  unfold qsLoop preQs
  rw [← Array.forIn_toList, C04Inv.id_forIn_yield (g := fun (gs : Array Gen) (qs : Array Int) =>
    gs.toList.foldl (fun qs g => if qs.contains (c.qDeg q0 g) then qs else qs.push (c.qDeg q0 g)) qs)]
  intro gs qs
  unfold qsOuter
  rw [← Array.forIn_toList]
  have := C04Inv.id_forIn_yield gs.toList qs
    (fun g (qs : Array Int) => if qs.contains (c.qDeg q0 g) then qs else qs.push (c.qDeg q0 g)) (qsInner c q0)
    (by intro g qs; unfold qsInner; cases qs.contains (c.qDeg q0 g) <;> rfl)
  change forIn (m := Id) gs.toList qs _ = _ at this
  rw [this]
  rfl

def addQ (qs : Array Int) (q : Int) : Array Int := if qs.contains q then qs else qs.push q

theorem addQ_list (ys : List Int) (xs : Array Int) (h : xs.toList.Nodup) :
    (ys.foldl addQ xs).toList.Nodup ∧ ∀ z, z ∈ ys.foldl addQ xs ↔ z ∈ xs ∨ z ∈ ys := by
  induction ys generalizing xs with
  | nil => simp [h]
  | cons y ys ih =>
    have h1 : (addQ xs y).toList.Nodup := by
      unfold addQ; split
      · exact h
      · rename_i hy
        simp [List.nodup_append, h]
        intro a ha hay; subst hay; exact hy (by simpa using ha)
    obtain ⟨i1, i2⟩ := ih (addQ xs y) h1
    refine ⟨i1, fun z => ?_⟩
    rw [List.foldl_cons, i2]
    unfold addQ; split
    · rename_i hy
      have hy : y ∈ xs := by simpa using hy
      simp; constructor
      · rintro (h | h); exact Or.inl h; exact Or.inr (Or.inr h)
      · rintro (h | h | h); exact Or.inl h; subst h; exact Or.inl hy; exact Or.inr h
    · simp [or_assoc]

theorem preQs_aux (c : Cube) (q0 : Int) (ls : List (Array Gen)) (xs : Array Int) (h : xs.toList.Nodup) :
    (ls.foldl (fun qs (gs : Array Gen) => gs.toList.foldl (fun qs g =>
        if qs.contains (c.qDeg q0 g) then qs else qs.push (c.qDeg q0 g)) qs) xs).toList.Nodup ∧
      ∀ z, z ∈ ls.foldl (fun qs (gs : Array Gen) => gs.toList.foldl (fun qs g =>
        if qs.contains (c.qDeg q0 g) then qs else qs.push (c.qDeg q0 g)) qs) xs ↔
        z ∈ xs ∨ ∃ gs ∈ ls, ∃ g ∈ gs.toList, c.qDeg q0 g = z := by
  induction ls generalizing xs with
  | nil => simp [h]
  | cons gs ls ih =>
    have e : gs.toList.foldl (fun qs g => if qs.contains (c.qDeg q0 g) then qs else qs.push (c.qDeg q0 g)) xs =
        (gs.toList.map (c.qDeg q0)).foldl addQ xs := by
      rw [List.foldl_map]; rfl
    obtain ⟨a1, a2⟩ := addQ_list (gs.toList.map (c.qDeg q0)) xs h
    rw [← e] at a1 a2
    obtain ⟨i1, i2⟩ := ih _ a1
    refine ⟨i1, fun z => ?_⟩
    rw [List.foldl_cons, i2, a2]
    simp [or_assoc]

theorem qsOf_nodup (c : Cube) (q0 : Int) (gens : Array (Array Gen)) : (qsOf c q0 gens).toList.Nodup := by
  rw [qsOf_eq]
  have := (C04Inv.qsort_perm (preQs c q0 gens) (· < ·)).toList
  rw [this.nodup_iff]
  exact (preQs_aux c q0 gens.toList #[] (by simp)).1

theorem mem_qsOf (c : Cube) (q0 : Int) (gens : Array (Array Gen)) (q : Int) :
    q ∈ (qsOf c q0 gens).toList ↔ ∃ gs ∈ gens.toList, ∃ g ∈ gs.toList, c.qDeg q0 g = q := by
  rw [qsOf_eq, Array.mem_toList_iff, (C04Inv.qsort_perm (preQs c q0 gens) (· < ·)).mem_iff]
  have := (preQs_aux c q0 gens.toList #[] (by simp)).2 q
  unfold preQs
  rw [this]; simp

/-! ### the per-`q` round -/

theorem qchkInner_ok (c : Cube) (q0 : Int) (d : Gen → Array Term) (q : Int) (g : Gen) (st : Option ER × Unit)
    (h : ∀ t ∈ (d g).toList, c.qDeg q0 t.1 = q) :
    qchkInner c q0 d q g st = pure (ForInStep.yield (none, ())) := by
  unfold qchkInner
  have e : ((d g).any fun (x : Term) => match x with | (y, _) => c.qDeg q0 y != q) = false := by
    rw [← Array.any_toList, List.any_eq_false]
    intro t ht
    obtain ⟨y, a⟩ := t
    have := h (y, a) ht
    simpa using this
  rw [e]
  rfl

theorem qchkOuter_ok (c : Cube) (q0 : Int) (d : Gen → Array Term) (q : Int) (gs : Array Gen) (st : Option ER × Unit)
    (h : ∀ g ∈ gs.toList, ∀ t ∈ (d g).toList, c.qDeg q0 t.1 = q) :
    qchkOuter c q0 d q gs st = pure (ForInStep.yield (none, ())) := by
  unfold qchkOuter
  rw [← Array.forIn_toList, forIn_none_fold gs.toList (fun _ _ => ()) _
    (fun g hg st => qchkInner_ok c q0 d q g st (h g hg))]
  rfl

theorem qBody_ok (c : Cube) (k : Coeff) (h0 q0 : Int) (gens : Array (Array Gen)) (d : Gen → Array Term) (q : Int)
    (st : Option ER × Cells)
    (h : ∀ gs ∈ gens.toList, ∀ g ∈ gs.toList, ∀ t ∈ (d g).toList, c.qDeg q0 t.1 = c.qDeg q0 g) :
    qBody c k h0 q0 gens d q st =
      pure (ForInStep.yield (none, st.2 ++ (cellsUn h0 (some q) (homologyOf k (gensQ c q0 gens q) d)).toArray)) := by
  unfold qBody
  show (forIn (gensQ c q0 gens q) (none, ()) (qchkOuter c q0 d q) >>= _) = _
  rw [← Array.forIn_toList, forIn_none_fold (gensQ c q0 gens q).toList (fun _ _ => ()) _ ?_]
  · show pure (ForInStep.yield (none, cellLoop h0 (some q) (homologyOf k (gensQ c q0 gens q) d) st.2)) = _
    rw [cellLoop_eq]
  · intro gs' hgs' st'
    apply qchkOuter_ok
    intro g hg t ht
    unfold gensQ at hgs'
    rw [Array.toList_map, List.mem_map] at hgs'
    obtain ⟨gs, hgs, e⟩ := hgs'
    subst e
    rw [Array.toList_filter, List.mem_filter] at hg
    have hq : c.qDeg q0 g = q := by simpa using hg.2
    rw [h gs hgs g hg.1 t ht, hq]

theorem flat_fold {α β : Type} (F : α → List β) (qs : List α) (acc : Array β) :
    qs.foldl (fun cells q => cells ++ (F q).toArray) acc = acc ++ (qs.flatMap F).toArray := by
  induction qs generalizing acc with
  | nil => simp
  | cons q qs ih => rw [List.foldl_cons, ih]; simp

theorem tailQ_ok (c : Cube) (k : Coeff) (h0 q0 : Int) (gens : Array (Array Gen)) (d : Gen → Array Term)
    (h : ∀ gs ∈ gens.toList, ∀ g ∈ gs.toList, ∀ t ∈ (d g).toList, c.qDeg q0 t.1 = c.qDeg q0 g) :
    tailQ c k h0 q0 gens d =
      .ok ⟨((qsOf c q0 gens).toList.flatMap (fun q =>
        cellsUn h0 (some q) (homologyOf k (gensQ c q0 gens q) d))).toArray⟩ := by
  unfold tailQ
  rw [qsLoop_eq, ← qsOf_eq, ← Array.forIn_toList, forIn_none_fold (qsOf c q0 gens).toList
    (fun cells q => cells ++ (cellsUn h0 (some q) (homologyOf k (gensQ c q0 gens q) d)).toArray) _
    (fun q _ st => qBody_ok c k h0 q0 gens d q st h), flat_fold]
  simp

/-! ### the bigraded computation -/

theorem khHomology_bigraded (l : Link) (signs : Array Int) (p : Params) (k : Coeff)
    (hdef : ∀ gs ∈ (gensByWeight (mkCube l p)).toList, ∀ g ∈ gs.toList, ((mkCube l p).d p g).isSome = true)
    (hdd : ∀ gs ∈ (gensByWeight (mkCube l p)).toList, ∀ g ∈ gs.toList, ∀ z,
      C06Cycle.chainSum (fun y => (dTab (mkCube l p) p (gensByWeight (mkCube l p)) y).toList)
        (dTab (mkCube l p) p (gensByWeight (mkCube l p)) g).toList z = 0)
    (hq : ∀ gs ∈ (gensByWeight (mkCube l p)).toList, ∀ g ∈ gs.toList,
      ∀ t ∈ (dTab (mkCube l p) p (gensByWeight (mkCube l p)) g).toList,
        (mkCube l p).qDeg (q0Of signs p) t.1 = (mkCube l p).qDeg (q0Of signs p) g) :
    khHomology l signs p k true =
      .ok ⟨((qsOf (mkCube l p) (q0Of signs p) (gensByWeight (mkCube l p))).toList.flatMap (fun q =>
        cellsUn (h0Of signs) (some q)
          (homologyOf k (gensQ (mkCube l p) (q0Of signs p) (gensByWeight (mkCube l p)) q)
            (dTab (mkCube l p) p (gensByWeight (mkCube l p)))))).toArray⟩ := by
  rw [khHomologyM_ok l signs p k true hdef hdd, tailQ_ok _ _ _ _ _ _ hq]
  rfl

end Yuiv.KhSpec
