import Yuiv.Proofs.C04MarkovSim
/-
C04Markov (helper, no property theorem here): far commutation `w₁ ++ [s, t] ++ w₂` versus `w₁ ++ [t, s] ++ w₂` for
letters on disjoint pairs of strands.  The two un-renamed codes differ by the label swap `c ↔ c+2`, `c+1 ↔ c+3` and the
order of two crossings.
-/
open Yuiv.KhRef Yuiv.C04
namespace Yuiv.C04Inv
open Relation
open Yuiv.C18 (closureStep closurePD closure connRename hasFreeLoop CInv PD flatPD fromPD4)
open Yuiv.C18Bridge (toKh crossingKh)

variable {R : Type} [CommRing R]

/-- the crossing written by the letter `s` on the bottom labels `a`, `b` at count `c` -/
def stepX (s : Int) (a b c : Nat) : Nat × Nat × Nat × Nat := if s > 0 then (a, c, c + 1, b) else (b, a, c, c + 1)

/-- `closureStep`, made explicit -/
theorem step_explicit {c : Nat} {bot : List Nat} {pd : PD} {s : Int} {q : Nat × List Nat × PD}
    (h : closureStep (c, bot, pd) s = .ok q) :
    ∃ a b, s ≠ 0 ∧ ∃ (h1 : s.natAbs - 1 < bot.length) (h2 : s.natAbs - 1 + 1 < bot.length),
      bot[s.natAbs - 1] = a ∧ bot[s.natAbs - 1 + 1] = b ∧
      q = (c + 2, (bot.set (s.natAbs - 1) c).set (s.natAbs - 1 + 1) (c + 1), pd ++ [stepX s a b c]) := by
  obtain ⟨a, b, hs0, ha, hb, rfl⟩ := C18.closureStep_ok h
  simp only at ha hb
  have h1 : s.natAbs - 1 < bot.length := by
    rcases Nat.lt_or_ge (s.natAbs - 1) bot.length with h | h
    · exact h
    · rw [List.getElem?_eq_none h] at ha; cases ha
  have h2 : s.natAbs - 1 + 1 < bot.length := by
    rcases Nat.lt_or_ge (s.natAbs - 1 + 1) bot.length with h | h
    · exact h
    · rw [List.getElem?_eq_none h] at hb; cases hb
  rw [List.getElem?_eq_getElem h1] at ha
  rw [List.getElem?_eq_getElem h2] at hb
  exact ⟨a, b, by intro h; subst h; simp at hs0, h1, h2, Option.some.inj ha, Option.some.inj hb, rfl⟩

/-- the swap `c ↔ c+2`, `c+1 ↔ c+3` -/
def swap2 (c z : Nat) : Nat :=
  if z = c then c + 2 else if z = c + 1 then c + 3 else if z = c + 2 then c else if z = c + 3 then c + 1 else z

theorem swap2_inj (c : Nat) : Function.Injective (swap2 c) := by
  intro u v h
  unfold swap2 at h
  repeat' split at h
  all_goals omega

theorem swap2_lt (c z : Nat) (h : z < c) : swap2 c z = z := by
  unfold swap2
  rw [if_neg (by omega), if_neg (by omega), if_neg (by omega), if_neg (by omega)]

theorem swap2_ge (c z : Nat) (h : c + 4 ≤ z) : swap2 c z = z + 0 := by
  unfold swap2
  rw [if_neg (by omega), if_neg (by omega), if_neg (by omega), if_neg (by omega)]; rfl

theorem rawLinkP_perm_swap (A B : PD) (u v : Nat × Nat × Nat × Nat) (ps : List (Nat × Nat)) :
    (rawLinkP (A ++ [u, v] ++ B) ps).toList.Perm (rawLinkP (A ++ [v, u] ++ B) ps).toList := by
  simp only [rawLinkP, pdLink, List.map_append, List.map_cons, List.map_nil, List.append_assoc, List.cons_append,
    List.nil_append]
  exact List.Perm.append_left _ (List.Perm.swap _ _ _)

/-- the state sum of the model only depends on the crossing list up to permutation -/
theorem stateSum_perm' (x y : R) {l l' : Link} (hwf : WF l) (hp : l'.toList.Perm l.toList) :
    stateSum x y l' = stateSum x y l := by
  unfold stateSum
  exact stateSum_perm x y hwf hp

/-- FAR COMMUTATION, state-sum level (all `x`, `y`) -/
theorem far_stateSum (x y : R) (n : Nat) (w1 w2 : List Int) (s t : Int) (l l' : C18.Link)
    (hfar : s.natAbs + 2 ≤ t.natAbs ∨ t.natAbs + 2 ≤ s.natAbs)
    (h : closure n (w1 ++ [s, t] ++ w2) = .ok l) (h' : closure n (w1 ++ [t, s] ++ w2) = .ok l') :
    stateSum x y (toKh l') = stateSum x y (toKh l) := by
  obtain ⟨stO, hfO, _, hsO, _⟩ := closure_stateSum x y n _ l h
  obtain ⟨stN, hfN, _, hsN, _⟩ := closure_stateSum x y n _ l' h'
  rw [List.append_assoc] at hfO hfN
  obtain ⟨st1, hf1, hrO⟩ := (foldlM_append_ok _ _ _ _ _).1 hfO
  obtain ⟨st1', hf1', hrN⟩ := (foldlM_append_ok _ _ _ _ _).1 hfN
  have e1 : st1' = st1 := by rw [hf1] at hf1'; exact (Res.ok.inj hf1').symm
  subst e1
  obtain ⟨m, hpO, hf2O⟩ := (foldlM_append_ok _ [s, t] w2 _ _).1 hrO
  obtain ⟨m', hpN, hf2N⟩ := (foldlM_append_ok _ [t, s] w2 _ _).1 hrN
  have hI1 := C18.cinv_foldl n w1 _ st1' (C18.cinv_init n) hf1
  obtain ⟨hnd, hlt, hpdlt, _⟩ := cinv_facts hI1
  obtain ⟨c, bot, pd1⟩ := st1'
  simp only at hlt hpdlt
  -- the two pairs of steps
  simp only [List.foldlM_cons, List.foldlM_nil] at hpO hpN
  cases hq : closureStep (c, bot, pd1) s with
  | panic => rw [hq] at hpO; cases hpO
  | err => rw [hq] at hpO; cases hpO
  | ok q =>
  cases hq' : closureStep (c, bot, pd1) t with
  | panic => rw [hq'] at hpN; cases hpN
  | err => rw [hq'] at hpN; cases hpN
  | ok q' =>
  rw [hq] at hpO; rw [hq'] at hpN
  simp only [bind, Res.bind] at hpO hpN
  obtain ⟨a, b, hs0, hi, hi1, ea, eb, rfl⟩ := step_explicit hq
  obtain ⟨a', b', ht0, hj, hj1, ea', eb', rfl⟩ := step_explicit hq'
  cases hq2 : closureStep (c + 2, (bot.set (s.natAbs - 1) c).set (s.natAbs - 1 + 1) (c + 1), pd1 ++ [stepX s a b c]) t with
  | panic => rw [hq2] at hpO; cases hpO
  | err => rw [hq2] at hpO; cases hpO
  | ok m0 =>
  cases hq2' : closureStep (c + 2, (bot.set (t.natAbs - 1) c).set (t.natAbs - 1 + 1) (c + 1), pd1 ++ [stepX t a' b' c]) s with
  | panic => rw [hq2'] at hpN; cases hpN
  | err => rw [hq2'] at hpN; cases hpN
  | ok m0' =>
  rw [hq2] at hpO; rw [hq2'] at hpN
  simp only [pure] at hpO hpN
  cases hpO; cases hpN
  obtain ⟨a2, b2, _, hj2, hj21, ea2, eb2, rfl⟩ := step_explicit hq2
  obtain ⟨a3, b3, _, hi3, hi31, ea3, eb3, rfl⟩ := step_explicit hq2'
  generalize hi_def : s.natAbs - 1 = i at *
  generalize hj_def : t.natAbs - 1 = j at *
  have hij : i + 2 ≤ j ∨ j + 2 ≤ i := by omega
  have e_a2 : a2 = a' := by
    rw [← ea2, ← ea']; simp only [List.getElem_set]
    rw [if_neg (by omega), if_neg (by omega)]
  have e_b2 : b2 = b' := by
    rw [← eb2, ← eb']; simp only [List.getElem_set]
    rw [if_neg (by omega), if_neg (by omega)]
  have e_a3 : a3 = a := by
    rw [← ea3, ← ea]; simp only [List.getElem_set]
    rw [if_neg (by omega), if_neg (by omega)]
  have e_b3 : b3 = b := by
    rw [← eb3, ← eb]; simp only [List.getElem_set]
    rw [if_neg (by omega), if_neg (by omega)]
  subst e_a2 e_b2 e_a3 e_b3
  have hac : a3 < c := hlt _ (ea ▸ List.getElem_mem hi)
  have hbc : b3 < c := hlt _ (eb ▸ List.getElem_mem hi1)
  have ha'c : a2 < c := hlt _ (ea' ▸ List.getElem_mem hj)
  have hb'c : b2 < c := hlt _ (eb' ▸ List.getElem_mem hj1)
  -- the bottoms after the pair differ by the swap
  have hbotswap : (((bot.set j c).set (j + 1) (c + 1)).set i (c + 2)).set (i + 1) (c + 2 + 1)
      = ((((bot.set i c).set (i + 1) (c + 1)).set j (c + 2)).set (j + 1) (c + 2 + 1)).map (swap2 c) := by
    apply List.ext_getElem (by simp)
    intro k hk1 hk2
    have hk : k < bot.length := by simpa using hk1
    simp only [List.getElem_set, List.getElem_map]
    by_cases k1 : i + 1 = k
    · subst k1
      rw [if_pos rfl, if_neg (by omega), if_neg (by omega), if_pos rfl]; (simp [swap2]; try omega)
    · by_cases k2 : i = k
      · subst k2
        rw [if_neg k1, if_pos rfl, if_neg (by omega), if_neg (by omega), if_neg k1, if_pos rfl]; (simp [swap2]; try omega)
      · by_cases k3 : j + 1 = k
        · subst k3
          rw [if_neg k1, if_neg k2, if_pos rfl, if_pos rfl]; (simp [swap2]; try omega)
        · by_cases k4 : j = k
          · subst k4
            rw [if_neg k1, if_neg k2, if_neg k3, if_pos rfl, if_neg k3, if_pos rfl]; (simp [swap2]; try omega)
          · rw [if_neg k1, if_neg k2, if_neg k3, if_neg k4, if_neg k3, if_neg k4, if_neg k1, if_neg k2,
              swap2_lt c _ (hlt _ (List.getElem_mem hk))]
  -- run the rest of the word
  obtain ⟨pd2, hpd, hsim⟩ := gsim_fold (swap2 c) 0 (c + 4) (swap2_ge c) w2 _ stO (by simp only; omega) hf2O
  have hN := hsim (pd1 ++ [stepX t a2 b2 c] ++ [stepX s a3 b3 (c + 2)])
  simp only [Nat.add_zero] at hN
  rw [← hbotswap] at hN
  rw [hN] at hf2N
  cases hf2N
  obtain ⟨cO, botO, pdO⟩ := stO
  simp only at hpd hsO hsN ⊢
  subst hpd
  have hold := stateSum_renumber x y (rawLinkP (pd1 ++ [stepX s a3 b3 c] ++ [stepX t a2 b2 (c + 2)] ++ pd2)
    botO.zipIdx) (swap2_inj c).injOn (WF_rawLinkP _ _)
  rw [hsN, hsO, ← hold, renumber_rawLinkP]
  have hzip : (botO.zipIdx).map (pmap (swap2 c)) = (botO.map (swap2 c)).zipIdx := by
    rw [List.zipIdx_map]
    apply List.map_congr_left
    intro p hp
    have hlen : botO.length = n := by
      have := C18.cinv_foldl n _ _ _ (C18.cinv_init n) hfO; exact this.len
    have : p.2 < c := by
      have := (List.mem_zipIdx (x := p.1) (i := p.2) (k := 0) hp).2.1
      have := hI1.le; omega
    simp only [pmap, Prod.map, id, swap2_lt c _ this]
  have v1 : swap2 c c = c + 2 := by simp [swap2]
  have v2 : swap2 c (c + 1) = c + 2 + 1 := by simp [swap2]
  have v3 : swap2 c (c + 2) = c := by simp [swap2]
  have v4 : swap2 c (c + 2 + 1) = c + 1 := by unfold swap2; rw [if_neg (by omega), if_neg (by omega), if_neg (by omega), if_pos (by omega)]
  have hX1 : map4 (swap2 c) (stepX s a3 b3 c) = stepX s a3 b3 (c + 2) := by
    unfold stepX; split <;> simp only [map4, swap2_lt c _ hac, swap2_lt c _ hbc, v1, v2]
  have hX2 : map4 (swap2 c) (stepX t a2 b2 (c + 2)) = stepX t a2 b2 c := by
    unfold stepX; split <;> simp only [map4, swap2_lt c _ ha'c, swap2_lt c _ hb'c, v3, v4]
  have hpdm : (pd1 ++ [stepX s a3 b3 c] ++ [stepX t a2 b2 (c + 2)] ++ pd2).map (map4 (swap2 c))
      = pd1 ++ [stepX s a3 b3 (c + 2), stepX t a2 b2 c] ++ pd2.map (map4 (swap2 c)) := by
    simp only [List.map_append, List.map_cons, hX1, hX2, List.append_assoc, List.cons_append,
      List.nil_append]
    rw [map4_fix _ pd1 (fun z hz => swap2_lt c z (hpdlt z hz))]
  rw [hpdm, hzip]
  refine stateSum_perm' x y (WF_rawLinkP _ _) ?_
  have := rawLinkP_perm_swap pd1 (pd2.map (map4 (swap2 c))) (stepX t a2 b2 c) (stepX s a3 b3 (c + 2))
    ((botO.map (swap2 c)).zipIdx)
  simpa [List.append_assoc] using this

end Yuiv.C04Inv
