import Yuiv.Gen.SpVecFn
set_option linter.unusedSectionVars false
set_option linter.unusedSimpArgs false
/-
Helper lemmas for `Yuiv/Props/C13GenV.lean` (no property theorem here).

`Yuiv.GenSpVec.*` is GENERATED from `/repo/yui-matrix/src/sparse/sp_vec.rs` by `tools/rs2lean_fn.py fn:spvec`;
`C13.SpVec.*` (`Yuiv/Model/C13.lean`) is the hand-written model.  Same representation on both sides.
-/
namespace Yuiv.C13GenV
open Yuiv Res Yuiv.Rust Yuiv.C13

variable {R : Type} [Zero R] [One R] [Add R] [Mul R] [Neg R] [DecidableEq R]

theorem assert_true : Res.assert true = ok () := rfl
theorem assert_false : Res.assert false = (.panic : Res Unit) := rfl
theorem pure_eq_ok {β} (a : β) : (pure a : Res β) = ok a := rfl
theorem bind_congr' {α β} (x : Res α) {f g : α → Res β} (h : ∀ a, f a = g a) : (x >>= f) = (x >>= g) := by
  cases x <;> simp [h] <;> rfl
theorem bind_assoc' {β γ δ} (x : Res β) (f : β → Res γ) (g : γ → Res δ) :
    ((x >>= f) >>= g) = (x >>= fun a => f a >>= g) := by cases x <;> rfl

theorem vec_roundtrip (v : SpVec R) : Sp.vec_of_inner (Sp.vec_inner v) = v := by cases v; rfl

/-- `v.iter()`: the stored entries -/
theorem iter_eq (v : SpVec R) : GenSpVec.SpVec.iter v = v.ents := by
  unfold GenSpVec.SpVec.iter Sp.iter Sp.vec_inner C13.SpVec.toMat C13.SpMat.triplets
  simp only [tripsFrom, List.append_nil, List.map_map]
  have : (GenSpVec.SpVec.iter_closure1 (R := R) ∘ fun p : Nat × R => (p.1, 0, p.2)) = id := by funext p; rfl
  rw [this, List.map_id]

theorem iter_nz_eq (v : SpVec R) : GenSpVec.SpVec.iter_nz v = v.ents.filter (fun p => p.2 ≠ 0) := by
  unfold GenSpVec.SpVec.iter_nz
  rw [iter_eq]
  congr 1
  funext p
  simp [GenSpVec.SpVec.iter_nz_closure1]

theorem try_unwrap (m n : Nat) (offs rows : List Nat) (vals : List R) :
    Opt.unwrap (Sp.try_from_csc_data m n offs rows vals) = tryFromCsc m n offs rows vals := by
  unfold Sp.try_from_csc_data tryFromCsc
  by_cases h : offs.length = n + 1 ∧ offs.head? = some 0 ∧ offs.getLast? = some rows.length
      ∧ monotone offs = true ∧ vals.length = rows.length
      ∧ (splitLanes rows offs).all (fun l => l.all (· < m) && strictInc l) = true
  · rw [if_pos h]; rfl
  · rw [if_neg h]; rfl

theorem sorted_step (d : Nat) (acc : List Nat × List R) (p : Nat × R) :
    GenSpVec.SpVec.from_sorted_entries_closure1 d acc p =
      if decide (p.1 < d) = true then ok (acc.1 ++ [p.1], acc.2 ++ [p.2]) else Res.panic := by
  unfold GenSpVec.SpVec.from_sorted_entries_closure1
  by_cases h : p.1 < d
  · have hd : decide (p.1 < d) = true := by simp [h]
    simp only [hd, assert_true, bind_ok, if_true]
  · have hd : decide (p.1 < d) = false := by simp [h]
    simp only [hd, assert_false, Bool.false_eq_true, if_false]; rfl

/-- the fold of `from_sorted_entries` -/
theorem sorted_fold (d : Nat) : ∀ (es : List (Nat × R)) (acc : List Nat × List R),
    List.foldlM (GenSpVec.SpVec.from_sorted_entries_closure1 (R := R) d) acc es =
      if es.all (fun p => decide (p.1 < d)) = true then ok (acc.1 ++ es.map (·.1), acc.2 ++ es.map (·.2)) else Res.panic := by
  intro es
  induction es with
  | nil => intro acc; simp [List.foldlM]
  | cons p es ih =>
    intro acc
    rw [List.foldlM_cons, List.all_cons, sorted_step]
    cases hd : decide (p.1 < d)
    · simp only [Bool.false_eq_true, if_false, Bool.false_and]; rfl
    · simp only [if_true, bind_ok, Bool.true_and]
      rw [ih]
      simp only [List.map_cons, List.append_assoc, List.cons_append, List.nil_append]

/-- the `filter_map` of `extract` is the model's `mapEnts` -/
theorem extract_map (f : Nat → Res (Option Nat)) : ∀ es : List (Nat × R),
    Iter.filterMapM (GenSpVec.SpVec.extract_closure1 (R := R) f) es = mapEnts f es := by
  intro es
  induction es with
  | nil => rfl
  | cons p es ih =>
    obtain ⟨i, a⟩ := p
    rw [Iter.filterMapM, mapEnts, ih]
    have hs : GenSpVec.SpVec.extract_closure1 f (i, a) = (f i >>= fun r => ok (r.map fun i' => (i', a))) := by
      unfold GenSpVec.SpVec.extract_closure1
      refine bind_congr' _ (fun r => ?_)
      cases r <;> rfl
    rw [hs]
    cases f i with
    | ok r =>
      simp only [bind_ok]
      refine bind_congr' _ (fun rest => ?_)
      cases r <;> rfl
    | panic => rfl
    | err => rfl

/-- the loop of `split` -/
theorem split_loop (k : Nat) : ∀ (xs e1 e2 : List (Nat × R)),
    GenSpVec.SpVec.split_loop1 xs k e1 e2 =
      ok (e1 ++ xs.filter (fun p => p.1 < k), e2 ++ (xs.filter (fun p => !(p.1 < k))).map (fun p => (p.1 - k, p.2))) := by
  intro xs
  induction xs with
  | nil => intro e1 e2; simp [GenSpVec.SpVec.split_loop1]
  | cons p xs ih =>
    intro e1 e2
    rw [GenSpVec.SpVec.split_loop1]
    by_cases h : p.1 < k
    · have hd : decide (p.1 < k) = true := by simp [h]
      simp only [hd, if_true, bind_ok]
      rw [ih]
      simp [List.filter_cons, h]
    · have hd : decide (p.1 < k) = false := by simp [h]
      have hk : k ≤ p.1 := by omega
      simp only [hd, Bool.false_eq_true, if_false, U64.sub, hk, if_true, bind_ok]
      rw [ih]
      simp [List.filter_cons, h]

/-- the step of the model's fold in `toDense` -/
def tdStep (acc : Res (List R)) (p : Nat × R) : Res (List R) := do
  let l ← acc
  if p.2 = 0 then ok l else if p.1 < l.length then ok (l.set p.1 p.2) else Res.panic

theorem td_panic : ∀ xs : List (Nat × R), xs.foldl tdStep (Res.panic : Res (List R)) = Res.panic := by
  intro xs; induction xs with
  | nil => rfl
  | cons p xs ih => simpa [List.foldl_cons, tdStep] using ih

theorem to_dense_loop : ∀ (xs : List (Nat × R)) (l : List R),
    GenSpVec.SpVec.to_dense_loop1 (xs.filter (fun p => p.2 ≠ 0)) l = xs.foldl tdStep (ok l) := by
  intro xs
  induction xs with
  | nil => intro l; rfl
  | cons p xs ih =>
    intro l
    rw [List.foldl_cons]
    by_cases h : p.2 = 0
    · have hf : (p :: xs).filter (fun p => decide (p.2 ≠ 0)) = xs.filter (fun p => decide (p.2 ≠ 0)) :=
        List.filter_cons_of_neg (by simp [h])
      rw [hf, ih]
      simp [tdStep, h]
    · have hf : (p :: xs).filter (fun p => decide (p.2 ≠ 0)) = p :: xs.filter (fun p => decide (p.2 ≠ 0)) :=
        List.filter_cons_of_pos (by simp [h])
      rw [hf, GenSpVec.SpVec.to_dense_loop1]
      by_cases hl : p.1 < l.length
      · simp only [Sp.list_set, hl, if_true, bind_ok]
        rw [ih]
        simp [tdStep, h, hl]
      · simp only [Sp.list_set, hl, if_false]
        have : tdStep (ok l) p = Res.panic := by simp [tdStep, h, hl]
        rw [this, td_panic]
        rfl

theorem enum_zip {β : Type} (l : List β) : ∀ k, Sp.enumFrom k l = (l.zipIdx k).map (fun x => (x.2, x.1)) := by
  induction l with
  | nil => intro k; rfl
  | cons a l ih => intro k; simp [Sp.enumFrom, List.zipIdx_cons, ih]

end Yuiv.C13GenV
