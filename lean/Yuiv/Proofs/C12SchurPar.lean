import Yuiv.Model.C12SchurPar
import Yuiv.Gen.SchurFn
import Yuiv.Proofs.C08Gen
/-
C12 — helper lemmas for the schedule independence of rayon's indexed collect (`Model/C12SchurPar.lean`) and its
instance for `compute_schur`.  Core Lean only.
-/
set_option linter.unusedSimpArgs false
namespace Yuiv.C12Par
open Yuiv Res

/-- a schedule of `0..n`: every index is handed to exactly one task (any worker, any order) -/
def ValidSched (n : Nat) (sched : List (Nat × Nat)) : Prop := (sched.map (·.2)).Perm (List.range n)

instance (n : Nat) (sched : List (Nat × Nat)) : Decidable (ValidSched n sched) := by
  unfold ValidSched; exact inferInstance

theorem readSlots_map_some {β : Type} (l : List β) : readSlots (l.map some) = ok l := by
  induction l with
  | nil => rfl
  | cons v l ih => simp [readSlots, ih]

theorem readSlots_none {β : Type} (l : List (Option β)) (h : none ∈ l) : readSlots l = panic := by
  induction l with
  | nil => simp at h
  | cons o l ih =>
    cases o with
    | none => rfl
    | some v =>
      have : none ∈ l := by simpa using h
      simp [readSlots, ih this]

/-- the events never fail on a duplicate-free list of still unwritten indices; every slot written holds the value `f j`
of ITS index whatever the worker's state was (`I`: an invariant of the private states under which the output of the column
function does not depend on the state), and exactly the scheduled slots get written -/
theorem runEvents_spec {σ β : Type} (g : σ → Nat → σ × β) (f : Nat → β) (I : σ → Prop)
    (hI : ∀ s j, I s → I (g s j).1 ∧ (g s j).2 = f j) :
    ∀ (evs : List (Nat × Nat)) (st : Nat → σ) (slots : Array (Option β)),
      (∀ w, I (st w)) → (∀ j v, slots[j]? = some (some v) → v = f j) →
      (evs.map (·.2)).Nodup → (∀ e ∈ evs, slots[e.2]? = some none) →
      ∃ slots', runEvents g st slots evs = ok slots' ∧ slots'.size = slots.size ∧
        (∀ j v, slots'[j]? = some (some v) → v = f j) ∧
        (∀ j, ((∃ v, slots[j]? = some (some v)) ∨ j ∈ evs.map (·.2)) → ∃ v, slots'[j]? = some (some v)) ∧
        (∀ j, j ∉ evs.map (·.2) → slots'[j]? = slots[j]?) := by
  intro evs
  induction evs with
  | nil =>
    intro st slots _ hv _ _
    exact ⟨slots, rfl, rfl, hv, fun j h => h.elim id (fun h => by simp at h), fun _ _ => rfl⟩
  | cons e evs ih =>
    intro st slots hst hv hnd hfree
    obtain ⟨w, j⟩ := e
    have hj : slots[j]? = some none := hfree (w, j) (List.mem_cons_self ..)
    have hjlt : j < slots.size := by
      rcases Nat.lt_or_ge j slots.size with h | h
      · exact h
      · rw [Array.getElem?_eq_none h] at hj; cases hj
    simp only [List.map_cons, List.nodup_cons] at hnd
    have hget : ∀ k, (slots.setIfInBounds j (some (g (st w) j).2))[k]? =
        if j = k then some (some (g (st w) j).2) else slots[k]? := by
      intro k; rw [Array.getElem?_setIfInBounds]; simp [hjlt]
    obtain ⟨slots', e', hsz, hv', hw', hu'⟩ := ih (fun w' => if w' = w then (g (st w) j).1 else st w')
      (slots.setIfInBounds j (some (g (st w) j).2))
      (by intro w'; by_cases h : w' = w
          · simp only [h, if_true]; exact (hI _ j (hst w)).1
          · simp only [h, if_false]; exact hst w')
      (by intro k v hk
          rw [hget] at hk
          by_cases h : j = k
          · simp only [h, if_true, Option.some.injEq] at hk
            rw [← hk, ← h]; exact (hI _ j (hst w)).2
          · simp only [h, if_false] at hk; exact hv k v hk)
      hnd.2
      (by intro e he
          rw [hget]
          have : j ≠ e.2 := fun h => hnd.1 (h ▸ List.mem_map.2 ⟨e, he, rfl⟩)
          simp only [this, if_false]
          exact hfree e (List.mem_cons_of_mem _ he))
    refine ⟨slots', ?_, by rw [hsz, Array.size_setIfInBounds], hv', ?_, ?_⟩
    · rw [runEvents, hj]; exact e'
    rotate_left
    · intro k hk
      simp only [List.map_cons, List.mem_cons, not_or] at hk
      rw [hu' k hk.2, hget]
      have : j ≠ k := fun h => hk.1 h.symm
      simp [this]
    · intro k hk
      apply hw'
      by_cases h : j = k
      · left; rw [hget]; simp [h]
      · rcases hk with ⟨v, hk⟩ | hk
        · left; rw [hget]; simp only [h, if_false]; exact ⟨v, hk⟩
        · right
          simp only [List.map_cons, List.mem_cons] at hk
          rcases hk with hk | hk
          · exact absurd hk.symm h
          · exact hk

/-- SCHEDULE INDEPENDENCE with private worker state: under every valid schedule the collected vector is the sequential
`List.map f (List.range n)` -/
theorem parCollectSt_eq {σ β : Type} (g : σ → Nat → σ × β) (init : σ) (f : Nat → β) (I : σ → Prop)
    (h0 : I init) (hI : ∀ s j, I s → I (g s j).1 ∧ (g s j).2 = f j)
    (n : Nat) (sched : List (Nat × Nat)) (hs : ValidSched n sched) :
    parCollectSt g init n sched = ok ((List.range n).map f) := by
  have hnd : (sched.map (·.2)).Nodup := hs.nodup_iff.2 List.nodup_range
  obtain ⟨slots, e, hsz, hv, hw, _⟩ := runEvents_spec g f I hI sched (fun _ => init) (Array.replicate n none)
    (fun _ => h0) (by intro j v h; rw [Array.getElem?_replicate] at h; split at h <;> cases h) hnd
    (by intro e he
        have : e.2 < n := List.mem_range.1 (hs.mem_iff.1 (List.mem_map.2 ⟨e, he, rfl⟩))
        rw [Array.getElem?_replicate]; simp [this])
  have hsz' : slots.size = n := by rw [hsz, Array.size_replicate]
  have hlist : slots.toList = ((List.range n).map f).map some := by
    apply List.ext_getElem
    · simp [hsz']
    · intro k h1 h2
      have hk : k < n := by simpa [hsz'] using h1
      obtain ⟨v, hvk⟩ := hw k (Or.inr (hs.mem_iff.2 (List.mem_range.2 hk)))
      have hfv := hv k v hvk
      have h3 : slots[k]? = some slots.toList[k] := by
        rw [Array.getElem?_eq_getElem (by simpa using h1)]; simp
      rw [hvk] at h3
      simp only [Option.some.injEq] at h3
      rw [← h3, hfv]; simp
  rw [parCollectSt, e]
  show readSlots slots.toList = _
  rw [hlist, readSlots_map_some]

/-- a schedule that hands out distinct in-range indices but misses index `j`: the events succeed and slot `j` is
still unwritten at the end -/
theorem runEvents_missing {β : Type} (f : Nat → β) (n : Nat) (sched : List (Nat × Nat))
    (hnd : (sched.map (·.2)).Nodup) (hlt : ∀ e ∈ sched, e.2 < n) (j : Nat) (hj : j < n) (hmiss : j ∉ sched.map (·.2)) :
    ∃ slots, runEvents (fun (_ : Unit) j => ((), f j)) (fun _ => ()) (Array.replicate n none) sched = ok slots ∧
      none ∈ slots.toList := by
  obtain ⟨slots, e, hsz, _, _, hu⟩ := runEvents_spec (fun (_ : Unit) j => ((), f j)) f (fun _ => True)
    (fun _ _ _ => ⟨trivial, rfl⟩) sched (fun _ => ()) (Array.replicate n none) (fun _ => trivial)
    (by intro j v h; rw [Array.getElem?_replicate] at h; split at h <;> cases h) hnd
    (by intro e he; rw [Array.getElem?_replicate]; simp [hlt e he])
  refine ⟨slots, e, ?_⟩
  have h1 : slots[j]? = some none := by rw [hu j hmiss, Array.getElem?_replicate]; simp [hj]
  have hjs : j < slots.size := by rw [hsz, Array.size_replicate]; exact hj
  rw [Array.getElem?_eq_getElem hjs] at h1
  simp only [Option.some.injEq] at h1
  rw [← h1]
  simp

theorem schedOfParts_cols (parts : List (List Nat)) : ∀ w, (schedOfParts w parts).map (·.2) = parts.flatten := by
  induction parts with
  | nil => intro w; rfl
  | cons js rest ih => intro w; simp [schedOfParts, ih, List.map_map, Function.comp_def]

/-! ### the instance: `compute_schur` with the `multithread` feature -/

open Yuiv.Rust in
/-- `compute_schur`, `multithread` branch: the closure is the one `tools/rs2lean_fn.py` translates from schur.rs
(`GenSchur.Schur.compute_schur_closure1`, regenerated on every run), the iterator is rayon's indexed collect under the
schedule `sched`, the rest (`from_col_vecs`) is as in the generated sequential function -/
def computeSchurPar {α : Type} [C12.Scal α] (ainvb c d : C12.SpMat α) (sched : List (Nat × Nat)) :
    Res (C12.SpMat α) :=
  match parCollect (GenSchur.Schur.compute_schur_closure1 ainvb c d) (SM.shape d).2 sched with
  | .ok vecs => SM.from_col_vecs (SM.shape d).1 vecs
  | .panic => .panic
  | .err => .err

open Yuiv.Rust Yuiv.C12 in
/-- the translated sequential `compute_schur` is the hand model's `computeSchur` (same statement and proof as
`C08Gen.gen_compute_schur_eq`; repeated here so that this file depends on the text of `compute_schur` only, not on
the rest of schur.rs through `Props/C08Gen.lean`) -/
theorem gen_compute_schur_eq_model {α : Type} [C12.Scal α] (X C D : C12.SpMat α) (h : D.nrows ≤ C.nrows) :
    GenSchur.Schur.compute_schur X C D = ok (C12.computeSchur X C D) := by
  unfold GenSchur.Schur.compute_schur computeSchur SM.from_col_vecs
  simp only [SM.shape, Nat.sub_zero]
  have hd : ∀ j, (GenSchur.Schur.compute_schur_closure1 X C D j).dim = D.nrows := fun j => rfl
  have hall : (List.map (GenSchur.Schur.compute_schur_closure1 X C D) (List.range' 0 D.ncols)).all (fun v => v.dim == D.nrows) = true := by
    simp [hd]
  rw [if_pos hall]
  simp only [List.length_map, List.length_range', List.map_map, List.range_eq_range']
  congr 3
  apply List.map_congr_left
  intro j _
  show (SVec.sub (SM.col_vec D j) (SM.mul_vec C (SM.col_vec X j))).ents = _
  unfold SVec.sub SM.col_vec SM.mul_vec
  simp only [List.range_eq_range']
  apply List.map_congr_left
  intro i hi
  have hi' : i < C.nrows := by simp at hi; omega
  simp only [SVec.valAt, ← List.range_eq_range', C08Gen.find_dense _ _ _ hi']

end Yuiv.C12Par
