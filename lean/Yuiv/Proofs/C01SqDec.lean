import Yuiv.Proofs.C01SqMain
/-
C01Sq — a DECIDABLE per-face check (helper; the property theorems are in `Props/C01Sq.lean`).

`goodFace cs00 cs10 cs01 cs11 : Bool` reads the descriptors of the four edges of a face off the circle lists
(`descOf`, the same gone / born computation as `C02Mirror.edgeTerms`) and compares a handful of circle NAMES with the
commuting patterns of `C01SqPatA/B` (disjoint, same intermediate circles, 3→1, 1→3, Frobenius, genus), up to the order of
the two gone (born) names of each edge and up to exchanging the two paths.

  * `face_of_goodFace`           : `goodFace … = true → Face …`;
  * `square_commutes_decidable'`  : `goodFace … = true →` the two path sums of the reference's term lists agree;
  * `goodCube`, `faceComm_of_goodCube` : the check on all faces of a cube gives `FaceComm`, the hypothesis of
    `d_squared_zero_of_faces`.

The check is SOUND for arbitrary duplicate-free circle lists (no geometry needed); it is not claimed complete here (that
every face of the cube of a valid diagram passes is `face_of_sq` on the level of `Face`; on the level of `goodFace` it is
what the driver observes per instance).
-/
namespace Yuiv.C01Sq
open Yuiv Yuiv.KhRef Yuiv.C02Mirror

/-- the descriptor of the edge `cs → cs'` read off the gone/born circles (`none`: not a merge/split) -/
def descOf (cs cs' : Circ) : Option Edge :=
  let gone := goneOf cs cs'
  let born := goneOf cs' cs
  if gone.size == 2 && born.size == 1 then
    some (.merge cs[gone[0]!]! cs[gone[1]!]! cs'[born[0]!]!)
  else if gone.size == 1 && born.size == 2 then
    some (.split cs[gone[0]!]! cs'[born[0]!]! cs'[born[1]!]!)
  else none

theorem isEdge_descOf {cs cs' : Circ} (hP : Pair cs cs') {e : Edge} (h : descOf cs cs' = some e) :
    IsEdge cs cs' e := by
  unfold descOf at h
  simp only at h
  split at h
  · rename_i hc
    rw [Bool.and_eq_true, beq_iff_eq, beq_iff_eq] at hc
    cases h
    exact isEdge_merge hP (arr_two _ hc.1) (arr_one _ hc.2)
  · split at h
    · rename_i hc
      rw [Bool.and_eq_true, beq_iff_eq, beq_iff_eq] at hc
      cases h
      exact isEdge_split hP (arr_one _ hc.1) (arr_two _ hc.2)
    · cases h

/-- the edge descriptor and the one with the two gone (born) names exchanged -/
def variants : Edge → List Edge
  | .merge g0 g1 b => [.merge g0 g1 b, .merge g1 g0 b]
  | .split g b0 b1 => [.split g b0 b1, .split g b1 b0]

theorem isEdge_variant {cs cs' : Circ} {e v : Edge} (he : IsEdge cs cs' e) (hv : v ∈ variants e) :
    IsEdge cs cs' v := by
  cases e with
  | merge g0 g1 b =>
    have R : MergeRel cs cs' g0 g1 b := he
    simp only [variants, List.mem_cons, List.not_mem_nil, or_false] at hv
    rcases hv with rfl | rfl
    · exact R
    · exact R.swap
  | split g b0 b1 =>
    have R : MergeRel cs' cs b0 b1 g := he
    simp only [variants, List.mem_cons, List.not_mem_nil, or_false] at hv
    rcases hv with rfl | rfl
    · exact R
    · exact R.swap

/-- equality of descriptors, as a `Bool` -/
def eqE : Edge → Edge → Bool
  | .merge g0 g1 b, .merge g0' g1' b' => g0 == g0' && g1 == g1' && b == b'
  | .split g b0 b1, .split g' b0' b1' => g == g' && b0 == b0' && b1 == b1'
  | _, _ => false

theorem eq_of_eqE {e e' : Edge} (h : eqE e e' = true) : e = e' := by
  cases e <;> cases e' <;> simp only [eqE, Bool.and_eq_true, beq_iff_eq, Bool.false_eq_true] at h
  · obtain ⟨⟨rfl, rfl⟩, rfl⟩ := h; rfl
  · obtain ⟨⟨rfl, rfl⟩, rfl⟩ := h; rfl

/-! ### the patterns (argument order as in `Face`: `ea0 : 00 → 10`, `eb1 : 10 → 11`, `eb0 : 00 → 01`, `ea1 : 01 → 11`) -/

/-- the two crossings act on disjoint sets of circles: the same descriptor on parallel edges -/
def patDisj (ea0 eb1 eb0 ea1 : Edge) : Bool := eqE ea1 ea0 && eqE eb1 eb0

/-- same intermediate circle list: the same descriptors along both paths -/
def patSame (ea0 eb1 eb0 ea1 : Edge) : Bool := eqE eb0 ea0 && eqE ea1 eb1

/-- `A, B ↦ P`, `B, C ↦ Q`, then `P, C ↦ R` resp. `A, Q ↦ R` -/
def pat31 : Edge → Edge → Edge → Edge → Bool
  | .merge A B P, .merge P' C R, .merge B' C' Q, .merge A' Q' R' =>
    P' == P && B' == B && C' == C && A' == A && Q' == Q && R' == R
  | _, _, _, _ => false

/-- `R ↦ P, C`, `R ↦ A, Q`, then `P ↦ A, B` resp. `Q ↦ B, C` -/
def pat13 : Edge → Edge → Edge → Edge → Bool
  | .split R P C, .split P' A B, .split R' A' Q, .split Q' B' C' =>
    P' == P && R' == R && A' == A && Q' == Q && B' == B && C' == C
  | _, _, _, _ => false

/-- `C1, C2 ↦ P`, `C1 ↦ D1, D2`, then `P ↦ F, D2` resp. `D1, C2 ↦ F` -/
def patFrob : Edge → Edge → Edge → Edge → Bool
  | .merge C1 C2 P, .split P' F D2, .split C1' D1 D2', .merge D1' C2' F' =>
    P' == P && C1' == C1 && D2' == D2 && D1' == D1 && C2' == C2 && F' == F
  | _, _, _, _ => false

/-- `R ↦ P1, P2`, `R ↦ Q1, Q2`, then `P1, P2 ↦ R'` resp. `Q1, Q2 ↦ R'` -/
def pat11 : Edge → Edge → Edge → Edge → Bool
  | .split R P1 P2, .merge P1' P2' R', .split R2 Q1 Q2, .merge Q1' Q2' R2' =>
    P1' == P1 && P2' == P2 && R2 == R && Q1' == Q1 && Q2' == Q2 && R2' == R'
  | _, _, _, _ => false

/-- the two circle lists have the same members -/
def sameMem (cs cs' : Circ) : Bool := cs.all (fun c => cs'.contains c) && cs'.all (fun c => cs.contains c)

theorem sameMem_iff {cs cs' : Circ} (h : sameMem cs cs' = true) : ∀ c, c ∈ cs ↔ c ∈ cs' := by
  unfold sameMem at h
  rw [Bool.and_eq_true, Array.all_eq_true_iff_forall_mem, Array.all_eq_true_iff_forall_mem] at h
  intro c
  constructor
  · intro hc; simpa using h.1 c hc
  · intro hc; simpa using h.2 c hc

/-- one orientation of the check -/
def goodFace1 (cs00 cs10 cs01 cs11 : Circ) : Bool :=
  match descOf cs00 cs10, descOf cs10 cs11, descOf cs00 cs01, descOf cs01 cs11 with
  | some ea0, some eb1, some eb0, some ea1 =>
    (variants ea0).any fun v0 => (variants eb1).any fun v1 => (variants eb0).any fun v2 => (variants ea1).any fun v3 =>
      patDisj v0 v1 v2 v3 || pat31 v0 v1 v2 v3 || pat13 v0 v1 v2 v3 || patFrob v0 v1 v2 v3 || pat11 v0 v1 v2 v3 ||
        (sameMem cs10 cs01 && patSame v0 v1 v2 v3)
  | _, _, _, _ => false

/-- executable check: the face `cs00 → cs10 → cs11`, `cs00 → cs01 → cs11` matches one of the commuting patterns
(disjoint / same intermediate circles / 3→1 / 1→3 / Frobenius in both orientations / genus), up to the order of the
two gone resp. born names of each edge -/
def goodFace (cs00 cs10 cs01 cs11 : Circ) : Bool :=
  goodFace1 cs00 cs10 cs01 cs11 || goodFace1 cs00 cs01 cs10 cs11

/-! ### soundness of the patterns -/

section pats
variable {cs00 cs10 cs01 cs11 : Circ} {ea0 eb1 eb0 ea1 : Edge}

theorem face_of_patDisj (h0 : IsEdge cs00 cs10 ea0) (h1 : IsEdge cs10 cs11 eb1) (h2 : IsEdge cs00 cs01 eb0)
    (h3 : IsEdge cs01 cs11 ea1) (h : patDisj ea0 eb1 eb0 ea1 = true) : Face cs00 cs10 cs01 cs11 := by
  unfold patDisj at h
  rw [Bool.and_eq_true] at h
  obtain ⟨e1, e2⟩ := h
  have e1 := eq_of_eqE e1
  have e2 := eq_of_eqE e2
  subst e1 e2
  exact ⟨ea1, eb1, eb1, ea1, h0, h1, h2, h3,
    fun h t f f'' => face_disjoint h t cs00 cs10 cs01 cs11 ea1 eb1 h0 h2 h1 h3 f f''⟩

theorem face_of_patSame (h0 : IsEdge cs00 cs10 ea0) (h1 : IsEdge cs10 cs11 eb1) (h2 : IsEdge cs00 cs01 eb0)
    (h3 : IsEdge cs01 cs11 ea1) (hm : sameMem cs10 cs01 = true) (h : patSame ea0 eb1 eb0 ea1 = true) :
    Face cs00 cs10 cs01 cs11 := by
  unfold patSame at h
  rw [Bool.and_eq_true] at h
  obtain ⟨e1, e2⟩ := h
  have e1 := eq_of_eqE e1
  have e2 := eq_of_eqE e2
  subst e1 e2
  exact ⟨eb0, ea1, eb0, ea1, h0, h1, h2, h3,
    fun h t f f'' => face_same h t cs10 cs01 cs11 eb0 ea1 (sameMem_iff hm) f f''⟩

theorem face_of_pat31 (h0 : IsEdge cs00 cs10 ea0) (h1 : IsEdge cs10 cs11 eb1) (h2 : IsEdge cs00 cs01 eb0)
    (h3 : IsEdge cs01 cs11 ea1) (h : pat31 ea0 eb1 eb0 ea1 = true) : Face cs00 cs10 cs01 cs11 := by
  cases ea0 <;> cases eb1 <;> cases eb0 <;> cases ea1 <;>
    simp only [pat31, Bool.and_eq_true, beq_iff_eq, Bool.false_eq_true] at h
  obtain ⟨⟨⟨⟨⟨rfl, rfl⟩, rfl⟩, rfl⟩, rfl⟩, rfl⟩ := h
  exact ⟨_, _, _, _, h0, h1, h2, h3,
    fun h t f f'' => face_31 h t cs00 cs10 cs01 cs11 _ _ _ _ _ _ h0 h2 h1 h3 f f''⟩

theorem face_of_pat13 (h0 : IsEdge cs00 cs10 ea0) (h1 : IsEdge cs10 cs11 eb1) (h2 : IsEdge cs00 cs01 eb0)
    (h3 : IsEdge cs01 cs11 ea1) (h : pat13 ea0 eb1 eb0 ea1 = true) : Face cs00 cs10 cs01 cs11 := by
  cases ea0 <;> cases eb1 <;> cases eb0 <;> cases ea1 <;>
    simp only [pat13, Bool.and_eq_true, beq_iff_eq, Bool.false_eq_true] at h
  obtain ⟨⟨⟨⟨⟨rfl, rfl⟩, rfl⟩, rfl⟩, rfl⟩, rfl⟩ := h
  exact ⟨_, _, _, _, h0, h1, h2, h3,
    fun h t f f'' => face_13 h t cs00 cs10 cs01 cs11 _ _ _ _ _ _ h0 h2 h1 h3 f f''⟩

theorem face_of_patFrob (h0 : IsEdge cs00 cs10 ea0) (h1 : IsEdge cs10 cs11 eb1) (h2 : IsEdge cs00 cs01 eb0)
    (h3 : IsEdge cs01 cs11 ea1) (h : patFrob ea0 eb1 eb0 ea1 = true) : Face cs00 cs10 cs01 cs11 := by
  cases ea0 <;> cases eb1 <;> cases eb0 <;> cases ea1 <;>
    simp only [patFrob, Bool.and_eq_true, beq_iff_eq, Bool.false_eq_true] at h
  obtain ⟨⟨⟨⟨⟨rfl, rfl⟩, rfl⟩, rfl⟩, rfl⟩, rfl⟩ := h
  exact ⟨_, _, _, _, h0, h1, h2, h3,
    fun h t f f'' => face_frob h t cs00 cs10 cs01 cs11 _ _ _ _ _ _ h0 h2 h1 h3 f f''⟩

theorem face_of_pat11 (h0 : IsEdge cs00 cs10 ea0) (h1 : IsEdge cs10 cs11 eb1) (h2 : IsEdge cs00 cs01 eb0)
    (h3 : IsEdge cs01 cs11 ea1) (h : pat11 ea0 eb1 eb0 ea1 = true) : Face cs00 cs10 cs01 cs11 := by
  cases ea0 <;> cases eb1 <;> cases eb0 <;> cases ea1 <;>
    simp only [pat11, Bool.and_eq_true, beq_iff_eq, Bool.false_eq_true] at h
  obtain ⟨⟨⟨⟨⟨rfl, rfl⟩, rfl⟩, rfl⟩, rfl⟩, rfl⟩ := h
  exact ⟨_, _, _, _, h0, h1, h2, h3,
    fun h t f f'' => face_11 h t cs00 cs10 cs01 cs11 _ _ _ _ _ _ h0 h2 h1 h3 f f''⟩

end pats

theorem face_of_goodFace1 {cs00 cs10 cs01 cs11 : Circ} (p0010 : Pair cs00 cs10) (p1011 : Pair cs10 cs11)
    (p0001 : Pair cs00 cs01) (p0111 : Pair cs01 cs11) (h : goodFace1 cs00 cs10 cs01 cs11 = true) :
    Face cs00 cs10 cs01 cs11 := by
  unfold goodFace1 at h
  split at h
  · rename_i ea0 eb1 eb0 ea1 d0 d1 d2 d3
    rw [List.any_eq_true] at h
    obtain ⟨v0, m0, h⟩ := h
    rw [List.any_eq_true] at h
    obtain ⟨v1, m1, h⟩ := h
    rw [List.any_eq_true] at h
    obtain ⟨v2, m2, h⟩ := h
    rw [List.any_eq_true] at h
    obtain ⟨v3, m3, h⟩ := h
    have h0 := isEdge_variant (isEdge_descOf p0010 d0) m0
    have h1 := isEdge_variant (isEdge_descOf p1011 d1) m1
    have h2 := isEdge_variant (isEdge_descOf p0001 d2) m2
    have h3 := isEdge_variant (isEdge_descOf p0111 d3) m3
    simp only [Bool.or_eq_true, Bool.and_eq_true] at h
    rcases h with ((((h | h) | h) | h) | h) | ⟨hm, h⟩
    · exact face_of_patDisj h0 h1 h2 h3 h
    · exact face_of_pat31 h0 h1 h2 h3 h
    · exact face_of_pat13 h0 h1 h2 h3 h
    · exact face_of_patFrob h0 h1 h2 h3 h
    · exact face_of_pat11 h0 h1 h2 h3 h
    · exact face_of_patSame h0 h1 h2 h3 hm h
  · cases h

theorem face_of_goodFace {cs00 cs10 cs01 cs11 : Circ} (p0010 : Pair cs00 cs10) (p1011 : Pair cs10 cs11)
    (p0001 : Pair cs00 cs01) (p0111 : Pair cs01 cs11) (h : goodFace cs00 cs10 cs01 cs11 = true) :
    Face cs00 cs10 cs01 cs11 := by
  unfold goodFace at h
  rw [Bool.or_eq_true] at h
  rcases h with h | h
  · exact face_of_goodFace1 p0010 p1011 p0001 p0111 h
  · exact (face_of_goodFace1 p0001 p0111 p0010 p1011 h).symm

/-- THE DECIDABLE SQUARE CHECK -/
theorem square_commutes_decidable' {cs00 cs10 cs01 cs11 : Circ} (p0010 : Pair cs00 cs10) (p1011 : Pair cs10 cs11)
    (p0001 : Pair cs00 cs01) (p0111 : Pair cs01 cs11) (h : goodFace cs00 cs10 cs01 cs11 = true)
    (hh t : Int) (m m'' : Nat) :
    pathSum hh t cs00 cs10 cs11 m m'' = pathSum hh t cs00 cs01 cs11 m m'' :=
  pathSum_comm_of_face (face_of_goodFace p0010 p1011 p0001 p0111 h) p0010 p1011 p0001 p0111 hh t m m''

/-- all faces of a cube pass the check -/
def goodCube (c : Cube) : Bool :=
  (List.range (2 ^ c.n)).all fun s => (List.range c.n).all fun a => (List.range c.n).all fun b =>
    (a == b || s.testBit a || s.testBit b) ||
      goodFace c.circ[s]! c.circ[s ||| 1 <<< a]! c.circ[s ||| 1 <<< b]! c.circ[(s ||| 1 <<< a) ||| 1 <<< b]!

theorem faceComm_of_goodCube (c : Cube) (p : Params)
    (hP : ∀ s s', s < 2 ^ c.n → s' < 2 ^ c.n → Pair c.circ[s]! c.circ[s']!)
    (h : goodCube c = true) : FaceComm c p := by
  intro s a b hs ha hb hab hba hbb m m''
  unfold goodCube at h
  rw [List.all_eq_true] at h
  have h := h s (List.mem_range.2 hs)
  rw [List.all_eq_true] at h
  have h := h a (List.mem_range.2 ha)
  rw [List.all_eq_true] at h
  have h := h b (List.mem_range.2 hb)
  have hne : (a == b) = false := by simpa using hab
  rw [hne, hba, hbb] at h
  simp only [Bool.or_self, Bool.false_or] at h
  have hs10 := or_bit_lt _ s a hs ha
  have hs01 := or_bit_lt _ s b hs hb
  have hs11 := or_bit_lt _ _ b hs10 hb
  exact square_commutes_decidable' (hP _ _ hs hs10) (hP _ _ hs10 hs11) (hP _ _ hs hs01) (hP _ _ hs01 hs11) h
    p.h p.t m m''

/-! ### non-vacuity -/

/-- three circles, two merges sharing the middle one (pattern 3→1) -/
example : goodFace #[#[1], #[2], #[3]] #[#[1, 2], #[3]] #[#[1], #[2, 3]] #[#[1, 2, 3]] = true := by decide +kernel

/-- a "face" that does NOT commute (merge `1,2` then split it again vs. merge `2,3` then split it again) is rejected -/
example : goodFace #[#[1], #[2], #[3]] #[#[1, 2], #[3]] #[#[1], #[2, 3]] #[#[1], #[2], #[3]] = false := by decide +kernel

/-- every pattern occurs: disjoint, same intermediate list, Frobenius (both orientations), genus, 1→3 -/
example :
    goodFace #[#[1], #[2], #[3], #[4]] #[#[1, 2], #[3], #[4]] #[#[1], #[2], #[3, 4]] #[#[1, 2], #[3, 4]] = true ∧
    goodFace #[#[1], #[2]] #[#[1, 2]] #[#[1, 2]] #[#[1], #[2]] = true ∧
    goodFace #[#[1, 2], #[3]] #[#[1, 2, 3]] #[#[1], #[2], #[3]] #[#[1, 3], #[2]] = true ∧
    goodFace #[#[1, 2], #[3]] #[#[1], #[2], #[3]] #[#[1, 2, 3]] #[#[1, 3], #[2]] = true ∧
    goodFace #[#[1, 2, 3, 4]] #[#[1, 2], #[3, 4]] #[#[1, 4], #[2, 3]] #[#[1, 2, 3, 4]] = true ∧
    goodFace #[#[1, 2, 3]] #[#[1, 2], #[3]] #[#[1], #[2, 3]] #[#[1], #[2], #[3]] = true := by decide +kernel

/-- a one-face cube (state `s = a + 2 b`) passes / fails the cube check -/
example : goodCube ⟨2, #[#[#[1], #[2], #[3]], #[#[1, 2], #[3]], #[#[1], #[2, 3]], #[#[1, 2, 3]]], none⟩ = true ∧
    goodCube ⟨2, #[#[#[1], #[2], #[3]], #[#[1, 2], #[3]], #[#[1], #[2, 3]], #[#[1], #[2], #[3]]], none⟩ = false := by
  decide +kernel

end Yuiv.C01Sq
