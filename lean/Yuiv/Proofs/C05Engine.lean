import Yuiv.Model.C05Engine
import Mathlib.Data.List.Nodup
import Mathlib.Data.List.ProdSigma
/-
C05 (engine) — spec definitions and helper lemmas about the graph layer of `Yuiv/Model/C05Engine.lean`
(`Cx E` with an arbitrary record `EdgeOps E`): association-list lemmas, the well-formedness invariant `WF`,
the lookup-level description of `eliminate`, `renameKey`, `duplicateKey`, `deloopWith`, and preservation of `WF`
by every operation.  The property theorems are in `Yuiv/Props/C05Engine.lean`.
-/
namespace Yuiv.C05.Engine
open Yuiv Yuiv.C05 Yuiv.C05.Tng

/-! ### `Res` and `mapMRes` -/

theorem mapMRes_cons_ok {α β} (f : α → Res β) (a : α) (l : List α) (r : List β) :
    mapMRes f (a :: l) = .ok r ↔ ∃ b bs, f a = .ok b ∧ mapMRes f l = .ok bs ∧ r = b :: bs := by
  cases hfa : f a <;> cases hl : mapMRes f l <;> simp [mapMRes, hfa, hl, eq_comm]

/-- pointwise description of a successful `mapMRes` -/
theorem mapMRes_ok_forall₂ {α β} (f : α → Res β) : ∀ (l : List α) (r : List β), mapMRes f l = .ok r →
    List.Forall₂ (fun a b => f a = .ok b) l r
  | [], r, h => by simp [mapMRes] at h; subst h; exact .nil
  | a :: l, r, h => by
    obtain ⟨b, bs, hb, hbs, rfl⟩ := (mapMRes_cons_ok f a l r).1 h
    exact .cons hb (mapMRes_ok_forall₂ f l bs hbs)

theorem mapMRes_ok_mem {α β} (f : α → Res β) (l : List α) (r : List β) (h : mapMRes f l = .ok r) :
    ∀ b ∈ r, ∃ a ∈ l, f a = .ok b := by
  have := mapMRes_ok_forall₂ f l r h
  clear h
  induction this with
  | nil => simp
  | cons hab _ ih =>
    intro b hb
    rcases List.mem_cons.1 hb with rfl | hb
    · exact ⟨_, List.mem_cons_self, hab⟩
    · obtain ⟨a, ha, hf⟩ := ih _ hb
      exact ⟨a, List.mem_cons_of_mem _ ha, hf⟩

theorem mapMRes_ok_mem' {α β} (f : α → Res β) (l : List α) (r : List β) (h : mapMRes f l = .ok r) :
    ∀ a ∈ l, ∃ b ∈ r, f a = .ok b := by
  have := mapMRes_ok_forall₂ f l r h
  clear h
  induction this with
  | nil => simp
  | cons hab _ ih =>
    intro a ha
    rcases List.mem_cons.1 ha with rfl | ha
    · exact ⟨_, List.mem_cons_self, hab⟩
    · obtain ⟨b, hb, hf⟩ := ih _ ha
      exact ⟨b, List.mem_cons_of_mem _ hb, hf⟩

/-- if every successful value of `f a` has `g`-image `k a`, the images of the results are the `k`-images of the inputs -/
theorem mapMRes_ok_map {α β γ} (f : α → Res β) (g : β → γ) (k : α → γ)
    (hk : ∀ a b, f a = .ok b → g b = k a) (l : List α) (r : List β) (h : mapMRes f l = .ok r) :
    r.map g = l.map k := by
  have := mapMRes_ok_forall₂ f l r h
  clear h
  induction this with
  | nil => rfl
  | cons hab _ ih => simp [hk _ _ hab, ih]

/-! ### association lists -/

section assoc
variable {α β : Type} [BEq α] [LawfulBEq α]

theorem lookup_filter_key (P : α → Bool) (l : List (α × β)) (a : α) :
    (l.filter (fun e => P e.1)).lookup a = if P a then l.lookup a else none := by
  induction l with
  | nil => simp
  | cons e l ih =>
    obtain ⟨k, v⟩ := e
    by_cases hk : a = k
    · subst hk
      by_cases hp : P a <;> simp [List.filter_cons, hp, List.lookup_cons, ih]
    · have : (a == k) = false := by simpa using hk
      by_cases hp : P k <;> simp [List.filter_cons, hp, List.lookup_cons, this, ih]

theorem lookup_isSome_iff_mem (l : List (α × β)) (a : α) : (l.lookup a).isSome ↔ a ∈ l.map (·.1) := by
  simp only [List.lookup_isSome_iff, beq_iff_eq, List.mem_map]
  constructor
  · rintro ⟨p, hp, rfl⟩; exact ⟨p, hp, rfl⟩
  · rintro ⟨p, hp, rfl⟩; exact ⟨p, hp, rfl⟩

theorem mem_of_lookup (l : List (α × β)) (a : α) (b : β) (h : l.lookup a = some b) : (a, b) ∈ l := by
  induction l with
  | nil => simp at h
  | cons e l ih =>
    obtain ⟨k, v⟩ := e
    by_cases hk : a = k
    · subst hk; simp at h; subst h; exact List.mem_cons_self
    · have : (a == k) = false := by simpa using hk
      simp [List.lookup_cons, this] at h
      exact List.mem_cons_of_mem _ (ih h)

theorem lookup_of_mem_nodup (l : List (α × β)) (hn : (l.map (·.1)).Nodup) (a : α) (b : β) (h : (a, b) ∈ l) :
    l.lookup a = some b := by
  induction l with
  | nil => simp at h
  | cons e l ih =>
    obtain ⟨k, v⟩ := e
    simp only [List.map_cons, List.nodup_cons] at hn
    rcases List.mem_cons.1 h with h1 | h1
    · cases h1; simp
    · have hne : a ≠ k := by
        rintro rfl
        exact hn.1 (List.mem_map.2 ⟨(a, b), h1, rfl⟩)
      have : (a == k) = false := by simpa using hne
      simp [List.lookup_cons, this, ih hn.2 h1]

theorem lookup_none_of_not_mem (l : List (α × β)) (a : α) (h : a ∉ l.map (·.1)) : l.lookup a = none := by
  rcases hl : l.lookup a with _ | b
  · rfl
  · exact absurd (List.mem_map.2 ⟨(a, b), mem_of_lookup l a b hl, rfl⟩) h

end assoc

/-! ### well-formedness -/

/-- the graph-level invariant of a tangle complex (the clause "the boundary tangles of every cobordism are the
tangles of its end vertices" is not part of it: it is evaluated per instance by `Cx.wfCheck`) -/
structure WF {E : Type} (ops : EdgeOps E) (cx : Cx E) : Prop where
  /-- keys are unique -/
  keys : (cx.verts.map (·.1)).Nodup
  /-- at most one edge between two vertices -/
  edges : (cx.edges.map (·.1)).Nodup
  /-- every edge joins existing vertices -/
  ends : ∀ e ∈ cx.edges, e.1.1 ∈ cx.verts.map (·.1) ∧ e.1.2 ∈ cx.verts.map (·.1)
  /-- … of consecutive homological degree (`weight` + `deg_shift.0`) -/
  deg : ∀ e ∈ cx.edges, e.1.2.weight = e.1.1.weight + 1
  /-- no zero label is stored -/
  nonzero : ∀ e ∈ cx.edges, ops.isZero e.2 = false

section graph
variable {E : Type}

theorem hasKey_iff (cx : Cx E) (k : TKey) : cx.hasKey k = true ↔ k ∈ cx.verts.map (·.1) := by
  unfold Cx.hasKey Cx.tng?
  exact lookup_isSome_iff_mem cx.verts k

theorem hasKey_false_iff (cx : Cx E) (k : TKey) : cx.hasKey k = false ↔ k ∉ cx.verts.map (·.1) := by
  rw [← hasKey_iff]; simp

theorem edge?_isSome_iff (cx : Cx E) (k l : TKey) : (cx.edge? k l).isSome ↔ (k, l) ∈ cx.edges.map (·.1) := by
  unfold Cx.edge?
  exact lookup_isSome_iff_mem cx.edges (k, l)

theorem mem_keysInto (cx : Cx E) (k l : TKey) : l ∈ cx.keysInto k ↔ (l, k) ∈ cx.edges.map (·.1) := by
  unfold Cx.keysInto
  simp only [List.mem_filterMap, List.mem_map]
  constructor
  · rintro ⟨e, he, h⟩
    split at h
    · rename_i hk; cases h; exact ⟨e, he, by rw [← hk]⟩
    · cases h
  · rintro ⟨e, he, h⟩
    refine ⟨e, he, ?_⟩
    have h1 : e.1.1 = l := congrArg Prod.fst h
    have h2 : e.1.2 = k := congrArg Prod.snd h
    simp [h1, h2]

theorem mem_keysOutFrom (cx : Cx E) (k l : TKey) : l ∈ cx.keysOutFrom k ↔ (k, l) ∈ cx.edges.map (·.1) := by
  unfold Cx.keysOutFrom
  simp only [List.mem_filterMap, List.mem_map]
  constructor
  · rintro ⟨e, he, h⟩
    split at h
    · rename_i hk; cases h; exact ⟨e, he, by rw [← hk]⟩
    · cases h
  · rintro ⟨e, he, h⟩
    refine ⟨e, he, ?_⟩
    have h1 : e.1.1 = k := congrArg Prod.fst h
    have h2 : e.1.2 = l := congrArg Prod.snd h
    simp [h1, h2]

theorem nodup_filterMap_of_inj {α β : Type} (f : α → Option β) (l : List α) (hn : l.Nodup)
    (hinj : ∀ a ∈ l, ∀ a' ∈ l, ∀ b, f a = some b → f a' = some b → a = a') : (l.filterMap f).Nodup := by
  induction l with
  | nil => simp
  | cons a l ih =>
    rw [List.nodup_cons] at hn
    have ih' := ih hn.2 (fun x hx y hy b => hinj x (List.mem_cons_of_mem _ hx) y (List.mem_cons_of_mem _ hy) b)
    rw [List.filterMap_cons]
    split
    · exact ih'
    · rename_i b hb
      rw [List.nodup_cons]
      refine ⟨?_, ih'⟩
      intro hmem
      obtain ⟨a', ha', hfa'⟩ := List.mem_filterMap.1 hmem
      have := hinj a List.mem_cons_self a' (List.mem_cons_of_mem _ ha') b hb hfa'
      exact hn.1 (this ▸ ha')

theorem nodup_keysInto (cx : Cx E) (hn : (cx.edges.map (·.1)).Nodup) (k : TKey) : (cx.keysInto k).Nodup := by
  unfold Cx.keysInto
  have h := nodup_filterMap_of_inj (fun (p : TKey × TKey) => if p.2 = k then some p.1 else none) _ hn (by
    intro a _ a' _ b h1 h2
    split at h1 <;> split at h2 <;> simp_all
    exact Prod.ext (by simp_all) (by simp_all))
  rw [List.filterMap_map] at h
  exact h

theorem nodup_keysOutFrom (cx : Cx E) (hn : (cx.edges.map (·.1)).Nodup) (k : TKey) : (cx.keysOutFrom k).Nodup := by
  unfold Cx.keysOutFrom
  have h := nodup_filterMap_of_inj (fun (p : TKey × TKey) => if p.1 = k then some p.2 else none) _ hn (by
    intro a _ a' _ b h1 h2
    split at h1 <;> split at h2 <;> simp_all
    exact Prod.ext (by simp_all) (by simp_all))
  rw [List.filterMap_map] at h
  exact h

/-! ### `eliminate` -/

theorem elimPairs_eq_product (cx : Cx E) (k0 k1 : TKey) :
    elimPairs cx k0 k1 = ((cx.keysInto k1).filter (fun l0 => !(l0 = k0))) ×ˢ
      ((cx.keysOutFrom k0).filter (fun l1 => !(l1 = k1))) := rfl

theorem mem_elimPairs (cx : Cx E) (k0 k1 l0 l1 : TKey) :
    (l0, l1) ∈ elimPairs cx k0 k1 ↔
      (l0, k1) ∈ cx.edges.map (·.1) ∧ l0 ≠ k0 ∧ (k0, l1) ∈ cx.edges.map (·.1) ∧ l1 ≠ k1 := by
  rw [elimPairs_eq_product, List.mem_product]
  simp [mem_keysInto, mem_keysOutFrom, and_assoc]

theorem nodup_elimPairs (cx : Cx E) (hn : (cx.edges.map (·.1)).Nodup) (k0 k1 : TKey) : (elimPairs cx k0 k1).Nodup := by
  rw [elimPairs_eq_product]
  exact List.Nodup.product ((nodup_keysInto cx hn k1).filter _) ((nodup_keysOutFrom cx hn k0).filter _)

/-- `setEdge` on lookups -/
theorem lookup_setEdge (ops : EdgeOps E) (es : List ((TKey × TKey) × E)) (p q : TKey × TKey) (s : E) :
    (setEdge ops es p s).lookup q =
      if q = p then (if ops.isZero s then none else some s) else es.lookup q := by
  unfold setEdge
  have hf := lookup_filter_key (fun (x : TKey × TKey) => !(x = p)) es q
  by_cases hq : q = p
  · subst hq
    by_cases hz : ops.isZero s
    · simp [hz, hf]
    · simp [hz, List.lookup_append, hf]
  · have hbq : (q == p) = false := by simpa using hq
    by_cases hz : ops.isZero s
    · simp [hz, hf, hq]
    · simp [hz, List.lookup_append, hf, hq, List.lookup_cons, hbq]

theorem keys_setEdge_subset (ops : EdgeOps E) (es : List ((TKey × TKey) × E)) (p : TKey × TKey) (s : E) :
    ∀ e ∈ setEdge ops es p s, e ∈ es ∨ (e = (p, s) ∧ ops.isZero s = false) := by
  intro e he
  unfold setEdge at he
  split at he
  · exact .inl (List.mem_filter.1 he).1
  · rename_i hz
    rcases List.mem_append.1 he with h | h
    · exact .inl (List.mem_filter.1 h).1
    · exact .inr ⟨by simpa using h, by simpa using hz⟩

theorem nodup_setEdge (ops : EdgeOps E) (es : List ((TKey × TKey) × E)) (hn : (es.map (·.1)).Nodup)
    (p : TKey × TKey) (s : E) : ((setEdge ops es p s).map (·.1)).Nodup := by
  unfold setEdge
  have h1 : ((es.filter (fun e => !(e.1 = p))).map (·.1)).Nodup :=
    hn.sublist (List.Sublist.map _ List.filter_sublist)
  split
  · exact h1
  · rw [List.map_append, List.nodup_append]
    refine ⟨h1, by simp, ?_⟩
    intro a ha b hb
    simp only [List.map_cons, List.map_nil, List.mem_singleton] at hb
    subst hb
    obtain ⟨e, he, rfl⟩ := List.mem_map.1 ha
    have := (List.mem_filter.1 he).2
    simpa using this

/-- the update loop of `eliminate` on lookups: pairs that are listed get their new value, the rest is untouched -/
theorem lookup_foldl_setEdge (ops : EdgeOps E) (vals : List ((TKey × TKey) × E)) (hn : (vals.map (·.1)).Nodup) :
    ∀ (es : List ((TKey × TKey) × E)) (q : TKey × TKey),
      (vals.foldl (fun es v => setEdge ops es v.1 v.2) es).lookup q =
        match vals.lookup q with
        | some s => if ops.isZero s then none else some s
        | none => es.lookup q := by
  induction vals with
  | nil => intro es q; simp
  | cons v vals ih =>
    intro es q
    obtain ⟨p, s⟩ := v
    simp only [List.map_cons, List.nodup_cons] at hn
    rw [List.foldl_cons, ih hn.2]
    by_cases hq : q = p
    · subst hq
      have : vals.lookup q = none := lookup_none_of_not_mem vals q hn.1
      simp [this, lookup_setEdge]
    · have hbq : (q == p) = false := by simpa using hq
      simp only [List.lookup_cons, hbq]
      rcases hv : vals.lookup q with _ | s'
      · simp [lookup_setEdge, hq]
      · simp

theorem foldl_setEdge_mem (ops : EdgeOps E) (vals : List ((TKey × TKey) × E)) :
    ∀ (es : List ((TKey × TKey) × E)), ∀ e ∈ vals.foldl (fun es v => setEdge ops es v.1 v.2) es,
      e ∈ es ∨ (e ∈ vals ∧ ops.isZero e.2 = false) := by
  induction vals with
  | nil => intro es e he; exact .inl he
  | cons v vals ih =>
    intro es e he
    rw [List.foldl_cons] at he
    rcases ih _ e he with h | h
    · rcases keys_setEdge_subset ops es v.1 v.2 e h with h | ⟨h, hz⟩
      · exact .inl h
      · refine .inr ⟨?_, by rw [h]; exact hz⟩
        rw [h]; exact List.mem_cons_self
    · exact .inr ⟨List.mem_cons_of_mem _ h.1, h.2⟩

theorem foldl_setEdge_nodup (ops : EdgeOps E) (vals : List ((TKey × TKey) × E)) :
    ∀ (es : List ((TKey × TKey) × E)), (es.map (·.1)).Nodup →
      ((vals.foldl (fun es v => setEdge ops es v.1 v.2) es).map (·.1)).Nodup := by
  induction vals with
  | nil => intro es h; exact h
  | cons v vals ih =>
    intro es h
    rw [List.foldl_cons]
    exact ih _ (nodup_setEdge ops es h v.1 v.2)

/-- the values computed by `eliminate` carry their own pair as key -/
theorem elimValue_key (ops : EdgeOps E) (cx : Cx E) (k0 k1 : TKey) (ainv : E) (p : TKey × TKey)
    (v : (TKey × TKey) × E) (h : elimValue ops cx k0 k1 ainv p = .ok v) : v.1 = p := by
  unfold elimValue at h
  split at h
  · split at h
    · split at h <;> cases h <;> rfl
    · cases h
    · cases h
  · cases h

/-- unfolding of a successful `eliminate` -/
theorem eliminate_ok (ops : EdgeOps E) (cx cx' : Cx E) (k0 k1 : TKey) (h : cx.eliminate ops k0 k1 = .ok cx') :
    ∃ a ainv vals, cx.edge? k0 k1 = some a ∧ ops.inv a = .ok ainv ∧
      mapMRes (elimValue ops cx k0 k1 ainv) (elimPairs cx k0 k1) = .ok vals ∧
      cx' = removePivots cx k0 k1 (vals.foldl (fun es v => setEdge ops es v.1 v.2) cx.edges) := by
  unfold Cx.eliminate Cx.edgeR at h
  rcases he : cx.edge? k0 k1 with _ | a
  · simp [he] at h
  · simp only [he] at h
    rcases hi : ops.inv a with ainv | _ | _
    · simp only [hi] at h
      rcases hm : mapMRes (elimValue ops cx k0 k1 ainv) (elimPairs cx k0 k1) with vals | _ | _
      · simp only [hm] at h
        cases h
        exact ⟨a, ainv, vals, rfl, hi, hm, rfl⟩
      · simp [hm] at h
      · simp [hm] at h
    · simp [hi] at h
    · simp [hi] at h

theorem eliminate_vals_keys (ops : EdgeOps E) (cx : Cx E) (k0 k1 : TKey) (ainv : E) (vals : List ((TKey × TKey) × E))
    (hm : mapMRes (elimValue ops cx k0 k1 ainv) (elimPairs cx k0 k1) = .ok vals) :
    vals.map (·.1) = elimPairs cx k0 k1 := by
  have := mapMRes_ok_map (elimValue ops cx k0 k1 ainv) (·.1) id
    (fun p v hv => elimValue_key ops cx k0 k1 ainv p v hv) _ _ hm
  simpa using this

/-- lookups in the complex after `remove_vertex(k0); remove_vertex(k1)` -/
theorem removePivots_edge? (cx : Cx E) (k0 k1 : TKey) (es : List ((TKey × TKey) × E)) (l0 l1 : TKey) :
    (removePivots cx k0 k1 es).edge? l0 l1 =
      if !isPivot k0 k1 l0 && !isPivot k0 k1 l1 then es.lookup (l0, l1) else none := by
  unfold Cx.edge? removePivots
  exact lookup_filter_key (fun (p : TKey × TKey) => !isPivot k0 k1 p.1 && !isPivot k0 k1 p.2) es (l0, l1)

/-- **what `eliminate` does to the edges**: the entry `l0 → l1` between two surviving vertices becomes
`d − c·a⁻¹·b` (resp. `−c·a⁻¹·b`; dropped when zero) when both `b : l0 → k1` and `c : k0 → l1` exist, and is not
touched otherwise; every edge at a pivot disappears. -/
theorem eliminate_edges (ops : EdgeOps E) (cx cx' : Cx E) (k0 k1 : TKey) (hn : (cx.edges.map (·.1)).Nodup)
    (h : cx.eliminate ops k0 k1 = .ok cx') :
    ∃ a ainv, cx.edge? k0 k1 = some a ∧ ops.inv a = .ok ainv ∧
      ∀ l0 l1 : TKey,
        ((isPivot k0 k1 l0 = true ∨ isPivot k0 k1 l1 = true) → cx'.edge? l0 l1 = none) ∧
        (isPivot k0 k1 l0 = false → isPivot k0 k1 l1 = false →
          (∀ b c, cx.edge? l0 k1 = some b → cx.edge? k0 l1 = some c →
            ∃ cab, ops.cab c ainv b = .ok cab ∧
              cx'.edge? l0 l1 =
                (let s := match cx.edge? l0 l1 with
                  | some d => ops.sub d cab
                  | none => ops.neg cab
                 if ops.isZero s then none else some s)) ∧
          ((cx.edge? l0 k1 = none ∨ cx.edge? k0 l1 = none) → cx'.edge? l0 l1 = cx.edge? l0 l1)) := by
  obtain ⟨a, ainv, vals, ha, hi, hm, rfl⟩ := eliminate_ok ops cx cx' k0 k1 h
  refine ⟨a, ainv, ha, hi, ?_⟩
  have hkeys := eliminate_vals_keys ops cx k0 k1 ainv vals hm
  have hvn : (vals.map (·.1)).Nodup := hkeys ▸ nodup_elimPairs cx hn k0 k1
  intro l0 l1
  refine ⟨?_, ?_⟩
  · intro hp
    rw [removePivots_edge?]
    rcases hp with hp | hp <;> simp [hp]
  · intro h0 h1
    have hl0 : l0 ≠ k0 := by intro e; simp [isPivot, e] at h0
    have hl1 : l1 ≠ k1 := by intro e; simp [isPivot, e] at h1
    rw [removePivots_edge?, lookup_foldl_setEdge ops vals hvn]
    simp only [h0, h1, Bool.not_false, Bool.and_self, if_true]
    refine ⟨?_, ?_⟩
    · intro b c hb hc
      have hmem : (l0, l1) ∈ elimPairs cx k0 k1 := by
        rw [mem_elimPairs]
        refine ⟨?_, hl0, ?_, hl1⟩
        · rw [← edge?_isSome_iff, hb]; rfl
        · rw [← edge?_isSome_iff, hc]; rfl
      obtain ⟨v, hv, hfv⟩ := mapMRes_ok_mem' _ _ _ hm _ hmem
      have hv1 : v.1 = (l0, l1) := elimValue_key ops cx k0 k1 ainv _ v hfv
      have hlook : vals.lookup (l0, l1) = some v.2 := by
        apply lookup_of_mem_nodup vals hvn
        rw [← hv1]; exact hv
      unfold elimValue at hfv
      simp only [hb, hc] at hfv
      rcases hcab : ops.cab c ainv b with cab | _ | _
      · simp only [hcab] at hfv
        refine ⟨cab, rfl, ?_⟩
        rw [hlook]
        rcases hd : cx.edge? l0 l1 with _ | d
        · simp only [hd] at hfv; cases hfv; rfl
        · simp only [hd] at hfv; cases hfv; rfl
      · simp [hcab] at hfv
      · simp [hcab] at hfv
    · intro hnone
      have hnot : (l0, l1) ∉ vals.map (·.1) := by
        rw [hkeys, mem_elimPairs]
        rintro ⟨hb, _, hc, _⟩
        rw [← edge?_isSome_iff] at hb hc
        rcases hnone with hnone | hnone
        · simp [hnone] at hb
        · simp [hnone] at hc
      rw [lookup_none_of_not_mem vals _ hnot]
      rfl

/-- **what `eliminate` does to the vertices**: exactly the two pivots go, tangles of the others are untouched -/
theorem eliminate_verts (ops : EdgeOps E) (cx cx' : Cx E) (k0 k1 : TKey) (h : cx.eliminate ops k0 k1 = .ok cx') :
    cx'.verts = cx.verts.filter (fun v => !isPivot k0 k1 v.1) ∧
    cx'.dh = cx.dh ∧ cx'.dq = cx.dq ∧ cx'.base = cx.base ∧ cx'.dim = cx.dim := by
  obtain ⟨a, ainv, vals, _, _, _, rfl⟩ := eliminate_ok ops cx cx' k0 k1 h
  exact ⟨rfl, rfl, rfl, rfl, rfl⟩

/-! ### preservation of `WF` -/

theorem WF.edge_mem {ops : EdgeOps E} {cx : Cx E} (_ : WF ops cx) (k l : TKey) (f : E) (h : cx.edge? k l = some f) :
    ((k, l), f) ∈ cx.edges := mem_of_lookup cx.edges (k, l) f h

theorem wf_eliminate (ops : EdgeOps E) (cx cx' : Cx E) (k0 k1 : TKey) (hwf : WF ops cx)
    (h : cx.eliminate ops k0 k1 = .ok cx') : WF ops cx' := by
  obtain ⟨a, ainv, vals, ha, _, hm, rfl⟩ := eliminate_ok ops cx cx' k0 k1 h
  have hkeys := eliminate_vals_keys ops cx k0 k1 ainv vals hm
  have hpiv := hwf.edge_mem k0 k1 a ha
  -- facts about an edge of the updated list
  have hes : ∀ e ∈ vals.foldl (fun es v => setEdge ops es v.1 v.2) cx.edges,
      (e.1.1 ∈ cx.verts.map (·.1) ∧ e.1.2 ∈ cx.verts.map (·.1)) ∧ e.1.2.weight = e.1.1.weight + 1 ∧
        ops.isZero e.2 = false := by
    intro e he
    rcases foldl_setEdge_mem ops vals cx.edges e he with he | ⟨he, hz⟩
    · exact ⟨hwf.ends e he, hwf.deg e he, hwf.nonzero e he⟩
    · have hk : e.1 ∈ elimPairs cx k0 k1 := hkeys ▸ List.mem_map.2 ⟨e, he, rfl⟩
      obtain ⟨⟨l0, l1⟩, f⟩ := e
      rw [mem_elimPairs] at hk
      obtain ⟨hb, _, hc, _⟩ := hk
      obtain ⟨eb, heb, hkb⟩ := List.mem_map.1 hb
      obtain ⟨ec, hec, hkc⟩ := List.mem_map.1 hc
      have e1 := hwf.ends eb heb
      have e2 := hwf.ends ec hec
      have d1 := hwf.deg eb heb
      have d2 := hwf.deg ec hec
      have d3 := hwf.deg _ hpiv
      rw [hkb] at e1 d1
      rw [hkc] at e2 d2
      simp only at e1 e2 d1 d2 d3 ⊢
      exact ⟨⟨e1.1, e2.2⟩, by omega, hz⟩
  refine ⟨?_, ?_, ?_, ?_, ?_⟩
  · exact hwf.keys.sublist (List.Sublist.map _ List.filter_sublist)
  · exact (foldl_setEdge_nodup ops vals cx.edges hwf.edges).sublist (List.Sublist.map _ List.filter_sublist)
  · intro e he
    simp only [removePivots, List.mem_filter, Bool.and_eq_true, Bool.not_eq_eq_eq_not, Bool.not_true] at he
    obtain ⟨he, hp1, hp2⟩ := he
    have := (hes e he).1
    simp only [removePivots, List.mem_map, List.mem_filter] at this ⊢
    obtain ⟨⟨v1, hv1, h1⟩, ⟨v2, hv2, h2⟩⟩ := this
    exact ⟨⟨v1, ⟨hv1, by simp [h1, hp1]⟩, h1⟩, ⟨v2, ⟨hv2, by simp [h2, hp2]⟩, h2⟩⟩
  · intro e he
    simp only [removePivots, List.mem_filter] at he
    exact (hes e he.1).2.1
  · intro e he
    simp only [removePivots, List.mem_filter] at he
    exact (hes e he.1).2.2

/-! ### `connect` -/

theorem weight_append (k l : TKey) : (k.append l).weight = k.weight + l.weight := by
  simp [TKey.append, TKey.weight, List.filter_append]

theorem weight_push (k : TKey) (g : Deloop.AlgGen) : (k.push g).weight = k.weight := rfl

theorem foldRes_inv {α β : Type} (P : β → Prop) (f : β → α → Res β) :
    ∀ (l : List α), (∀ b a b', a ∈ l → P b → f b a = .ok b' → P b') → ∀ b r, P b → foldRes f l b = .ok r → P r
  | [], _, b, r, hb, h => by simp [foldRes] at h; exact h ▸ hb
  | a :: l, hstep, b, r, hb, h => by
    unfold foldRes at h
    rcases hf : f b a with b' | _ | _
    · simp only [hf] at h
      exact foldRes_inv P f l (fun b a b' ha => hstep b a b' (List.mem_cons_of_mem _ ha)) b' r
        (hstep b a b' List.mem_cons_self hb hf) h
    · simp [hf] at h
    · simp [hf] at h

theorem wf_addVertex (ops : EdgeOps E) (cx cx' : Cx E) (k : TKey) (t : Tng) (hwf : WF ops cx)
    (h : cx.addVertex k t = .ok cx') : WF ops cx' := by
  unfold Cx.addVertex at h
  split at h
  · cases h
  · rename_i hk
    cases h
    have hk' : k ∉ cx.verts.map (·.1) := (hasKey_false_iff cx k).1 (by simpa using hk)
    refine ⟨?_, hwf.edges, ?_, hwf.deg, hwf.nonzero⟩
    · simp only [List.map_append, List.map_cons, List.map_nil]
      rw [List.nodup_append]
      exact ⟨hwf.keys, by simp, fun a ha b hb => by simp at hb; subst hb; intro e; exact hk' (e ▸ ha)⟩
    · intro e he
      obtain ⟨h1, h2⟩ := hwf.ends e he
      simp only [List.map_append, List.mem_append]
      exact ⟨.inl h1, .inl h2⟩

theorem wf_addEdge (ops : EdgeOps E) (cx cx' : Cx E) (k l : TKey) (f : E) (hwf : WF ops cx)
    (hdeg : l.weight = k.weight + 1) (h : cx.addEdge ops k l f = .ok cx') : WF ops cx' := by
  unfold Cx.addEdge at h
  split at h
  · cases h
  · rename_i hkl
    split at h
    · cases h
    · rename_i hnew
      split at h
      · cases h
      · rename_i hz
        cases h
        simp only [Bool.or_eq_true, Bool.not_eq_eq_eq_not, Bool.not_true, not_or, Bool.not_eq_false] at hkl
        have hk := (hasKey_iff cx k).1 hkl.1
        have hl := (hasKey_iff cx l).1 hkl.2
        have hnew' : (k, l) ∉ cx.edges.map (·.1) := by
          rw [← edge?_isSome_iff]; simpa using hnew
        refine ⟨hwf.keys, ?_, ?_, ?_, ?_⟩
        · simp only [List.map_append, List.map_cons, List.map_nil]
          rw [List.nodup_append]
          exact ⟨hwf.edges, by simp, fun a ha b hb => by simp at hb; subst hb; intro e; exact hnew' (e ▸ ha)⟩
        · intro e he
          rcases List.mem_append.1 he with he | he
          · exact hwf.ends e he
          · simp at he; subst he; exact ⟨hk, hl⟩
        · intro e he
          rcases List.mem_append.1 he with he | he
          · exact hwf.deg e he
          · simp at he; subst he; exact hdeg
        · intro e he
          rcases List.mem_append.1 he with he | he
          · exact hwf.nonzero e he
          · simp at he; subst he; simpa using hz

theorem wf_connectVertices (ops : EdgeOps E) (left right : Cx E) (i : Int) (cx cx' : Cx E) (hwf : WF ops cx)
    (h : connectVertices left right i cx = .ok cx') : WF ops cx' := by
  unfold connectVertices at h
  refine foldRes_inv (WF ops) _ _ ?_ cx cx' hwf h
  intro b kl b' _ hb hstep
  unfold connectVertexStep at hstep
  split at hstep
  · split at hstep
    · exact wf_addVertex ops b b' _ _ hb hstep
    · cases hstep
    · cases hstep
  · cases hstep

theorem productEdges_deg (ops : EdgeOps E) (left right : Cx E) (hl : WF ops left) (hr : WF ops right)
    (k0 l0 : TKey) (v0 w0 : Tng) (es : List ((TKey × TKey) × E))
    (h : productEdges ops left right k0 l0 v0 w0 = .ok es) : ∀ e ∈ es, e.1.2.weight = e.1.1.weight + 1 := by
  unfold productEdges at h
  simp only at h
  split at h
  · rename_i e1 e2 h1 h2
    cases h
    intro e he
    rcases List.mem_append.1 he with he | he
    · obtain ⟨a, ha, hfa⟩ := mapMRes_ok_mem _ _ _ h1 e he
      obtain ⟨ha1, ha2⟩ := List.mem_filter.1 ha
      split at hfa
      · cases hfa
        have := hl.deg a ha1
        have hk : a.1.1 = k0 := by simpa using ha2
        rw [hk] at this
        simp only [weight_append]
        omega
      · cases hfa
      · cases hfa
    · obtain ⟨a, ha, hfa⟩ := mapMRes_ok_mem _ _ _ h2 e he
      obtain ⟨ha1, ha2⟩ := List.mem_filter.1 ha
      split at hfa
      · cases hfa
        have := hr.deg a ha1
        have hk : a.1.1 = l0 := by simpa using ha2
        rw [hk] at this
        simp only [weight_append]
        omega
      · cases hfa
      · cases hfa
  · cases h
  · cases h
  · cases h

theorem wf_connectEdges (ops : EdgeOps E) (left right : Cx E) (hl : WF ops left) (hr : WF ops right)
    (i : Int) (cx cx' : Cx E) (hwf : WF ops cx) (h : connectEdges ops left right i cx = .ok cx') : WF ops cx' := by
  unfold connectEdges at h
  refine foldRes_inv (WF ops) _ _ ?_ cx cx' hwf h
  intro b kl b' _ hb hstep
  unfold connectEdgeStep at hstep
  split at hstep
  · split at hstep
    · rename_i v0 w0 _ _ es hes
      refine foldRes_inv (WF ops) _ _ ?_ b b' hb hstep
      intro c e c' he hc hadd
      unfold addProductEdge at hadd
      split at hadd
      · exact wf_addEdge ops c c' _ _ _ hc (productEdges_deg ops left right hl hr _ _ _ _ es hes e he) hadd
      · cases hadd; exact hc
    · cases hstep
    · cases hstep
  · cases hstep

theorem wf_connectInit (ops : EdgeOps E) (left right new : Cx E) (h : connectInit left right = .ok new) : WF ops new := by
  unfold connectInit at h
  split at h
  · cases h
    exact ⟨by simp, by simp, by simp, by simp, by simp⟩
  · cases h

theorem wf_connect (ops : EdgeOps E) (left right cx' : Cx E) (hl : WF ops left) (hr : WF ops right)
    (h : left.connect ops right = .ok cx') : WF ops cx' := by
  unfold Cx.connect at h
  split at h
  · rename_i new0 h0
    refine foldRes_inv (WF ops) _ _ ?_ new0 cx' (wf_connectInit ops left right new0 h0) h
    intro b i b' _ hb hstep
    unfold connectDegStep at hstep
    split at hstep
    · rename_i b1 h1
      exact wf_connectEdges ops left right hl hr _ b1 b' (wf_connectVertices ops left right i b b1 hb h1) hstep
    · cases hstep
    · cases hstep
  · cases h
  · cases h

theorem wf_init (ops : EdgeOps E) (dh dq : Int) (base : Option Nat) : WF ops (Cx.init dh dq base : Cx E) :=
  ⟨by simp [Cx.init], by simp [Cx.init], by simp [Cx.init], by simp [Cx.init], by simp [Cx.init]⟩

theorem wf_makeX (ops : EdgeOps E) (mkSdl : CobComp → E) (ct : KhRef.CT) (e : Array Nat) (x : Cx E)
    (h : makeX ops mkSdl ct e = .ok x) : WF ops x := by
  have h0 : WF ops (⟨0, 0, none, 0, [], []⟩ : Cx E) := ⟨by simp, by simp, by simp, by simp, by simp⟩
  unfold makeX at h
  simp only at h
  split at h
  · split at h
    · exact wf_addVertex ops _ x _ _ h0 h
    · cases h
    · cases h
  · split at h
    · split at h
      · rename_i c1 hc1
        split at h
        · rename_i c2 hc2
          split at h
          · split at h
            · rename_i c3 hc3
              cases h
              have w1 := wf_addVertex ops _ c1 _ _ h0 hc1
              have w2 := wf_addVertex ops _ c2 _ _ w1 hc2
              have w3 := wf_addEdge ops c2 c3 _ _ _ w2 (by decide) hc3
              exact ⟨w3.keys, w3.edges, w3.ends, w3.deg, w3.nonzero⟩
            · cases h
            · cases h
          · cases h
          · cases h
        · cases h
        · cases h
      · cases h
      · cases h
    · cases h
    · cases h
    · cases h

theorem wf_appendX (ops : EdgeOps E) (mkSdl : CobComp → E) (cx cx' : Cx E) (ct : KhRef.CT) (e : Array Nat)
    (hwf : WF ops cx) (h : cx.appendX ops mkSdl ct e = .ok cx') : WF ops cx' := by
  unfold Cx.appendX at h
  split at h
  · rename_i x hx
    exact wf_connect ops cx x cx' hwf (wf_makeX ops mkSdl ct e x hx) h
  · cases h
  · cases h

/-! ### `deloop` -/

theorem renameFn_inj_on (kOld kNew : TKey) (S : List TKey) (hnew : kNew ∉ S) :
    ∀ x ∈ S, ∀ y ∈ S, renameFn kOld kNew x = renameFn kOld kNew y → x = y := by
  intro x hx y hy h
  unfold renameFn at h
  by_cases h1 : x = kOld <;> by_cases h2 : y = kOld <;> simp [h1, h2] at h
  · rw [h1, h2]
  · exact absurd (h ▸ hy) hnew
  · exact absurd (h ▸ hx) hnew
  · exact h

theorem renameFn_weight (kOld kNew k : TKey) (hw : kNew.weight = kOld.weight) :
    (renameFn kOld kNew k).weight = k.weight := by
  unfold renameFn
  split
  · rename_i h; rw [h, hw]
  · rfl

theorem renameKey_ok (cx cx' : Cx E) (kOld kNew : TKey) (h : cx.renameKey kOld kNew = .ok cx') :
    kOld ≠ kNew ∧ kOld ∈ cx.verts.map (·.1) ∧ kNew ∉ cx.verts.map (·.1) ∧
    cx' = { cx with
      verts := cx.verts.map (fun v => (renameFn kOld kNew v.1, v.2)),
      edges := cx.edges.map (fun e => ((renameFn kOld kNew e.1.1, renameFn kOld kNew e.1.2), e.2)) } := by
  unfold Cx.renameKey at h
  split at h
  · cases h
  · rename_i h1
    split at h
    · cases h
    · rename_i h2
      split at h
      · cases h
      · rename_i h3
        cases h
        refine ⟨h1, (hasKey_iff cx kOld).1 (by simpa using h2), (hasKey_false_iff cx kNew).1 (by simpa using h3), rfl⟩

theorem wf_renameKey (ops : EdgeOps E) (cx cx' : Cx E) (kOld kNew : TKey) (hwf : WF ops cx)
    (hw : kNew.weight = kOld.weight) (h : cx.renameKey kOld kNew = .ok cx') : WF ops cx' := by
  obtain ⟨_, _, hnew, rfl⟩ := renameKey_ok cx cx' kOld kNew h
  have hinj := renameFn_inj_on kOld kNew _ hnew
  refine ⟨?_, ?_, ?_, ?_, ?_⟩
  · have : (cx.verts.map (fun v => (renameFn kOld kNew v.1, v.2))).map (·.1) =
        (cx.verts.map (·.1)).map (renameFn kOld kNew) := by simp [List.map_map, Function.comp_def]
    simp only [this]
    exact List.Nodup.map_on hinj hwf.keys
  · have : (cx.edges.map (fun e => ((renameFn kOld kNew e.1.1, renameFn kOld kNew e.1.2), e.2))).map (·.1) =
        (cx.edges.map (·.1)).map (fun p => (renameFn kOld kNew p.1, renameFn kOld kNew p.2)) := by
      simp [List.map_map, Function.comp_def]
    simp only [this]
    refine List.Nodup.map_on ?_ hwf.edges
    intro p hp q hq hpq
    obtain ⟨e, he, rfl⟩ := List.mem_map.1 hp
    obtain ⟨e', he', rfl⟩ := List.mem_map.1 hq
    have h1 := hwf.ends e he
    have h2 := hwf.ends e' he'
    have a := hinj _ h1.1 _ h2.1 (congrArg Prod.fst hpq)
    have b := hinj _ h1.2 _ h2.2 (congrArg Prod.snd hpq)
    exact Prod.ext a b
  · intro e he
    simp only [List.mem_map] at he
    obtain ⟨e0, he0, rfl⟩ := he
    obtain ⟨h1, h2⟩ := hwf.ends e0 he0
    simp only [List.map_map, Function.comp_def]
    exact ⟨List.mem_map.2 ⟨_, List.mem_map.1 h1 |>.choose_spec.1, by
        have := (List.mem_map.1 h1).choose_spec.2; simp [this]⟩,
      List.mem_map.2 ⟨_, List.mem_map.1 h2 |>.choose_spec.1, by
        have := (List.mem_map.1 h2).choose_spec.2; simp [this]⟩⟩
  · intro e he
    simp only [List.mem_map] at he
    obtain ⟨e0, he0, rfl⟩ := he
    simp only [renameFn_weight _ _ _ hw]
    exact hwf.deg e0 he0
  · intro e he
    simp only [List.mem_map] at he
    obtain ⟨e0, he0, rfl⟩ := he
    exact hwf.nonzero e0 he0

theorem map_fst_filterMap_keyed {K V : Type} (g : K → Option K) (l : List (K × V)) :
    (l.filterMap (fun e => (g e.1).map (fun q => (q, e.2)))).map (·.1) = (l.map (·.1)).filterMap g := by
  induction l with
  | nil => rfl
  | cons e l ih =>
    rcases hg : g e.1 with _ | q <;> simp [List.filterMap_cons, hg, ih]

theorem duplicateKey_ok (cx cx' : Cx E) (k kNew : TKey) (h : cx.duplicateKey k kNew = .ok cx') :
    k ≠ kNew ∧ ∃ t, cx.tng? k = some t ∧ kNew ∉ cx.verts.map (·.1) ∧
    cx' = { cx with
      verts := cx.verts ++ [(kNew, t)],
      edges := cx.edges
        ++ cx.edges.filterMap (fun e => if e.1.2 = k then some ((e.1.1, kNew), e.2) else none)
        ++ cx.edges.filterMap (fun e => if e.1.1 = k then some ((kNew, e.1.2), e.2) else none) } := by
  unfold Cx.duplicateKey at h
  split at h
  · cases h
  · rename_i h1
    split at h
    · cases h
    · rename_i t ht
      split at h
      · cases h
      · rename_i h3
        cases h
        exact ⟨h1, t, ht, (hasKey_false_iff cx kNew).1 (by simpa using h3), rfl⟩

theorem wf_duplicateKey (ops : EdgeOps E) (cx cx' : Cx E) (k kNew : TKey) (hwf : WF ops cx)
    (hw : kNew.weight = k.weight) (h : cx.duplicateKey k kNew = .ok cx') : WF ops cx' := by
  obtain ⟨_, t, _, hnew, rfl⟩ := duplicateKey_ok cx cx' k kNew h
  -- membership in the two families of copied edges
  have hins : ∀ e ∈ cx.edges.filterMap (fun e => if e.1.2 = k then some ((e.1.1, kNew), e.2) else none),
      ∃ e0 ∈ cx.edges, e0.1.2 = k ∧ e = ((e0.1.1, kNew), e0.2) := by
    intro e he
    obtain ⟨e0, he0, hf⟩ := List.mem_filterMap.1 he
    split at hf
    · rename_i hk; cases hf; exact ⟨e0, he0, hk, rfl⟩
    · cases hf
  have houts : ∀ e ∈ cx.edges.filterMap (fun e => if e.1.1 = k then some ((kNew, e.1.2), e.2) else none),
      ∃ e0 ∈ cx.edges, e0.1.1 = k ∧ e = ((kNew, e0.1.2), e0.2) := by
    intro e he
    obtain ⟨e0, he0, hf⟩ := List.mem_filterMap.1 he
    split at hf
    · rename_i hk; cases hf; exact ⟨e0, he0, hk, rfl⟩
    · cases hf
  have hkeyIn : ∀ e ∈ cx.edges, e.1.1 ≠ kNew ∧ e.1.2 ≠ kNew := by
    intro e he
    obtain ⟨h1, h2⟩ := hwf.ends e he
    exact ⟨fun h => hnew (h ▸ h1), fun h => hnew (h ▸ h2)⟩
  refine ⟨?_, ?_, ?_, ?_, ?_⟩
  · simp only [List.map_append, List.map_cons, List.map_nil]
    rw [List.nodup_append]
    exact ⟨hwf.keys, by simp, fun a ha b hb => by simp at hb; subst hb; intro e; exact hnew (e ▸ ha)⟩
  · have e1 : (cx.edges.filterMap (fun e => if e.1.2 = k then some ((e.1.1, kNew), e.2) else none)).map (·.1) =
        (cx.edges.map (·.1)).filterMap (fun p => if p.2 = k then some (p.1, kNew) else none) := by
      rw [← map_fst_filterMap_keyed]
      congr 1
      apply List.filterMap_congr
      intro e _
      split <;> rfl
    have e2 : (cx.edges.filterMap (fun e => if e.1.1 = k then some ((kNew, e.1.2), e.2) else none)).map (·.1) =
        (cx.edges.map (·.1)).filterMap (fun p => if p.1 = k then some (kNew, p.2) else none) := by
      rw [← map_fst_filterMap_keyed]
      congr 1
      apply List.filterMap_congr
      intro e _
      split <;> rfl
    have n1 : ((cx.edges.filterMap (fun e => if e.1.2 = k then some ((e.1.1, kNew), e.2) else none)).map (·.1)).Nodup := by
      rw [e1]
      refine nodup_filterMap_of_inj _ _ hwf.edges ?_
      intro a _ a' _ b h1 h2
      by_cases ha : a.2 = k
      · by_cases ha' : a'.2 = k
        · rw [if_pos ha] at h1; rw [if_pos ha'] at h2
          have e := (Option.some.inj h1).trans (Option.some.inj h2).symm
          exact Prod.ext (Prod.mk.inj e).1 (ha.trans ha'.symm)
        · rw [if_neg ha'] at h2; cases h2
      · rw [if_neg ha] at h1; cases h1
    have n2 : ((cx.edges.filterMap (fun e => if e.1.1 = k then some ((kNew, e.1.2), e.2) else none)).map (·.1)).Nodup := by
      rw [e2]
      refine nodup_filterMap_of_inj _ _ hwf.edges ?_
      intro a _ a' _ b h1 h2
      by_cases ha : a.1 = k
      · by_cases ha' : a'.1 = k
        · rw [if_pos ha] at h1; rw [if_pos ha'] at h2
          have e := (Option.some.inj h1).trans (Option.some.inj h2).symm
          exact Prod.ext (ha.trans ha'.symm) (Prod.mk.inj e).2
        · rw [if_neg ha'] at h2; cases h2
      · rw [if_neg ha] at h1; cases h1
    simp only [List.map_append]
    rw [List.nodup_append, List.nodup_append]
    refine ⟨⟨hwf.edges, n1, ?_⟩, n2, ?_⟩
    · intro a ha b hb hab
      obtain ⟨e, he, rfl⟩ := List.mem_map.1 ha
      obtain ⟨e', he', rfl⟩ := List.mem_map.1 hb
      obtain ⟨e0, _, _, rfl⟩ := hins e' he'
      exact (hkeyIn e he).2 (congrArg Prod.snd hab)
    · intro a ha b hb hab
      obtain ⟨e', he', rfl⟩ := List.mem_map.1 hb
      obtain ⟨e0, _, _, rfl⟩ := houts e' he'
      rcases List.mem_append.1 ha with ha | ha
      · obtain ⟨e, he, rfl⟩ := List.mem_map.1 ha
        exact (hkeyIn e he).1 (congrArg Prod.fst hab)
      · obtain ⟨e, he, rfl⟩ := List.mem_map.1 ha
        obtain ⟨e1, he1, _, rfl⟩ := hins e he
        exact (hkeyIn e1 he1).1 (congrArg Prod.fst hab)
  · intro e he
    simp only [List.map_append, List.mem_append, List.map_cons, List.map_nil, List.mem_singleton]
    rcases List.mem_append.1 he with he | he
    · rcases List.mem_append.1 he with he | he
      · exact ⟨.inl (hwf.ends e he).1, .inl (hwf.ends e he).2⟩
      · obtain ⟨e0, he0, _, rfl⟩ := hins e he
        exact ⟨.inl (hwf.ends e0 he0).1, .inr rfl⟩
    · obtain ⟨e0, he0, _, rfl⟩ := houts e he
      exact ⟨.inr rfl, .inl (hwf.ends e0 he0).2⟩
  · intro e he
    rcases List.mem_append.1 he with he | he
    · rcases List.mem_append.1 he with he | he
      · exact hwf.deg e he
      · obtain ⟨e0, he0, hk, rfl⟩ := hins e he
        have := hwf.deg e0 he0
        rw [hk] at this
        simp only [hw]; exact this
    · obtain ⟨e0, he0, hk, rfl⟩ := houts e he
      have := hwf.deg e0 he0
      rw [hk] at this
      simp only [hw]; exact this
  · intro e he
    rcases List.mem_append.1 he with he | he
    · rcases List.mem_append.1 he with he | he
      · exact hwf.nonzero e he
      · obtain ⟨e0, he0, _, rfl⟩ := hins e he
        exact hwf.nonzero e0 he0
    · obtain ⟨e0, he0, _, rfl⟩ := houts e he
      exact hwf.nonzero e0 he0

/-- one edge under `deloop_with`: untouched away from `k`, otherwise the same pair of keys with a non-zero label, or dropped -/
theorem deloopEdge_cases (ops : EdgeOps E) (k : TKey) (circ : Path) (birth death : Dot) (e : (TKey × TKey) × E)
    (oe : Option ((TKey × TKey) × E)) (h : deloopEdge ops k circ birth death e = .ok oe) :
    ∀ e', oe = some e' → e'.1 = e.1 ∧ (e' = e ∨ ops.isZero e'.2 = false) := by
  intro e' hoe
  subst hoe
  unfold deloopEdge at h
  split at h
  · split at h
    · rename_i f _
      simp only [Res.ok.injEq] at h
      split at h
      · cases h
      · rename_i hz; cases h; exact ⟨rfl, .inr (by simpa using hz)⟩
    · cases h
    · cases h
  · split at h
    · split at h
      · rename_i f _
        simp only [Res.ok.injEq] at h
        split at h
        · cases h
        · rename_i hz; cases h; exact ⟨rfl, .inr (by simpa using hz)⟩
      · cases h
      · cases h
    · cases h; exact ⟨rfl, .inl rfl⟩

theorem forall₂_filterMap_keys_sublist {K V : Type} (R : K × V → Option (K × V) → Prop)
    (hkey : ∀ e e', R e (some e') → e'.1 = e.1) :
    ∀ (l : List (K × V)) (es : List (Option (K × V))), List.Forall₂ R l es →
      ((es.filterMap (fun x => x)).map (·.1)).Sublist (l.map (·.1)) := by
  intro l es h
  induction h with
  | nil => simp
  | @cons a b l' es' hab _ ih =>
    cases b with
    | none => simpa using ih.cons _
    | some e' =>
      have := hkey a e' hab
      simp only [List.filterMap_cons, List.map_cons]
      rw [this]
      exact ih.cons₂ _

theorem deloopWith_ok (ops : EdgeOps E) (cx cx' : Cx E) (k : TKey) (r : Nat) (birth death : Dot)
    (h : cx.deloopWith ops k r birth death = .ok cx') :
    ∃ t circ t' es, cx.tng? k = some t ∧ Tng.removeAt t r = .ok (circ, t') ∧
      mapMRes (deloopEdge ops k circ birth death) cx.edges = .ok es ∧
      cx' = { cx with
        verts := cx.verts.map (fun v => if v.1 = k then (v.1, t') else v),
        edges := es.filterMap (fun x => x) } := by
  unfold Cx.deloopWith at h
  split at h
  · cases h
  · rename_i t ht
    split at h
    · rename_i circ t' hrm
      split at h
      · rename_i es hes
        cases h
        exact ⟨t, circ, t', es, ht, hrm, hes, rfl⟩
      · cases h
      · cases h
    · cases h
    · cases h

theorem wf_deloopWith (ops : EdgeOps E) (cx cx' : Cx E) (k : TKey) (r : Nat) (birth death : Dot) (hwf : WF ops cx)
    (h : cx.deloopWith ops k r birth death = .ok cx') : WF ops cx' := by
  obtain ⟨t, circ, t', es, _, _, hes, rfl⟩ := deloopWith_ok ops cx cx' k r birth death h
  have hkeys : (cx.verts.map (fun v => if v.1 = k then (v.1, t') else v)).map (·.1) = cx.verts.map (·.1) := by
    rw [List.map_map]
    apply List.map_congr_left
    intro v _
    simp only [Function.comp]
    split <;> rfl
  have hF := mapMRes_ok_forall₂ _ _ _ hes
  have hsub := forall₂_filterMap_keys_sublist (fun e oe => deloopEdge ops k circ birth death e = .ok oe)
    (fun e e' he => (deloopEdge_cases ops k circ birth death e _ he e' rfl).1) _ _ hF
  have hmem : ∀ e' ∈ es.filterMap (fun x => x), ∃ e ∈ cx.edges, e'.1 = e.1 ∧ (e' = e ∨ ops.isZero e'.2 = false) := by
    intro e' he'
    obtain ⟨oe, hoe, hid⟩ := List.mem_filterMap.1 he'
    subst hid
    obtain ⟨e, he, hfe⟩ := mapMRes_ok_mem _ _ _ hes _ hoe
    exact ⟨e, he, deloopEdge_cases ops k circ birth death e _ hfe e' rfl⟩
  refine ⟨?_, ?_, ?_, ?_, ?_⟩
  · simp only [hkeys]; exact hwf.keys
  · exact hwf.edges.sublist hsub
  · intro e' he'
    obtain ⟨e, he, hk, _⟩ := hmem e' he'
    simp only [hkeys, hk]
    exact hwf.ends e he
  · intro e' he'
    obtain ⟨e, he, hk, _⟩ := hmem e' he'
    rw [hk]; exact hwf.deg e he
  · intro e' he'
    obtain ⟨e, he, _, h2⟩ := hmem e' he'
    rcases h2 with rfl | h2
    · exact hwf.nonzero _ he
    · exact h2

theorem wf_deloop (ops : EdgeOps E) (cx cx' : Cx E) (k : TKey) (r : Nat) (upd : List TKey) (hwf : WF ops cx)
    (h : cx.deloop ops k r = .ok (upd, cx')) : WF ops cx' := by
  unfold Cx.deloop at h
  split at h
  · cases h
  · split at h
    · cases h
    · split at h
      · cases h
      · simp only at h
        split at h
        · split at h
          · rename_i c1 h1
            split at h
            · rename_i c2 h2
              cases h
              exact wf_deloopWith ops c1 _ _ _ _ _ (wf_renameKey ops cx c1 _ _ hwf (weight_push k .X) h1) h2
            · cases h
            · cases h
          · cases h
          · cases h
        · split at h
          · rename_i c1 h1
            split at h
            · rename_i c2 h2
              split at h
              · rename_i c3 h3
                split at h
                · rename_i c4 h4
                  cases h
                  have w1 := wf_renameKey ops cx c1 _ _ hwf (weight_push k .X) h1
                  have w2 := wf_duplicateKey ops c1 c2 (k.push .X) (k.push .I) w1 (by rfl) h2
                  have w3 := wf_deloopWith ops c2 c3 _ _ _ _ w2 h3
                  exact wf_deloopWith ops c3 _ _ _ _ _ w3 h4
                · cases h
                · cases h
              · cases h
              · cases h
            · cases h
            · cases h
          · cases h
          · cases h

/-- lookups after a key-preserving, possibly dropping, entry-wise update of an association list with unique keys -/
theorem lookup_filterMap_forall₂ {K V : Type} [BEq K] [LawfulBEq K] (R : K × V → Option (K × V) → Prop)
    (hkey : ∀ e e', R e (some e') → e'.1 = e.1) :
    ∀ (l : List (K × V)) (es : List (Option (K × V))), List.Forall₂ R l es → (l.map (·.1)).Nodup → ∀ q : K,
      (l.lookup q = none → (es.filterMap (fun x => x)).lookup q = none) ∧
      (∀ f, l.lookup q = some f → ∃ oe, R (q, f) oe ∧ (es.filterMap (fun x => x)).lookup q = oe.map (·.2)) := by
  intro l es h
  induction h with
  | nil => intro _ q; simp
  | @cons a b l' es' hab hrest ih =>
    intro hn q
    simp only [List.map_cons, List.nodup_cons] at hn
    have ih' := ih hn.2 q
    have hsub := forall₂_filterMap_keys_sublist R hkey l' es' hrest
    obtain ⟨ka, va⟩ := a
    by_cases hq : q = ka
    · subst hq
      have hnot : q ∉ (es'.filterMap (fun x => x)).map (·.1) := fun hm => hn.1 (hsub.subset hm)
      refine ⟨by simp, ?_⟩
      intro f hf
      simp at hf
      subst hf
      refine ⟨b, hab, ?_⟩
      cases b with
      | none => simpa using lookup_none_of_not_mem _ q hnot
      | some e' =>
        have := hkey _ e' hab
        obtain ⟨k', v'⟩ := e'
        simp only at this
        subst this
        simp
    · have hbq : (q == ka) = false := by simpa using hq
      have hl : ((ka, va) :: l').lookup q = l'.lookup q := by simp [List.lookup_cons, hbq]
      have hr : ((b :: es').filterMap (fun x => x)).lookup q = (es'.filterMap (fun x => x)).lookup q := by
        cases b with
        | none => simp
        | some e' =>
          have := hkey _ e' hab
          obtain ⟨k', v'⟩ := e'
          simp only at this
          subst this
          simp [List.lookup_cons, hbq]
      rw [hl, hr]
      exact ih'

/-- **what `deloop_with(k, r, birth, death)` does to the edges**: an edge INTO `k` is followed by the cap carrying
`death` (`cap_off(Tgt, circ, death).part_eval`), an edge OUT OF `k` is preceded by the cup carrying `birth`
(`cap_off(Src, circ, birth).part_eval`), a label that becomes zero is dropped; no other edge is touched and no edge
appears. -/
theorem deloopWith_edges (ops : EdgeOps E) (cx cx' : Cx E) (k : TKey) (r : Nat) (birth death : Dot)
    (hn : (cx.edges.map (·.1)).Nodup) (h : cx.deloopWith ops k r birth death = .ok cx') :
    ∃ t circ t', cx.tng? k = some t ∧ Tng.removeAt t r = .ok (circ, t') ∧
      cx'.verts = cx.verts.map (fun v => if v.1 = k then (v.1, t') else v) ∧
      ∀ a b : TKey,
        (cx.edge? a b = none → cx'.edge? a b = none) ∧
        (∀ f, cx.edge? a b = some f →
          (b = k → ∃ g, ops.capOff .tgt circ death f = .ok g ∧
            cx'.edge? a b = if ops.isZero g then none else some g) ∧
          (b ≠ k → a = k → ∃ g, ops.capOff .src circ birth f = .ok g ∧
            cx'.edge? a b = if ops.isZero g then none else some g) ∧
          (b ≠ k → a ≠ k → cx'.edge? a b = some f)) := by
  obtain ⟨t, circ, t', es, ht, hrm, hes, rfl⟩ := deloopWith_ok ops cx cx' k r birth death h
  refine ⟨t, circ, t', ht, hrm, rfl, ?_⟩
  intro a b
  have hF := mapMRes_ok_forall₂ _ _ _ hes
  have hl := lookup_filterMap_forall₂ (fun e oe => deloopEdge ops k circ birth death e = .ok oe)
    (fun e e' he => (deloopEdge_cases ops k circ birth death e _ he e' rfl).1) _ _ hF hn (a, b)
  refine ⟨hl.1, ?_⟩
  intro f hf
  obtain ⟨oe, hoe, hlook⟩ := hl.2 f hf
  have hlook' : Cx.edge? ({ cx with verts := cx.verts.map (fun v => if v.1 = k then (v.1, t') else v),
                                    edges := es.filterMap (fun x => x) } : Cx E) a b = oe.map (·.2) := hlook
  unfold deloopEdge at hoe
  simp only at hoe
  refine ⟨?_, ?_, ?_⟩
  · intro hb
    rw [if_pos hb] at hoe
    rcases hc : ops.capOff .tgt circ death f with g | _ | _
    · simp only [hc, Res.ok.injEq] at hoe
      refine ⟨g, rfl, ?_⟩
      rw [hlook', ← hoe]
      split <;> rfl
    · simp [hc] at hoe
    · simp [hc] at hoe
  · intro hb ha
    rw [if_neg hb, if_pos ha] at hoe
    rcases hc : ops.capOff .src circ birth f with g | _ | _
    · simp only [hc, Res.ok.injEq] at hoe
      refine ⟨g, rfl, ?_⟩
      rw [hlook', ← hoe]
      split <;> rfl
    · simp [hc] at hoe
    · simp [hc] at hoe
  · intro hb ha
    rw [if_neg hb, if_neg ha] at hoe
    simp only [Res.ok.injEq] at hoe
    rw [hlook', ← hoe]
    rfl

theorem deloopWith_keys (ops : EdgeOps E) (cx cx' : Cx E) (k : TKey) (r : Nat) (birth death : Dot)
    (h : cx.deloopWith ops k r birth death = .ok cx') : cx'.verts.map (·.1) = cx.verts.map (·.1) := by
  obtain ⟨t, circ, t', es, _, _, _, rfl⟩ := deloopWith_ok ops cx cx' k r birth death h
  simp only [List.map_map]
  apply List.map_congr_left
  intro v _
  simp only [Function.comp]
  split <;> rfl

theorem renameKey_keys (cx cx' : Cx E) (kOld kNew : TKey) (h : cx.renameKey kOld kNew = .ok cx') :
    cx'.verts.map (·.1) = (cx.verts.map (·.1)).map (renameFn kOld kNew) := by
  obtain ⟨_, _, _, rfl⟩ := renameKey_ok cx cx' kOld kNew h
  simp [List.map_map, Function.comp_def]

theorem duplicateKey_keys (cx cx' : Cx E) (k kNew : TKey) (h : cx.duplicateKey k kNew = .ok cx') :
    cx'.verts.map (·.1) = cx.verts.map (·.1) ++ [kNew] := by
  obtain ⟨_, t, _, _, rfl⟩ := duplicateKey_ok cx cx' k kNew h
  simp

/-! ### scripts -/

/-- one step of an explicit script on ONE complex (the steps the driver's `eg app / dl / el / con` requests perform) -/
inductive Step (E : Type) where
  | app (ct : KhRef.CT) (e : Array Nat)
  | dl (k : TKey) (r : Nat)
  | el (k0 k1 : TKey)
  | con (other : Cx E)

def applyStep (ops : EdgeOps E) (mkSdl : CobComp → E) (cx : Cx E) : Step E → Res (Cx E)
  | .app ct e => cx.appendX ops mkSdl ct e
  | .dl k r =>
    match cx.deloop ops k r with
    | .ok (_, cx') => .ok cx'
    | .panic => .panic
    | .err => .err
  | .el k0 k1 => cx.eliminate ops k0 k1
  | .con o => cx.connect ops o

/-- run a script; it stops at the first step that panics -/
def runScript (ops : EdgeOps E) (mkSdl : CobComp → E) (steps : List (Step E)) (cx : Cx E) : Res (Cx E) :=
  foldRes (applyStep ops mkSdl) steps cx

theorem wf_applyStep (ops : EdgeOps E) (mkSdl : CobComp → E) (cx cx' : Cx E) (st : Step E) (hwf : WF ops cx)
    (hcon : ∀ o, st = .con o → WF ops o) (h : applyStep ops mkSdl cx st = .ok cx') : WF ops cx' := by
  cases st with
  | app ct e => exact wf_appendX ops mkSdl cx cx' ct e hwf h
  | dl k r =>
    simp only [applyStep] at h
    rcases hd : cx.deloop ops k r with ⟨upd, c⟩ | _ | _
    · simp only [hd, Res.ok.injEq] at h
      subst h
      exact wf_deloop ops cx _ k r upd hwf hd
    · simp [hd] at h
    · simp [hd] at h
  | el k0 k1 => exact wf_eliminate ops cx cx' k0 k1 hwf h
  | con o => exact wf_connect ops cx o cx' hwf (hcon o rfl) h

/-! ### quantum degree of the keys produced by `deloop` -/

theorem foldl_add_shift (l : List Int) : ∀ a : Int, l.foldl (· + ·) a = a + l.foldl (· + ·) 0 := by
  induction l with
  | nil => intro a; simp
  | cons x l ih => intro a; simp only [List.foldl_cons]; rw [ih (a + x), ih (0 + x)]; omega

theorem qRel_push (k : TKey) (g : Deloop.AlgGen) : (k.push g).qRel = k.qRel + g.qShift := by
  unfold TKey.qRel TKey.push Deloop.AlgGen.qShift
  simp only [List.map_append, List.map_cons, List.map_nil, List.foldl_append, List.foldl_cons, List.foldl_nil,
    List.length_append, List.length_cons, List.length_nil]
  have : (⟨k.state, k.label ++ [g]⟩ : TKey).weight = k.weight := rfl
  rw [this]
  push_cast
  omega

/-- `Dot` of `Model/C05Deloop` (algebraic kernel) ↦ `Dot` of `Model/C05Tng` (structural model) -/
def dotOf : Deloop.Dot → Dot
  | .none => .none
  | .X => .X
  | .Y => .Y

/-! ### a toy edge algebra for the non-vacuity examples -/

/-- integers as edge labels: units `±1`, everything else by the ring operations -/
def toyOps : EdgeOps Int where
  isZero x := x == 0
  inv a := if a == 1 || a == -1 then .ok a else .panic
  cab c ainv b := .ok (c * ainv * b)
  sub := (· - ·)
  neg := (- ·)
  capOff _ _ _ f := .ok f
  hcompL f _ := .ok f
  hcompR neg f _ := .ok (if neg then -f else f)

def kA : TKey := ⟨[false, false], []⟩
def kB : TKey := ⟨[true, false], []⟩
def kC : TKey := ⟨[false, true], []⟩
def kD : TKey := ⟨[true, true], []⟩

/-- an anticommuting square `A → B, C → D` with `A → B` invertible -/
def toySquare : Cx Int :=
  ⟨0, 0, none, 2, [(kA, []), (kB, []), (kC, []), (kD, [])],
   [((kA, kB), 1), ((kA, kC), 2), ((kB, kD), 2), ((kC, kD), -1)]⟩

/-- a pivot with neighbours on both sides: `u → k1` (b = 3), `k0 → w` (c = 5), `u → w` (d = 7), `a = −1`:
the new entry is `7 − 5·(−1)·3 = 22` -/
def toyZ : Cx Int :=
  ⟨0, 0, none, 1, [(⟨[false], [.X]⟩, []), (⟨[false], [.I]⟩, []), (⟨[true], [.X]⟩, []), (⟨[true], [.I]⟩, [])],
   [((⟨[false], [.X]⟩, ⟨[true], [.X]⟩), -1), ((⟨[false], [.I]⟩, ⟨[true], [.X]⟩), 3),
    ((⟨[false], [.X]⟩, ⟨[true], [.I]⟩), 5), ((⟨[false], [.I]⟩, ⟨[true], [.I]⟩), 7)]⟩



end graph
end Yuiv.C05.Engine

