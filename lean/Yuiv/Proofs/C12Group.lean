import Yuiv.Proofs.C12UF
import Mathlib.Tactic.Common

namespace Yuiv.C12
open Yuiv Relation UF

/-! ### `group_cols`: the result does not depend on the order in which the loop bodies run -/

set_option linter.unusedSectionVars false
variable {α : Type} [Scal α]

/-- adding a pair that is already related does not change the closure -/
theorem UF.Rep.add_related {u : UF} {n : Nat} {R : Nat → Nat → Prop} (h : Rep u n R) (i j : Nat)
    (hij : EqvGen R i j) : Rep u n (fun a b => R a b ∨ (a = i ∧ b = j)) := by
  refine ⟨h.good, fun x y hx hy rx ry h1 h2 => (h.rel x y hx hy rx ry h1 h2).trans ?_⟩
  rw [eqvGen_insert]
  constructor
  · exact Or.inl
  · rintro (h0 | ⟨a, b⟩ | ⟨a, b⟩)
    · exact h0
    · exact EqvGen.trans _ _ _ a (EqvGen.trans _ _ _ hij b)
    · exact EqvGen.trans _ _ _ a (EqvGen.trans _ _ _ (EqvGen.symm _ _ hij) b)

/-- the loop of `group_cols` (bodies in the order `pairs`, any predicate `inter` in place of `col_intersects`):
no panic, and the final state represents the closure of the intersecting pairs -/
theorem unionLoop_rep (A : SpMat α) (cols : Array Nat) {u : UF} {n : Nat} {R : Nat → Nat → Prop} (h : Rep u n R)
    (pairs : List (Nat × Nat)) (hp : ∀ e ∈ pairs, e.1 < n ∧ e.2 < n) :
    ∃ u', unionLoop A cols u pairs = .ok u' ∧
      Rep u' n (fun a b => R a b ∨ ((a, b) ∈ pairs ∧
        intersects (rowIdx A (cols.getD a 0)) (rowIdx A (cols.getD b 0)) = true)) := by
  induction pairs generalizing u R with
  | nil => exact ⟨u, rfl, h.congr (by simp)⟩
  | cons e es ih =>
    obtain ⟨hi, hj⟩ := hp e (by simp)
    have hes : ∀ e' ∈ es, e'.1 < n ∧ e'.2 < n := fun e' h' => hp e' (by simp [h'])
    obtain ⟨b, hb, hiff⟩ := h.isSame_iff e.1 e.2 hi hj
    unfold unionLoop
    rw [hb]
    simp only
    by_cases hc : (!b && intersects (rowIdx A (cols.getD e.1 0)) (rowIdx A (cols.getD e.2 0))) = true
    · rw [if_pos hc]
      have hint : intersects (rowIdx A (cols.getD e.1 0)) (rowIdx A (cols.getD e.2 0)) = true := by
        simp only [Bool.and_eq_true] at hc; exact hc.2
      obtain ⟨u1, h1, hr1⟩ := union_rep h e.1 e.2 hi hj
      rw [h1]
      simp only
      obtain ⟨u2, h2, hr2⟩ := ih hr1 hes
      refine ⟨u2, h2, hr2.congr (fun a b' => ?_)⟩
      simp only [List.mem_cons, Prod.ext_iff]
      constructor
      · rintro ((h0 | ⟨rfl, rfl⟩) | ⟨h3, h4⟩)
        · exact Or.inl h0
        · exact Or.inr ⟨Or.inl ⟨rfl, rfl⟩, hint⟩
        · exact Or.inr ⟨Or.inr h3, h4⟩
      · rintro (h0 | ⟨(⟨h5, h6⟩ | h3), h4⟩)
        · exact Or.inl (Or.inl h0)
        · exact Or.inl (Or.inr ⟨h5, h6⟩)
        · exact Or.inr ⟨h3, h4⟩
    · rw [if_neg hc]
      -- either already the same class, or the columns do not intersect
      by_cases hint : intersects (rowIdx A (cols.getD e.1 0)) (rowIdx A (cols.getD e.2 0)) = true
      · have hbt : b = true := by
          cases b
          · rw [Bool.not_false, Bool.true_and] at hc; exact absurd hint hc
          · rfl
        have hr1 := h.add_related e.1 e.2 (hiff.1 hbt)
        obtain ⟨u2, h2, hr2⟩ := ih hr1 hes
        refine ⟨u2, h2, hr2.congr (fun a b' => ?_)⟩
        simp only [List.mem_cons, Prod.ext_iff]
        constructor
        · rintro ((h0 | ⟨rfl, rfl⟩) | ⟨h3, h4⟩)
          · exact Or.inl h0
          · exact Or.inr ⟨Or.inl ⟨rfl, rfl⟩, hint⟩
          · exact Or.inr ⟨Or.inr h3, h4⟩
        · rintro (h0 | ⟨(⟨h5, h6⟩ | h3), h4⟩)
          · exact Or.inl (Or.inl h0)
          · exact Or.inl (Or.inr ⟨h5, h6⟩)
          · exact Or.inr ⟨h3, h4⟩
      · obtain ⟨u2, h2, hr2⟩ := ih h hes
        refine ⟨u2, h2, hr2.congr (fun a b' => ?_)⟩
        simp only [List.mem_cons, Prod.ext_iff]
        constructor
        · rintro (h0 | ⟨h3, h4⟩)
          · exact Or.inl h0
          · exact Or.inr ⟨Or.inr h3, h4⟩
        · rintro (h0 | ⟨(⟨h5, h6⟩ | h3), h4⟩)
          · exact Or.inl h0
          · rw [h5, h6] at h4; exact absurd h4 hint
          · exact Or.inr ⟨h3, h4⟩

/-- **`group_cols` is independent of the order (and multiplicity) in which the mutex-protected loop bodies run** -/
theorem groupColsWith_perm (A : SpMat α) (pairs pairs' : List (Nat × Nat))
    (hmem : ∀ e, e ∈ pairs ↔ e ∈ pairs')
    (hp : ∀ e ∈ pairs, e.1 < ((List.range A.ncols).filter fun j => !(col A j).isEmpty).length ∧
      e.2 < ((List.range A.ncols).filter fun j => !(col A j).isEmpty).length) :
    groupColsWith A pairs = groupColsWith A pairs' := by
  unfold groupColsWith
  simp only
  split
  · rfl
  · obtain ⟨u, h1, hr⟩ := unionLoop_rep A ((List.range A.ncols).filter fun j => !(col A j).isEmpty).toArray
      (new_rep _) pairs hp
    obtain ⟨u', h1', hr'⟩ := unionLoop_rep A ((List.range A.ncols).filter fun j => !(col A j).isEmpty).toArray
      (new_rep _) pairs' (fun e he => hp e ((hmem e).2 he))
    rw [h1, h1']
    simp only
    rw [group_determined hr hr' (fun a b => eqvGen_congr (fun a b => by rw [hmem]) a b)]

/-- the sequential double loop never panics and its classes are the closure of "the two columns share a row" -/
theorem groupCols_closure (A : SpMat α) :
    ∃ u, unionLoop A ((List.range A.ncols).filter fun j => !(col A j).isEmpty).toArray
        (UF.new ((List.range A.ncols).filter fun j => !(col A j).isEmpty).length)
        (allPairs ((List.range A.ncols).filter fun j => !(col A j).isEmpty).length) = .ok u ∧
      Rep u ((List.range A.ncols).filter fun j => !(col A j).isEmpty).length
        (fun a b => (a, b) ∈ allPairs ((List.range A.ncols).filter fun j => !(col A j).isEmpty).length ∧
          intersects (rowIdx A (((List.range A.ncols).filter fun j => !(col A j).isEmpty).toArray.getD a 0))
            (rowIdx A (((List.range A.ncols).filter fun j => !(col A j).isEmpty).toArray.getD b 0)) = true) := by
  obtain ⟨u, h1, hr⟩ := unionLoop_rep A ((List.range A.ncols).filter fun j => !(col A j).isEmpty).toArray
    (new_rep ((List.range A.ncols).filter fun j => !(col A j).isEmpty).length)
    (allPairs ((List.range A.ncols).filter fun j => !(col A j).isEmpty).length) (by
      intro e he
      unfold allPairs at he
      obtain ⟨i, hi, hd⟩ := List.mem_flatMap.1 he
      obtain ⟨d, hd', rfl⟩ := List.mem_map.1 hd
      have := List.mem_range.1 hi
      have := List.mem_range.1 hd'
      constructor <;> simp only <;> omega)
  exact ⟨u, h1, hr.congr (by simp)⟩

/-! ### `col_intersects` -/

theorem intersects_iff (l1 l2 : List Nat) (h1 : l1.Pairwise (· < ·)) (h2 : l2.Pairwise (· < ·)) :
    intersects l1 l2 = true ↔ ∃ x, x ∈ l1 ∧ x ∈ l2 := by
  fun_induction intersects l1 l2 with
  | case1 l => simp
  | case2 a as => simp
  | case3 a as b bs hab ih =>
    rw [ih (List.Pairwise.of_cons h1) h2]
    have hb : ∀ {x}, x ∈ bs → b < x := fun hx => List.rel_of_pairwise_cons h2 hx
    constructor
    · rintro ⟨x, hx1, hx2⟩; exact ⟨x, List.mem_cons_of_mem _ hx1, hx2⟩
    · rintro ⟨x, hx1, hx2⟩
      rcases List.mem_cons.1 hx1 with rfl | hx1
      · rcases List.mem_cons.1 hx2 with rfl | hx2
        · omega
        · have := hb hx2; omega
      · exact ⟨x, hx1, hx2⟩
  | case4 a as b bs hab heq =>
    have : a = b := by simpa using heq
    subst this
    simp
  | case5 a as b bs hab hne ih =>
    have hne' : a ≠ b := by simpa using hne
    rw [ih h1 (List.Pairwise.of_cons h2)]
    have ha : ∀ {x}, x ∈ as → a < x := fun hx => List.rel_of_pairwise_cons h1 hx
    constructor
    · rintro ⟨x, hx1, hx2⟩; exact ⟨x, hx1, List.mem_cons_of_mem _ hx2⟩
    · rintro ⟨x, hx1, hx2⟩
      rcases List.mem_cons.1 hx2 with rfl | hx2
      · rcases List.mem_cons.1 hx1 with rfl | hx1
        · omega
        · have := ha hx1; omega
      · exact ⟨x, hx1, hx2⟩

end Yuiv.C12
