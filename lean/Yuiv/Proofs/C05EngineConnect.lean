import Yuiv.Proofs.C05Engine
/-
C05 (engine) — what `TngComplex::connect` of the MODEL builds: the vertex list of the product, soundness (every edge
is one of the product edges `D(f, 1)`, `±D(1, g)`) and completeness (every non-zero product edge is there).
Model-level facts, no algebra; the algebra is in `Proofs/C05EngineConnectDD.lean`.
-/
namespace Yuiv.C05.Engine
open Yuiv Yuiv.C05 Yuiv.C05.Tng

variable {E : Type}

/-- the key of a product vertex -/
def pkey (p : TKey × TKey) : TKey := p.1.append p.2

/-- `foldRes` with an invariant that knows the processed prefix -/
theorem foldRes_prefix {α β : Type} (P : β → List α → Prop) (f : β → α → Res β)
    (hstep : ∀ b pre a b', P b pre → f b a = .ok b' → P b' (pre ++ [a])) :
    ∀ (l pre : List α) (b r : β), P b pre → foldRes f l b = .ok r → P r (pre ++ l)
  | [], pre, b, r, hb, h => by simp [foldRes] at h; subst h; simpa using hb
  | a :: l, pre, b, r, hb, h => by
    unfold foldRes at h
    rcases hf : f b a with b' | _ | _
    · simp only [hf] at h
      have := foldRes_prefix P f hstep l (pre ++ [a]) b' r (hstep b pre a b' hb hf) h
      simpa using this
    · simp [hf] at h
    · simp [hf] at h

theorem addVertex_ok (cx cx' : Cx E) (k : TKey) (t : Tng) (h : cx.addVertex k t = .ok cx') :
    k ∉ cx.verts.map (·.1) ∧ cx' = { cx with verts := cx.verts ++ [(k, t)] } := by
  unfold Cx.addVertex at h
  split at h
  · cases h
  · rename_i hk
    cases h
    exact ⟨(hasKey_false_iff cx k).1 (by simpa using hk), rfl⟩

theorem addEdge_ok (ops : EdgeOps E) (cx cx' : Cx E) (k l : TKey) (f : E) (h : cx.addEdge ops k l f = .ok cx') :
    ops.isZero f = false ∧ cx' = { cx with edges := cx.edges ++ [((k, l), f)] } := by
  unfold Cx.addEdge at h
  split at h
  · cases h
  · split at h
    · cases h
    · split at h
      · cases h
      · rename_i hz
        cases h
        exact ⟨by simpa using hz, rfl⟩

/-- the inner loop of `connect_edges`: the edges of one product vertex -/
theorem addProductEdges_spec (ops : EdgeOps E) : ∀ (es : List ((TKey × TKey) × E)) (b b' : Cx E),
    foldRes (addProductEdge ops) es b = .ok b' →
      b'.verts = b.verts ∧ (∀ e ∈ b.edges, e ∈ b'.edges) ∧ (∀ e ∈ b'.edges, e ∈ b.edges ∨ e ∈ es) ∧
      (∀ e ∈ es, b.hasKey e.1.2 = true → ops.isZero e.2 = false → e ∈ b'.edges)
  | [], b, b', h => by
    simp [foldRes] at h; subst h
    exact ⟨rfl, fun e he => he, fun e he => .inl he, by simp⟩
  | e :: es, b, b', h => by
    unfold foldRes at h
    rcases hf : addProductEdge ops b e with b1 | _ | _
    · simp only [hf] at h
      obtain ⟨hv, hm, hs, hc⟩ := addProductEdges_spec ops es b1 b' h
      unfold addProductEdge at hf
      split at hf
      · rename_i hcond
        obtain ⟨_, rfl⟩ := addEdge_ok ops b b1 _ _ _ hf
        refine ⟨hv, fun x hx => hm x (List.mem_append_left _ hx), ?_, ?_⟩
        · intro x hx
          rcases hs x hx with h1 | h1
          · rcases List.mem_append.1 h1 with h2 | h2
            · exact .inl h2
            · simp only [List.mem_singleton] at h2
              exact .inr (h2 ▸ List.mem_cons_self)
          · exact .inr (List.mem_cons_of_mem _ h1)
        · intro x hx hk hz
          rcases List.mem_cons.1 hx with rfl | hx
          · exact hm _ (List.mem_append_right _ (by simp))
          · exact hc x hx hk hz
      · rename_i hcond
        cases hf
        refine ⟨hv, hm, fun x hx => (hs x hx).imp id (List.mem_cons_of_mem _), ?_⟩
        intro x hx hk hz
        rcases List.mem_cons.1 hx with rfl | hx
        · exfalso; apply hcond; simp [hk, hz]
        · exact hc x hx hk hz
    · simp [hf] at h
    · simp [hf] at h

/-- an edge of the product: one of the edges `productEdges` computes for some pair of vertices -/
def PE (ops : EdgeOps E) (left right : Cx E) (e : (TKey × TKey) × E) : Prop :=
  ∃ k0 l0 v0 w0 es, left.tng? k0 = some v0 ∧ right.tng? l0 = some w0 ∧
    productEdges ops left right k0 l0 v0 w0 = .ok es ∧ e ∈ es

/-- the pair has been handled as a source: all its product edges with an existing target (w.r.t. `keys`) and a
non-zero label are in `b` -/
def Done (ops : EdgeOps E) (left right : Cx E) (keys : TKey → Bool) (b : Cx E) (pr : TKey × TKey) : Prop :=
  ∃ v0 w0 es, left.tng? pr.1 = some v0 ∧ right.tng? pr.2 = some w0 ∧
    productEdges ops left right pr.1 pr.2 v0 w0 = .ok es ∧
    ∀ e ∈ es, keys e.1.2 = true → ops.isZero e.2 = false → e ∈ b.edges

theorem connectEdgeStep_spec (ops : EdgeOps E) (left right b b' : Cx E) (pr : TKey × TKey)
    (h : connectEdgeStep ops left right b pr = .ok b') :
    b'.verts = b.verts ∧ (∀ e ∈ b.edges, e ∈ b'.edges) ∧ (∀ e ∈ b'.edges, e ∈ b.edges ∨ PE ops left right e) ∧
    Done ops left right b.hasKey b' pr := by
  unfold connectEdgeStep at h
  split at h
  · rename_i v0 w0 hv hw
    split at h
    · rename_i es hes
      obtain ⟨h1, h2, h3, h4⟩ := addProductEdges_spec ops es b b' h
      exact ⟨h1, h2, fun e he => (h3 e he).imp id (fun hm => ⟨_, _, v0, w0, es, hv, hw, hes, hm⟩),
        ⟨v0, w0, es, hv, hw, hes, h4⟩⟩
    · cases h
    · cases h
  · cases h

theorem hasKey_congr (a b : Cx E) (h : a.verts = b.verts) : a.hasKey = b.hasKey := by
  funext k; unfold Cx.hasKey Cx.tng?; rw [h]

/-- one round of `connect_edges` -/
theorem connectEdges_spec (ops : EdgeOps E) (left right cx cx' : Cx E) (j : Int)
    (h : connectEdges ops left right j cx = .ok cx') :
    cx'.verts = cx.verts ∧ (∀ e ∈ cx.edges, e ∈ cx'.edges) ∧
    (∀ e ∈ cx'.edges, e ∈ cx.edges ∨ PE ops left right e) ∧
    (∀ pr ∈ collectKeys left right j, cx.hasKey (pkey pr) = true → Done ops left right cx.hasKey cx' pr) := by
  unfold connectEdges at h
  have key := foldRes_prefix
    (fun (b : Cx E) (pre : List (TKey × TKey)) => b.verts = cx.verts ∧ (∀ e ∈ cx.edges, e ∈ b.edges) ∧
      (∀ e ∈ b.edges, e ∈ cx.edges ∨ PE ops left right e) ∧ ∀ pr ∈ pre, Done ops left right cx.hasKey b pr)
    (connectEdgeStep ops left right) (by
      intro b pre a b' ⟨hv, hm, hs, hd⟩ hstep
      obtain ⟨h1, h2, h3, h4⟩ := connectEdgeStep_spec ops left right b b' a hstep
      refine ⟨h1.trans hv, fun e he => h2 e (hm e he), ?_, ?_⟩
      · intro e he
        rcases h3 e he with h5 | h5
        · exact hs e h5
        · exact .inr h5
      · intro pr hpr
        rcases List.mem_append.1 hpr with hp | hp
        · obtain ⟨v0, w0, es, a1, a2, a3, a4⟩ := hd pr hp
          exact ⟨v0, w0, es, a1, a2, a3, fun e he hk hz => h2 e (a4 e he hk hz)⟩
        · simp only [List.mem_singleton] at hp
          subst hp
          rw [hasKey_congr b cx hv] at h4
          exact h4)
    _ [] cx cx' ⟨rfl, fun e he => he, fun e he => .inl he, by simp⟩ h
  obtain ⟨hv, hm, hs, hd⟩ := key
  refine ⟨hv, hm, hs, ?_⟩
  intro pr hpr hk
  apply hd
  simp only [List.nil_append, List.mem_filter]
  exact ⟨hpr, hk⟩

/-! ### vertices -/

theorem connectVertices_spec (left right cx cx' : Cx E) (i : Int) (h : connectVertices left right i cx = .ok cx') :
    cx'.edges = cx.edges ∧ cx'.verts.map (·.1) = cx.verts.map (·.1) ++ (collectKeys left right i).map pkey := by
  unfold connectVertices at h
  have key := foldRes_prefix
    (fun (b : Cx E) (pre : List (TKey × TKey)) => b.edges = cx.edges ∧
      b.verts.map (·.1) = cx.verts.map (·.1) ++ pre.map pkey)
    (connectVertexStep left right) (by
      intro b pre a b' ⟨he, hv⟩ hstep
      unfold connectVertexStep at hstep
      split at hstep
      · split at hstep
        · obtain ⟨_, rfl⟩ := addVertex_ok b b' _ _ hstep
          exact ⟨he, by simp [hv, pkey]⟩
        · cases hstep
        · cases hstep
      · cases hstep)
    _ [] cx cx' ⟨rfl, by simp⟩ h
  simpa using key

theorem mem_hRange (cx : Cx E) (i : Int) : i ∈ cx.hRange ↔ cx.dh ≤ i ∧ i ≤ cx.dh + cx.dim := by
  unfold Cx.hRange
  simp only [List.mem_map, List.mem_range]
  constructor
  · rintro ⟨j, hj, rfl⟩; omega
  · rintro ⟨h1, h2⟩
    exact ⟨(i - cx.dh).toNat, by omega, by omega⟩

theorem mem_keysOf (cx : Cx E) (i : Int) (k : TKey) :
    k ∈ cx.keysOf i ↔ k ∈ cx.verts.map (·.1) ∧ (k.weight : Int) + cx.dh = i := by
  unfold Cx.keysOf
  simp only [List.mem_map, List.mem_filter, beq_iff_eq]
  constructor
  · rintro ⟨v, ⟨hv, hw⟩, rfl⟩; exact ⟨⟨v, hv, rfl⟩, hw⟩
  · rintro ⟨⟨v, hv, rfl⟩, hw⟩; exact ⟨v, ⟨hv, hw⟩, rfl⟩

theorem mem_collectKeys (left right : Cx E) (i : Int) (k l : TKey) :
    (k, l) ∈ collectKeys left right i ↔
      k ∈ left.verts.map (·.1) ∧ l ∈ right.verts.map (·.1) ∧ k.weight ≤ left.dim ∧
        (k.weight : Int) + left.dh + ((l.weight : Int) + right.dh) = i := by
  unfold collectKeys
  simp only [List.mem_flatMap, List.mem_map, mem_hRange, mem_keysOf, Prod.mk.injEq]
  constructor
  · rintro ⟨i1, ⟨h1, h2⟩, k', ⟨hk, hw⟩, l', ⟨hl, hw'⟩, rfl, rfl⟩
    exact ⟨hk, hl, by omega, by omega⟩
  · rintro ⟨hk, hl, hb, hd⟩
    exact ⟨(k.weight : Int) + left.dh, ⟨by omega, by omega⟩, k, ⟨hk, rfl⟩, l, ⟨hl, by omega⟩, rfl, rfl⟩

/-! ### the whole `connect` -/

/-- all weights are at most `dim` (true for everything the engine builds; `collect_keys` only looks at these) -/
def Bounded (cx : Cx E) : Prop := ∀ k ∈ cx.verts.map (·.1), k.weight ≤ cx.dim

/-- all product vertices in the order `connect` creates them -/
def allPairs (left right : Cx E) : List (TKey × TKey) :=
  ((List.range (left.dim + right.dim + 1)).map (fun (j : Nat) => left.dh + right.dh + (j : Int))).flatMap
    (collectKeys left right)

theorem connectInit_ok (left right new0 : Cx E) (h : connectInit left right = .ok new0) :
    new0 = ⟨left.dh + right.dh, left.dq + right.dq, left.base.or right.base, left.dim + right.dim, [], []⟩ := by
  unfold connectInit at h
  split at h
  · cases h; rfl
  · cases h

/-- the keys of the vertices of degree `i` of the product -/
def tgtPred (left right : Cx E) (i : Int) : TKey → Bool :=
  fun x => decide (∃ q ∈ collectKeys left right i, x = pkey q)

/-- the invariant of the round loop of `connect` -/
structure ConnInv (ops : EdgeOps E) (left right : Cx E) (b : Cx E) (pre : List Int) : Prop where
  verts : b.verts.map (·.1) = (pre.flatMap (collectKeys left right)).map pkey
  sound : ∀ e ∈ b.edges, PE ops left right e
  done : ∀ i ∈ pre, (i - 1) ∈ pre → ∀ pr ∈ collectKeys left right (i - 1),
    Done ops left right (tgtPred left right i) b pr

/-- `foldRes` with an invariant that knows the processed prefix and the rest of the list -/
theorem foldRes_prefix' {α β : Type} (full : List α) (P : β → List α → Prop) (f : β → α → Res β)
    (hstep : ∀ b pre a rest b', full = pre ++ a :: rest → P b pre → f b a = .ok b' → P b' (pre ++ [a])) :
    ∀ (l pre : List α) (b r : β), full = pre ++ l → P b pre → foldRes f l b = .ok r → P r full
  | [], pre, b, r, hfull, hb, h => by simp [foldRes] at h; subst h; simpa [hfull] using hb
  | a :: l, pre, b, r, hfull, hb, h => by
    unfold foldRes at h
    rcases hf : f b a with b' | _ | _
    · simp only [hf] at h
      exact foldRes_prefix' full P f hstep l (pre ++ [a]) b' r (by simp [hfull])
        (hstep b pre a l b' hfull hb hf) h
    · simp [hf] at h
    · simp [hf] at h

/-- splitting a list of consecutive integers -/
theorem consecutive_split (c : Int) (n : Nat) (pre rest : List Int) (i : Int)
    (h : (List.range n).map (fun (j : Nat) => c + (j : Int)) = pre ++ i :: rest) :
    (∀ x ∈ pre, x < i) ∧ (∀ x, c ≤ x → x < i → x ∈ pre) := by
  have hlen : pre.length < n := by
    have := congrArg List.length h
    simp at this
    omega
  have hi : i = c + (pre.length : Int) := by
    have := congrArg (fun l => l[pre.length]?) h
    simp [hlen] at this
    exact this.symm
  have hpre : pre = (List.range pre.length).map (fun (j : Nat) => c + (j : Int)) := by
    have := congrArg (List.take pre.length) h
    simp only [List.take_left', ← List.map_take, List.take_range] at this
    rw [Nat.min_eq_left (Nat.le_of_lt hlen)] at this
    exact this.symm
  constructor
  · intro x hx
    rw [hpre] at hx
    simp only [List.mem_map, List.mem_range] at hx
    obtain ⟨j, hj, rfl⟩ := hx
    omega
  · intro x h1 h2
    rw [hpre]
    simp only [List.mem_map, List.mem_range]
    exact ⟨(x - c).toNat, by omega, by omega⟩

theorem Done.mono (ops : EdgeOps E) (left right : Cx E) (keys keys' : TKey → Bool) (b b' : Cx E) (pr : TKey × TKey)
    (hk : ∀ x, keys' x = true → keys x = true) (hb : ∀ e ∈ b.edges, e ∈ b'.edges)
    (h : Done ops left right keys b pr) : Done ops left right keys' b' pr := by
  obtain ⟨v0, w0, es, a1, a2, a3, a4⟩ := h
  exact ⟨v0, w0, es, a1, a2, a3, fun e he hk' hz => hb e (a4 e he (hk _ hk') hz)⟩

theorem connectDegStep_inv (ops : EdgeOps E) (left right b b' : Cx E) (pre : List Int) (i : Int)
    (hlt : ∀ x ∈ pre, x < i)
    (hinv : ConnInv ops left right b pre) (h : connectDegStep ops left right b i = .ok b') :
    ConnInv ops left right b' (pre ++ [i]) := by
  unfold connectDegStep at h
  rcases hv : connectVertices left right i b with b1 | _ | _
  · simp only [hv] at h
    obtain ⟨he1, hv1⟩ := connectVertices_spec left right b b1 i hv
    obtain ⟨hv2, hm, hs, hd⟩ := connectEdges_spec ops left right b1 b' (i - 1) h
    have hkeys1 : b1.verts.map (·.1) = ((pre ++ [i]).flatMap (collectKeys left right)).map pkey := by
      rw [hv1, hinv.verts]; simp
    refine ⟨by rw [hv2]; exact hkeys1, ?_, ?_⟩
    · intro e he
      rcases hs e he with h1 | h1
      · exact hinv.sound e (he1 ▸ h1)
      · exact h1
    · intro i' hi' hi1 pr hpr
      rcases List.mem_append.1 hi' with hp | hp
      · have hlt' := hlt i' hp
        have hi1' : (i' - 1) ∈ pre := by
          rcases List.mem_append.1 hi1 with h' | h'
          · exact h'
          · simp only [List.mem_singleton] at h'; omega
        exact Done.mono ops left right _ _ b b' pr (fun _ hx => hx) (fun e he => hm e (he1 ▸ he))
          (hinv.done i' hp hi1' pr hpr)
      · simp only [List.mem_singleton] at hp
        subst hp
        have hi1' : (i' - 1) ∈ pre := by
          rcases List.mem_append.1 hi1 with h' | h'
          · exact h'
          · simp only [List.mem_singleton] at h'; omega
        have hk1 : b1.hasKey (pkey pr) = true := by
          rw [hasKey_iff, hkeys1]
          refine List.mem_map.2 ⟨pr, ?_, rfl⟩
          simp only [List.flatMap_append, List.mem_append, List.mem_flatMap]
          exact .inl ⟨i' - 1, hi1', hpr⟩
        refine Done.mono ops left right _ _ b' b' pr ?_ (fun e he => he) (hd pr hpr hk1)
        intro x hx
        simp only [tgtPred, decide_eq_true_eq] at hx
        obtain ⟨q, hq, rfl⟩ := hx
        rw [hasKey_iff, hkeys1]
        refine List.mem_map.2 ⟨q, ?_, rfl⟩
        simp only [List.flatMap_append, List.mem_append, List.mem_flatMap]
        exact .inr ⟨i', by simp, hq⟩
  · simp [hv] at h
  · simp [hv] at h

/-- the state after all rounds of `connect` -/
theorem connect_inv (ops : EdgeOps E) (left right cx' : Cx E) (h : left.connect ops right = .ok cx') :
    ConnInv ops left right cx'
      ((List.range (left.dim + right.dim + 1)).map (fun (j : Nat) => left.dh + right.dh + (j : Int))) := by
  unfold Cx.connect at h
  rcases h0 : connectInit left right with new0 | _ | _
  · simp only [h0] at h
    have hnew := connectInit_ok left right new0 h0
    have hr : new0.hRange =
        (List.range (left.dim + right.dim + 1)).map (fun (j : Nat) => left.dh + right.dh + (j : Int)) := by
      rw [hnew]; rfl
    rw [hr] at h
    refine foldRes_prefix' _ (ConnInv ops left right) (connectDegStep ops left right) ?_ _ [] new0 cx' (by simp)
      ?_ h
    · intro b pre a rest b' hfull hP hstep
      exact connectDegStep_inv ops left right b b' pre a (consecutive_split _ _ pre rest a hfull).1 hP hstep
    · rw [hnew]
      exact ⟨by simp, by simp, by simp⟩
  · simp [h0] at h
  · simp [h0] at h

/-! ### the product edges, one by one -/

/-- the sign rule of `connect_edges`: `(−1)^{weight(k0) − left.deg_shift.0}` is `−1` -/
def signNeg (left : Cx E) (k0 : TKey) : Bool := ((k0.weight : Int) - left.dh) % 2 != 0

theorem productEdges_ok (ops : EdgeOps E) (left right : Cx E) (k0 l0 : TKey) (v0 w0 : Tng)
    (es : List ((TKey × TKey) × E)) (h : productEdges ops left right k0 l0 v0 w0 = .ok es) :
    ∃ e1 e2,
      mapMRes (fun (e : (TKey × TKey) × E) =>
        match ops.hcompL e.2 w0 with
        | .ok g => .ok ((k0.append l0, e.1.2.append l0), g)
        | .panic => .panic
        | .err => .err) (left.edges.filter (fun e => e.1.1 = k0)) = .ok e1 ∧
      mapMRes (fun (e : (TKey × TKey) × E) =>
        match ops.hcompR (signNeg left k0) e.2 v0 with
        | .ok g => .ok ((k0.append l0, k0.append e.1.2), g)
        | .panic => .panic
        | .err => .err) (right.edges.filter (fun e => e.1.1 = l0)) = .ok e2 ∧
      es = e1 ++ e2 := by
  unfold productEdges at h
  simp only at h
  split at h
  · rename_i e1 e2 h1 h2
    cases h
    exact ⟨e1, e2, h1, h2, rfl⟩
  · cases h
  · cases h
  · cases h

/-- every product edge is `D(f, 1)` of a left edge or `±D(1, g)` of a right edge -/
theorem productEdges_mem (ops : EdgeOps E) (left right : Cx E) (k0 l0 : TKey) (v0 w0 : Tng)
    (es : List ((TKey × TKey) × E)) (h : productEdges ops left right k0 l0 v0 w0 = .ok es)
    (e : (TKey × TKey) × E) (he : e ∈ es) :
    (∃ a ∈ left.edges, a.1.1 = k0 ∧ ∃ g, ops.hcompL a.2 w0 = .ok g ∧ e = ((k0.append l0, a.1.2.append l0), g)) ∨
    (∃ a ∈ right.edges, a.1.1 = l0 ∧ ∃ g, ops.hcompR (signNeg left k0) a.2 v0 = .ok g ∧
      e = ((k0.append l0, k0.append a.1.2), g)) := by
  obtain ⟨e1, e2, h1, h2, rfl⟩ := productEdges_ok ops left right k0 l0 v0 w0 es h
  rcases List.mem_append.1 he with he | he
  · obtain ⟨a, ha, hfa⟩ := mapMRes_ok_mem _ _ _ h1 e he
    obtain ⟨ha1, ha2⟩ := List.mem_filter.1 ha
    rcases hg : ops.hcompL a.2 w0 with g | _ | _
    · simp only [hg, Res.ok.injEq] at hfa
      exact .inl ⟨a, ha1, by simpa using ha2, g, hg, hfa.symm⟩
    · simp [hg] at hfa
    · simp [hg] at hfa
  · obtain ⟨a, ha, hfa⟩ := mapMRes_ok_mem _ _ _ h2 e he
    obtain ⟨ha1, ha2⟩ := List.mem_filter.1 ha
    rcases hg : ops.hcompR (signNeg left k0) a.2 v0 with g | _ | _
    · simp only [hg, Res.ok.injEq] at hfa
      exact .inr ⟨a, ha1, by simpa using ha2, g, hg, hfa.symm⟩
    · simp [hg] at hfa
    · simp [hg] at hfa

theorem productEdges_mem_left (ops : EdgeOps E) (left right : Cx E) (k0 l0 : TKey) (v0 w0 : Tng)
    (es : List ((TKey × TKey) × E)) (h : productEdges ops left right k0 l0 v0 w0 = .ok es)
    (a : (TKey × TKey) × E) (ha : a ∈ left.edges) (hk : a.1.1 = k0) :
    ∃ g, ops.hcompL a.2 w0 = .ok g ∧ ((k0.append l0, a.1.2.append l0), g) ∈ es := by
  obtain ⟨e1, e2, h1, _, rfl⟩ := productEdges_ok ops left right k0 l0 v0 w0 es h
  obtain ⟨e, he, hfe⟩ := mapMRes_ok_mem' _ _ _ h1 a (List.mem_filter.2 ⟨ha, by simpa using hk⟩)
  rcases hg : ops.hcompL a.2 w0 with g | _ | _
  · simp only [hg, Res.ok.injEq] at hfe
    exact ⟨g, rfl, List.mem_append_left _ (hfe ▸ he)⟩
  · simp [hg] at hfe
  · simp [hg] at hfe

theorem productEdges_mem_right (ops : EdgeOps E) (left right : Cx E) (k0 l0 : TKey) (v0 w0 : Tng)
    (es : List ((TKey × TKey) × E)) (h : productEdges ops left right k0 l0 v0 w0 = .ok es)
    (a : (TKey × TKey) × E) (ha : a ∈ right.edges) (hk : a.1.1 = l0) :
    ∃ g, ops.hcompR (signNeg left k0) a.2 v0 = .ok g ∧ ((k0.append l0, k0.append a.1.2), g) ∈ es := by
  obtain ⟨e1, e2, _, h2, rfl⟩ := productEdges_ok ops left right k0 l0 v0 w0 es h
  obtain ⟨e, he, hfe⟩ := mapMRes_ok_mem' _ _ _ h2 a (List.mem_filter.2 ⟨ha, by simpa using hk⟩)
  rcases hg : ops.hcompR (signNeg left k0) a.2 v0 with g | _ | _
  · simp only [hg, Res.ok.injEq] at hfe
    exact ⟨g, rfl, List.mem_append_right _ (hfe ▸ he)⟩
  · simp [hg] at hfe
  · simp [hg] at hfe

theorem tng?_some_mem (cx : Cx E) (k : TKey) (t : Tng) (h : cx.tng? k = some t) : k ∈ cx.verts.map (·.1) := by
  rw [← hasKey_iff]; unfold Cx.hasKey; rw [h]; rfl

theorem mem_tng?_some (cx : Cx E) (k : TKey) (h : k ∈ cx.verts.map (·.1)) : ∃ t, cx.tng? k = some t := by
  have := (hasKey_iff cx k).2 h
  unfold Cx.hasKey at this
  exact Option.isSome_iff_exists.1 this

theorem weight_pkey (p : TKey × TKey) : (pkey p).weight = p.1.weight + p.2.weight := weight_append _ _

/-- **vertices of the product**: one vertex per pair, in the order of the rounds; `pkey` is injective on the pairs -/
theorem connect_verts (ops : EdgeOps E) (left right cx' : Cx E) (hl : WF ops left) (hr : WF ops right)
    (h : left.connect ops right = .ok cx') :
    cx'.verts.map (·.1) = (allPairs left right).map pkey ∧
    (∀ p ∈ allPairs left right, ∀ q ∈ allPairs left right, pkey p = pkey q → p = q) := by
  have hinv := connect_inv ops left right cx' h
  have hw := wf_connect ops left right cx' hl hr h
  refine ⟨hinv.verts, ?_⟩
  have hn : ((allPairs left right).map pkey).Nodup := by
    have := hw.keys
    rw [hinv.verts] at this
    exact this
  exact fun p hp q hq => List.inj_on_of_nodup_map hn hp hq

theorem mem_allPairs (left right : Cx E) (hbl : Bounded left) (hbr : Bounded right) (k l : TKey)
    (hk : k ∈ left.verts.map (·.1)) (hl : l ∈ right.verts.map (·.1)) : (k, l) ∈ allPairs left right := by
  unfold allPairs
  simp only [List.mem_flatMap, List.mem_map, List.mem_range]
  have h1 := hbl k hk
  have h2 := hbr l hl
  refine ⟨left.dh + right.dh + ((k.weight + l.weight : Nat) : Int), ⟨k.weight + l.weight, by omega, rfl⟩, ?_⟩
  rw [mem_collectKeys]
  exact ⟨hk, hl, h1, by push_cast; omega⟩

/-- **soundness**: every edge of the product is `D(f, 1) : (k0, l0) → (k1, l0)` for an edge `f : k0 → k1` of the left
factor, or `±D(1, g) : (k0, l0) → (k0, l1)` for an edge `g : l0 → l1` of the right factor -/
theorem connect_sound (ops : EdgeOps E) (left right cx' : Cx E) (h : left.connect ops right = .ok cx')
    (e : (TKey × TKey) × E) (he : e ∈ cx'.edges) :
    ∃ k0 l0 v0 w0, left.tng? k0 = some v0 ∧ right.tng? l0 = some w0 ∧
      ((∃ a ∈ left.edges, a.1.1 = k0 ∧ ∃ g, ops.hcompL a.2 w0 = .ok g ∧
          e = ((k0.append l0, a.1.2.append l0), g)) ∨
       (∃ a ∈ right.edges, a.1.1 = l0 ∧ ∃ g, ops.hcompR (signNeg left k0) a.2 v0 = .ok g ∧
          e = ((k0.append l0, k0.append a.1.2), g))) := by
  obtain ⟨k0, l0, v0, w0, es, h1, h2, h3, h4⟩ := (connect_inv ops left right cx' h).sound e he
  exact ⟨k0, l0, v0, w0, h1, h2, productEdges_mem ops left right k0 l0 v0 w0 es h3 e h4⟩

/-- the pair `(k0, l0)` was handled as a source provided it is not in the top degree -/
theorem connect_done (ops : EdgeOps E) (left right cx' : Cx E) (hbl : Bounded left) (hbr : Bounded right)
    (h : left.connect ops right = .ok cx') (k0 l0 : TKey)
    (hk : k0 ∈ left.verts.map (·.1)) (hl : l0 ∈ right.verts.map (·.1))
    (hnt : k0.weight + l0.weight < left.dim + right.dim) :
    Done ops left right (tgtPred left right
      (left.dh + right.dh + ((k0.weight + l0.weight : Nat) : Int) + 1)) cx' (k0, l0) := by
  have hinv := connect_inv ops left right cx' h
  have h1 := hbl k0 hk
  have h2 := hbr l0 hl
  have := hinv.done (left.dh + right.dh + ((k0.weight + l0.weight : Nat) : Int) + 1)
    (by simp only [List.mem_map, List.mem_range]; exact ⟨k0.weight + l0.weight + 1, by omega, by push_cast; omega⟩)
    (by simp only [List.mem_map, List.mem_range]; exact ⟨k0.weight + l0.weight, by omega, by push_cast; omega⟩)
    (k0, l0) (by rw [mem_collectKeys]; exact ⟨hk, hl, h1, by push_cast; omega⟩)
  exact this

/-- **completeness, left factor**: for an edge `f : k0 → k1` of the left factor and a vertex `l0` of the right one,
`D(f, 1)` is computed without panic and is in the product unless it is zero -/
theorem connect_complete_left (ops : EdgeOps E) (left right cx' : Cx E) (hl : WF ops left)
    (hbl : Bounded left) (hbr : Bounded right) (h : left.connect ops right = .ok cx')
    (a : (TKey × TKey) × E) (ha : a ∈ left.edges) (l0 : TKey) (w0 : Tng) (hw : right.tng? l0 = some w0) :
    ∃ g, ops.hcompL a.2 w0 = .ok g ∧
      (ops.isZero g = false → ((a.1.1.append l0, a.1.2.append l0), g) ∈ cx'.edges) := by
  obtain ⟨hk0, hk1⟩ := hl.ends a ha
  have hdeg := hl.deg a ha
  have hl0 := tng?_some_mem right l0 w0 hw
  have b1 := hbl _ hk1
  have b2 := hbr _ hl0
  obtain ⟨v0, w0', es, a1, a2, a3, a4⟩ := connect_done ops left right cx' hbl hbr h a.1.1 l0 hk0 hl0 (by omega)
  simp only at a1 a2 a3
  rw [hw] at a2; cases a2
  obtain ⟨g, hg, hmem⟩ := productEdges_mem_left ops left right a.1.1 l0 v0 w0 es a3 a ha rfl
  refine ⟨g, hg, fun hz => a4 _ hmem ?_ hz⟩
  simp only [tgtPred, decide_eq_true_eq]
  refine ⟨(a.1.2, l0), ?_, rfl⟩
  rw [mem_collectKeys]
  exact ⟨hk1, hl0, b1, by push_cast; omega⟩

/-- **completeness, right factor** -/
theorem connect_complete_right (ops : EdgeOps E) (left right cx' : Cx E) (hr : WF ops right)
    (hbl : Bounded left) (hbr : Bounded right) (h : left.connect ops right = .ok cx')
    (a : (TKey × TKey) × E) (ha : a ∈ right.edges) (k0 : TKey) (v0 : Tng) (hv : left.tng? k0 = some v0) :
    ∃ g, ops.hcompR (signNeg left k0) a.2 v0 = .ok g ∧
      (ops.isZero g = false → ((k0.append a.1.1, k0.append a.1.2), g) ∈ cx'.edges) := by
  obtain ⟨hl0, hl1⟩ := hr.ends a ha
  have hdeg := hr.deg a ha
  have hk0 := tng?_some_mem left k0 v0 hv
  have b1 := hbl _ hk0
  have b2 := hbr _ hl1
  obtain ⟨v0', w0, es, a1, a2, a3, a4⟩ := connect_done ops left right cx' hbl hbr h k0 a.1.1 hk0 hl0 (by omega)
  simp only at a1 a2 a3
  rw [hv] at a1; cases a1
  obtain ⟨g, hg, hmem⟩ := productEdges_mem_right ops left right k0 a.1.1 v0 w0 es a3 a ha rfl
  refine ⟨g, hg, fun hz => a4 _ hmem ?_ hz⟩
  simp only [tgtPred, decide_eq_true_eq]
  refine ⟨(k0, a.1.2), ?_, rfl⟩
  rw [mem_collectKeys]
  exact ⟨hk0, hl1, b1, by push_cast; omega⟩

end Yuiv.C05.Engine
