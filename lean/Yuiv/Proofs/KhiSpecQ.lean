import Yuiv.Proofs.KhiSpecBigr
import Yuiv.Proofs.KhiSpecClosed
import Yuiv.Proofs.KhSpecQDeg
/-
KhiSpec — quantum degree: for `h = t = 0` the cone differential `dI` preserves the quantum degree of the underlying cube
generator (`Cube.d`: `Proofs/KhSpecQDeg.qDeg_preserved`, applied to the cube without base point, of which the reduced
differential is a sub-list; `τ`: `Props/C19Inv.icube_tau_qdeg`); the slices of constant quantum degree are families `Fam`.
-/
namespace Yuiv.KhiSpec
open Yuiv Yuiv.KhRef Yuiv.C19 Yuiv.C06Cycle Yuiv.C19Inv Yuiv.C19Comm Yuiv.C19Cone Matrix

/-- `Cube.d` preserves the quantum degree (`h = t = 0`), also in the reduced theory -/
theorem dK_qdeg (l : InvLink) (p : Params) (hh : p.h = 0) (ht : p.t = 0) (ic : ICube) (hic : mkICube l p = some ic)
    (hok : khiInstanceOk l p = true) (g : Gen) (hs : g.s < 2 ^ ic.cube.n) (hm : g.mask < 2 ^ (ic.cube.circ[g.s]!).size)
    (q0 : Int) (y : Gen) (hy : y ∈ dK ic.cube p g) : ic.cube.qDeg q0 y = ic.cube.qDeg q0 g := by
  obtain ⟨_, hL, _, _, ic', hic', hcube, _⟩ := khi_instance_ok_meaning l p hok
  rw [hic] at hic'
  cases hic'
  obtain ⟨hc, _⟩ := mkICube_tst l p ic hic
  rw [dK_eq] at hy
  unfold dList at hy
  cases hr : dRaw ic.cube p g with
  | none => rw [hr] at hy; simp [oddSupp] at hy
  | some raw =>
    rw [hr] at hy
    simp only [Option.map_some, Option.getD_some] at hy
    unfold oddSupp at hy
    obtain ⟨t, ht', rfl⟩ := List.mem_map.1 hy
    have htr : t ∈ raw := (List.mem_filter.1 (List.mem_filter.1 ht').1).1
    have hd0 : ({ ic.cube with base := none } : Cube).d p g = some raw.toArray := by
      rw [C01Sq.d_of_base_none _ rfl]
      show (dRaw ic.cube p g).map List.toArray = _
      rw [hr]; rfl
    have hP : ∀ s s', s < 2 ^ ic.cube.n → s' < 2 ^ ic.cube.n →
        C02Mirror.Pair (ic.cube.circ[s]!) (ic.cube.circ[s']!) := by
      intro s s' h1 h2
      rw [hc] at h1 h2 ⊢
      exact C02Mirror.cube_pair l.link p hL s s' h1 h2
    exact KhSpec.qDeg_preserved ({ ic.cube with base := none } : Cube) p hh ht rfl hcube hP g hs hm raw.toArray hd0 q0 t
      (by simpa using htr)

/-- the cone differential preserves the quantum degree of the underlying cube generator -/
theorem dI_qdeg (l : InvLink) (p : Params) (hh : p.h = 0) (ht : p.t = 0) (ic : ICube) (hic : mkICube l p = some ic)
    (hok : khiInstanceOk l p = true) (G : GensOk ic p) (q0 : Int) (i : Nat) (x : IGen) (hx : x ∈ cgens ic i)
    (y : IGen) (hy : y ∈ dI ic p x) : ic.cube.qDeg q0 y.2 = ic.cube.qDeg q0 x.2 := by
  obtain ⟨gs, hgs, hg⟩ := coneGens_mem _ _ i x hx
  obtain ⟨h1, h2, _⟩ := G.valid gs hgs x.2 hg
  have hwf : icubeWf ic = true := by
    obtain ⟨ic', hic', hwf, _⟩ := khi_instance_ok_sound l p hok
    rw [hic] at hic'; cases hic'; exact hwf
  obtain ⟨b, g⟩ := x
  cases b
  · simp only [dI, List.mem_append, List.mem_map, List.mem_cons, List.not_mem_nil, or_false] at hy
    rcases hy with ⟨y', hy', rfl⟩ | rfl | rfl
    · exact dK_qdeg l p hh ht ic hic hok g h1 h2 q0 y' hy'
    · rfl
    · exact icube_tau_qdeg ic hwf q0 g h1
  · simp only [dI, List.mem_map] at hy
    obtain ⟨y', hy', rfl⟩ := hy
    exact dK_qdeg l p hh ht ic hic hok g h1 h2 q0 y' hy'

/-! ### the slices -/

/-- the cone generators of degree `i` and quantum degree `q` -/
def sliceQ (ic : ICube) (q0 q : Int) : Array (Array IGen) :=
  gqOf ic.cube q0 q (coneGens ic.cube (kgensOf ic.cube))

theorem sliceQ_size (ic : ICube) (q0 q : Int) : (sliceQ ic q0 q).size = ic.cube.n + 2 := by
  simp [sliceQ, gqOf, coneGens_size]

theorem sliceQ_get (ic : ICube) (q0 q : Int) (i : Nat) :
    (sliceQ ic q0 q)[i]! = (cgens ic i).filter (fun x => ic.cube.qDeg q0 x.2 == q) := by
  unfold sliceQ gqOf cgens
  by_cases hi : i < (coneGens ic.cube (kgensOf ic.cube)).size
  · rw [getElem!_pos _ i (by simpa using hi), getElem!_pos _ i hi]
    simp
  · rw [getElem!_neg _ i (by simpa using hi), getElem!_neg _ i hi]
    rfl

theorem mem_sliceQ (ic : ICube) (q0 q : Int) (i : Nat) (x : IGen) :
    x ∈ (sliceQ ic q0 q)[i]! ↔ x ∈ cgens ic i ∧ ic.cube.qDeg q0 x.2 = q := by
  rw [sliceQ_get, Array.mem_filter]
  simp

theorem fam_sliceQ (l : InvLink) (p : Params) (hh : p.h = 0) (ht : p.t = 0) (ic : ICube) (hic : mkICube l p = some ic)
    (hok : khiInstanceOk l p = true) (G : GensOk ic p) (q0 q : Int) : Fam ic p (sliceQ ic q0 q) := by
  have hcone := (enumerated_ok l p ic hic hok G).2
  refine ⟨?_, ?_, ?_, ?_⟩
  · intro i
    rw [sliceQ_get, Array.toList_filter]
    exact (G.nodup i).filter _
  · intro i hi x hx y hy
    rw [sliceQ_size] at hi
    obtain ⟨hx1, hx2⟩ := (mem_sliceQ ic q0 q i x).1 hx
    refine (mem_sliceQ ic q0 q (i + 1) y).2 ⟨G.closed i (by rw [coneGens_size]; exact hi) x hx1 y hy, ?_⟩
    rw [dI_qdeg l p hh ht ic hic hok G q0 i x hx1 y hy, hx2]
  · intro i x hx
    exact coneGens_mem _ _ i x ((mem_sliceQ ic q0 q i x).1 hx).1
  · intro i x hx
    exact hcone i x ((mem_sliceQ ic q0 q i x).1 hx).1

/-- the `q`-check of the bigraded branch never fires -/
theorem qcheck_passes (l : InvLink) (p : Params) (hh : p.h = 0) (ht : p.t = 0) (ic : ICube) (hic : mkICube l p = some ic)
    (hok : khiInstanceOk l p = true) (G : GensOk ic p) (q0 q : Int) :
    ∀ gs ∈ sliceQ ic q0 q, ∀ x ∈ gs,
      ((reduce2 (dIm ic p x)).any fun y => ic.cube.qDeg q0 y.snd != q) = false := by
  intro gs hgs x hx
  obtain ⟨i, hi, rfl⟩ := Array.mem_iff_getElem.1 hgs
  have hx' : x ∈ (sliceQ ic q0 q)[i]! := by rw [getElem!_pos _ i hi]; exact hx
  obtain ⟨hx1, hx2⟩ := (mem_sliceQ ic q0 q i x).1 hx'
  cases hany : (reduce2 (dIm ic p x)).any fun y => ic.cube.qDeg q0 y.snd != q with
  | false => rfl
  | true =>
    exfalso
    obtain ⟨y, hy, hne⟩ := Array.any_eq_true'.1 hany
    rw [mem_reduce2, dIm_eq ic p i x hx1, dIA_toList] at hy
    have hy' : y ∈ dI ic p x := by
      apply List.count_pos_iff.1
      omega
    have := dI_qdeg l p hh ht ic hic hok G q0 i x hx1 y hy'
    rw [this, hx2] at hne
    simp at hne

end Yuiv.KhiSpec
