import Yuiv.Proofs.C06CycleMerge
/-
C06Cycle — `neighbour_conn`: the arc relation of the state `s ||| 1 <<< k` in terms of the arc relation of `s`, for a
valid diagram, when the two arcs of the flipped crossing lie on different circles of `s` (helper, no property theorem).
-/
namespace Yuiv.C06Cycle
open Yuiv Yuiv.KhRef Yuiv.C04Inv
open Relation

theorem validK_spec (l : Link) (hv : validK l = true) :
    (∀ c ∈ l, c.e.size = 4) ∧ ∀ x ∈ slotLabels l, (slotLabels l).count x = 2 := by
  unfold validK at hv
  rw [Bool.and_eq_true, Array.all_eq_true_iff_forall_mem, List.all_eq_true] at hv
  exact ⟨fun c hc => by simpa using hv.1 c hc, fun x hx => by simpa using hv.2 x hx⟩

theorem wf_of_validK (l : Link) (hv : validK l = true) : WF l := (validK_spec l hv).1

section
open Classical

/-- abstract core: `x` is the crossing at position `j`; `t0`, `t1` its types in the two states; `a—b`, `c—d` its arcs
in the first state, `a—d`, `b—c` in the second -/
theorem conn_flip_core (cs : List Crossing) (ts ts' : List CT) (j : Nat) (x : Crossing) (t0 t1 : CT)
    (a b c d : Nat)
    (hwf : ∀ c ∈ cs, c.e.size = 4)
    (hcnt : ∀ u ∈ cs.flatMap (fun c => c.e.toList), (cs.flatMap (fun c => c.e.toList)).count u = 2)
    (hres : ∀ t ∈ ts, t.isResolved = true) (hlen : cs.length = ts.length)
    (hx : cs[j]? = some x) (h0 : ts[j]? = some t0) (h1 : ts'[j]? = some t1)
    (hsame : ∀ j', j' ≠ j → ts'[j']? = ts[j']?)
    (hperm : x.e.toList.Perm [a, b, c, d])
    (hs0 : ∀ p ∈ arcs x t0, p = (a, b) ∨ p = (b, a) ∨ p = (c, d) ∨ p = (d, c))
    (hs1 : ∀ p ∈ arcs x t1, p = (a, d) ∨ p = (d, a) ∨ p = (b, c) ∨ p = (c, b))
    (hab : (a, b) ∈ arcs x t0 ∨ (b, a) ∈ arcs x t0) (hcd : (c, d) ∈ arcs x t0 ∨ (d, c) ∈ arcs x t0)
    (had : (a, d) ∈ arcs x t1 ∨ (d, a) ∈ arcs x t1) :
    Conn (pairsL cs ts) a b ∧ Conn (pairsL cs ts) c d ∧
    (¬ Conn (pairsL cs ts) a c → ∀ u v, Conn (pairsL cs ts') u v ↔
      Conn (pairsL cs ts) u v ∨
        ((Conn (pairsL cs ts) u a ∨ Conn (pairsL cs ts) u c) ∧ (Conn (pairsL cs ts) v a ∨ Conn (pairsL cs ts) v c))) := by
  -- the arcs of the other crossings
  let Q : Nat → Nat → Prop := fun u v =>
    ∃ (j' : Nat) (c' : Crossing) (t' : CT), j' ≠ j ∧ cs[j']? = some c' ∧ ts[j']? = some t' ∧ (u, v) ∈ arcs c' t'
  have hP : ∀ u v, pairRel (pairsL cs ts) u v ↔ Q u v ∨ (u, v) ∈ arcs x t0 := by
    intro u v
    unfold pairRel
    rw [mem_pairsL_iff]
    constructor
    · rintro ⟨j', c', t', e1, e2, e3⟩
      by_cases hj : j' = j
      · subst hj
        rw [hx] at e1; rw [h0] at e2
        cases e1; cases e2
        exact Or.inr e3
      · exact Or.inl ⟨j', c', t', hj, e1, e2, e3⟩
    · rintro (⟨j', c', t', _, e1, e2, e3⟩ | h)
      · exact ⟨j', c', t', e1, e2, e3⟩
      · exact ⟨j, x, t0, hx, h0, h⟩
  have hP' : ∀ u v, pairRel (pairsL cs ts') u v ↔ Q u v ∨ (u, v) ∈ arcs x t1 := by
    intro u v
    unfold pairRel
    rw [mem_pairsL_iff]
    constructor
    · rintro ⟨j', c', t', e1, e2, e3⟩
      by_cases hj : j' = j
      · subst hj
        rw [hx] at e1; rw [h1] at e2
        cases e1; cases e2
        exact Or.inr e3
      · exact Or.inl ⟨j', c', t', hj, e1, by rw [← hsame j' hj]; exact e2, e3⟩
    · rintro (⟨j', c', t', hj, e1, e2, e3⟩ | h)
      · exact ⟨j', c', t', e1, by rw [hsame j' hj]; exact e2, e3⟩
      · exact ⟨j, x, t1, hx, h1, h⟩
  have sym : ∀ {r : Nat → Nat → Prop} {u v}, EqvGen r u v → EqvGen r v u := fun h => EqvGen.symm _ _ h
  have tr : ∀ {r : Nat → Nat → Prop} {u v w}, EqvGen r u v → EqvGen r v w → EqvGen r u w :=
    fun h h' => EqvGen.trans _ _ _ h h'
  have up : ∀ {u v}, EqvGen Q u v → Conn (pairsL cs ts) u v :=
    fun h => EqvGen.mono (fun u v huv => (hP u v).2 (Or.inl huv)) _ _ h
  have cab : Conn (pairsL cs ts) a b := by
    rcases hab with h | h
    · exact EqvGen.rel _ _ ((hP a b).2 (Or.inr h))
    · exact sym (EqvGen.rel _ _ ((hP b a).2 (Or.inr h)))
  have ccd : Conn (pairsL cs ts) c d := by
    rcases hcd with h | h
    · exact EqvGen.rel _ _ ((hP c d).2 (Or.inr h))
    · exact sym (EqvGen.rel _ _ ((hP d c).2 (Or.inr h)))
  refine ⟨cab, ccd, ?_⟩
  intro hnac
  -- parity: a set closed under Q contains an even number of the slots a, b, c, d
  have par : ∀ S : Nat → Bool, (∀ u v, Q u v → S u = S v) → [a, b, c, d].countP S % 2 = 0 := by
    intro S hS
    have h := parity_aux S cs ts j
      (fun j' c' t' e1 e2 => ⟨hwf c' (List.mem_of_getElem? e1), hres t' (List.mem_of_getElem? e2)⟩) hlen
      (fun j' c' t' hj e1 e2 p hp => hS p.1 p.2 ⟨j', c', t', hj, e1, e2, hp⟩)
    rw [hx] at h
    simp only at h
    rw [countP_even_of_count_two _ hcnt S, hperm.countP_eq] at h
    exact h.symm
  have closed : ∀ w u v, Q u v → decide (EqvGen Q w u) = decide (EqvGen Q w v) := by
    intro w u v huv
    have e : EqvGen Q w u ↔ EqvGen Q w v :=
      ⟨fun h => tr h (EqvGen.rel _ _ huv), fun h => tr h (sym (EqvGen.rel _ _ huv))⟩
    simp only [e]
  have qab : EqvGen Q a b := by
    have h := par (fun u => decide (EqvGen Q a u)) (closed a)
    have ha : decide (EqvGen Q a a) = true := by simpa using EqvGen.refl a
    have hc : decide (EqvGen Q a c) = false := by
      simpa using fun h => hnac (up h)
    have hd : decide (EqvGen Q a d) = false := by
      simpa using fun h => hnac (tr (up h) (sym ccd))
    simp only [List.countP_cons, List.countP_nil, ha, hc, hd] at h
    by_contra hb
    have hb' : decide (EqvGen Q a b) = false := by simpa using hb
    simp [hb'] at h
  have qcd : EqvGen Q c d := by
    have h := par (fun u => decide (EqvGen Q c u)) (closed c)
    have hc : decide (EqvGen Q c c) = true := by simpa using EqvGen.refl c
    have ha : decide (EqvGen Q c a) = false := by
      simpa using fun h => hnac (sym (up h))
    have hb : decide (EqvGen Q c b) = false := by
      simpa using fun h => hnac (sym (tr (up h) (sym cab)))
    simp only [List.countP_cons, List.countP_nil, ha, hb, hc] at h
    by_contra hd
    have hd' : decide (EqvGen Q c d) = false := by simpa using hd
    simp [hd'] at h
  -- the relation of `s` is the one generated by the other crossings
  have eP : ∀ u v, Conn (pairsL cs ts) u v ↔ EqvGen Q u v := by
    intro u v
    apply eqvGen_eq_of_le
    · intro u v h; exact (hP u v).2 (Or.inl h)
    · intro u v h
      rcases (hP u v).1 h with h | h
      · exact EqvGen.rel _ _ h
      · rcases hs0 _ h with e | e | e | e <;> cases e
        · exact qab
        · exact sym qab
        · exact qcd
        · exact sym qcd
  intro u v
  rw [eP u v, eP u a, eP u c, eP v a, eP v c]
  apply eqvGen_merge a c
  · intro u v h; exact (hP' u v).2 (Or.inl h)
  · intro u v h
    rcases (hP' u v).1 h with h | h
    · exact Or.inl (EqvGen.rel _ _ h)
    · right
      rcases hs1 _ h with e | e | e | e <;> cases e
      · exact ⟨Or.inl (EqvGen.refl _), Or.inr (sym qcd)⟩
      · exact ⟨Or.inr (sym qcd), Or.inl (EqvGen.refl _)⟩
      · exact ⟨Or.inl (sym qab), Or.inr (EqvGen.refl _)⟩
      · exact ⟨Or.inr (EqvGen.refl _), Or.inl (sym qab)⟩
  · have h1 : EqvGen (pairRel (pairsL cs ts')) a d := by
      rcases had with h | h
      · exact EqvGen.rel _ _ ((hP' a d).2 (Or.inr h))
      · exact sym (EqvGen.rel _ _ ((hP' d a).2 (Or.inr h)))
    exact tr h1 (EqvGen.mono (fun u v huv => (hP' u v).2 (Or.inl huv)) _ _ (sym qcd))

end

/-- the four slots of a crossing with four slots -/
theorem arcs_H (x : Crossing) : arcs x .H = [(x.e[0]!, x.e[1]!), (x.e[2]!, x.e[3]!)] := rfl
theorem arcs_V (x : Crossing) : arcs x .V = [(x.e[0]!, x.e[3]!), (x.e[1]!, x.e[2]!)] := rfl

theorem perm4 (p q r t : Nat) : [p, q, r, t].Perm [p, t, r, q] :=
  List.Perm.cons p (((List.Perm.swap r q [t]).trans (List.Perm.cons r (List.Perm.swap t q []))).trans
    (List.Perm.swap t r [q]))

/-- MAIN: flipping bit `k` (`0 → 1`) of the state of a valid diagram. `x` = the `k`-th unresolved crossing, its slots are
`a, b, c, d` (in some order) with `a—b` and `c—d` the arcs of `x` in the state `s`.  If these arcs lie on different
circles of `s`, the circles of `s ||| 1 <<< k` are those of `s` with the circles of `a` and of `c` merged. -/
theorem neighbour_conn (l : Link) (hv : validK l = true) (s k : Nat) (hk : k < crossingNum l)
    (hb : s.testBit k = false) :
    ∃ (x : Crossing) (a b c d : Nat), x ∈ l ∧ x.ct.isResolved = false ∧ x.e.toList.Perm [a, b, c, d] ∧
      Conn (statePairs l s) a b ∧ Conn (statePairs l s) c d ∧
      (¬ Conn (statePairs l s) a c → ∀ u v, Conn (statePairs l (s ||| 1 <<< k)) u v ↔
        Conn (statePairs l s) u v ∨
          ((Conn (statePairs l s) u a ∨ Conn (statePairs l s) u c) ∧
           (Conn (statePairs l s) v a ∨ Conn (statePairs l s) v c))) := by
  obtain ⟨hwf, hcnt⟩ := validK_spec l hv
  rw [crossingNum_eq_unres] at hk
  obtain ⟨j, x, hx, hxr, h0, h1, hsame⟩ := resTypes_flip l.toList s k hk hb
  have hxl : x ∈ l := by
    have := List.mem_of_getElem? hx
    simpa using this
  have h4 := hwf x hxl
  have hwf' : ∀ c ∈ l.toList, c.e.size = 4 := fun c hc => hwf c (by simpa using hc)
  have hlen : l.toList.length = (resTypes l.toList s).length := (resTypes_length _ _).symm
  have hres := resTypes_resolved l.toList s
  have e4 := toList4 x.e h4
  unfold statePairs
  cases hct : x.ct with
  | V => rw [hct] at hxr; cases hxr
  | H => rw [hct] at hxr; cases hxr
  | X =>
    rw [hct] at h0 h1
    refine ⟨x, x.e[0]!, x.e[1]!, x.e[2]!, x.e[3]!, hxl, by rw [hct]; rfl, by rw [e4], ?_⟩
    exact conn_flip_core l.toList _ _ j x .H .V _ _ _ _ hwf' hcnt hres hlen hx h0 h1 hsame (by rw [e4])
      (by intro p hp; rw [arcs_H] at hp; simp at hp; rcases hp with rfl | rfl <;> simp)
      (by intro p hp; rw [arcs_V] at hp; simp at hp; rcases hp with rfl | rfl <;> simp)
      (by rw [arcs_H]; simp) (by rw [arcs_H]; simp) (by rw [arcs_V]; simp)
  | Xm =>
    rw [hct] at h0 h1
    refine ⟨x, x.e[0]!, x.e[3]!, x.e[2]!, x.e[1]!, hxl, by rw [hct]; rfl, ?_, ?_⟩
    · rw [e4]; exact perm4 _ _ _ _
    · exact conn_flip_core l.toList _ _ j x .V .H _ _ _ _ hwf' hcnt hres hlen hx h0 h1 hsame
        (by rw [e4]; exact perm4 _ _ _ _)
        (by intro p hp; rw [arcs_V] at hp; simp at hp; rcases hp with rfl | rfl <;> simp)
        (by intro p hp; rw [arcs_H] at hp; simp at hp; rcases hp with rfl | rfl <;> simp)
        (by rw [arcs_V]; simp) (by rw [arcs_V]; simp) (by rw [arcs_H]; simp)

end Yuiv.C06Cycle
