import Yuiv.Proofs.KhSnfHomSpec
import Batteries.Tactic.OpenPrivate
/-
KhSnf — concrete data for the non-vacuity `example`s of `Props/KhSnf.lean`.  `smithInvariants` is total now, but it
calls `Array.qsort` (well-founded recursion) and `rowGet` (a `while` loop), which do not reduce in the kernel; the value on
the example is obtained through `smithInvariants_eq`, `rowGetSpec` and by unfolding `qsort`.
-/
open private Array.qsort.sort from Init.Data.Array.QSort.Basic
open private Array.qpartition.loop from Init.Data.Array.QSort.Basic
namespace Yuiv.KhSnf
open Yuiv Yuiv.KhRef Matrix Yuiv.C03Uct

/-- `diag(2, 6)` as sparse rows: cokernel `ℤ/2 ⊕ ℤ/6` -/
def exRows : Array Row := #[#[(0, 2)], #[(1, 6)]]

theorem exRows_ok : ∀ r ∈ exRows.toList, RowOK 2 r := by decide

theorem exRows_smith : smithInvariants exRows = (2, #[2, 6]) := by
  rw [smithInvariants_eq]
  have h1 : unitLoop ((exRows.filter (fun r => decide (r.size > 0))).size + 1)
      (exRows.filter (fun r => decide (r.size > 0))) 0 = (exRows, 0) := by
    decide +kernel
  rw [h1]
  have hc : colsOf exRows = #[0, 1] := by
    unfold colsOf
    have : (exRows.toList.foldl (fun cols r => r.toList.foldl (fun cols x => C04Inv.addNew cols x.1) cols) #[]) =
        #[0, 1] := by decide +kernel
    rw [this]
    simp [Array.qsort, Array.qsort.sort, Array.qpartition, Array.qpartition.loop, Vector.swap]
  have hd : denseOf exRows = #[#[2, 0], #[0, 6]] := by
    unfold denseOf
    rw [hc]
    simp only [exRows, List.map_toArray, List.map]
    rw [rowGetSpec 2 _ _ (by decide), rowGetSpec 2 _ _ (by decide), rowGetSpec 2 _ _ (by decide),
      rowGetSpec 2 _ _ (by decide)]
    decide +kernel
  simp only [hd]
  decide +kernel

end Yuiv.KhSnf
