import Yuiv.Proofs.KhiSpecQ
/-
KhiSpec — assembly of the bigraded statement.
-/
namespace Yuiv.KhiSpec
open Yuiv Yuiv.KhRef Yuiv.C19 Yuiv.C06Cycle Yuiv.C19Inv Yuiv.C19Comm Yuiv.C19Cone Matrix

/-- the quantum shift of `khiHomology` -/
def q0Of (signs : Array Int) (p : Params) : Int :=
  ↑(Array.filter (fun x => decide (x > 0)) signs).size -
    2 * ↑(Array.filter (fun x => decide (x < 0)) signs).size + if p.reduced = true then 1 else 0

/-- the dimension of the homology of the cone in degree position `i` and quantum degree `q` -/
noncomputable def coneDimQ (ic : ICube) (p : Params) (q0 q : Int) (i : Nat) : Nat :=
  ((sliceQ ic q0 q)[i]!).size - (DmG ic p (sliceQ ic q0 q) i).rank -
    (if i = 0 then 0 else (DmG ic p (sliceQ ic q0 q) (i - 1)).rank)

/-- the quantum degrees in the order of the output -/
def qList (ic : ICube) (q0 : Int) : List Int := (qsSorted ic.cube q0 (coneGens ic.cube (kgensOf ic.cube))).toList

theorem khi_bigraded_eq (l : InvLink) (signs : Array Int) (p : Params) (hh : p.h = 0) (ht : p.t = 0) (ic : ICube)
    (hic : mkICube l p = some ic) (hok : khiInstanceOk l p = true) (G : GensOk ic p) :
    khiHomology l signs p true = Except.ok { cells :=
      ((qList ic (q0Of signs p)).flatMap (fun q => (List.range (ic.cube.n + 2)).filterMap (fun (i : Nat) =>
        if coneDimQ ic p (q0Of signs p) q i ≠ 0 then
          some (-((signs.filter (· < 0)).size : Int) + (i : Int), some q, coneDimQ ic p (q0Of signs p) q i)
        else none))).toArray } := by
  obtain ⟨hd, hcone⟩ := enumerated_ok l p ic hic hok G
  rw [khiHomology_eq]
  unfold khiM
  rw [hic]
  simp only
  rw [dmapK_noexit _ _ _ _ hd]
  show Id.run (ddK (dIm ic p) (coneGens ic.cube (kgensOf ic.cube)) _) = _
  rw [ddK_noexit _ _ _ (dd_check_passes ic p G hcone)]
  show Id.run (khiTail2 ic.cube (q0Of signs p) _ true (dIm ic p) (coneGens ic.cube (kgensOf ic.cube))) = _
  rw [khiTail2_bigr _ _ _ _ _ (fun q _ => qcheck_passes l p hh ht ic hic hok G (q0Of signs p) q)]
  simp only [Id.run, pure]
  rw [← Array.foldl_toList]
  have hb := bigr_cells (-↑(Array.filter (fun x => decide (x < 0)) signs).size)
    (qsSorted ic.cube (q0Of signs p) (coneGens ic.cube (kgensOf ic.cube))).toList
    (fun q => homoA (dIm ic p) (sliceQ ic (q0Of signs p) q)) #[]
  unfold sliceQ at hb
  rw [hb]
  congr 2
  simp only [Array.empty_append]
  congr 1
  unfold qList
  apply List.flatMap_congr
  intro q _
  have F := fam_sliceQ l p hh ht ic hic hok G (q0Of signs p) q
  have hsz : (gqOf ic.cube (q0Of signs p) q (coneGens ic.cube (kgensOf ic.cube))).size = ic.cube.n + 2 :=
    sliceQ_size ic _ q
  rw [homoA_eq]
  simp only [List.size_toArray, List.length_map, List.length_range, hsz]
  apply List.filterMap_congr
  intro i hi
  have hi' : i < ic.cube.n + 2 := List.mem_range.1 hi
  have hget : ((List.map (dimAt (dIm ic p) (sliceQ ic (q0Of signs p) q))
      (List.range (ic.cube.n + 2))).toArray)[i]! = coneDimQ ic p (q0Of signs p) q i := by
    rw [getElem!_pos _ i (by simpa using hi')]
    simp only [List.getElem_toArray, List.getElem_map, List.getElem_range]
    exact dimAtG_eq ic p _ F i (by rw [sliceQ_size]; exact hi')
  show (if ((List.map (dimAt (dIm ic p) (sliceQ ic (q0Of signs p) q))
      (List.range (ic.cube.n + 2))).toArray)[i]! ≠ 0 then
      some (_, _, ((List.map (dimAt (dIm ic p) (sliceQ ic (q0Of signs p) q))
      (List.range (ic.cube.n + 2))).toArray)[i]!) else _) = _
  rw [hget]

end Yuiv.KhiSpec
