import Yuiv.Proofs.C14
import Yuiv.Model.C15
import Mathlib.Data.Nat.Prime.Basic
import Mathlib.Tactic.NormNum.Prime
/-
C14 — `FF<p>::inv` for EVERY modulus: totality of the extended-gcd loop of the model (`FF.xgcdLoop`, the iteration
of `num_integer::Integer::extended_gcd`) on non-negative operands, the value of its gcd component, and from that
`FF.inv p a = ok (some u)` with `a·u ≡ 1 (mod p)` for every prime `p` and every canonical non-zero `a`
(helper lemmas; the property theorems are in `Props/C14Fp.lean`).
-/
namespace Yuiv.C14
open Yuiv Res

/-! ### the Euclid loop terminates within `r.1 + 1` rounds on non-negative state and ends in `(0, gcd)` -/

theorem xgcdLoop_total : ∀ (fuel m n : Nat) (s t : Int × Int), m + 1 ≤ fuel →
    ∃ s' t', FF.xgcdLoop fuel ((m : Int), (n : Int)) s t = ok ((0, ((Nat.gcd m n : Nat) : Int)), s', t') := by
  intro fuel
  induction fuel with
  | zero => intro m n s t h; omega
  | succ fuel ih =>
    intro m n s t h
    by_cases hm : m = 0
    · subst hm
      refine ⟨s, t, ?_⟩
      unfold FF.xgcdLoop
      simp
    · unfold FF.xgcdLoop
      have h0 : (((m : Int), (n : Int)).1 == 0) = false := by
        simp only [beq_eq_false_iff_ne, ne_eq]
        omega
      rw [h0]
      simp only [Bool.false_eq_true, if_false]
      have key : (n : Int) - (n : Int).tdiv (m : Int) * (m : Int) = ((n % m : Nat) : Int) := by
        have h1 := Int.tmod_def (n : Int) (m : Int)
        have h2 : (n : Int).tmod (m : Int) = (n : Int) % (m : Int) :=
          Int.tmod_eq_emod_of_nonneg (Int.natCast_nonneg n)
        rw [Int.natCast_mod, ← h2, h1, Int.mul_comm]
      rw [key]
      have hlt : n % m < m := Nat.mod_lt _ (Nat.pos_of_ne_zero hm)
      obtain ⟨s', t', e⟩ := ih (n % m) m (s.2 - (n : Int).tdiv (m : Int) * s.1, s.1)
        (t.2 - (n : Int).tdiv (m : Int) * t.1, t.1) (by omega)
      refine ⟨s', t', ?_⟩
      rw [e, Nat.gcd_rec m n]

/-- `gcdx` on non-negative operands: never panics, never runs out of fuel, returns the gcd and Bezout coefficients -/
theorem gcdx_total (x y : Nat) :
    ∃ s t : Int, FF.gcdx (x : Int) (y : Int) = ok (((Nat.gcd x y : Nat) : Int), s, t) ∧
      (x : Int) * s + (y : Int) * t = ((Nat.gcd x y : Nat) : Int) := by
  obtain ⟨s', t', e⟩ := xgcdLoop_total ((y : Int).natAbs + 2) y x (0, 1) (1, 0) (by simp)
  have hg : FF.gcdx (x : Int) (y : Int) = ok (((Nat.gcd x y : Nat) : Int), s'.2, t'.2) := by
    unfold FF.gcdx
    rw [e]
    simp only [Res.bind_ok]
    rw [if_pos (by exact Int.natCast_nonneg _), Nat.gcd_comm]
  exact ⟨s'.2, t'.2, hg, gcdx_bezout _ _ _ _ _ hg⟩

/-! ### `inv` on a canonical non-zero representative, any modulus `p ≥ 1` -/

theorem ff_isZero_iff (a : Int) : FF.isZero a = true ↔ a = 0 := by simp [FF.isZero]

theorem ff_inv_zero' (p : Int) : FF.inv p 0 = ok none := by simp [FF.inv, FF.isZero]

/-- a unit of `ℤ/p` is inverted -/
theorem ff_inv_of_coprime (p k : Nat) (hp : 0 < p) (hk : 0 < k) (hc : Nat.gcd k p = 1) :
    ∃ u : Int, FF.inv (p : Int) (k : Int) = ok (some u) ∧ 0 ≤ u ∧ u < (p : Int) ∧
      ((k : Int) * u) % (p : Int) = 1 % (p : Int) := by
  obtain ⟨s, t, hg, _⟩ := gcdx_total k p
  have hz : FF.isZero (k : Int) = false := by
    simp only [FF.isZero, beq_eq_false_iff_ne, ne_eq]; omega
  have hpi : (0 : Int) < (p : Int) := by omega
  have e : FF.inv (p : Int) (k : Int) = ok (some (s % (p : Int))) := by
    unfold FF.inv
    rw [hz, hg, hc]
    simp [Res.assert, ff_new_ok _ s hpi]
  exact ⟨_, e, ff_inv_spec _ _ _ e⟩

/-- a non-zero non-unit of `ℤ/p` makes `assert!(d.is_one())` fail -/
theorem ff_inv_of_not_coprime (p k : Nat) (hk : 0 < k) (hc : Nat.gcd k p ≠ 1) :
    FF.inv (p : Int) (k : Int) = panic := by
  obtain ⟨s, t, hg, _⟩ := gcdx_total k p
  have hz : FF.isZero (k : Int) = false := by
    simp only [FF.isZero, beq_eq_false_iff_ne, ne_eq]; omega
  unfold FF.inv
  rw [hz, hg]
  simp [Res.assert, hc]

theorem prime_coprime_of_lt (p k : Nat) (hp : p.Prime) (hk : 0 < k) (hkp : k < p) : Nat.gcd k p = 1 := by
  have h : Nat.Coprime p k := (Nat.Prime.coprime_iff_not_dvd hp).2 (fun hd => by
    have := Nat.le_of_dvd hk hd; omega)
  exact h.symm

/-- inverses mod `p` are unique among the representatives `[0, p)` -/
theorem inv_unique (p a u v : Int) (hu : 0 ≤ u ∧ u < p) (hv : 0 ≤ v ∧ v < p)
    (h1 : (a * u) % p = 1 % p) (h2 : (a * v) % p = 1 % p) : u = v := by
  have hp : 0 < p := by omega
  -- u ≡ u·(a·v) = (a·u)·v ≡ v
  have e1 : (u * (a * v)) % p = u % p := by
    rw [Int.mul_emod, h2, ← Int.mul_emod, Int.mul_one]
  have e2 : (v * (a * u)) % p = v % p := by
    rw [Int.mul_emod, h1, ← Int.mul_emod, Int.mul_one]
  have e3 : u * (a * v) = v * (a * u) := by ring
  rw [e3, e2] at e1
  rw [Int.emod_eq_of_lt hv.1 hv.2, Int.emod_eq_of_lt hu.1 hu.2] at e1
  exact e1.symm

theorem emod_mul_emod' (x y p : Int) : ((x % p) * y) % p = (x * y) % p := by
  rw [Int.mul_emod, Int.emod_emod, ← Int.mul_emod]
theorem mul_emod_emod' (x y p : Int) : (x * (y % p)) % p = (x * y) % p := by
  rw [Int.mul_emod, Int.emod_emod, ← Int.mul_emod]

/-! ### the search-based `inv` of the C15 model (`Model/C15.lean`, `FF.inv`) finds the same residue -/

theorem c15_inv_of_unique (p k w : Nat) (hk0 : k ≠ 0) (hw : w < p) (hp2 : 2 ≤ p)
    (hkw : (k * w) % p = 1) : Yuiv.C15.FF.inv p k = some w := by
  have h1p : 1 % p = 1 := Nat.mod_eq_of_lt (by omega)
  have hb : (k == 0) = false := by simpa using hk0
  have hsome : ((List.range p).find? (fun x => (k * x) % p == 1 % p)).isSome = true := by
    rw [List.find?_isSome]
    exact ⟨w, List.mem_range.2 hw, by rw [beq_iff_eq, hkw, h1p]⟩
  obtain ⟨i, hi⟩ := Option.isSome_iff_exists.1 hsome
  have hip : i < p := List.mem_range.1 (List.mem_of_find?_eq_some hi)
  have hpi : (k * i) % p = 1 := by
    have := List.find?_some hi
    rw [beq_iff_eq, h1p] at this
    exact this
  have hp0 : (0 : Int) < (p : Int) := by omega
  have e : (i : Int) = (w : Int) := by
    refine inv_unique (p : Int) (k : Int) i w ⟨by omega, by omega⟩ ⟨by omega, by omega⟩ ?_ ?_
    · have : (((k * i) % p : Nat) : Int) = ((1 : Nat) : Int) := by rw [hpi]
      push_cast at this
      rw [this]
      exact (Int.emod_eq_of_lt (by omega) (by omega)).symm
    · have : (((k * w) % p : Nat) : Int) = ((1 : Nat) : Int) := by rw [hkw]
      push_cast at this
      rw [this]
      exact (Int.emod_eq_of_lt (by omega) (by omega)).symm
  have e' : i = w := by omega
  unfold Yuiv.C15.FF.inv
  rw [hb]
  simp only [Bool.false_eq_true, if_false]
  rw [hi, e']

end Yuiv.C14
