import Yuiv.Model.C07
import Mathlib.Data.Matrix.Mul
import Mathlib.Data.ZMod.Basic
/-
Spec definitions and helper lemmas for the C07 checker (`Yuiv.C07.check`, Model/C07.lean):
the executable tests mean matrix equations over `ZMod p` (`ZMod 0 = ℤ`).
-/
namespace Yuiv.C07
open Matrix

/-- a model matrix read as a Mathlib matrix of the given shape -/
def Mat.toM (A : Mat) (r c : Nat) : Matrix (Fin r) (Fin c) ℤ := fun i j => A.get i.val j.val

theorem allIJ_iff (r c : Nat) (f : Nat → Nat → Bool) :
    allIJ r c f = true ↔ ∀ i, i < r → ∀ j, j < c → f i j = true := by
  simp [allIJ, List.all_eq_true, List.mem_range]

theorem zeroMod_iff (p : Nat) (x : Int) : zeroMod p x = true ↔ (p : Int) ∣ x := by
  simp [zeroMod, Int.dvd_iff_emod_eq_zero]

theorem foldl_add_eq_sum (f : Nat → Int) (n : Nat) :
    (List.range n).foldl (fun s k => s + f k) 0 = ∑ k ∈ Finset.range n, f k := by
  induction n with
  | zero => simp
  | succ n ih => rw [List.range_succ, List.foldl_append, ih, Finset.sum_range_succ]; simp

theorem dot_eq_sum (A B : Mat) (i j : Nat) :
    Mat.dot A B i j = ∑ k ∈ Finset.range A.c, A.get i k * B.get k j := by
  unfold Mat.dot; exact foldl_add_eq_sum _ _

/-- the model's `dot` is the entry of the matrix product -/
theorem toM_mul_apply (A B : Mat) (r c : Nat) (i : Fin r) (j : Fin c) :
    (A.toM r A.c * B.toM A.c c) i j = Mat.dot A B i.val j.val := by
  rw [dot_eq_sum, Matrix.mul_apply, ← Fin.sum_univ_eq_sum_range (fun k => A.get i.val k * B.get k j.val)]
  rfl

/-- entrywise cast to `ZMod p` -/
def modP (p : Nat) {r c : Nat} (X : Matrix (Fin r) (Fin c) ℤ) : Matrix (Fin r) (Fin c) (ZMod p) :=
  X.map (Int.cast : ℤ → ZMod p)

theorem prodZero_iff (p : Nat) (A B : Mat) :
    prodZero p A B = true ↔ modP p (A.toM A.r A.c * B.toM A.c B.c) = 0 := by
  unfold prodZero
  rw [allIJ_iff]
  constructor
  · intro h; ext i j
    have := h i.val i.isLt j.val j.isLt
    rw [zeroMod_iff, ← toM_mul_apply A B A.r B.c i j] at this
    simpa [modP, ZMod.intCast_zmod_eq_zero_iff_dvd] using this
  · intro h i hi j hj
    have := congrFun (congrFun h ⟨i, hi⟩) ⟨j, hj⟩
    rw [zeroMod_iff, ← toM_mul_apply A B A.r B.c ⟨i, hi⟩ ⟨j, hj⟩]
    simpa [modP, ZMod.intCast_zmod_eq_zero_iff_dvd] using this

theorem prodId_iff (p : Nat) (A B : Mat) (hsq : A.r = B.c) :
    prodId p A B = true ↔ modP p (A.toM A.r A.c * B.toM A.c A.r) = 1 := by
  unfold prodId
  rw [allIJ_iff]
  constructor
  · intro h; ext i j
    have := h i.val i.isLt j.val (hsq ▸ j.isLt)
    rw [zeroMod_iff, ← toM_mul_apply A B A.r A.r i j] at this
    have h2 := (ZMod.intCast_zmod_eq_zero_iff_dvd _ p).mpr this
    simp only [modP, Matrix.map_apply, Matrix.one_apply]
    rw [Int.cast_sub, sub_eq_zero] at h2
    rw [h2]
    by_cases hij : i = j
    · simp [hij]
    · have : i.val ≠ j.val := fun h => hij (Fin.ext h)
      simp [hij, this]
  · intro h i hi j hj
    have hj' : j < A.r := hsq ▸ hj
    have := congrFun (congrFun h ⟨i, hi⟩) ⟨j, hj'⟩
    rw [zeroMod_iff, ← toM_mul_apply A B A.r A.r ⟨i, hi⟩ ⟨j, hj'⟩]
    apply (ZMod.intCast_zmod_eq_zero_iff_dvd _ p).mp
    simp only [modP, Matrix.map_apply, Matrix.one_apply] at this
    rw [Int.cast_sub, this]
    by_cases hij : i = j
    · simp [hij]
    · have : (⟨i, hi⟩ : Fin A.r) ≠ ⟨j, hj'⟩ := fun h => hij (Fin.mk.inj h)
      simp [hij, this]

theorem bdryOk_iff (p rank : Nat) (tors : Array Int) (P d1 : Mat) :
    bdryOk p rank tors P d1 = true ↔
      ∀ (i : Fin P.r) (j : Fin d1.c),
        (i.val < rank → ((P.toM P.r P.c * d1.toM P.c d1.c) i j : ZMod p) = 0) ∧
        (rank ≤ i.val → tors.getD (i.val - rank) 0 ∣ (P.toM P.r P.c * d1.toM P.c d1.c) i j) := by
  unfold bdryOk
  rw [allIJ_iff]
  constructor
  · intro h i j
    have := h i.val i.isLt j.val j.isLt
    rw [← toM_mul_apply P d1 P.r d1.c i j] at this
    by_cases hi : i.val < rank
    · simp only [hi, if_true, zeroMod_iff] at this
      exact ⟨fun _ => (ZMod.intCast_zmod_eq_zero_iff_dvd _ p).mpr this, fun h => absurd hi (Nat.not_lt.mpr h)⟩
    · simp only [hi, if_false, beq_iff_eq] at this
      exact ⟨fun h => absurd h hi, fun _ => Int.dvd_of_emod_eq_zero this⟩
  · intro h i hi j hj
    have := h ⟨i, hi⟩ ⟨j, hj⟩
    rw [← toM_mul_apply P d1 P.r d1.c ⟨i, hi⟩ ⟨j, hj⟩]
    by_cases hr : i < rank
    · simp only [hr, if_true, zeroMod_iff]
      exact (ZMod.intCast_zmod_eq_zero_iff_dvd _ p).mp (this.1 hr)
    · simp only [hr, if_false, beq_iff_eq]
      exact Int.emod_eq_zero_of_dvd (this.2 (Nat.not_lt.mp hr))

/-- what the verdict `ok` means (shapes as in `shapesOk`) -/
structure Certified (a : Answer) : Prop where
  shape_d2 : a.d2.c = a.d1.r
  shape_P : a.P.r = a.rank + a.tors.size ∧ a.P.c = a.d1.r
  shape_Q : a.Q.r = a.d1.r ∧ a.Q.c = a.rank + a.tors.size
  field_no_tors : a.p = 0 ∨ a.tors.size = 0
  /-- precondition `d2·d1 = 0` -/
  dd : modP a.p (a.d2.toM a.d2.r a.d2.c * a.d1.toM a.d2.c a.d1.c) = 0
  /-- torsion orders are non-zero non-units -/
  tors_nonunit : ∀ k, k < a.tors.size → 1 < (a.tors.getD k 0).natAbs
  /-- coordinates of the generators are the standard basis -/
  pq : modP a.p (a.P.toM a.P.r a.P.c * a.Q.toM a.P.c a.P.r) = 1
  /-- generators are cycles -/
  cycles : modP a.p (a.d2.toM a.d2.r a.d2.c * a.Q.toM a.d2.c a.Q.c) = 0
  /-- boundaries: free coordinates vanish, torsion coordinate `k` is divisible by `tors[k]` -/
  bdry : ∀ (i : Fin a.P.r) (j : Fin a.d1.c),
      (i.val < a.rank → ((a.P.toM a.P.r a.P.c * a.d1.toM a.P.c a.d1.c) i j : ZMod a.p) = 0) ∧
      (a.rank ≤ i.val → a.tors.getD (i.val - a.rank) 0 ∣ (a.P.toM a.P.r a.P.c * a.d1.toM a.P.c a.d1.c) i j)

theorem check_ok_iff_parts (a : Answer) :
    check a = .ok ↔ shapesOk a = true ∧ prodZero a.p a.d2 a.d1 = true ∧ torsOk a = true ∧
      prodId a.p a.P a.Q = true ∧ prodZero a.p a.d2 a.Q = true ∧ bdryOk a.p a.rank a.tors a.P a.d1 = true := by
  unfold check
  cases shapesOk a <;> cases prodZero a.p a.d2 a.d1 <;> cases torsOk a <;> cases prodId a.p a.P a.Q <;>
    cases prodZero a.p a.d2 a.Q <;> cases bdryOk a.p a.rank a.tors a.P a.d1 <;> simp

theorem shapesOk_spec (a : Answer) (h : shapesOk a = true) :
    a.d2.c = a.d1.r ∧ (a.P.r = a.rank + a.tors.size ∧ a.P.c = a.d1.r) ∧
    (a.Q.r = a.d1.r ∧ a.Q.c = a.rank + a.tors.size) ∧ (a.p = 0 ∨ a.tors.size = 0) := by
  simp only [shapesOk, Answer.n, Answer.dim, Bool.and_eq_true, Bool.or_eq_true, beq_iff_eq] at h
  obtain ⟨⟨⟨⟨⟨⟨⟨⟨⟨_, _⟩, _⟩, _⟩, h1⟩, h2⟩, h3⟩, h4⟩, h5⟩, h6⟩ := h
  exact ⟨h1, ⟨h2, h3⟩, ⟨h4, h5⟩, h6⟩

theorem torsOk_spec (a : Answer) (h : torsOk a = true) :
    ∀ k, k < a.tors.size → 1 < (a.tors.getD k 0).natAbs := by
  intro k hk
  simp only [torsOk, Array.all_eq_true, decide_eq_true_eq] at h
  have := h k hk
  simpa [Array.getD, hk] using this

end Yuiv.C07
