import Yuiv.Proofs.KhSpecTop
import Yuiv.Proofs.KhSpecFnQ
import Yuiv.Proofs.KhSpecQDeg
/-
KhSpec — the `q`-slices of the bigraded computation (helper): for `h = t = 0` the generators of a fixed quantum degree
form a family closed under `d`, so everything proved for the whole cube holds slice by slice.
-/
namespace Yuiv.KhSpec
open Yuiv Yuiv.KhRef Matrix Yuiv.KhSnf Yuiv.C03Uct Yuiv.C03

variable {c : Cube} {p : Params}

theorem gensQ_getElem (q0 : Int) (gens : Array (Array Gen)) (q : Int) (i : Nat) :
    (gensQ c q0 gens q)[i]! = (gens[i]!).filter (fun g => c.qDeg q0 g == q) := by
  unfold gensQ
  by_cases hi : i < gens.size
  · rw [getElem!_pos _ i (by simpa using hi), Array.getElem_map, getElem!_pos gens i hi]
  · rw [getElem!_neg _ i (by simpa using hi), getElem!_neg gens i hi]
    rfl

theorem mem_gensQ (q0 : Int) (gens : Array (Array Gen)) (q : Int) (i : Nat) (g : Gen) :
    g ∈ ((gensQ c q0 gens q)[i]!).toList ↔ g ∈ (gens[i]!).toList ∧ c.qDeg q0 g = q := by
  rw [gensQ_getElem, Array.toList_filter, List.mem_filter]
  simp

/-- the `q`-slice is a family closed under `d` when `h = t = 0` -/
theorem fam_gensQ (H : Ctx c p) (hh : p.h = 0) (ht : p.t = 0) (q0 q : Int) :
    Fam c p (gensQ c q0 (gensByWeight c) q) := by
  refine ⟨by unfold gensQ; rw [Array.size_map, gensByWeight_size], ?_, ?_, ?_⟩
  · intro i
    rw [gensQ_getElem, Array.toList_filter]
    exact (gensByWeight_nodup c i).filter _
  · intro i g hg
    exact ((mem_gensQ q0 _ q i g).1 hg).1
  · intro i g hg t htm
    obtain ⟨hg1, hg2⟩ := (mem_gensQ q0 _ q i g).1 hg
    refine (mem_gensQ q0 _ q (i + 1) t.1).2 ⟨dTab_targets H hg1 t htm, ?_⟩
    obtain ⟨_, hs, _, hm⟩ := gen_props H hg1
    obtain ⟨ts, hd⟩ := d_defined H hs
    rw [dTab_of_mem hg1, hd] at htm
    rw [← hg2]
    exact qDeg_preserved c p hh ht H.hb H.hok H.hP g hs hm ts hd q0 t htm

/-- the hypotheses of `khHomology_bigraded` hold in the setting `Ctx` with `h = t = 0` -/
theorem khHomology_ok_bigraded {l : Link} {p : Params} (H : Ctx (mkCube l p) p) (hh : p.h = 0) (ht : p.t = 0)
    (signs : Array Int) (k : Coeff) :
    khHomology l signs p k true =
      .ok ⟨((qsOf (mkCube l p) (q0Of signs p) (gensByWeight (mkCube l p))).toList.flatMap (fun q =>
        cellsUn (h0Of signs) (some q)
          (homologyOf k (gensQ (mkCube l p) (q0Of signs p) (gensByWeight (mkCube l p)) q)
            (dTab (mkCube l p) p (gensByWeight (mkCube l p)))))).toArray⟩ := by
  apply khHomology_bigraded
  · intro gs hgs g hg
    obtain ⟨w, rfl⟩ := gens_cases hgs
    obtain ⟨ts, hd⟩ := d_defined H (gen_props H hg).2.1
    rw [hd]; rfl
  · intro gs hgs g hg z
    obtain ⟨w, rfl⟩ := gens_cases hgs
    exact dTab_dd H hg z
  · intro gs hgs g hg t htm
    obtain ⟨w, rfl⟩ := gens_cases hgs
    obtain ⟨_, hs, _, hm⟩ := gen_props H hg
    obtain ⟨ts, hd⟩ := d_defined H hs
    rw [dTab_of_mem hg, hd] at htm
    exact qDeg_preserved _ p hh ht H.hb H.hok H.hP g hs hm ts hd _ t htm

end Yuiv.KhSpec
