import Yuiv.Proofs.C12Left
import Yuiv.Proofs.C12Schur

namespace Yuiv.C12
open Yuiv Matrix
set_option linter.unnecessarySeqFocus false
set_option linter.unusedSectionVars false
set_option linter.unusedSimpArgs false

section
variable {R : Type} [CommRing R] [Scal R] [LawfulScal R]
open LawfulScal
variable {upper : Bool} {M : SpMat R} {r : Nat} {u v : Nat → R}

/-! ### `divide4` -/

theorem colSum_filter_lt (l : List (Nat × R)) (k i : Nat) :
    colSum (l.filter fun e => decide (e.1 < k)) i = if i < k then colSum l i else 0 := by
  induction l with
  | nil => simp [colSum_nil]
  | cons e l ih =>
    by_cases h : e.1 < k
    · rw [List.filter_cons_of_pos (by simpa using h), colSum_cons, colSum_cons, ih]
      by_cases hi : i < k <;> by_cases he : e.1 = i <;> simp [hi, he] <;> omega
    · rw [List.filter_cons_of_neg (by simpa using h), ih, colSum_cons]
      by_cases hi : i < k
      · have : e.1 ≠ i := by omega
        simp [hi, this]
      · simp [hi]

theorem colSum_shift (l : List (Nat × R)) (k i : Nat) :
    colSum ((l.filter fun e => decide (k ≤ e.1)).map fun e => (e.1 - k, e.2)) i = colSum l (k + i) := by
  induction l with
  | nil => simp [colSum_nil]
  | cons e l ih =>
    by_cases h : k ≤ e.1
    · rw [List.filter_cons_of_pos (by simpa using h), List.map_cons, colSum_cons, colSum_cons, ih]
      by_cases he : e.1 = k + i
      · have : e.1 - k = i := by omega
        simp [he, this]
      · have : e.1 - k ≠ i := by omega
        simp [he, this]
    · rw [List.filter_cons_of_neg (by simpa using h), ih, colSum_cons]
      have : e.1 ≠ k + i := by omega
      simp [this]

/-- the four blocks (columns as functions of the column index) -/
def topCol (M : SpMat R) (k j : Nat) : List (Nat × R) :=
  ((col M j).filter fun e => !isZero e.2).filter fun e => decide (e.1 < k)
def botCol (M : SpMat R) (k j : Nat) : List (Nat × R) :=
  (((col M j).filter fun e => !isZero e.2).filter fun e => decide (k ≤ e.1)).map fun e => (e.1 - k, e.2)

theorem divide4_eq (M : SpMat R) (k l : Nat) :
    divide4 M k l =
      (⟨k, l, ((List.range l).map (topCol M k)).toArray⟩,
       ⟨k, M.ncols - l, ((List.range (M.ncols - l)).map fun j => topCol M k (l + j)).toArray⟩,
       ⟨M.nrows - k, l, ((List.range l).map (botCol M k)).toArray⟩,
       ⟨M.nrows - k, M.ncols - l, ((List.range (M.ncols - l)).map fun j => botCol M k (l + j)).toArray⟩) := rfl

theorem colSum_topCol (M : SpMat R) (k j i : Nat) : colSum (topCol M k j) i = if i < k then entry M i j else 0 := by
  unfold topCol; rw [colSum_filter_lt, colSum_filter_nz]; rfl

theorem colSum_botCol (M : SpMat R) (k j i : Nat) : colSum (botCol M k j) i = entry M (k + i) j := by
  unfold botCol; rw [colSum_shift, colSum_filter_nz]; rfl

theorem col_mk' (m k : Nat) (f : Nat → List (Nat × R)) (j : Nat) :
    col (⟨m, k, ((List.range k).map f).toArray⟩ : SpMat R) j = if j < k then f j else [] := by
  by_cases hj : j < k <;> simp [col, hj]

/-! ### the input of `Schur::from_partial_triangular` -/

/-- `M` is a CSC matrix whose leading `r×r` block is unit triangular -/
structure SchurInput (upper : Bool) (M : SpMat R) (r : Nat) (u v : Nat → R) : Prop where
  hr1 : r ≤ M.nrows
  hr2 : r ≤ M.ncols
  rows : ∀ j, ∀ e ∈ col M j, e.1 < M.nrows
  nodup : ∀ j, ((col M j).map (·.1)).Nodup
  tri : ∀ j < r, ∀ e ∈ col M j, e.1 < r → isZero e.2 = false → (if upper then e.1 ≤ j else j ≤ e.1)
  diag : ∀ j < r, (col M j).filter (fun e => e.1 == j) = [(j, u j)]
  unit : ∀ j < r, inv (u j) = some (v j)

variable [Nontrivial R]

theorem mem_topCol {M : SpMat R} {k j : Nat} {e : Nat × R} (h : e ∈ topCol M k j) :
    e ∈ col M j ∧ isZero e.2 = false ∧ e.1 < k := by
  unfold topCol at h
  obtain ⟨h1, h2⟩ := List.mem_filter.1 h
  obtain ⟨h3, h4⟩ := List.mem_filter.1 h1
  exact ⟨h3, by simpa using h4, by simpa using h2⟩

theorem mem_botCol {M : SpMat R} {k j : Nat} {e : Nat × R} (h : e ∈ botCol M k j) :
    ∃ e' ∈ col M j, k ≤ e'.1 ∧ e = (e'.1 - k, e'.2) := by
  unfold botCol at h
  obtain ⟨e', he', rfl⟩ := List.mem_map.1 h
  obtain ⟨h1, h2⟩ := List.mem_filter.1 he'
  obtain ⟨h3, _⟩ := List.mem_filter.1 h1
  exact ⟨e', h3, by simpa using h2, rfl⟩

theorem nodup_topCol (M : SpMat R) (k j : Nat) (h : ((col M j).map (·.1)).Nodup) : ((topCol M k j).map (·.1)).Nodup :=
  h.sublist (((List.filter_sublist).trans (List.filter_sublist)).map _)

theorem nodup_botCol (M : SpMat R) (k j : Nat) (h : ((col M j).map (·.1)).Nodup) : ((botCol M k j).map (·.1)).Nodup := by
  unfold botCol
  rw [List.map_map]
  have hs : (((col M j).filter fun e => !isZero e.2).filter fun e => decide (k ≤ e.1)).Sublist (col M j) :=
    (List.filter_sublist).trans (List.filter_sublist)
  have hnd : ((((col M j).filter fun e => !isZero e.2).filter fun e => decide (k ≤ e.1)).map (·.1)).Nodup :=
    h.sublist (hs.map _)
  have : (((col M j).filter fun e => !isZero e.2).filter fun e => decide (k ≤ e.1)).map ((fun e : Nat × R => e.1) ∘ fun e => (e.1 - k, e.2))
      = ((((col M j).filter fun e => !isZero e.2).filter fun e => decide (k ≤ e.1)).map (·.1)).map (· - k) := by
    rw [List.map_map]; rfl
  rw [this]
  apply List.Nodup.map_on _ hnd
  intro a ha b hb hab
  obtain ⟨ea, hea, rfl⟩ := List.mem_map.1 ha
  obtain ⟨eb, heb, rfl⟩ := List.mem_map.1 hb
  have h1 : k ≤ ea.1 := by simpa using (List.mem_filter.1 hea).2
  have h2 : k ≤ eb.1 := by simpa using (List.mem_filter.1 heb).2
  omega

theorem SchurInput.unit_ne_zero (h : SchurInput upper M r u v) (j : Nat) (hj : j < r) : isZero (u j) = false := by
  rw [isZero_false_iff]
  intro h0
  have := inv_mul _ _ (h.unit j hj)
  rw [h0, zero_mul] at this
  exact zero_ne_one this

theorem SchurInput.blockA (h : SchurInput upper M r u v) :
    UnitTriang upper (divide4 M r r).1 r u v := by
  rw [divide4_eq]
  refine ⟨⟨by simp, fun j e he => ?_⟩, rfl, rfl, fun j hj e he hz => ?_, fun j hj => ?_, h.unit⟩
  · rw [col_mk'] at he
    split at he
    · exact (mem_topCol he).2.2
    · simp at he
  · rw [col_mk', if_pos hj] at he
    obtain ⟨h1, _, h3⟩ := mem_topCol he
    exact h.tri j hj e h1 h3 hz
  · rw [col_mk', if_pos hj]
    unfold topCol
    rw [List.filter_filter, List.filter_filter]
    have : ((col M j).filter fun e => ((e.1 == j) && decide (e.1 < r)) && !isZero e.2) =
        (((col M j).filter fun e => e.1 == j).filter fun e => decide (e.1 < r) && !isZero e.2) := by
      rw [List.filter_filter]; congr 1; funext e; cases (e.1 == j) <;> cases (decide (e.1 < r)) <;> cases (isZero e.2) <;> rfl
    rw [this, h.diag j (by omega)]
    simp [hj, h.unit_ne_zero j hj]

theorem SchurInput.blockB (h : SchurInput upper M r u v) : WFY (divide4 M r r).2.1 r := by
  rw [divide4_eq]
  refine ⟨rfl, by simp, fun j e he => ?_, fun j => ?_⟩
  · rw [col_mk'] at he
    split at he
    · exact (mem_topCol he).2.2
    · simp at he
  · rw [col_mk']
    split
    · exact nodup_topCol M r _ (h.nodup _)
    · simp

theorem SchurInput.blockC (h : SchurInput upper M r u v) : WFYL (divide4 M r r).2.2.1 r := by
  rw [divide4_eq]
  refine ⟨rfl, fun j e he => ?_, fun j => ?_⟩
  · rw [col_mk'] at he
    split at he
    · obtain ⟨e', h1, h2, rfl⟩ := mem_botCol he
      have := h.rows j e' h1
      show e'.1 - r < M.nrows - r
      omega
    · simp at he
  · rw [col_mk']
    split
    · exact nodup_botCol M r _ (h.nodup _)
    · simp

/-- the blocks as matrices over `R`, read directly off `M` -/
def blkA (M : SpMat R) (r : Nat) : Matrix (Fin r) (Fin r) R := fun i j => entry M i j
def blkB (M : SpMat R) (r q : Nat) : Matrix (Fin r) (Fin q) R := fun i j => entry M i (r + j)
def blkC (M : SpMat R) (r p : Nat) : Matrix (Fin p) (Fin r) R := fun i j => entry M (r + i) j
def blkD (M : SpMat R) (r p q : Nat) : Matrix (Fin p) (Fin q) R := fun i j => entry M (r + i) (r + j)

theorem toMatrix_blockA (M : SpMat R) (r : Nat) : toMatrix (divide4 M r r).1 r r = blkA M r := by
  ext i j
  simp only [toMatrix, blkA, entry, divide4_eq]
  rw [col_mk', if_pos j.2, colSum_topCol, if_pos i.2]; rfl

theorem toMatrix_blockB (M : SpMat R) (r : Nat) :
    toMatrix (divide4 M r r).2.1 r (M.ncols - r) = blkB M r (M.ncols - r) := by
  ext i j
  simp only [toMatrix, blkB, entry, divide4_eq]
  rw [col_mk', if_pos j.2, colSum_topCol, if_pos i.2]; rfl

theorem toMatrix_blockC (M : SpMat R) (r : Nat) :
    toMatrix (divide4 M r r).2.2.1 (M.nrows - r) r = blkC M r (M.nrows - r) := by
  ext i j
  simp only [toMatrix, blkC, entry, divide4_eq]
  rw [col_mk', if_pos j.2, colSum_botCol]; rfl

theorem toMatrix_blockD (M : SpMat R) (r : Nat) :
    toMatrix (divide4 M r r).2.2.2 (M.nrows - r) (M.ncols - r) = blkD M r (M.nrows - r) (M.ncols - r) := by
  ext i j
  simp only [toMatrix, blkD, entry, divide4_eq]
  rw [col_mk', if_pos j.2, colSum_botCol]; rfl

/-! ### `compute_schur` -/

theorem colSum_range_map (f : Nat → R) (m k : Nat) :
    colSum ((List.range m).map fun i => (i, f i)) k = if k < m then f k else 0 := by
  induction m with
  | zero => simp [colSum_nil]
  | succ m ih =>
    rw [List.range_succ, List.map_append, colSum_append, ih, List.map_cons, List.map_nil, colSum_cons, colSum_nil]
    by_cases h1 : k < m
    · have : m ≠ k := by omega
      simp [h1, this, Nat.lt_succ_of_lt h1]
    · by_cases h2 : m = k
      · subst h2; simp
      · have : ¬ k < m + 1 := by omega
        simp [h1, h2, this]

theorem mulVecAt_eq (C : SpMat R) (vX : List (Nat × R)) (r i : Nat) (h : ∀ e ∈ vX, e.1 < r) :
    mulVecAt C vX i = ∑ l ∈ Finset.range r, entry C i l * colSum vX l := by
  unfold mulVecAt
  rw [lsum_eq]
  induction vX with
  | nil => simp [colSum_nil]
  | cons e vX ih =>
    have he : e.1 < r := h e (by simp)
    rw [List.map_cons, List.sum_cons, ih (fun e' h' => h e' (by simp [h'])), mul_eq]
    have : ∀ l ∈ Finset.range r, entry C i l * colSum (e :: vX) l =
        (if e.1 = l then entry C i l * e.2 else 0) + entry C i l * colSum vX l := by
      intro l _
      rw [colSum_cons]
      by_cases hl : e.1 = l <;> simp [hl, mul_add]
    rw [Finset.sum_congr rfl this, Finset.sum_add_distrib, Finset.sum_ite_eq]
    simp [he]

theorem toMatrix_computeSchur (X C D : SpMat R) (r : Nat) (hX : ∀ j, ∀ e ∈ col X j, e.1 < r) :
    toMatrix (computeSchur X C D) D.nrows D.ncols =
      toMatrix D D.nrows D.ncols - toMatrix C D.nrows r * toMatrix X r D.ncols := by
  ext i j
  rw [Matrix.sub_apply, Matrix.mul_apply]
  simp only [toMatrix]
  rw [Fin.sum_univ_eq_sum_range (fun l => entry C i l * entry X l j) r]
  rw [show entry (computeSchur X C D) i j = colSum (col (computeSchur X C D) j) i from rfl]
  unfold computeSchur
  rw [col_mk', if_pos j.2, colSum_range_map, if_pos i.2, sub_eq, entry_colVec,
    mulVecAt_eq C (colVec X j) r i (fun e he => hX j e (List.mem_of_mem_filter he))]
  congr 1
  apply Finset.sum_congr rfl
  intro l _
  rw [entry_colVec]

theorem extendCols_ok (A B : SpMat R) (h : A.nrows = B.nrows) :
    extendCols A B = .ok ⟨A.nrows, A.ncols + B.ncols,
      ((List.range A.ncols).map (col A) ++ (List.range B.ncols).map (col B)).toArray⟩ := by
  unfold extendCols; simp [h]


/-- **`Schur::from_partial_triangular`**: no panic, and `S = D − C·A⁻¹·B` for the blocks of `M` -/
theorem schur_S (h : SchurInput upper M r u v) (wt : Bool) :
    ∃ o, schur upper M r wt = .ok o ∧ IsUnit (blkA M r).det ∧
      toMatrix o.s (M.nrows - r) (M.ncols - r) =
        blkD M r (M.nrows - r) (M.ncols - r) - blkC M r (M.nrows - r) * (blkA M r)⁻¹ * blkB M r (M.ncols - r) ∧
      o.src.isSome = wt ∧ o.tgt.isSome = wt := by
  have hA := h.blockA
  obtain ⟨X, hX1, hX2, hX3, hX4, hX5⟩ := solve_correct hA h.blockB
  obtain ⟨Z, _, _, _, hZ⟩ := invTriangular_correct hA
  obtain ⟨W, hW1, hW2, hW3, hW4⟩ := solveLeft_correct hA h.blockC
  have hbn : (divide4 M r r).2.1.ncols = M.ncols - r := rfl
  have hcn : (divide4 M r r).2.2.1.nrows = M.nrows - r := rfl
  have hdn : (divide4 M r r).2.2.2.nrows = M.nrows - r := rfl
  have hdc : (divide4 M r r).2.2.2.ncols = M.ncols - r := rfl
  rw [hbn] at hX3 hX5
  rw [toMatrix_blockA, toMatrix_blockB] at hX5
  rw [toMatrix_blockA] at hZ
  have hunit := (isUnit_of_right_inv _ _ hZ).1
  have hS := toMatrix_computeSchur X (divide4 M r r).2.2.1 (divide4 M r r).2.2.2 r hX4
  rw [hdn, hdc, toMatrix_blockC, toMatrix_blockD] at hS
  have hinv := schur_eq_inv (blkA M r) (blkB M r (M.ncols - r)) (blkC M r (M.nrows - r))
    (blkD M r (M.nrows - r) (M.ncols - r)) _ hunit hX5
  rw [hinv.2] at hS
  unfold schur
  rw [if_neg (by have := h.hr1; omega), if_neg (by have := h.hr2; omega)]
  cases wt with
  | false =>
    refine ⟨⟨computeSchur X (divide4 M r r).2.2.1 (divide4 M r r).2.2.2, none, none⟩, ?_, hunit, hS, rfl, rfl⟩
    simp only [hX1]
    rfl
  | true =>
    have hext := extendCols_ok (negMat W) (idMat (M.nrows - r) : SpMat R) (hW2.trans rfl)
    refine ⟨⟨computeSchur X (divide4 M r r).2.2.1 (divide4 M r r).2.2.2,
      some (proj M.ncols (M.ncols - r), stack (negMat X) (idMat (M.ncols - r))),
      some (⟨(negMat W).nrows, (negMat W).ncols + (idMat (M.nrows - r) : SpMat R).ncols,
        ((List.range (negMat W).ncols).map (col (negMat W)) ++
          (List.range (idMat (M.nrows - r) : SpMat R).ncols).map (col (idMat (M.nrows - r) : SpMat R))).toArray⟩,
        incl M.nrows (M.nrows - r))⟩, ?_, hunit, hS, rfl, rfl⟩
    simp only [hX1, hW1, hext]
    rfl

/-! ### the transfer maps as block matrices -/

/-- index `x` of the leading part is `x`, index `x` of the trailing part is `r + x` -/
def sIdx (r : Nat) {k : Nat} : Fin r ⊕ Fin k → Nat := Sum.elim (fun x => x.val) (fun x => r + x.val)

def colsSplit (F : SpMat R) (a r k : Nat) : Matrix (Fin a) (Fin r ⊕ Fin k) R := fun i j => entry F i (sIdx r j)
def rowsSplit (B : SpMat R) (r k b : Nat) : Matrix (Fin r ⊕ Fin k) (Fin b) R := fun i j => entry B (sIdx r i) j
def bothSplit (M : SpMat R) (r p q : Nat) : Matrix (Fin r ⊕ Fin p) (Fin r ⊕ Fin q) R :=
  fun i j => entry M (sIdx r i) (sIdx r j)

theorem bothSplit_eq (M : SpMat R) (r p q : Nat) :
    bothSplit M r p q = fromBlocks (blkA M r) (blkB M r q) (blkC M r p) (blkD M r p q) := by
  ext (i | i) (j | j) <;> rfl

theorem colSum_single (a : Nat) (x : R) (k : Nat) : colSum [(a, x)] k = if a = k then x else 0 := by
  rw [colSum_cons, colSum_nil]; simp

theorem colSum_map_neg (l : List (Nat × R)) (k : Nat) :
    colSum (l.map fun e => (e.1, neg e.2)) k = - colSum l k := by
  induction l with
  | nil => simp [colSum_nil]
  | cons e l ih =>
    rw [List.map_cons, colSum_cons, colSum_cons, ih]
    by_cases h : e.1 = k <;> simp [h, neg_eq]; ring

theorem entry_negMat (A : SpMat R) (i j : Nat) : entry (negMat A) i j = - entry A i j := by
  unfold entry
  have : col (negMat A) j = (col A j).map fun e => (e.1, neg e.2) := by
    unfold col negMat
    by_cases hj : j < A.cols.size <;> simp [hj]
  rw [this, colSum_map_neg]

theorem colSum_map_shift (l : List (Nat × R)) (k i : Nat) :
    colSum (l.map fun e => (k + e.1, e.2)) (k + i) = colSum l i := by
  induction l with
  | nil => simp [colSum_nil]
  | cons e l ih =>
    rw [List.map_cons, colSum_cons, colSum_cons, ih]
    by_cases h : e.1 = i
    · simp [h]
    · have : k + e.1 ≠ k + i := by omega
      simp [h, this]

theorem colSum_map_shift_lt (l : List (Nat × R)) (k i : Nat) (hi : i < k) :
    colSum (l.map fun e => (k + e.1, e.2)) i = 0 := by
  apply colSum_eq_zero
  intro e he hh
  obtain ⟨e', _, rfl⟩ := List.mem_map.1 he
  simp at hh; omega

/-- `F_src = proj(n, n-r) = [0, 1]` -/
theorem colsSplit_proj (n r : Nat) (hr : r ≤ n) :
    colsSplit (proj n (n - r) : SpMat R) (n - r) r (n - r) = fromCols 0 1 := by
  ext i (j | j)
  · simp only [colsSplit, sIdx, Sum.elim_inl, fromCols_apply_inl, Matrix.zero_apply, entry, proj]
    rw [col_mk', if_pos (by omega)]
    have : ¬ (n - (n - r) ≤ (j : Nat)) := by omega
    rw [if_neg this, colSum_nil]
  · simp only [colsSplit, sIdx, Sum.elim_inr, fromCols_apply_inr, entry, proj]
    rw [col_mk', if_pos (by omega), if_pos (by omega), colSum_single, Matrix.one_apply]
    have h1 : r + (j : Nat) - (n - (n - r)) = j := by omega
    rw [h1]
    by_cases h : i = j
    · subst h; simp [one_eq]
    · have : ¬ (j : Nat) = (i : Nat) := fun hh => h (Fin.ext hh.symm)
      simp [h, this]

/-- `B_tgt = incl(m, m-r) = [0; 1]` -/
theorem rowsSplit_incl (m r : Nat) (hr : r ≤ m) :
    rowsSplit (incl m (m - r) : SpMat R) r (m - r) (m - r) = fromRows 0 1 := by
  ext (i | i) j
  · simp only [rowsSplit, sIdx, Sum.elim_inl, fromRows_apply_inl, Matrix.zero_apply, entry, incl]
    rw [col_mk', if_pos j.2, colSum_single]
    have : m - (m - r) + (j : Nat) ≠ i := by omega
    simp [this]
  · simp only [rowsSplit, sIdx, Sum.elim_inr, fromRows_apply_inr, entry, incl]
    rw [col_mk', if_pos j.2, colSum_single, Matrix.one_apply]
    by_cases h : i = j
    · subst h
      have : m - (m - r) + (i : Nat) = r + i := by omega
      simp [this, one_eq]
    · have : m - (m - r) + (j : Nat) ≠ r + i := by
        intro hh; apply h; apply Fin.ext; omega
      simp [h, this]

/-- `B_src = (-X).stack(id) = [-X; 1]` -/
theorem rowsSplit_stack (X : SpMat R) (r q : Nat) (hX1 : X.nrows = r) (hX2 : X.ncols = q)
    (hX : ∀ j, ∀ e ∈ col X j, e.1 < r) :
    rowsSplit (stack (negMat X) (idMat q : SpMat R)) r q q = fromRows (- toMatrix X r q) 1 := by
  have hcol : ∀ j, j < q → col (stack (negMat X) (idMat q : SpMat R)) j =
      colVec (negMat X) j ++ (colVec (idMat q : SpMat R) j).map fun e => (r + e.1, e.2) := by
    intro j hj
    unfold stack
    rw [col_mk', if_pos (by show j < X.ncols; omega)]
    show colVec (negMat X) j ++ (colVec (idMat q : SpMat R) j).map (fun e : Nat × R => (X.nrows + e.1, e.2)) = _
    rw [hX1]
  have hneg_rows : ∀ j, ∀ e ∈ colVec (negMat X) j, e.1 < r := by
    intro j e he
    have he' := List.mem_of_mem_filter he
    have : col (negMat X) j = (col X j).map fun e => (e.1, neg e.2) := by
      unfold col negMat
      by_cases hj : j < X.cols.size <;> simp [hj]
    rw [this] at he'
    obtain ⟨e', h1, rfl⟩ := List.mem_map.1 he'
    exact hX j e' h1
  ext (i | i) j
  · simp only [rowsSplit, sIdx, Sum.elim_inl, fromRows_apply_inl, Matrix.neg_apply, toMatrix]
    rw [show entry (stack (negMat X) (idMat q : SpMat R)) i j = colSum (col (stack (negMat X) (idMat q : SpMat R)) j) i from rfl,
      hcol j j.2, colSum_append, entry_colVec, entry_negMat, colSum_map_shift_lt _ _ _ i.2, add_zero]
  · simp only [rowsSplit, sIdx, Sum.elim_inr, fromRows_apply_inr]
    have h0 : colSum (colVec (negMat X) j) (r + i) = 0 :=
      colSum_eq_zero _ _ (fun e he hh => by have := hneg_rows j e he; omega)
    rw [show entry (stack (negMat X) (idMat q : SpMat R)) (r + i) j = colSum (col (stack (negMat X) (idMat q : SpMat R)) j) (r + i) from rfl,
      hcol j j.2, colSum_append, h0, zero_add, colSum_map_shift, entry_colVec]
    have := congrFun (congrFun (toMatrix_idMat (R := R) q) i) j
    simpa [toMatrix] using this

theorem getD_append_map (f g : Nat → List (Nat × R)) (a b j : Nat) :
    (((List.range a).map f ++ (List.range b).map g).toArray.getD j []) =
      if j < a then f j else if j < a + b then g (j - a) else [] := by
  have hl : ((List.range a).map f).length = a := by simp
  rw [Array.getD_eq_getD_getElem?, List.getElem?_toArray]
  by_cases h1 : j < a
  · rw [List.getElem?_append_left (by rw [hl]; exact h1)]
    simp [h1]
  · rw [List.getElem?_append_right (by rw [hl]; omega), hl]
    by_cases h2 : j < a + b
    · have h3 : j - a < b := by omega
      simp [h1, h2, h3]
    · have h3 : ¬ j - a < b := by omega
      simp [h1, h2, h3]

/-- `F_tgt = (-W).extend_cols(id) = [-W, 1]` -/
theorem colsSplit_extend (W : SpMat R) (p r : Nat) (hW2 : W.ncols = r) :
    colsSplit (⟨(negMat W).nrows, (negMat W).ncols + (idMat p : SpMat R).ncols,
        ((List.range (negMat W).ncols).map (col (negMat W)) ++
          (List.range (idMat p : SpMat R).ncols).map (col (idMat p : SpMat R))).toArray⟩ : SpMat R) p r p =
      fromCols (- toMatrix W p r) 1 := by
  have hn : (negMat W).ncols = r := hW2
  have hi : (idMat p : SpMat R).ncols = p := rfl
  ext i (j | j)
  · simp only [colsSplit, sIdx, Sum.elim_inl, fromCols_apply_inl, Matrix.neg_apply, toMatrix]
    rw [← entry_negMat]
    unfold entry
    congr 1
    show Array.getD _ _ _ = _
    rw [getD_append_map, hn, if_pos j.2]
  · simp only [colsSplit, sIdx, Sum.elim_inr, fromCols_apply_inr]
    have := congrFun (congrFun (toMatrix_idMat (R := R) p) i) j
    simp only [toMatrix] at this
    rw [← this]
    unfold entry
    congr 1
    show Array.getD _ _ _ = _
    rw [getD_append_map, hn, hi, if_neg (by omega), if_pos (by omega)]
    congr 1
    omega



/-- **the transfer maps the code builds** (`with_trans = true`): as block matrices (index `r + x` of `M`, of the
columns of `F` and of the rows of `B` ↔ `inr x`) they satisfy `F_tgt·M·B_src = S`, `F_src·B_src = 1`,
`F_tgt·B_tgt = 1`, and `S = D − C·A⁻¹·B`. -/
theorem schur_transfer_model (h : SchurInput upper M r u v) :
    ∃ S fs bs ft bt, schur upper M r true = .ok ⟨S, some (fs, bs), some (ft, bt)⟩ ∧
      colsSplit ft (M.nrows - r) r (M.nrows - r) * bothSplit M r (M.nrows - r) (M.ncols - r) *
          rowsSplit bs r (M.ncols - r) (M.ncols - r) = toMatrix S (M.nrows - r) (M.ncols - r) ∧
      colsSplit fs (M.ncols - r) r (M.ncols - r) * rowsSplit bs r (M.ncols - r) (M.ncols - r) = 1 ∧
      colsSplit ft (M.nrows - r) r (M.nrows - r) * rowsSplit bt r (M.nrows - r) (M.nrows - r) = 1 ∧
      toMatrix S (M.nrows - r) (M.ncols - r) =
        blkD M r (M.nrows - r) (M.ncols - r) - blkC M r (M.nrows - r) * (blkA M r)⁻¹ * blkB M r (M.ncols - r) := by
  have hA := h.blockA
  obtain ⟨X, hX1, hX2, hX3, hX4, hX5⟩ := solve_correct hA h.blockB
  obtain ⟨Z, _, _, _, hZ⟩ := invTriangular_correct hA
  obtain ⟨W, hW1, hW2, hW3, hW4⟩ := solveLeft_correct hA h.blockC
  have hbn : (divide4 M r r).2.1.ncols = M.ncols - r := rfl
  have hcn : (divide4 M r r).2.2.1.nrows = M.nrows - r := rfl
  have hdn : (divide4 M r r).2.2.2.nrows = M.nrows - r := rfl
  have hdc : (divide4 M r r).2.2.2.ncols = M.ncols - r := rfl
  rw [hbn] at hX3 hX5
  rw [hcn] at hW2 hW4
  rw [toMatrix_blockA, toMatrix_blockB] at hX5
  rw [toMatrix_blockA, toMatrix_blockC] at hW4
  rw [toMatrix_blockA] at hZ
  have hunit := (isUnit_of_right_inv _ _ hZ).1
  have hS := toMatrix_computeSchur X (divide4 M r r).2.2.1 (divide4 M r r).2.2.2 r hX4
  rw [hdn, hdc, toMatrix_blockC, toMatrix_blockD] at hS
  have hinv := schur_eq_inv (blkA M r) (blkB M r (M.ncols - r)) (blkC M r (M.nrows - r))
    (blkD M r (M.nrows - r) (M.ncols - r)) _ hunit hX5
  have hext := extendCols_ok (negMat W) (idMat (M.nrows - r) : SpMat R) hW2
  refine ⟨computeSchur X (divide4 M r r).2.2.1 (divide4 M r r).2.2.2,
      proj M.ncols (M.ncols - r), stack (negMat X) (idMat (M.ncols - r)),
      ⟨(negMat W).nrows, (negMat W).ncols + (idMat (M.nrows - r) : SpMat R).ncols,
        ((List.range (negMat W).ncols).map (col (negMat W)) ++
          (List.range (idMat (M.nrows - r) : SpMat R).ncols).map (col (idMat (M.nrows - r) : SpMat R))).toArray⟩,
      incl M.nrows (M.nrows - r), ?_, ?_, ?_, ?_, ?_⟩
  · unfold schur
    rw [if_neg (by have := h.hr1; omega), if_neg (by have := h.hr2; omega)]
    simp only [hX1, hW1, hext]
    rfl
  · rw [colsSplit_extend W _ r hW3, bothSplit_eq, rowsSplit_stack X r _ hX2 hX3 hX4, hS]
    exact schur_transfer _ _ _ _ _ _ hX5 hW4
  · rw [colsSplit_proj M.ncols r h.hr2, rowsSplit_stack X r _ hX2 hX3 hX4]
    exact schur_src_id _
  · rw [colsSplit_extend W _ r hW3, rowsSplit_incl M.nrows r h.hr1]
    exact schur_tgt_id _
  · rw [hS, hinv.2]

end
end Yuiv.C12
