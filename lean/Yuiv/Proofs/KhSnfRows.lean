import Yuiv.Proofs.KhSnfDefs
import Init.Internal.Order.While
/-
KhSnfRows — the two sparse-row primitives of the reference's integer linear algebra:

  * `rowGetSpec  : RowGetSpec`    binary search `rowGet r j` returns `rval r j` on a well-formed row;
  * `rowAxpy_toList`              `rowAxpy a k b` is the list merge `mergeL k a.toList b.toList` (no hypotheses);
  * `rval_rowAxpy`                `rval (rowAxpy a k b) c = rval a c + k * rval b c` for ALL rows and ALL `k`;
  * `rowAxpySpec' : RowAxpySpec'` for `k ≠ 0` the result of `rowAxpy` on well-formed rows is well-formed
                                  (and has the values above);
  * `not_rowAxpySpec : ¬ RowAxpySpec`   the unrestricted statement is FALSE: for `k = 0` the branches that push
                                  `(cb, k * vb)` without a zero test create zero entries
                                  (`rowAxpy #[] 0 #[(0,1)] = #[(0,0)]`). The only caller uses `k = -(a*u)`, `a ≠ 0`, `u = ±1`.

The `while` loops are `Lean.Loop.forIn`; they are unfolded one iteration at a time with
`Lean.Loop.forIn_eq_of_monadTail` (technique of `C18BridgeModel`).
-/
namespace Yuiv.KhSnf
open Yuiv Yuiv.KhRef

/-! ### values of lists of entries -/

/-- `rval` on lists -/
def lval (l : List (Nat × Int)) (c : Nat) : Int := ((l.filter (fun x => x.1 == c)).map (fun x => x.2)).sum

theorem rval_eq_lval (r : Row) (c : Nat) : rval r c = lval r.toList c := rfl

@[simp] theorem lval_nil (c : Nat) : lval [] c = 0 := rfl

theorem lval_cons (x : Nat × Int) (l : List (Nat × Int)) (c : Nat) :
    lval (x :: l) c = (if x.1 = c then x.2 else 0) + lval l c := by
  unfold lval
  by_cases h : x.1 = c <;> simp [h]

theorem lval_eq_zero_of_not_mem (l : List (Nat × Int)) (c : Nat) (h : ∀ x ∈ l, x.1 ≠ c) : lval l c = 0 := by
  induction l with
  | nil => rfl
  | cons x l ih =>
    rw [lval_cons, ih (fun y hy => h y (List.mem_cons_of_mem _ hy)), if_neg (h x List.mem_cons_self)]
    rfl

theorem lval_of_mem {l : List (Nat × Int)} (hp : l.Pairwise (fun x y => x.1 < y.1)) {x : Nat × Int}
    (hx : x ∈ l) : lval l x.1 = x.2 := by
  induction l with
  | nil => cases hx
  | cons y l ih =>
    rw [List.pairwise_cons] at hp
    rw [lval_cons]
    rcases List.mem_cons.1 hx with rfl | hx
    · rw [if_pos rfl, lval_eq_zero_of_not_mem]
      · simp
      · intro z hz
        have := hp.1 z hz
        omega
    · have := hp.1 x hx
      rw [if_neg (by omega), ih hp.2 hx]
      simp

/-! ### small facts about `rval` / `RowOK` -/

theorem rval_empty (c : Nat) : rval #[] c = 0 := rfl

theorem rval_eq_zero_of_size_zero (r : Row) (h : r.size = 0) (c : Nat) : rval r c = 0 := by
  have : r = #[] := Array.eq_empty_of_size_eq_zero h
  subst this
  rfl

theorem rval_of_mem {n : Nat} {r : Row} (h : RowOK n r) {x : Nat × Int} (hx : x ∈ r.toList) :
    rval r x.1 = x.2 := lval_of_mem h.1 hx

theorem rval_ne_zero_iff {n : Nat} {r : Row} (h : RowOK n r) (c : Nat) :
    rval r c ≠ 0 ↔ ∃ x ∈ r.toList, x.1 = c := by
  constructor
  · intro hne
    by_contra hno
    apply hne
    apply lval_eq_zero_of_not_mem
    intro x hx hc
    exact hno ⟨x, hx, hc⟩
  · rintro ⟨x, hx, rfl⟩
    rw [rval_of_mem h hx]
    exact h.2.1 x hx

theorem rval_eq_zero_of_ge {n : Nat} {r : Row} (h : RowOK n r) {c : Nat} (hc : n ≤ c) : rval r c = 0 := by
  apply lval_eq_zero_of_not_mem
  intro x hx he
  have := h.2.2 x hx
  omega

theorem exists_rval_ne_zero {n : Nat} {r : Row} (h : RowOK n r) (hs : 0 < r.size) :
    ∃ c, c < n ∧ rval r c ≠ 0 := by
  have hx : r[0] ∈ r.toList := by simp
  exact ⟨r[0].1, h.2.2 _ hx, by rw [rval_of_mem h hx]; exact h.2.1 _ hx⟩

/-! ### one iteration of a `while` loop -/

theorem loop_unfold {β : Type} (f : Unit → β → Id (ForInStep β)) (s : β) :
    forIn (m := Id) Lean.Loop.mk s f =
      (match f () s with
        | ForInStep.done v => v
        | ForInStep.yield v => forIn (m := Id) Lean.Loop.mk v f) := by
  show Lean.Loop.forIn Lean.Loop.mk s f = _
  rw [Lean.Loop.forIn_eq_of_monadTail]
  cases f () s <;> rfl

/-! ### `rowGet` -/

abbrev GS := Option Int × Nat × Nat

/-- the body of the `while` loop of `rowGet` -/
def getBody (r : Row) (j : Nat) (_ : Unit) (s : GS) : Id (ForInStep GS) :=
  if s.2.1 < s.2.2 then
    if r[(s.2.1 + s.2.2) / 2]!.1 == j then ForInStep.done (some r[(s.2.1 + s.2.2) / 2]!.2, s.2.1, s.2.2)
    else if r[(s.2.1 + s.2.2) / 2]!.1 < j then ForInStep.yield (none, (s.2.1 + s.2.2) / 2 + 1, s.2.2)
    else ForInStep.yield (none, s.2.1, (s.2.1 + s.2.2) / 2)
  else ForInStep.done (none, s.2.1, s.2.2)

def getFin (s : GS) : Int := match s.1 with | some v => v | none => 0

theorem rowGet_eq (r : Row) (j : Nat) :
    rowGet r j = getFin (forIn (m := Id) Lean.Loop.mk ((none, 0, r.size) : GS) (getBody r j)) := by
  unfold rowGet
  show Id.run (forIn (m := Id) Lean.Loop.mk _ _ >>= _)
     = Id.run (forIn (m := Id) Lean.Loop.mk _ (getBody r j) >>= fun s => pure (getFin s))
  congr 2
  funext s
  obtain ⟨a, b⟩ := s
  cases a <;> rfl

theorem sorted_get {r : Row} (hp : r.toList.Pairwise (fun x y => x.1 < y.1)) {p q : Nat} (hpq : p < q)
    (hq : q < r.size) : r[p]!.1 < r[q]!.1 := by
  have h := (List.pairwise_iff_getElem.1 hp) p q (by simpa using (by omega : p < r.size)) (by simpa using hq) hpq
  simpa [getElem!_pos, hq, (by omega : p < r.size)] using h

theorem mem_get {r : Row} {x : Nat × Int} (hx : x ∈ r.toList) : ∃ p, p < r.size ∧ r[p]! = x := by
  obtain ⟨p, hp, he⟩ := List.getElem_of_mem hx
  have hp' : p < r.size := by simpa using hp
  exact ⟨p, hp', by simpa [getElem!_pos, hp'] using he⟩

theorem get_mem {r : Row} {p : Nat} (hp : p < r.size) : r[p]! ∈ r.toList := by
  simp [getElem!_pos, hp]

theorem get_loop (r : Row) (j : Nat) (hp : r.toList.Pairwise (fun x y => x.1 < y.1)) :
    ∀ (m lo hi : Nat), hi - lo ≤ m → hi ≤ r.size →
      (∀ p, p < lo → p < r.size → r[p]!.1 < j) → (∀ p, hi ≤ p → p < r.size → j < r[p]!.1) →
      getFin (forIn (m := Id) Lean.Loop.mk ((none, lo, hi) : GS) (getBody r j)) = rval r j := by
  intro m
  induction m with
  | zero =>
    intro lo hi hm hhi hlo hhi'
    have hb : getBody r j () ((none, lo, hi) : GS) = ForInStep.done (none, lo, hi) := by
      simp only [getBody, if_neg (by omega : ¬ lo < hi)]
    rw [loop_unfold, hb]
    symm
    apply lval_eq_zero_of_not_mem
    intro x hx he
    obtain ⟨p, hps, rfl⟩ := mem_get hx
    by_cases h : p < lo
    · have := hlo p h hps; omega
    · have := hhi' p (by omega) hps; omega
  | succ m ih =>
    intro lo hi hm hhi hlo hhi'
    by_cases hlt : lo < hi
    · have hmid : (lo + hi) / 2 < r.size := by omega
      by_cases h1 : r[(lo + hi) / 2]!.1 = j
      · have hb : getBody r j () ((none, lo, hi) : GS) = ForInStep.done (some r[(lo + hi) / 2]!.2, lo, hi) := by
          simp only [getBody, if_pos hlt, h1, beq_self_eq_true, if_true]
        rw [loop_unfold, hb]
        show r[(lo + hi) / 2]!.2 = _
        rw [← h1]
        exact (lval_of_mem hp (get_mem hmid)).symm
      · have h1' : (r[(lo + hi) / 2]!.1 == j) = false := by simpa using h1
        by_cases h2 : r[(lo + hi) / 2]!.1 < j
        · have hb : getBody r j () ((none, lo, hi) : GS) = ForInStep.yield (none, (lo + hi) / 2 + 1, hi) := by
            simp only [getBody, if_pos hlt, h1', if_pos h2]
            rfl
          rw [loop_unfold, hb]
          apply ih _ _ (by omega) hhi _ hhi'
          intro p hpl hps
          by_cases hpe : p = (lo + hi) / 2
          · rw [hpe]; exact h2
          · have := sorted_get hp (by omega : p < (lo + hi) / 2) hmid
            omega
        · have hb : getBody r j () ((none, lo, hi) : GS) = ForInStep.yield (none, lo, (lo + hi) / 2) := by
            simp only [getBody, if_pos hlt, h1', if_neg h2]
            rfl
          rw [loop_unfold, hb]
          apply ih _ _ (by omega) (by omega) hlo
          intro p hpl hps
          by_cases hpe : p = (lo + hi) / 2
          · rw [hpe]; omega
          · have := sorted_get hp (by omega : (lo + hi) / 2 < p) hps
            omega
    · have hb : getBody r j () ((none, lo, hi) : GS) = ForInStep.done (none, lo, hi) := by
        simp only [getBody, if_neg hlt]
      rw [loop_unfold, hb]
      symm
      apply lval_eq_zero_of_not_mem
      intro x hx he
      obtain ⟨p, hps, rfl⟩ := mem_get hx
      by_cases h : p < lo
      · have := hlo p h hps; omega
      · have := hhi' p (by omega) hps; omega

/-- binary search `rowGet` returns the value of a well-formed row -/
theorem rowGetSpec : RowGetSpec := by
  intro n r j h
  rw [rowGet_eq]
  exact get_loop r j h.1 r.size 0 r.size (by omega) (by omega) (by intro p hp; omega) (by intro p hp hp'; omega)

/-! ### `rowAxpy` -/

abbrev AS := Row × Nat × Nat

/-- the body of the `while` loop of `rowAxpy` -/
def axpyBody (a : Row) (k : Int) (b : Row) (_ : Unit) (s : AS) : Id (ForInStep AS) :=
  if (decide (s.2.1 < a.size) || decide (s.2.2 < b.size)) = true then
    if s.2.2 ≥ b.size then ForInStep.yield (s.1.push a[s.2.1]!, s.2.1 + 1, s.2.2)
    else if s.2.1 ≥ a.size then ForInStep.yield (s.1.push (b[s.2.2]!.1, k * b[s.2.2]!.2), s.2.1, s.2.2 + 1)
    else if a[s.2.1]!.1 < b[s.2.2]!.1 then ForInStep.yield (s.1.push (a[s.2.1]!.1, a[s.2.1]!.2), s.2.1 + 1, s.2.2)
    else if b[s.2.2]!.1 < a[s.2.1]!.1 then
      ForInStep.yield (s.1.push (b[s.2.2]!.1, k * b[s.2.2]!.2), s.2.1, s.2.2 + 1)
    else if (a[s.2.1]!.2 + k * b[s.2.2]!.2 != 0) = true then
      ForInStep.yield (s.1.push (a[s.2.1]!.1, a[s.2.1]!.2 + k * b[s.2.2]!.2), s.2.1 + 1, s.2.2 + 1)
    else ForInStep.yield (s.1, s.2.1 + 1, s.2.2 + 1)
  else ForInStep.done (s.1, s.2.1, s.2.2)

theorem rowAxpy_eq (a : Row) (k : Int) (b : Row) :
    rowAxpy a k b
      = (forIn (m := Id) Lean.Loop.mk ((Array.mkEmpty (a.size + b.size), 0, 0) : AS) (axpyBody a k b)).1 := by
  unfold rowAxpy
  rfl

/-- the sorted merge `xs + k * ys` on lists of entries, branch by branch as in `rowAxpy` -/
def mergeL (k : Int) : List (Nat × Int) → List (Nat × Int) → List (Nat × Int)
  | [], [] => []
  | x :: xs, [] => x :: mergeL k xs []
  | [], y :: ys => (y.1, k * y.2) :: mergeL k [] ys
  | x :: xs, y :: ys =>
    if x.1 < y.1 then x :: mergeL k xs (y :: ys)
    else if y.1 < x.1 then (y.1, k * y.2) :: mergeL k (x :: xs) ys
    else if (x.2 + k * y.2 != 0) = true then (x.1, x.2 + k * y.2) :: mergeL k xs ys
    else mergeL k xs ys
termination_by xs ys => xs.length + ys.length

theorem drop_get {r : Row} {p : Nat} (hp : p < r.size) : r.toList.drop p = r[p]! :: r.toList.drop (p + 1) := by
  rw [List.drop_eq_getElem_cons (by simpa using hp)]
  simp [getElem!_pos, hp]

theorem drop_ge {r : Row} {p : Nat} (hp : r.size ≤ p) : r.toList.drop p = [] := by
  apply List.drop_eq_nil_of_le
  simpa using hp

theorem axpy_loop (a : Row) (k : Int) (b : Row) :
    ∀ (m : Nat) (out : Row) (i j : Nat), (a.size - i) + (b.size - j) ≤ m →
      (forIn (m := Id) Lean.Loop.mk ((out, i, j) : AS) (axpyBody a k b)).1.toList
        = out.toList ++ mergeL k (a.toList.drop i) (b.toList.drop j) := by
  intro m
  induction m with
  | zero =>
    intro out i j hm
    have hb : axpyBody a k b () ((out, i, j) : AS) = ForInStep.done (out, i, j) := by
      have hc : ¬ (decide (i < a.size) || decide (j < b.size)) = true := by simp; omega
      simp only [axpyBody, if_neg hc]
    rw [loop_unfold, hb, drop_ge (by omega : a.size ≤ i), drop_ge (by omega : b.size ≤ j)]
    simp [mergeL]
  | succ m ih =>
    intro out i j hm
    by_cases hj : b.size ≤ j
    · by_cases hi : a.size ≤ i
      · have hb : axpyBody a k b () ((out, i, j) : AS) = ForInStep.done (out, i, j) := by
          have hc : ¬ (decide (i < a.size) || decide (j < b.size)) = true := by simp; omega
          simp only [axpyBody, if_neg hc]
        rw [loop_unfold, hb, drop_ge hi, drop_ge hj]
        simp [mergeL]
      · have hb : axpyBody a k b () ((out, i, j) : AS) = ForInStep.yield (out.push a[i]!, i + 1, j) := by
          have hc : (decide (i < a.size) || decide (j < b.size)) = true := by simp; omega
          simp only [axpyBody, if_pos hc, ge_iff_le, if_pos hj]
        rw [loop_unfold, hb]
        show (forIn (m := Id) Lean.Loop.mk ((out.push a[i]!, i + 1, j) : AS) (axpyBody a k b)).1.toList = _
        rw [ih _ _ _ (by omega), drop_get (by omega : i < a.size), drop_ge hj]
        simp [mergeL]
    · have hj' : j < b.size := by omega
      by_cases hi : a.size ≤ i
      · have hb : axpyBody a k b () ((out, i, j) : AS)
            = ForInStep.yield (out.push (b[j]!.1, k * b[j]!.2), i, j + 1) := by
          have hc : (decide (i < a.size) || decide (j < b.size)) = true := by simp; omega
          simp only [axpyBody, if_pos hc, ge_iff_le, if_neg hj, if_pos hi]
        rw [loop_unfold, hb]
        show (forIn (m := Id) Lean.Loop.mk ((out.push (b[j]!.1, k * b[j]!.2), i, j + 1) : AS)
          (axpyBody a k b)).1.toList = _
        rw [ih _ _ _ (by omega), drop_get hj', drop_ge hi]
        simp [mergeL]
      · have hi' : i < a.size := by omega
        rw [drop_get hi', drop_get hj']
        by_cases h1 : a[i]!.1 < b[j]!.1
        · have hb : axpyBody a k b () ((out, i, j) : AS)
              = ForInStep.yield (out.push (a[i]!.1, a[i]!.2), i + 1, j) := by
            have hc : (decide (i < a.size) || decide (j < b.size)) = true := by simp; omega
            simp only [axpyBody, if_pos hc, ge_iff_le, if_neg hj, if_neg hi, if_pos h1]
          rw [loop_unfold, hb]
          show (forIn (m := Id) Lean.Loop.mk ((out.push (a[i]!.1, a[i]!.2), i + 1, j) : AS)
            (axpyBody a k b)).1.toList = _
          rw [ih _ _ _ (by omega), drop_get hj']
          simp [mergeL, h1]
        · by_cases h2 : b[j]!.1 < a[i]!.1
          · have hb : axpyBody a k b () ((out, i, j) : AS)
                = ForInStep.yield (out.push (b[j]!.1, k * b[j]!.2), i, j + 1) := by
              have hc : (decide (i < a.size) || decide (j < b.size)) = true := by simp; omega
              simp only [axpyBody, if_pos hc, ge_iff_le, if_neg hj, if_neg hi, if_neg h1, if_pos h2]
            rw [loop_unfold, hb]
            show (forIn (m := Id) Lean.Loop.mk ((out.push (b[j]!.1, k * b[j]!.2), i, j + 1) : AS)
              (axpyBody a k b)).1.toList = _
            rw [ih _ _ _ (by omega), drop_get hi']
            simp [mergeL, h1, h2]
          · by_cases h3 : a[i]!.2 + k * b[j]!.2 = 0
            · have hb : axpyBody a k b () ((out, i, j) : AS) = ForInStep.yield (out, i + 1, j + 1) := by
                have hc : (decide (i < a.size) || decide (j < b.size)) = true := by simp; omega
                have h3' : ¬ (a[i]!.2 + k * b[j]!.2 != 0) = true := by simp [h3]
                simp only [axpyBody, if_pos hc, ge_iff_le, if_neg hj, if_neg hi, if_neg h1, if_neg h2, if_neg h3']
              rw [loop_unfold, hb]
              show (forIn (m := Id) Lean.Loop.mk ((out, i + 1, j + 1) : AS) (axpyBody a k b)).1.toList = _
              rw [ih _ _ _ (by omega)]
              simp [mergeL, h1, h2, h3]
            · have hb : axpyBody a k b () ((out, i, j) : AS)
                  = ForInStep.yield (out.push (a[i]!.1, a[i]!.2 + k * b[j]!.2), i + 1, j + 1) := by
                have hc : (decide (i < a.size) || decide (j < b.size)) = true := by simp; omega
                have h3' : (a[i]!.2 + k * b[j]!.2 != 0) = true := by simp [h3]
                simp only [axpyBody, if_pos hc, ge_iff_le, if_neg hj, if_neg hi, if_neg h1, if_neg h2, if_pos h3']
              rw [loop_unfold, hb]
              show (forIn (m := Id) Lean.Loop.mk ((out.push (a[i]!.1, a[i]!.2 + k * b[j]!.2), i + 1, j + 1) : AS)
                (axpyBody a k b)).1.toList = _
              rw [ih _ _ _ (by omega)]
              simp [mergeL, h1, h2, h3]

/-- `rowAxpy` is the list merge (no hypotheses on the rows) -/
theorem rowAxpy_toList (a : Row) (k : Int) (b : Row) :
    (rowAxpy a k b).toList = mergeL k a.toList b.toList := by
  rw [rowAxpy_eq, axpy_loop a k b _ _ 0 0 (Nat.le_refl _)]
  simp

/-! ### properties of the merge -/

/-- values of the merge: for ALL lists and ALL `k` (no sortedness needed) -/
theorem lval_mergeL (k : Int) (xs ys : List (Nat × Int)) (c : Nat) :
    lval (mergeL k xs ys) c = lval xs c + k * lval ys c := by
  fun_induction mergeL k xs ys with
  | case1 => simp
  | case2 x xs ih => rw [lval_cons, ih, lval_cons]; ring
  | case3 y ys ih =>
    rw [lval_cons, ih, lval_cons]
    by_cases h : y.1 = c
    · simp [h]; ring
    · simp [h]
  | case4 x xs y ys h1 ih => rw [lval_cons, ih, lval_cons x xs]; ring
  | case5 x xs y ys h1 h2 ih =>
    rw [lval_cons, ih, lval_cons, lval_cons]
    by_cases h : y.1 = c
    · simp [h]; ring
    · simp [h]
  | case6 x xs y ys h1 h2 h3 ih =>
    have he : y.1 = x.1 := by omega
    rw [lval_cons, ih, lval_cons, lval_cons, he]
    by_cases h : x.1 = c
    · simp [h]; ring
    · simp [h]
  | case7 x xs y ys h1 h2 h3 ih =>
    have he : y.1 = x.1 := by omega
    have h0 : x.2 + k * y.2 = 0 := by simpa using h3
    rw [ih, lval_cons, lval_cons, he]
    by_cases h : x.1 = c <;> simp [h]
    rw [Int.mul_add]
    omega

/-- every column of the merge is a column of one of the arguments -/
theorem mem_mergeL (k : Int) (xs ys : List (Nat × Int)) :
    ∀ z ∈ mergeL k xs ys, (∃ x ∈ xs, x.1 = z.1) ∨ (∃ y ∈ ys, y.1 = z.1) := by
  fun_induction mergeL k xs ys with
  | case1 => simp
  | case2 x xs ih =>
    intro z hz
    rcases List.mem_cons.1 hz with rfl | hz
    · exact Or.inl ⟨z, List.mem_cons_self, rfl⟩
    · rcases ih z hz with ⟨w, hw, he⟩ | ⟨w, hw, he⟩
      · exact Or.inl ⟨w, List.mem_cons_of_mem _ hw, he⟩
      · cases hw
  | case3 y ys ih =>
    intro z hz
    rcases List.mem_cons.1 hz with rfl | hz
    · exact Or.inr ⟨y, List.mem_cons_self, rfl⟩
    · rcases ih z hz with ⟨w, hw, he⟩ | ⟨w, hw, he⟩
      · cases hw
      · exact Or.inr ⟨w, List.mem_cons_of_mem _ hw, he⟩
  | case4 x xs y ys h1 ih =>
    intro z hz
    rcases List.mem_cons.1 hz with rfl | hz
    · exact Or.inl ⟨z, List.mem_cons_self, rfl⟩
    · rcases ih z hz with ⟨w, hw, he⟩ | ⟨w, hw, he⟩
      · exact Or.inl ⟨w, List.mem_cons_of_mem _ hw, he⟩
      · exact Or.inr ⟨w, hw, he⟩
  | case5 x xs y ys h1 h2 ih =>
    intro z hz
    rcases List.mem_cons.1 hz with rfl | hz
    · exact Or.inr ⟨y, List.mem_cons_self, rfl⟩
    · rcases ih z hz with ⟨w, hw, he⟩ | ⟨w, hw, he⟩
      · exact Or.inl ⟨w, hw, he⟩
      · exact Or.inr ⟨w, List.mem_cons_of_mem _ hw, he⟩
  | case6 x xs y ys h1 h2 h3 ih =>
    intro z hz
    rcases List.mem_cons.1 hz with rfl | hz
    · exact Or.inl ⟨x, List.mem_cons_self, rfl⟩
    · rcases ih z hz with ⟨w, hw, he⟩ | ⟨w, hw, he⟩
      · exact Or.inl ⟨w, List.mem_cons_of_mem _ hw, he⟩
      · exact Or.inr ⟨w, List.mem_cons_of_mem _ hw, he⟩
  | case7 x xs y ys h1 h2 h3 ih =>
    intro z hz
    rcases ih z hz with ⟨w, hw, he⟩ | ⟨w, hw, he⟩
    · exact Or.inl ⟨w, List.mem_cons_of_mem _ hw, he⟩
    · exact Or.inr ⟨w, List.mem_cons_of_mem _ hw, he⟩

/-- for `k ≠ 0` the merge of zero-free lists is zero-free -/
theorem nz_mergeL (k : Int) (hk : k ≠ 0) (xs ys : List (Nat × Int)) (hx : ∀ x ∈ xs, x.2 ≠ 0)
    (hy : ∀ y ∈ ys, y.2 ≠ 0) : ∀ z ∈ mergeL k xs ys, z.2 ≠ 0 := by
  fun_induction mergeL k xs ys with
  | case1 => simp
  | case2 x xs ih =>
    intro z hz
    rcases List.mem_cons.1 hz with rfl | hz
    · exact hx _ List.mem_cons_self
    · exact ih (fun w hw => hx w (List.mem_cons_of_mem _ hw)) hy z hz
  | case3 y ys ih =>
    intro z hz
    rcases List.mem_cons.1 hz with rfl | hz
    · exact Int.mul_ne_zero hk (hy _ List.mem_cons_self)
    · exact ih hx (fun w hw => hy w (List.mem_cons_of_mem _ hw)) z hz
  | case4 x xs y ys h1 ih =>
    intro z hz
    rcases List.mem_cons.1 hz with rfl | hz
    · exact hx _ List.mem_cons_self
    · exact ih (fun w hw => hx w (List.mem_cons_of_mem _ hw)) hy z hz
  | case5 x xs y ys h1 h2 ih =>
    intro z hz
    rcases List.mem_cons.1 hz with rfl | hz
    · exact Int.mul_ne_zero hk (hy _ List.mem_cons_self)
    · exact ih hx (fun w hw => hy w (List.mem_cons_of_mem _ hw)) z hz
  | case6 x xs y ys h1 h2 h3 ih =>
    intro z hz
    rcases List.mem_cons.1 hz with rfl | hz
    · simpa using h3
    · exact ih (fun w hw => hx w (List.mem_cons_of_mem _ hw)) (fun w hw => hy w (List.mem_cons_of_mem _ hw)) z hz
  | case7 x xs y ys h1 h2 h3 ih =>
    exact ih (fun w hw => hx w (List.mem_cons_of_mem _ hw)) (fun w hw => hy w (List.mem_cons_of_mem _ hw))

/-- the merge of strictly sorted lists is strictly sorted (any `k`) -/
theorem sorted_mergeL (k : Int) (xs ys : List (Nat × Int)) (hx : xs.Pairwise (fun x y => x.1 < y.1))
    (hy : ys.Pairwise (fun x y => x.1 < y.1)) : (mergeL k xs ys).Pairwise (fun x y => x.1 < y.1) := by
  fun_induction mergeL k xs ys with
  | case1 => simp
  | case2 x xs ih =>
    rw [List.pairwise_cons] at hx ⊢
    refine ⟨?_, ih hx.2 hy⟩
    intro z hz
    rcases mem_mergeL k _ _ z hz with ⟨w, hw, he⟩ | ⟨w, hw, he⟩
    · rw [← he]; exact hx.1 w hw
    · cases hw
  | case3 y ys ih =>
    rw [List.pairwise_cons] at hy ⊢
    refine ⟨?_, ih hx hy.2⟩
    intro z hz
    rcases mem_mergeL k _ _ z hz with ⟨w, hw, he⟩ | ⟨w, hw, he⟩
    · cases hw
    · rw [← he]; exact hy.1 w hw
  | case4 x xs y ys h1 ih =>
    have hx' := List.pairwise_cons.1 hx
    have hy' := List.pairwise_cons.1 hy
    rw [List.pairwise_cons]
    refine ⟨?_, ih hx'.2 hy⟩
    intro z hz
    rcases mem_mergeL k _ _ z hz with ⟨w, hw, he⟩ | ⟨w, hw, he⟩
    · rw [← he]; exact hx'.1 w hw
    · rw [← he]
      rcases List.mem_cons.1 hw with rfl | hw
      · exact h1
      · have := hy'.1 w hw; omega
  | case5 x xs y ys h1 h2 ih =>
    have hx' := List.pairwise_cons.1 hx
    have hy' := List.pairwise_cons.1 hy
    rw [List.pairwise_cons]
    refine ⟨?_, ih hx hy'.2⟩
    intro z hz
    show y.1 < z.1
    rcases mem_mergeL k _ _ z hz with ⟨w, hw, he⟩ | ⟨w, hw, he⟩
    · rw [← he]
      rcases List.mem_cons.1 hw with rfl | hw
      · exact h2
      · have := hx'.1 w hw; omega
    · rw [← he]; exact hy'.1 w hw
  | case6 x xs y ys h1 h2 h3 ih =>
    have hx' := List.pairwise_cons.1 hx
    have hy' := List.pairwise_cons.1 hy
    rw [List.pairwise_cons]
    refine ⟨?_, ih hx'.2 hy'.2⟩
    intro z hz
    show x.1 < z.1
    rcases mem_mergeL k _ _ z hz with ⟨w, hw, he⟩ | ⟨w, hw, he⟩
    · rw [← he]; exact hx'.1 w hw
    · rw [← he]; have := hy'.1 w hw; omega
  | case7 x xs y ys h1 h2 h3 ih =>
    exact ih (List.pairwise_cons.1 hx).2 (List.pairwise_cons.1 hy).2

/-! ### the specification of `rowAxpy` -/

/-- values of `rowAxpy`: for ALL rows and ALL `k` (also `k = 0`, also malformed rows) -/
theorem rval_rowAxpy (a : Row) (k : Int) (b : Row) (c : Nat) :
    rval (rowAxpy a k b) c = rval a c + k * rval b c := by
  rw [rval_eq_lval, rowAxpy_toList, lval_mergeL]
  rfl

/-- `RowAxpySpec` restricted to `k ≠ 0` (the unrestricted `RowAxpySpec` is false, see `not_rowAxpySpec`) -/
def RowAxpySpec' : Prop := ∀ (n : Nat) (a b : Row) (k : Int), k ≠ 0 → RowOK n a → RowOK n b →
  RowOK n (rowAxpy a k b) ∧ ∀ c, rval (rowAxpy a k b) c = rval a c + k * rval b c

theorem rowAxpySpec_ne {n : Nat} {a b : Row} {k : Int} (hk : k ≠ 0) (ha : RowOK n a) (hb : RowOK n b) :
    RowOK n (rowAxpy a k b) ∧ ∀ c, rval (rowAxpy a k b) c = rval a c + k * rval b c := by
  refine ⟨⟨?_, ?_, ?_⟩, rval_rowAxpy a k b⟩
  · rw [rowAxpy_toList]
    exact sorted_mergeL k _ _ ha.1 hb.1
  · rw [rowAxpy_toList]
    exact nz_mergeL k hk _ _ ha.2.1 hb.2.1
  · rw [rowAxpy_toList]
    intro z hz
    rcases mem_mergeL k _ _ z hz with ⟨w, hw, he⟩ | ⟨w, hw, he⟩
    · rw [← he]; exact ha.2.2 w hw
    · rw [← he]; exact hb.2.2 w hw

theorem rowAxpySpec' : RowAxpySpec' := fun _ _ _ _ hk ha hb => rowAxpySpec_ne hk ha hb

/-- for `k = 0` everything of `RowAxpySpec` except "no zero value" still holds -/
theorem rowAxpy_sorted_lt {n : Nat} {a b : Row} (k : Int) (ha : RowOK n a) (hb : RowOK n b) :
    (rowAxpy a k b).toList.Pairwise (fun x y => x.1 < y.1) ∧ ∀ x ∈ (rowAxpy a k b).toList, x.1 < n := by
  rw [rowAxpy_toList]
  refine ⟨sorted_mergeL k _ _ ha.1 hb.1, ?_⟩
  intro z hz
  rcases mem_mergeL k _ _ z hz with ⟨w, hw, he⟩ | ⟨w, hw, he⟩
  · rw [← he]; exact ha.2.2 w hw
  · rw [← he]; exact hb.2.2 w hw

/-- the unrestricted `RowAxpySpec` is FALSE: `rowAxpy #[] 0 #[(0,1)] = #[(0,0)]` has a zero entry
(the branches `i ≥ a.size` and `cb < ca` push `(cb, k * vb)` without a zero test). -/
theorem not_rowAxpySpec : ¬ RowAxpySpec := by
  intro h
  have hb : RowOK 1 #[((0 : Nat), (1 : Int))] := by simp [RowOK]
  have ha : RowOK 1 #[] := by simp [RowOK]
  have h1 := (h 1 #[] #[((0 : Nat), (1 : Int))] 0 ha hb).1.2.1
  rw [rowAxpy_toList] at h1
  exact h1 (0, 0) (by simp [mergeL]) rfl

end Yuiv.KhSnf
