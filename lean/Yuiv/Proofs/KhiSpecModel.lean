import Yuiv.Model.C19
/-
KhiSpec — `C19.khiHomology` taken apart: the local closures (`dK`, `dI`, `reduce2`, `homo`) and the loops of the
`Id.run do` block as top-level definitions with the same bodies, and `khiHomology = khiM` (definitional unfolding).
Core Lean only.
-/
namespace Yuiv.KhiSpec
open Yuiv Yuiv.KhRef Yuiv.C19

abbrev Res := Except C19.Failure IResult

/-- `reduce2` of `khiHomology`: the elements occurring an odd number of times (counted in a hash map) -/
def reduce2 (xs : Array IGen) : Array IGen :=
  Array.map (fun x => x.fst) (Array.filter (fun x => match x with | (_, k) => k % 2 == 1)
    (Id.run (forIn xs (∅ : Std.HashMap IGen Nat) (fun x cnt =>
      pure (ForInStep.yield (cnt.insert x ((cnt.get? x).getD 0 + 1)))))).toArray)

/-- the generators of the cube complex by weight (`kgens`) -/
def kgensOf (c : Cube) : Array (Array Gen) :=
  Id.run (forIn [:2 ^ c.n] (Array.replicate (c.n + 1) (#[] : Array Gen)) (fun s kg =>
    pure (ForInStep.yield (kg.set! (popcount s c.n) (kg[popcount s c.n]! ++ c.gensAt s)))))

abbrev DMap := Std.HashMap Gen (Array Term)

def dmapInner (c : Cube) (p : Params) (gs : Array Gen) (dmap : DMap) : Id (Option Res × DMap) :=
  forIn gs (none, dmap) (fun g __s =>
    match c.d p g with
    | none => pure (ForInStep.done (some (Except.error C19.Failure.malformed), __s.snd))
    | some ts => pure (ForInStep.yield (none, __s.snd.insert g ts)))

def dmapOuter (c : Cube) (p : Params) (kgens : Array (Array Gen)) : Id (Option Res × DMap) :=
  forIn kgens (none, (∅ : DMap)) (fun gs __s => do
    let s' ← dmapInner c p gs __s.snd
    match s'.fst with
    | some r => pure (ForInStep.done (some r, s'.snd))
    | none => pure (ForInStep.yield (none, s'.snd)))

/-- the cone generators by degree `0..n+1`: `B g` of weight `i`, then `Q g` of weight `i − 1` -/
def coneGens (c : Cube) (kgens : Array (Array Gen)) : Array (Array IGen) :=
  Array.map (fun i =>
    (if i ≤ c.n then Array.map (fun g => (false, g)) kgens[i]! else #[]) ++
      if i ≥ 1 then Array.map (fun g => (true, g)) kgens[i - 1]! else #[])
    (Array.range (c.n + 2))

/-- the cone differential `dI` over a differential table `dK` -/
def dIA (ic : ICube) (dK : Gen → Array Term) : IGen → Array IGen := fun x =>
  match x with
  | (false, g) =>
    Array.map (fun x => match x with | (y, _) => (false, y))
        (Array.filter (fun x => match x with | (_, a) => a % 2 != 0) (dK g)) ++
      #[(true, g), (true, ic.tau g)]
  | (true, g) =>
    Array.map (fun x => match x with | (y, _) => (true, y))
      (Array.filter (fun x => match x with | (_, a) => a % 2 != 0) (dK g))

def ddInner (dI : IGen → Array IGen) (gs : Array IGen) : Id (Option Res × Unit) :=
  forIn gs (none, ()) (fun x _ =>
    if ((reduce2 (Array.flatMap (fun y => reduce2 (dI y)) (reduce2 (dI x)))).size != 0) = true then
      pure (ForInStep.done (some (Except.error C19.Failure.notComplex), ()))
    else pure (ForInStep.yield (none, ())))

def ddOuter (dI : IGen → Array IGen) (gens : Array (Array IGen)) : Id (Option Res × Unit) :=
  forIn gens (none, ()) (fun gs _ => do
    let s' ← ddInner dI gs
    match s'.fst with
    | some r => pure (ForInStep.done (some r, ()))
    | none => pure (ForInStep.yield (none, ())))

/-- the index map of the target generators -/
def idxOf (tgt : Array IGen) : Std.HashMap IGen Nat :=
  Id.run (forIn [:tgt.size] (∅ : Std.HashMap IGen Nat) (fun j idx => pure (ForInStep.yield (idx.insert tgt[j]! j))))

/-- the bit rows of the differential out of degree `i` -/
def rowsOf (dI : IGen → Array IGen) (gens : Array (Array IGen)) (i : Nat) : Array Nat :=
  Array.map (fun x => Array.foldl (fun acc y => acc ||| 1 <<< ((idxOf gens[i + 1]!).get? y).getD 0) 0 (reduce2 (dI x)))
    gens[i]!

def ranksOf (dI : IGen → Array IGen) (gens : Array (Array IGen)) : Array Nat :=
  Id.run (forIn [:gens.size] (#[] : Array Nat) (fun i ranks =>
    if i + 1 < gens.size then pure (ForInStep.yield (ranks.push (rankF2 (rowsOf dI gens i))))
    else pure (ForInStep.yield (ranks.push 0))))

/-- `homo` of `khiHomology` -/
def homoA (dI : IGen → Array IGen) (gens : Array (Array IGen)) : Array Nat :=
  Id.run (forIn [:gens.size] (#[] : Array Nat) (fun i out =>
    pure (ForInStep.yield (out.push (gens[i]!.size - (ranksOf dI gens)[i]! -
      if (i == 0) = true then 0 else (ranksOf dI gens)[i - 1]!)))))

def cellsOf (h0 : Int) (q : Option Int) (hs : Array Nat) (cells : Array (Int × Option Int × Nat)) :
    Array (Int × Option Int × Nat) :=
  Id.run (forIn [:hs.size] cells (fun (i : Nat) cells =>
    if (hs[i]! != 0) = true then pure (ForInStep.yield (cells.push (h0 + (i : Int), q, hs[i]!)))
    else pure (ForInStep.yield cells)))

def qsInner (c : Cube) (q0 : Int) (gs : Array IGen) (qs : Array Int) : Array Int :=
  Id.run (forIn gs qs (fun x qs =>
    if (!qs.contains (c.qDeg q0 x.snd)) = true then pure (ForInStep.yield (qs.push (c.qDeg q0 x.snd)))
    else pure (ForInStep.yield qs)))

def qsOf (c : Cube) (q0 : Int) (gens : Array (Array IGen)) : Array Int :=
  Id.run (forIn gens (#[] : Array Int) (fun gs qs => pure (ForInStep.yield (qsInner c q0 gs qs))))

def qInner (c : Cube) (q0 q : Int) (dI : IGen → Array IGen) (gs : Array IGen) : Id (Option Res × Unit) :=
  forIn gs (none, ()) (fun x _ =>
    if ((reduce2 (dI x)).any fun y => c.qDeg q0 y.snd != q) = true then
      pure (ForInStep.done (some (Except.error C19.Failure.notComplex), ()))
    else pure (ForInStep.yield (none, ())))

def qOuter (c : Cube) (q0 q : Int) (dI : IGen → Array IGen) (gq : Array (Array IGen)) : Id (Option Res × Unit) :=
  forIn gq (none, ()) (fun gs _ => do
    let s' ← qInner c q0 q dI gs
    match s'.fst with
    | some r => pure (ForInStep.done (some r, ()))
    | none => pure (ForInStep.yield (none, ())))

def gqOf (c : Cube) (q0 q : Int) (gens : Array (Array IGen)) : Array (Array IGen) :=
  Array.map (fun gs => Array.filter (fun x => c.qDeg q0 x.snd == q) gs) gens

def bigrLoop (c : Cube) (q0 h0 : Int) (dI : IGen → Array IGen) (gens : Array (Array IGen)) (qs' : Array Int) :
    Id (Option Res × Array (Int × Option Int × Nat)) :=
  forIn qs' (none, (#[] : Array (Int × Option Int × Nat))) (fun q __s => do
    let s' ← qOuter c q0 q dI (gqOf c q0 q gens)
    match s'.fst with
    | some r => pure (ForInStep.done (some r, __s.snd))
    | none => pure (ForInStep.yield (none, cellsOf h0 (some q) (homoA dI (gqOf c q0 q gens)) __s.snd)))

/-- the part of `khiHomology` after the `D∘D` check (verbatim; only the closures are the top-level definitions) -/
def khiTail2 (c : Cube) (q0 h0 : Int) (bigraded : Bool) (dI : IGen → Array IGen) (gens : Array (Array IGen)) :
    Id Res := do
  let mut cells : Array (Int × Option Int × Nat) := #[]
  if !bigraded then
    let hs := homoA dI gens
    for i in [0:hs.size] do
      if hs[i]! != 0 then cells := cells.push (h0 + i, none, hs[i]!)
  else
    let mut qs : Array Int := #[]
    for gs in gens do
      for x in gs do
        let q := c.qDeg q0 x.2
        if !qs.contains q then qs := qs.push q
    let qs' := qs.qsort (· < ·)
    for q in qs' do
      let gq := gens.map (fun gs => gs.filter (fun x => c.qDeg q0 x.2 == q))
      for gs in gq do
        for x in gs do
          if (reduce2 (dI x)).any (fun y => c.qDeg q0 y.2 != q) then return .error .notComplex
      let hs := homoA dI gq
      for i in [0:hs.size] do
        if hs[i]! != 0 then cells := cells.push (h0 + i, some q, hs[i]!)
  return .ok ⟨cells⟩

theorem khiTail2_graded (c : Cube) (q0 h0 : Int) (dI : IGen → Array IGen) (gens : Array (Array IGen)) :
    khiTail2 c q0 h0 false dI gens = pure (Except.ok { cells := cellsOf h0 none (homoA dI gens) #[] }) := rfl

/-- the differential-table loop with its continuation (do-notation, so that the elaborator produces the same term) -/
def dmapK (c : Cube) (p : Params) (kgens : Array (Array Gen)) (k : DMap → Id Res) : Id Res := do
  let mut dmap : Std.HashMap Gen (Array Term) := {}
  for gs in kgens do
    for g in gs do
      match c.d p g with
      | none => return .error .malformed
      | some ts => dmap := dmap.insert g ts
  k dmap

/-- the `D∘D = 0` check with its continuation -/
def ddK (dI : IGen → Array IGen) (gens : Array (Array IGen)) (k : Id Res) : Id Res := do
  for gs in gens do
    for x in gs do
      let dd := reduce2 ((reduce2 (dI x)).flatMap (fun y => reduce2 (dI y)))
      if dd.size != 0 then return .error .notComplex
  k

/-- `khiHomology` with its pieces named -/
def khiM (l : InvLink) (signs : Array Int) (p : Params) (b : Bool) : Res :=
  match mkICube l p with
  | some ic =>
    Id.run (dmapK ic.cube p (kgensOf ic.cube) (fun dmap =>
      ddK (dIA ic (fun g => (dmap.get? g).getD #[])) (coneGens ic.cube (kgensOf ic.cube))
        (khiTail2 ic.cube
          (↑(Array.filter (fun x => decide (x > 0)) signs).size -
            2 * ↑(Array.filter (fun x => decide (x < 0)) signs).size + if p.reduced = true then 1 else 0)
          (-↑(Array.filter (fun x => decide (x < 0)) signs).size) b
          (dIA ic (fun g => (dmap.get? g).getD #[])) (coneGens ic.cube (kgensOf ic.cube)))))
  | none => Except.error C19.Failure.malformed

theorem khiHomology_eq (l : InvLink) (signs : Array Int) (p : Params) (b : Bool) :
    khiHomology l signs p b = khiM l signs p b := by
  unfold khiHomology khiM
  cases mkICube l p with
  | none => rfl
  | some ic => rfl

end Yuiv.KhiSpec
