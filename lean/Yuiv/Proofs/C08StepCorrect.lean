import Yuiv.Model.C08Step
import Yuiv.Proofs.C08Schur
import Yuiv.Proofs.C08
import Mathlib.LinearAlgebra.Matrix.Block
import Mathlib.LinearAlgebra.Matrix.NonsingularInverse
import Mathlib.Algebra.BigOperators.Fin
import Mathlib.FieldTheory.Finite.Basic
/-
C08 — correctness of the code model `Yuiv.C08.schurModel` (Model/C08Step.lean) of
`Schur::from_partial_triangular`: spec definitions and helper lemmas (no property theorem here; those are in
`Yuiv/Props/C08StepCorrect.lean`).

Route: directly on the definitions of C08Step.
 1. the `do`-loops of the model are rewritten into plain structural recursions (`foldRes`, `stepL`, `colStepL`);
 2. scalars: `Lawful R φ` — the explicit operation record `R : Ops α` is interpreted in a commutative ring `K`
    through `φ : α → K` (`φ = id` for `ℤ`, `ℚ`; `φ = Int.cast : ℤ → ZMod p` for the `F_p` tag);
 3. `_solve_triangular`: the quantity `A·x + b` is invariant under every step (any matrix, any `diag`), the final
    `debug_assert!(b == 0)` therefore gives `A·x = b₀` on EVERY `.ok` run; on a triangular matrix with
    invertible diagonal the buffer does end up all zero and `inv().unwrap()` never fails (no panic);
 4. `solve_triangular` / `solve_triangular_left` / `from_partial_triangular` as Mathlib matrices over `K`.
-/
namespace Yuiv.C08
open Matrix

variable {α : Type}

/-! ## 1. the loops as structural recursions -/

/-- fold with a `Res`-valued step (what a `for` loop without `break` in the `Res` monad is) -/
def foldRes {β γ : Type} (step : γ → β → Res β) : β → List γ → Res β
  | s, [] => .ok s
  | s, j :: js => match step j s with
    | .ok s' => foldRes step s' js
    | .panic => .panic
    | .err => .err

theorem forIn_yield_res {β γ : Type} (l : List γ) (body : γ → β → Res (ForInStep β)) (step : γ → β → Res β)
    (s : β) (h : ∀ j s, body j s = (step j s >>= fun s' => pure (ForInStep.yield s'))) :
    forIn l s body = foldRes step s l := by
  induction l generalizing s with
  | nil => rfl
  | cons j js ih =>
    rw [List.forIn_cons, foldRes, h]
    cases step j s with
    | ok s' => exact ih s'
    | panic => rfl
    | err => rfl

theorem foldRes_pure {β γ : Type} (f : β → γ → β) (l : List γ) (s : β) :
    foldRes (fun i s => Res.ok (f s i)) s l = .ok (l.foldl f s) := by
  induction l generalizing s with
  | nil => rfl
  | cons x xs ih => exact ih _

theorem foldRes_append {β γ : Type} (step : γ → β → Res β) (l1 l2 : List γ) (s : β) :
    foldRes step s (l1 ++ l2) = (foldRes step s l1 >>= fun s' => foldRes step s' l2) := by
  induction l1 generalizing s with
  | nil => rfl
  | cons x xs ih =>
    simp only [List.cons_append, foldRes]
    cases step x s with
    | ok s' => exact ih s'
    | panic => rfl
    | err => rfl

theorem range_list (r : Nat) : List.range' ([0:r] : Std.Legacy.Range).start ([0:r] : Std.Legacy.Range).size
    ([0:r] : Std.Legacy.Range).step = List.range r := by
  simp [Std.Legacy.Range.size, List.range_eq_range']

/-- body of the inner loop of `_solve_triangular`: `b[i] -= a_ij * x_j` if `a_ij` is stored -/
def innerStep (R : Ops α) (a : DMat α) (j : Nat) (xj : α) (b : Array α) (i : Nat) : Array α :=
  if !R.isZero (dget R a i j) then
    b.setIfInBounds i (R.add (b.getD i R.zero) (R.neg (R.mul (dget R a i j) xj)))
  else b

def inner (R : Ops α) (a : DMat α) (r j : Nat) (xj : α) (b : Array α) : Array α :=
  (List.range r).foldl (innerStep R a j xj) b

/-- body of the outer loop of `_solve_triangular` on the state `(b, x)` -/
def stepL (R : Ops α) (a : DMat α) (r : Nat) (diag : List α) (j : Nat) (s : Array α × Array α) :
    Res (Array α × Array α) :=
  if R.isZero (s.1.getD j R.zero) then .ok s
  else match R.inv? (diag.getD j R.zero) with
    | none => .panic
    | some uinv =>
      .ok (inner R a r j (R.mul (s.1.getD j R.zero) uinv) s.1,
        s.2.setIfInBounds j (R.mul (s.1.getD j R.zero) uinv))

/-- the order in which `_solve_triangular` visits the pivots -/
def order (upper : Bool) (len : Nat) : List Nat :=
  if upper then (List.range len).reverse else List.range len

theorem solveCol_eq (R : Ops α) (upper : Bool) (a : DMat α) (r : Nat) (diag : List α) (b : Array α) :
    solveCol R upper a r diag b =
      match foldRes (stepL R a r diag) (b, Array.replicate r R.zero) (order upper diag.length) with
      | .ok s => if s.1.all R.isZero then .ok s.2 else .panic
      | .panic => .panic
      | .err => .err := by
  unfold solveCol order
  dsimp only
  rw [forIn_yield_res (step := stepL R a r diag)]
  · cases foldRes (stepL R a r diag) (b, Array.replicate r R.zero)
          (if upper then (List.range diag.length).reverse else List.range diag.length) with
    | ok s =>
      show (if (!s.1.all R.isZero) = true then _ else _) = (if s.1.all R.isZero = true then _ else _)
      cases h : s.1.all R.isZero <;> rfl
    | panic => rfl
    | err => rfl
  · intro j s
    unfold stepL
    by_cases hz : R.isZero (s.1.getD j R.zero) = true
    · simp only [hz, if_true]; rfl
    · simp only [hz]
      cases hinv : R.inv? (diag.getD j R.zero) with
      | none => rfl
      | some uinv =>
        simp only [Bool.false_eq_true, if_false]
        rw [Std.Legacy.Range.forIn_eq_forIn_range', range_list,
          forIn_yield_res (step := fun i b => Res.ok (innerStep R a j (R.mul (s.1.getD j R.zero) uinv) b i)),
          foldRes_pure]
        · rfl
        · intro i b
          simp only [innerStep]
          split <;> rfl

/-- right-hand side `j` of `solve_triangular`, made dense -/
def colOf (R : Ops α) (y : DMat α) (r j : Nat) : Array α := Array.ofFn (n := r) fun i => dget R y i.val j

/-- body of the column loop of `solve_triangular` -/
def colStepL (R : Ops α) (upper : Bool) (a : DMat α) (r : Nat) (y : DMat α) (j : Nat)
    (cols : Array (Array α)) : Res (Array (Array α)) :=
  match solveCol R upper a r (collectDiag R a r) (colOf R y r j) with
  | .ok x => .ok (cols.push x)
  | .panic => .panic
  | .err => .err

theorem solveTri_eq (R : Ops α) (upper : Bool) (a : DMat α) (r : Nat) (y : DMat α) (k : Nat) :
    solveTri R upper a r y k =
      if isTriang R upper a r then
        match foldRes (colStepL R upper a r y) #[] (List.range k) with
        | .ok cols => .ok (dmk r k fun i j => (cols.getD j #[]).getD i R.zero)
        | .panic => .panic
        | .err => .err
      else .panic := by
  unfold solveTri
  dsimp only
  cases isTriang R upper a r with
  | false => rfl
  | true =>
    simp only [Res.assert, if_true, Res.bind_ok]
    rw [Std.Legacy.Range.forIn_eq_forIn_range', range_list, forIn_yield_res (step := colStepL R upper a r y)]
    · cases foldRes (colStepL R upper a r y) #[] (List.range k) <;> rfl
    · intro j s
      unfold colStepL colOf
      cases solveCol R upper a r (collectDiag R a r) (Array.ofFn fun i : Fin r => dget R y (↑i) j) <;> rfl

theorem solveTriLeft_eq (R : Ops α) (upper : Bool) (a : DMat α) (r : Nat) (y : DMat α) (k : Nat) :
    solveTriLeft R upper a r y k =
      match solveTri R (!upper) (dtranspose R a r r) r (dtranspose R y k r) k with
      | .ok xt => .ok (dtranspose R xt r k)
      | .panic => .panic
      | .err => .err := by
  unfold solveTriLeft
  cases solveTri R (!upper) (dtranspose R a r r) r (dtranspose R y k r) k <;> rfl

/-! ## 2. scalars -/

/-- the operation record `R` computes in the commutative ring `K` through `φ` -/
structure Lawful (R : Ops α) {K : Type*} [CommRing K] (φ : α → K) : Prop where
  zero : φ R.zero = 0
  one : φ R.one = 1
  add : ∀ a b, φ (R.add a b) = φ a + φ b
  mul : ∀ a b, φ (R.mul a b) = φ a * φ b
  neg : ∀ a, φ (R.neg a) = -φ a
  isZero : ∀ a, R.isZero a = true ↔ φ a = 0
  inv : ∀ a u, R.inv? a = some u → φ a * φ u = 1

section vec
variable {K : Type*} [CommRing K] {R : Ops α} {φ : α → K}

theorem getD_set (b : Array α) (i j : Nat) (v d : α) :
    (b.setIfInBounds i v).getD j d = if i = j ∧ i < b.size then v else b.getD j d := by
  simp only [Array.getD_eq_getD_getElem?, Array.getElem?_setIfInBounds]
  by_cases h1 : i = j
  · subst h1
    by_cases h2 : i < b.size
    · simp [h2]
    · simp [h2]
  · simp [h1]

theorem getD_oob (b : Array α) (i : Nat) (d : α) (h : b.size ≤ i) : b.getD i d = d := by
  simp [Array.getD_eq_getD_getElem?, Array.getElem?_eq_none h]

theorem innerStep_size (a : DMat α) (j : Nat) (xj : α) (b : Array α) (i : Nat) :
    (innerStep R a j xj b i).size = b.size := by
  unfold innerStep; split <;> simp

theorem inner_size (a : DMat α) (r j : Nat) (xj : α) (b : Array α) : (inner R a r j xj b).size = b.size := by
  unfold inner
  induction r with
  | zero => rfl
  | succ t ih => rw [List.range_succ, List.foldl_append, List.foldl_cons, List.foldl_nil, innerStep_size, ih]

/-- the inner loop subtracts `a_ij * x_j` from every `b_i`, `i < r` -/
theorem inner_get (L : Lawful R φ) (a : DMat α) (r j : Nat) (xj : α) (b : Array α) (hr : r ≤ b.size) (i : Nat) :
    φ ((inner R a r j xj b).getD i R.zero) =
      if i < r then φ (b.getD i R.zero) - φ (dget R a i j) * φ xj else φ (b.getD i R.zero) := by
  unfold inner
  induction r with
  | zero => simp
  | succ t ih =>
    have ih := ih (by omega)
    rw [List.range_succ, List.foldl_append, List.foldl_cons, List.foldl_nil]
    have hsz : (List.foldl (innerStep R a j xj) b (List.range t)).size = b.size := inner_size a t j xj b
    generalize List.foldl (innerStep R a j xj) b (List.range t) = c at ih hsz
    unfold innerStep
    by_cases hz : R.isZero (dget R a t j) = true
    · simp only [hz, Bool.not_true, Bool.false_eq_true, if_false]
      rw [ih]
      by_cases h1 : i < t
      · simp [h1, Nat.lt_succ_of_lt h1]
      · by_cases h2 : i = t
        · subst h2
          simp [(L.isZero _).1 hz]
        · have : ¬ i < t + 1 := by omega
          simp [h1, this]
    · have hz' : R.isZero (dget R a t j) = false := by simpa using hz
      simp only [hz', Bool.not_false, if_true, getD_set]
      by_cases h2 : t = i
      · subst h2
        have : t < c.size := by omega
        simp only [this, and_self, if_true, L.add, L.neg, L.mul, ih, Nat.lt_irrefl, if_false,
          Nat.lt_succ_self]
        ring
      · have h3 : ¬ (t = i ∧ t < c.size) := fun h => h2 h.1
        rw [if_neg h3, ih]
        by_cases h1 : i < t
        · simp [h1, Nat.lt_succ_of_lt h1]
        · have : ¬ i < t + 1 := by omega
          simp [h1, this]

/-- one outer step: sizes, the untouched part of `x`, and `A·x + b` are preserved -/
theorem stepL_sound (L : Lawful R φ) (a : DMat α) (r : Nat) (diag : List α) (j : Nat)
    (s s1 : Array α × Array α) (h : stepL R a r diag j s = .ok s1) (hj : j < r)
    (hb : s.1.size = r) (hx : s.2.size = r) (hxj : φ (s.2.getD j R.zero) = 0) :
    s1.1.size = r ∧ s1.2.size = r ∧ (∀ t, t ≠ j → φ (s1.2.getD t R.zero) = φ (s.2.getD t R.zero)) ∧
      ∀ i, i < r →
        ∑ t ∈ Finset.range r, φ (dget R a i t) * φ (s1.2.getD t R.zero) + φ (s1.1.getD i R.zero) =
        ∑ t ∈ Finset.range r, φ (dget R a i t) * φ (s.2.getD t R.zero) + φ (s.1.getD i R.zero) := by
  unfold stepL at h
  by_cases hz : R.isZero (s.1.getD j R.zero) = true
  · rw [if_pos hz] at h
    cases h
    exact ⟨hb, hx, fun _ _ => rfl, fun _ _ => rfl⟩
  · rw [if_neg hz] at h
    cases hinv : R.inv? (diag.getD j R.zero) with
    | none => rw [hinv] at h; cases h
    | some uinv =>
      rw [hinv] at h
      cases h
      refine ⟨by simp [inner_size, hb], by simp [hx], ?_, ?_⟩
      · intro t ht
        simp only [getD_set]
        rw [if_neg (fun h => ht h.1.symm)]
      · intro i hi
        simp only [getD_set, hx, hj, and_true]
        rw [inner_get L a r j _ s.1 (by omega) i, if_pos hi]
        have hsum : ∑ t ∈ Finset.range r, φ (dget R a i t) *
              φ (if j = t then R.mul (s.1.getD j R.zero) uinv else s.2.getD t R.zero) =
            ∑ t ∈ Finset.range r, (φ (dget R a i t) * φ (s.2.getD t R.zero) +
              if t = j then φ (dget R a i t) * φ (R.mul (s.1.getD j R.zero) uinv) else 0) := by
          refine Finset.sum_congr rfl fun t _ => ?_
          by_cases htj : j = t
          · subst htj
            rw [if_pos rfl, if_pos rfl, hxj]; ring
          · have : ¬ t = j := fun h => htj h.symm
            rw [if_neg htj, if_neg this]; ring
        rw [hsum, Finset.sum_add_distrib, Finset.sum_ite_eq' (Finset.range r) j, if_pos (Finset.mem_range.2 hj)]
        ring

/-- **invariant of `_solve_triangular`** (any matrix, any `diag`, any duplicate-free order of pivots `< r`):
`A·x + b` is the same before and after the outer loop -/
theorem outer_sound (L : Lawful R φ) (a : DMat α) (r : Nat) (diag : List α) (js : List Nat)
    (s s' : Array α × Array α) (h : foldRes (stepL R a r diag) s js = .ok s') (hnd : js.Nodup)
    (hjs : ∀ j ∈ js, j < r) (hb : s.1.size = r) (hx : s.2.size = r)
    (hxj : ∀ j ∈ js, φ (s.2.getD j R.zero) = 0) :
    s'.1.size = r ∧ s'.2.size = r ∧
      ∀ i, i < r →
        ∑ t ∈ Finset.range r, φ (dget R a i t) * φ (s'.2.getD t R.zero) + φ (s'.1.getD i R.zero) =
        ∑ t ∈ Finset.range r, φ (dget R a i t) * φ (s.2.getD t R.zero) + φ (s.1.getD i R.zero) := by
  induction js generalizing s with
  | nil => cases h; exact ⟨hb, hx, fun _ _ => rfl⟩
  | cons j rest ih =>
    rw [foldRes] at h
    cases h1 : stepL R a r diag j s with
    | ok s1 =>
      rw [h1] at h
      obtain ⟨e1, e2, e3, e4⟩ := stepL_sound L a r diag j s s1 h1 (hjs j (by simp)) hb hx (hxj j (by simp))
      have hnd' := List.nodup_cons.1 hnd
      obtain ⟨f1, f2, f3⟩ := ih s1 h hnd'.2 (fun j' hj' => hjs j' (by simp [hj'])) e1 e2
        (fun j' hj' => by
          rw [e3 j' (fun hh => hnd'.1 (hh ▸ hj'))]
          exact hxj j' (by simp [hj']))
      exact ⟨f1, f2, fun i hi => (f3 i hi).trans (e4 i hi)⟩
    | panic => rw [h1] at h; cases h
    | err => rw [h1] at h; cases h

/-- column `j` of the matrix only touches row `j` and rows that come later in the pivot order -/
def ColsOK (Z : Nat → Nat → Prop) (r : Nat) : List Nat → Prop
  | [] => True
  | j :: rest => (∀ i, i < r → Z i j → i = j ∨ i ∈ rest) ∧ ColsOK Z r rest

/-- **substitution terminates with a zero buffer and without panic** when the pivot order is compatible with
the sparsity pattern and the pivots `diag[j] = a_jj` are invertible -/
theorem outer_complete (L : Lawful R φ) (a : DMat α) (r : Nat) (diag : List α) (js : List Nat)
    (s : Array α × Array α) (hnd : js.Nodup) (hjs : ∀ j ∈ js, j < r) (hb : s.1.size = r)
    (hok : ColsOK (fun i j => φ (dget R a i j) ≠ 0) r js)
    (hd : ∀ j ∈ js, diag.getD j R.zero = dget R a j j ∧ (R.inv? (dget R a j j)).isSome) :
    ∃ s', foldRes (stepL R a r diag) s js = .ok s' ∧ s'.1.size = r ∧
      (∀ i ∈ js, φ (s'.1.getD i R.zero) = 0) ∧
      (∀ i, i ∉ js → φ (s'.1.getD i R.zero) = φ (s.1.getD i R.zero)) := by
  induction js generalizing s with
  | nil => exact ⟨s, rfl, hb, by simp, fun _ _ => rfl⟩
  | cons j rest ih =>
    have hnd' := List.nodup_cons.1 hnd
    have hj : j < r := hjs j (by simp)
    -- the step on `j`
    have hstep : ∃ s1, stepL R a r diag j s = .ok s1 ∧ s1.1.size = r ∧ φ (s1.1.getD j R.zero) = 0 ∧
        ∀ i, i ≠ j → i ∉ rest → φ (s1.1.getD i R.zero) = φ (s.1.getD i R.zero) := by
      unfold stepL
      by_cases hz : R.isZero (s.1.getD j R.zero) = true
      · rw [if_pos hz]
        exact ⟨s, rfl, hb, (L.isZero _).1 hz, fun _ _ _ => rfl⟩
      · rw [if_neg hz]
        obtain ⟨hdj, hinv⟩ := hd j (by simp)
        obtain ⟨u, hu⟩ := Option.isSome_iff_exists.1 hinv
        rw [hdj, hu]
        refine ⟨_, rfl, by simp [inner_size, hb], ?_, ?_⟩
        · show φ ((inner R a r j _ s.1).getD j R.zero) = 0
          rw [inner_get L a r j _ s.1 (by omega) j, if_pos hj, L.mul]
          have := L.inv _ _ hu
          calc φ (s.1.getD j R.zero) - φ (dget R a j j) * (φ (s.1.getD j R.zero) * φ u)
              = φ (s.1.getD j R.zero) * (1 - φ (dget R a j j) * φ u) := by ring
            _ = 0 := by rw [this]; ring
        · intro i hij hir
          show φ ((inner R a r j _ s.1).getD i R.zero) = _
          rw [inner_get L a r j _ s.1 (by omega) i]
          by_cases hi : i < r
          · rw [if_pos hi]
            have hz0 : φ (dget R a i j) = 0 := by
              by_contra hne
              rcases hok.1 i hi hne with h | h
              · exact hij h
              · exact hir h
            rw [hz0]; ring
          · rw [if_neg hi]
    obtain ⟨s1, h1, hb1, hj0, hrest⟩ := hstep
    obtain ⟨s', h2, hb2, hz2, hun2⟩ := ih s1 hnd'.2 (fun j' hj' => hjs j' (by simp [hj'])) hb1 hok.2
      (fun j' hj' => hd j' (by simp [hj']))
    refine ⟨s', by rw [foldRes, h1]; exact h2, hb2, ?_, ?_⟩
    · intro i hi
      rcases List.mem_cons.1 hi with rfl | hi
      · rw [hun2 i hnd'.1]; exact hj0
      · exact hz2 i hi
    · intro i hi
      have h1' : i ≠ j := fun h => hi (by simp [h])
      have h2' : i ∉ rest := fun h => hi (by simp [h])
      rw [hun2 i h2', hrest i h1' h2']

end vec

/-! ## 3. `_solve_triangular` on one right-hand side -/

section col
variable {K : Type*} [CommRing K] {R : Ops α} {φ : α → K}

theorem getD_inb (b : Array α) (i : Nat) (d : α) (h : i < b.size) : b.getD i d = b[i] := by
  simp [Array.getD_eq_getD_getElem?, h]

theorem order_nodup (upper : Bool) (len : Nat) : (order upper len).Nodup := by
  unfold order
  split
  · exact List.nodup_reverse.2 List.nodup_range
  · exact List.nodup_range

theorem mem_order (upper : Bool) (len j : Nat) : j ∈ order upper len ↔ j < len := by
  unfold order
  split <;> simp

theorem collectDiag_length_le (R : Ops α) (a : DMat α) (r : Nat) : (collectDiag R a r).length ≤ r := by
  unfold collectDiag
  exact (List.length_filterMap_le _ _).trans (by simp)

theorem collectDiag_eq_map (R : Ops α) (a : DMat α) (r : Nat)
    (h : ∀ j, j < r → R.isZero (dget R a j j) = false) :
    collectDiag R a r = (List.range r).map fun i => dget R a i i := by
  unfold collectDiag
  rw [← List.filterMap_eq_map]
  refine List.filterMap_congr fun i hi => ?_
  simp [h i (List.mem_range.1 hi)]

/-- **`A·x = b` on every non-panicking run of `_solve_triangular`** — whatever the matrix and whatever `diag`
contains: the invariant `A·x + b` plus the final `debug_assert!(b == 0)` -/
theorem solveCol_sound (L : Lawful R φ) (upper : Bool) (a : DMat α) (r : Nat) (diag : List α)
    (b x : Array α) (h : solveCol R upper a r diag b = .ok x) (hb : b.size = r) (hd : diag.length ≤ r) :
    x.size = r ∧ ∀ i, i < r →
      ∑ t ∈ Finset.range r, φ (dget R a i t) * φ (x.getD t R.zero) = φ (b.getD i R.zero) := by
  rw [solveCol_eq] at h
  cases h1 : foldRes (stepL R a r diag) (b, Array.replicate r R.zero) (order upper diag.length) with
  | ok s =>
    rw [h1] at h
    simp only at h
    by_cases hall : s.1.all R.isZero = true
    · rw [if_pos hall] at h
      cases h
      obtain ⟨e1, e2, e3⟩ := outer_sound L a r diag _ _ _ h1 (order_nodup _ _)
        (fun j hj => lt_of_lt_of_le ((mem_order _ _ _).1 hj) hd) hb (by simp)
        (fun j _ => by simp [Array.getD_eq_getD_getElem?, Array.getElem?_replicate]; split <;> simp [L.zero])
      refine ⟨e2, fun i hi => ?_⟩
      have h0 : φ (s.1.getD i R.zero) = 0 := by
        rw [getD_inb _ _ _ (by omega)]
        exact (L.isZero _).1 (Array.all_eq_true.1 hall i (by omega))
      have h3 := e3 i hi
      rw [h0, add_zero] at h3
      rw [h3]
      have : ∀ t, φ ((Array.replicate r R.zero).getD t R.zero) = 0 := by
        intro t
        simp only [Array.getD_eq_getD_getElem?, Array.getElem?_replicate]
        split <;> simp [L.zero]
      show ∑ t ∈ Finset.range r, φ (dget R a i t) * φ ((Array.replicate r R.zero).getD t R.zero) +
        φ (b.getD i R.zero) = φ (b.getD i R.zero)
      simp only [this, mul_zero, Finset.sum_const_zero, zero_add]
    · rw [if_neg hall] at h; cases h
  | panic => rw [h1] at h; cases h
  | err => rw [h1] at h; cases h

theorem colsOK_range' (Z : Nat → Nat → Prop) (r : Nat) (hZ : ∀ i j, i < r → j < r → i < j → ¬ Z i j)
    (k s : Nat) (hs : s + k = r) : ColsOK Z r (List.range' s k) := by
  induction k generalizing s with
  | zero => trivial
  | succ k ih =>
    rw [List.range'_succ]
    refine ⟨fun i hi hz => ?_, ih (s + 1) (by omega)⟩
    have : ¬ i < s := fun h => hZ i s hi (by omega) h hz
    by_cases h : i = s
    · exact Or.inl h
    · exact Or.inr (List.mem_range'_1.2 ⟨by omega, by omega⟩)

theorem colsOK_rev (Z : Nat → Nat → Prop) (r : Nat) (hZ : ∀ i j, i < r → j < r → j < i → ¬ Z i j)
    (t : Nat) (ht : t ≤ r) : ColsOK Z r (List.range t).reverse := by
  induction t with
  | zero => trivial
  | succ t ih =>
    rw [List.range_succ, List.reverse_append, List.reverse_cons, List.reverse_nil, List.nil_append,
      List.singleton_append]
    refine ⟨fun i hi hz => ?_, ih (by omega)⟩
    have : ¬ t < i := fun h => hZ i t hi (by omega) h hz
    by_cases h : i = t
    · exact Or.inl h
    · exact Or.inr (by simp; omega)

theorem colsOK_order (upper : Bool) (Z : Nat → Nat → Prop) (r : Nat)
    (hZ : ∀ i j, i < r → j < r → (if upper then j < i else i < j) → ¬ Z i j) :
    ColsOK Z r (order upper r) := by
  unfold order
  cases upper with
  | true => exact colsOK_rev Z r (fun i j hi hj h => hZ i j hi hj (by simpa using h)) r (le_refl _)
  | false =>
    rw [if_neg (by simp), List.range_eq_range']
    exact colsOK_range' Z r (fun i j hi hj h => hZ i j hi hj (by simpa using h)) r 0 (by omega)

/-- **no panic on a triangular matrix with invertible diagonal** (and the solution is returned) -/
theorem solveCol_complete (L : Lawful R φ) (upper : Bool) (a : DMat α) (r : Nat) (b : Array α) (hb : b.size = r)
    (htri : ∀ i j, i < r → j < r → (if upper then j < i else i < j) → φ (dget R a i j) = 0)
    (hdiag : ∀ j, j < r → R.isZero (dget R a j j) = false ∧ (R.inv? (dget R a j j)).isSome) :
    ∃ x, solveCol R upper a r (collectDiag R a r) b = .ok x := by
  have hcd := collectDiag_eq_map R a r (fun j hj => (hdiag j hj).1)
  have hlen : (collectDiag R a r).length = r := by rw [hcd]; simp
  rw [solveCol_eq, hlen]
  obtain ⟨s', h1, h2, h3, _⟩ := outer_complete L a r (collectDiag R a r) (order upper r)
    (b, Array.replicate r R.zero) (order_nodup _ _) (fun j hj => (mem_order _ _ _).1 hj) hb
    (colsOK_order upper _ r (fun i j hi hj h hne => hne (htri i j hi hj h)))
    (fun j hj => by
      have hj' := (mem_order _ _ _).1 hj
      refine ⟨?_, (hdiag j hj').2⟩
      rw [hcd]
      simp [List.getD_eq_getElem?_getD, hj'])
  rw [h1]
  have hall : s'.1.all R.isZero = true := by
    rw [Array.all_eq_true]
    intro i hi
    have := h3 i ((mem_order _ _ _).2 (by omega))
    rw [getD_inb _ _ _ hi] at this
    exact (L.isZero _).2 this
  exact ⟨s'.2, by simp [hall]⟩

end col

/-! ## 4. `solve_triangular`, `solve_triangular_left` as matrices over `K` -/

section mat
variable {K : Type*} [CommRing K] {R : Ops α} {φ : α → K}

/-- the `p × q` Mathlib matrix denoted by a dense model matrix -/
def toMat (R : Ops α) (φ : α → K) (A : DMat α) (p q : Nat) : Matrix (Fin p) (Fin q) K :=
  fun i j => φ (dget R A i.val j.val)

theorem dget_dmk (R : Ops α) (m n : Nat) (f : Nat → Nat → α) (i j : Nat) :
    dget R (dmk m n f) i j = if i < m ∧ j < n then f i j else R.zero := by
  unfold dget dmk
  simp only [Array.getD_eq_getD_getElem?, Array.getElem?_ofFn]
  by_cases hi : i < m
  · by_cases hj : j < n
    · simp [hi, hj]
    · simp [hi, hj]
  · simp [hi]

theorem colOf_size (R : Ops α) (y : DMat α) (r j : Nat) : (colOf R y r j).size = r := by simp [colOf]

theorem colOf_get (R : Ops α) (y : DMat α) (r j i : Nat) (hi : i < r) :
    (colOf R y r j).getD i R.zero = dget R y i j := by
  simp [colOf, Array.getD_eq_getD_getElem?, hi]

theorem getD_push {β : Type} (c : Array β) (x d : β) (j : Nat) :
    (c.push x).getD j d = if j = c.size then x else c.getD j d := by
  simp only [Array.getD_eq_getD_getElem?, Array.getElem?_push]
  split <;> simp

theorem cols_sound (upper : Bool) (a : DMat α) (r : Nat) (y : DMat α) (k : Nat) (cols : Array (Array α))
    (h : foldRes (colStepL R upper a r y) #[] (List.range k) = .ok cols) :
    cols.size = k ∧ ∀ j, j < k →
      solveCol R upper a r (collectDiag R a r) (colOf R y r j) = .ok (cols.getD j #[]) := by
  induction k generalizing cols with
  | zero => cases h; exact ⟨rfl, fun j hj => absurd hj (by omega)⟩
  | succ k ih =>
    rw [List.range_succ, foldRes_append] at h
    cases h1 : foldRes (colStepL R upper a r y) #[] (List.range k) with
    | ok c =>
      rw [h1] at h
      obtain ⟨e1, e2⟩ := ih c h1
      simp only [Res.bind_ok, foldRes, colStepL] at h
      cases h2 : solveCol R upper a r (collectDiag R a r) (colOf R y r k) with
      | ok x =>
        rw [h2] at h
        cases h
        refine ⟨by simp [e1], fun j hj => ?_⟩
        by_cases hjk : j = k
        · subst hjk
          rw [h2, getD_push, if_pos e1.symm]
        · have hlt : j < k := by omega
          rw [e2 j hlt, getD_push, if_neg (by omega)]
      | panic => rw [h2] at h; cases h
      | err => rw [h2] at h; cases h
    | panic => rw [h1] at h; cases h
    | err => rw [h1] at h; cases h

theorem cols_complete (upper : Bool) (a : DMat α) (r : Nat) (y : DMat α) (k : Nat)
    (h : ∀ j, j < k → ∃ x, solveCol R upper a r (collectDiag R a r) (colOf R y r j) = .ok x) :
    ∃ cols, foldRes (colStepL R upper a r y) #[] (List.range k) = .ok cols := by
  induction k with
  | zero => exact ⟨_, rfl⟩
  | succ k ih =>
    obtain ⟨c, hc⟩ := ih (fun j hj => h j (by omega))
    obtain ⟨x, hx⟩ := h k (by omega)
    refine ⟨c.push x, ?_⟩
    rw [List.range_succ, foldRes_append, hc]
    simp only [Res.bind_ok, foldRes, colStepL, hx]

theorem isTriang_iff (R : Ops α) (upper : Bool) (a : DMat α) (r : Nat) :
    isTriang R upper a r = true ↔
      ∀ i j, i < r → j < r → (if upper then j < i else i < j) → R.isZero (dget R a i j) = true := by
  unfold isTriang
  simp only [allN_iff, Bool.or_eq_true]
  constructor
  · intro h i j hi hj hlt
    rcases h i hi j hj with h1 | h1
    · exact h1
    · cases upper with
      | true => simp at h1 hlt; omega
      | false => simp at h1 hlt; omega
  · intro h i hi j hj
    by_cases hlt : (if upper then j < i else i < j)
    · exact Or.inl (h i j hi hj hlt)
    · refine Or.inr ?_
      cases upper with
      | true => simp at hlt ⊢; omega
      | false => simp at hlt ⊢; omega

/-- **`A·X = Y` on every `.ok` run of `solve_triangular`**, and the `debug_assert!(is_triang)` held -/
theorem solveTri_sound (L : Lawful R φ) (upper : Bool) (a : DMat α) (r : Nat) (y : DMat α) (k : Nat)
    (X : DMat α) (h : solveTri R upper a r y k = .ok X) :
    isTriang R upper a r = true ∧ toMat R φ a r r * toMat R φ X r k = toMat R φ y r k := by
  rw [solveTri_eq] at h
  by_cases ht : isTriang R upper a r = true
  · rw [if_pos ht] at h
    refine ⟨ht, ?_⟩
    cases h1 : foldRes (colStepL R upper a r y) #[] (List.range k) with
    | ok cols =>
      rw [h1] at h
      cases h
      obtain ⟨e1, e2⟩ := cols_sound upper a r y k cols h1
      ext i j
      obtain ⟨_, e3⟩ := solveCol_sound L upper a r _ _ _ (e2 j j.isLt) (colOf_size R y r j)
        (collectDiag_length_le R a r)
      have := e3 i i.isLt
      rw [colOf_get R y r j i i.isLt] at this
      simp only [Matrix.mul_apply, toMat]
      rw [← this, Fin.sum_univ_eq_sum_range
        (fun t => φ (dget R a i t) * φ (dget R (dmk r k fun i j => (cols.getD j #[]).getD i R.zero) t j)) r]
      refine Finset.sum_congr rfl fun t ht => ?_
      rw [dget_dmk, if_pos ⟨Finset.mem_range.1 ht, j.isLt⟩]
    | panic => rw [h1] at h; cases h
    | err => rw [h1] at h; cases h
  · rw [if_neg ht] at h; cases h

/-- hypotheses on the pivot block: entries on the wrong side vanish, diagonal entries are stored and invertible -/
structure UnitTri (R : Ops α) (upper : Bool) (a : DMat α) (r : Nat) : Prop where
  tri : ∀ i j, i < r → j < r → (if upper then j < i else i < j) → R.isZero (dget R a i j) = true
  diag : ∀ j, j < r → R.isZero (dget R a j j) = false ∧ (R.inv? (dget R a j j)).isSome

theorem solveTri_complete (L : Lawful R φ) (upper : Bool) (a : DMat α) (r : Nat) (y : DMat α) (k : Nat)
    (hA : UnitTri R upper a r) : ∃ X, solveTri R upper a r y k = .ok X := by
  rw [solveTri_eq, if_pos ((isTriang_iff R upper a r).2 hA.tri)]
  obtain ⟨cols, hc⟩ := cols_complete (R := R) upper a r y k (fun j _ =>
    solveCol_complete L upper a r _ (colOf_size R y r j)
      (fun i j hi hj h => (L.isZero _).1 (hA.tri i j hi hj h)) hA.diag)
  rw [hc]
  exact ⟨_, rfl⟩

theorem dget_dtranspose (R : Ops α) (A : DMat α) (m n i j : Nat) :
    dget R (dtranspose R A m n) i j = if i < n ∧ j < m then dget R A j i else R.zero := by
  unfold dtranspose
  rw [dget_dmk]

omit [CommRing K] in
theorem toMat_dtranspose (A : DMat α) (m n : Nat) :
    toMat R φ (dtranspose R A m n) n m = (toMat R φ A m n)ᵀ := by
  ext i j
  simp [toMat, dget_dtranspose]

theorem UnitTri.transpose {upper : Bool} {a : DMat α} {r : Nat} (hA : UnitTri R upper a r) :
    UnitTri R (!upper) (dtranspose R a r r) r := by
  constructor
  · intro i j hi hj h
    rw [dget_dtranspose, if_pos ⟨hi, hj⟩]
    refine hA.tri j i hj hi ?_
    cases upper <;> simpa using h
  · intro j hj
    rw [dget_dtranspose, if_pos ⟨hj, hj⟩]
    exact hA.diag j hj

theorem isTriang_dtranspose (upper : Bool) (a : DMat α) (r : Nat)
    (h : isTriang R (!upper) (dtranspose R a r r) r = true) : isTriang R upper a r = true := by
  rw [isTriang_iff] at h ⊢
  intro i j hi hj hlt
  have := h j i hj hi (by cases upper <;> simpa using hlt)
  rwa [dget_dtranspose, if_pos ⟨hj, hi⟩] at this

/-- **`W·A = Y` on every `.ok` run of `solve_triangular_left`** -/
theorem solveTriLeft_sound (L : Lawful R φ) (upper : Bool) (a : DMat α) (r : Nat) (y : DMat α) (k : Nat)
    (W : DMat α) (h : solveTriLeft R upper a r y k = .ok W) :
    isTriang R upper a r = true ∧ toMat R φ W k r * toMat R φ a r r = toMat R φ y k r := by
  rw [solveTriLeft_eq] at h
  cases h1 : solveTri R (!upper) (dtranspose R a r r) r (dtranspose R y k r) k with
  | ok xt =>
    rw [h1] at h
    cases h
    obtain ⟨e1, e2⟩ := solveTri_sound L _ _ _ _ _ _ h1
    refine ⟨isTriang_dtranspose upper a r e1, ?_⟩
    rw [toMat_dtranspose, toMat_dtranspose] at e2
    rw [toMat_dtranspose]
    have := congrArg Matrix.transpose e2
    rwa [Matrix.transpose_mul, Matrix.transpose_transpose, Matrix.transpose_transpose] at this
  | panic => rw [h1] at h; cases h
  | err => rw [h1] at h; cases h

theorem solveTriLeft_complete (L : Lawful R φ) (upper : Bool) (a : DMat α) (r : Nat) (y : DMat α) (k : Nat)
    (hA : UnitTri R upper a r) : ∃ W, solveTriLeft R upper a r y k = .ok W := by
  rw [solveTriLeft_eq]
  obtain ⟨xt, hx⟩ := solveTri_complete L (!upper) _ r (dtranspose R y k r) k hA.transpose
  rw [hx]
  exact ⟨_, rfl⟩

end mat

/-! ## 5. `Schur::from_partial_triangular` -/

section schur
variable {K : Type*} [CommRing K] {R : Ops α} {φ : α → K}

/-- the record the model assembles from `X = a⁻¹b` and `W = c a⁻¹` -/
def mkOut (R : Ops α) (M : DMat α) (m n r : Nat) (X W : DMat α) : SchurOut α where
  s := dmk (m - r) (n - r) fun i j =>
    R.add (dget R (dmk (m - r) (n - r) fun i j => dget R M (r + i) (r + j)) i j)
      (R.neg ((List.range r).foldl (fun acc t =>
        R.add acc (R.mul (dget R (dmk (m - r) r fun i j => dget R M (r + i) j) i t) (dget R X t j))) R.zero))
  fsrc := dmk (n - r) n fun i j => if j = r + i then R.one else R.zero
  bsrc := dmk n (n - r) fun i j => if i < r then R.neg (dget R X i j) else if i - r = j then R.one else R.zero
  ftgt := dmk (m - r) m fun i j => if j < r then R.neg (dget R W i j) else if j - r = i then R.one else R.zero
  btgt := dmk m (m - r) fun i j => if i = r + j then R.one else R.zero

/-- the four blocks the model cuts out of `M` (`divide4`) -/
def mA (R : Ops α) (M : DMat α) (r : Nat) : DMat α := dmk r r fun i j => dget R M i j
def mB (R : Ops α) (M : DMat α) (n r : Nat) : DMat α := dmk r (n - r) fun i j => dget R M i (r + j)
def mC (R : Ops α) (M : DMat α) (m r : Nat) : DMat α := dmk (m - r) r fun i j => dget R M (r + i) j

theorem schurModel_eq (R : Ops α) (upper : Bool) (M : DMat α) (m n r : Nat) :
    schurModel R upper M m n r =
      if r ≤ m then
        if r ≤ n then
          match solveTri R upper (mA R M r) r (mB R M n r) (n - r) with
          | .ok X =>
            match solveTriLeft R upper (mA R M r) r (mC R M m r) (m - r) with
            | .ok W => .ok (mkOut R M m n r X W)
            | .panic => .panic
            | .err => .err
          | .panic => .panic
          | .err => .err
        else .panic
      else .panic := by
  unfold schurModel mA mB mC
  dsimp only
  by_cases hm : r ≤ m
  · by_cases hn : r ≤ n
    · simp only [Res.assert, hm, hn, decide_true, if_true, Res.bind_ok]
      cases solveTri R upper (dmk r r fun i j => dget R M i j) r (dmk r (n - r) fun i j => dget R M i (r + j))
          (n - r) with
      | ok X =>
        simp only [Res.bind_ok]
        cases solveTriLeft R upper (dmk r r fun i j => dget R M i j) r
            (dmk (m - r) r fun i j => dget R M (r + i) j) (m - r) with
        | ok W => rfl
        | panic => rfl
        | err => rfl
      | panic => rfl
      | err => rfl
    · simp only [Res.assert, hm, hn, decide_true, decide_false, if_true, Res.bind_ok, Bool.false_eq_true,
        if_false, Res.bind_panic]
  · simp only [Res.assert, hm, decide_false, Bool.false_eq_true, if_false, Res.bind_panic]

/-- blocks of `M` as Mathlib matrices over `K` -/
def blkA (R : Ops α) (φ : α → K) (M : DMat α) (r : Nat) : Matrix (Fin r) (Fin r) K :=
  fun i j => φ (dget R M i.val j.val)
def blkB (R : Ops α) (φ : α → K) (M : DMat α) (r q : Nat) : Matrix (Fin r) (Fin q) K :=
  fun i j => φ (dget R M i.val (r + j.val))
def blkC (R : Ops α) (φ : α → K) (M : DMat α) (r p : Nat) : Matrix (Fin p) (Fin r) K :=
  fun i j => φ (dget R M (r + i.val) j.val)
def blkD (R : Ops α) (φ : α → K) (M : DMat α) (r p q : Nat) : Matrix (Fin p) (Fin q) K :=
  fun i j => φ (dget R M (r + i.val) (r + j.val))

/-- `M` read as a block matrix over `Fin r ⊕ Fin p` / `Fin r ⊕ Fin q` -/
def splitBoth (R : Ops α) (φ : α → K) (M : DMat α) (r p q : Nat) : Matrix (Fin r ⊕ Fin p) (Fin r ⊕ Fin q) K :=
  fromBlocks (blkA R φ M r) (blkB R φ M r q) (blkC R φ M r p) (blkD R φ M r p q)

/-- a `p × (r+q)` matrix read with its columns split `r | q` -/
def splitCols (R : Ops α) (φ : α → K) (X : DMat α) (r p q : Nat) : Matrix (Fin p) (Fin r ⊕ Fin q) K :=
  fromCols (Matrix.of fun i j => φ (dget R X i.val j.val)) (Matrix.of fun i j => φ (dget R X i.val (r + j.val)))

/-- an `(r+p) × q` matrix read with its rows split `r | p` -/
def splitRows (R : Ops α) (φ : α → K) (X : DMat α) (r p q : Nat) : Matrix (Fin r ⊕ Fin p) (Fin q) K :=
  fromRows (Matrix.of fun i j => φ (dget R X i.val j.val)) (Matrix.of fun i j => φ (dget R X (r + i.val) j.val))

omit [CommRing K] in
theorem toMat_mA (M : DMat α) (r : Nat) : toMat R φ (mA R M r) r r = blkA R φ M r := by
  ext i j; simp [toMat, mA, blkA, dget_dmk]
omit [CommRing K] in
theorem toMat_mB (M : DMat α) (n r : Nat) : toMat R φ (mB R M n r) r (n - r) = blkB R φ M r (n - r) := by
  ext i j; simp [toMat, mB, blkB, dget_dmk]
omit [CommRing K] in
theorem toMat_mC (M : DMat α) (m r : Nat) : toMat R φ (mC R M m r) (m - r) r = blkC R φ M r (m - r) := by
  ext i j; simp [toMat, mC, blkC, dget_dmk]

theorem isTriang_mA (upper : Bool) (M : DMat α) (r : Nat) :
    isTriang R upper (mA R M r) r = isTriang R upper M r := by
  rw [Bool.eq_iff_iff, isTriang_iff, isTriang_iff]
  constructor
  · intro h i j hi hj hlt
    have := h i j hi hj hlt
    rwa [mA, dget_dmk, if_pos ⟨hi, hj⟩] at this
  · intro h i j hi hj hlt
    rw [mA, dget_dmk, if_pos ⟨hi, hj⟩]
    exact h i j hi hj hlt

theorem UnitTri.mA {upper : Bool} {M : DMat α} {r : Nat} (h : UnitTri R upper M r) :
    UnitTri R upper (mA R M r) r := by
  constructor
  · intro i j hi hj hlt
    rw [C08.mA, dget_dmk, if_pos ⟨hi, hj⟩]
    exact h.tri i j hi hj hlt
  · intro j hj
    rw [C08.mA, dget_dmk, if_pos ⟨hj, hj⟩]
    exact h.diag j hj

theorem foldl_sum (L : Lawful R φ) (f g : Nat → α) (r : Nat) :
    φ ((List.range r).foldl (fun acc t => R.add acc (R.mul (f t) (g t))) R.zero) =
      ∑ t ∈ Finset.range r, φ (f t) * φ (g t) := by
  induction r with
  | zero => simp [L.zero]
  | succ t ih =>
    rw [List.range_succ, List.foldl_append, List.foldl_cons, List.foldl_nil, L.add, L.mul, ih,
      Finset.sum_range_succ]

set_option linter.unusedSimpArgs false in
/-- the five output matrices of `mkOut` in terms of `X` and `W` -/
theorem mkOut_mats (L : Lawful R φ) (M : DMat α) (m n r : Nat) (hm : r ≤ m) (hn : r ≤ n) (X W : DMat α) :
    toMat R φ (mkOut R M m n r X W).s (m - r) (n - r) =
        blkD R φ M r (m - r) (n - r) - blkC R φ M r (m - r) * toMat R φ X r (n - r) ∧
    splitCols R φ (mkOut R M m n r X W).fsrc r (n - r) (n - r) = fromCols 0 1 ∧
    splitRows R φ (mkOut R M m n r X W).bsrc r (n - r) (n - r) = fromRows (-(toMat R φ X r (n - r))) 1 ∧
    splitCols R φ (mkOut R M m n r X W).ftgt r (m - r) (m - r) = fromCols (-(toMat R φ W (m - r) r)) 1 ∧
    splitRows R φ (mkOut R M m n r X W).btgt r (m - r) (m - r) = fromRows 0 1 := by
  refine ⟨?_, ?_, ?_, ?_, ?_⟩
  · ext i j
    have hi := i.isLt
    have hj := j.isLt
    simp only [toMat, mkOut, dget_dmk, hi, hj, and_self, if_true, L.add, L.neg, foldl_sum L,
      Matrix.sub_apply, Matrix.mul_apply, blkD, blkC]
    rw [Fin.sum_univ_eq_sum_range (fun t => φ (dget R M (r + i) t) * φ (dget R X t j)) r, sub_eq_add_neg]
    congr 2
    refine Finset.sum_congr rfl fun t ht => ?_
    rw [if_pos ⟨trivial, Finset.mem_range.1 ht⟩]
  · ext i j
    have hi := i.isLt
    rcases j with j | j
    · have hj := j.isLt
      have h1 : (j : Nat) < n := by omega
      have h2 : ¬ (j : Nat) = r + i := by omega
      simp [splitCols, fromCols_apply_inl, fromCols_apply_inr, mkOut, dget_dmk, hi, h1, h2, L.zero]
    · have hj := j.isLt
      have h1 : r + (j : Nat) < n := by omega
      by_cases h : i = j
      · subst h; simp [splitCols, fromCols_apply_inl, fromCols_apply_inr, mkOut, dget_dmk, hi, h1, L.one]
      · have h2 : ¬ (j : Nat) = i := fun hh => h (Fin.ext hh.symm)
        simp [splitCols, fromCols_apply_inl, fromCols_apply_inr, mkOut, dget_dmk, hi, h1, h2, h, L.zero, Matrix.one_apply]
  · ext i j
    have hj := j.isLt
    rcases i with i | i
    · have hi := i.isLt
      have h1 : (i : Nat) < n := by omega
      simp [splitRows, fromRows_apply_inl, fromRows_apply_inr, mkOut, dget_dmk, hi, hj, h1, L.neg, toMat]
    · have hi := i.isLt
      have h1 : r + (i : Nat) < n := by omega
      by_cases h : i = j
      · subst h; simp [splitRows, fromRows_apply_inl, fromRows_apply_inr, mkOut, dget_dmk, hj, h1, L.one]
      · have h2 : ¬ (i : Nat) = j := fun hh => h (Fin.ext hh)
        simp [splitRows, fromRows_apply_inl, fromRows_apply_inr, mkOut, dget_dmk, hj, h1, h2, h, L.zero, Matrix.one_apply]
  · ext i j
    have hi := i.isLt
    rcases j with j | j
    · have hj := j.isLt
      have h1 : (j : Nat) < m := by omega
      simp [splitCols, fromCols_apply_inl, fromCols_apply_inr, mkOut, dget_dmk, hi, hj, h1, L.neg, toMat]
    · have hj := j.isLt
      have h1 : r + (j : Nat) < m := by omega
      by_cases h : i = j
      · subst h; simp [splitCols, fromCols_apply_inl, fromCols_apply_inr, mkOut, dget_dmk, hi, h1, L.one]
      · have h2 : ¬ (j : Nat) = i := fun hh => h (Fin.ext hh.symm)
        simp [splitCols, fromCols_apply_inl, fromCols_apply_inr, mkOut, dget_dmk, hi, h1, h2, h, L.zero, Matrix.one_apply]
  · ext i j
    have hj := j.isLt
    rcases i with i | i
    · have hi := i.isLt
      have h1 : (i : Nat) < m := by omega
      have h2 : ¬ (i : Nat) = r + j := by omega
      simp [splitRows, fromRows_apply_inl, fromRows_apply_inr, mkOut, dget_dmk, hj, h1, h2, L.zero]
    · have hi := i.isLt
      have h1 : r + (i : Nat) < m := by omega
      by_cases h : i = j
      · subst h; simp [splitRows, fromRows_apply_inl, fromRows_apply_inr, mkOut, dget_dmk, hj, h1, L.one]
      · have h2 : ¬ (i : Nat) = j := fun hh => h (Fin.ext hh)
        simp [splitRows, fromRows_apply_inl, fromRows_apply_inr, mkOut, dget_dmk, hj, h1, h2, h, L.zero, Matrix.one_apply]

end schur

/-! ## 6. the model as a whole -/

section top
variable {K : Type*} [CommRing K] {R : Ops α} {φ : α → K}

/-- with a non-trivial `K`, "stored and invertible" follows from `inv?` alone -/
theorem UnitTri.of_inv [Nontrivial K] (L : Lawful R φ) {upper : Bool} {M : DMat α} {r : Nat}
    (tri : ∀ i j, i < r → j < r → (if upper then j < i else i < j) → R.isZero (dget R M i j) = true)
    (diag : ∀ j, j < r → (R.inv? (dget R M j j)).isSome) : UnitTri R upper M r := by
  refine ⟨tri, fun j hj => ⟨?_, diag j hj⟩⟩
  obtain ⟨u, hu⟩ := Option.isSome_iff_exists.1 (diag j hj)
  have h1 := L.inv _ _ hu
  cases hz : R.isZero (dget R M j j) with
  | false => rfl
  | true =>
    rw [(L.isZero _).1 hz, zero_mul] at h1
    exact absurd h1 zero_ne_one

/-- **every `.ok` run** (no hypothesis on `M`): the three guards held, and the outputs are the Schur data built
from solutions `X`, `W` of `A·X = B`, `W·A = C` -/
theorem schurModel_sound (L : Lawful R φ) (upper : Bool) (M : DMat α) (m n r : Nat) (o : SchurOut α)
    (h : schurModel R upper M m n r = .ok o) :
    r ≤ m ∧ r ≤ n ∧ isTriang R upper M r = true ∧
    ∃ (X : Matrix (Fin r) (Fin (n - r)) K) (W : Matrix (Fin (m - r)) (Fin r) K),
      blkA R φ M r * X = blkB R φ M r (n - r) ∧ W * blkA R φ M r = blkC R φ M r (m - r) ∧
      toMat R φ o.s (m - r) (n - r) = blkD R φ M r (m - r) (n - r) - blkC R φ M r (m - r) * X ∧
      splitCols R φ o.fsrc r (n - r) (n - r) = fromCols 0 1 ∧
      splitRows R φ o.bsrc r (n - r) (n - r) = fromRows (-X) 1 ∧
      splitCols R φ o.ftgt r (m - r) (m - r) = fromCols (-W) 1 ∧
      splitRows R φ o.btgt r (m - r) (m - r) = fromRows 0 1 := by
  rw [schurModel_eq] at h
  by_cases hm : r ≤ m
  · rw [if_pos hm] at h
    by_cases hn : r ≤ n
    · rw [if_pos hn] at h
      cases h1 : solveTri R upper (mA R M r) r (mB R M n r) (n - r) with
      | ok X =>
        rw [h1] at h
        cases h2 : solveTriLeft R upper (mA R M r) r (mC R M m r) (m - r) with
        | ok W =>
          rw [h2] at h
          cases h
          obtain ⟨e1, e2⟩ := solveTri_sound L _ _ _ _ _ _ h1
          obtain ⟨_, e3⟩ := solveTriLeft_sound L _ _ _ _ _ _ h2
          rw [toMat_mA, toMat_mB] at e2
          rw [toMat_mA, toMat_mC] at e3
          rw [isTriang_mA] at e1
          exact ⟨hm, hn, e1, _, _, e2, e3, mkOut_mats L M m n r hm hn X W⟩
        | panic => rw [h2] at h; cases h
        | err => rw [h2] at h; cases h
      | panic => rw [h1] at h; cases h
      | err => rw [h1] at h; cases h
    · rw [if_neg hn] at h; cases h
  · rw [if_neg hm] at h; cases h

/-- **no panic** when `r ≤ m`, `r ≤ n` and the pivot block is triangular with invertible diagonal -/
theorem schurModel_complete (L : Lawful R φ) (upper : Bool) (M : DMat α) (m n r : Nat) (hm : r ≤ m) (hn : r ≤ n)
    (hA : UnitTri R upper M r) : ∃ o, schurModel R upper M m n r = .ok o := by
  rw [schurModel_eq, if_pos hm, if_pos hn]
  obtain ⟨X, hX⟩ := solveTri_complete L upper (mA R M r) r (mB R M n r) (n - r) hA.mA
  obtain ⟨W, hW⟩ := solveTriLeft_complete L upper (mA R M r) r (mC R M m r) (m - r) hA.mA
  rw [hX, hW]
  exact ⟨_, rfl⟩

/-- the model never reports `.err` -/
theorem schurModel_ne_err (upper : Bool) (M : DMat α) (m n r : Nat) : schurModel R upper M m n r ≠ .err := by
  have hstep : ∀ (a : DMat α) (r : Nat) (diag : List α) (js : List Nat) (s : Array α × Array α),
      foldRes (stepL R a r diag) s js ≠ .err := by
    intro a r diag js
    induction js with
    | nil => intro s h; cases h
    | cons j rest ih =>
      intro s
      rw [foldRes]
      unfold stepL
      by_cases hz : R.isZero (s.1.getD j R.zero) = true
      · rw [if_pos hz]; exact ih s
      · rw [if_neg hz]
        cases R.inv? (diag.getD j R.zero) with
        | none => intro h; cases h
        | some u => exact ih _
  have hcol : ∀ (up : Bool) (a : DMat α) (r : Nat) (diag : List α) (b : Array α),
      solveCol R up a r diag b ≠ .err := by
    intro up a r diag b
    rw [solveCol_eq]
    have := hstep a r diag (order up diag.length) (b, Array.replicate r R.zero)
    cases h : foldRes (stepL R a r diag) (b, Array.replicate r R.zero) (order up diag.length) with
    | ok s => simp only; split <;> (intro h; cases h)
    | panic => intro h; cases h
    | err => exact absurd h this
  have hcols : ∀ (up : Bool) (a : DMat α) (r : Nat) (y : DMat α) (js : List Nat) (c : Array (Array α)),
      foldRes (colStepL R up a r y) c js ≠ .err := by
    intro up a r y js
    induction js with
    | nil => intro c h; cases h
    | cons j rest ih =>
      intro c
      rw [foldRes]
      unfold colStepL
      have := hcol up a r (collectDiag R a r) (colOf R y r j)
      cases h : solveCol R up a r (collectDiag R a r) (colOf R y r j) with
      | ok x => exact ih _
      | panic => intro h; cases h
      | err => exact absurd h this
  have htri : ∀ (up : Bool) (a : DMat α) (r : Nat) (y : DMat α) (k : Nat), solveTri R up a r y k ≠ .err := by
    intro up a r y k
    rw [solveTri_eq]
    split
    · have := hcols up a r y (List.range k) #[]
      cases h : foldRes (colStepL R up a r y) #[] (List.range k) with
      | ok c => intro h; cases h
      | panic => intro h; cases h
      | err => exact absurd h this
    · intro h; cases h
  rw [schurModel_eq]
  split
  · split
    · have h1 := htri upper (mA R M r) r (mB R M n r) (n - r)
      cases h : solveTri R upper (mA R M r) r (mB R M n r) (n - r) with
      | ok X =>
        simp only
        rw [solveTriLeft_eq]
        have h2 := htri (!upper) (dtranspose R (mA R M r) r r) r (dtranspose R (mC R M m r) (m - r) r) (m - r)
        cases h' : solveTri R (!upper) (dtranspose R (mA R M r) r r) r (dtranspose R (mC R M m r) (m - r) r)
            (m - r) with
        | ok W => intro h; cases h
        | panic => intro h; cases h
        | err => exact absurd h' h2
      | panic => intro h; cases h
      | err => exact absurd h h1
    · intro h; cases h
  · intro h; cases h

/-- the pivot block of a `UnitTri` matrix is invertible over `K` -/
theorem unitTri_det (L : Lawful R φ) {upper : Bool} {M : DMat α} {r : Nat} (hA : UnitTri R upper M r) :
    IsUnit (blkA R φ M r).det := by
  have hdiag : ∀ i : Fin r, IsUnit (blkA R φ M r i i) := by
    intro i
    obtain ⟨u, hu⟩ := Option.isSome_iff_exists.1 (hA.diag i i.isLt).2
    exact IsUnit.of_mul_eq_one _ (L.inv _ _ hu)
  cases upper with
  | true =>
    have ht : (blkA R φ M r).IsUpperTriangular := by
      intro i j hij
      exact (L.isZero _).1 (hA.tri i j i.isLt j.isLt (by simpa using hij))
    rw [Matrix.det_of_isUpperTriangular ht]
    exact IsUnit.prod_univ_iff.2 hdiag
  | false =>
    have ht : (blkA R φ M r).IsLowerTriangular := by
      intro i j hij
      exact (L.isZero _).1 (hA.tri i j i.isLt j.isLt (by simpa using hij))
    rw [Matrix.det_of_isLowerTriangular _ ht]
    exact IsUnit.prod_univ_iff.2 hdiag

/-- with an invertible pivot block the solutions are `X = A⁻¹B`, `W = C A⁻¹`, i.e. the outputs are exactly the
matrices `schurS`, `Fsrc`, `Bsrc`, `Ftgt`, `Btgt` of `Proofs/C08Schur.lean` with `ainv = A⁻¹` -/
theorem schurModel_ok_inv (L : Lawful R φ) (upper : Bool) (M : DMat α) (m n r : Nat) (o : SchurOut α)
    (h : schurModel R upper M m n r = .ok o) (hdet : IsUnit (blkA R φ M r).det) :
    toMat R φ o.s (m - r) (n - r) =
        schurS (blkA R φ M r)⁻¹ (blkB R φ M r (n - r)) (blkC R φ M r (m - r)) (blkD R φ M r (m - r) (n - r)) ∧
      splitCols R φ o.fsrc r (n - r) (n - r) = Fsrc K (Fin r) (Fin (n - r)) ∧
      splitRows R φ o.bsrc r (n - r) (n - r) = Bsrc (blkA R φ M r)⁻¹ (blkB R φ M r (n - r)) ∧
      splitCols R φ o.ftgt r (m - r) (m - r) = Ftgt (blkA R φ M r)⁻¹ (blkC R φ M r (m - r)) ∧
      splitRows R φ o.btgt r (m - r) (m - r) = Btgt K (Fin r) (Fin (m - r)) := by
  obtain ⟨_, _, _, X, W, hX, hW, e1, e2, e3, e4, e5⟩ := schurModel_sound L upper M m n r o h
  have hXe : X = (blkA R φ M r)⁻¹ * blkB R φ M r (n - r) := by
    rw [← hX, ← Matrix.mul_assoc, Matrix.nonsing_inv_mul _ hdet, Matrix.one_mul]
  have hWe : W = blkC R φ M r (m - r) * (blkA R φ M r)⁻¹ := by
    rw [← hW, Matrix.mul_assoc, Matrix.mul_nonsing_inv _ hdet, Matrix.mul_one]
  refine ⟨?_, e2, ?_, ?_, e5⟩
  · rw [e1, hXe, schurS, Matrix.mul_assoc]
  · rw [e3, hXe, Bsrc]
  · rw [e4, hWe, Ftgt]

/-- the blocks are the blocks of `M`: `splitBoth` is `M` (as an `m × n` matrix) re-indexed along
`Fin r ⊕ Fin (m-r) ≃ Fin m`, `Fin r ⊕ Fin (n-r) ≃ Fin n` -/
def glue (r m : Nat) (h : r ≤ m) : Fin r ⊕ Fin (m - r) ≃ Fin m :=
  finSumFinEquiv.trans (finCongr (by omega))

omit [CommRing K] in
theorem splitBoth_eq (M : DMat α) (m n r : Nat) (hm : r ≤ m) (hn : r ≤ n) :
    splitBoth R φ M r (m - r) (n - r) = (toMat R φ M m n).submatrix (glue r m hm) (glue r n hn) := by
  ext i j
  rcases i with i | i <;> rcases j with j | j <;>
    simp [splitBoth, blkA, blkB, blkC, blkD, toMat, glue]

end top

/-! ## 7. the scalar records of the driver are lawful -/

theorem lawful_opsZ : Lawful opsZ (fun a : Int => a) where
  zero := rfl
  one := rfl
  add _ _ := rfl
  mul _ _ := rfl
  neg _ := rfl
  isZero a := by simp [opsZ]
  inv a u h := by
    simp only [opsZ] at h
    split at h
    · cases h
      rename_i h1
      simp at h1
      rcases h1 with rfl | rfl <;> rfl
    · cases h

theorem lawful_opsQ : Lawful opsQ (fun a : Rat => a) where
  zero := rfl
  one := rfl
  add _ _ := rfl
  mul _ _ := rfl
  neg _ := rfl
  isZero a := by simp [opsQ]
  inv a u h := by
    simp only [opsQ] at h
    split at h
    · cases h
    · cases h
      rename_i h1
      exact Rat.mul_inv_cancel a (by simpa using h1)


/-! `F_p`: `powMod a (p-2) p` is Fermat's inverse (the 64-step square-and-multiply loop covers `p < 2^64`) -/

def loopL {β : Type} (f : β → ForInStep β) : Nat → β → β
  | 0, s => s
  | k + 1, s => match f s with
    | .done s' => s'
    | .yield s' => loopL f k s'

theorem forIn_id_list {β γ : Type} (l : List γ) (body : γ → β → Id (ForInStep β)) (f : β → ForInStep β) (s : β)
    (hb : ∀ x s, body x s = pure (f s)) :
    forIn (m := Id) l s body = pure (loopL f l.length s) := by
  induction l generalizing s with
  | nil => rfl
  | cons x xs ih =>
    rw [List.forIn_cons, List.length_cons, loopL, hb]
    cases h : f s with
    | done s' => simp
    | yield s' => simp; exact ih s'

def pmStep (p : Int) (s : Int × Int × Nat) : ForInStep (Int × Int × Nat) :=
  if s.2.2 == 0 then .done s
  else .yield ((if s.2.2 % 2 == 1 then s.1 * s.2.1 % p else s.1), s.2.1 * s.2.1 % p, s.2.2 / 2)

theorem powMod_eq (a : Int) (e : Nat) (p : Int) : powMod a e p = (loopL (pmStep p) 64 (1, a % p, e)).1 := by
  unfold powMod
  dsimp only
  rw [Std.Legacy.Range.forIn_eq_forIn_range', range_list, forIn_id_list (f := pmStep p), List.length_range]
  · rfl
  intro _ s
  unfold pmStep
  by_cases h0 : (s.2.2 == 0) = true
  · simp only [h0, if_true]
  · simp only [h0]
    by_cases h1 : (s.2.2 % 2 == 1) = true
    · simp only [h1, if_true]; rfl
    · simp only [h1]; rfl

theorem loop_pow (p : Nat) (fuel : Nat) (r b : Int) (e : Nat) (he : e < 2 ^ fuel) :
    (((loopL (pmStep p) fuel (r, b, e)).1 : Int) : ZMod p) = (r : ZMod p) * (b : ZMod p) ^ e := by
  induction fuel generalizing r b e with
  | zero =>
    have : e = 0 := by simpa using he
    subst this
    simp [loopL]
  | succ k ih =>
    rw [loopL]
    by_cases h0 : e = 0
    · subst h0; simp [pmStep]
    · have h0' : ¬ ((e == 0) = true) := by simpa using h0
      have hs : pmStep p (r, b, e) =
          .yield ((if e % 2 == 1 then r * b % p else r), b * b % p, e / 2) := by
        unfold pmStep; simp only [h0']; rfl
      rw [hs]
      simp only
      rw [ih _ _ _ (by omega)]
      have hsplit : e = 2 * (e / 2) + e % 2 := (Nat.div_add_mod e 2).symm
      by_cases h1 : e % 2 = 1
      · have h1' : (e % 2 == 1) = true := by simpa using h1
        simp only [h1', if_true]
        rw [ZMod.intCast_mod, ZMod.intCast_mod, Int.cast_mul, Int.cast_mul]
        conv_rhs => rw [hsplit, h1, pow_succ, pow_mul]
        ring
      · have h1' : ¬ (e % 2 == 1) = true := by simpa using h1
        have h2 : e % 2 = 0 := by omega
        simp only [h1', Bool.false_eq_true, if_false]
        rw [ZMod.intCast_mod, Int.cast_mul]
        conv_rhs => rw [hsplit, h2, add_zero, pow_mul]
        ring

theorem lawful_opsP (p : Nat) [Fact p.Prime] (hp : p < 2 ^ 64) : Lawful (opsP p) (fun a : Int => (a : ZMod p)) where
  zero := by simp [opsP]
  one := by simp [opsP, ZMod.intCast_mod]
  add a b := by simp [opsP, ZMod.intCast_mod]
  mul a b := by simp [opsP, ZMod.intCast_mod]
  neg a := by simp [opsP, ZMod.intCast_mod]
  isZero a := by
    simp only [opsP, beq_iff_eq]
    rw [ZMod.intCast_zmod_eq_zero_iff_dvd, Int.dvd_iff_emod_eq_zero]
  inv a u h := by
    simp only [opsP] at h
    split at h
    · cases h
    · rename_i h1
      cases h
      have ha : (a : ZMod p) ≠ 0 := by
        rw [Ne, ZMod.intCast_zmod_eq_zero_iff_dvd, Int.dvd_iff_emod_eq_zero]
        simpa using h1
      have h2 := (Fact.out : p.Prime).two_le
      rw [powMod_eq, loop_pow p 64 1 (a % p) (p - 2) (by omega), ZMod.intCast_mod, Int.cast_one, one_mul,
        ← pow_succ', show p - 2 + 1 = p - 1 by omega]
      exact ZMod.pow_card_sub_one_eq_one ha


/-- guards alone (no lawfulness needed): a run that returns `.ok` passed the three assertions -/
theorem schurModel_guards (R : Ops α) (upper : Bool) (M : DMat α) (m n r : Nat) (o : SchurOut α)
    (h : schurModel R upper M m n r = .ok o) : r ≤ m ∧ r ≤ n ∧ isTriang R upper M r = true := by
  rw [schurModel_eq] at h
  by_cases hm : r ≤ m
  · by_cases hn : r ≤ n
    · refine ⟨hm, hn, ?_⟩
      rw [if_pos hm, if_pos hn, solveTri_eq, isTriang_mA] at h
      cases ht : isTriang R upper M r with
      | true => rfl
      | false => rw [ht] at h; simp at h
    · rw [if_pos hm, if_neg hn] at h; cases h
  · rw [if_neg hm] at h; cases h

/-! pivot-block hypotheses in plain terms for the three scalar tags -/

theorem unitTri_int (upper : Bool) (M : DMat Int) (r : Nat)
    (tri : ∀ i j, i < r → j < r → (if upper then j < i else i < j) → dget opsZ M i j = 0)
    (diag : ∀ j, j < r → dget opsZ M j j = 1 ∨ dget opsZ M j j = -1) : UnitTri opsZ upper M r := by
  refine ⟨fun i j hi hj h => by rw [tri i j hi hj h]; rfl, fun j hj => ?_⟩
  rcases diag j hj with h | h <;> rw [h] <;> exact ⟨by decide, by decide⟩

theorem unitTri_rat (upper : Bool) (M : DMat Rat) (r : Nat)
    (tri : ∀ i j, i < r → j < r → (if upper then j < i else i < j) → dget opsQ M i j = 0)
    (diag : ∀ j, j < r → dget opsQ M j j ≠ 0) : UnitTri opsQ upper M r := by
  refine ⟨fun i j hi hj h => by rw [tri i j hi hj h]; simp [opsQ], fun j hj => ?_⟩
  have := diag j hj
  generalize dget opsQ M j j = x at this
  simp [opsQ, this]

theorem unitTri_fp (p : Nat) (upper : Bool) (M : DMat Int) (r : Nat)
    (tri : ∀ i j, i < r → j < r → (if upper then j < i else i < j) → dget (opsP p) M i j % (p : Int) = 0)
    (diag : ∀ j, j < r → dget (opsP p) M j j % (p : Int) ≠ 0) : UnitTri (opsP p) upper M r := by
  refine ⟨fun i j hi hj h => ?_, fun j hj => ?_⟩
  · have := tri i j hi hj h
    generalize dget (opsP p) M i j = x at this
    simp [opsP, this]
  · have := diag j hj
    generalize dget (opsP p) M j j = x at this
    have h2 : ¬ (p : Int) ∣ x := fun hd => this (Int.emod_eq_zero_of_dvd hd)
    simp [opsP, h2]

end Yuiv.C08
