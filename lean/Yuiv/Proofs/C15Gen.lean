import Yuiv.Gen.IntExtFn
import Yuiv.Model.C15
/-
Helper lemmas for `Yuiv/Props/C15Gen.lean` (no property theorem here).

`Yuiv.GenIntExt.*` is GENERATED from `/repo/yui/src/misc/int_ext.rs` and `/repo/yui/src/abst/euc_ring.rs` by
`tools/rs2lean_fn.py fn:intext` (`Self := Int`); `Yuiv.C15.*` is the hand-written model, whose generic Euclidean
functions are instantiated at `C15.intOps`.
-/
namespace Yuiv.C15Gen
open Yuiv Res Yuiv.Rust Yuiv.GenIntExt

theorem bind_assoc' {α β γ} (x : Res α) (f : α → Res β) (g : β → Res γ) :
    ((x >>= f) >>= g) = (x >>= fun a => f a >>= g) := by cases x <;> rfl
theorem ite_bind {α β} (c : Prop) [Decidable c] (x y : Res α) (f : α → Res β) :
    ((if c then x else y) >>= f) = if c then x >>= f else y >>= f := by split <;> rfl

/-- `Option` results of the model's loops as `Res` (fuel exhaustion = `err`) -/
def ofOpt {α} : Option α → Res α
  | some a => ok a
  | none => .err

theorem rem_ne (a b : Int) (h : b ≠ 0) : RInt.rem a b = ok (C15.zRemT a b) := by simp [RInt.rem, C15.zRemT, h]
theorem div_ne (a b : Int) (h : b ≠ 0) : RInt.div a b = ok (C15.zDivT a b) := by simp [RInt.div, C15.zDivT, h]
theorem rem_zero (a : Int) : RInt.rem a 0 = .panic := by simp [RInt.rem]
theorem div_zero (a : Int) : RInt.div a 0 = .panic := by simp [RInt.div]

theorem normalized_eq (a : Int) : RInt.normalized a = C15.intOps.normalized a := by
  unfold RInt.normalized C15.EucOps.normalized
  by_cases h : a < 0 <;> simp [C15.intOps, C15.zNormUnit, RInt.normalizing_unit, RInt.is_negative, h]

theorem divides_eq (x y : Int) : EucRing.divides x y = ok (C15.intOps.divides x y) := by
  unfold EucRing.divides C15.EucOps.divides
  by_cases h : x = 0
  · simp [h, RInt.is_zero, C15.intOps]
  · have h' : (x == 0) = false := by simpa using h
    simp [h, h', RInt.is_zero, C15.intOps, rem_ne y x h]
    rfl

/-- the generated `while` loop of `gcd` with `n+1` units of fuel is the model's `gcdLoop` with `n` (the generated
loop pays one unit for the final test as well) -/
theorem gcd_loop_eq (n : Nat) (x y : Int) :
    EucRing.gcd_loop1 (n + 1) x y = ofOpt ((C15.intOps.gcdLoop n x y).map fun d => (d, 0)) := by
  induction n generalizing x y with
  | zero =>
    unfold EucRing.gcd_loop1 C15.EucOps.gcdLoop
    by_cases h : y = 0
    · simp [h, RInt.is_zero, C15.intOps, ofOpt]
    · simp [h, RInt.is_zero, C15.intOps, ofOpt, rem_ne x y h, EucRing.gcd_loop1]
  | succ n ih =>
    unfold EucRing.gcd_loop1 C15.EucOps.gcdLoop
    by_cases h : y = 0
    · simp [h, RInt.is_zero, C15.intOps, ofOpt]
    · simp [h, RInt.is_zero, rem_ne x y h, ih]
      simp [C15.intOps, h]

theorem gcdx_loop_eq (n : Nat) (x y s0 s1 t0 t1 : Int) :
    (EucRing.gcdx_loop1 (n + 1) x y s0 s1 t0 t1 >>= fun r => ok (r.1, r.2.2.1, r.2.2.2.2.1)) =
      ofOpt (C15.intOps.gcdxLoop n x y s0 s1 t0 t1) := by
  induction n generalizing x y s0 s1 t0 t1 with
  | zero =>
    unfold EucRing.gcdx_loop1 C15.EucOps.gcdxLoop
    by_cases h : y = 0
    · simp [h, RInt.is_zero, C15.intOps, ofOpt]
    · simp [h, RInt.is_zero, C15.intOps, ofOpt, rem_ne x y h, div_ne x y h, EucRing.gcdx_loop1]
  | succ n ih =>
    unfold EucRing.gcdx_loop1 C15.EucOps.gcdxLoop
    by_cases h : y = 0
    · simp [h, RInt.is_zero, C15.intOps, ofOpt]
    · simp [h, RInt.is_zero, rem_ne x y h, div_ne x y h, ih]
      simp [C15.intOps, h]

end Yuiv.C15Gen
