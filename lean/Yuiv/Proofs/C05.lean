import Yuiv.Model.C05
import Mathlib.Algebra.QuadraticAlgebra.Defs
import Mathlib.Tactic.Ring
import Mathlib.Tactic.Linarith
import Mathlib.Tactic.LinearCombination
/-
C05 — spec definitions and helper lemmas for the kernel of the Khovanov differential.

* `LawfulCoef R` : the `Coef` operations of the code model are the operations of a commutative ring `R`
  (and `is_zero` / `is_one` only answer `true` on `0` / `1`).  `Int` is lawful.
* `sem μ l` : the element `Σ rₖ • μ(k)` represented by a linear combination `l`.
* the Frobenius algebra `A = R[X]/(X² − hX − t)` is Mathlib's `QuadraticAlgebra R t h`
  (pairs `⟨a₀, a₁⟩ = a₀ + a₁X`), `Xd = ⟨0,1⟩`, `Yd = X − h = ⟨−h,1⟩`, counit `ε = im` (`ε 1 = 0`, `ε X = 1`).
-/
namespace Yuiv.C05
open Yuiv

/-! ### invariants of the hash-map operations (any coefficient type) -/

section inv
variable {K R : Type} [DecidableEq K] [Coef R]

theorem addPair_forall (P : K → R → Prop) (hadd : ∀ k r r', P k r → P k r' → P k (Coef.add r r'))
    (l : Lc K R) (hl : ∀ p ∈ l, P p.1 p.2) (k : K) (r : R) (hk : P k r) :
    ∀ p ∈ addPair l k r, P p.1 p.2 := by
  induction l with
  | nil => intro p hp; simp [addPair] at hp; subst hp; exact hk
  | cons a l ih =>
    intro p hp
    unfold addPair at hp
    split at hp
    · rename_i heq
      rcases List.mem_cons.1 hp with h | h
      · subst h; simp only
        have := hl a (List.mem_cons_self ..)
        exact hadd _ _ _ this (heq ▸ hk)
      · exact hl p (List.mem_cons_of_mem _ h)
    · rcases List.mem_cons.1 hp with h | h
      · subst h; exact hl _ (List.mem_cons_self ..)
      · exact ih (fun q hq => hl q (List.mem_cons_of_mem _ hq)) p h

theorem addPairZ_forall (P : K → R → Prop) (hadd : ∀ k r r', P k r → P k r' → P k (Coef.add r r'))
    (l : Lc K R) (hl : ∀ p ∈ l, P p.1 p.2) (k : K) (r : R) (hk : P k r) :
    ∀ p ∈ addPairZ l k r, P p.1 p.2 := by
  unfold addPairZ; split
  · exact hl
  · exact addPair_forall P hadd l hl k r hk

omit [DecidableEq K] in
theorem clean_forall (P : K → R → Prop) (l : Lc K R) (hl : ∀ p ∈ l, P p.1 p.2) :
    ∀ p ∈ clean l, P p.1 p.2 := fun p hp => hl p (List.mem_filter.1 hp).1

theorem foldl_addPairZ_forall (P : K → R → Prop) (hadd : ∀ k r r', P k r → P k r' → P k (Coef.add r r'))
    (b a : Lc K R) (ha : ∀ p ∈ a, P p.1 p.2) (hb : ∀ p ∈ b, P p.1 p.2) :
    ∀ p ∈ b.foldl (fun acc p => addPairZ acc p.1 p.2) a, P p.1 p.2 := by
  induction b generalizing a with
  | nil => exact ha
  | cons q b ih =>
    simp only [List.foldl_cons]
    exact ih _ (addPairZ_forall P hadd a ha q.1 q.2 (hb q (List.mem_cons_self ..)))
      (fun p hp => hb p (List.mem_cons_of_mem _ hp))

theorem add_forall (P : K → R → Prop) (hadd : ∀ k r r', P k r → P k r' → P k (Coef.add r r'))
    (a b : Lc K R) (ha : ∀ p ∈ a, P p.1 p.2) (hb : ∀ p ∈ b, P p.1 p.2) :
    ∀ p ∈ add a b, P p.1 p.2 :=
  clean_forall P _ (foldl_addPairZ_forall P hadd b a ha hb)

omit [DecidableEq K] in
theorem smul_forall (P Q : K → R → Prop) (a : Lc K R) (r : R) (ha : ∀ p ∈ a, P p.1 p.2)
    (hone : Coef.isOne r = true → ∀ k c, P k c → Q k c) (hmul : ∀ k c, P k c → Q k (Coef.mul c r)) :
    ∀ p ∈ smul a r, Q p.1 p.2 := by
  unfold smul; split
  · rename_i h1; exact fun p hp => hone h1 _ _ (ha p hp)
  · apply clean_forall
    intro p hp
    rcases List.mem_map.1 hp with ⟨q, hq, rfl⟩
    exact hmul _ _ (ha q hq)

theorem single_forall (P : K → R → Prop) (k : K) (hk : P k Coef.one) :
    ∀ p ∈ (single k : Lc K R), P p.1 p.2 := by
  unfold single fromPair
  apply clean_forall
  intro p hp
  unfold addPairZ at hp
  split at hp
  · simp at hp
  · simp [addPair] at hp; subst hp; exact hk

end inv

/-! ### lawful coefficients and the element represented by a linear combination -/

class LawfulCoef (R : Type) [CommRing R] [Coef R] : Prop where
  zero_eq : (Coef.zero : R) = 0
  one_eq : (Coef.one : R) = 1
  add_eq : ∀ a b : R, Coef.add a b = a + b
  mul_eq : ∀ a b : R, Coef.mul a b = a * b
  neg_eq : ∀ a : R, Coef.neg a = -a
  isZero_sound : ∀ a : R, Coef.isZero a = true → a = 0
  isOne_sound : ∀ a : R, Coef.isOne a = true → a = 1

instance : LawfulCoef Int where
  zero_eq := rfl
  one_eq := rfl
  add_eq _ _ := rfl
  mul_eq _ _ := rfl
  neg_eq _ := rfl
  isZero_sound a h := by simpa [Coef.isZero] using h
  isOne_sound a h := by simpa [Coef.isOne] using h

section sem
variable {K R S : Type} [DecidableEq K] [CommRing R] [Coef R] [LawfulCoef R] [AddCommGroup S] [Module R S]

/-- `Σ r • μ(k)` over the terms `(k, r)` -/
def sem (μ : K → S) (l : Lc K R) : S := (l.map (fun p => p.2 • μ p.1)).sum

omit [DecidableEq K] [Coef R] [LawfulCoef R] in
@[simp] theorem sem_nil (μ : K → S) : sem μ ([] : Lc K R) = 0 := rfl
omit [DecidableEq K] [Coef R] [LawfulCoef R] in
@[simp] theorem sem_cons (μ : K → S) (p : K × R) (l : Lc K R) : sem μ (p :: l) = p.2 • μ p.1 + sem μ l := by
  simp [sem]

theorem sem_addPair (μ : K → S) (l : Lc K R) (k : K) (r : R) : sem μ (addPair l k r) = sem μ l + r • μ k := by
  induction l with
  | nil => simp [addPair]
  | cons a l ih =>
    unfold addPair; split
    · rename_i h; subst h
      simp only [sem_cons, LawfulCoef.add_eq, add_smul]; abel
    · simp only [sem_cons, ih]; abel

theorem sem_addPairZ (μ : K → S) (l : Lc K R) (k : K) (r : R) : sem μ (addPairZ l k r) = sem μ l + r • μ k := by
  unfold addPairZ; split
  · rename_i h; rw [LawfulCoef.isZero_sound r h]; simp
  · exact sem_addPair μ l k r

omit [DecidableEq K] in
theorem sem_clean (μ : K → S) (l : Lc K R) : sem μ (clean l) = sem μ l := by
  induction l with
  | nil => rfl
  | cons a l ih =>
    unfold clean at *
    rw [List.filter_cons]; split
    · simp only [sem_cons, ih]
    · rename_i h
      have h0 : a.2 = 0 := LawfulCoef.isZero_sound a.2 (by simpa using h)
      simp only [sem_cons, ih, h0, zero_smul, zero_add]

theorem sem_foldl (μ : K → S) (b a : Lc K R) :
    sem μ (b.foldl (fun acc p => addPairZ acc p.1 p.2) a) = sem μ a + sem μ b := by
  induction b generalizing a with
  | nil => simp
  | cons q b ih => simp only [List.foldl_cons, ih, sem_addPairZ, sem_cons]; abel

theorem sem_add (μ : K → S) (a b : Lc K R) : sem μ (add a b) = sem μ a + sem μ b := by
  unfold add; rw [sem_clean, sem_foldl]

omit [DecidableEq K] in
theorem sem_map_mul (μ : K → S) (a : Lc K R) (r : R) :
    sem μ (a.map (fun p => (p.1, Coef.mul p.2 r))) = r • sem μ a := by
  induction a with
  | nil => simp
  | cons q a ih =>
    rw [List.map_cons, sem_cons, sem_cons, ih]
    simp only [LawfulCoef.mul_eq, smul_add, mul_comm q.2 r, mul_smul]

omit [DecidableEq K] in
theorem sem_smul (μ : K → S) (a : Lc K R) (r : R) : sem μ (smul a r) = r • sem μ a := by
  unfold smul; split
  · rename_i h; rw [LawfulCoef.isOne_sound r h, one_smul]
  · rw [sem_clean, sem_map_mul]

theorem sem_single (μ : K → S) (k : K) : sem μ (single k : Lc K R) = μ k := by
  unfold single fromPair
  rw [sem_clean, sem_addPairZ, LawfulCoef.one_eq]; simp

end sem

/-! ### the Frobenius algebra `A = R[X]/(X² − hX − t)` -/

section alg
variable {R : Type} [CommRing R]

abbrev A (h t : R) := QuadraticAlgebra R t h

def Xd (h t : R) : A h t := ⟨0, 1⟩
/-- `Y = X − h` -/
def Yd (h t : R) : A h t := ⟨-h, 1⟩
def Cc (h t : R) (r : R) : A h t := ⟨r, 0⟩

theorem Yd_eq (h t : R) : Yd h t = Xd h t - Cc h t h := by
  ext <;> simp [Yd, Xd, Cc]

theorem smul_eq_Cc (h t r : R) (z : A h t) : r • z = Cc h t r * z := by
  ext <;> simp [Cc]

/-- `X² = hX + t` -/
theorem XX (h t : R) : Xd h t * Xd h t = Cc h t h * Xd h t + Cc h t t := by
  ext <;> simp [Xd, Cc]
/-- `XY = t` -/
theorem XY (h t : R) : Xd h t * Yd h t = Cc h t t := by
  ext <;> simp [Xd, Yd, Cc]
/-- `Y² = −hY + t` -/
theorem YY (h t : R) : Yd h t * Yd h t = Cc h t (-h) * Yd h t + Cc h t t := by
  ext <;> simp [Yd, Cc] <;> ring

theorem im_Cc_mul (h t r : R) (z : A h t) : (Cc h t r * z).im = r * z.im := by
  simp [Cc]

/-- the counit `ε(a₀ + a₁X) = a₁` -/
def counit {h t : R} (z : A h t) : R := z.im

theorem counit_one (h t : R) : counit (1 : A h t) = 0 := rfl
theorem counit_X (h t : R) : counit (Xd h t) = 1 := rfl
theorem counit_Y (h t : R) : counit (Yd h t) = 1 := rfl

/-- the element of `A` a dotted genus-0 term stands for -/
def muA (h t : R) : Key → A h t
  | .empty => 0
  | .comp x y => Xd h t ^ x * Yd h t ^ y

/-- the scalar a closed term stands for -/
def muC : Key → R
  | .empty => 1
  | .comp _ _ => 0

variable [Coef R] [LawfulCoef R]

theorem partEval_open_sem (h t : R) (g x y : Nat) :
    sem (muA h t) (partEval h t false g x y) = Xd h t ^ x * Yd h t ^ y * (Xd h t + Yd h t) ^ g := by
  fun_induction partEval h t false g x y with
  | case1 g x y ih1 ih2 => rw [sem_add, ih1, ih2]; ring
  | case2 x y ih =>
    rw [sem_smul, ih, smul_eq_Cc]
    linear_combination (-(Xd h t ^ x * Yd h t ^ y)) * XY h t
  | case3 x ih1 ih2 =>
    rw [sem_add, sem_smul, sem_smul, ih1, ih2, smul_eq_Cc, smul_eq_Cc]
    linear_combination (-(Xd h t ^ x)) * XX h t
  | case4 y ih1 ih2 =>
    rw [sem_add, sem_smul, sem_smul, ih1, ih2, smul_eq_Cc, smul_eq_Cc, LawfulCoef.neg_eq]
    linear_combination (-(Yd h t ^ y)) * YY h t
  | case5 => simp [sem_single, muA]
  | case6 => simp [sem_single, muA]
  | case7 => simp [sem_single, muA]

theorem partEval_closed_sem (h t : R) (g x y : Nat) :
    sem (S := R) muC (partEval h t true g x y) = (Xd h t ^ x * Yd h t ^ y * (Xd h t + Yd h t) ^ g).im := by
  fun_induction partEval h t true g x y with
  | case1 g x y ih1 ih2 =>
    rw [sem_add, ih1, ih2, ← QuadraticAlgebra.im_add]; congr 1; ring
  | case2 x y ih =>
    rw [sem_smul, ih, smul_eq_mul, ← im_Cc_mul]; congr 1
    linear_combination (-(Xd h t ^ x * Yd h t ^ y)) * XY h t
  | case3 x ih1 ih2 =>
    rw [sem_add, sem_smul, sem_smul, ih1, ih2, smul_eq_mul, smul_eq_mul, ← im_Cc_mul, ← im_Cc_mul,
      ← QuadraticAlgebra.im_add]; congr 1
    linear_combination (-(Xd h t ^ x)) * XX h t
  | case4 y ih1 ih2 =>
    rw [sem_add, sem_smul, sem_smul, ih1, ih2, smul_eq_mul, smul_eq_mul, ← im_Cc_mul, ← im_Cc_mul,
      ← QuadraticAlgebra.im_add, LawfulCoef.neg_eq]; congr 1
    linear_combination (-(Yd h t ^ y)) * YY h t
  | case5 => simp [sem_single, muC, Xd]
  | case6 => simp [sem_single, muC, Yd]
  | case7 => simp [QuadraticAlgebra.im_one]

end alg

end Yuiv.C05
