import Yuiv.Model.C05
import Mathlib.Algebra.QuadraticAlgebra.Defs
import Mathlib.Tactic.Ring
import Mathlib.Tactic.Linarith
import Mathlib.Tactic.LinearCombination
/-
C05 — spec definitions and helper lemmas for the kernel of the Khovanov differential.

* `LawfulCoef R` : the `Coef` operations of the code model are the operations of a commutative ring `R`
  (and `is_zero` / `is_one` only answer `true` on `0` / `1`).  `Int` is lawful.
* `sem μ l` : the element `Σ rₖ • μ(k)` represented by a linear combination `l`.
* the Frobenius algebra `A = R[X]/(X² − hX − t)` is Mathlib's `QuadraticAlgebra R t h`
  (pairs `⟨a₀, a₁⟩ = a₀ + a₁X`), `Xd = ⟨0,1⟩`, `Yd = X − h = ⟨−h,1⟩`, counit `ε = im` (`ε 1 = 0`, `ε X = 1`).
-/
namespace Yuiv.C05
open Yuiv

/-! ### invariants of the hash-map operations (any coefficient type) -/

section inv
variable {K R : Type} [DecidableEq K] [Coef R]

theorem addPair_forall (P : K → R → Prop) (hadd : ∀ k r r', P k r → P k r' → P k (Coef.add r r'))
    (l : Lc K R) (hl : ∀ p ∈ l, P p.1 p.2) (k : K) (r : R) (hk : P k r) :
    ∀ p ∈ addPair l k r, P p.1 p.2 := by
  induction l with
  | nil => intro p hp; simp [addPair] at hp; subst hp; exact hk
  | cons a l ih =>
    intro p hp
    unfold addPair at hp
    split at hp
    · rename_i heq
      rcases List.mem_cons.1 hp with h | h
      · subst h; simp only
        have := hl a (List.mem_cons_self ..)
        exact hadd _ _ _ this (heq ▸ hk)
      · exact hl p (List.mem_cons_of_mem _ h)
    · rcases List.mem_cons.1 hp with h | h
      · subst h; exact hl _ (List.mem_cons_self ..)
      · exact ih (fun q hq => hl q (List.mem_cons_of_mem _ hq)) p h

theorem addPairZ_forall (P : K → R → Prop) (hadd : ∀ k r r', P k r → P k r' → P k (Coef.add r r'))
    (l : Lc K R) (hl : ∀ p ∈ l, P p.1 p.2) (k : K) (r : R) (hk : P k r) :
    ∀ p ∈ addPairZ l k r, P p.1 p.2 := by
  unfold addPairZ; split
  · exact hl
  · exact addPair_forall P hadd l hl k r hk

omit [DecidableEq K] in
theorem clean_forall (P : K → R → Prop) (l : Lc K R) (hl : ∀ p ∈ l, P p.1 p.2) :
    ∀ p ∈ clean l, P p.1 p.2 := fun p hp => hl p (List.mem_filter.1 hp).1

theorem foldl_addPairZ_forall (P : K → R → Prop) (hadd : ∀ k r r', P k r → P k r' → P k (Coef.add r r'))
    (b a : Lc K R) (ha : ∀ p ∈ a, P p.1 p.2) (hb : ∀ p ∈ b, P p.1 p.2) :
    ∀ p ∈ b.foldl (fun acc p => addPairZ acc p.1 p.2) a, P p.1 p.2 := by
  induction b generalizing a with
  | nil => exact ha
  | cons q b ih =>
    simp only [List.foldl_cons]
    exact ih _ (addPairZ_forall P hadd a ha q.1 q.2 (hb q (List.mem_cons_self ..)))
      (fun p hp => hb p (List.mem_cons_of_mem _ hp))

theorem add_forall (P : K → R → Prop) (hadd : ∀ k r r', P k r → P k r' → P k (Coef.add r r'))
    (a b : Lc K R) (ha : ∀ p ∈ a, P p.1 p.2) (hb : ∀ p ∈ b, P p.1 p.2) :
    ∀ p ∈ add a b, P p.1 p.2 :=
  clean_forall P _ (foldl_addPairZ_forall P hadd b a ha hb)

omit [DecidableEq K] in
theorem smul_forall (P Q : K → R → Prop) (a : Lc K R) (r : R) (ha : ∀ p ∈ a, P p.1 p.2)
    (hone : Coef.isOne r = true → ∀ k c, P k c → Q k c) (hmul : ∀ k c, P k c → Q k (Coef.mul c r)) :
    ∀ p ∈ smul a r, Q p.1 p.2 := by
  unfold smul; split
  · rename_i h1; exact fun p hp => hone h1 _ _ (ha p hp)
  · apply clean_forall
    intro p hp
    rcases List.mem_map.1 hp with ⟨q, hq, rfl⟩
    exact hmul _ _ (ha q hq)

theorem single_forall (P : K → R → Prop) (k : K) (hk : P k Coef.one) :
    ∀ p ∈ (single k : Lc K R), P p.1 p.2 := by
  unfold single fromPair
  apply clean_forall
  intro p hp
  unfold addPairZ at hp
  split at hp
  · simp at hp
  · simp [addPair] at hp; subst hp; exact hk

end inv

/-! ### lawful coefficients and the element represented by a linear combination -/

class LawfulCoef (R : Type) [CommRing R] [Coef R] : Prop where
  zero_eq : (Coef.zero : R) = 0
  one_eq : (Coef.one : R) = 1
  add_eq : ∀ a b : R, Coef.add a b = a + b
  mul_eq : ∀ a b : R, Coef.mul a b = a * b
  neg_eq : ∀ a : R, Coef.neg a = -a
  isZero_sound : ∀ a : R, Coef.isZero a = true → a = 0
  isOne_sound : ∀ a : R, Coef.isOne a = true → a = 1

instance : LawfulCoef Int where
  zero_eq := rfl
  one_eq := rfl
  add_eq _ _ := rfl
  mul_eq _ _ := rfl
  neg_eq _ := rfl
  isZero_sound a h := by simpa [Coef.isZero] using h
  isOne_sound a h := by simpa [Coef.isOne] using h

section sem
variable {K R S : Type} [DecidableEq K] [CommRing R] [Coef R] [LawfulCoef R] [AddCommGroup S] [Module R S]

/-- `Σ r • μ(k)` over the terms `(k, r)` -/
def sem (μ : K → S) (l : Lc K R) : S := (l.map (fun p => p.2 • μ p.1)).sum

omit [DecidableEq K] [Coef R] [LawfulCoef R] in
@[simp] theorem sem_nil (μ : K → S) : sem μ ([] : Lc K R) = 0 := rfl
omit [DecidableEq K] [Coef R] [LawfulCoef R] in
@[simp] theorem sem_cons (μ : K → S) (p : K × R) (l : Lc K R) : sem μ (p :: l) = p.2 • μ p.1 + sem μ l := by
  simp [sem]

theorem sem_addPair (μ : K → S) (l : Lc K R) (k : K) (r : R) : sem μ (addPair l k r) = sem μ l + r • μ k := by
  induction l with
  | nil => simp [addPair]
  | cons a l ih =>
    unfold addPair; split
    · rename_i h; subst h
      simp only [sem_cons, LawfulCoef.add_eq, add_smul]; abel
    · simp only [sem_cons, ih]; abel

theorem sem_addPairZ (μ : K → S) (l : Lc K R) (k : K) (r : R) : sem μ (addPairZ l k r) = sem μ l + r • μ k := by
  unfold addPairZ; split
  · rename_i h; rw [LawfulCoef.isZero_sound r h]; simp
  · exact sem_addPair μ l k r

omit [DecidableEq K] in
theorem sem_clean (μ : K → S) (l : Lc K R) : sem μ (clean l) = sem μ l := by
  induction l with
  | nil => rfl
  | cons a l ih =>
    unfold clean at *
    rw [List.filter_cons]; split
    · simp only [sem_cons, ih]
    · rename_i h
      have h0 : a.2 = 0 := LawfulCoef.isZero_sound a.2 (by simpa using h)
      simp only [sem_cons, ih, h0, zero_smul, zero_add]

theorem sem_foldl (μ : K → S) (b a : Lc K R) :
    sem μ (b.foldl (fun acc p => addPairZ acc p.1 p.2) a) = sem μ a + sem μ b := by
  induction b generalizing a with
  | nil => simp
  | cons q b ih => simp only [List.foldl_cons, ih, sem_addPairZ, sem_cons]; abel

theorem sem_add (μ : K → S) (a b : Lc K R) : sem μ (add a b) = sem μ a + sem μ b := by
  unfold add; rw [sem_clean, sem_foldl]

omit [DecidableEq K] in
theorem sem_map_mul (μ : K → S) (a : Lc K R) (r : R) :
    sem μ (a.map (fun p => (p.1, Coef.mul p.2 r))) = r • sem μ a := by
  induction a with
  | nil => simp
  | cons q a ih =>
    rw [List.map_cons, sem_cons, sem_cons, ih]
    simp only [LawfulCoef.mul_eq, smul_add, mul_comm q.2 r, mul_smul]

omit [DecidableEq K] in
theorem sem_smul (μ : K → S) (a : Lc K R) (r : R) : sem μ (smul a r) = r • sem μ a := by
  unfold smul; split
  · rename_i h; rw [LawfulCoef.isOne_sound r h, one_smul]
  · rw [sem_clean, sem_map_mul]

theorem sem_single (μ : K → S) (k : K) : sem μ (single k : Lc K R) = μ k := by
  unfold single fromPair
  rw [sem_clean, sem_addPairZ, LawfulCoef.one_eq]; simp

end sem

/-! ### the Frobenius algebra `A = R[X]/(X² − hX − t)` -/

section alg
variable {R : Type} [CommRing R]

abbrev A (h t : R) := QuadraticAlgebra R t h

def Xd (h t : R) : A h t := ⟨0, 1⟩
/-- `Y = X − h` -/
def Yd (h t : R) : A h t := ⟨-h, 1⟩
def Cc (h t : R) (r : R) : A h t := QuadraticAlgebra.C r

theorem Yd_eq (h t : R) : Yd h t = Xd h t - Cc h t h := by
  ext <;> simp [Yd, Xd, Cc]

theorem smul_eq_Cc (h t r : R) (z : A h t) : r • z = Cc h t r * z := by
  ext <;> simp [Cc]

/-- `X² = hX + t` -/
theorem XX (h t : R) : Xd h t * Xd h t = Cc h t h * Xd h t + Cc h t t := by
  ext <;> simp [Xd, Cc]
/-- `XY = t` -/
theorem XY (h t : R) : Xd h t * Yd h t = Cc h t t := by
  ext <;> simp [Xd, Yd, Cc]
/-- `Y² = −hY + t` -/
theorem YY (h t : R) : Yd h t * Yd h t = Cc h t (-h) * Yd h t + Cc h t t := by
  ext <;> simp [Yd, Cc]

theorem im_Cc_mul (h t r : R) (z : A h t) : (Cc h t r * z).im = r * z.im := by
  simp [Cc]

/-- the counit `ε(a₀ + a₁X) = a₁` -/
def counit {h t : R} (z : A h t) : R := z.im

theorem counit_one (h t : R) : counit (1 : A h t) = 0 := rfl
theorem counit_X (h t : R) : counit (Xd h t) = 1 := rfl
theorem counit_Y (h t : R) : counit (Yd h t) = 1 := rfl

/-- the element of `A` a dotted genus-0 term stands for -/
def muA (h t : R) : Key → A h t
  | .empty => 0
  | .comp x y => Xd h t ^ x * Yd h t ^ y

/-- the scalar a closed term stands for -/
def muC : Key → R
  | .empty => 1
  | .comp _ _ => 0

variable [Coef R] [LawfulCoef R]

theorem partEval_open_sem (h t : R) (g x y : Nat) :
    sem (muA h t) (partEval h t false g x y) = Xd h t ^ x * Yd h t ^ y * (Xd h t + Yd h t) ^ g := by
  fun_induction partEval h t false g x y <;> (try simp only [Nat.succ_eq_add_one] at *)
  case case1 g x y ih1 ih2 => rw [sem_add, ih1, ih2]; ring
  case case2 x y ih =>
    rw [sem_smul, ih, smul_eq_Cc]
    linear_combination (-(Xd h t ^ x * Yd h t ^ y)) * XY h t
  case case3 x ih1 ih2 =>
    rw [sem_add, sem_smul, sem_smul, ih1, ih2, smul_eq_Cc, smul_eq_Cc]
    linear_combination (-(Xd h t ^ x)) * XX h t
  case case4 y ih1 ih2 =>
    rw [sem_add, sem_smul, sem_smul, ih1, ih2, smul_eq_Cc, smul_eq_Cc, LawfulCoef.neg_eq]
    linear_combination (-(Yd h t ^ y)) * YY h t
  all_goals simp_all [sem_single, muA]

theorem partEval_closed_sem (h t : R) (g x y : Nat) :
    sem (S := R) muC (partEval h t true g x y) = (Xd h t ^ x * Yd h t ^ y * (Xd h t + Yd h t) ^ g).im := by
  fun_induction partEval h t true g x y <;> (try simp only [Nat.succ_eq_add_one] at *)
  case case1 g x y ih1 ih2 =>
    rw [sem_add, ih1, ih2, ← QuadraticAlgebra.im_add]; congr 1; ring
  case case2 x y ih =>
    rw [sem_smul, ih, smul_eq_mul, ← im_Cc_mul]; congr 1
    linear_combination (-(Xd h t ^ x * Yd h t ^ y)) * XY h t
  case case3 x ih1 ih2 =>
    rw [sem_add, sem_smul, sem_smul, ih1, ih2, smul_eq_mul, smul_eq_mul, ← im_Cc_mul, ← im_Cc_mul,
      ← QuadraticAlgebra.im_add]; congr 1
    linear_combination (-(Xd h t ^ x)) * XX h t
  case case4 y ih1 ih2 =>
    rw [sem_add, sem_smul, sem_smul, ih1, ih2, smul_eq_mul, smul_eq_mul, ← im_Cc_mul, ← im_Cc_mul,
      ← QuadraticAlgebra.im_add, LawfulCoef.neg_eq]; congr 1
    linear_combination (-(Yd h t ^ y)) * YY h t
  all_goals simp_all [sem_single, muC, Xd, Yd, QuadraticAlgebra.im_one]

end alg

/-! ### shape of the output -/

section shape
variable {R : Type} [Coef R]

/-- a closed result is `0` or a multiple of the empty cobordism -/
def Scalar (l : Lc Key R) : Prop := l = [] ∨ ∃ r, l = [(Key.empty, r)]

theorem scalar_clean (l : Lc Key R) (hl : Scalar l) : Scalar (clean l) := by
  rcases hl with rfl | ⟨r, rfl⟩
  · left; rfl
  · unfold clean; rw [List.filter_cons]; split
    · right; exact ⟨r, rfl⟩
    · left; rfl

theorem scalar_add (a b : Lc Key R) (ha : Scalar a) (hb : Scalar b) : Scalar (add a b) := by
  unfold add; apply scalar_clean
  rcases hb with rfl | ⟨r, rfl⟩
  · exact ha
  · simp only [List.foldl_cons, List.foldl_nil]
    unfold addPairZ; split
    · exact ha
    · rcases ha with rfl | ⟨r', rfl⟩
      · right; exact ⟨r, rfl⟩
      · right; exact ⟨Coef.add r' r, by simp [addPair]⟩

theorem scalar_smul (a : Lc Key R) (r : R) (ha : Scalar a) : Scalar (smul a r) := by
  unfold smul; split
  · exact ha
  · apply scalar_clean
    rcases ha with rfl | ⟨r', rfl⟩
    · left; rfl
    · right; exact ⟨Coef.mul r' r, rfl⟩

theorem scalar_single : Scalar (single Key.empty : Lc Key R) := by
  unfold single fromPair; apply scalar_clean
  unfold addPairZ; split
  · left; rfl
  · right; exact ⟨Coef.one, rfl⟩

theorem partEval_closed_scalar (h t : R) (g x y : Nat) : Scalar (partEval h t true g x y) := by
  fun_induction partEval h t true g x y
  case case1 ih1 ih2 => exact scalar_add _ _ ih1 ih2
  case case2 ih => exact scalar_smul _ _ ih
  case case3 ih1 ih2 => exact scalar_add _ _ (scalar_smul _ _ ih1) (scalar_smul _ _ ih2)
  case case4 ih1 ih2 => exact scalar_add _ _ (scalar_smul _ _ ih1) (scalar_smul _ _ ih2)
  all_goals first | exact scalar_single | (left; rfl) | simp_all

/-- an open term: the same component with genus 0 and at most one dot -/
def OpenKey : Key → Prop
  | .empty => False
  | .comp x y => x + y ≤ 1

theorem partEval_open_keys (h t : R) (g x y : Nat) :
    ∀ p ∈ partEval h t false g x y, OpenKey p.1 := by
  fun_induction partEval h t false g x y
  case case1 ih1 ih2 => exact add_forall (fun k _ => OpenKey k) (fun _ _ _ a _ => a) _ _ ih1 ih2
  case case2 ih => exact smul_forall (fun k _ => OpenKey k) _ _ _ ih (fun _ _ _ a => a) (fun _ _ a => a)
  case case3 ih1 ih2 =>
    exact add_forall (fun k _ => OpenKey k) (fun _ _ _ a _ => a) _ _
      (smul_forall (fun k _ => OpenKey k) _ _ _ ih1 (fun _ _ _ a => a) (fun _ _ a => a))
      (smul_forall (fun k _ => OpenKey k) _ _ _ ih2 (fun _ _ _ a => a) (fun _ _ a => a))
  case case4 ih1 ih2 =>
    exact add_forall (fun k _ => OpenKey k) (fun _ _ _ a _ => a) _ _
      (smul_forall (fun k _ => OpenKey k) _ _ _ ih1 (fun _ _ _ a => a) (fun _ _ a => a))
      (smul_forall (fun k _ => OpenKey k) _ _ _ ih2 (fun _ _ _ a => a) (fun _ _ a => a))
  all_goals first
    | (exfalso; simp_all; done)
    | (refine single_forall (fun k _ => OpenKey k) _ ?_; simp [OpenKey])

end shape

/-! ### closed evaluation -/

section closed
variable {R : Type} [CommRing R] [Coef R] [LawfulCoef R]

theorem evalClosed_eq (h t : R) (g x y : Nat) :
    evalClosed h t true g x y = .ok (counit (Xd h t ^ x * Yd h t ^ y * (Xd h t + Yd h t) ^ g)) := by
  have hs := partEval_closed_sem h t g x y
  unfold evalClosed counit
  rcases partEval_closed_scalar h t g x y with h0 | ⟨r, h1⟩
  · rw [h0] at hs ⊢
    simp only [sem_nil] at hs
    simp [← hs, LawfulCoef.zero_eq]
  · rw [h1] at hs ⊢
    simp [muC] at hs
    simp [← hs]

omit [Coef R] [LawfulCoef R] in
/-- `(X + Y)² = h² + 4t` is a scalar -/
theorem XpY_sq (h t : R) : (Xd h t + Yd h t) ^ 2 = Cc h t (h ^ 2 + 4 * t) := by
  ext <;> simp [Xd, Yd, Cc, pow_two, QuadraticAlgebra.re_ofNat, QuadraticAlgebra.im_ofNat] <;> ring

omit [Coef R] [LawfulCoef R] in
theorem im_Cc (h t r : R) : (Cc h t r).im = 0 := rfl

omit [Coef R] [LawfulCoef R] in
theorem zero_cob_value (h t : R) (k x : Nat) :
    counit (Xd h t ^ x * Yd h t ^ x * (Xd h t + Yd h t) ^ (2 * k)) = 0 := by
  have e : Xd h t ^ x * Yd h t ^ x * (Xd h t + Yd h t) ^ (2 * k) = Cc h t (t ^ x * (h ^ 2 + 4 * t) ^ k) := by
    rw [← mul_pow, XY, pow_mul, XpY_sq]
    simp only [Cc, QuadraticAlgebra.C_mul, QuadraticAlgebra.C_pow]
  rw [e]; rfl

end closed

/-! ### homogeneity over `ℤ[H, T]` -/

section homog

/-- weight of `H^a T^b` (half of minus its degree): `a + 2b` -/
def wt (m : Mono) : Nat := m.1 + 2 * m.2

theorem monoDeg_eq (m : Mono) : monoDeg m = -2 * (wt m : Int) := by
  simp only [monoDeg, wt]; push_cast; ring

theorem foldl_inv {α β : Type} (I : β → Prop) (f : β → α → β) (l : List α) (b : β) (hb : I b)
    (hf : ∀ b a, a ∈ l → I b → I (f b a)) : I (l.foldl f b) := by
  induction l generalizing b with
  | nil => exact hb
  | cons a l ih =>
    exact ih (f b a) (hf b a (List.mem_cons_self ..) hb) (fun b a' ha' => hf b a' (List.mem_cons_of_mem _ ha'))

theorem HT_add_keys (Q : Mono → Prop) (p q : HT) (hp : ∀ x ∈ p, Q x.1) (hq : ∀ x ∈ q, Q x.1) :
    ∀ x ∈ (Coef.add p q : HT), Q x.1 :=
  add_forall (fun k _ => Q k) (fun _ _ _ a _ => a) p q hp hq

theorem HT_neg_keys (Q : Mono → Prop) (p : HT) (hp : ∀ x ∈ p, Q x.1) : ∀ x ∈ (Coef.neg p : HT), Q x.1 := by
  intro x hx
  rcases List.mem_map.1 hx with ⟨y, hy, rfl⟩
  exact hp y hy

theorem HT_mul_keys (Q1 Q2 Q : Mono → Prop) (hQ : ∀ a b, Q1 a → Q2 b → Q (a.1 + b.1, a.2 + b.2))
    (p q : HT) (hp : ∀ x ∈ p, Q1 x.1) (hq : ∀ x ∈ q, Q2 x.1) : ∀ x ∈ (Coef.mul p q : HT), Q x.1 := by
  show ∀ x ∈ HT.mul p q, Q x.1
  unfold HT.mul
  apply clean_forall (fun k _ => Q k)
  apply foldl_inv (fun acc : HT => ∀ x ∈ acc, Q x.1)
  · simp
  · intro acc a ha hacc
    apply foldl_inv (fun acc : HT => ∀ x ∈ acc, Q x.1)
    · exact hacc
    · intro acc' b hb hacc'
      exact addPairZ_forall (fun k _ => Q k) (fun _ _ _ a _ => a) acc' hacc' _ _ (hQ _ _ (hp a ha) (hq b hb))

/-- all monomials of the coefficient have weight `n − dots(k)` -/
def HomogAt (n : Nat) (k : Key) (c : HT) : Prop := ∀ q ∈ c, k.dots + wt q.1 = n

theorem homogAt_add (n : Nat) (k : Key) (r r' : HT) (h1 : HomogAt n k r) (h2 : HomogAt n k r') :
    HomogAt n k (Coef.add r r') :=
  HT_add_keys (fun m => k.dots + wt m = n) r r' h1 h2

theorem homogAt_mul (n w : Nat) (k : Key) (c r : HT) (hc : HomogAt n k c) (hr : ∀ q ∈ r, wt q.1 = w) :
    HomogAt (n + w) k (Coef.mul c r) :=
  HT_mul_keys (fun m => k.dots + wt m = n) (fun m => wt m = w) (fun m => k.dots + wt m = n + w)
    (fun a b ha hb => by simp only [wt] at *; omega) c r hc hr

theorem lc_add_homog (n : Nat) (a b : Lc Key HT) (ha : ∀ p ∈ a, HomogAt n p.1 p.2) (hb : ∀ p ∈ b, HomogAt n p.1 p.2) :
    ∀ p ∈ add a b, HomogAt n p.1 p.2 :=
  add_forall (HomogAt n) (homogAt_add n) a b ha hb

theorem lc_smul_homog (n w : Nat) (a : Lc Key HT) (r : HT) (ha : ∀ p ∈ a, HomogAt n p.1 p.2)
    (hr : ∀ q ∈ r, wt q.1 = w) (h1 : Coef.isOne r = false) :
    ∀ p ∈ smul a r, HomogAt (n + w) p.1 p.2 :=
  smul_forall (HomogAt n) (HomogAt (n + w)) a r ha (fun h => by simp [h1] at h)
    (fun k c hc => homogAt_mul n w k c r hc hr)

theorem lc_single_homog (k : Key) : ∀ p ∈ (single k : Lc Key HT), HomogAt k.dots p.1 p.2 := by
  apply single_forall (HomogAt k.dots)
  intro q hq
  have : q = ((0, 0), 1) := by simpa [Coef.one] using hq
  subst this; simp [wt]

theorem wt_H : ∀ q ∈ HT.H, wt q.1 = 1 := by simp [HT.H, wt]
theorem wt_T : ∀ q ∈ HT.T, wt q.1 = 2 := by simp [HT.T, wt]
theorem wt_negH : ∀ q ∈ (Coef.neg HT.H : HT), wt q.1 = 1 := by simp [Coef.neg, HT.neg, HT.H, wt]

theorem partEval_HT_homog (closed : Bool) (g x y : Nat) :
    ∀ p ∈ partEval HT.H HT.T closed g x y, HomogAt (g + x + y) p.1 p.2 := by
  fun_induction partEval HT.H HT.T closed g x y <;> (try simp only [Nat.succ_eq_add_one] at *)
  case case1 g x y ih1 ih2 =>
    have e1 : g + (x + 1) + y = g + 1 + x + y := by omega
    have e2 : g + x + (y + 1) = g + 1 + x + y := by omega
    rw [e1] at ih1; rw [e2] at ih2
    exact lc_add_homog _ _ _ ih1 ih2
  case case2 x y ih =>
    have := lc_smul_homog _ 2 _ HT.T ih wt_T rfl
    have e : 0 + x + y + 2 = 0 + (x + 1) + (y + 1) := by omega
    rw [e] at this; exact this
  case case3 x ih1 ih2 =>
    have h1 := lc_smul_homog _ 1 _ HT.H ih1 wt_H rfl
    have h2 := lc_smul_homog _ 2 _ HT.T ih2 wt_T rfl
    have e1 : 0 + (x + 1) + 0 + 1 = 0 + (x + 2) + 0 := by omega
    have e2 : 0 + x + 0 + 2 = 0 + (x + 2) + 0 := by omega
    rw [e1] at h1; rw [e2] at h2
    exact lc_add_homog _ _ _ h1 h2
  case case4 y ih1 ih2 =>
    have h1 := lc_smul_homog _ 1 _ (Coef.neg HT.H) ih1 wt_negH rfl
    have h2 := lc_smul_homog _ 2 _ HT.T ih2 wt_T rfl
    have e1 : 0 + 0 + (y + 1) + 1 = 0 + 0 + (y + 2) := by omega
    have e2 : 0 + 0 + y + 2 = 0 + 0 + (y + 2) := by omega
    rw [e1] at h1; rw [e2] at h2
    exact lc_add_homog _ _ _ h1 h2
  all_goals first
    | exact lc_single_homog _
    | simp

end homog

/-! ### the matrix checker -/

section mat

/-- `Σ_{k<n} f k` -/
def sumTo : Nat → (Nat → Int) → Int
  | 0, _ => 0
  | n + 1, f => sumTo n f + f n

theorem sumTo_shift (n : Nat) (f : Nat → Int) : sumTo (n + 1) f = f 0 + sumTo n (fun k => f (k + 1)) := by
  induction n with
  | zero => simp [sumTo]
  | succ n ih => rw [sumTo, ih, sumTo]; ring

theorem sumTo_congr (n : Nat) (f g : Nat → Int) (h : ∀ k < n, f k = g k) : sumTo n f = sumTo n g := by
  induction n with
  | zero => rfl
  | succ n ih => rw [sumTo, sumTo, ih (fun k hk => h k (by omega)), h n (by omega)]

theorem dot_eq_sumTo (r c : List Int) :
    dot r c = sumTo (min r.length c.length) (fun k => r.getD k 0 * c.getD k 0) := by
  induction r generalizing c with
  | nil => simp [dot, sumTo]
  | cons a r ih =>
    cases c with
    | nil => simp [dot, sumTo]
    | cons b c =>
      rw [dot, ih c]
      have : min (a :: r).length (b :: c).length = min r.length c.length + 1 := by
        simp only [List.length_cons]; omega
      rw [this, sumTo_shift]; simp

/-- entry `(i, j)` of the product `A · B` (rows as lists, missing entries read as 0) -/
def mulEntry (A B : List (List Int)) (i j : Nat) : Int :=
  sumTo B.length (fun k => (A.getD i []).getD k 0 * (B.getD k []).getD j 0)

theorem col_getD (B : List (List Int)) (j k : Nat) (hk : k < B.length) :
    (col B j).getD k 0 = (B.getD k []).getD j 0 := by
  simp [col, List.getD_eq_getElem?_getD, hk]

theorem matMulZero_entry (A B : List (List Int)) (n : Nat) (hz : matMulZero A B n = true)
    (hs : shapeOk A B n = true) (i j : Nat) (hi : i < A.length) (hj : j < n) : mulEntry A B i j = 0 := by
  unfold matMulZero at hz
  unfold shapeOk at hs
  simp only [List.all_eq_true, Bool.and_eq_true, beq_iff_eq, List.mem_range] at hz hs
  have hr : A.getD i [] ∈ A := by
    rw [List.getD_eq_getElem?_getD, List.getElem?_eq_getElem hi]; simp
  have h1 := hz _ hr j hj
  have hl := hs.1 _ hr
  rw [dot_eq_sumTo] at h1
  have hc : (col B j).length = B.length := by simp [col]
  rw [hl, hc, Nat.min_self] at h1
  unfold mulEntry
  exact (sumTo_congr _ _ _ (fun k hk => by rw [col_getD B j k hk])).trans h1

end mat

end Yuiv.C05
