import Yuiv.Proofs.C04
import Mathlib.Algebra.Polynomial.Laurent
/-
C04Inv (helper, no property theorem here): canonicity of the `LP` coefficient-list arithmetic.
  * every list produced by `LP.addTerm` / `LP.add` / `LP.mul` from canonical input (in particular `jones l signs`
    and `chiChain l signs`, for ALL inputs) is canonical: exponents strictly increasing, no zero coefficient;
  * a canonical list is determined by its coefficient function, which is read off from its value at
    `q = T ∈ ℤ[T;T⁻¹]` (Mathlib's Laurent polynomial ring) — so equal evaluation there ⇒ LITERALLY equal lists.
-/
open Yuiv.KhRef Yuiv.C04
namespace Yuiv.C04Inv
open LaurentPolynomial

/-- canonical coefficient list: exponents strictly increasing, no zero coefficient -/
def Canon : LP → Prop
  | [] => True
  | t :: a => t.2 ≠ 0 ∧ (∀ u ∈ a, t.1 < u.1) ∧ Canon a

theorem addTerm_fst (e c : Int) (a : LP) : ∀ t ∈ LP.addTerm e c a, t.1 = e ∨ ∃ u ∈ a, u.1 = t.1 := by
  induction a with
  | nil =>
    intro t ht
    unfold LP.addTerm at ht
    split at ht
    · simp at ht
    · simp at ht; subst ht; exact Or.inl rfl
  | cons t0 a ih =>
    obtain ⟨e', c'⟩ := t0
    intro t ht
    unfold LP.addTerm at ht
    split at ht
    · split at ht
      · exact Or.inr ⟨t, ht, rfl⟩
      · rcases List.mem_cons.mp ht with rfl | ht
        · exact Or.inl rfl
        · exact Or.inr ⟨t, ht, rfl⟩
    · split at ht
      · split at ht
        · exact Or.inr ⟨t, List.mem_cons_of_mem _ ht, rfl⟩
        · rcases List.mem_cons.mp ht with rfl | ht
          · exact Or.inl rfl
          · exact Or.inr ⟨t, List.mem_cons_of_mem _ ht, rfl⟩
      · rcases List.mem_cons.mp ht with rfl | ht
        · exact Or.inr ⟨_, List.mem_cons_self, rfl⟩
        · rcases ih t ht with h | ⟨u, hu, h⟩
          · exact Or.inl h
          · exact Or.inr ⟨u, List.mem_cons_of_mem _ hu, h⟩

theorem canon_addTerm (e c : Int) (a : LP) (h : Canon a) : Canon (LP.addTerm e c a) := by
  induction a with
  | nil =>
    unfold LP.addTerm
    split
    · trivial
    · rename_i hc; exact ⟨by simpa using hc, by simp, trivial⟩
  | cons t0 a ih =>
    obtain ⟨e', c'⟩ := t0
    obtain ⟨h1, h2, h3⟩ := h
    unfold LP.addTerm
    split
    · rename_i hlt
      split
      · exact ⟨h1, h2, h3⟩
      · rename_i hc
        refine ⟨by simpa using hc, ?_, h1, h2, h3⟩
        intro u hu
        rcases List.mem_cons.mp hu with rfl | hu
        · exact hlt
        · exact Int.lt_trans hlt (h2 u hu)
    · rename_i hnlt
      split
      · rename_i heq
        have heq' : e = e' := by simpa using heq
        split
        · exact h3
        · rename_i hc
          exact ⟨by simpa using hc, fun u hu => by simpa [heq'] using h2 u hu, h3⟩
      · rename_i hne
        have hne' : e ≠ e' := by simpa using hne
        refine ⟨h1, ?_, ih h3⟩
        intro u hu
        rcases addTerm_fst e c a u hu with h | ⟨v, hv, h⟩
        · rw [h]; simp only at hnlt ⊢; omega
        · rw [← h]; exact h2 v hv

theorem canon_add (a b : LP) (h : Canon a) : Canon (LP.add a b) := by
  unfold LP.add
  induction b generalizing a with
  | nil => exact h
  | cons t b ih => exact ih _ (canon_addTerm _ _ _ h)

theorem canon_mul (a b : LP) : Canon (LP.mul a b) := by
  unfold LP.mul
  suffices ∀ acc, Canon acc → Canon (a.foldl (fun acc t => LP.add acc (LP.scaleShift t.2 t.1 b)) acc) from
    this [] trivial
  induction a with
  | nil => intro acc h; exact h
  | cons t a ih => intro acc h; exact ih _ (canon_add _ _ h)

theorem canon_jones (l : Link) (signs : Array Int) : Canon (jones l signs) := by
  unfold jones; exact canon_mul _ _

theorem canon_foldl {β} (G : LP → β → LP) (hG : ∀ acc s, Canon acc → Canon (G acc s)) (xs : List β) (acc : LP)
    (h : Canon acc) : Canon (xs.foldl G acc) := by
  induction xs generalizing acc with
  | nil => exact h
  | cons x xs ih => exact ih _ (hG _ _ h)

theorem canon_chiChain (l : Link) (signs : Array Int) : Canon (chiChain l signs) := by
  unfold chiChain
  dsimp only
  refine canon_foldl _ ?_ _ [] trivial
  intro acc s h
  rw [← Array.foldl_toList]
  exact canon_foldl _ (fun acc g h => canon_addTerm _ _ _ h) _ _ h

/-- coefficient of `q^k` in a coefficient list -/
def coeffAt : LP → Int → Int
  | [], _ => 0
  | t :: a, k => (if t.1 = k then t.2 else 0) + coeffAt a k

theorem coeffAt_lb (a : LP) (e k : Int) (h : ∀ u ∈ a, e < u.1) (hk : k ≤ e) : coeffAt a k = 0 := by
  induction a with
  | nil => rfl
  | cons t a ih =>
    unfold coeffAt
    have := h t List.mem_cons_self
    rw [if_neg (by omega), ih (fun u hu => h u (List.mem_cons_of_mem _ hu))]; rfl

/-- a canonical list is determined by its coefficient function -/
theorem canon_ext (a b : LP) (ha : Canon a) (hb : Canon b) (h : ∀ k, coeffAt a k = coeffAt b k) : a = b := by
  induction a generalizing b with
  | nil =>
    cases b with
    | nil => rfl
    | cons t b =>
      exfalso
      have := h t.1
      simp only [coeffAt, if_true] at this
      rw [coeffAt_lb b t.1 t.1 hb.2.1 (Int.le_refl _)] at this
      exact hb.1 (by omega)
  | cons t a ih =>
    cases b with
    | nil =>
      exfalso
      have := h t.1
      simp only [coeffAt, if_true] at this
      rw [coeffAt_lb a t.1 t.1 ha.2.1 (Int.le_refl _)] at this
      exact ha.1 (by omega)
    | cons u b =>
      have h1 := h t.1
      have h2 := h u.1
      simp only [coeffAt, if_true] at h1 h2
      rcases Int.lt_trichotomy t.1 u.1 with hlt | heq | hgt
      · exfalso
        rw [coeffAt_lb a t.1 t.1 ha.2.1 (Int.le_refl _), if_neg (by omega),
          coeffAt_lb b u.1 t.1 hb.2.1 (by omega)] at h1
        exact ha.1 (by omega)
      · rw [coeffAt_lb a t.1 t.1 ha.2.1 (Int.le_refl _), if_pos heq.symm,
          coeffAt_lb b u.1 t.1 hb.2.1 (by omega)] at h1
        have htu : t = u := Prod.ext heq (by omega)
        subst htu
        rw [ih b ha.2.2 hb.2.2 (fun k => by have := h k; simp only [coeffAt] at this; omega)]
      · exfalso
        rw [coeffAt_lb b u.1 u.1 hb.2.1 (Int.le_refl _), if_neg (by omega),
          coeffAt_lb a t.1 u.1 ha.2.1 (by omega)] at h2
        exact hb.1 (by omega)

theorem T_unit : (T 1 : ℤ[T;T⁻¹]) * T (-1) = 1 := by rw [← T_add]; simp

theorem zpow_T (k : Int) : zpow (T 1 : ℤ[T;T⁻¹]) (T (-1)) k = T k := by
  cases k with
  | ofNat n => show npow _ n = _; rw [npow_eq, T_pow]; simp
  | negSucc n => show npow _ (n + 1) = _; rw [npow_eq, T_pow]; congr 1; rw [Int.negSucc_eq]; push_cast; ring

/-- evaluation in ℤ[T;T⁻¹] at `q = T` reads off the coefficients -/
theorem ev_coeff (a : LP) (k : Int) : (ev (T 1 : ℤ[T;T⁻¹]) (T (-1)) a).coeff k = coeffAt a k := by
  induction a with
  | nil => simp [ev_nil, coeffAt]
  | cons t a ih =>
    rw [ev_cons, AddMonoidAlgebra.coeff_add, Finsupp.add_apply, ih, zpow_T]
    have : ((t.2 : ℤ) : ℤ[T;T⁻¹]) = C t.2 := by simp
    rw [this, ← single_eq_C_mul_T, AddMonoidAlgebra.coeff_single, Finsupp.single_apply]
    rfl

/-- two canonical lists with the same value at EVERY invertible element of every commutative ring
(it suffices: at `T ∈ ℤ[T;T⁻¹]`) are equal -/
theorem canon_eq_of_eval (a b : LP) (ha : Canon a) (hb : Canon b)
    (h : ev (T 1 : ℤ[T;T⁻¹]) (T (-1)) a = ev (T 1 : ℤ[T;T⁻¹]) (T (-1)) b) : a = b :=
  canon_ext a b ha hb (fun k => by rw [← ev_coeff, ← ev_coeff, h])

end Yuiv.C04Inv
