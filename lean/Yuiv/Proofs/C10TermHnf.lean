import Yuiv.Proofs.C10Term
/-
C10 — PARTIAL CORRECTNESS of the Hermite variant `lll_hnf` (`LLLHNFCalc`): whenever the model returns, the result is in
Hermite normal form (`isHnf`).  Definitions and helper lemmas (no property theorem here).

The argument only looks at the rows of `target`; `det`/`lambda` (which in Hermite mode are the Gram–Schmidt data of the
rows of the transform `P`) only influence WHICH row operations are done, not the shape invariant.  Loop invariant
`HInv n T step` on the rows `< step` (orientation BEFORE the final row reversal; `L i` = leading column, `n` for a zero
row):
  ord : `i < k < step` ⟹ `L i = n ∨ L k < L i`      (zero rows first, then strictly decreasing leading columns)
  red : `i < k < step`, `L i < n` ⟹ `|T k (L i)| < |T i (L i)|`
  pos : `i + 1 < step`, `L i < n` ⟹ `0 < T i (L i)`   (row `step-1` is normalised only when it is used as a reducer)
-/
namespace Yuiv.C10
open Yuiv Res Finset

/-! ### leading column -/

/-- leading column of row `i` of `T` (`n` for a zero row); `leadCol n H i = leadF n (ent H) i` -/
def leadF (n : Nat) (T : Nat → Nat → Int) (i : Nat) : Nat := ((List.range n).find? fun j => T i j != 0).getD n

theorem leadCol_eq (n : Nat) (H : Mat) (i : Nat) : leadCol n H i = leadF n (ent H) i := rfl

theorem leadF_spec (n : Nat) (T : Nat → Nat → Int) (i : Nat) :
    leadF n T i ≤ n ∧ (∀ j < leadF n T i, T i j = 0) ∧ (leadF n T i < n → T i (leadF n T i) ≠ 0) := by
  unfold leadF
  cases h : (List.range n).find? fun j => T i j != 0 with
  | none =>
    rw [List.find?_range_eq_none] at h
    refine ⟨le_refl n, ?_, fun hlt => absurd hlt (lt_irrefl n)⟩
    intro j hj
    have := h j hj
    simpa using this
  | some l =>
    rw [List.find?_range_eq_some] at h
    obtain ⟨h1, h2, h3⟩ := h
    have hl : l < n := List.mem_range.mp h2
    refine ⟨le_of_lt hl, ?_, fun _ => ?_⟩
    · intro j hj
      have := h3 j hj
      simpa using this
    · simpa using h1

theorem leadF_unique (n : Nat) (T : Nat → Nat → Int) (i L : Nat) (h1 : L ≤ n) (h2 : ∀ j < L, T i j = 0)
    (h3 : L < n → T i L ≠ 0) : leadF n T i = L := by
  obtain ⟨s1, s2, s3⟩ := leadF_spec n T i
  rcases Nat.lt_trichotomy (leadF n T i) L with h | h | h
  · exact absurd (h2 _ h) (s3 (by omega))
  · exact h
  · exact absurd (s2 _ h) (h3 (by omega))

theorem leadF_congr (n : Nat) (T T' : Nat → Nat → Int) (i i' : Nat) (h : ∀ c < n, T' i' c = T i c) :
    leadF n T' i' = leadF n T i := by
  obtain ⟨s1, s2, s3⟩ := leadF_spec n T i
  refine leadF_unique n T' i' _ s1 (fun j hj => by rw [h j (by omega)]; exact s2 j hj) (fun hl => ?_)
  rw [h _ hl]; exact s3 hl

/-- a row that agrees on the columns `≤ L` (with `L` the old leading column `< n`) has the same leading column -/
theorem leadF_congr_le (n : Nat) (T T' : Nat → Nat → Int) (i : Nat)
    (h : ∀ c < n, c ≤ leadF n T i → T' i c = T i c) : leadF n T' i = leadF n T i := by
  obtain ⟨s1, s2, s3⟩ := leadF_spec n T i
  refine leadF_unique n T' i _ s1 (fun j hj => by rw [h j (by omega) (by omega)]; exact s2 j hj) (fun hl => ?_)
  rw [h _ hl (le_refl _)]; exact s3 hl

theorem nzColIn_some {d : Data} {i j : Nat} (h : d.nzColIn i = some j) :
    leadF d.tr.n (ent d.tr.target) i = j ∧ j < d.tr.n := by
  unfold Data.nzColIn at h
  have h' := h
  rw [List.find?_range_eq_some] at h'
  refine ⟨?_, List.mem_range.mp h'.2.1⟩
  unfold leadF
  rw [h]
  rfl

theorem nzColIn_none {d : Data} {i : Nat} (h : d.nzColIn i = none) :
    leadF d.tr.n (ent d.tr.target) i = d.tr.n := by
  unfold Data.nzColIn at h
  unfold leadF
  rw [h]
  rfl

/-! ### the shape invariant -/

structure HInv (n : Nat) (T : Nat → Nat → Int) (s : Nat) : Prop where
  ord : ∀ i k, i < k → k < s → leadF n T i = n ∨ leadF n T k < leadF n T i
  red : ∀ i k, i < k → k < s → leadF n T i < n → |T k (leadF n T i)| < |T i (leadF n T i)|
  pos : ∀ i, i + 1 < s → leadF n T i < n → 0 < T i (leadF n T i)

theorem HInv.of_le_one (n : Nat) (T : Nat → Nat → Int) (s : Nat) (hs : s ≤ 1) : HInv n T s :=
  ⟨fun _ _ _ _ => by omega, fun _ _ _ _ => by omega, fun _ _ => by omega⟩

theorem HInv.mono {n : Nat} {T : Nat → Nat → Int} {s s' : Nat} (h : HInv n T s) (hs : s' ≤ s) : HInv n T s' :=
  ⟨fun i k h1 h2 => h.ord i k h1 (by omega), fun i k h1 h2 => h.red i k h1 (by omega),
    fun i h1 => h.pos i (by omega)⟩

/-- the invariant only looks at the rows `< s`; the last of them may change its sign -/
theorem HInv.flip_last {n : Nat} {T T' : Nat → Nat → Int} {s : Nat} (h : HInv n T s) (u : Int)
    (hu : u = 1 ∨ u = -1) (h1 : ∀ a, a + 1 < s → ∀ c < n, T' a c = T a c)
    (h2 : ∀ a, a + 1 = s → ∀ c < n, T' a c = T a c * u) : HInv n T' s := by
  have hL : ∀ a < s, leadF n T' a = leadF n T a := by
    intro a ha
    by_cases hl : a + 1 = s
    · obtain ⟨s1, s2, s3⟩ := leadF_spec n T a
      refine leadF_unique n T' a _ s1 (fun j hj => ?_) (fun hlt => ?_)
      · rw [h2 a hl j (by omega), s2 j hj, zero_mul]
      · rw [h2 a hl _ hlt]
        rcases hu with rfl | rfl
        · simpa using s3 hlt
        · simpa using s3 hlt
    · exact leadF_congr n T T' a a (h1 a (by omega))
  have habs : ∀ a < s, ∀ c < n, |T' a c| = |T a c| := by
    intro a ha c hc
    by_cases hl : a + 1 = s
    · rw [h2 a hl c hc]
      rcases hu with rfl | rfl
      · rw [mul_one]
      · rw [mul_neg, mul_one, abs_neg]
    · rw [h1 a (by omega) c hc]
  constructor
  · intro i k hik hk
    rw [hL i (by omega), hL k hk]
    exact h.ord i k hik hk
  · intro i k hik hk hl
    rw [hL i (by omega)] at hl ⊢
    rw [habs k hk _ hl, habs i (by omega) _ hl]
    exact h.red i k hik hk hl
  · intro i hi hl
    rw [hL i (by omega)] at hl ⊢
    rw [h1 i hi _ hl]
    exact h.pos i hi hl

theorem HInv.congr {n : Nat} {T T' : Nat → Nat → Int} {s : Nat} (h : HInv n T s)
    (h1 : ∀ a < s, ∀ c < n, T' a c = T a c) : HInv n T' s :=
  h.flip_last 1 (Or.inl rfl) (fun a ha c hc => h1 a (by omega) c hc)
    (fun a ha c hc => by rw [h1 a (by omega) c hc, mul_one])

/-! ### what the primitives do to `target` (inversion of `… = ok d'`) -/

/-- `m`, `n`, `step` are kept and `target` (on the index range) is transformed by `f` -/
def TgtStep (d d' : Data) (f : (Nat → Nat → Int) → Nat → Nat → Int) : Prop :=
  d'.tr.m = d.tr.m ∧ d'.tr.n = d.tr.n ∧ d'.step = d.step ∧
    ∀ a < d.tr.m, ∀ c < d.tr.n, ent d'.tr.target a c = f (ent d.tr.target) a c

theorem Data.addRowTo_tgt (d d' : Data) (i k : Nat) (r : Int) (h : d.addRowTo i k r = ok d') :
    i < k ∧ k < d.tr.m ∧ TgtStep d d' (fun T a c => if a = k then T a c + T i c * r else T a c) := by
  unfold Data.addRowTo at h
  simp only [bind_eq_ok] at h
  obtain ⟨tr, h1, di, h2, h⟩ := h
  simp only [pure_eq, Res.ok.injEq] at h
  subst h
  unfold Tr.addRowTo at h1
  rw [assert_bind] at h1
  obtain ⟨hik, h1⟩ := h1
  rw [assert_bind] at h1
  obtain ⟨hk, h1⟩ := h1
  simp only [decide_eq_true_eq] at hik hk
  simp only [pure_eq, Res.ok.injEq] at h1
  subst h1
  refine ⟨hik, hk, rfl, rfl, rfl, ?_⟩
  intro a ha c hc
  show ent (mAddRowTo d.tr.m d.tr.n d.tr.target i k r) a c = _
  rw [mAddRowTo, ent_mkMat _ ha hc]

theorem Data.mulRow_tgt (d d' : Data) (i : Nat) (u : Int) (h : d.mulRow i u = ok d') :
    (u = 1 ∨ u = -1) ∧ i < d.tr.m ∧ TgtStep d d' (fun T a c => if a = i then T a c * u else T a c) := by
  unfold Data.mulRow at h
  simp only [bind_eq_ok] at h
  obtain ⟨tr, h1, h⟩ := h
  simp only [pure_eq, Res.ok.injEq] at h
  subst h
  unfold Tr.mulRow at h1
  rw [assert_bind] at h1
  obtain ⟨hu, h1⟩ := h1
  rw [assert_bind] at h1
  obtain ⟨hi, h1⟩ := h1
  simp only [decide_eq_true_eq] at hi
  simp only [pure_eq, Res.ok.injEq] at h1
  subst h1
  refine ⟨?_, hi, rfl, rfl, rfl, ?_⟩
  · unfold isUnitZ at hu
    simp only [Bool.or_eq_true, beq_iff_eq] at hu
    rcases hu with h | h
    · exact Or.inl h
    · exact Or.inr (by omega)
  · intro a ha c hc
    show ent (mMulRow d.tr.m d.tr.n d.tr.target i u) a c = _
    rw [mMulRow, ent_mkMat _ ha hc]

theorem Data.swap_tgt (d d' : Data) (k : Nat) (h : d.swap k = ok d') :
    0 < k ∧ k < d.tr.m ∧
      TgtStep d d' (fun T a c => T (if a = k - 1 then k else if a = k then k - 1 else a) c) := by
  unfold Data.swap at h
  simp only [bind_eq_ok] at h
  obtain ⟨_, hk, tr, h1, d0, hd0, d1, hd1, d2, hd2, _, hne, h⟩ := h
  have hk0 := Data.swap_assert_ok hk
  simp only [decide_eq_true_eq] at hk0
  unfold Tr.swapRows at h1
  rw [assert_bind] at h1
  obtain ⟨hc, h1⟩ := h1
  simp only [Bool.and_eq_true, decide_eq_true_eq] at hc
  simp only [pure_eq, Res.ok.injEq] at h1 h
  subst h1
  subst h
  refine ⟨hk0, hc.2, rfl, rfl, rfl, ?_⟩
  intro a ha c hc'
  show ent (mSwapRows d.tr.m d.tr.n d.tr.target (k - 1) k) a c = _
  rw [mSwapRows, ent_mkMat _ ha hc']

theorem Data.reduce_tgt (d d' : Data) (i k : Nat) (h : d.reduce i k = ok d') :
    i < k ∧ k < d.tr.m ∧ ∃ r : Int, TgtStep d d' (fun T a c => if a = k then T a c + T i c * r else T a c) := by
  unfold Data.reduce at h
  rw [assert_bind] at h
  obtain ⟨hik, h⟩ := h
  rw [assert_bind] at h
  obtain ⟨hk, h⟩ := h
  simp only [decide_eq_true_eq] at hik hk
  simp only [bind_eq_ok] at h
  obtain ⟨di, _, q, _, h⟩ := h
  refine ⟨hik, hk, ?_⟩
  split at h
  · exact ⟨-q, (Data.addRowTo_tgt d d' i k (-q) h).2.2⟩
  · simp only [pure_eq, Res.ok.injEq] at h
    subst h
    refine ⟨0, rfl, rfl, rfl, fun a _ c _ => ?_⟩
    show _ = if a = k then _ else _
    split <;> simp

theorem TgtStep.refl (d : Data) : TgtStep d d (fun T a c => T a c) := ⟨rfl, rfl, rfl, fun _ _ _ _ => rfl⟩

theorem TgtStep.trans {d d1 d2 : Data} {f g h : (Nat → Nat → Int) → Nat → Nat → Int}
    (h1 : TgtStep d d1 f) (h2 : TgtStep d1 d2 g)
    (hgh : ∀ T1 : Nat → Nat → Int, (∀ a < d.tr.m, ∀ c < d.tr.n, T1 a c = f (ent d.tr.target) a c) →
      ∀ a < d.tr.m, ∀ c < d.tr.n, g T1 a c = h (ent d.tr.target) a c) : TgtStep d d2 h := by
  obtain ⟨m1, n1, s1, t1⟩ := h1
  obtain ⟨m2, n2, s2, t2⟩ := h2
  refine ⟨m2.trans m1, n2.trans n1, s2.trans s1, ?_⟩
  intro a ha c hc
  rw [t2 a (by omega) c (by omega)]
  exact hgh _ t1 a ha c hc

theorem TgtStep.congr {d d' : Data} {f g : (Nat → Nat → Int) → Nat → Nat → Int} (h : TgtStep d d' f)
    (hfg : ∀ a < d.tr.m, ∀ c < d.tr.n, f (ent d.tr.target) a c = g (ent d.tr.target) a c) : TgtStep d d' g :=
  ⟨h.1, h.2.1, h.2.2.1, fun a ha c hc => by rw [h.2.2.2 a ha c hc, hfg a ha c hc]⟩

/-- `if let Some(j) = nz_col_in(i) { let u = target[(i,j)].normalizing_unit(); if !u.is_one() { mul_row(i, u) } }` -/
theorem normalize_tgt (d d' : Data) (i j : Nat) (hj : d.nzColIn i = some j)
    (h : d.mulRowIf i (if ent d.tr.target i j < 0 then -1 else 1) = ok d') :
    ∃ u : Int, (u = 1 ∨ u = -1) ∧ 0 < ent d.tr.target i j * u ∧
      TgtStep d d' (fun T a c => if a = i then T a c * u else T a c) := by
  obtain ⟨hL, hjn⟩ := nzColIn_some hj
  have hne : ent d.tr.target i j ≠ 0 := by
    have := (leadF_spec d.tr.n (ent d.tr.target) i).2.2
    rw [hL] at this
    exact this hjn
  unfold Data.mulRowIf at h
  by_cases hneg : ent d.tr.target i j < 0
  · rw [if_pos hneg] at h
    rw [if_pos (by decide)] at h
    obtain ⟨_, _, ht⟩ := Data.mulRow_tgt d d' i (-1) h
    exact ⟨-1, Or.inr rfl, by omega, ht⟩
  · rw [if_neg hneg] at h
    rw [if_neg (by decide)] at h
    simp only [pure_eq, Res.ok.injEq] at h
    subst h
    refine ⟨1, Or.inl rfl, by omega, rfl, rfl, rfl, fun a _ c _ => ?_⟩
    show _ = if a = i then _ else _
    split <;> simp

theorem Data.mulRow_det (d d' : Data) (i : Nat) (u : Int) (h : d.mulRow i u = ok d') : d'.det = d.det := by
  unfold Data.mulRow at h
  simp only [bind_eq_ok] at h
  obtain ⟨tr, _, h⟩ := h
  simp only [pure_eq, Res.ok.injEq] at h
  subst h
  rfl

theorem Data.mulRowIf_det (d d' : Data) (i : Nat) (u : Int) (h : d.mulRowIf i u = ok d') : d'.det = d.det := by
  unfold Data.mulRowIf at h
  split at h
  · exact Data.mulRow_det d d' i u h
  · simp only [pure_eq, Res.ok.injEq] at h
    subst h; rfl

theorem Data.reduce_det (d d' : Data) (i k : Nat) (h : d.reduce i k = ok d') : d'.det = d.det := by
  unfold Data.reduce at h
  simp only [bind_eq_ok] at h
  obtain ⟨_, _, _, _, di, _, q, _, h⟩ := h
  split at h
  · exact (Data.addRowTo_facts d d' i k _ h).2.2.1
  · simp only [pure_eq, Res.ok.injEq] at h
    subst h; rfl

theorem abs_sub_mul_le (a b q : Int) (h : 2 * |a - q * b| ≤ |b|) : |a - q * b| ≤ |a| := by
  by_cases hq : q = 0
  · subst hq; simp
  · have h1 : |q * b| ≤ |a| + |a - q * b| := by
      have := abs_sub a (a - q * b)
      have e : a - (a - q * b) = q * b := by ring
      rw [e] at this
      exact this
    have h2 : |b| ≤ |q * b| := by
      rw [abs_mul]
      have := Int.one_le_abs hq
      nlinarith [abs_nonneg b]
    linarith

/-- `LLLHNFCalc::reduce(i, k)`: row `i` is sign-normalised, row `k += r·row i`; if row `i` is non-zero with leading
column `L`, afterwards its pivot is positive and `|target[k][L]| < pivot` -/
theorem hnfReduce_tgt (d d' : Data) (i k : Nat) (h : hnfReduce d i k = ok d') :
    i < k ∧ k < d.tr.m ∧ ∃ u r : Int, (u = 1 ∨ u = -1) ∧
      TgtStep d d' (fun T a c => if a = i then T i c * u else if a = k then T k c + T i c * u * r else T a c) ∧
      (leadF d.tr.n (ent d.tr.target) i < d.tr.n →
        0 < ent d.tr.target i (leadF d.tr.n (ent d.tr.target) i) * u ∧
        |ent d.tr.target k (leadF d.tr.n (ent d.tr.target) i)
            + ent d.tr.target i (leadF d.tr.n (ent d.tr.target) i) * u * r|
          < |ent d.tr.target i (leadF d.tr.n (ent d.tr.target) i)| ∧
        |ent d.tr.target k (leadF d.tr.n (ent d.tr.target) i)
            + ent d.tr.target i (leadF d.tr.n (ent d.tr.target) i) * u * r|
          ≤ |ent d.tr.target k (leadF d.tr.n (ent d.tr.target) i)|) ∧
      d'.det = d.det := by
  unfold hnfReduce at h
  rw [assert_bind] at h
  obtain ⟨hik, h⟩ := h
  rw [assert_bind] at h
  obtain ⟨hk, h⟩ := h
  simp only [decide_eq_true_eq] at hik hk
  refine ⟨hik, hk, ?_⟩
  have him : i < d.tr.m := by omega
  split at h
  · rename_i j hj
    obtain ⟨hL, hjn⟩ := nzColIn_some hj
    simp only [bind_eq_ok] at h
    obtain ⟨d1, h1, q, h2, h3⟩ := h
    obtain ⟨u, hu, hpos, ht1⟩ := normalize_tgt d d1 i j hj h1
    obtain ⟨_, hq⟩ := divRound_spec' _ _ _ h2
    have e0 : ent d1.tr.target i j = ent d.tr.target i j * u := by
      rw [ht1.2.2.2 i him j hjn]; simp
    have e1 : ent d1.tr.target k j = ent d.tr.target k j := by
      rw [ht1.2.2.2 k hk j hjn]
      show (if k = i then _ else _) = _
      rw [if_neg (by omega)]
    rw [e0, e1] at hq
    have hq' : 2 * |ent d.tr.target k j - q * (ent d.tr.target i j * u)| ≤ |ent d.tr.target i j * u| := by
      rw [Int.abs_eq_natAbs, Int.abs_eq_natAbs]; exact_mod_cast hq
    have habs : |ent d.tr.target i j * u| = |ent d.tr.target i j| := by
      rcases hu with rfl | rfl
      · rw [mul_one]
      · rw [mul_neg, mul_one, abs_neg]
    have hdet1 := Data.mulRowIf_det d d1 i _ h1
    refine ⟨u, -q, hu, ?_, ?_, ?_⟩
    · by_cases hq0 : q = 0
      · rw [if_neg (by simpa using hq0)] at h3
        simp only [pure_eq, Res.ok.injEq] at h3
        subst h3
        refine ht1.congr (fun a _ c _ => ?_)
        show (if a = i then _ else _) = if a = i then _ else if a = k then _ else _
        by_cases hai : a = i
        · rw [if_pos hai, if_pos hai, hai]
        · rw [if_neg hai, if_neg hai, hq0]
          split
          · rename_i hak; rw [hak]; simp
          · rfl
      · rw [if_pos hq0] at h3
        obtain ⟨_, _, ht2⟩ := Data.addRowTo_tgt d1 d' i k (-q) h3
        refine ht1.trans ht2 (fun T1 hT1 a ha c hc => ?_)
        show (if a = k then T1 a c + T1 i c * -q else T1 a c) = if a = i then _ else if a = k then _ else _
        rw [hT1 a ha c hc, hT1 i him c hc]
        show (if a = k then (if a = i then _ else _) + (if i = i then _ else _) * -q else (if a = i then _ else _)) = _
        rw [if_pos rfl]
        by_cases hai : a = i
        · rw [if_pos hai, if_neg (by omega : ¬ a = k), if_pos hai, hai]
        · rw [if_neg hai, if_neg hai]
          by_cases hak : a = k
          · rw [if_pos hak, if_pos hak, hak]
          · rw [if_neg hak, if_neg hak]
    · intro _
      rw [hL]
      have : ent d.tr.target k j + ent d.tr.target i j * u * -q
          = ent d.tr.target k j - q * (ent d.tr.target i j * u) := by ring
      rw [this]
      refine ⟨hpos, ?_, abs_sub_mul_le _ _ _ hq'⟩
      have hne : ent d.tr.target i j ≠ 0 := by
        intro e; rw [e] at hpos; simp at hpos
      have := abs_pos.mpr hne
      omega
    · split at h3
      · rw [(Data.addRowTo_facts d1 d' i k _ h3).2.2.1, hdet1]
      · simp only [pure_eq, Res.ok.injEq] at h3
        subst h3; exact hdet1
  · rename_i hnone
    have hL := nzColIn_none hnone
    obtain ⟨_, _, r, ht⟩ := Data.reduce_tgt d d' i k h
    refine ⟨1, r, Or.inl rfl, ?_, fun hlt => absurd hlt (by omega), Data.reduce_det d d' i k h⟩
    refine ht.congr (fun a _ c _ => ?_)
    show (if a = k then _ else _) = if a = i then _ else if a = k then _ else _
    by_cases hai : a = i
    · rw [if_neg (by omega : ¬ a = k), if_pos hai, hai, mul_one]
    · rw [if_neg hai, mul_one]
      split
      · rename_i hak; rw [hak]
      · rfl

/-- `LLLHNFCalc::is_ok(k)` accepted ⟹ row `k-1` is zero or row `k` leads strictly left of row `k-1` -/
theorem hnfIsOk_true (d : Data) (k : Nat) (h : hnfIsOk d k = ok true) :
    0 < k ∧ (leadF d.tr.n (ent d.tr.target) (k - 1) = d.tr.n ∨
      leadF d.tr.n (ent d.tr.target) k < leadF d.tr.n (ent d.tr.target) (k - 1)) := by
  unfold hnfIsOk at h
  rw [assert_bind] at h
  obtain ⟨hk, h⟩ := h
  simp only [decide_eq_true_eq] at hk
  refine ⟨hk, ?_⟩
  split at h
  · rename_i j l hj hl
    simp only [pure_eq, Res.ok.injEq, decide_eq_true_eq] at h
    rw [(nzColIn_some hj).1, (nzColIn_some hl).1]
    exact Or.inr h
  · simp only [pure_eq, Res.ok.injEq] at h
    cases h
  · rename_i hnone _
    exact Or.inl (nzColIn_none hnone)
  · rename_i hnone _
    exact Or.inl (nzColIn_none hnone)

/-! ### reducing the new row `k` by the rows `k-1, …, 0` -/

/-- state of the inner loop `for i in (0..k-1).rev() { reduce(i, k) }` when the rows `i ≥ cnt` have been used -/
structure HRow (n : Nat) (T : Nat → Nat → Int) (k cnt : Nat) : Prop where
  inv : HInv n T k
  posAll : ∀ i < k, leadF n T i < n → 0 < T i (leadF n T i)
  ordk : ∀ i < k, leadF n T i = n ∨ leadF n T k < leadF n T i
  redk : ∀ i, cnt ≤ i → i < k → leadF n T i < n → |T k (leadF n T i)| < |T i (leadF n T i)|

theorem HRow.step {n : Nat} {T T' : Nat → Nat → Int} {k cnt : Nat} (h : HRow n T k (cnt + 1)) (hc : cnt < k)
    (u r : Int) (hu : u = 1 ∨ u = -1)
    (hT : ∀ a ≤ k, ∀ c < n, T' a c
      = if a = cnt then T cnt c * u else if a = k then T k c + T cnt c * u * r else T a c)
    (hb : leadF n T cnt < n → 0 < T cnt (leadF n T cnt) * u ∧
      |T k (leadF n T cnt) + T cnt (leadF n T cnt) * u * r| < |T cnt (leadF n T cnt)|) :
    HRow n T' k cnt := by
  obtain ⟨s1, s2, s3⟩ := leadF_spec n T cnt
  -- the reducer row is already normalised (or zero): it does not change
  have hrow : ∀ c < n, T cnt c * u = T cnt c := by
    intro c hc'
    rcases Nat.lt_or_ge (leadF n T cnt) n with hl | hl
    · have p1 := h.posAll cnt hc hl
      have p2 := (hb hl).1
      rcases hu with rfl | rfl
      · rw [mul_one]
      · exfalso; linarith
    · rw [s2 c (by omega), zero_mul]
  have hsame : ∀ a < k, ∀ c < n, T' a c = T a c := by
    intro a ha c hc'
    rw [hT a (by omega) c hc']
    by_cases hac : a = cnt
    · rw [if_pos hac, hrow c hc', hac]
    · rw [if_neg hac, if_neg (by omega)]
  have hk : ∀ c < n, T' k c = T k c + T cnt c * (u * r) := by
    intro c hc'
    rw [hT k (le_refl k) c hc', if_neg (by omega), if_pos rfl, mul_assoc]
  have hL : ∀ a < k, leadF n T' a = leadF n T a := fun a ha => leadF_congr n T T' a a (hsame a ha)
  have hLk : leadF n T' k = leadF n T k := by
    apply leadF_congr_le
    intro c hc' hle
    rw [hk c hc']
    rcases h.ordk cnt hc with hz | hlt
    · rw [s2 c (by omega), zero_mul, add_zero]
    · rw [s2 c (by omega), zero_mul, add_zero]
  constructor
  · exact h.inv.congr hsame
  · intro i hi hl
    rw [hL i hi] at hl ⊢
    rw [hsame i hi _ hl]
    exact h.posAll i hi hl
  · intro i hi
    rw [hL i hi, hLk]
    exact h.ordk i hi
  · intro i hci hi hl
    rw [hL i hi] at hl ⊢
    rw [hsame i hi _ hl, hk _ hl]
    rcases Nat.lt_or_ge cnt i with hgt | hle
    · -- the reducer vanishes at the pivot column of a later row
      have hz : T cnt (leadF n T i) = 0 := by
        rcases h.inv.ord cnt i hgt hi with hz | hlt
        · exact s2 _ (by omega)
        · exact s2 _ hlt
      rw [hz, zero_mul, add_zero]
      exact h.redk i (by omega) hi hl
    · have : i = cnt := by omega
      subst this
      rw [← mul_assoc]
      exact (hb hl).2

theorem HRow.finish {n : Nat} {T : Nat → Nat → Int} {k : Nat} (h : HRow n T k 0) : HInv n T (k + 1) := by
  constructor
  · intro i k' hik hk'
    rcases Nat.lt_or_ge k' k with hlt | hge
    · exact h.inv.ord i k' hik hlt
    · have : k' = k := by omega
      subst this
      exact h.ordk i hik
  · intro i k' hik hk' hl
    rcases Nat.lt_or_ge k' k with hlt | hge
    · exact h.inv.red i k' hik hlt hl
    · have : k' = k := by omega
      subst this
      exact h.redk i (Nat.zero_le _) hik hl
  · intro i hi hl
    exact h.posAll i (by omega) hl

theorem revLoop_hnf (k : Nat) : ∀ (cnt : Nat) (d d' : Data),
    revLoop (fun d i => hnfReduce d i k) d cnt = ok d' → cnt ≤ k →
    HRow d.tr.n (ent d.tr.target) k cnt →
    d'.tr.m = d.tr.m ∧ d'.tr.n = d.tr.n ∧ d'.step = d.step ∧ HRow d'.tr.n (ent d'.tr.target) k 0 := by
  intro cnt
  induction cnt with
  | zero =>
    intro d d' h _ hR
    simp only [revLoop, pure_eq, Res.ok.injEq] at h
    subst h
    exact ⟨rfl, rfl, rfl, hR⟩
  | succ cnt ih =>
    intro d d' h hc hR
    simp only [revLoop, bind_eq_ok] at h
    obtain ⟨d1, h1, h2⟩ := h
    obtain ⟨_, hkm, u, r, hu, ⟨m1, n1, s1, t1⟩, hb, _⟩ := hnfReduce_tgt d d1 cnt k h1
    have hR1 : HRow d1.tr.n (ent d1.tr.target) k cnt := by
      rw [n1]
      exact hR.step (by omega) u r hu (fun a ha c hc' => t1 a (by omega) c hc')
        (fun hl => ⟨(hb hl).1, (hb hl).2.1⟩)
    obtain ⟨m2, n2, s2, hR2⟩ := ih d1 d' h2 (by omega) hR1
    exact ⟨m2.trans m1, n2.trans n1, s2.trans s1, hR2⟩

/-! ### one iteration, the loop -/

/-- the loop invariant of `LLLHNFCalc::process` -/
structure HState (m n : Nat) (d : Data) : Prop where
  hm : d.tr.m = m
  hn : d.tr.n = n
  step_pos : 1 ≤ d.step
  step_le : d.step ≤ max m 1
  inv : HInv n (ent d.tr.target) d.step

theorem hnfIterate_inv (m n : Nat) (d d' : Data) (h : hnfIterate d = ok d') (hlt : d.step < d.tr.m)
    (hS : HState m n d) : HState m n d' := by
  obtain ⟨hm, hn, hs1, hs2, hI⟩ := hS
  unfold hnfIterate at h
  simp only [bind_eq_ok] at h
  obtain ⟨d1, h1, b, hb, h⟩ := h
  obtain ⟨k, hk⟩ : ∃ k, d.step = k := ⟨_, rfl⟩
  rw [hk] at h1 hb h hI hs1
  have hkm : k < m := by omega
  obtain ⟨_, _, u, r, hu, ⟨m1, n1, s1, t1⟩, hbnd, _⟩ := hnfReduce_tgt d d1 (k - 1) k h1
  rw [hm, hn] at t1
  rw [hn] at hbnd
  rw [hm] at m1
  rw [hn] at n1
  -- rows `< k` after the first `reduce(k-1, k)`: only the sign of row `k-1` may have changed
  have hrow1 : ∀ a, a + 1 < k → ∀ c < n, ent d1.tr.target a c = ent d.tr.target a c := by
    intro a ha c hc
    rw [t1 a (by omega) c hc]
    show (if a = k - 1 then _ else if a = k then _ else _) = _
    rw [if_neg (by omega), if_neg (by omega)]
  have hrowk1 : ∀ a, a + 1 = k → ∀ c < n, ent d1.tr.target a c = ent d.tr.target a c * u := by
    intro a ha c hc
    rw [t1 a (by omega) c hc]
    show (if a = k - 1 then _ else if a = k then _ else _) = _
    have : a = k - 1 := by omega
    rw [if_pos this, this]
  have hI1 : HInv n (ent d1.tr.target) k := hI.flip_last u hu hrow1 hrowk1
  cases b with
  | true =>
    simp only [if_true, bind_eq_ok, pure_eq, Res.ok.injEq] at h
    obtain ⟨d2, h2, h⟩ := h
    subst h
    obtain ⟨_, hrel⟩ := hnfIsOk_true d1 k hb
    rw [n1] at hrel
    -- leading column of row `k-1` is unchanged by the sign
    have hLk1 : leadF n (ent d1.tr.target) (k - 1) = leadF n (ent d.tr.target) (k - 1) := by
      obtain ⟨s1', s2', s3'⟩ := leadF_spec n (ent d.tr.target) (k - 1)
      refine leadF_unique n _ _ _ s1' (fun j hj => ?_) (fun hl => ?_)
      · rw [hrowk1 (k - 1) (by omega) j (by omega), s2' j hj, zero_mul]
      · rw [hrowk1 (k - 1) (by omega) _ hl]
        rcases hu with rfl | rfl
        · simpa using s3' hl
        · simpa using s3' hl
    have hk1pos : leadF n (ent d1.tr.target) (k - 1) < n →
        0 < ent d1.tr.target (k - 1) (leadF n (ent d1.tr.target) (k - 1)) := by
      intro hl
      rw [hLk1] at hl ⊢
      rw [hrowk1 (k - 1) (by omega) _ hl]
      exact (hbnd hl).1
    have hk1red : leadF n (ent d1.tr.target) (k - 1) < n →
        |ent d1.tr.target k (leadF n (ent d1.tr.target) (k - 1))|
          < |ent d1.tr.target (k - 1) (leadF n (ent d1.tr.target) (k - 1))| := by
      intro hl
      rw [hLk1] at hl ⊢
      rw [hrowk1 (k - 1) (by omega) _ hl, t1 k (by omega) _ hl]
      show |if k = k - 1 then _ else if k = k then _ else _| < _
      rw [if_neg (by omega), if_pos rfl]
      have habs : |ent d.tr.target (k - 1) (leadF n (ent d.tr.target) (k - 1)) * u|
          = |ent d.tr.target (k - 1) (leadF n (ent d.tr.target) (k - 1))| := by
        rcases hu with rfl | rfl
        · rw [mul_one]
        · rw [mul_neg, mul_one, abs_neg]
      rw [habs]
      exact (hbnd hl).2.1
    have hR1 : HRow d1.tr.n (ent d1.tr.target) k (k - 1) := by
      rw [n1]
      constructor
      · exact hI1
      · intro i hi hl
        rcases Nat.lt_or_ge (i + 1) k with hlt' | hge
        · exact hI1.pos i hlt' hl
        · have : i = k - 1 := by omega
          subst this
          exact hk1pos hl
      · intro i hi
        rcases Nat.lt_or_ge (i + 1) k with hlt' | hge
        · rcases hI1.ord i (k - 1) (by omega) (by omega) with hz | hlt2
          · exact Or.inl hz
          · have hle := (leadF_spec n (ent d1.tr.target) i).1
            rcases hrel with hz | hlt3
            · omega
            · exact Or.inr (by omega)
        · have : i = k - 1 := by omega
          subst this
          exact hrel
      · intro i hci hi hl
        have : i = k - 1 := by omega
        subst this
        exact hk1red hl
    obtain ⟨m2, n2, s2, hR2⟩ := revLoop_hnf k (k - 1) d1 d2 h2 (by omega) hR1
    refine ⟨m2.trans m1, n2.trans n1, ?_, ?_, ?_⟩
    · show 1 ≤ d2.step + 1; omega
    · show d2.step + 1 ≤ max m 1
      rw [s2, s1, hk]; omega
    · show HInv n (ent d2.tr.target) (d2.step + 1)
      rw [s2, s1, hk, ← n1, ← n2]
      exact hR2.finish
  | false =>
    simp only [Bool.false_eq_true, if_false, bind_eq_ok, pure_eq, Res.ok.injEq] at h
    obtain ⟨d2, h2, h⟩ := h
    subst h
    obtain ⟨_, _, m2, n2, s2, t2⟩ := Data.swap_tgt d1 d2 k h2
    rw [m1, n1] at t2
    rw [m1] at m2
    rw [n1] at n2
    have hstep : d2.back.step = if k > 1 then k - 1 else k := by rw [Data.back_step, s2, s1, hk]
    refine ⟨by rw [Data.back_tr]; exact m2, by rw [Data.back_tr]; exact n2, ?_, ?_, ?_⟩
    · rw [hstep]; split <;> omega
    · rw [hstep]; split <;> omega
    · rw [hstep, Data.back_tr]
      by_cases hk1 : k > 1
      · rw [if_pos hk1]
        refine (hI.mono (by omega : k - 1 ≤ k)).congr ?_
        intro a ha c hc
        rw [t2 a (by omega) c hc]
        show ent d1.tr.target (if a = k - 1 then k else if a = k then k - 1 else a) c = _
        rw [if_neg (by omega), if_neg (by omega)]
        exact hrow1 a (by omega) c hc
      · rw [if_neg hk1]
        exact HInv.of_le_one _ _ _ (by omega)

theorem loopWhile_hnf_inv (m n : Nat) : ∀ (fuel : Nat) (d d' : Data), loopWhile hnfIterate fuel d = ok d' →
    HState m n d → HState m n d' ∧ ¬ d'.step < d'.tr.m := by
  intro fuel
  induction fuel with
  | zero =>
    intro d d' h hS
    simp only [loopWhile] at h
    split at h
    · cases h
    · rename_i hlt
      simp only [pure_eq, Res.ok.injEq] at h; subst h; exact ⟨hS, hlt⟩
  | succ f ih =>
    intro d d' h hS
    simp only [loopWhile] at h
    split at h
    · rename_i hlt
      simp only [bind_eq_ok] at h
      obtain ⟨d1, h1, h2⟩ := h
      exact ih d1 d' h2 (hnfIterate_inv m n d d1 h1 hlt hS)
    · rename_i hlt
      simp only [pure_eq, Res.ok.injEq] at h; subst h; exact ⟨hS, hlt⟩

/-! ### the tail of `process` and the row reversal of `result` -/

theorem hnfNormalizeLast_inv (m n : Nat) (d d' : Data) (h : hnfNormalizeLast d = ok d') (hm : d.tr.m = m)
    (hn : d.tr.n = n) (hI : HInv n (ent d.tr.target) m) :
    d'.tr.m = m ∧ d'.tr.n = n ∧ HInv n (ent d'.tr.target) m ∧
      ∀ i < m, leadF n (ent d'.tr.target) i < n → 0 < ent d'.tr.target i (leadF n (ent d'.tr.target) i) := by
  unfold hnfNormalizeLast at h
  by_cases hm0 : 0 < d.tr.m
  · rw [if_pos hm0] at h
    simp only at h
    split at h
    · rename_i j hj
      obtain ⟨u, hu, hpos, m1, n1, _, t1⟩ := normalize_tgt d d' (d.tr.m - 1) j hj h
      obtain ⟨hL, hjn⟩ := nzColIn_some hj
      rw [hm, hn] at t1 hL
      rw [hm] at hpos m1
      rw [hn] at n1
      have hrow1 : ∀ a, a + 1 < m → ∀ c < n, ent d'.tr.target a c = ent d.tr.target a c := by
        intro a ha c hc
        rw [t1 a (by omega) c hc]
        show (if a = m - 1 then _ else _) = _
        rw [if_neg (by omega)]
      have hrow2 : ∀ a, a + 1 = m → ∀ c < n, ent d'.tr.target a c = ent d.tr.target a c * u := by
        intro a ha c hc
        rw [t1 a (by omega) c hc]
        show (if a = m - 1 then _ else _) = _
        rw [if_pos (by omega)]
      have hI' := hI.flip_last u hu hrow1 hrow2
      refine ⟨m1, n1, hI', ?_⟩
      intro i hi hl
      rcases Nat.lt_or_ge (i + 1) m with hlt | hge
      · exact hI'.pos i hlt hl
      · have hi' : i = m - 1 := by omega
        have hL' : leadF n (ent d'.tr.target) i = j := by
          obtain ⟨s1', s2', s3'⟩ := leadF_spec n (ent d.tr.target) (m - 1)
          rw [hL] at s2' s3'
          refine leadF_unique n _ _ _ (by omega) (fun c hc => ?_) (fun hl' => ?_)
          · rw [hrow2 i (by omega) c (by omega), hi', s2' c hc, zero_mul]
          · rw [hrow2 i (by omega) j (by omega), hi']
            exact ne_of_gt hpos
        rw [hL', hrow2 i (by omega) j (by omega), hi']
        exact hpos
    · rename_i hnone
      simp only [pure_eq, Res.ok.injEq] at h
      subst h
      have hL := nzColIn_none hnone
      rw [hm, hn] at hL
      refine ⟨hm, hn, hI, ?_⟩
      intro i hi hl
      rcases Nat.lt_or_ge (i + 1) m with hlt | hge
      · exact hI.pos i hlt hl
      · have hi' : i = m - 1 := by omega
        rw [hi', hL] at hl
        omega
  · rw [if_neg hm0] at h
    simp only [pure_eq, Res.ok.injEq] at h
    subst h
    exact ⟨hm, hn, hI, fun i hi => by omega⟩

/-- `reverseRows t cnt i` exchanges the rows `i+x ↔ m-1-(i+x)`, `x < cnt` -/
theorem reverseRows_tgt : ∀ (cnt i : Nat) (t t' : Tr), reverseRows t cnt i = ok t' → i + cnt ≤ t.m / 2 →
    t'.m = t.m ∧ t'.n = t.n ∧ ∀ r < t.m, ∀ c < t.n, ent t'.target r c =
      if (i ≤ r ∧ r < i + cnt) ∨ (i ≤ t.m - 1 - r ∧ t.m - 1 - r < i + cnt) then ent t.target (t.m - 1 - r) c
      else ent t.target r c := by
  intro cnt
  induction cnt with
  | zero =>
    intro i t t' h _
    simp only [reverseRows, pure_eq, Res.ok.injEq] at h
    subst h
    refine ⟨rfl, rfl, fun r _ c _ => ?_⟩
    rw [if_neg (by omega)]
  | succ cnt ih =>
    intro i t t' h hle
    simp only [reverseRows] at h
    rw [if_neg (by omega)] at h
    simp only [bind_eq_ok] at h
    obtain ⟨t1, h1, h2⟩ := h
    unfold Tr.swapRows at h1
    rw [assert_bind] at h1
    obtain ⟨_, h1⟩ := h1
    simp only [pure_eq, Res.ok.injEq] at h1
    subst h1
    obtain ⟨m2, n2, e2⟩ := ih (i + 1) _ t' h2 (by show i + 1 + cnt ≤ t.m / 2; omega)
    refine ⟨m2, n2, ?_⟩
    intro r hr c hc
    have e2' := e2 r hr c hc
    simp only at e2'
    rw [e2']
    have hsw : ∀ r' < t.m, ent (mSwapRows t.m t.n t.target i (t.m - i - 1)) r' c
        = ent t.target (if r' = i then t.m - i - 1 else if r' = t.m - i - 1 then i else r') c := by
      intro r' hr'
      rw [mSwapRows, ent_mkMat _ hr' hc]
    by_cases hA : (i + 1 ≤ r ∧ r < i + 1 + cnt) ∨ (i + 1 ≤ t.m - 1 - r ∧ t.m - 1 - r < i + 1 + cnt)
    · rw [if_pos hA, hsw _ (by omega)]
      have hB : (i ≤ r ∧ r < i + (cnt + 1)) ∨ (i ≤ t.m - 1 - r ∧ t.m - 1 - r < i + (cnt + 1)) := by omega
      rw [if_pos hB, if_neg (show ¬ t.m - 1 - r = i by omega), if_neg (show ¬ t.m - 1 - r = t.m - i - 1 by omega)]
    · rw [if_neg hA, hsw r hr]
      by_cases hri : r = i
      · have hB : (i ≤ r ∧ r < i + (cnt + 1)) ∨ (i ≤ t.m - 1 - r ∧ t.m - 1 - r < i + (cnt + 1)) := by omega
        rw [if_pos hB, if_pos hri]
        congr 1; omega
      · by_cases hrj : r = t.m - i - 1
        · have hB : (i ≤ r ∧ r < i + (cnt + 1)) ∨ (i ≤ t.m - 1 - r ∧ t.m - 1 - r < i + (cnt + 1)) := by omega
          rw [if_pos hB, if_neg hri, if_pos hrj]
          congr 1; omega
        · have hB : ¬ ((i ≤ r ∧ r < i + (cnt + 1)) ∨ (i ≤ t.m - 1 - r ∧ t.m - 1 - r < i + (cnt + 1))) := by omega
          rw [if_neg hB, if_neg hri, if_neg hrj]

/-- the rows in reversed order satisfy the Hermite shape -/
theorem HInv.isHnf_rev {m n : Nat} {T T' : Nat → Nat → Int} (hI : HInv n T m)
    (hpos : ∀ i < m, leadF n T i < n → 0 < T i (leadF n T i))
    (hrev : ∀ r < m, ∀ c < n, T' r c = T (m - 1 - r) c) : IsHnf m n T' (leadF n T') := by
  have hL : ∀ r < m, leadF n T' r = leadF n T (m - 1 - r) := fun r hr => leadF_congr n T T' _ _ (hrev r hr)
  have hle : ∀ a, leadF n T a ≤ n := fun a => (leadF_spec n T a).1
  constructor
  · intro i _; exact (leadF_spec n T' i).1
  · intro i _ j hj; exact (leadF_spec n T' i).2.1 j hj
  · intro i hi hl
    rw [hL i hi] at hl ⊢
    rw [hrev i hi _ hl]
    exact hpos _ (by omega) hl
  · intro i hi i' hi' hlt hl
    rw [hL i hi] at hl ⊢
    rw [hL i' hi']
    rcases hI.ord (m - 1 - i') (m - 1 - i) (by omega) (by omega) with hz | h1
    · omega
    · exact h1
  · intro i hi i' hi' hlt hl
    rw [hL i hi] at hl
    rw [hL i' hi']
    rcases hI.ord (m - 1 - i') (m - 1 - i) (by omega) (by omega) with hz | h1
    · exact hz
    · have := hle (m - 1 - i'); omega
  · intro i hi i' hi' hlt hl
    rw [hL i hi] at hl ⊢
    rw [hrev i' hi' _ hl]
    rcases hI.ord (m - 1 - i') (m - 1 - i) (by omega) (by omega) with hz | h1
    · exact (leadF_spec n T (m - 1 - i')).2.1 _ (by omega)
    · exact (leadF_spec n T (m - 1 - i')).2.1 _ h1
  · intro i hi i' hlt hl
    rw [hL i hi] at hl ⊢
    rw [hrev i' (by omega) _ hl, hrev i hi _ hl]
    have := hI.red (m - 1 - i) (m - 1 - i') (by omega) (by omega) hl
    exact sq_lt_sq.mpr this

/-- PARTIAL CORRECTNESS of `lll_hnf`: if the model returns, the returned matrix is in Hermite normal form -/
theorem lllHnf_isHnf (fuel m n : Nat) (A : Mat) (t : Tr) (h : lllHnf fuel m n A = ok t) :
    t.m = m ∧ t.n = n ∧ isHnf m n t.target = true := by
  unfold lllHnf at h
  simp only [bind_eq_ok] at h
  obtain ⟨d1, h1, d2, h2, h3⟩ := h
  have hS0 : HState m n (Data.new m n A) :=
    ⟨rfl, rfl, le_refl 1, by show 1 ≤ max m 1; omega, HInv.of_le_one _ _ _ (le_refl 1)⟩
  obtain ⟨⟨hm1, hn1, hs1, hs2, hI1⟩, hex⟩ := loopWhile_hnf_inv m n fuel _ d1 h1 hS0
  rw [hm1] at hex
  have hIm : HInv n (ent d1.tr.target) m := by
    rcases Nat.eq_zero_or_pos m with h0 | h0
    · subst h0; exact HInv.of_le_one _ _ _ (by omega)
    · have : d1.step = m := by omega
      rw [this] at hI1; exact hI1
  obtain ⟨hm2, hn2, hI2, hpos2⟩ := hnfNormalizeLast_inv m n d1 d2 h2 hm1 hn1 hIm
  obtain ⟨hm3, hn3, e3⟩ := reverseRows_tgt (d2.tr.m / 2) 0 d2.tr t h3 (by omega)
  rw [hm2] at hm3 e3
  rw [hn2] at hn3 e3
  refine ⟨hm3, hn3, ?_⟩
  apply isHnf_complete'
  have : leadCol n t.target = leadF n (ent t.target) := rfl
  rw [this]
  refine hI2.isHnf_rev hpos2 ?_
  intro r hr c hc
  rw [e3 r hr c hc]
  split
  · rfl
  · rename_i hA
    congr 1; omega

end Yuiv.C10
