import Yuiv.Props.C06Canon
/-
BFS 2-colouring (`Yuiv.C06Canon.colouring`) of a graph that is a PATH: the colour of a vertex is the parity of
its distance to the start vertex.  Instance of `Yuiv.C06Canon.colouring_spec` (order independence / uniqueness
of the 2-colouring on the reachable part) with the explicit parity colouring, plus reachability of every vertex.
-/
namespace Yuiv.C06Walk
open Yuiv Yuiv.C06Canon

/-- vertices at positions above the start are reachable -/
theorem path_reach_up (adj : Nat → Nat → Bool) (m n i : Nat) (posW : Nat → Nat) (hi : i < m)
    (hnb : ∀ u v, u < m → v < m → posW u + 1 = posW v → adj u v = true ∧ adj v u = true)
    (hinj : ∀ u v, u < m → v < m → posW u = posW v → u = v)
    (hlt : ∀ u, u < m → posW u < n)
    (hsurj : ∀ k, k < n → ∃ u, u < m ∧ posW u = k) :
    ∀ d u, u < m → posW u = posW i + d → Reach adj m i u := by
  intro d
  induction d with
  | zero =>
    intro u hu hp
    have : u = i := hinj u i hu hi (by omega)
    subst this
    exact Reach.start
  | succ d ih =>
    intro u hu hp
    have hun := hlt u hu
    obtain ⟨u', hu', hp'⟩ := hsurj (posW i + d) (by omega)
    have hr := ih u' hu' hp'
    exact Reach.step hr (hnb u' u hu' hu (by omega)).1 hu

/-- vertices at positions below the start are reachable -/
theorem path_reach_down (adj : Nat → Nat → Bool) (m n i : Nat) (posW : Nat → Nat) (hi : i < m)
    (hnb : ∀ u v, u < m → v < m → posW u + 1 = posW v → adj u v = true ∧ adj v u = true)
    (hinj : ∀ u v, u < m → v < m → posW u = posW v → u = v)
    (hlt : ∀ u, u < m → posW u < n)
    (hsurj : ∀ k, k < n → ∃ u, u < m ∧ posW u = k) :
    ∀ d u, u < m → posW u + d = posW i → Reach adj m i u := by
  intro d
  induction d with
  | zero =>
    intro u hu hp
    have : u = i := hinj u i hu hi (by omega)
    subst this
    exact Reach.start
  | succ d ih =>
    intro u hu hp
    have hin := hlt i hi
    obtain ⟨u', hu', hp'⟩ := hsurj (posW u + 1) (by omega)
    have hr := ih u' hu' (by omega)
    exact Reach.step hr (hnb u u' hu hu' (by omega)).2 hu

/-- every vertex of a path is reachable from the start -/
theorem path_reach (adj : Nat → Nat → Bool) (m n i : Nat) (posW : Nat → Nat) (hi : i < m)
    (hnb : ∀ u v, u < m → v < m → posW u + 1 = posW v → adj u v = true ∧ adj v u = true)
    (hinj : ∀ u v, u < m → v < m → posW u = posW v → u = v)
    (hlt : ∀ u, u < m → posW u < n)
    (hsurj : ∀ k, k < n → ∃ u, u < m ∧ posW u = k) :
    ∀ u, u < m → Reach adj m i u := by
  intro u hu
  by_cases h : posW i ≤ posW u
  · exact path_reach_up adj m n i posW hi hnb hinj hlt hsurj (posW u - posW i) u hu (by omega)
  · exact path_reach_down adj m n i posW hi hnb hinj hlt hsurj (posW i - posW u) u hu (by omega)

/-- BFS 2-colouring of a graph that is a PATH: vertices `u < m` carry pairwise different positions `posW u`, the
positions are exactly `0..n-1`, adjacent vertices have neighbouring positions and neighbouring positions are adjacent
(both ways). Then the colour is the parity of the distance to the start vertex. -/
theorem path_colouring (adj : Nat → Nat → Bool) (m n i : Nat) (posW : Nat → Nat) (hi : i < m)
    (hadj : ∀ u v, adj u v = true → u < m ∧ v < m ∧ (posW u = posW v + 1 ∨ posW v = posW u + 1))
    (hnb : ∀ u v, u < m → v < m → posW u + 1 = posW v → adj u v = true ∧ adj v u = true)
    (hinj : ∀ u v, u < m → v < m → posW u = posW v → u = v)
    (hlt : ∀ u, u < m → posW u < n)
    (hsurj : ∀ k, k < n → ∃ u, u < m ∧ posW u = k)
    (col : Nat → Colour) (rem : List Nat) (hres : colouring adj ascending m i = some (col, rem)) :
    ∀ u, u < m → col u = if (posW u + posW i) % 2 = 0 then Colour.a else Colour.b := by
  intro u hu
  have hχ : ∀ u v, adj u v = true →
      (if (posW v + posW i) % 2 = 0 then Colour.a else Colour.b)
        = (if (posW u + posW i) % 2 = 0 then Colour.a else Colour.b).other := by
    intro u v huv
    obtain ⟨_, _, h⟩ := hadj u v huv
    by_cases h1 : (posW u + posW i) % 2 = 0
    · have h2 : ¬ (posW v + posW i) % 2 = 0 := by omega
      simp [h1, h2, Colour.other]
    · have h2 : (posW v + posW i) % 2 = 0 := by omega
      simp [h1, h2, Colour.other]
  have hχi : (if (posW i + posW i) % 2 = 0 then Colour.a else Colour.b) = Colour.a := by
    have : (posW i + posW i) % 2 = 0 := by omega
    simp [this]
  have hspec := colouring_spec adj ascending (fun _ _ => List.Perm.refl _) m i hi
    (fun k => if (posW k + posW i) % 2 = 0 then Colour.a else Colour.b) hχ hχi col rem hres u
  exact hspec.1 hu (path_reach adj m n i posW hi hnb hinj hlt hsurj u hu)

/-- neighbouring positions of a path get different colours -/
theorem path_colouring_ne (adj : Nat → Nat → Bool) (m n i : Nat) (posW : Nat → Nat) (hi : i < m)
    (hadj : ∀ u v, adj u v = true → u < m ∧ v < m ∧ (posW u = posW v + 1 ∨ posW v = posW u + 1))
    (hnb : ∀ u v, u < m → v < m → posW u + 1 = posW v → adj u v = true ∧ adj v u = true)
    (hinj : ∀ u v, u < m → v < m → posW u = posW v → u = v)
    (hlt : ∀ u, u < m → posW u < n)
    (hsurj : ∀ k, k < n → ∃ u, u < m ∧ posW u = k)
    (col : Nat → Colour) (rem : List Nat) (hres : colouring adj ascending m i = some (col, rem)) :
    ∀ u v, u < m → v < m → posW u + 1 = posW v → col u ≠ col v := by
  intro u v hu hv huv
  rw [path_colouring adj m n i posW hi hadj hnb hinj hlt hsurj col rem hres u hu,
    path_colouring adj m n i posW hi hadj hnb hinj hlt hsurj col rem hres v hv]
  by_cases h1 : (posW u + posW i) % 2 = 0
  · have h2 : ¬ (posW v + posW i) % 2 = 0 := by omega
    simp [h1, h2]
  · have h2 : (posW v + posW i) % 2 = 0 := by omega
    simp [h1, h2]

end Yuiv.C06Walk
