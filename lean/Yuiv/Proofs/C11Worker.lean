import Yuiv.Proofs.C11
/-
C11 — the `RowWorker`: primitive specs, the worker invariant `WInv`, and its preservation by
`init`, `traverse` (the BFS on the snapshot) and `update_diff`.
-/
namespace Yuiv.C11
open Yuiv Res Std

/-! ### primitives -/

theorem mark_insert (w : Worker) (j j' : Nat) (v : Mark) (n : Nat) :
    ({ w with marks := w.marks.insert j v, ncand := n } : Worker).mark j' = if j = j' then v else w.mark j' := by
  simp only [Worker.mark, HashMap.getD_insert, beq_iff_eq]

theorem mark_insert' (w : Worker) (j j' : Nat) (v : Mark) :
    ({ w with marks := w.marks.insert j v } : Worker).mark j' = if j = j' then v else w.mark j' := by
  simp only [Worker.mark, HashMap.getD_insert, beq_iff_eq]

theorem mark_new (i k j : Nat) : (Worker.new i k).mark j = Mark.none := by
  simp [Worker.mark, Worker.new]

/-- `ncand` counts the columns marked `Candidate` -/
def CountInv (w : Worker) : Prop :=
  ∃ C : List Nat, C.Nodup ∧ (∀ j, j ∈ C ↔ w.mark j = Mark.cand) ∧ w.ncand = C.length

theorem CountInv.pos {w : Worker} (h : CountInv w) {j : Nat} (hj : w.mark j = Mark.cand) : w.ncand ≠ 0 := by
  obtain ⟨C, _, hm, hl⟩ := h
  have : j ∈ C := (hm j).2 hj
  rw [hl]
  intro h0
  have := List.eq_nil_of_length_eq_zero h0
  subst this
  simp at *

theorem CountInv.none_of_zero {w : Worker} (h : CountInv w) (h0 : w.ncand = 0) (j : Nat) : w.mark j ≠ Mark.cand :=
  fun hj => h.pos hj h0

/-- marks only move towards `Occupied`; nothing else of the worker changes -/
structure Mono (w w' : Worker) : Prop where
  occ : ∀ j, w.mark j = Mark.occ → w'.mark j = Mark.occ
  marked : ∀ j, w.mark j ≠ Mark.none → w'.mark j ≠ Mark.none
  cand : ∀ j, w'.mark j = Mark.cand → w.mark j = Mark.cand
  unmarked : ∀ j, w'.mark j = Mark.none → w.mark j = Mark.none
  row : w'.row = w.row
  k : w'.k = w.k
  chosen : w'.chosen = w.chosen
  ncand0 : w.ncand = 0 → w'.ncand = 0

theorem Mono.refl (w : Worker) : Mono w w :=
  ⟨fun _ h => h, fun _ h => h, fun _ h => h, fun _ h => h, rfl, rfl, rfl, fun h => h⟩

theorem Mono.trans {a b c : Worker} (h1 : Mono a b) (h2 : Mono b c) : Mono a c :=
  ⟨fun j h => h2.occ j (h1.occ j h), fun j h => h2.marked j (h1.marked j h),
   fun j h => h1.cand j (h2.cand j h), fun j h => h1.unmarked j (h2.unmarked j h),
   h2.row.trans h1.row, h2.k.trans h1.k, h2.chosen.trans h1.chosen,
   fun h => h2.ncand0 (h1.ncand0 h)⟩

/-- the effect of `set_occupied(j)` -/
structure OccStep (w w' : Worker) (j : Nat) : Prop where
  mark : ∀ j', w'.mark j' = if j = j' then Mark.occ else w.mark j'
  queue : w'.queue = w.queue
  queued : w'.queued = w.queued
  row : w'.row = w.row
  k : w'.k = w.k
  chosen : w'.chosen = w.chosen
  count : CountInv w'
  ncand0 : w.ncand = 0 → w'.ncand = 0

theorem OccStep.mono {w w' : Worker} {j : Nat} (h : OccStep w w' j) : Mono w w' := by
  refine ⟨?_, ?_, ?_, ?_, h.row, h.k, h.chosen, h.ncand0⟩
  · intro j' hj; rw [h.mark]; split <;> simp [*]
  · intro j' hj; rw [h.mark]; split <;> simp [*]
  · intro j' hj; rw [h.mark] at hj; split at hj <;> simp_all
  · intro j' hj; rw [h.mark] at hj; split at hj <;> simp_all

theorem setOccupied_good (w : Worker) (j : Nat) (hc : CountInv w) :
    Good (w.setOccupied j) (fun w' => OccStep w w' j) := by
  obtain ⟨C, hnd, hm, hl⟩ := hc
  unfold Worker.setOccupied
  by_cases hj : w.mark j = Mark.cand
  · have hjC : j ∈ C := (hm j).2 hj
    have hpos : w.ncand ≠ 0 := by
      rw [hl]; intro h0
      have := List.eq_nil_of_length_eq_zero h0
      subst this; simp at hjC
    simp only [hj, if_true, hpos, if_false]
    refine ⟨fun j' => mark_insert w j j' Mark.occ _, rfl, rfl, rfl, rfl, rfl, ?_, fun h => absurd h hpos⟩
    refine ⟨C.erase j, hnd.erase j, ?_, ?_⟩
    · intro j'
      rw [mark_insert, hnd.mem_erase_iff]
      by_cases hjj : j = j'
      · subst hjj; simp
      · simp only [hjj, if_false]
        rw [hm]
        constructor
        · exact fun h => h.2
        · exact fun h => ⟨fun e => hjj e.symm, h⟩
    · show w.ncand - 1 = _
      rw [List.length_erase_of_mem hjC, hl]
  · simp only [hj, if_false]
    refine ⟨fun j' => mark_insert' w j j' Mark.occ, rfl, rfl, rfl, rfl, rfl, ?_, fun h => h⟩
    refine ⟨C, hnd, ?_, hl⟩
    intro j'
    rw [mark_insert']
    by_cases hjj : j = j'
    · subst hjj
      simp only [if_true]
      constructor
      · intro h; exact absurd ((hm j).1 h) hj
      · intro h; simp at h
    · simp only [hjj, if_false]; exact hm j'

theorem setCandidate_good (w : Worker) (j : Nat) (hc : CountInv w) (hn : w.mark j = Mark.none) :
    Good (w.setCandidate j) (fun w' =>
      (∀ j', w'.mark j' = if j = j' then Mark.cand else w.mark j') ∧ w'.queue = w.queue ∧ w'.queued = w.queued ∧
      w'.row = w.row ∧ w'.k = w.k ∧ w'.chosen = w.chosen ∧ CountInv w') := by
  obtain ⟨C, hnd, hm, hl⟩ := hc
  unfold Worker.setCandidate
  simp only [hn, if_true]
  refine ⟨fun j' => mark_insert w j j' Mark.cand _, rfl, rfl, rfl, rfl, rfl, ?_⟩
  have hjC : j ∉ C := fun h => by have := (hm j).1 h; rw [hn] at this; simp at this
  refine ⟨j :: C, List.nodup_cons.2 ⟨hjC, hnd⟩, ?_, ?_⟩
  · intro j'
    rw [mark_insert, List.mem_cons]
    by_cases hjj : j = j'
    · subst hjj; simp
    · simp only [hjj, if_false]
      rw [← hm]
      constructor
      · rintro (h | h)
        · exact absurd h.symm hjj
        · exact h
      · exact fun h => Or.inr h
  · show w.ncand + 1 = _
    rw [hl]; rfl

/-! ### the worker invariant -/

/-- the pivot row of column `j` (in the snapshot) has been traversed completely -/
def Done (s : Str) (P : Pivs) (w : Worker) (j : Nat) : Prop :=
  ∀ i, rowFor P j = some i → ∀ j2 ∈ colsIn s i, w.mark j2 = Mark.occ

structure WCore (s : Str) (P : Pivs) (w : Worker) : Prop where
  count : CountInv w
  /-- a column still marked `Candidate` is free in the snapshot and a candidate entry of the row -/
  candOk : ∀ j, w.mark j = Mark.cand → hasCol P j = false ∧ isCand s w.row j = true
  /-- every marked pivot column has been queued -/
  q1 : ∀ j, w.mark j ≠ Mark.none → hasCol P j = true → j ∈ w.queued
  q3 : ∀ j ∈ w.queued, hasCol P j = true
  qsub : ∀ j ∈ w.queue, j ∈ w.queued

/-- unless no candidate is left, every queued pivot column is still in the queue or its row is done -/
def Q2 (s : Str) (P : Pivs) (w : Worker) : Prop :=
  w.ncand = 0 ∨ ∀ j ∈ w.queued, j ∈ w.queue ∨ Done s P w j

structure WInv (s : Str) (P : Pivs) (w : Worker) : Prop extends WCore s P w where
  q2 : Q2 s P w

theorem Done.mono {s : Str} {P : Pivs} {w w' : Worker} {j : Nat} (h : Done s P w j) (hm : Mono w w') :
    Done s P w' j := fun i hi j2 hj2 => hm.occ j2 (h i hi j2 hj2)

/-! ### `traverse` -/

theorem enqueue_core {s : Str} {P : Pivs} {w : Worker} {j : Nat} (h : WCore s P w) (hj : hasCol P j = true) :
    WCore s P (w.enqueue j) := by
  refine ⟨h.count, h.candOk, ?_, ?_, ?_⟩
  · intro j' h1 h2; exact List.mem_cons_of_mem _ (h.q1 j' h1 h2)
  · intro j' h1
    rcases List.mem_cons.1 h1 with h1 | h1
    · subst h1; exact hj
    · exact h.q3 j' h1
  · intro j' h1
    rcases List.mem_append.1 h1 with h1 | h1
    · exact List.mem_cons_of_mem _ (h.qsub j' h1)
    · simp at h1; subst h1; exact List.mem_cons_self

/-- `set_occupied(j)` keeps the core invariant, provided `j` has been queued if it is a pivot column -/
theorem occ_core {s : Str} {P : Pivs} {w w' : Worker} {j : Nat} (h : WCore s P w) (ho : OccStep w w' j)
    (hq : hasCol P j = true → j ∈ w.queued) : WCore s P w' := by
  refine ⟨ho.count, ?_, ?_, ?_, ?_⟩
  · intro j' hj'
    have := h.candOk j' (ho.mono.cand j' hj')
    rw [ho.row]; exact this
  · intro j' h1 h2
    rw [ho.queued]
    by_cases hjj : j = j'
    · subst hjj; exact hq h2
    · apply h.q1 j' _ h2
      rw [ho.mark] at h1; simpa [hjj] using h1
  · intro j' h1; rw [ho.queued] at h1; exact h.q3 j' h1
  · intro j' h1; rw [ho.queue] at h1; rw [ho.queued]; exact h.qsub j' h1

/-- the inner loop over the columns `js` of a pivot row -/
theorem rowLoop_good (s : Str) (P : Pivs) (js : List Nat) : ∀ (w : Worker), WCore s P w →
    Good (rowLoop P js w) (fun w' => WCore s P w' ∧ Mono w w' ∧
      (∀ j ∈ w.queue, j ∈ w'.queue) ∧ (∀ j ∈ w'.queued, j ∈ w.queued ∨ j ∈ w'.queue) ∧
      (w'.ncand = 0 ∨ ∀ j2 ∈ js, w'.mark j2 = Mark.occ)) := by
  induction js with
  | nil =>
    intro w h
    exact ⟨h, Mono.refl w, fun _ h => h, fun _ h => Or.inl h, Or.inr (by simp)⟩
  | cons j2 js ih =>
    intro w h
    rw [rowLoop]
    -- the conditional enqueue
    generalize hw1 : (if (hasCol P j2 && !w.isQueued j2) = true then w.enqueue j2 else w) = w1
    have h1 : WCore s P w1 ∧ (∀ j, w1.mark j = w.mark j) ∧ w1.row = w.row ∧ w1.k = w.k ∧ w1.chosen = w.chosen ∧
        w1.ncand = w.ncand ∧ (∀ j ∈ w.queue, j ∈ w1.queue) ∧ (∀ j ∈ w1.queued, j ∈ w.queued ∨ j ∈ w1.queue) ∧
        (hasCol P j2 = true → j2 ∈ w1.queued) := by
      by_cases hc : (hasCol P j2 && !w.isQueued j2) = true
      · rw [if_pos hc] at hw1; subst hw1
        have hc' : hasCol P j2 = true := by simp at hc; exact hc.1
        refine ⟨enqueue_core h hc', fun _ => rfl, rfl, rfl, rfl, rfl, ?_, ?_, fun _ => List.mem_cons_self⟩
        · intro j hj; exact List.mem_append_left _ hj
        · intro j hj
          rcases List.mem_cons.1 hj with hj | hj
          · subst hj; exact Or.inr (List.mem_append_right _ (by simp))
          · exact Or.inl hj
      · rw [if_neg hc] at hw1; subst hw1
        refine ⟨h, fun _ => rfl, rfl, rfl, rfl, rfl, fun _ h => h, fun _ h => Or.inl h, ?_⟩
        intro hp
        simp only [Bool.and_eq_true, hp, true_and, Bool.not_eq_true', Bool.not_eq_false] at hc
        simp only [Worker.isQueued] at hc
        simpa using hc
    obtain ⟨hc1, hmk1, hrow1, hk1, hch1, hn1, hq1, hqd1, hpq1⟩ := h1
    have hm1 : Mono w w1 :=
      ⟨fun j hj => by rw [hmk1]; exact hj, fun j hj => by rw [hmk1]; exact hj, fun j hj => by rw [← hmk1]; exact hj,
       fun j hj => by rw [← hmk1]; exact hj, hrow1, hk1, hch1, fun h0 => by rw [hn1]; exact h0⟩
    apply Good.bind (setOccupied_good w1 j2 hc1.count)
    intro w2 ho
    have hc2 : WCore s P w2 := occ_core hc1 ho hpq1
    have hm2 : Mono w w2 := hm1.trans ho.mono
    have hmark2 : w2.mark j2 = Mark.occ := by rw [ho.mark]; simp
    by_cases hcand : w2.hasCandidate = true
    · simp only [hcand, Bool.not_true]
      refine Good.mono (ih w2 hc2) ?_
      rintro w' ⟨hc', hm', hq', hqd', hocc'⟩
      refine ⟨hc', hm2.trans hm', ?_, ?_, ?_⟩
      · intro j hj; apply hq'; rw [ho.queue]; exact hq1 j hj
      · intro j hj
        rcases hqd' j hj with hj | hj
        · rw [ho.queued] at hj
          rcases hqd1 j hj with hj | hj
          · exact Or.inl hj
          · right; apply hq'; rw [ho.queue]; exact hj
        · exact Or.inr hj
      · rcases hocc' with h0 | hocc'
        · exact Or.inl h0
        · right
          intro j hj
          rcases List.mem_cons.1 hj with hj | hj
          · subst hj; exact hm'.occ _ hmark2
          · exact hocc' j hj
    · have hcand' : w2.hasCandidate = false := by simpa using hcand
      simp only [hcand', Bool.not_false, if_true]
      refine ⟨hc2, hm2, ?_, ?_, Or.inl ?_⟩
      · intro j hj; rw [ho.queue]; exact hq1 j hj
      · intro j hj; rw [ho.queued] at hj; rw [ho.queue]; exact hqd1 j hj
      · simpa [Worker.hasCandidate] using hcand'

theorem travLoop_good (s : Str) (P : Pivs) (fuel : Nat) : ∀ (w : Worker), WInv s P w →
    Good (travLoop s P fuel w) (fun w' => WInv s P w' ∧ Mono w w' ∧ (w'.ncand = 0 ∨ w'.queue = [])) := by
  induction fuel with
  | zero => intro w _; simp [travLoop, Good]
  | succ fuel ih =>
    intro w h
    rw [travLoop]
    cases hq : w.queue with
    | nil => exact ⟨h, Mono.refl w, Or.inr hq⟩
    | cons j q =>
      simp only
      have hjq : j ∈ w.queue := by rw [hq]; exact List.mem_cons_self
      have hcol := h.q3 j (h.qsub j hjq)
      obtain ⟨i2, hi2⟩ := rowFor_of_hasCol hcol
      rw [hi2]
      simp only
      -- the worker after `dequeue`
      have hc0 : WCore s P { w with queue := q } :=
        ⟨h.count, h.candOk, h.q1, h.q3, fun j' hj' => h.qsub j' (by rw [hq]; exact List.mem_cons_of_mem _ hj')⟩
      apply Good.bind (rowLoop_good s P (colsIn s i2) _ hc0)
      rintro w1 ⟨hc1, hm1, hq1, hqd1, hocc1⟩
      have hm1' : Mono w w1 :=
        ⟨hm1.occ, hm1.marked, hm1.cand, hm1.unmarked, hm1.row, hm1.k, hm1.chosen, hm1.ncand0⟩
      have hinv1 : WInv s P w1 := by
        refine ⟨hc1, ?_⟩
        rcases h.q2 with h0 | hall
        · exact Or.inl (hm1.ncand0 h0)
        · rcases hocc1 with h0 | hocc1
          · exact Or.inl h0
          · right
            intro j' hj'
            rcases hqd1 j' hj' with hj' | hj'
            · rcases hall j' hj' with hin | hdone
              · rw [hq] at hin
                rcases List.mem_cons.1 hin with hin | hin
                · subst hin
                  right
                  intro i hi j2 hj2
                  rw [hi2] at hi
                  cases hi
                  exact hocc1 j2 hj2
                · exact Or.inl (hq1 j' hin)
              · exact Or.inr (hdone.mono hm1')
            · exact Or.inl hj'
      refine Good.mono (ih w1 hinv1) ?_
      rintro w' ⟨hinv', hm', hend⟩
      exact ⟨hinv', hm1'.trans hm', hend⟩

theorem traverse_good (s : Str) (P : Pivs) (w : Worker) (h : WInv s P w) :
    Good (traverse s P w) (fun w' => WInv s P w' ∧ Mono w w' ∧ (w'.ncand = 0 ∨ w'.queue = [])) := by
  unfold traverse
  by_cases hc : w.hasCandidate = true
  · simp only [hc, Bool.not_true]
    exact travLoop_good s P _ w h
  · have hc' : w.hasCandidate = false := by simpa using hc
    simp only [hc', Bool.not_false, if_true]
    exact ⟨h, Mono.refl w, Or.inl (by simpa [Worker.hasCandidate] using hc')⟩

/-! ### `choose_candidate` -/

theorem minCol_mem (s : Str) : ∀ (l : List Nat) (j : Nat), minCol s l = some j → j ∈ l := by
  intro l
  induction l with
  | nil => intro j h; simp [minCol] at h
  | cons a l ih =>
    intro j h
    rw [minCol] at h
    cases hm : minCol s l with
    | none => rw [hm] at h; simp at h; subst h; exact List.mem_cons_self
    | some j' =>
      rw [hm] at h
      simp only at h
      split at h
      · simp at h; subst h; exact List.mem_cons_of_mem _ (ih j' hm)
      · simp at h; subst h; exact List.mem_cons_self

theorem minCol_none (s : Str) : ∀ (l : List Nat), minCol s l = none → l = [] := by
  intro l h
  cases l with
  | nil => rfl
  | cons a l =>
    rw [minCol] at h
    cases hm : minCol s l with
    | none => rw [hm] at h; simp at h
    | some j' => rw [hm] at h; simp only at h; split at h <;> simp at h

theorem chooseCandidate_cand {s : Str} {w : Worker} {j : Nat} (h : chooseCandidate s w = some j) :
    w.mark j = Mark.cand := by
  have := minCol_mem s _ j h
  simp only [List.mem_filter, Worker.isCandidate, beq_iff_eq] at this
  exact this.2

/-! ### `init` -/

theorem initLoop_good (s : Str) (P : Pivs) (i : Nat) (js : List Nat) : ∀ (w : Worker), js.Nodup →
    WCore s P w → w.row = i → (∀ j ∈ w.queued, j ∈ w.queue) → (∀ j ∈ js, w.mark j = Mark.none) →
    (∀ j ∈ js, isCand s i j = true ∨ True) →
    Good (initLoop s P i js w) (fun w' => WCore s P w' ∧ (∀ j ∈ w'.queued, j ∈ w'.queue) ∧
      (∀ j, w.mark j ≠ Mark.none → w'.mark j ≠ Mark.none) ∧ (∀ j ∈ js, w'.mark j ≠ Mark.none) ∧
      w'.row = i ∧ w'.k = w.k ∧ w'.chosen = w.chosen) := by
  induction js with
  | nil =>
    intro w _ h hr hq _ _
    exact ⟨h, hq, fun _ h => h, by simp, hr, rfl, rfl⟩
  | cons j js ih =>
    intro w hnd h hr hq hnone hx
    have hnd' := (List.nodup_cons.1 hnd)
    have hjn : w.mark j = Mark.none := hnone j List.mem_cons_self
    rw [initLoop]
    -- common continuation
    have cont : ∀ w2 : Worker, WCore s P w2 → w2.row = i → (∀ j' ∈ w2.queued, j' ∈ w2.queue) →
        (∀ j', w2.mark j' = if j = j' then w2.mark j else w.mark j') → w2.mark j ≠ Mark.none →
        w2.k = w.k → w2.chosen = w.chosen →
        Good (initLoop s P i js w2) (fun w' => WCore s P w' ∧ (∀ j ∈ w'.queued, j ∈ w'.queue) ∧
          (∀ j, w.mark j ≠ Mark.none → w'.mark j ≠ Mark.none) ∧ (∀ j' ∈ j :: js, w'.mark j' ≠ Mark.none) ∧
          w'.row = i ∧ w'.k = w.k ∧ w'.chosen = w.chosen) := by
      intro w2 hc2 hr2 hq2 hmk2 hj2 hk2 hch2
      have hnone2 : ∀ j' ∈ js, w2.mark j' = Mark.none := by
        intro j' hj'
        rw [hmk2]
        have : j ≠ j' := fun e => hnd'.1 (e ▸ hj')
        simp only [this, if_false]
        exact hnone j' (List.mem_cons_of_mem _ hj')
      refine Good.mono (ih w2 hnd'.2 hc2 hr2 hq2 hnone2 (fun _ _ => Or.inr trivial)) ?_
      rintro w' ⟨hc', hq', hmk', hall', hr', hk', hch'⟩
      refine ⟨hc', hq', ?_, ?_, hr', hk'.trans hk2, hch'.trans hch2⟩
      · intro j' hj'
        apply hmk'
        rw [hmk2]
        by_cases e : j = j'
        · subst e; simpa using hj2
        · simpa [e] using hj'
      · intro j' hj'
        rcases List.mem_cons.1 hj' with e | hj'
        · subst e; exact hmk' _ hj2
        · exact hall' j' hj'
    by_cases hp : hasCol P j = true
    · simp only [hp, if_true]
      have hce := enqueue_core (j := j) h hp
      apply Good.bind (setOccupied_good (w.enqueue j) j hce.count)
      intro w2 ho
      have hc2 : WCore s P w2 := occ_core hce ho (fun _ => List.mem_cons_self)
      apply cont w2 hc2 (by rw [ho.row]; exact hr)
      · intro j' hj'
        rw [ho.queued] at hj'; rw [ho.queue]
        rcases List.mem_cons.1 hj' with e | hj'
        · subst e; exact List.mem_append_right _ (by simp)
        · exact List.mem_append_left _ (hq j' hj')
      · intro j'
        rw [ho.mark]
        by_cases e : j = j'
        · subst e; simp [ho.mark]
        · simp only [e, if_false]; rfl
      · rw [ho.mark]; simp
      · rw [ho.k]; rfl
      · rw [ho.chosen]; rfl
    · have hp' : hasCol P j = false := by simpa using hp
      simp only [hp', Bool.false_eq_true, if_false]
      by_cases hcd : isCand s i j = true
      · simp only [hcd, if_true]
        apply Good.bind (setCandidate_good w j h.count hjn)
        rintro w2 ⟨hmk, hqu, hqd, hrow, hk, hch, hcnt⟩
        have hc2 : WCore s P w2 := by
          refine ⟨hcnt, ?_, ?_, ?_, ?_⟩
          · intro j' hj'
            rw [hmk] at hj'
            by_cases e : j = j'
            · subst e; rw [hrow, hr]; exact ⟨hp', hcd⟩
            · simp only [e, if_false] at hj'
              rw [hrow]; exact h.candOk j' hj'
          · intro j' h1 h2
            rw [hqd]
            by_cases e : j = j'
            · subst e; rw [hp'] at h2; simp at h2
            · apply h.q1 j' _ h2
              rw [hmk] at h1; simpa [e] using h1
          · intro j' h1; rw [hqd] at h1; exact h.q3 j' h1
          · intro j' h1; rw [hqu] at h1; rw [hqd]; exact h.qsub j' h1
        apply cont w2 hc2 (by rw [hrow]; exact hr)
        · intro j' hj'; rw [hqd] at hj'; rw [hqu]; exact hq j' hj'
        · intro j'
          rw [hmk]
          by_cases e : j = j'
          · subst e; simp [hmk]
          · simp only [e, if_false]
        · rw [hmk]; simp
        · exact hk
        · exact hch
      · simp only [hcd, Bool.false_eq_true, if_false]
        apply Good.bind (setOccupied_good w j h.count)
        intro w2 ho
        have hc2 : WCore s P w2 := occ_core h ho (fun hh => by rw [hp'] at hh; simp at hh)
        apply cont w2 hc2 (by rw [ho.row]; exact hr)
        · intro j' hj'; rw [ho.queued] at hj'; rw [ho.queue]; exact hq j' hj'
        · intro j'
          rw [ho.mark]
          by_cases e : j = j'
          · subst e; simp [ho.mark]
          · simp only [e, if_false]
        · rw [ho.mark]; simp
        · exact ho.k
        · exact ho.chosen

/-- every column of the worker's row is marked -/
def RowMarked (s : Str) (w : Worker) : Prop := ∀ j ∈ colsIn s w.row, w.mark j ≠ Mark.none

theorem new_core (s : Str) (P : Pivs) (i k : Nat) : WCore s P (Worker.new i k) := by
  refine ⟨⟨[], List.nodup_nil, ?_, rfl⟩, ?_, ?_, ?_, ?_⟩
  · intro j; simp [mark_new]
  · intro j h; rw [mark_new] at h; simp at h
  · intro j h; rw [mark_new] at h; simp at h
  · intro j h; simp [Worker.new] at h
  · intro j h; simp [Worker.new] at h

theorem init_good (s : Str) (hwf : s.WF) (P : Pivs) (i : Nat) :
    Good (Worker.init s P i) (fun w => WInv s P w ∧ RowMarked s w ∧ w.row = i ∧ w.k = P.length ∧ w.chosen = none) := by
  unfold Worker.init
  refine Good.mono (initLoop_good s P i (colsIn s i) (Worker.new i P.length) (hwf.nodup i) (new_core s P i _) rfl
    (by intro j h; simp [Worker.new] at h) (fun j _ => mark_new _ _ _) (fun _ _ => Or.inr trivial)) ?_
  rintro w ⟨hc, hq, _, hall, hr, hk, hch⟩
  refine ⟨⟨hc, Or.inr (fun j hj => Or.inl (hq j hj))⟩, ?_, hr, hk, hch⟩
  intro j hj
  rw [hr] at hj
  exact hall j hj

/-! ### `update_diff` -/

theorem rowFor_snoc_of_hasCol {P : Pivs} {p : Nat × Nat} {j : Nat} (h : hasCol P j = true) :
    rowFor (P ++ [p]) j = rowFor P j := by
  obtain ⟨i, hi⟩ := rowFor_of_hasCol h
  rw [hi]; exact rowFor_append_left hi


theorem Done.snoc {s : Str} {P : Pivs} {w w' : Worker} {p : Nat × Nat} {j : Nat} (h : Done s P w j)
    (hm : Mono w w') (hc : hasCol P j = true) : Done s (P ++ [p]) w' j := by
  intro i hi j2 hj2
  rw [rowFor_snoc_of_hasCol hc] at hi
  exact hm.occ j2 (h i hi j2 hj2)

theorem updateDiff_good (s : Str) (N : List (Nat × Nat)) : ∀ (P : Pivs) (w : Worker), WCore s P w →
    (∀ j ∈ w.queued, j ∈ w.queue ∨ Done s P w j) →
    Good (updateDiff N w) (fun w' => WCore s (P ++ N) w' ∧
      (∀ j ∈ w'.queued, j ∈ w'.queue ∨ Done s (P ++ N) w' j) ∧ Mono w w' ∧
      w.queue.length ≤ w'.queue.length ∧
      (w'.queue.length = w.queue.length → w' = w ∧ ∀ p ∈ N, w.mark p.2 = Mark.none)) := by
  induction N with
  | nil =>
    intro P w h hq
    simp only [updateDiff, List.append_nil]
    exact ⟨h, hq, Mono.refl w, Nat.le_refl _, fun _ => ⟨rfl, by simp⟩⟩
  | cons p N ih =>
    intro P w h hq
    obtain ⟨i', j'⟩ := p
    rw [updateDiff]
    have happ : P ++ (i', j') :: N = (P ++ [(i', j')]) ++ N := by simp
    have hcolmono : ∀ j, hasCol P j = true → hasCol (P ++ [(i', j')]) j = true := by
      intro j hj; rw [hasCol_append, hj]; rfl
    have hcolnew : hasCol (P ++ [(i', j')]) j' = true := by
      rw [hasCol_append]; simp [hasCol_iff]
    have hcolold : ∀ j, j ≠ j' → hasCol (P ++ [(i', j')]) j = true → hasCol P j = true := by
      intro j hne hj
      rw [hasCol_append] at hj
      rw [Bool.or_eq_true] at hj
      rcases hj with hj | hj
      · exact hj
      · rw [hasCol_iff] at hj; simp at hj; exact absurd hj hne
    have hfalse : ∀ j, j ≠ j' → hasCol P j = false → hasCol (P ++ [(i', j')]) j = false := by
      intro j hne hj
      cases hh : hasCol (P ++ [(i', j')]) j with
      | false => rfl
      | true => rw [hcolold j hne hh] at hj; simp at hj
    rw [happ]
    by_cases hmk : (w.isCandidate j' || w.isOccupied j') = true
    · simp only [hmk, if_true]
      apply Good.bind (setOccupied_good (w.enqueue j') j' h.count)
      intro w2 ho
      have hmw : ∀ j, (w.enqueue j').mark j = w.mark j := fun _ => rfl
      have hm2 : Mono w w2 :=
        ⟨ho.mono.occ, ho.mono.marked, ho.mono.cand, ho.mono.unmarked, ho.mono.row, ho.mono.k, ho.mono.chosen,
         ho.mono.ncand0⟩
      have hqd2 : w2.queued = j' :: w.queued := ho.queued
      have hqu2 : w2.queue = w.queue ++ [j'] := ho.queue
      have hmarked : w.mark j' ≠ Mark.none := by
        simp only [Worker.isCandidate, Worker.isOccupied, Bool.or_eq_true, beq_iff_eq] at hmk
        rcases hmk with e | e <;> rw [e] <;> simp
      have hc2 : WCore s (P ++ [(i', j')]) w2 := by
        refine ⟨ho.count, ?_, ?_, ?_, ?_⟩
        · intro j hj
          rw [ho.mark] at hj
          by_cases e : j' = j
          · simp [e] at hj
          · simp only [e, if_false] at hj
            have := h.candOk j hj
            rw [ho.row]
            exact ⟨hfalse j (fun e' => e e'.symm) this.1, this.2⟩
        · intro j h1 h2
          rw [hqd2]
          by_cases e : j = j'
          · subst e; exact List.mem_cons_self
          · apply List.mem_cons_of_mem
            apply h.q1 j _ (hcolold j e h2)
            rw [ho.mark] at h1
            have e' : ¬ j' = j := fun x => e x.symm
            simp only [e', if_false] at h1
            exact h1
        · intro j h1
          rw [hqd2] at h1
          rcases List.mem_cons.1 h1 with e | h1
          · subst e; exact hcolnew
          · exact hcolmono j (h.q3 j h1)
        · intro j h1
          rw [hqu2] at h1; rw [hqd2]
          rcases List.mem_append.1 h1 with h1 | h1
          · exact List.mem_cons_of_mem _ (h.qsub j h1)
          · simp at h1; subst h1; exact List.mem_cons_self
      have hq2 : ∀ j ∈ w2.queued, j ∈ w2.queue ∨ Done s (P ++ [(i', j')]) w2 j := by
        intro j hj
        rw [hqd2] at hj; rw [hqu2]
        rcases List.mem_cons.1 hj with e | hj
        · subst e; exact Or.inl (List.mem_append_right _ (by simp))
        · rcases hq j hj with hin | hd
          · exact Or.inl (List.mem_append_left _ hin)
          · exact Or.inr (hd.snoc hm2 (h.q3 j hj))
      refine Good.mono (ih (P ++ [(i', j')]) w2 hc2 hq2) ?_
      rintro w' ⟨hc', hq', hm', hlen', _⟩
      have hl2 : w2.queue.length = w.queue.length + 1 := by rw [hqu2]; simp
      refine ⟨hc', hq', hm2.trans hm', by omega, ?_⟩
      intro hcontra; omega
    · simp only [hmk, Bool.false_eq_true, if_false]
      have hnone : w.mark j' = Mark.none := by
        simp only [Worker.isCandidate, Worker.isOccupied, Bool.or_eq_true, beq_iff_eq, not_or] at hmk
        cases hh : w.mark j' with
        | none => rfl
        | cand => exact absurd hh hmk.1
        | occ => exact absurd hh hmk.2
      have hne : ∀ j, w.mark j ≠ Mark.none → j ≠ j' := fun j hj e => hj (e ▸ hnone)
      have hc2 : WCore s (P ++ [(i', j')]) w := by
        refine ⟨h.count, ?_, ?_, ?_, h.qsub⟩
        · intro j hj
          have := h.candOk j hj
          exact ⟨hfalse j (hne j (by rw [hj]; simp)) this.1, this.2⟩
        · intro j h1 h2
          exact h.q1 j h1 (hcolold j (hne j h1) h2)
        · intro j h1; exact hcolmono j (h.q3 j h1)
      have hq2 : ∀ j ∈ w.queued, j ∈ w.queue ∨ Done s (P ++ [(i', j')]) w j := by
        intro j hj
        rcases hq j hj with hin | hd
        · exact Or.inl hin
        · exact Or.inr (hd.snoc (Mono.refl w) (h.q3 j hj))
      refine Good.mono (ih (P ++ [(i', j')]) w hc2 hq2) ?_
      rintro w' ⟨hc', hq', hm', hlen', hsame'⟩
      refine ⟨hc', hq', hm', hlen', ?_⟩
      intro hl
      obtain ⟨e, hall⟩ := hsame' hl
      refine ⟨e, ?_⟩
      intro p hp
      rcases List.mem_cons.1 hp with hp | hp
      · subst hp; exact hnone
      · exact hall p hp

end Yuiv.C11
