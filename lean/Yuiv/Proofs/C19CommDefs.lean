import Yuiv.Model.C19Inv
/-
C19Comm — the DECIDABLE per-instance checks used by `Props/C19Comm.lean`.  This file imports core Lean and the models only
(no Mathlib), so a driver can import it and evaluate `icubeWf' (circImg l.invE) ic` and `piInvolB l` on every instance.
-/
namespace Yuiv.C19Comm
open Yuiv Yuiv.KhRef Yuiv.C19 Yuiv.C19Inv

/-- the circles of one state are pairwise different arrays -/
def arrNodupB (cs : Array (Array Nat)) : Bool :=
  allBelow cs.size (fun i => allBelow cs.size (fun j => cs[i]! != cs[j]! || i == j))

/-- insertion into a sorted list -/
def insertSorted (a : Nat) : List Nat → List Nat
  | [] => [a]
  | b :: r => if a ≤ b then a :: b :: r else b :: insertSorted a r

/-- the sorted image of a circle (a sorted array of edge labels) under a map of the labels: the `F` of `icubeWf'` for an
involutive link `l` is `circImg l.invE` -/
def circImg (f : Nat → Nat) (c : Array Nat) : Array Nat := ((c.toList.map f).foldr insertSorted []).toArray

/-- `icubeWf` (τ an involution of the states preserving the weight, mutually inverse circle bijections, base circle to
base circle) and in addition, for every state `s` (with `t = τ s`):
 (1) at most 64 circles (the labellings are handled by `setBit`, which truncates to 64 bits when it clears a bit);
 (2) the circles of `s` are pairwise different;
 (3) CONTENT: the circle `tlab[s][i]` of `t` is `F` of the `i`-th circle of `s`, for the given function `F` on circles
     (for an involutive link: the sorted image of the circle under the label involution) — `icubeWf` only has the
     index bijection, not what the circles are;
 (4) EDGES: for every `0`-bit `k` of `s` there is a `0`-bit `k'` of `t` with `τ(s + e_k) = t + e_k'`. -/
def icubeWf' (F : Array Nat → Array Nat) (ic : ICube) : Bool :=
  let c := ic.cube
  icubeWf ic &&
  allBelow (2 ^ c.n) (fun s =>
    let t := ic.tst[s]!
    let cs := c.circ[s]!
    decide (cs.size ≤ 64) && arrNodupB cs &&
    allBelow cs.size (fun i => (c.circ[t]!)[(ic.tlab[s]!)[i]!]! == F cs[i]!) &&
    allBelow c.n (fun k => s.testBit k ||
      (List.range c.n).any (fun k' => !t.testBit k' && ic.tst[s ||| 1 <<< k]! == t ||| 1 <<< k')))

/-- position (among the unresolved crossings) of the image of the `k`-th unresolved crossing -/
def piOf (l : InvLink) (k : Nat) : Option Nat :=
  (l.invX (realIdx l.link)[k]!).bind (fun j => (realIdx l.link).findIdx? (· == j))

/-- decidable on the link: the positions of the image crossings form an involution of `0..n` -/
def piInvolB (l : InvLink) : Bool :=
  allBelow (realIdx l.link).size (fun k =>
    decide ((piOf l k).getD 0 < (realIdx l.link).size) && (piOf l ((piOf l k).getD 0)).getD 0 == k)

end Yuiv.C19Comm
