import Yuiv.Proofs.C09Shape
import Mathlib.Tactic.Linarith
import Mathlib.Tactic.Ring
import Mathlib.Tactic.LinearCombination
/-
C09 — the full Smith shape of the code model over ℤ (`snf_shape`): the loop invariant of `eliminate_all`
(processed pivots stay isolated), the post-condition of `eliminate_at`, the invariants of `diag_normalize`
(diagonality, non-zero prefix, `(x, y) ↦ (gcd, lcm)`), and the final normalisation by units.
-/
namespace Yuiv.C09
open Yuiv
variable {m n : Nat}

/-! ### ℤ: the operations of `intOps` -/

@[simp] theorem int_add (a b : Int) : intOps.toROps.add a b = a + b := rfl
@[simp] theorem int_mul (a b : Int) : intOps.toROps.mul a b = a * b := rfl
@[simp] theorem int_neg (a : Int) : intOps.toROps.neg a = -a := rfl
@[simp] theorem int_zero : intOps.toROps.zero = 0 := rfl
@[simp] theorem int_one : intOps.toROps.one = 1 := rfl
@[simp] theorem int_quo (a b : Int) : intOps.quo a b = a.tdiv b := rfl
@[simp] theorem int_rem (a b : Int) : intOps.rem a b = a.tmod b := rfl
@[simp] theorem int_isZero (a : Int) : intOps.toROps.isZero a = true ↔ a = 0 := by
  simp [ROps.isZero, intOps]
@[simp] theorem int_isOne (a : Int) : intOps.toROps.isOne a = true ↔ a = 1 := by
  simp [ROps.isOne, intOps]
@[simp] theorem int_isUnit (a : Int) : intOps.isUnit a = true ↔ (a = 1 ∨ a = -1) := by
  simp [intOps]
theorem int_normUnit (a : Int) : intOps.normUnit a = if a < 0 then -1 else 1 := rfl
theorem int_inv (a : Int) : intOps.inv a = if a == 1 || a == -1 then some a else none := rfl
theorem int_dvd (a b : Int) : intOps.dvd a b = true ↔ a ≠ 0 ∧ a ∣ b := by
  simp only [EOps.dvd, Bool.and_eq_true, Bool.not_eq_true', int_isZero, int_rem]
  constructor
  · rintro ⟨h1, h2⟩
    refine ⟨?_, Int.dvd_of_tmod_eq_zero h2⟩
    intro h0; rw [(int_isZero a).2 h0] at h1; cases h1
  · rintro ⟨h1, h2⟩
    refine ⟨?_, Int.tmod_eq_zero_of_dvd h2⟩
    cases h : intOps.toROps.isZero a
    · rfl
    · exact absurd ((int_isZero a).1 h) h1

/-! ### `intGcdx` is an extended gcd -/

theorem intXgcdLoop_spec (x y : Int) : ∀ (fuel : Nat) (r0 r1 s0 s1 t0 t1 : Int),
    r0.natAbs < fuel → r0 = s0 * x + t0 * y → r1 = s1 * x + t1 * y →
    (∀ z : Int, z ∣ r0 → z ∣ r1 → z ∣ x ∧ z ∣ y) →
    let g := intXgcdLoop fuel r0 r1 s0 s1 t0 t1
    g.1 = g.2.1 * x + g.2.2 * y ∧ g.1 ∣ x ∧ g.1 ∣ y := by
  intro fuel
  induction fuel with
  | zero => intro r0 r1 s0 s1 t0 t1 h; omega
  | succ fuel ih =>
    intro r0 r1 s0 s1 t0 t1 hf h0 h1 hd2
    rw [intXgcdLoop]
    split
    · rename_i hz
      subst hz
      exact ⟨h1, hd2 r1 (Int.dvd_zero _) (Int.dvd_refl _)⟩
    · rename_i hz
      have hmod : r1 - r1.tdiv r0 * r0 = r1.tmod r0 := by
        have := Int.tmod_add_mul_tdiv r1 r0
        linarith
      apply ih
      · rw [hmod]
        have h1' : (r1.tmod r0).natAbs < r0.natAbs := by
          rw [Int.natAbs_tmod]
          exact Nat.mod_lt _ (Int.natAbs_pos.2 hz)
        omega
      · rw [h0, h1]; ring
      · exact h0
      · intro z ha hb
        apply hd2 z hb
        have : r1 = (r1 - r1.tdiv r0 * r0) + r1.tdiv r0 * r0 := by ring
        rw [this]
        exact Dvd.dvd.add ha (Dvd.dvd.mul_left hb _)


/-- `intGcdx x y = (g, s, t)`: `g = s·x + t·y`, `g ≥ 0`, `g ∣ x`, `g ∣ y` -/
theorem intGcdx_spec (x y : Int) :
    (intGcdx x y).1 = (intGcdx x y).2.1 * x + (intGcdx x y).2.2 * y ∧ 0 ≤ (intGcdx x y).1 ∧
      (intGcdx x y).1 ∣ x ∧ (intGcdx x y).1 ∣ y := by
  have h := intXgcdLoop_spec x y (y.natAbs + 1) y x 0 1 1 0 (by omega) (by ring) (by ring)
    (fun z h1 h2 => ⟨h2, h1⟩)
  simp only at h
  unfold intGcdx
  generalize intXgcdLoop (y.natAbs + 1) y x 0 1 1 0 = g at h
  obtain ⟨g, s, t⟩ := g
  simp only at h ⊢
  obtain ⟨h1, h2, h3⟩ := h
  split
  · rename_i hg
    exact ⟨h1, hg, h2, h3⟩
  · rename_i hg
    refine ⟨by simp only; rw [h1]; ring, by simp only; omega, ?_, ?_⟩
    · simp only [Int.zero_sub]; exact (Int.neg_dvd).2 h2
    · simp only [Int.zero_sub]; exact (Int.neg_dvd).2 h3

theorem gcdxW_int_eq (x y : Int) : gcdxW intOps x y =
    if intOps.isUnit (intOps.quo x (intGcdx x y).1) = true then ((intGcdx x y).1, intOps.quo x (intGcdx x y).1, intOps.zero)
    else intGcdx x y := rfl

/-- the wrapper over ℤ, for a non-zero pivot `x`: `d > 0`, `d ∣ x`, `d ∣ y`, Bézout, and either the second
coefficient is `0` or `d < |x|` -/
theorem gcdxW_int_spec (x y : Int) (hx : x ≠ 0) :
    0 < (gcdxW intOps x y).1 ∧ (gcdxW intOps x y).1 ∣ x ∧ (gcdxW intOps x y).1 ∣ y ∧
      (gcdxW intOps x y).2.1 * x + (gcdxW intOps x y).2.2 * y = (gcdxW intOps x y).1 ∧
      ((gcdxW intOps x y).2.2 = 0 ∨ (gcdxW intOps x y).1 < |x|) := by
  obtain ⟨h1, h2, h3, h4⟩ := intGcdx_spec x y
  rw [gcdxW_int_eq]
  generalize intGcdx x y = g at h1 h2 h3 h4
  obtain ⟨d, s, t⟩ := g
  simp only at h1 h2 h3 h4 ⊢
  have hd0 : d ≠ 0 := by
    rintro rfl
    exact hx (Int.zero_dvd.1 h3)
  have hdpos : 0 < d := by omega
  obtain ⟨a, ha⟩ := h3
  have hq : x.tdiv d = a := by
    rw [ha, Int.mul_tdiv_cancel_left _ hd0]
  split
  · rename_i hu
    rw [int_isUnit, int_quo, hq] at hu
    refine ⟨hdpos, ⟨a, ha⟩, h4, ?_, Or.inl rfl⟩
    simp only [int_quo, hq, int_zero]
    rcases hu with rfl | rfl <;> rw [ha] <;> ring
  · rename_i hu
    rw [int_isUnit, int_quo, hq] at hu
    refine ⟨hdpos, ⟨a, ha⟩, h4, h1.symm, Or.inr ?_⟩
    have hle : d ≤ |x| := Int.le_of_dvd (abs_pos.2 hx) ((dvd_abs d x).2 ⟨a, ha⟩)
    rcases lt_or_eq_of_le hle with h | h
    · exact h
    · exfalso
      rcases abs_choice x with hxx | hxx
      · rw [hxx] at h
        apply hu; left
        have : d * a = d * 1 := by rw [← ha, ← h]; ring
        exact Int.eq_of_mul_eq_mul_left hd0 this
      · rw [hxx] at h
        apply hu; right
        have : d * a = d * (-1) := by rw [← ha, h]; ring
        exact Int.eq_of_mul_eq_mul_left hd0 this

/-- the data the elimination steps use: `x = a·d`, `y = b·d`, `s·a + t·b = 1` -/
theorem gcdxW_int_data (x y : Int) (hx : x ≠ 0) :
    0 < (gcdxW intOps x y).1 ∧
    x = intOps.quo x (gcdxW intOps x y).1 * (gcdxW intOps x y).1 ∧
    y = intOps.quo y (gcdxW intOps x y).1 * (gcdxW intOps x y).1 ∧
    (gcdxW intOps x y).2.1 * intOps.quo x (gcdxW intOps x y).1
      + (gcdxW intOps x y).2.2 * intOps.quo y (gcdxW intOps x y).1 = 1 ∧
    ((gcdxW intOps x y).2.2 = 0 ∨ (gcdxW intOps x y).1 < |x|) := by
  obtain ⟨h1, h2, h3, h4, h5⟩ := gcdxW_int_spec x y hx
  generalize gcdxW intOps x y = g at *
  obtain ⟨d, s, t⟩ := g
  simp only [int_quo] at *
  have hd0 : d ≠ 0 := by omega
  obtain ⟨a, ha⟩ := h2
  obtain ⟨b, hb⟩ := h3
  have hqa : x.tdiv d = a := by rw [ha, Int.mul_tdiv_cancel_left _ hd0]
  have hqb : y.tdiv d = b := by rw [hb, Int.mul_tdiv_cancel_left _ hd0]
  rw [hqa, hqb]
  refine ⟨h1, by rw [ha]; ring, by rw [hb]; ring, ?_, h5⟩
  have : d * (s * a + t * b) = d * 1 := by rw [ha, hb] at h4; linarith
  exact Int.eq_of_mul_eq_mul_left hd0 this

/-- what one iteration of `eliminate_col` does (when it returns) -/
theorem colStep_ok (dbg : Bool) (i : Fin m) (jc : Fin n) (sm sm' : St Int m n × Bool) (i1 : Fin m)
    (h : eliminateColStep intOps dbg i jc sm i1 = .ok sm') (hp : sm.1.t.get i jc ≠ 0) :
    (sm' = sm ∧ (i = i1 ∨ sm.1.t.get i1 jc = 0)) ∨
    (i ≠ i1 ∧ sm.1.t.get i1 jc ≠ 0 ∧ sm'.2 = true ∧ ∃ s t a b d : Int, 0 < d ∧ sm.1.t.get i jc = a * d ∧
      sm.1.t.get i1 jc = b * d ∧ s * a + t * b = 1 ∧ (t = 0 ∨ d < |sm.1.t.get i jc|) ∧
      sm'.1.t = leftElem intOps.toROps sm.1.t s t (-b) a i i1) := by
  unfold eliminateColStep at h
  simp only at h
  split at h
  · rename_i hc
    injection h with h
    left
    refine ⟨h.symm, ?_⟩
    simpa using hc
  · rename_i hc
    right
    simp only [Bool.or_eq_true, decide_eq_true_eq, int_isZero, not_or] at hc
    split at h
    · rename_i s' h1
      injection h with h; subst h
      unfold sLeft at h1
      split at h1
      · cases h1
      · injection h1 with h1; subst h1
        obtain ⟨g1, g2, g3, g4, g5⟩ := gcdxW_int_data (sm.1.t.get i jc) (sm.1.t.get i1 jc) hp
        exact ⟨hc.1, hc.2, rfl, _, _, _, _, _, g1, g2, g3, g4, g5, rfl⟩
    · cases h
    · cases h

theorem rowStep_ok (dbg : Bool) (i : Fin m) (jc : Fin n) (sm sm' : St Int m n × Bool) (j1 : Fin n)
    (h : eliminateRowStep intOps dbg i jc sm j1 = .ok sm') (hp : sm.1.t.get i jc ≠ 0) :
    (sm' = sm ∧ (jc = j1 ∨ sm.1.t.get i j1 = 0)) ∨
    (jc ≠ j1 ∧ sm.1.t.get i j1 ≠ 0 ∧ sm'.2 = true ∧ ∃ s t a b d : Int, 0 < d ∧ sm.1.t.get i jc = a * d ∧
      sm.1.t.get i j1 = b * d ∧ s * a + t * b = 1 ∧ (t = 0 ∨ d < |sm.1.t.get i jc|) ∧
      sm'.1.t = rightElem intOps.toROps sm.1.t s t (-b) a jc j1) := by
  unfold eliminateRowStep at h
  simp only at h
  split at h
  · rename_i hc
    injection h with h
    left
    refine ⟨h.symm, ?_⟩
    simpa using hc
  · rename_i hc
    right
    simp only [Bool.or_eq_true, decide_eq_true_eq, int_isZero, not_or] at hc
    split at h
    · rename_i s' h1
      injection h with h; subst h
      unfold sRight at h1
      split at h1
      · cases h1
      · injection h1 with h1; subst h1
        obtain ⟨g1, g2, g3, g4, g5⟩ := gcdxW_int_data (sm.1.t.get i jc) (sm.1.t.get i j1) hp
        exact ⟨hc.1, hc.2, rfl, _, _, _, _, _, g1, g2, g3, g4, g5, rfl⟩
    · cases h
    · cases h

/-! entries of the elementary operations over ℤ -/

theorem leftElem_get (T : Mat Int m n) (a b c d : Int) (i j : Fin m) (r : Fin m) (col : Fin n) :
    (leftElem intOps.toROps T a b c d i j).get r col =
      if r = j then T.get i col * c + T.get j col * d
      else if r = i then T.get i col * a + T.get j col * b else T.get r col := by
  simp [leftElem]

theorem rightElem_get (T : Mat Int m n) (a b c d : Int) (i j : Fin n) (r : Fin m) (col : Fin n) :
    (rightElem intOps.toROps T a b c d i j).get r col =
      if col = j then T.get r i * c + T.get r j * d
      else if col = i then T.get r i * a + T.get r j * b else T.get r col := by
  simp [rightElem]

@[simp] theorem int_isZero_false (a : Int) : intOps.toROps.isZero a = false ↔ a ≠ 0 := by
  rw [← Bool.not_eq_true, int_isZero]

/-! ### generic fold lemmas -/

theorem foldlM_prefix {σ β : Type} (f : σ → β → Res σ) (P : List β → σ → Prop)
    (hstep : ∀ pre x s s', P pre s → f s x = .ok s' → P (pre ++ [x]) s') :
    ∀ (l pre : List β) (s s' : σ), P pre s → l.foldlM f s = .ok s' → P (pre ++ l) s'
  | [], pre, s, s', hp, h => by
    simp only [List.foldlM_nil] at h
    cases h; simpa using hp
  | x :: l, pre, s, s', hp, h => by
    rw [List.foldlM_cons] at h
    obtain ⟨y, hy, h⟩ := Res.bind_eq_ok h
    have := foldlM_prefix f P hstep l (pre ++ [x]) y s' (hstep pre x s y hp hy) h
    simpa using this

theorem foldl_count {β : Type} (z : β → Bool) : ∀ (l : List β) (k : Nat),
    l.foldl (fun c x => if z x then c else c + 1) k = k + l.countP (fun x => !z x)
  | [], k => by simp
  | x :: l, k => by
    rw [List.foldl_cons, foldl_count z l, List.countP_cons]
    cases z x <;> simp; omega

theorem countP_le_one_iff {β : Type} [DecidableEq β] (p : β → Bool) : ∀ (l : List β), l.Nodup → ∀ a ∈ l,
    p a = true → (l.countP p ≤ 1 ↔ ∀ b ∈ l, b ≠ a → p b = false)
  | [], _, a, ha, _ => by simp at ha
  | x :: l, hn, a, ha, hpa => by
    rw [List.nodup_cons] at hn
    rw [List.countP_cons]
    by_cases hax : a = x
    · subst hax
      rw [if_pos hpa]
      constructor
      · intro h b hb hba
        rw [List.mem_cons] at hb
        rcases hb with rfl | hb
        · exact absurd rfl hba
        · have h0 : l.countP p = 0 := by omega
          rw [List.countP_eq_zero] at h0
          simpa using h0 b hb
      · intro h
        have h0 : l.countP p = 0 := by
          rw [List.countP_eq_zero]
          intro b hb
          have : b ≠ a := fun hh => hn.1 (hh ▸ hb)
          simp [h b (List.mem_cons_of_mem _ hb) this]
        omega
    · have ha' : a ∈ l := by
        rw [List.mem_cons] at ha
        rcases ha with h | h
        · exact absurd h hax
        · exact h
      have ih := countP_le_one_iff p l hn.2 a ha' hpa
      have hpos : 0 < l.countP p := List.countP_pos_iff.2 ⟨a, ha', hpa⟩
      constructor
      · intro h b hb hba
        rw [List.mem_cons] at hb
        rcases hb with rfl | hb
        · by_contra hpb
          rw [if_pos (by simpa using hpb)] at h
          omega
        · refine ih.1 ?_ b hb hba
          split at h <;> omega
      · intro h
        have h1 := ih.2 (fun b hb hba => h b (List.mem_cons_of_mem _ hb) hba)
        have h2 := h x (List.mem_cons_self) (fun hh => hax hh.symm)
        rw [if_neg (by simp [h2])]
        omega

theorem rowNz_le_one_iff (T : Mat Int m n) (i : Fin m) (jc : Fin n) (hp : T.get i jc ≠ 0) :
    rowNz intOps T i ≤ 1 ↔ ∀ c, c ≠ jc → T.get i c = 0 := by
  unfold rowNz
  rw [foldl_count (fun j => intOps.toROps.isZero (T.get i j)), Nat.zero_add,
    countP_le_one_iff _ _ (List.nodup_finRange n) jc (List.mem_finRange jc)]
  · simp only [List.mem_finRange, true_implies, Bool.not_eq_false', int_isZero]
  · simpa using hp

theorem colNz_le_one_iff (T : Mat Int m n) (i : Fin m) (jc : Fin n) (hp : T.get i jc ≠ 0) :
    colNz intOps T jc ≤ 1 ↔ ∀ r, r ≠ i → T.get r jc = 0 := by
  unfold colNz
  rw [foldl_count (fun r => intOps.toROps.isZero (T.get r jc)), Nat.zero_add,
    countP_le_one_iff _ _ (List.nodup_finRange m) i (List.mem_finRange i)]
  · simp only [List.mem_finRange, true_implies, Bool.not_eq_false', int_isZero]
  · simpa using hp

/-! ### `eliminate_at` over ℤ

`F` is a "frame": any predicate on the target matrix that the elementary operations `eliminate_at(i, jc)` can
perform (on rows `(i, i1)` with `T[i1][jc] ≠ 0`, on columns `(jc, j1)` with `T[i][j1] ≠ 0`) preserve. -/

structure FrameOK (i : Fin m) (jc : Fin n) (F : Mat Int m n → Prop) : Prop where
  left : ∀ (T : Mat Int m n) (s t b a : Int) (i1 : Fin m), F T → i ≠ i1 → T.get i1 jc ≠ 0 →
    F (leftElem intOps.toROps T s t b a i i1)
  right : ∀ (T : Mat Int m n) (s t b a : Int) (j1 : Fin n), F T → jc ≠ j1 → T.get i j1 ≠ 0 →
    F (rightElem intOps.toROps T s t b a jc j1)

theorem frameOK_true (i : Fin m) (jc : Fin n) : FrameOK i jc (fun _ => True) :=
  ⟨fun _ _ _ _ _ _ _ _ _ => trivial, fun _ _ _ _ _ _ _ _ _ => trivial⟩

/-- `eliminate_col`: the pivot stays non-zero and is replaced by a divisor, the frame is kept, the pivot's
column is cleared -/
theorem eliminateCol_post {i : Fin m} {jc : Fin n} {F : Mat Int m n → Prop} (hF : FrameOK i jc F) (dbg : Bool)
    (s : St Int m n) (r : St Int m n × Bool) (h : eliminateCol intOps dbg s i jc = .ok r)
    (hF0 : F s.t) (hp : s.t.get i jc ≠ 0) :
    F r.1.t ∧ r.1.t.get i jc ≠ 0 ∧ r.1.t.get i jc ∣ s.t.get i jc ∧ (∀ r', r' ≠ i → r.1.t.get r' jc = 0) := by
  unfold eliminateCol at h
  have key := foldlM_prefix (σ := St Int m n × Bool) (β := Fin m) (eliminateColStep intOps dbg i jc)
    (fun pre sm => F sm.1.t ∧ sm.1.t.get i jc ≠ 0 ∧ sm.1.t.get i jc ∣ s.t.get i jc ∧
      ∀ r' ∈ pre, r' ≠ i → sm.1.t.get r' jc = 0) ?_ (List.finRange m) [] (s, false) r
      ⟨hF0, hp, dvd_refl _, by simp⟩ h
  · obtain ⟨k1, k2, k3, k4⟩ := key
    exact ⟨k1, k2, k3, fun r' hr' => k4 r' (by simp) hr'⟩
  · intro pre i1 sm sm' ⟨p1, p2, p3, p4⟩ hstep
    rcases colStep_ok dbg i jc sm sm' i1 hstep p2 with ⟨rfl, hc⟩ | ⟨hne, hy, _, s', t', a, b, d, hd, hx, hy', hbez, _, hT⟩
    · refine ⟨p1, p2, p3, ?_⟩
      intro r' hr' hri
      rw [List.mem_append, List.mem_singleton] at hr'
      rcases hr' with hr' | rfl
      · exact p4 r' hr' hri
      · rcases hc with hc | hc
        · exact absurd hc.symm hri
        · exact hc
    · have hpiv : sm'.1.t.get i jc = d := by
        rw [hT, leftElem_get, if_neg hne, if_pos rfl, hx, hy']
        linear_combination d * hbez
      have hz : sm'.1.t.get i1 jc = 0 := by
        rw [hT, leftElem_get, if_pos rfl, hx, hy']; ring
      refine ⟨?_, ?_, ?_, ?_⟩
      · rw [hT]; exact hF.left _ _ _ _ _ _ p1 hne hy
      · rw [hpiv]; omega
      · rw [hpiv]; exact dvd_trans ⟨a, by rw [hx]; ring⟩ p3
      · intro r' hr' hri
        by_cases h1 : r' = i1
        · rw [h1]; exact hz
        · rw [List.mem_append, List.mem_singleton] at hr'
          rcases hr' with hr' | hr'
          · rw [hT, leftElem_get, if_neg h1, if_neg hri]; exact p4 r' hr' hri
          · exact absurd hr' h1

/-- `eliminate_row` after `eliminate_col`: the pivot's row is cleared; its column stays cleared unless the
pivot became strictly smaller -/
theorem eliminateRow_post {i : Fin m} {jc : Fin n} {F : Mat Int m n → Prop} (hF : FrameOK i jc F) (dbg : Bool)
    (s : St Int m n) (r : St Int m n × Bool) (h : eliminateRow intOps dbg s i jc = .ok r)
    (hF0 : F s.t) (hp : s.t.get i jc ≠ 0) (hcol : ∀ r', r' ≠ i → s.t.get r' jc = 0) :
    F r.1.t ∧ r.1.t.get i jc ≠ 0 ∧ r.1.t.get i jc ∣ s.t.get i jc ∧ (∀ c, c ≠ jc → r.1.t.get i c = 0) ∧
      ((∀ r', r' ≠ i → r.1.t.get r' jc = 0) ∨ |r.1.t.get i jc| < |s.t.get i jc|) := by
  unfold eliminateRow at h
  have key := foldlM_prefix (σ := St Int m n × Bool) (β := Fin n) (eliminateRowStep intOps dbg i jc)
    (fun pre sm => F sm.1.t ∧ sm.1.t.get i jc ≠ 0 ∧ sm.1.t.get i jc ∣ s.t.get i jc ∧
      (∀ c ∈ pre, c ≠ jc → sm.1.t.get i c = 0) ∧
      ((∀ r', r' ≠ i → sm.1.t.get r' jc = 0) ∨ |sm.1.t.get i jc| < |s.t.get i jc|))
      ?_ (List.finRange n) [] (s, false) r ⟨hF0, hp, dvd_refl _, by simp, Or.inl hcol⟩ h
  · obtain ⟨k1, k2, k3, k4, k5⟩ := key
    exact ⟨k1, k2, k3, fun c hc => k4 c (by simp) hc, k5⟩
  · intro pre j1 sm sm' ⟨p1, p2, p3, p4, p5⟩ hstep
    rcases rowStep_ok dbg i jc sm sm' j1 hstep p2 with ⟨rfl, hc⟩ | ⟨hne, hy, _, s', t', a, b, d, hd, hx, hy', hbez, hlt, hT⟩
    · refine ⟨p1, p2, p3, ?_, p5⟩
      intro c hc' hcj
      rw [List.mem_append, List.mem_singleton] at hc'
      rcases hc' with hc' | rfl
      · exact p4 c hc' hcj
      · rcases hc with hc | hc
        · exact absurd hc.symm hcj
        · exact hc
    · have hpiv : sm'.1.t.get i jc = d := by
        rw [hT, rightElem_get, if_neg hne, if_pos rfl, hx, hy']
        linear_combination d * hbez
      have hz : sm'.1.t.get i j1 = 0 := by
        rw [hT, rightElem_get, if_pos rfl, hx, hy']; ring
      have hle : |d| ≤ |sm.1.t.get i jc| := by
        rw [hx, abs_mul]
        have ha : a ≠ 0 := by
          rintro rfl; rw [Int.zero_mul] at hx; exact p2 hx
        have : 1 ≤ |a| := Int.one_le_abs ha
        nlinarith [abs_nonneg d]
      have hles : |sm.1.t.get i jc| ≤ |s.t.get i jc| :=
        Int.le_of_dvd (abs_pos.2 hp) ((abs_dvd_abs _ _).2 p3)
      refine ⟨?_, ?_, ?_, ?_, ?_⟩
      · rw [hT]; exact hF.right _ _ _ _ _ _ p1 hne hy
      · rw [hpiv]; omega
      · rw [hpiv]; exact dvd_trans ⟨a, by rw [hx]; ring⟩ p3
      · intro c hc' hcj
        by_cases h1 : c = j1
        · rw [h1]; exact hz
        · rw [List.mem_append, List.mem_singleton] at hc'
          rcases hc' with hc' | hc'
          · rw [hT, rightElem_get, if_neg h1, if_neg hcj]; exact p4 c hc' hcj
          · exact absurd hc' h1
      · rcases p5 with p5 | p5
        · rcases hlt with rfl | hlt
          · left
            intro r' hr'
            rw [hT, rightElem_get, if_neg hne, if_pos rfl, p5 r' hr']; ring
          · right
            rw [hpiv, abs_of_pos hd]; omega
        · right
          rw [hpiv]; omega

/-- `eliminate_at(i, jc)` on a non-zero pivot: whenever it returns, the frame is kept, the pivot is non-zero
(a divisor of the old one) and it is the only non-zero entry of its row and of its column -/
theorem eliminateAt_post {i : Fin m} {jc : Fin n} {F : Mat Int m n → Prop} (hF : FrameOK i jc F) (dbg : Bool) :
    ∀ (fuel : Nat) (s s' : St Int m n), eliminateAt intOps dbg i jc fuel s = .ok s' → F s.t → s.t.get i jc ≠ 0 →
      F s'.t ∧ s'.t.get i jc ≠ 0 ∧ s'.t.get i jc ∣ s.t.get i jc ∧
        (∀ c, c ≠ jc → s'.t.get i c = 0) ∧ (∀ r, r ≠ i → s'.t.get r jc = 0) := by
  intro fuel
  induction fuel with
  | zero => intro s s' h; simp [eliminateAt] at h
  | succ fuel ih =>
    intro s s' h hF0 hp
    rw [eliminateAt] at h
    split at h
    · split at h
      · rename_i r1 h1
        obtain ⟨c1, c2, c3, c4⟩ := eliminateCol_post hF dbg s r1 h1 hF0 hp
        split at h
        · rename_i r2 h2
          obtain ⟨d1, d2, d3, _, _⟩ := eliminateRow_post hF dbg r1.1 r2 h2 c1 c2 c4
          split at h
          · cases h
          · obtain ⟨e1, e2, e3, e4, e5⟩ := ih r2.1 s' h d1 d2
            exact ⟨e1, e2, dvd_trans e3 (dvd_trans d3 c3), e4, e5⟩
        · cases h
        · cases h
      · cases h
      · cases h
    · rename_i hc
      injection h with h; subst h
      simp only [Bool.or_eq_true, decide_eq_true_eq, not_or, Nat.not_lt] at hc
      exact ⟨hF0, hp, dvd_refl _, (rowNz_le_one_iff s.t i jc hp).1 hc.1, (colNz_le_one_iff s.t i jc hp).1 hc.2⟩

/-! ### the loop invariant of `eliminate_all` -/

theorem foldlM_prefix' {σ β : Type} (f : σ → β → Res σ) (P : List β → σ → Prop) (L : List β)
    (hstep : ∀ pre x post s s', L = pre ++ x :: post → P pre s → f s x = .ok s' → P (pre ++ [x]) s') :
    ∀ (l pre : List β) (s s' : σ), L = pre ++ l → P pre s → l.foldlM f s = .ok s' → P L s'
  | [], pre, s, s', hL, hp, h => by
    simp only [List.foldlM_nil] at h
    cases h; rw [hL]; simpa using hp
  | x :: l, pre, s, s', hL, hp, h => by
    rw [List.foldlM_cons] at h
    obtain ⟨y, hy, h⟩ := Res.bind_eq_ok h
    exact foldlM_prefix' f P L hstep l (pre ++ [x]) y s' (by simpa using hL) (hstep pre x l s y hL hp hy) h

/-- a `for j in 0..n` loop: an invariant indexed by the loop counter -/
theorem foldlM_finRange {σ : Type} (f : σ → Fin n → Res σ) (P : Nat → σ → Prop)
    (hstep : ∀ (j : Fin n) s s', P j.1 s → f s j = .ok s' → P (j.1 + 1) s') (s s' : σ) (h0 : P 0 s)
    (h : (List.finRange n).foldlM f s = .ok s') : P n s' := by
  have := foldlM_prefix' f (fun pre s => P pre.length s) (List.finRange n) ?_ (List.finRange n) [] s s' rfl h0 h
  · simpa using this
  · intro pre x post s s' hL hp hf
    have hx : x.1 = pre.length := by
      have h1 : pre.length < (List.finRange n).length := by rw [hL]; simp
      have h2 : (List.finRange n)[pre.length]'h1 = x := by simp [hL]
      rw [← h2]; simp
    rw [List.length_append, List.length_singleton, ← hx]
    exact hstep x s s' (hx ▸ hp) hf

theorem foldl_prefix {σ β : Type} (f : σ → β → σ) (P : List β → σ → Prop)
    (hstep : ∀ pre x s, P pre s → P (pre ++ [x]) (f s x)) :
    ∀ (l pre : List β) (s : σ), P pre s → P (pre ++ l) (l.foldl f s)
  | [], pre, s, hp => by simpa using hp
  | x :: l, pre, s, hp => by
    have := foldl_prefix f P hstep l (pre ++ [x]) (f s x) (hstep pre x s hp)
    simpa using this

/-- `select_pivot(below, j)`: a row `≥ below`; `None` only if the column is zero from `below` on -/
theorem selectPivot_spec (T : Mat Int m n) (below : Nat) (j : Fin n) :
    (∀ ip, selectPivot intOps T below j = some ip → below ≤ ip.1) ∧
    (selectPivot intOps T below j = none → ∀ r : Fin m, below ≤ r.1 → T.get r j = 0) := by
  unfold selectPivot
  have key := foldl_prefix (σ := Option (Fin m × Nat)) (β := Fin m)
    (fun (acc : Option (Fin m × Nat)) i =>
      if below ≤ i.1 && !intOps.toROps.isZero (T.get i j) then
        let k := rowNz intOps T i
        match acc with
        | none => some (i, k)
        | some (_, k0) => if k < k0 then some (i, k) else acc
      else acc)
    (fun pre acc => (∀ p, acc = some p → below ≤ p.1.1) ∧
      (acc = none → ∀ r ∈ pre, below ≤ r.1 → T.get r j = 0)) ?_ (List.finRange m) [] none
      ⟨by simp, by simp⟩
  · generalize List.foldl _ none (List.finRange m) = acc at key
    obtain ⟨k1, k2⟩ := key
    constructor
    · intro ip h
      cases acc with
      | none => simp at h
      | some p =>
        simp only [Option.map_some, Option.some.injEq] at h
        rw [← h]; exact k1 p rfl
    · intro h r hr
      cases acc with
      | none => exact k2 rfl r (by simp) hr
      | some p => simp at h
  · intro pre x acc ⟨p1, p2⟩
    split
    · rename_i hc
      simp only [Bool.and_eq_true, decide_eq_true_eq, Bool.not_eq_true', int_isZero_false] at hc
      cases acc with
      | none =>
        refine ⟨?_, by simp⟩
        intro p hp; simp only [Option.some.injEq] at hp; rw [← hp]; exact hc.1
      | some p0 =>
        obtain ⟨i0, k0⟩ := p0
        simp only
        split
        · refine ⟨?_, by simp⟩
          intro p hp; simp only [Option.some.injEq] at hp; rw [← hp]; exact hc.1
        · exact ⟨p1, by simp⟩
    · rename_i hc
      refine ⟨p1, ?_⟩
      intro hn r hr hb
      rw [List.mem_append, List.mem_singleton] at hr
      rcases hr with hr | rfl
      · exact p2 hn r hr hb
      · simp only [Bool.and_eq_true, decide_eq_true_eq, Bool.not_eq_true', int_isZero_false, not_and,
          Decidable.not_not] at hc
        exact hc hb

/-- invariant of `eliminate_all`: the pivots `< i` are isolated and non-zero, the columns `lo ≤ c < hi` are zero -/
structure EAinv (i lo hi : Nat) (T : Mat Int m n) : Prop where
  off : ∀ (r : Fin m) (c : Fin n), r.1 ≠ c.1 → (r.1 < i ∨ c.1 < i) → T.get r c = 0
  dia : ∀ (r : Fin m) (c : Fin n), r.1 = c.1 → r.1 < i → T.get r c ≠ 0
  zc : ∀ (r : Fin m) (c : Fin n), lo ≤ c.1 → c.1 < hi → T.get r c = 0

/-- clearing pivot `i` does not re-fill the rows/columns of the pivots `< i`, nor the zero columns -/
theorem frameOK_EAinv (I : Fin m) (jc : Fin n) (hI : jc.1 = I.1) (j : Nat) :
    FrameOK I jc (EAinv (m := m) (n := n) I.1 (I.1 + 1) (j + 1)) := by
  constructor
  · intro T s t b a i1 hT hne hy
    have hi1 : I.1 < i1.1 := by
      by_contra hlt
      have hne' : I.1 ≠ i1.1 := fun h => hne (Fin.ext h)
      exact hy (hT.off i1 jc (by omega) (Or.inl (by omega)))
    constructor
    · intro r c hrc hlt
      rw [leftElem_get]
      split
      · rename_i h; subst h
        have hc : c.1 < I.1 := by omega
        rw [hT.off I c (by omega) (Or.inr hc), hT.off r c hrc (Or.inr hc)]; ring
      · split
        · rename_i _ h; subst h
          have hc : c.1 < r.1 := by omega
          rw [hT.off r c hrc (Or.inr hc), hT.off i1 c (by omega) (Or.inr hc)]; ring
        · exact hT.off r c hrc hlt
    · intro r c hrc hlt
      rw [leftElem_get, if_neg (fun h => by subst h; omega), if_neg (fun h => by subst h; omega)]
      exact hT.dia r c hrc hlt
    · intro r c h1 h2
      rw [leftElem_get, hT.zc I c h1 h2, hT.zc i1 c h1 h2, hT.zc r c h1 h2]
      simp
  · intro T s t b a j1 hT hne hy
    have hne' : jc.1 ≠ j1.1 := fun h => hne (Fin.ext h)
    have hj1 : j < j1.1 := by
      by_contra hlt
      by_cases h : j1.1 < I.1
      · exact hy (hT.off I j1 (by omega) (Or.inr h))
      · exact hy (hT.zc I j1 (by omega) (by omega))
    have hj1' : I.1 < j1.1 := by
      by_contra hlt
      exact hy (hT.off I j1 (by omega) (Or.inr (by omega)))
    constructor
    · intro r c hrc hlt
      rw [rightElem_get]
      split
      · rename_i h; subst h
        have hr : r.1 < I.1 := by omega
        rw [hT.off r jc (by omega) (Or.inl hr), hT.off r c hrc (Or.inl hr)]; ring
      · split
        · rename_i _ h; subst h
          have hr : r.1 < I.1 := by omega
          rw [hT.off r c hrc (Or.inl hr), hT.off r j1 (by omega) (Or.inl hr)]; ring
        · exact hT.off r c hrc hlt
    · intro r c hrc hlt
      rw [rightElem_get, if_neg (fun h => by subst h; omega), if_neg (fun h => by subst h; omega)]
      exact hT.dia r c hrc hlt
    · intro r c h1 h2
      rw [rightElem_get, if_neg (fun h => by subst h; omega), if_neg (fun h => by subst h; omega)]
      exact hT.zc r c h1 h2

theorem swapRows_get {α : Type} (T : Mat α m n) (i j r : Fin m) (c : Fin n) :
    (swapRows T i j).get r c = T.get (if r = i then j else if r = j then i else r) c := by
  simp [swapRows]

theorem swapCols_get {α : Type} (T : Mat α m n) (i j c : Fin n) (r : Fin m) :
    (swapCols T i j).get r c = T.get r (if c = i then j else if c = j then i else c) := by
  simp [swapCols]

theorem mulCol_get (T : Mat Int m n) (j c : Fin n) (r : Fin m) (u : Int) :
    (mulCol intOps.toROps T j u).get r c = if c = j then T.get r c * u else T.get r c := by
  simp [mulCol]

theorem mulRow_get (T : Mat Int m n) (i r : Fin m) (c : Fin n) (u : Int) :
    (mulRow intOps.toROps T i u).get r c = if r = i then T.get r c * u else T.get r c := by
  simp [mulRow]

/-- entries after the two swaps of `eliminate_step` -/
theorem stepPrep_get (s : St Int m n) (i ip : Fin m) (ic j : Fin n) (h1 : i.1 ≤ ip.1) (h2 : ic.1 ≤ j.1)
    (r : Fin m) (c : Fin n) :
    (stepPrep s i ip ic j).t.get r c =
      s.t.get (if r = i then ip else if r = ip then i else r) (if c = ic then j else if c = j then ic else c) := by
  unfold stepPrep
  simp only
  have e1 : ∀ r c, (if ip.1 > i.1 then sSwapRows s i ip else s).t.get r c =
      s.t.get (if r = i then ip else if r = ip then i else r) c := by
    intro r c
    split
    · simp only [sSwapRows]; rw [swapRows_get]
    · rename_i hgt
      have : ip = i := Fin.ext (by omega)
      subst this
      split <;> simp_all
  split
  · simp only [sSwapCols]; rw [swapCols_get, e1]
  · rename_i hgt
    have : j = ic := Fin.ext (by omega)
    subst this
    rw [e1]
    congr 1
    by_cases hcj : c = j <;> simp [hcj]

/-- the swaps move the (zero) column `i` to position `j` and keep the isolated pivots -/
theorem EAinv_stepPrep (s : St Int m n) (i ip : Fin m) (ic j : Fin n) (hic : ic.1 = i.1) (h1 : i.1 ≤ ip.1)
    (h2 : ic.1 ≤ j.1) (hT : EAinv i.1 i.1 j.1 s.t) : EAinv i.1 (i.1 + 1) (j.1 + 1) (stepPrep s i ip ic j).t := by
  constructor
  · intro r c hrc hlt
    rw [stepPrep_get s i ip ic j h1 h2]
    apply hT.off
    · split <;> split <;> (try split) <;> (try split) <;> simp_all <;> omega
    · split <;> split <;> (try split) <;> (try split) <;> simp_all <;> omega
  · intro r c hrc hlt
    rw [stepPrep_get s i ip ic j h1 h2]
    have e1 : r ≠ i := fun h => by subst h; omega
    have e2 : r ≠ ip := fun h => by subst h; omega
    have e3 : c ≠ ic := fun h => by subst h; omega
    have e4 : c ≠ j := fun h => by subst h; omega
    rw [if_neg e1, if_neg e2, if_neg e3, if_neg e4]
    exact hT.dia r c hrc hlt
  · intro r c hlo hhi
    rw [stepPrep_get s i ip ic j h1 h2]
    have e3 : c ≠ ic := fun h => by subst h; omega
    rw [if_neg e3]
    generalize (if r = i then ip else if r = ip then i else r) = r'
    by_cases h : c = j
    · subst h
      rw [if_pos rfl]
      exact hT.zc _ ic (by omega) (by omega)
    · rw [if_neg h]
      have : c.1 ≠ j.1 := fun h' => h (Fin.ext h')
      exact hT.zc _ c (by omega) (by omega)

theorem EAinv_mulCol (T : Mat Int m n) (jc : Fin n) (u : Int) (i lo hi : Nat) (hjc : i ≤ jc.1)
    (hT : EAinv i lo hi T) : EAinv i lo hi (mulCol intOps.toROps T jc u) := by
  constructor
  · intro r c hrc hlt
    rw [mulCol_get, hT.off r c hrc hlt]; simp
  · intro r c hrc hlt
    rw [mulCol_get, if_neg (fun h => by subst h; omega)]
    exact hT.dia r c hrc hlt
  · intro r c h1 h2
    rw [mulCol_get, hT.zc r c h1 h2]; simp

/-- `eliminate_step(i, j)` keeps the invariant: with a pivot, `i` becomes an isolated non-zero pivot and the zero
columns shift; without one, column `j` is zero -/
theorem eliminateStep_post (dbg : Bool) (fuel : Nat) (s : St Int m n) (i : Fin m) (j : Fin n) (hi : i.1 < n)
    (hij : i.1 ≤ j.1) (hT : EAinv i.1 i.1 j.1 s.t) :
    (eliminateStep intOps dbg fuel s i j hi = .ok none → EAinv i.1 i.1 (j.1 + 1) s.t) ∧
    (∀ s', eliminateStep intOps dbg fuel s i j hi = .ok (some s') → EAinv (i.1 + 1) (i.1 + 1) (j.1 + 1) s'.t) := by
  have hsel := selectPivot_spec s.t i.1 j
  unfold eliminateStep
  split
  · rename_i hnone
    refine ⟨fun _ => ?_, fun s' h => by cases h⟩
    refine ⟨hT.off, hT.dia, ?_⟩
    intro r c h1 h2
    by_cases hc : c.1 < j.1
    · exact hT.zc r c h1 hc
    · have : c = j := Fin.ext (by omega)
      subst this
      by_cases hr : i.1 ≤ r.1
      · exact hsel.2 hnone r hr
      · exact hT.off r c (by omega) (Or.inl (by omega))
  · rename_i ip hsome
    have hip := hsel.1 ip hsome
    have hP := EAinv_stepPrep s i ip ⟨i.1, hi⟩ j rfl hip hij hT
    generalize stepPrep s i ip ⟨i.1, hi⟩ j = s1 at hP
    simp only
    split
    · rename_i s2 h2
      have hP2 : EAinv i.1 (i.1 + 1) (j.1 + 1) s2.t := by
        split at h2
        · unfold sMulCol at h2
          split at h2
          · cases h2
          · injection h2 with h2; subst h2
            exact EAinv_mulCol _ _ _ _ _ _ (Nat.le_refl _) hP
        · injection h2 with h2; subst h2; exact hP
      split
      · exact ⟨nofun, nofun⟩
      · rename_i hz
        have hpz : s2.t.get i ⟨i.1, hi⟩ ≠ 0 := by simpa using hz
        split
        · rename_i s3 h3
          refine ⟨nofun, fun s' h => ?_⟩
          injection h with h; injection h with h; subst h
          obtain ⟨f1, f2, _, f4, f5⟩ := eliminateAt_post (frameOK_EAinv i ⟨i.1, hi⟩ rfl j.1) dbg fuel s2 s3 h3 hP2 hpz
          refine ⟨?_, ?_, f1.zc⟩
          · intro r c hrc hlt
            by_cases hr : r = i
            · subst hr
              exact f4 c (fun h => by subst h; exact hrc rfl)
            · by_cases hc : c = ⟨i.1, hi⟩
              · subst hc; exact f5 r hr
              · have h1 : r.1 ≠ i.1 := fun h => hr (Fin.ext h)
                have h2 : c.1 ≠ i.1 := fun h => hc (Fin.ext h)
                exact f1.off r c hrc (by omega)
          · intro r c hrc hlt
            by_cases hr : r = i
            · subst hr
              have : c = ⟨r.1, hi⟩ := Fin.ext hrc.symm
              subst this; exact f2
            · have h1 : r.1 ≠ i.1 := fun h => hr (Fin.ext h)
              exact f1.dia r c hrc (by omega)
        · exact ⟨nofun, nofun⟩
        · exact ⟨nofun, nofun⟩
    · exact ⟨nofun, nofun⟩
    · exact ⟨nofun, nofun⟩

/-- what `eliminate_all` establishes -/
def DiagZ (T : Mat Int m n) : Prop := ∀ (r : Fin m) (c : Fin n), r.1 ≠ c.1 → T.get r c = 0

/-- the non-zero diagonal entries come first -/
def NzFirst (T : Mat Int m n) : Prop :=
  ∀ k l, k ≤ l → dg intOps.toROps T k = 0 → dg intOps.toROps T l = 0

/-- the state of the `for j` loop of `eliminate_all` before iteration `j` -/
structure AllInv (j : Nat) (si : St Int m n × Nat) : Prop where
  le_j : si.2 ≤ j
  le_m : si.2 ≤ m
  off : ∀ (r : Fin m) (c : Fin n), r.1 ≠ c.1 → (r.1 < si.2 ∨ c.1 < si.2) → si.1.t.get r c = 0
  dia : ∀ (r : Fin m) (c : Fin n), r.1 = c.1 → r.1 < si.2 → si.1.t.get r c ≠ 0
  zc : si.2 < m → ∀ (r : Fin m) (c : Fin n), si.2 ≤ c.1 → c.1 < j → si.1.t.get r c = 0

theorem allInv_step (dbg : Bool) (fuel : Nat) (j : Fin n) (si si' : St Int m n × Nat) (hinv : AllInv j.1 si)
    (h : eliminateAllStep intOps dbg fuel si j = .ok si') : AllInv (j.1 + 1) si' := by
  unfold eliminateAllStep at h
  split at h
  · rename_i hc
    have hT : EAinv si.2 si.2 j.1 si.1.t := ⟨hinv.off, hinv.dia, hinv.zc hc.1⟩
    have hpost := eliminateStep_post dbg fuel si.1 ⟨si.2, hc.1⟩ j (Nat.lt_of_le_of_lt hc.2 j.2) hc.2 hT
    split at h
    · rename_i h1
      injection h with h; subst h
      have := hpost.1 h1
      exact ⟨by have := hinv.le_j; omega, hinv.le_m, this.off, this.dia, fun _ => this.zc⟩
    · rename_i s' h1
      injection h with h; subst h
      have := hpost.2 s' h1
      exact ⟨by have := hinv.le_j; simp only; omega, by simp only; omega, this.off, this.dia, fun _ => this.zc⟩
    · cases h
    · cases h
  · rename_i hc
    injection h with h; subst h
    have h1 := hinv.le_j
    have h2 := hinv.le_m
    exact ⟨by omega, h2, hinv.off, hinv.dia, fun hlt => absurd ⟨hlt, h1⟩ hc⟩

/-- **post-condition of `eliminate_all`** (ℤ, any start state): the target is diagonal and its non-zero diagonal
entries come first -/
theorem eliminateAll_post (dbg : Bool) (fuel : Nat) (s s' : St Int m n)
    (h : eliminateAll intOps dbg fuel s = .ok s') : DiagZ s'.t ∧ NzFirst s'.t := by
  unfold eliminateAll at h
  split at h
  · rename_i si h1
    injection h with h; subst h
    have key := foldlM_finRange (eliminateAllStep intOps dbg fuel) (fun j si => AllInv (m := m) (n := n) j si)
      (fun j si si' hp hf => allInv_step dbg fuel j si si' hp hf) (s, 0) si
      ⟨Nat.le_refl _, Nat.zero_le _, fun r c _ h => by simp at h, fun r c _ h => by simp at h,
        fun _ r c _ h => by simp at h⟩ h1
    constructor
    · intro r c hrc
      by_cases hlt : r.1 < si.2 ∨ c.1 < si.2
      · exact key.off r c hrc hlt
      · exact key.zc (by omega) r c (by omega) c.2
    · intro k l hkl hk
      unfold dg at hk ⊢
      split
      · rename_i hl
        rw [dif_pos ⟨by omega, by omega⟩] at hk
        have hki : ¬ k < si.2 := fun hlt => key.dia ⟨k, by omega⟩ ⟨k, by omega⟩ rfl hlt hk
        exact key.zc (by omega) _ _ (by simp only; omega) hl.2
      · rfl
  · cases h
  · cases h

/-! ### `diag_normalize` over ℤ -/

theorem dg_eq {α : Type} (o : ROps α) (T : Mat α m n) (k : Nat) (hm : k < m) (hn : k < n) :
    dg o T k = T.get ⟨k, hm⟩ ⟨k, hn⟩ := by
  unfold dg; rw [dif_pos ⟨hm, hn⟩]

/-- the two elementary operations of the third branch of `diag_normalize_step` turn the diagonal block
`diag(x, y) = diag(a·d, b·d)` into `diag(d, a·b·d)` and change nothing else -/
theorem diagStep_entries (T : Mat Int m n) (hD : DiagZ T) (I I1 : Fin m) (J J1 : Fin n) (hI : I.1 = J.1)
    (hI1 : I1.1 = J1.1) (hne : I.1 ≠ I1.1) (s t a b d : Int) (hx : T.get I J = a * d) (hy : T.get I1 J1 = b * d)
    (hbez : s * a + t * b = 1) (r : Fin m) (c : Fin n) :
    (rightElem intOps.toROps (leftElem intOps.toROps T 1 1 (-(t * b)) (s * a) I I1) s t (-b) a J J1).get r c =
      if r = I ∧ c = J then d else if r = I1 ∧ c = J1 then a * b * d else T.get r c := by
  have z1 : T.get I J1 = 0 := hD I J1 (by omega)
  have z2 : T.get I1 J = 0 := hD I1 J (by omega)
  have hII : I ≠ I1 := fun h => hne (congrArg Fin.val h)
  have hJJ : J ≠ J1 := fun h => hne (by rw [hI, hI1]; exact congrArg Fin.val h)
  have hrJ : ∀ r, r ≠ I → T.get r J = 0 := fun r hr => hD r J (fun h => hr (Fin.ext (by omega)))
  have hrJ1 : ∀ r, r ≠ I1 → T.get r J1 = 0 := fun r hr => hD r J1 (fun h => hr (Fin.ext (by omega)))
  have hIc : ∀ c, c ≠ J → T.get I c = 0 := fun c hc => hD I c (fun h => hc (Fin.ext (by omega)))
  have hI1c : ∀ c, c ≠ J1 → T.get I1 c = 0 := fun c hc => hD I1 c (fun h => hc (Fin.ext (by omega)))
  rw [rightElem_get]
  simp only [leftElem_get]
  by_cases hc1 : c = J1 <;> by_cases hc : c = J <;> by_cases hr1 : r = I1 <;> by_cases hr : r = I
  all_goals (try (exact absurd (hc.symm.trans hc1) hJJ))
  all_goals (try (exact absurd (hr.symm.trans hr1) hII))
  all_goals
    simp only [hII, hII.symm, hJJ, hJJ.symm, hr, hr1, hc, hc1, if_true, if_false, and_true,
      and_false, and_self, hx, hy, z1, z2, hrJ, hrJ1, hIc, hI1c, ne_eq, not_false_eq_true]
  all_goals (first | done | ring1 | linear_combination d * hbez | linear_combination (a * b * d) * hbez)

/-- `diag_normalize_step(i)` on a diagonal matrix over ℤ, whenever it returns: the two entries were non-zero;
the result is diagonal, the other diagonal entries are unchanged, the two new entries are non-zero; and when it
answers `false`, `|d_i|` has strictly decreased while `|d_i·d_{i+1}|` is unchanged (`(x, y) ↦ (gcd, lcm)`) -/
theorem diagStep_spec (dbg : Bool) (s : St Int m n) (i : Nat) (hm : i + 1 < m) (hn : i + 1 < n)
    (r : St Int m n × Bool) (h : diagNormalizeStep intOps dbg s i hm hn = .ok r) (hD : DiagZ s.t) :
    s.t.get ⟨i, Nat.lt_of_succ_lt hm⟩ ⟨i, Nat.lt_of_succ_lt hn⟩ ≠ 0 ∧ s.t.get ⟨i + 1, hm⟩ ⟨i + 1, hn⟩ ≠ 0 ∧
    DiagZ r.1.t ∧
    (∀ (R : Fin m) (C : Fin n), R.1 = C.1 → R.1 ≠ i → R.1 ≠ i + 1 → r.1.t.get R C = s.t.get R C) ∧
    r.1.t.get ⟨i, Nat.lt_of_succ_lt hm⟩ ⟨i, Nat.lt_of_succ_lt hn⟩ ≠ 0 ∧ r.1.t.get ⟨i + 1, hm⟩ ⟨i + 1, hn⟩ ≠ 0 ∧
    (r.2 = false →
      |r.1.t.get ⟨i, Nat.lt_of_succ_lt hm⟩ ⟨i, Nat.lt_of_succ_lt hn⟩| <
        |s.t.get ⟨i, Nat.lt_of_succ_lt hm⟩ ⟨i, Nat.lt_of_succ_lt hn⟩| ∧
      |r.1.t.get ⟨i, Nat.lt_of_succ_lt hm⟩ ⟨i, Nat.lt_of_succ_lt hn⟩| * |r.1.t.get ⟨i + 1, hm⟩ ⟨i + 1, hn⟩| =
        |s.t.get ⟨i, Nat.lt_of_succ_lt hm⟩ ⟨i, Nat.lt_of_succ_lt hn⟩| * |s.t.get ⟨i + 1, hm⟩ ⟨i + 1, hn⟩|) := by
  unfold diagNormalizeStep at h
  simp only at h
  generalize hI : (⟨i, Nat.lt_of_succ_lt hm⟩ : Fin m) = I at h ⊢
  generalize hI1 : (⟨i + 1, hm⟩ : Fin m) = I1 at h ⊢
  generalize hJ : (⟨i, Nat.lt_of_succ_lt hn⟩ : Fin n) = J at h ⊢
  generalize hJ1 : (⟨i + 1, hn⟩ : Fin n) = J1 at h ⊢
  have vI : I.1 = i := by rw [← hI]
  have vI1 : I1.1 = i + 1 := by rw [← hI1]
  have vJ : J.1 = i := by rw [← hJ]
  have vJ1 : J1.1 = i + 1 := by rw [← hJ1]
  split at h
  · cases h
  · rename_i hz
    simp only [Bool.or_eq_true, int_isZero, not_or] at hz
    obtain ⟨hx0, hy0⟩ := hz
    split at h
    · injection h with h; subst h
      exact ⟨hx0, hy0, hD, fun _ _ _ _ _ => rfl, hx0, hy0, fun h => by cases h⟩
    · rename_i hxy
      split at h
      · rename_i hyx
        injection h with h; subst h
        rw [int_dvd] at hyx
        have hxy' : ¬ (s.t.get I J ∣ s.t.get I1 J1) := fun hh => hxy ((int_dvd _ _).2 ⟨hx0, hh⟩)
        have hget : ∀ (R : Fin m) (C : Fin n), (sSwapCols (sSwapRows s I I1) J J1).t.get R C =
            s.t.get (if R = I then I1 else if R = I1 then I else R) (if C = J then J1 else if C = J1 then J else C) := by
          intro R C
          simp only [sSwapCols, sSwapRows]
          rw [swapCols_get, swapRows_get]
        refine ⟨hx0, hy0, ?_, ?_, ?_, ?_, fun _ => ⟨?_, ?_⟩⟩
        · intro R C hRC
          rw [hget]
          apply hD
          split <;> split <;> (try split) <;> (try split) <;> simp_all <;> omega
        · intro R C hRC h1 h2
          rw [hget, if_neg (fun hh => by subst hh; omega), if_neg (fun hh => by subst hh; omega),
            if_neg (fun hh => by subst hh; omega), if_neg (fun hh => by subst hh; omega)]
        · rw [hget, if_pos rfl, if_pos rfl]; exact hy0
        · rw [hget, if_neg (fun hh => by rw [Fin.ext_iff] at hh; omega), if_pos rfl,
            if_neg (fun hh => by rw [Fin.ext_iff] at hh; omega), if_pos rfl]; exact hx0
        · rw [hget, if_pos rfl, if_pos rfl]
          have hle : |s.t.get I1 J1| ≤ |s.t.get I J| :=
            Int.le_of_dvd (abs_pos.2 hx0) ((abs_dvd_abs _ _).2 hyx.2)
          rcases lt_or_eq_of_le hle with hlt | heq
          · exact hlt
          · exfalso
            apply hxy'
            rcases abs_eq_abs.1 heq with h | h
            · rw [h]
            · rw [h]; exact (Int.dvd_neg).2 (dvd_refl _)
        · rw [hget, hget, if_pos rfl, if_pos rfl, if_neg (fun hh => by rw [Fin.ext_iff] at hh; omega), if_pos rfl,
            if_neg (fun hh => by rw [Fin.ext_iff] at hh; omega), if_pos rfl]
          ring
      · rename_i hyx
        have hxy' : ¬ (s.t.get I J ∣ s.t.get I1 J1) := fun hh => hxy ((int_dvd _ _).2 ⟨hx0, hh⟩)
        obtain ⟨g1, g2, g3, g4, _⟩ := gcdxW_int_data (s.t.get I J) (s.t.get I1 J1) hx0
        split at h
        · rename_i s1 h1
          split at h
          · rename_i s2 h2
            injection h with h; subst h
            unfold sLeft at h1
            split at h1
            · cases h1
            · injection h1 with h1; subst h1
              unfold sRight at h2
              split at h2
              · cases h2
              · injection h2 with h2; subst h2
                generalize (gcdxW intOps (s.t.get I J) (s.t.get I1 J1)) = g at *
                obtain ⟨d, s', t'⟩ := g
                simp only at g1 g2 g3 g4
                generalize intOps.quo (s.t.get I J) d = a at *
                generalize intOps.quo (s.t.get I1 J1) d = b at *
                have hent := diagStep_entries s.t hD I I1 J J1 (by omega) (by omega) (by omega) s' t' a b d g2 g3
                  (by linarith)
                have hent' : ∀ R C, (sRightRaw intOps.toROps (sLeftRaw intOps.toROps s intOps.toROps.one intOps.toROps.one
                    (intOps.toROps.neg (intOps.toROps.mul t' b)) (intOps.toROps.mul s' a) I I1) s' t'
                    (intOps.toROps.neg b) a J J1).t.get R C =
                      if R = I ∧ C = J then d else if R = I1 ∧ C = J1 then a * b * d else s.t.get R C := hent
                have ha0 : a ≠ 0 := by rintro rfl; rw [Int.zero_mul] at g2; exact hx0 g2
                have hb0 : b ≠ 0 := by rintro rfl; rw [Int.zero_mul] at g3; exact hy0 g3
                have hd0 : d ≠ 0 := by omega
                refine ⟨hx0, hy0, ?_, ?_, ?_, ?_, fun _ => ⟨?_, ?_⟩⟩
                · intro R C hRC
                  rw [hent', if_neg (fun hh => by obtain ⟨rfl, rfl⟩ := hh; omega),
                    if_neg (fun hh => by obtain ⟨rfl, rfl⟩ := hh; omega)]
                  exact hD R C hRC
                · intro R C hRC hh1 hh2
                  rw [hent', if_neg (fun hh => by obtain ⟨rfl, rfl⟩ := hh; omega),
                    if_neg (fun hh => by obtain ⟨rfl, rfl⟩ := hh; omega)]
                · rw [hent', if_pos ⟨rfl, rfl⟩]; exact hd0
                · rw [hent', if_neg (fun hh => by rw [Fin.ext_iff] at hh; omega), if_pos ⟨rfl, rfl⟩]
                  exact mul_ne_zero (mul_ne_zero ha0 hb0) hd0
                · rw [hent', if_pos ⟨rfl, rfl⟩, g2, abs_mul]
                  have h1a : 1 ≤ |a| := Int.one_le_abs ha0
                  have hdp : 0 < |d| := abs_pos.2 hd0
                  rcases lt_or_eq_of_le h1a with hlt | heq
                  · nlinarith
                  · exfalso
                    apply hxy'
                    rw [g2, g3]
                    rcases abs_choice a with h | h
                    · have : a = 1 := by omega
                      rw [this]; exact ⟨b, by ring⟩
                    · have : a = -1 := by omega
                      rw [this]; exact ⟨-b, by ring⟩
                · rw [hent', hent', if_pos ⟨rfl, rfl⟩, if_neg (fun hh => by rw [Fin.ext_iff] at hh; omega),
                    if_pos ⟨rfl, rfl⟩, g2, g3]
                  simp only [abs_mul]; ring
          · cases h
          · cases h
        · cases h
        · cases h

/-- the `k`-th diagonal entry over ℤ (`0` outside) -/
abbrev dgz (T : Mat Int m n) (k : Nat) : Int := dg intOps.toROps T k

/-- a pass of the `'outer` loop either goes through without touching the state, or it stops right after the
first step that answered `false` -/
theorem diagPass_spec {α : Type} {e : EOps α} (dbg : Bool) (r : Nat) : ∀ (cnt i : Nat) (s : St α m n)
    (r' : St α m n × Bool), diagPass e dbg r cnt i s = .ok r' →
    r' = (s, true) ∨ ∃ i0, ∃ (hm : i0 + 1 < m) (hn : i0 + 1 < n), i0 + 1 < r ∧ r'.2 = false ∧
      diagNormalizeStep e dbg s i0 hm hn = .ok r' := by
  intro cnt
  induction cnt with
  | zero => intro i s r' h; rw [diagPass] at h; injection h with h; exact Or.inl h.symm
  | succ cnt ih =>
    intro i s r' h
    rw [diagPass] at h
    split at h
    · rename_i hc
      split at h
      · rename_i r1 h1
        split at h
        · rename_i hb
          obtain ⟨s1, b1⟩ := r1
          simp only at hb h
          subst hb
          obtain ⟨e1, _⟩ := diagNormalizeStep_true dbg s i hc.2.1 hc.2.2 s1 h1
          subst e1
          exact ih _ _ _ h
        · rename_i hb
          injection h with h; subst h
          right
          refine ⟨i, hc.2.1, hc.2.2, hc.1, rfl, ?_⟩
          rw [h1]
          obtain ⟨s1, b1⟩ := r1
          simp only at hb ⊢
          cases b1
          · rfl
          · exact absurd rfl hb
      · cases h
      · cases h
    · injection h with h; exact Or.inl h.symm

/-- `diag_normalize_step` in terms of the diagonal -/
theorem diagStep_dg (dbg : Bool) (s : St Int m n) (i : Nat) (hm : i + 1 < m) (hn : i + 1 < n)
    (r : St Int m n × Bool) (h : diagNormalizeStep intOps dbg s i hm hn = .ok r) (hD : DiagZ s.t) :
    DiagZ r.1.t ∧ (∀ k, k ≠ i → k ≠ i + 1 → dgz r.1.t k = dgz s.t k) ∧
    dgz s.t i ≠ 0 ∧ dgz s.t (i + 1) ≠ 0 ∧ dgz r.1.t i ≠ 0 ∧ dgz r.1.t (i + 1) ≠ 0 ∧
    (r.2 = false → |dgz r.1.t i| < |dgz s.t i| ∧
      |dgz r.1.t i| * |dgz r.1.t (i + 1)| = |dgz s.t i| * |dgz s.t (i + 1)|) := by
  obtain ⟨h1, h2, h3, h4, h5, h6, h7⟩ := diagStep_spec dbg s i hm hn r h hD
  have hm' : i < m := Nat.lt_of_succ_lt hm
  have hn' : i < n := Nat.lt_of_succ_lt hn
  simp only [dgz, dg_eq _ _ i hm' hn', dg_eq _ _ (i + 1) hm hn]
  refine ⟨h3, ?_, h1, h2, h5, h6, h7⟩
  intro k hk1 hk2
  unfold dg
  split
  · rename_i hk
    exact h4 ⟨k, hk.1⟩ ⟨k, hk.2⟩ rfl hk1 hk2
  · rfl

/-- **invariants of the `'outer` loop of `diag_normalize`** over ℤ: diagonality, the non-zero prefix, and the
entries from `r` on are not touched -/
theorem diagOuter_post (dbg : Bool) (r : Nat) : ∀ (fuel : Nat) (s s' : St Int m n),
    diagOuter intOps dbg r fuel s = .ok s' → DiagZ s.t → (∀ k, k < r → dgz s.t k ≠ 0) →
    DiagZ s'.t ∧ (∀ k, k < r → dgz s'.t k ≠ 0) ∧ (∀ k, r ≤ k → dgz s'.t k = dgz s.t k) := by
  intro fuel
  induction fuel with
  | zero => intro s s' h; simp [diagOuter] at h
  | succ fuel ih =>
    intro s s' h hD hnz
    rw [diagOuter] at h
    split at h
    · rename_i r1 h1
      rcases diagPass_spec dbg r r 0 s r1 h1 with rfl | ⟨i0, hm, hn, hir, hb, hstep⟩
      · simp only at h
        injection h with h; subst h
        exact ⟨hD, hnz, fun _ _ => rfl⟩
      · rw [if_neg (by simp [hb])] at h
        obtain ⟨d1, d2, _, _, d5, d6, _⟩ := diagStep_dg dbg s i0 hm hn r1 hstep hD
        have hnz1 : ∀ k, k < r → dgz r1.1.t k ≠ 0 := by
          intro k hk
          by_cases e1 : k = i0
          · rw [e1]; exact d5
          · by_cases e2 : k = i0 + 1
            · rw [e2]; exact d6
            · rw [d2 k e1 e2]; exact hnz k hk
        obtain ⟨f1, f2, f3⟩ := ih r1.1 s' h d1 hnz1
        refine ⟨f1, f2, ?_⟩
        intro k hk
        rw [f3 k hk, d2 k (by omega) (by omega)]
    · cases h
    · cases h

/-! ### the final multiplication by units -/

/-- equal up to a sign, entry by entry -/
def SignEq (T T' : Mat Int m n) : Prop := ∀ r c, T'.get r c = T.get r c ∨ T'.get r c = - T.get r c

theorem SignEq.refl (T : Mat Int m n) : SignEq T T := fun _ _ => Or.inl rfl

theorem SignEq.trans {T T' T'' : Mat Int m n} (h1 : SignEq T T') (h2 : SignEq T' T'') : SignEq T T'' := by
  intro r c
  rcases h1 r c with a | a <;> rcases h2 r c with b | b <;> rw [b, a] <;> simp

theorem SignEq.dgz_eq {T T' : Mat Int m n} (h : SignEq T T') (k : Nat) : dgz T' k = dgz T k ∨ dgz T' k = - dgz T k := by
  unfold dgz dg
  split
  · exact h _ _
  · left; rfl

theorem normalizeStep_spec (s s' : St Int m n) (k : Nat) (h : normalizeStep intOps s k = .ok s') :
    SignEq s.t s'.t ∧ 0 ≤ dgz s'.t k ∧ ∀ k', k' ≠ k → dgz s'.t k' = dgz s.t k' := by
  unfold normalizeStep at h
  split at h
  · rename_i hk
    simp only at h
    by_cases hx : s.t.get ⟨k, hk.1⟩ ⟨k, hk.2⟩ < 0
    · have hu : intOps.normUnit (s.t.get ⟨k, hk.1⟩ ⟨k, hk.2⟩) = -1 := by rw [int_normUnit, if_pos hx]
      rw [hu] at h
      have h' : sMulRow intOps s ⟨k, hk.1⟩ (-1) = .ok s' := h
      unfold sMulRow at h'
      have hinv : intOps.inv (-1) = some (-1) := rfl
      rw [hinv] at h'
      injection h' with h'; subst h'
      refine ⟨?_, ?_, ?_⟩
      · intro r c
        simp only [mulRow_get]
        split
        · right; ring
        · left; rfl
      · simp only [dgz, dg_eq _ _ k hk.1 hk.2, mulRow_get, if_pos]
        omega
      · intro k' hk'
        unfold dgz dg
        split
        · simp only [mulRow_get]
          rw [if_neg (fun hh => hk' (by rw [Fin.ext_iff] at hh; exact hh))]
        · rfl
    · have hu : intOps.normUnit (s.t.get ⟨k, hk.1⟩ ⟨k, hk.2⟩) = 1 := by rw [int_normUnit, if_neg hx]
      rw [hu] at h
      have h' : Res.ok s = .ok s' := h
      injection h' with h'; subst h'
      refine ⟨SignEq.refl _, ?_, fun _ _ => rfl⟩
      simp only [dgz, dg_eq _ _ k hk.1 hk.2]
      omega
  · rename_i hk
    injection h with h; subst h
    refine ⟨SignEq.refl _, ?_, fun _ _ => rfl⟩
    unfold dgz dg; rw [dif_neg hk]; exact Int.le_refl _

theorem normalizeFold_post (r0 : Nat) (s s' : St Int m n)
    (h : (List.range r0).foldlM (normalizeStep intOps) s = .ok s') :
    SignEq s.t s'.t ∧ ∀ k, k < r0 → 0 ≤ dgz s'.t k := by
  have key := foldlM_prefix (normalizeStep intOps)
    (fun pre s1 => SignEq s.t s1.t ∧ ∀ k ∈ pre, 0 ≤ dgz s1.t k) ?_ (List.range r0) [] s s'
    ⟨SignEq.refl _, by simp⟩ h
  · exact ⟨key.1, fun k hk => key.2 k (by simpa using hk)⟩
  · intro pre x s1 s2 ⟨p1, p2⟩ hstep
    obtain ⟨q1, q2, q3⟩ := normalizeStep_spec s1 s2 x hstep
    refine ⟨p1.trans q1, ?_⟩
    intro k hk
    rw [List.mem_append, List.mem_singleton] at hk
    by_cases hkx : k = x
    · rw [hkx]; exact q2
    · rcases hk with hk | hk
      · rw [q3 k hkx]; exact p2 k hk
      · exact absurd hk hkx

/-! ### from the facts to the checker `isSnfShape` -/

theorem find_range_spec (p : Nat → Bool) : ∀ K : Nat,
    ((List.range K).find? p).getD K ≤ K ∧ (∀ i, i < ((List.range K).find? p).getD K → p i = false) ∧
      (((List.range K).find? p).getD K < K → p (((List.range K).find? p).getD K) = true)
  | 0 => by simp
  | K + 1 => by
    obtain ⟨h1, h2, h3⟩ := find_range_spec p K
    rw [List.range_succ, List.find?_append]
    cases hf : (List.range K).find? p with
    | some a =>
      rw [hf] at h1 h2 h3
      simp only [Option.getD_some, Option.some_or] at h1 h2 h3 ⊢
      have ha : a < K := by
        have := List.mem_of_find?_eq_some hf
        simpa using this
      exact ⟨by omega, h2, fun _ => h3 ha⟩
    | none =>
      rw [hf] at h1 h2 h3
      simp only [Option.getD_none, Option.none_or, List.find?_cons, List.find?_nil] at h1 h2 h3 ⊢
      cases hp : p K
      · simp only [Option.getD_none]
        refine ⟨Nat.le_refl _, ?_, fun h => absurd h (Nat.lt_irrefl _)⟩
        intro i hi
        by_cases hik : i = K
        · rw [hik]; exact hp
        · exact h2 i (by omega)
      · simp only [Option.getD_some]
        exact ⟨by omega, h2, fun _ => hp⟩

theorem shapeL_of : ∀ (l : List Int) (r0 : Nat), (∀ k (h : k < l.length), k < r0 → 0 < l[k]) →
    (∀ k (h : k < l.length), r0 ≤ k → l[k] = 0) → (∀ k (h : k + 1 < l.length), k + 1 < r0 → l[k] ∣ l[k + 1]) →
    shapeL intOps l = true
  | [], _, _, _, _ => rfl
  | a :: rest, r0, h1, h2, h3 => by
    unfold shapeL
    by_cases hr : r0 = 0
    · have ha : a = 0 := h2 0 (by simp) (by omega)
      rw [if_pos ((int_isZero a).2 ha)]
      rw [List.all_eq_true]
      intro x hx
      obtain ⟨k, hk, rfl⟩ := List.getElem_of_mem hx
      rw [int_isZero]
      have := h2 (k + 1) (by simpa using hk) (by omega)
      simpa using this
    · have ha : 0 < a := h1 0 (by simp) (by omega)
      rw [if_neg (by rw [int_isZero]; omega)]
      have hnorm : intOps.isNorm a = true := by
        unfold EOps.isNorm
        rw [int_isOne, int_normUnit, if_neg (by omega)]
      have hrest : shapeL intOps rest = true := by
        apply shapeL_of rest (r0 - 1)
        · intro k hk hkr
          have := h1 (k + 1) (by simpa using hk) (by omega)
          simpa using this
        · intro k hk hkr
          have := h2 (k + 1) (by simpa using hk) (by omega)
          simpa using this
        · intro k hk hkr
          have := h3 (k + 1) (by simpa using hk) (by omega)
          simpa using this
      rw [hnorm, hrest, Bool.true_and, Bool.and_true]
      cases rest with
      | nil => rfl
      | cons b rest' =>
        simp only [Bool.or_eq_true]
        by_cases hr1 : 1 < r0
        · right
          rw [int_dvd]
          refine ⟨by omega, ?_⟩
          have := h3 0 (by simp) (by omega)
          simpa using this
        · left
          rw [int_isZero]
          have := h2 1 (by simp) (by omega)
          simpa using this

theorem diagL_getElem (T : Mat Int m n) (k : Nat) (h : k < (diagL T).length) : (diagL T)[k] = dgz T k := by
  have hk : k < min m n := by simpa [diagL] using h
  simp only [diagL, List.getElem_ofFn, dgz]
  rw [dg_eq _ _ k (by omega) (by omega)]

theorem isSnfShape_of (T : Mat Int m n) (r0 : Nat) (hD : DiagZ T) (h1 : ∀ k, k < r0 → 0 < dgz T k)
    (h2 : ∀ k, r0 ≤ k → dgz T k = 0) (h3 : ∀ k, k + 1 < r0 → dgz T k ∣ dgz T (k + 1)) :
    isSnfShape intOps T = true := by
  unfold isSnfShape
  rw [Bool.and_eq_true]
  constructor
  · rw [isDiag_iff lawful_int]
    exact hD
  · apply shapeL_of _ r0
    · intro k hk hkr; rw [diagL_getElem]; exact h1 k hkr
    · intro k hk hkr; rw [diagL_getElem]; exact h2 k hkr
    · intro k hk hkr; rw [diagL_getElem, diagL_getElem]; exact h3 k hkr

/-- what `firstZeroDiag` computes -/
theorem firstZeroDiag_spec (T : Mat Int m n) :
    firstZeroDiag intOps T ≤ min m n ∧ (∀ k, k < firstZeroDiag intOps T → dgz T k ≠ 0) ∧
      (firstZeroDiag intOps T < min m n → dgz T (firstZeroDiag intOps T) = 0) := by
  obtain ⟨h1, h2, h3⟩ := find_range_spec (fun i => intOps.toROps.isZero (dg intOps.toROps T i)) (min m n)
  refine ⟨h1, ?_, ?_⟩
  · intro k hk
    have := h2 k hk
    simpa using this
  · intro hlt
    have := h3 hlt
    simp only [int_isZero] at this
    exact this

/-- **post-condition of `diag_normalize`** (ℤ): on a diagonal matrix with the non-zero entries first, whenever it
returns, the checker `isSnfShape` accepts the result -/
theorem diagNormalize_post (dbg : Bool) (fuel : Nat) (s s' : St Int m n)
    (h : diagNormalize intOps dbg fuel s = .ok s') (hD : DiagZ s.t) (hN : NzFirst s.t) :
    isSnfShape intOps s'.t = true := by
  obtain ⟨z1, z2, z3⟩ := firstZeroDiag_spec s.t
  have htail : ∀ k, firstZeroDiag intOps s.t ≤ k → dgz s.t k = 0 := by
    intro k hk
    by_cases hlt : firstZeroDiag intOps s.t < min m n
    · exact hN _ k hk (z3 hlt)
    · unfold dgz dg; rw [dif_neg (by omega)]; rfl
  unfold diagNormalize at h
  split at h
  · cases h
  · split at h
    · rename_i hz
      injection h with h; subst h
      exact isSnfShape_of s.t 0 hD (fun k hk => absurd hk (Nat.not_lt_zero _))
        (fun k _ => htail k (by omega)) (fun k hk => absurd hk (Nat.not_lt_zero _))
    · split at h
      · rename_i s1 h1
        obtain ⟨o1, o2, o3⟩ := diagOuter_post dbg _ fuel s s1 h1 hD z2
        have hchain := diagOuter_chain dbg _ fuel s s1 h1
        obtain ⟨n1, n2⟩ := normalizeFold_post _ s1 s' h
        refine isSnfShape_of s'.t (firstZeroDiag intOps s.t) ?_ ?_ ?_ ?_
        · intro r c hrc
          rcases n1 r c with e | e <;> (rw [e, o1 r c hrc]; try rfl)
        · intro k hk
          have hne : dgz s'.t k ≠ 0 := by
            have := o2 k hk
            rcases n1.dgz_eq k with e | e <;> rw [e] <;> omega
          have := n2 k hk
          omega
        · intro k hk
          rcases n1.dgz_eq k with e | e <;> (rw [e, o3 k hk, htail k hk]; try rfl)
        · intro k hk
          have hk' : k + 1 < firstZeroDiag intOps s.t ∧ k + 1 < m ∧ k + 1 < n := ⟨hk, by omega, by omega⟩
          have hc := hchain k hk'
          rw [int_dvd] at hc
          have e1 : dgz s1.t k = s1.t.get ⟨k, Nat.lt_of_succ_lt hk'.2.1⟩ ⟨k, Nat.lt_of_succ_lt hk'.2.2⟩ :=
            dg_eq _ _ _ _ _
          have e2 : dgz s1.t (k + 1) = s1.t.get ⟨k + 1, hk'.2.1⟩ ⟨k + 1, hk'.2.2⟩ := dg_eq _ _ _ _ _
          rw [← e1, ← e2] at hc
          rcases n1.dgz_eq k with e | e <;> rcases n1.dgz_eq (k + 1) with f | f <;> rw [e, f]
          · exact hc.2
          · exact (Int.dvd_neg).2 hc.2
          · exact (Int.neg_dvd).2 hc.2
          · exact (Int.neg_dvd).2 ((Int.dvd_neg).2 hc.2)
      · cases h
      · cases h

/-- **snf_shape over ℤ** (code model, any preprocessing `pre`, any fuel, debug or release build): whenever
`SnfCalc::process` returns, the checker accepts its target -/
theorem snfCalc_shape_int (dbg : Bool) (pre : St Int m n → Res (St Int m n)) (fuel : Nat) (A : Mat Int m n)
    (s : St Int m n) (h : snfCalc intOps dbg pre fuel A = .ok s) : isSnfShape intOps s.t = true := by
  unfold snfCalc at h
  split at h
  · rename_i hz
    injection h with h; subst h
    have hz' : ∀ (i : Fin m) (j : Fin n), A.get i j = 0 := by
      intro i j
      have := congrFun (congrFun ((isZeroMat_iff lawful_int A).1 hz) i) j
      simpa using this
    refine isSnfShape_of _ 0 (fun r c _ => hz' r c) (fun k hk => absurd hk (Nat.not_lt_zero _)) ?_
      (fun k hk => absurd hk (Nat.not_lt_zero _))
    intro k _
    unfold dgz dg
    split
    · exact hz' _ _
    · rfl
  · split at h
    · rename_i s1 h1
      split at h
      · rename_i s2 h2
        obtain ⟨hD, hN⟩ := eliminateAll_post dbg fuel s1 s2 h2
        exact diagNormalize_post dbg fuel s2 s h hD hN
      · cases h
      · cases h
    · cases h
    · cases h

end Yuiv.C09
