import Yuiv.Proofs.KhiSpecCone
/-
KhiSpec — the parity lemma: reducing multiplicities mod 2 inside and outside of a `flatMap` does not change the parity
of the multiplicities of the result.
-/
namespace Yuiv.KhiSpec
open Yuiv Yuiv.KhRef Yuiv.C19

theorem count_nodup_odd (T : List IGen) (L : List IGen) (hT : T.Nodup) (hm : ∀ z, z ∈ T ↔ L.count z % 2 = 1) (z : IGen) :
    T.count z = L.count z % 2 := by
  by_cases h : z ∈ T
  · rw [List.count_eq_one_of_mem hT h, (hm z).1 h]
  · rw [List.count_eq_zero.2 h]
    have : ¬ L.count z % 2 = 1 := fun e => h ((hm z).2 e)
    omega

theorem sum_filter_ne (S : List IGen) (a : IGen) (hS : S.Nodup) (ha : a ∈ S) (f : IGen → ZMod 2) :
    (S.map f).sum = f a + ((S.filter (fun y => !(y == a))).map f).sum := by
  induction S with
  | nil => cases ha
  | cons b S ih =>
    have hnd := List.nodup_cons.1 hS
    by_cases e : b = a
    · subst e
      have : S.filter (fun y => !(y == b)) = S := by
        apply List.filter_eq_self.2
        intro y hy
        have : y ≠ b := fun e => hnd.1 (e ▸ hy)
        simp [this]
      rw [List.filter_cons]
      simp [this]
    · have ha' : a ∈ S := by
        rcases List.mem_cons.1 ha with h | h
        · exact absurd h.symm e
        · exact h
      rw [List.filter_cons]
      have : (!(b == a)) = true := by simp [e]
      rw [if_pos this, List.map_cons, List.sum_cons, List.map_cons, List.sum_cons, ih hnd.2 ha']
      ring

/-- sums over a list and over its parity reduction agree in `ZMod 2` -/
theorem sum_parity (A : List IGen) (f : IGen → ZMod 2) : ∀ (S : List IGen), S.Nodup →
    (∀ y, y ∈ S ↔ A.count y % 2 = 1) → (S.map f).sum = (A.map f).sum := by
  induction A with
  | nil =>
    intro S _ hSm
    have : S = [] := by
      apply List.eq_nil_iff_forall_not_mem.2
      intro y hy
      have := (hSm y).1 hy
      simp at this
    subst this; rfl
  | cons a A ih =>
    intro S hS hSm
    have hx : ∀ x : ZMod 2, x + x = 0 := by decide
    by_cases ha : a ∈ S
    · have hS' : (S.filter (fun y => !(y == a))).Nodup := hS.filter _
      have := ih (S.filter (fun y => !(y == a))) hS' (by
        intro y
        rw [List.mem_filter, hSm y, List.count_cons]
        by_cases e : a = y
        · subst e
          have h1 := (hSm a).1 ha
          rw [List.count_cons] at h1
          simp at h1 ⊢
          omega
        · have e' : ¬ y = a := fun h => e h.symm
          simp [e, e'])
      rw [sum_filter_ne S a hS ha f, this, List.map_cons, List.sum_cons]
    · have hS' : (a :: S).Nodup := List.nodup_cons.2 ⟨ha, hS⟩
      have := ih (a :: S) hS' (by
        intro y
        rw [List.mem_cons]
        by_cases e : a = y
        · subst e
          have h1 : ¬ List.count a (a :: A) % 2 = 1 := fun h => ha ((hSm a).2 h)
          rw [List.count_cons] at h1
          simp at h1 ⊢
          omega
        · have e' : ¬ y = a := fun h => e h.symm
          rw [hSm y, List.count_cons]
          simp [e, e'])
      rw [List.map_cons, List.sum_cons] at this
      rw [List.map_cons, List.sum_cons, ← this, ← add_assoc, hx, zero_add]

theorem parity_flatMap (A S : List IGen) (F T : IGen → List IGen) (hS : S.Nodup)
    (hSm : ∀ y, y ∈ S ↔ A.count y % 2 = 1) (hT : ∀ y, (T y).Nodup)
    (hTm : ∀ y z, z ∈ T y ↔ (F y).count z % 2 = 1) (z : IGen) :
    (S.flatMap T).count z % 2 = (A.flatMap F).count z % 2 := by
  rw [← ZMod.natCast_eq_natCast_iff' _ _ 2, List.count_flatMap, List.count_flatMap, Nat.cast_list_sum,
    Nat.cast_list_sum, List.map_map, List.map_map]
  have h1 : (Nat.cast ∘ List.count z ∘ T : IGen → ZMod 2) = (Nat.cast ∘ List.count z ∘ F : IGen → ZMod 2) := by
    funext y
    simp only [Function.comp]
    rw [count_nodup_odd (T y) (F y) (hT y) (hTm y) z, ZMod.natCast_mod]
  rw [h1]
  exact sum_parity A _ S hS hSm

end Yuiv.KhiSpec
