import Yuiv.Proofs.C07EucModel
import Yuiv.Proofs.C07Full
/-
C07 — the generic code (`Proofs/C07EucModel.lean`) instantiated at `C09.intOps` IS the `Int` model that the driver
runs (`Model/C07Calc.lean`, `Model/C07Trans.lean`) and that `Props/C07.lean`, `Props/C07Full.lean` are about:
under the bijection `Mat.toG : Mat → GMat Int` (same shape, same array) every function of the generic code
computes the image of what the `Int` function computes.  Most primitives agree by `rfl`.
-/
namespace Yuiv.C07
open Yuiv

/-- functorial action on results -/
def Res.mapR {α β : Type} (f : α → β) : Res α → Res β
  | .ok a => .ok (f a)
  | .panic => .panic
  | .err => .err

@[simp] theorem Res.mapR_ok {α β : Type} (f : α → β) (a : α) : Res.mapR f (.ok a) = .ok (f a) := rfl
@[simp] theorem Res.mapR_panic {α β : Type} (f : α → β) : Res.mapR f (.panic : Res α) = .panic := rfl
@[simp] theorem Res.mapR_err {α β : Type} (f : α → β) : Res.mapR f (.err : Res α) = .err := rfl

theorem Res.mapR_bind {α β γ : Type} (f : β → γ) (x : Res α) (g : α → Res β) :
    Res.mapR f (x >>= g) = x >>= fun a => Res.mapR f (g a) := by
  cases x <;> rfl

/-- `toG` is a bijection -/
@[simp] theorem GMat.toZ_toG (A : GMat Int) : A.toZ.toG = A := rfl
@[simp] theorem Mat.toG_toZ (A : Mat) : A.toG.toZ = A := rfl
theorem Mat.toG_injective : Function.Injective Mat.toG := fun A B h => by
  have := congrArg GMat.toZ h; simpa using this

/-! ### the primitives agree by `rfl` -/

local notation "oZ" => C09.intOps.toROps

@[simp] theorem toG_r (A : Mat) : A.toG.r = A.r := rfl
@[simp] theorem toG_c (A : Mat) : A.toG.c = A.c := rfl
@[simp] theorem toG_get (A : Mat) (i j : Nat) : A.toG.get oZ i j = A.get i j := rfl
theorem toG_ofFn (r c : Nat) (f : Nat → Nat → Int) : GMat.ofFn r c f = (Mat.ofFn r c f).toG := rfl
@[simp] theorem toG_id (n : Nat) : GMat.id oZ n = (Mat.id n).toG := rfl
@[simp] theorem toG_dot (A B : Mat) (i j : Nat) : GMat.dot oZ A.toG B.toG i j = Mat.dot A B i j := rfl
@[simp] theorem toG_mul (A B : Mat) : GMat.mul oZ A.toG B.toG = (A.mul B).toG := rfl
@[simp] theorem toG_isZero (A : Mat) : A.toG.isZero oZ = A.isZero := rfl
@[simp] theorem toG_rows (A : Mat) (lo hi : Nat) : A.toG.rows oZ lo hi = (A.rows lo hi).toG := rfl
@[simp] theorem toG_cols (A : Mat) (lo hi : Nat) : A.toG.cols oZ lo hi = (A.cols lo hi).toG := rfl
@[simp] theorem toG_stack (A B : Mat) : A.toG.stack oZ B.toG = (A.stack B).toG := rfl
@[simp] theorem toG_concat (A B : Mat) : A.toG.concat oZ B.toG = (A.concat B).toG := rfl

@[simp] theorem toG_rank (s : Snf) : s.toG.rank oZ = s.rank := rfl
@[simp] theorem toG_factors (s : Snf) : s.toG.factors oZ = s.factors := rfl

/-- `is_unit` of `i64`/`BigInt` (`±1`) is `isUnitZ` -/
theorem int_isUnit_eq (a : Int) : C09.intOps.isUnit a = isUnitZ a := by
  show (a == 1 || a == -1) = (a.natAbs == 1)
  rw [Bool.eq_iff_iff]
  simp only [Bool.or_eq_true, beq_iff_eq]
  omega

/-! ### the `Res`-valued primitives -/

theorem Res.bind_assoc' {α β γ : Type} (x : Res α) (f : α → Res β) (g : β → Res γ) :
    ((x >>= f) >>= g) = x >>= fun a => f a >>= g := by
  cases x <;> rfl

/-- binding a mapped result -/
theorem Res.bind_mapR {α β γ : Type} (f : α → β) (x : Res α) (g : β → Res γ) :
    (Res.mapR f x >>= g) = x >>= fun a => g (f a) := by
  cases x <;> rfl

theorem assert_mapR {α β : Type} (f : α → β) (c : Bool) (x : α) :
    (Res.assert c >>= fun _ => (pure (f x) : Res β)) = Res.mapR f (Res.assert c >>= fun _ => pure x) := by
  cases c <;> rfl

@[simp] theorem toG_rowsR (A : Mat) (lo hi : Nat) : rowsRG oZ A.toG lo hi = Res.mapR Mat.toG (rowsR A lo hi) := by
  unfold rowsRG rowsR; exact assert_mapR Mat.toG _ (A.rows lo hi)

@[simp] theorem toG_colsR (A : Mat) (lo hi : Nat) : colsRG oZ A.toG lo hi = Res.mapR Mat.toG (colsR A lo hi) := by
  unfold colsRG colsR; exact assert_mapR Mat.toG _ (A.cols lo hi)

@[simp] theorem toG_stackR (A B : Mat) : stackRG oZ A.toG B.toG = Res.mapR Mat.toG (stackR A B) := by
  unfold stackRG stackR; exact assert_mapR Mat.toG _ (A.stack B)

@[simp] theorem toG_concatR (A B : Mat) : concatRG oZ A.toG B.toG = Res.mapR Mat.toG (concatR A B) := by
  unfold concatRG concatR; exact assert_mapR Mat.toG _ (A.concat B)

@[simp] theorem toG_mulMat (A B : Mat) : GTrans.mulMat oZ A.toG B.toG = Res.mapR Mat.toG (Trans.mulMat A B) := by
  unfold GTrans.mulMat Trans.mulMat; exact assert_mapR Mat.toG _ (A.mul B)

@[simp] theorem toG_unwrap (x : Option Mat) : unwrap (x.map Mat.toG) = Res.mapR Mat.toG (unwrap x) := by
  cases x <;> rfl

@[simp] theorem toG_p (s : Snf) : s.toG.p = s.p.map Mat.toG := rfl
@[simp] theorem toG_pinv (s : Snf) : s.toG.pinv = s.pinv.map Mat.toG := rfl
@[simp] theorem toG_q (s : Snf) : s.toG.q = s.q.map Mat.toG := rfl
@[simp] theorem toG_qinv (s : Snf) : s.toG.qinv = s.qinv.map Mat.toG := rfl
@[simp] theorem toG_result (s : Snf) : s.toG.result = s.result.toG := rfl

@[simp] theorem toG_transNew (f b : Mat) : GTrans.new f.toG b.toG = Res.mapR Trans.toG (Trans.new f b) := by
  show (Res.assert (f.c == b.r) >>= fun _ => Res.assert (f.r == b.c) >>= fun _ =>
      Res.assert (f.c == f.c) >>= fun _ => (pure ⟨f.c, f.r, [] ++ [f.toG], [] ++ [b.toG]⟩ : Res (GTrans Int))) =
    Res.mapR Trans.toG (Res.assert (f.c == b.r) >>= fun _ => Res.assert (f.r == b.c) >>= fun _ =>
      Res.assert (f.c == f.c) >>= fun _ => (pure ⟨f.c, f.r, [] ++ [f], [] ++ [b]⟩ : Res Trans))
  generalize (f.c == b.r) = c1
  generalize (f.r == b.c) = c2
  generalize (f.c == f.c) = c3
  cases c1 <;> cases c2 <;> cases c3 <;> rfl

/-! ### `process_snf`, `result`, `trans`, `calculate` -/

theorem processSnfG_int (snf : SnfFn) (snfG : GSnfFn Int)
    (hsnf : ∀ A fl, snfG (Mat.toG A) fl = Res.mapR Snf.toG (snf A fl)) (d1 d2 : Mat) (wt : Bool) :
    processSnfG oZ snfG d1.toG d2.toG wt =
      Res.mapR (fun x : Snf × Snf => (x.1.toG, x.2.toG)) (processSnf snf d1 d2 wt) := by
  unfold processSnfG processSnf
  rw [hsnf, Res.bind_mapR, Res.mapR_bind]
  congr 1
  funext s1
  simp only [toG_rank, toG_r]
  by_cases h : s1.rank > 0
  · simp only [h, if_true, toG_pinv, toG_unwrap, toG_colsR, toG_mulMat, hsnf, Res.bind_mapR, Res.mapR_bind,
      Res.pure_eq, Res.mapR_ok]
  · simp only [h, if_false, hsnf, Res.bind_mapR, Res.mapR_bind, Res.pure_eq, Res.mapR_ok, Res.bind_ok]

theorem filter_isUnit_int (l : List Int) :
    l.filter (fun a => !C09.intOps.isUnit a) = l.filter (fun a => !isUnitZ a) := by
  apply List.filter_congr
  intro x _
  rw [int_isUnit_eq]

theorem calcResultG_int (s1 s2 : Snf) : calcResultG C09.intOps s1.toG s2.toG = calcResult s1 s2 := by
  unfold calcResultG calcResult
  simp only [toG_rank, toG_factors, filter_isUnit_int]
  rfl

theorem calcTransG_int (s1 s2 : Snf) :
    calcTransG C09.intOps s1.toG s2.toG = Res.mapR Trans.toG (calcTrans s1 s2) := by
  unfold calcTransG calcTrans
  simp only [toG_rank, toG_factors, filter_isUnit_int, toG_p, toG_pinv, toG_q, toG_qinv, toG_result, toG_r, toG_c,
    toG_unwrap, toG_rowsR, toG_colsR, toG_mulMat, toG_stackR, toG_concatR, toG_transNew,
    Res.bind_mapR, Res.mapR_bind, Res.bind_assoc']

/-- what `calculate` returns, transported -/
def ansToG (x : Nat × List Int × Option Trans) : Nat × List Int × Option (GTrans Int) :=
  (x.1, x.2.1, x.2.2.map Trans.toG)

/-- **the generic code at `intOps` is the `Int` model**: for SNF routines that correspond under `toG`,
`calculateG intOps` returns the image of what `calculate` returns (same panics, same fuel exhaustion) -/
theorem calculateG_int (snf : SnfFn) (snfG : GSnfFn Int)
    (hsnf : ∀ A fl, snfG (Mat.toG A) fl = Res.mapR Snf.toG (snf A fl)) (d1 d2 : Mat) (wt : Bool) :
    calculateG C09.intOps snfG d1.toG d2.toG wt = Res.mapR ansToG (calculate snf d1 d2 wt) := by
  unfold calculateG calculate
  simp only [toG_r, toG_c, toG_isZero]
  cases Res.assert (d1.r == d2.c) with
  | panic => rfl
  | err => rfl
  | ok _ =>
  simp only [Res.bind_ok]
  by_cases hz : (d1.isZero && d2.isZero) = true
  · simp only [hz, if_true]
    cases wt <;> rfl
  · simp only [hz, Bool.false_eq_true, if_false]
    rw [processSnfG_int snf snfG hsnf, Res.bind_mapR, Res.mapR_bind]
    congr 1; funext s12
    obtain ⟨s1, s2⟩ := s12
    simp only [calcResultG_int]
    rw [Res.mapR_bind]
    congr 1; funext rt
    obtain ⟨rank, tors⟩ := rt
    cases wt
    · rfl
    · simp only [if_true, calcTransG_int, Res.bind_mapR, Res.mapR_bind]
      rfl

/-! ### the adapter to C09 -/

theorem toC09G_int (A : Mat) : toC09G oZ A.toG = toC09 A := rfl
theorem ofC09G_int {m n : Nat} (B : C09.Mat Int m n) : ofC09G oZ B = (ofC09 B).toG := rfl
theorem ofStG_int {m n : Nat} (s : C09.St Int m n) (fl : SnfFlags) : ofStG oZ s fl = (ofSt s fl).toG := by
  obtain ⟨f1, f2, f3, f4⟩ := fl
  cases f1 <;> cases f2 <;> cases f3 <;> cases f4 <;> rfl

/-- the generic SNF adapter at `intOps` is `snfC09` -/
theorem snfC09G_int (fuel : Nat) (A : Mat) (fl : SnfFlags) :
    snfC09G C09.intOps fuel A.toG fl = Res.mapR Snf.toG (snfC09 fuel A fl) := by
  unfold snfC09G snfC09
  split
  · rename_i s1 h1
    split
    · rename_i s2 h2
      have := h1.symm.trans h2
      injection this with this
      subst this
      simp only [Res.mapR_ok, ofStG_int]
      rfl
    · rename_i h2; exact absurd (h1.symm.trans h2) (by simp)
    · rename_i h2; exact absurd (h1.symm.trans h2) (by simp)
  · rename_i h1
    split
    · rename_i s2 h2; exact absurd (h1.symm.trans h2) (by simp)
    · rfl
    · rename_i h2; exact absurd (h1.symm.trans h2) (by simp)
  · rename_i h1
    split
    · rename_i s2 h2; exact absurd (h1.symm.trans h2) (by simp)
    · rename_i h2; exact absurd (h1.symm.trans h2) (by simp)
    · rfl

/-- **the composite**: the generic `calculate` on the generic SNF adapter at `intOps` is the composite model
`calculate (snfC09 fuel)` of `Props/C07Full.lean` -/
theorem calculateG_snfC09_int (fuel : Nat) (d1 d2 : Mat) (wt : Bool) :
    calculateG C09.intOps (snfC09G C09.intOps fuel) d1.toG d2.toG wt =
      Res.mapR ansToG (calculate (snfC09 fuel) d1 d2 wt) :=
  calculateG_int (snfC09 fuel) (snfC09G C09.intOps fuel) (snfC09G_int fuel) d1 d2 wt

/-! ### `Trans::forward_mat`, `Trans::backward_mat` -/

theorem foldlM_toG (g : Mat → Mat → Res Mat) (gG : GMat Int → GMat Int → Res (GMat Int))
    (h : ∀ a b, gG a.toG b.toG = Res.mapR Mat.toG (g a b)) :
    ∀ (l : List Mat) (a : Mat), (l.map Mat.toG).foldlM gG a.toG = Res.mapR Mat.toG (l.foldlM g a)
  | [], a => rfl
  | x :: l, a => by
    rw [List.map_cons, List.foldlM_cons, List.foldlM_cons, h, Res.bind_mapR, Res.mapR_bind]
    congr 1; funext y
    exact foldlM_toG g gG h l y

theorem forwardMatG_int (t : Trans) : t.toG.forwardMat oZ = Res.mapR Mat.toG t.forwardMat := by
  obtain ⟨src, tgt, f, b⟩ := t
  unfold GTrans.forwardMat Trans.forwardMat Trans.toG
  match f with
  | [] => rfl
  | [x] => rfl
  | x :: y :: l =>
    show (List.foldlM (fun res f => GTrans.mulMat oZ res f) (Mat.id tgt).toG ((x :: y :: l).map Mat.toG).reverse) = _
    rw [← List.map_reverse]
    exact foldlM_toG _ _ (fun a b => toG_mulMat a b) _ _

theorem backwardMatG_int (t : Trans) : t.toG.backwardMat oZ = Res.mapR Mat.toG t.backwardMat := by
  obtain ⟨src, tgt, f, b⟩ := t
  unfold GTrans.backwardMat Trans.backwardMat Trans.toG
  match b with
  | [] => rfl
  | [x] => rfl
  | x :: y :: l =>
    show (List.foldlM (fun res b => GTrans.mulMat oZ b res) (Mat.id tgt).toG ((x :: y :: l).map Mat.toG).reverse) = _
    rw [← List.map_reverse]
    exact foldlM_toG (fun res b => Trans.mulMat b res) _ (fun a b => toG_mulMat b a) _ _

end Yuiv.C07
