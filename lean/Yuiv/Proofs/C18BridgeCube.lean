import Yuiv.Proofs.C04InvPerm
import Yuiv.Proofs.C04InvRen
import Yuiv.Proofs.C04InvEx
import Mathlib.Algebra.BigOperators.Group.Multiset.Basic
/-
C18 bridge (helper, no property theorem here): the RANKS OF THE CHAIN GROUPS of the reference cube
(`KhRef.mkCube` / `Cube.gensAt` / `Cube.qDeg`, grouped by `(h0 + popcount s, qDeg)` exactly as `khHomology` does)
in every bidegree are invariant under
  (i)  injective renumbering of the edge labels (`C04Inv.renumber f l`, `Set.InjOn f (labelSet l)`), and
  (ii) ANY permutation of the crossing list (`l'.toList.Perm l.toList`),
for every well-formed diagram (`C04Inv.WF l`), in the UNREDUCED theory (`p.reduced = false`, all `h`, `t`).

Route: the skein recursion of `C04InvPerm.lean` is generalised from the summand `x^w * y^c` in a commutative ring
to an arbitrary summand `F w c` in an additive commutative monoid (`skeinG`, `stateSumG_perm`).  With
`M = Multiset (ℕ × ℕ)`, `F w c = {(w, c)}` this says that the multiset of (state weight, circle count) pairs of the
cube is invariant; with `M = ℕ` and `F = rankAt …` it gives the chain ranks.
The REDUCED theory (and the statements for every `p`) is in `C18BridgeCube2.lean`.
-/
open Yuiv Yuiv.KhRef Yuiv.C04 Yuiv.C04Inv
namespace Yuiv.C18Bridge

section skein
variable {M : Type} [AddCommMonoid M]

/-- the state sum with summand `F (weight) (class count)` by recursion over the crossing list -/
noncomputable def skeinG (L : Set Nat) (F : Nat → Nat → M) : List Crossing → Nat → List (Nat × Nat) → M
  | [], w, P => F w (classCount L P)
  | c :: cs, w, P =>
    if c.ct.isResolved then skeinG L F cs w (P ++ arcs c c.ct)
    else skeinG L F cs w (P ++ arcs c (c.ct.resolve false)) + skeinG L F cs (w + 1) (P ++ arcs c (c.ct.resolve true))

theorem sum_range_doubleG (N : Nat) (g : Nat → M) :
    ∑ s ∈ Finset.range (2 * N), g s = ∑ t ∈ Finset.range N, (g (2 * t) + g (2 * t + 1)) := by
  induction N with
  | zero => simp
  | succ N ih =>
    rw [show 2 * (N + 1) = 2 * N + 1 + 1 by ring, Finset.sum_range_succ, Finset.sum_range_succ, ih,
      Finset.sum_range_succ, add_assoc]

theorem stateSumG_eq_skeinG (L : Set Nat) (F : Nat → Nat → M) (cs : List Crossing) (w : Nat) (P : List (Nat × Nat)) :
    ∑ s ∈ Finset.range (2 ^ nUnres cs),
        F (w + popcount s (nUnres cs)) (classCount L (P ++ pairsL cs (resTypes cs s)))
      = skeinG L F cs w P := by
  induction cs generalizing w P with
  | nil => simp [nUnres, skeinG, pairsL, popcount_zero_bits, one_nsmul]
  | cons c cs ih =>
    by_cases h : c.ct.isResolved
    · simp only [nUnres, skeinG, h, if_true, resTypes, pairsL]
      rw [← ih]
      simp only [List.append_assoc]
    · have h' : c.ct.isResolved = false := by simpa using h
      simp only [nUnres, skeinG, h', resTypes, pairsL, Bool.false_eq_true, if_false]
      rw [pow_succ, Nat.mul_comm, sum_range_doubleG, ← ih, ← ih, ← Finset.sum_add_distrib]
      apply Finset.sum_congr rfl
      intro t _
      rw [popcount_succ', popcount_succ']
      have e0 : (2 * t).testBit 0 = false := by simp [Nat.testBit_zero]
      have e1 : (2 * t + 1).testBit 0 = true := by simp [Nat.testBit_zero]
      have d0 : 2 * t / 2 = t := by omega
      have d1 : (2 * t + 1) / 2 = t := by omega
      simp only [e0, e1, d0, d1, List.append_assoc, if_true]
      simp [Nat.add_assoc]

theorem skeinG_congr (L : Set Nat) (F : Nat → Nat → M) (cs : List Crossing) (w : Nat) {P P' : List (Nat × Nat)}
    (h : ∀ p, p ∈ P ↔ p ∈ P') : skeinG L F cs w P = skeinG L F cs w P' := by
  induction cs generalizing w P P' with
  | nil => simp only [skeinG]; rw [classCount_congr rfl h]
  | cons c cs ih =>
    have hA : ∀ A : List (Nat × Nat), ∀ p, p ∈ P ++ A ↔ p ∈ P' ++ A := by
      intro A p; simp [List.mem_append, h p]
    simp only [skeinG]
    rw [ih w (hA _), ih w (hA _), ih (w + 1) (hA _)]

theorem skeinG_perm (L : Set Nat) (F : Nat → Nat → M) {cs cs' : List Crossing} (hp : cs.Perm cs') (w : Nat)
    (P : List (Nat × Nat)) : skeinG L F cs w P = skeinG L F cs' w P := by
  induction hp generalizing w P with
  | nil => rfl
  | cons c _ ih => simp only [skeinG, ih]
  | swap c1 c2 cs =>
    have hsw : ∀ A B : List (Nat × Nat), ∀ p, p ∈ (P ++ A) ++ B ↔ p ∈ (P ++ B) ++ A := by
      intro A B p; simp only [List.mem_append]; tauto
    simp only [skeinG]
    cases h1 : c1.ct.isResolved <;> cases h2 : c2.ct.isResolved <;>
      simp only [Bool.false_eq_true, if_true, if_false]
    · rw [skeinG_congr L F cs w (hsw (arcs c2 (c2.ct.resolve false)) (arcs c1 (c1.ct.resolve false))),
        skeinG_congr L F cs (w + 1) (hsw (arcs c2 (c2.ct.resolve false)) (arcs c1 (c1.ct.resolve true))),
        skeinG_congr L F cs (w + 1) (hsw (arcs c2 (c2.ct.resolve true)) (arcs c1 (c1.ct.resolve false))),
        skeinG_congr L F cs (w + 1 + 1) (hsw (arcs c2 (c2.ct.resolve true)) (arcs c1 (c1.ct.resolve true)))]
      exact add_add_add_comm _ _ _ _
    · rw [skeinG_congr L F cs w (hsw _ _), skeinG_congr L F cs (w + 1) (hsw _ _)]
    · rw [skeinG_congr L F cs w (hsw _ _), skeinG_congr L F cs (w + 1) (hsw _ _)]
    · exact skeinG_congr L F cs w (hsw _ _)
  | trans _ _ ih1 ih2 => rw [ih1, ih2]

/-- the state sum of the model (summand an arbitrary function of the state weight and the circle count) equals the
skein expansion over the crossing list -/
theorem stateSumG_link (F : Nat → Nat → M) (l : Link) (hwf : WF l) :
    ∑ s ∈ Finset.range (2 ^ crossingNum l), F (popcount s (crossingNum l)) (circleCount l s)
      = skeinG (labelSet l) F l.toList 0 [] := by
  rw [← stateSumG_eq_skeinG, crossingNum_eq]
  apply Finset.sum_congr rfl
  intro s _
  rw [(circleCount_eq l hwf s).1]
  simp [statePairs]

/-- (ii) for EVERY summand `F (state weight) (circle count)` with values in an additive commutative monoid, the sum
over all states of the cube is invariant under any permutation of the crossing list -/
theorem stateSumG_perm (F : Nat → Nat → M) {l l' : Link} (hwf : WF l) (hp : l'.toList.Perm l.toList) :
    ∑ s ∈ Finset.range (2 ^ crossingNum l'), F (popcount s (crossingNum l')) (circleCount l' s)
      = ∑ s ∈ Finset.range (2 ^ crossingNum l), F (popcount s (crossingNum l)) (circleCount l s) := by
  rw [stateSumG_link F l hwf, stateSumG_link F l' (WF_perm hp hwf), labelSet_perm hp]
  exact skeinG_perm _ F hp 0 []

/-- (i) the same for injective renumbering of the edge labels (here even termwise) -/
theorem stateSumG_renumber (F : Nat → Nat → M) {f : Nat → Nat} (l : Link) (hf : Set.InjOn f (labelSet l))
    (hwf : WF l) :
    ∑ s ∈ Finset.range (2 ^ crossingNum (renumber f l)),
        F (popcount s (crossingNum (renumber f l))) (circleCount (renumber f l) s)
      = ∑ s ∈ Finset.range (2 ^ crossingNum l), F (popcount s (crossingNum l)) (circleCount l s) := by
  rw [crossingNum_renumber]
  apply Finset.sum_congr rfl
  intro s _
  rw [circleCount_renumber_on l hf hwf s]

end skein

/-- the multiset of (state weight, circle count) pairs over all `2^n` states of the cube -/
def weightCircle (l : Link) : Multiset (Nat × Nat) :=
  ∑ s ∈ Finset.range (2 ^ crossingNum l), {(popcount s (crossingNum l), circleCount l s)}

/-- (ii) the multiset of (state weight, circle count) pairs of the cube is invariant under any permutation of the
crossing list -/
theorem weightCircle_multiset_perm {l l' : Link} (hwf : WF l) (hp : l'.toList.Perm l.toList) :
    weightCircle l' = weightCircle l :=
  stateSumG_perm (fun w c => ({(w, c)} : Multiset (Nat × Nat))) hwf hp

/-- (i) … and under injective renumbering of the edge labels -/
theorem weightCircle_multiset_renumber {f : Nat → Nat} (l : Link) (hf : Set.InjOn f (labelSet l)) (hwf : WF l) :
    weightCircle (renumber f l) = weightCircle l :=
  stateSumG_renumber (fun w c => ({(w, c)} : Multiset (Nat × Nat))) l hf hwf

/-! ### chain-group ranks of the reference cube -/

/-- rank of the chain group of the reference cube in bidegree `(i, j)`: the number of generators `g = (s, mask)`
(over all states `s < 2^n`) with `-nNeg + popcount s = i` and `qDeg q0 g = j`, `q0 = nPos − 2 nNeg (+1 if reduced)` —
exactly the grouping used by `KhRef.khHomology` (`h0 = -nNeg`, bigraded case) -/
def chainRank (l : Link) (p : Params) (nPos nNeg : Nat) (i j : Int) : Nat :=
  let c := mkCube l p
  let q0 : Int := (nPos : Int) - 2 * nNeg + (if p.reduced then 1 else 0)
  ∑ s ∈ Finset.range (2 ^ c.n),
    ((c.gensAt s).filter (fun g => decide (-(nNeg : Int) + popcount s c.n = i) && decide (c.qDeg q0 g = j))).size

/-- rank of the chain group in homological degree `i` alone (all `q`; the grouping of `khHomology` when not bigraded) -/
def chainRankH (l : Link) (p : Params) (nNeg : Nat) (i : Int) : Nat :=
  let c := mkCube l p
  ∑ s ∈ Finset.range (2 ^ c.n),
    ((c.gensAt s).filter (fun _ => decide (-(nNeg : Int) + popcount s c.n = i))).size

/-- contribution of ONE vertex of weight `w` with `r` circles to bidegree `(i, j)` (unreduced theory): the number of
masks `m < 2^r` with `q0 − 2·popcount m + r + w = j`, if `h0 + w = i` -/
def rankAt (h0 q0 i j : Int) (w r : Nat) : Nat :=
  ((Array.range (2 ^ r)).filter
    (fun m => decide (h0 + (w : Int) = i) && decide (q0 + (-2 : Int) * popcount m r + r + w = j))).size

def rankAtH (h0 i : Int) (w r : Nat) : Nat :=
  ((Array.range (2 ^ r)).filter (fun _ => decide (h0 + (w : Int) = i))).size

theorem mkCube_n' (l : Link) (p : Params) : (mkCube l p).n = crossingNum l := rfl

theorem mkCube_base' (l : Link) (p : Params) (hp : p.reduced = false) : (mkCube l p).base = none := by
  simp [mkCube, hp]

theorem mkCube_circ' (l : Link) (p : Params) (s : Nat) (hs : s < 2 ^ crossingNum l) :
    (mkCube l p).circ[s]! = circles l (edgeLabels l) s := by
  show ((Array.range (2 ^ crossingNum l)).map (fun s => circles l (edgeLabels l) s))[s]! = _
  rw [getElem!_pos _ _ (by simpa using hs)]
  simp [Array.getElem_range]

theorem mkCube_gensAt' (l : Link) (p : Params) (hp : p.reduced = false) (s : Nat) (hs : s < 2 ^ crossingNum l) :
    (mkCube l p).gensAt s = (Array.range (2 ^ circleCount l s)).map (fun m => Gen.mk s m) := by
  unfold Cube.gensAt Cube.baseCircle
  simp only [mkCube_base' l p hp, mkCube_circ' l p s hs]
  rfl

theorem mkCube_qDeg' (l : Link) (p : Params) (q0 : Int) (s m : Nat) (hs : s < 2 ^ crossingNum l) :
    (mkCube l p).qDeg q0 ⟨s, m⟩ =
      q0 + (-2 : Int) * popcount m (circleCount l s) + circleCount l s + popcount s (crossingNum l) := by
  unfold Cube.qDeg
  simp only [mkCube_circ' l p s hs, mkCube_n']
  rfl

/-- in the unreduced theory the chain rank is a state sum whose summand depends on (weight, circle count) only -/
theorem chainRank_eq_stateSum (l : Link) (p : Params) (hp : p.reduced = false) (nPos nNeg : Nat) (i j : Int) :
    chainRank l p nPos nNeg i j =
      ∑ s ∈ Finset.range (2 ^ crossingNum l),
        rankAt (-(nNeg : Int)) ((nPos : Int) - 2 * nNeg) i j (popcount s (crossingNum l)) (circleCount l s) := by
  unfold chainRank
  simp only [mkCube_n', hp, Bool.false_eq_true, if_false, add_zero]
  apply Finset.sum_congr rfl
  intro s hs
  have hs' : s < 2 ^ crossingNum l := Finset.mem_range.mp hs
  rw [mkCube_gensAt' l p hp s hs', Array.filter_map, Array.size_map]
  unfold rankAt
  congr 2
  funext m
  simp only [Function.comp, mkCube_qDeg' l p _ s m hs']
  rfl

theorem chainRankH_eq_stateSum (l : Link) (p : Params) (hp : p.reduced = false) (nNeg : Nat) (i : Int) :
    chainRankH l p nNeg i =
      ∑ s ∈ Finset.range (2 ^ crossingNum l),
        rankAtH (-(nNeg : Int)) i (popcount s (crossingNum l)) (circleCount l s) := by
  unfold chainRankH
  simp only [mkCube_n']
  apply Finset.sum_congr rfl
  intro s hs
  have hs' : s < 2 ^ crossingNum l := Finset.mem_range.mp hs
  rw [mkCube_gensAt' l p hp s hs', Array.filter_map, Array.size_map]
  rfl

/-- (i) the ranks of the chain groups of the reference cube (unreduced theory, every bidegree, every `h`, `t`) are
invariant under injective renumbering of the edge labels -/
theorem chainRank_renumber {f : Nat → Nat} (l : Link) (hf : Set.InjOn f (labelSet l)) (hwf : WF l)
    (p : Params) (hp : p.reduced = false) (nPos nNeg : Nat) (i j : Int) :
    chainRank (renumber f l) p nPos nNeg i j = chainRank l p nPos nNeg i j := by
  rw [chainRank_eq_stateSum _ p hp, chainRank_eq_stateSum _ p hp]
  exact stateSumG_renumber _ l hf hwf

/-- (ii) … and under ANY permutation of the crossing list -/
theorem chainRank_perm {l l' : Link} (hwf : WF l) (hperm : l'.toList.Perm l.toList)
    (p : Params) (hp : p.reduced = false) (nPos nNeg : Nat) (i j : Int) :
    chainRank l' p nPos nNeg i j = chainRank l p nPos nNeg i j := by
  rw [chainRank_eq_stateSum _ p hp, chainRank_eq_stateSum _ p hp]
  exact stateSumG_perm _ hwf hperm

/-- (i)+(ii) combined -/
theorem chainRank_renumber_perm {f : Nat → Nat} {l l' : Link} (hf : Set.InjOn f (labelSet l)) (hwf : WF l)
    (hperm : l'.toList.Perm (renumber f l).toList) (p : Params) (hp : p.reduced = false) (nPos nNeg : Nat) (i j : Int) :
    chainRank l' p nPos nNeg i j = chainRank l p nPos nNeg i j := by
  rw [chainRank_perm (WF_renumber hwf) hperm p hp, chainRank_renumber l hf hwf p hp]

theorem chainRankH_renumber {f : Nat → Nat} (l : Link) (hf : Set.InjOn f (labelSet l)) (hwf : WF l)
    (p : Params) (hp : p.reduced = false) (nNeg : Nat) (i : Int) :
    chainRankH (renumber f l) p nNeg i = chainRankH l p nNeg i := by
  rw [chainRankH_eq_stateSum _ p hp, chainRankH_eq_stateSum _ p hp]
  exact stateSumG_renumber _ l hf hwf

theorem chainRankH_perm {l l' : Link} (hwf : WF l) (hperm : l'.toList.Perm l.toList)
    (p : Params) (hp : p.reduced = false) (nNeg : Nat) (i : Int) :
    chainRankH l' p nNeg i = chainRankH l p nNeg i := by
  rw [chainRankH_eq_stateSum _ p hp, chainRankH_eq_stateSum _ p hp]
  exact stateSumG_perm _ hwf hperm

/-! ### non-vacuity: the hypotheses hold for the trefoil with a rotated crossing list and with `f x = 10 x + 3` -/

example : WF trefoil := by
  intro c hc; simp [trefoil] at hc; rcases hc with rfl | rfl | rfl <;> rfl

/-- the trefoil with its crossings rotated (3rd, 1st, 2nd): same multiset of (weight, circle count) pairs and same
chain ranks in every bidegree, for every unreduced Frobenius algebra `(h, t)` -/
example : weightCircle #[⟨.X, #[5, 2, 6, 3]⟩, ⟨.X, #[1, 4, 2, 5]⟩, ⟨.X, #[3, 6, 4, 1]⟩] = weightCircle trefoil :=
  weightCircle_multiset_perm
    (by intro c hc; simp [trefoil] at hc; rcases hc with rfl | rfl | rfl <;> rfl)
    (by
      show List.Perm [_, _, _] [_, _, _]
      exact (List.Perm.swap _ _ _).trans (List.Perm.cons _ (List.Perm.swap _ _ _)))

example (h t i j : Int) :
    chainRank #[⟨.X, #[5, 2, 6, 3]⟩, ⟨.X, #[1, 4, 2, 5]⟩, ⟨.X, #[3, 6, 4, 1]⟩] ⟨h, t, false⟩ 0 3 i j
      = chainRank trefoil ⟨h, t, false⟩ 0 3 i j :=
  chainRank_perm
    (by intro c hc; simp [trefoil] at hc; rcases hc with rfl | rfl | rfl <;> rfl)
    (by
      show List.Perm [_, _, _] [_, _, _]
      exact (List.Perm.swap _ _ _).trans (List.Perm.cons _ (List.Perm.swap _ _ _)))
    _ rfl _ _ _ _

/-- the relabelled trefoil (`x ↦ 10 x + 3`) -/
example (h t i j : Int) :
    chainRank (renumber (fun x => 10 * x + 3) trefoil) ⟨h, t, false⟩ 0 3 i j = chainRank trefoil ⟨h, t, false⟩ 0 3 i j :=
  chainRank_renumber trefoil (Function.Injective.injOn (by intro a b h; dsimp only at h; omega))
    (by intro c hc; simp [trefoil] at hc; rcases hc with rfl | rfl | rfl <;> rfl) _ rfl _ _ _ _

example : weightCircle (renumber (fun x => 10 * x + 3) trefoil) = weightCircle trefoil :=
  weightCircle_multiset_renumber trefoil (Function.Injective.injOn (by intro a b h; dsimp only at h; omega))
    (by intro c hc; simp [trefoil] at hc; rcases hc with rfl | rfl | rfl <;> rfl)

/-- the summand is not constant: one vertex of weight 3 with 3 circles contributes 3 generators to bidegree
`(0, -2)` of the left-handed trefoil (`nNeg = 3`) and none to `(0, -3)` -/
example : rankAt (-3) (-6) 0 (-2) 3 3 = 3 ∧ rankAt (-3) (-6) 0 (-3) 3 3 = 0 := by decide

end Yuiv.C18Bridge
