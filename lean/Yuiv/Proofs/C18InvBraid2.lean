import Mathlib.Algebra.BigOperators.Group.Finset.Sigma
import Mathlib.Algebra.BigOperators.Group.Finset.Basic
import Yuiv.Proofs.C18InvBraid
import Yuiv.Proofs.C18InvMain
/-
C18Inv — braid closures, part 2 (T3): on the closure of a braid word EVERY orientation consistent with the
under-strand directions of the code has the same writhe as the braid orientation, namely the exponent sum.

Two such orientations differ by reversing some components that never pass under.  Let `D` be the set of slots
where they differ: `D` is closed under `thru` and `partner`, contains no slot 0 or 2, and contains slot 1 of a
crossing iff it contains slot 3.  With the strand position `slotPos` (a function of the LABEL, so both ends of an
edge have the same position) the sum over `D` of `± slotPos` (`+` at entrances, `-` at exits of the braid
orientation) vanishes because `partner` is an involution of `D` exchanging entrances and exits
(`Finset.sum_nbij'`); crossing by crossing the same sum is `Σ_{i : D(i,1)} sign(w[i])`.  Hence the crossings whose
sign is flipped have total sign 0 (`closure_flip_sum`), and the writhe is unchanged (`closure_writhe_any_orient`).

With the orientation theorem `crossingSigns_orient'` (`Proofs/C18InvOri.lean`) this gives `closure_writhe'`:
the MODEL's `writhe` of a braid closure is the exponent sum of the word.
-/
namespace Yuiv.C18
open Yuiv Finset

theorem br_writheOf_append (a b : List Sign) : writheOf (a ++ b) = writheOf a + writheOf b := by
  unfold writheOf
  simp only [List.count_append]
  omega

/-- the writhe of a list of signs indexed by `0..n` as a sum -/
theorem br_writheOf_map_range (g : Nat → Sign) (n : Nat) :
    writheOf ((List.range n).map g) = ∑ i ∈ range n, (g i).toInt := by
  induction n with
  | zero => rfl
  | succ n ih =>
    rw [List.range_succ, List.map_append, br_writheOf_append, ih, Finset.sum_range_succ]
    simp only [List.map_cons, List.map_nil]
    cases g n <;> rfl

/-- on a closure the signs of ANY orientation: crossing `i` is negative iff the over-strand enters at slot 1 -/
theorem BForm.signsOf_eq {strands : Nat} {w : List Int} {l : Link} {ins outs : List Nat}
    (hB : BForm strands w l ins outs) (O' : Nat × Nat → Bool) :
    signsOf l O' = (List.range w.length).map (fun i => if O' (i, 1) then Sign.neg else Sign.pos) := by
  unfold signsOf
  rw [hB.len, ← List.filterMap_eq_map]
  apply br_filterMap_congr'
  intro i hi
  unfold C18.sgnAt
  rw [(hB.at i (List.mem_range.1 hi)).1]
  show _ = some (if O' (i, 1) = true then Sign.neg else Sign.pos)
  cases O' (i, 1) <;> rfl

theorem br_bne_not_not (a b : Bool) : ((!a) != (!b)) = (a != b) := by cases a <;> cases b <;> rfl

theorem Obraid_1 (w : List Int) (i : Nat) : Obraid w (i, 1) = decide (w.getD i 0 < 0) := by
  rw [Obraid_eq]; unfold ob2; simp

theorem Obraid_3 (w : List Int) (i : Nat) : Obraid w (i, 3) = decide (w.getD i 0 > 0) := by
  rw [Obraid_eq]; unfold ob2; simp

/-- the over-strands whose direction is flipped (`D`: a set of slots closed under `partner`, avoiding the
under-strand slots 0, 2 and containing both or none of the slots 1, 3 of each crossing) contribute signed
crossing number 0: along them the strand position changes by `-sign` at every crossing and every edge keeps the
position (`slotPos_partner`), so the total change `-Σ sign` over the closed-up strands vanishes. -/
theorem closure_flip_sum {strands : Nat} {w : List Int} {l : Link} {ins outs : List Nat}
    (hB : BForm strands w l ins outs) (hv : Valid l) (hO : Orient l (Obraid w))
    (D : Nat × Nat → Bool) (hDp : ∀ h, HE l h → D (partner l h) = D h)
    (hD0 : ∀ i, i < w.length → D (i, 0) = false) (hD2 : ∀ i, i < w.length → D (i, 2) = false)
    (hD3 : ∀ i, i < w.length → D (i, 3) = D (i, 1)) :
    ∑ i ∈ range w.length, (if D (i, 1) then (braidSign (w.getD i 0)).toInt else 0) = 0 := by
  let F : Nat × Nat → Int := fun h =>
    if Obraid w h then (slotPos strands w l h : Int) else - (slotPos strands w l h : Int)
  let T : Finset (Nat × Nat) := ((range w.length) ×ˢ (range 4)).filter (fun h => D h = true)
  have hmem : ∀ h, h ∈ T ↔ HE l h ∧ D h = true := by
    intro h
    simp only [T, mem_filter, mem_product, mem_range, HE, hB.len]
  have hmap : ∀ a ∈ T, partner l a ∈ T := by
    intro a ha
    rw [hmem] at ha ⊢
    exact ⟨(partner_spec l hv a ha.1).1, by rw [hDp a ha.1]; exact ha.2⟩
  have hinv : ∀ a ∈ T, partner l (partner l a) = a := by
    intro a ha
    exact (partner_spec l hv a ((hmem a).1 ha).1).2.2.2
  have h1 : ∑ h ∈ T, F h = ∑ h ∈ T, - F h := by
    apply Finset.sum_nbij' (partner l) (partner l) hmap hmap hinv hinv
    intro a ha
    have hh := ((hmem a).1 ha).1
    simp only [F]
    rw [hO.partner_eq a hh, slotPos_partner strands w l hv a hh]
    cases Obraid w a <;> simp
  have h2 : ∑ h ∈ T, F h = 0 := by
    rw [Finset.sum_neg_distrib] at h1; omega
  have h3 : ∑ h ∈ T, F h
      = ∑ i ∈ range w.length, (if D (i, 1) then (braidSign (w.getD i 0)).toInt else 0) := by
    simp only [T]
    rw [Finset.sum_filter, Finset.sum_product]
    apply Finset.sum_congr rfl
    intro i hi
    rw [mem_range] at hi
    simp only [Finset.sum_range_succ, Finset.sum_range_zero, hD0 i hi, hD2 i hi, hD3 i hi]
    obtain ⟨_, p1, _, p3⟩ := hB.pos_slot i hi
    have hnz := (hB.cr i hi).1
    cases hd : D (i, 1)
    · simp
    · simp only [F, Obraid_1, Obraid_3, p1, p3]
      unfold braidSign
      generalize w.getD i 0 = s at hnz ⊢
      by_cases hs : s > 0
      · have hs' : ¬ s < 0 := by omega
        simp only [hs, hs', decide_true, decide_false, if_true, if_false, Bool.false_eq_true, Sign.toInt]
        omega
      · have hs' : s < 0 := by omega
        simp only [hs, hs', decide_true, decide_false, if_true, if_false, Bool.false_eq_true, Sign.toInt]
        omega
  rw [← h3, h2]

/-- T3: on the closure of a braid word EVERY orientation that is consistent with the under-strand directions of
the code has the writhe of the braid orientation -/
theorem closure_writhe_any_orient (strands : Nat) (w : List Int) (l : Link) (h : closure strands w = .ok l)
    (O' : Nat × Nat → Bool) (hO' : Orient l O') (hU' : UnderIn l O') :
    writheOf (signsOf l O') = writheOf (signsOf l (Obraid w)) := by
  obtain ⟨ins, outs, hB⟩ := closure_bform strands w l h
  have hv := closure_valid' strands w l h
  obtain ⟨hO, hU⟩ := closure_orient strands w l h
  let D : Nat × Nat → Bool := fun h => O' h != Obraid w h
  have hDt : ∀ h, HE l h → D (thru l h) = D h := by
    intro h hh
    simp only [D]
    rw [hO.thru_eq h hh, hO'.thru_eq h hh, br_bne_not_not]
  have hDp : ∀ h, HE l h → D (partner l h) = D h := by
    intro h hh
    simp only [D]
    rw [hO.partner_eq h hh, hO'.partner_eq h hh, br_bne_not_not]
  have hD0 : ∀ i, i < w.length → D (i, 0) = false := by
    intro i hi
    simp only [D]
    rw [hU i (hB.len ▸ hi), hU' i (hB.len ▸ hi)]; rfl
  have hD2 : ∀ i, i < w.length → D (i, 2) = false := by
    intro i hi
    have e : thru l (i, 0) = (i, 2) := br_thru_X l i 0 (hB.at i hi).1
    have := hDt (i, 0) ⟨hB.len ▸ hi, by omega⟩
    rw [e, hD0 i hi] at this
    exact this
  have hD3 : ∀ i, i < w.length → D (i, 3) = D (i, 1) := by
    intro i hi
    have e : thru l (i, 1) = (i, 3) := br_thru_X l i 1 (hB.at i hi).1
    have := hDt (i, 1) ⟨hB.len ▸ hi, by omega⟩
    rw [e] at this
    exact this
  have hz := closure_flip_sum hB hv hO D hDp hD0 hD2 hD3
  rw [hB.signsOf_eq O', hB.signsOf_eq (Obraid w), br_writheOf_map_range, br_writheOf_map_range]
  have key : ∀ i ∈ range w.length, (if O' (i, 1) then Sign.neg else Sign.pos).toInt
      = (if Obraid w (i, 1) then Sign.neg else Sign.pos).toInt
        + (-(if D (i, 1) then (braidSign (w.getD i 0)).toInt else 0)
            + -(if D (i, 1) then (braidSign (w.getD i 0)).toInt else 0)) := by
    intro i hi
    rw [mem_range] at hi
    have hnz := (hB.cr i hi).1
    simp only [D, Obraid_1]
    unfold braidSign
    generalize w.getD i 0 = s at hnz ⊢
    by_cases hs : s > 0
    · have hs' : ¬ s < 0 := by omega
      cases O' (i, 1) <;> simp [hs, hs', Sign.toInt]
    · have hs' : s < 0 := by omega
      cases O' (i, 1) <;> simp [hs, hs', Sign.toInt]
  rw [Finset.sum_congr rfl key, Finset.sum_add_distrib, Finset.sum_add_distrib, Finset.sum_neg_distrib, hz]
  simp

/-- the writhe computed by the model of `Link::writhe` on a braid closure is the exponent sum of the word (the
walk of `crossing_signs` may orient a component that never passes under against the braid direction; this does
not change the writhe) -/
theorem closure_writhe' (strands : Nat) (w : List Int) (l : Link) (h : closure strands w = .ok l) :
    writhe l = .ok (expSum w) := by
  have hv := closure_valid' strands w l h
  obtain ⟨hO, hU⟩ := closure_orient strands w l h
  obtain ⟨O', hO', hU', hs⟩ := crossingSigns_orient' l hv _ hO hU
  rw [(writhe_of_signs l _ hs).2, closure_writhe_any_orient strands w l h O' hO' hU',
    closure_writhe_braid strands w l h]

/-- … and the signed crossing numbers differ by the exponent sum -/
theorem closure_signedCrossingNums' (strands : Nat) (w : List Int) (l : Link) (h : closure strands w = .ok l) :
    ∃ p n, signedCrossingNums l = .ok (p, n) ∧ (p : Int) - (n : Int) = expSum w ∧ p + n = w.length := by
  have hv := closure_valid' strands w l h
  obtain ⟨ins, outs, hB⟩ := closure_bform strands w l h
  obtain ⟨hO, hU⟩ := closure_orient strands w l h
  obtain ⟨O', hO', hU', hs⟩ := crossingSigns_orient' l hv _ hO hU
  refine ⟨_, _, (writhe_of_signs l _ hs).1, ?_, ?_⟩
  · have := closure_writhe_any_orient strands w l h O' hO' hU'
    rw [closure_writhe_braid strands w l h] at this
    exact this
  · rw [hB.signsOf_eq O']
    have : ∀ (L : List Sign), L.count .pos + L.count .neg = L.length := by
      intro L
      induction L with
      | nil => rfl
      | cons a r ih => cases a <;> simp <;> omega
    rw [this]; simp

/-! non-vacuity: `closure 2 [1,-1]` has a component that only passes over; the model walks it against the braid
direction (signs `[neg, pos]` instead of `[pos, neg]`), same writhe -/
example : closure 2 [1, -1] = .ok (fromPD [[0, 2, 3, 1], [3, 2, 0, 1]]) := by decide
example : crossingSigns (fromPD [[0, 2, 3, 1], [3, 2, 0, 1]]) = .ok [.neg, .pos] := by decide
example : signsOf (fromPD [[0, 2, 3, 1], [3, 2, 0, 1]]) (Obraid [1, -1]) = [.pos, .neg] := by decide
example : writhe (fromPD [[0, 2, 3, 1], [3, 2, 0, 1]]) = .ok (expSum [1, -1]) := by decide

end Yuiv.C18
