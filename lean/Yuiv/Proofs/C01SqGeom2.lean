import Yuiv.Proofs.C01SqGeom1
import Yuiv.Proofs.C01SqBridge
/-
C01Sq — from the arc relations to circle NAMES (helper).

`N cs e` = the circle (name) of `cs` through the label `e`.  `Mrg Pf Pc csf csc p r`: the relation `Conn Pc` is the
relation `Conn Pf` with the (different) classes of `p` and `r` merged; then the circle lists differ by the merge
`N csf p, N csf r ↦ N csc p` (`MergeRel`), and every circle through a label unrelated to `p`, `r` is literally the same
array in both lists (`persist`).  A cube edge `t → t'` of type merge is `Mrg` from `t` to `t'`, one of type split is
`Mrg` from `t'` to `t` (`edge_cases`).
-/
namespace Yuiv.C01Sq
open Yuiv Yuiv.KhRef Yuiv.C04Inv Yuiv.C06Cycle
open Yuiv.C02Mirror (Circ edgeOK)

variable {L : Array Nat}

/-- the circle of `cs` through the label `e` -/
def N (cs : Circ) (e : Nat) : Name := cs[circleIdx cs e]!

section names
variable {P P' : List (Nat × Nat)} {cs cs' : Circ}

theorem N_spec (h : CirclesSpec L P cs) {e : Nat} (he : e ∈ L) :
    circleIdx cs e < cs.size ∧ e ∈ N cs e := by
  obtain ⟨i, hi, hx⟩ := h.cover e he
  have := circleIdx_of_mem h hi hx
  unfold N
  rw [this]
  exact ⟨hi, hx⟩

theorem N_mem (h : CirclesSpec L P cs) {e : Nat} (he : e ∈ L) : N cs e ∈ cs := by
  obtain ⟨h1, _⟩ := N_spec h he
  unfold N
  rw [getElem!_pos cs _ h1]
  exact Array.getElem_mem h1

theorem mem_N_iff (h : CirclesSpec L P cs) {e : Nat} (he : e ∈ L) (y : Nat) :
    y ∈ N cs e ↔ y ∈ L ∧ Conn P e y := by
  obtain ⟨h1, h2⟩ := N_spec h he
  exact h.mem_iff h1 h2 y

theorem N_eq_iff (h : CirclesSpec L P cs) {e e' : Nat} (he : e ∈ L) (he' : e' ∈ L) :
    N cs e = N cs e' ↔ Conn P e e' := by
  constructor
  · intro hh
    have := (N_spec h he').2
    rw [← hh] at this
    exact ((mem_N_iff h he e').1 this).2
  · intro hc
    obtain ⟨h1, h2⟩ := N_spec h he
    have h3 : e' ∈ cs[circleIdx cs e]! := h.mem_of_conn h1 h2 he' hc
    have := circleIdx_of_mem h h1 h3
    unfold N
    rw [this]

/-- circles of two states with the same members are the same array -/
theorem N_cross (h : CirclesSpec L P cs) (h' : CirclesSpec L P' cs') {e e' : Nat} (he : e ∈ L) (he' : e' ∈ L)
    (hm : ∀ y, y ∈ L → (Conn P e y ↔ Conn P' e' y)) : N cs e = N cs' e' := by
  obtain ⟨h1, _⟩ := N_spec h he
  obtain ⟨h1', _⟩ := N_spec h' he'
  apply circle_ext h h' h1 h1'
  intro y
  show y ∈ N cs e ↔ y ∈ N cs' e'
  rw [mem_N_iff h he, mem_N_iff h' he']
  constructor
  · rintro ⟨a, b⟩; exact ⟨a, (hm y a).1 b⟩
  · rintro ⟨a, b⟩; exact ⟨a, (hm y a).2 b⟩

theorem exists_N (h : CirclesSpec L P cs) {c : Name} (hc : c ∈ cs) : ∃ e, e ∈ L ∧ c = N cs e := by
  obtain ⟨i, hi, rfl⟩ := Array.mem_iff_getElem.1 hc
  obtain ⟨x, hx⟩ := h.nonempty hi
  have hxL := h.mem_labels hi hx
  refine ⟨x, hxL, ?_⟩
  unfold N
  rw [circleIdx_of_mem h hi hx, getElem!_pos cs i hi]

end names

/-- `Conn Pc` = `Conn Pf` with the classes of `p` and `r` merged -/
def Coarsens (Pf Pc : List (Nat × Nat)) (p r : Nat) : Prop :=
  ∀ x y, Conn Pc x y ↔ Conn Pf x y ∨ ((Conn Pf x p ∨ Conn Pf x r) ∧ (Conn Pf y p ∨ Conn Pf y r))

section coarse
variable {Pf Pc : List (Nat × Nat)} {p r : Nat}

theorem Coarsens.le (h : Coarsens Pf Pc p r) {x y : Nat} (hc : Conn Pf x y) : Conn Pc x y := (h x y).2 (Or.inl hc)

theorem Coarsens.pr (h : Coarsens Pf Pc p r) : Conn Pc p r :=
  (h p r).2 (Or.inr ⟨Or.inl (Conn.refl p), Or.inr (Conn.refl r)⟩)

theorem Coarsens.touched (h : Coarsens Pf Pc p r) {x : Nat} (hx : Conn Pf x p ∨ Conn Pf x r) : Conn Pc x p := by
  rcases hx with hx | hx
  · exact h.le hx
  · exact (h.le hx).trans h.pr.symm

/-- a label related to `p` in the coarse relation is related to `p` or to `r` in the fine one -/
theorem Coarsens.cases (h : Coarsens Pf Pc p r) {x : Nat} (hx : Conn Pc x p) : Conn Pf x p ∨ Conn Pf x r := by
  rcases (h x p).1 hx with h1 | ⟨h1, _⟩
  · exact Or.inl h1
  · exact h1

theorem Coarsens.iff_off (h : Coarsens Pf Pc p r) {x : Nat} (h1 : ¬ Conn Pf x p) (h2 : ¬ Conn Pf x r) (y : Nat) :
    Conn Pc x y ↔ Conn Pf x y := by
  rw [h x y]
  constructor
  · rintro (hc | ⟨hc | hc, _⟩)
    · exact hc
    · exact absurd hc h1
    · exact absurd hc h2
  · exact Or.inl

theorem Coarsens.off_coarse (h : Coarsens Pf Pc p r) {x : Nat} (h1 : ¬ Conn Pc x p) :
    ¬ Conn Pf x p ∧ ¬ Conn Pf x r :=
  ⟨fun hc => h1 (h.le hc), fun hc => h1 ((h.le hc).trans h.pr.symm)⟩

end coarse

/-- the merge of the classes of `p`, `r` between two circle lists -/
structure Mrg (L : Array Nat) (Pf Pc : List (Nat × Nat)) (csf csc : Circ) (p r : Nat) : Prop where
  ne : ¬ Conn Pf p r
  co : Coarsens Pf Pc p r
  rel : MergeRel csf csc (N csf p) (N csf r) (N csc p)

section merge
variable {Pf Pc : List (Nat × Nat)} {csf csc : Circ} {p r : Nat}

/-- an untouched circle is the same array in both lists -/
theorem persist (hf : CirclesSpec L Pf csf) (hc : CirclesSpec L Pc csc) (h : Coarsens Pf Pc p r) {e : Nat}
    (he : e ∈ L) (h1 : ¬ Conn Pf e p) (h2 : ¬ Conn Pf e r) : N csc e = N csf e :=
  N_cross hc hf he he (fun y _ => h.iff_off h1 h2 y)

theorem mrg_of_coarsens (hf : CirclesSpec L Pf csf) (hc : CirclesSpec L Pc csc) (hp : p ∈ L) (hr : r ∈ L)
    (hn : ¬ Conn Pf p r) (h : Coarsens Pf Pc p r) : Mrg L Pf Pc csf csc p r := by
  refine ⟨hn, h, ⟨N_mem hf hp, N_mem hf hr, ?_, ?_, ?_⟩⟩
  · intro e; exact hn ((N_eq_iff hf hp hr).1 e)
  · intro hm
    obtain ⟨e, he, hce⟩ := exists_N hf hm
    have h1 : p ∈ N csc p := (N_spec hc hp).2
    have h2 : r ∈ N csc p := (mem_N_iff hc hp r).2 ⟨hr, h.pr⟩
    rw [hce] at h1 h2
    have c1 := ((mem_N_iff hf he p).1 h1).2
    have c2 := ((mem_N_iff hf he r).1 h2).2
    exact hn (c1.symm.trans c2)
  · intro c
    constructor
    · intro hcm
      obtain ⟨e, he, rfl⟩ := exists_N hc hcm
      by_cases hA : Conn Pf e p ∨ Conn Pf e r
      · left
        exact (N_eq_iff hc he hp).2 (h.touched hA)
      · right
        have h1 : ¬ Conn Pf e p := fun x => hA (Or.inl x)
        have h2 : ¬ Conn Pf e r := fun x => hA (Or.inr x)
        rw [persist hf hc h he h1 h2]
        exact ⟨N_mem hf he, fun e1 => h1 ((N_eq_iff hf he hp).1 e1), fun e1 => h2 ((N_eq_iff hf he hr).1 e1)⟩
    · rintro (rfl | ⟨hcm, n1, n2⟩)
      · exact N_mem hc hp
      · obtain ⟨e, he, rfl⟩ := exists_N hf hcm
        have h1 : ¬ Conn Pf e p := fun x => n1 ((N_eq_iff hf he hp).2 x)
        have h2 : ¬ Conn Pf e r := fun x => n2 ((N_eq_iff hf he hr).2 x)
        rw [← persist hf hc h he h1 h2]
        exact N_mem hc he

end merge

/-- two lists with the same members are not joined by a merge/split edge -/
theorem not_edgeOK_of_same (cs cs' : Circ) (h : ∀ c, c ∈ cs → c ∈ cs') : edgeOK cs cs' = false := by
  have : C02Mirror.goneOf cs cs' = #[] := by
    unfold C02Mirror.goneOf
    apply Array.toList_inj.1
    rw [Array.toList_filter]
    simp only [Array.toList_range, List.filter_eq_nil_iff, List.mem_range]
    intro i hi
    have : cs[i]! ∈ cs' := h _ (by rw [getElem!_pos cs i hi]; exact Array.getElem_mem hi)
    simpa using this
  unfold edgeOK
  rw [this]
  rfl

/-- every merge/split edge of a valid diagram is a `Mrg` in one of the two directions -/
theorem edge_cases {P P' : List (Nat × Nat)} {cs cs' : Circ} {p q r u : Nat} (g : EG L P P' p q r u)
    (h : CirclesSpec L P cs) (h' : CirclesSpec L P' cs') (hok : edgeOK cs cs' = true) :
    Mrg L P P' cs cs' p r ∨ Mrg L P' P cs' cs p r := by
  by_cases h1 : Conn P p r
  · by_cases h2 : Conn P' p r
    · exfalso
      have hE := g.E h1 h2
      have : edgeOK cs cs' = false := by
        apply not_edgeOK_of_same
        intro c hc
        obtain ⟨e, he, rfl⟩ := exists_N h hc
        rw [N_cross h h' he he (fun y _ => hE e y)]
        exact N_mem h' he
      rw [this] at hok
      cases hok
    · right
      exact mrg_of_coarsens h' h g.lp g.lr h2 (g.S h2)
  · left
    exact mrg_of_coarsens h h' g.lp g.lr h1 (g.M h1)

end Yuiv.C01Sq
