import Yuiv.Proofs.C11Tri
/-
C11 — Kahn's algorithm (`top_sort`) on an acyclic graph returns every vertex, in a topological order,
for every iteration order of the hash map; hence `result()` never panics on an invariant table and its
order is triangular.
-/
namespace Yuiv.C11
open Yuiv Res Std

abbrev Graph := List (Nat × List Nat)

def verts (g : Graph) : List Nat := g.map (·.1)

/-- predicate counted by `cnt`: `e` is an edge into `v` whose source is not in `res` -/
def pr (res : List Nat) (v : Nat) (e : Nat × List Nat) : Bool := e.2.contains v && !res.contains e.1

/-- number of predecessors of `v` that are not in `res` -/
def cnt (g : Graph) (res : List Nat) (v : Nat) : Nat := g.countP (pr res v)

structure GWF (g : Graph) : Prop where
  keys : (verts g).Nodup
  succNodup : ∀ e ∈ g, e.2.Nodup
  succMem : ∀ e ∈ g, ∀ v ∈ e.2, v ∈ verts g
  acyc : ∃ rk : Nat → Nat, ∀ e ∈ g, ∀ v ∈ e.2, rk v < rk e.1

theorem succs_of_mem {g : Graph} (hk : (verts g).Nodup) {u : Nat} {l : List Nat} (h : (u, l) ∈ g) :
    succs g u = l := by
  induction g with
  | nil => simp at h
  | cons e g ih =>
    simp only [verts, List.map_cons, List.nodup_cons] at hk
    unfold succs
    rw [List.find?_cons]
    by_cases he : e.1 = u
    · simp only [he, beq_self_eq_true]
      rcases List.mem_cons.1 h with h | h
      · rw [← h]
      · exfalso; apply hk.1; rw [he]; exact List.mem_map.2 ⟨(u, l), h, rfl⟩
    · have : (e.1 == u) = false := by simp [he]
      simp only [this]
      rcases List.mem_cons.1 h with h | h
      · exfalso; apply he; rw [← h]
      · exact ih hk.2 h

theorem mem_verts {g : Graph} {u : Nat} (h : u ∈ verts g) : ∃ l, (u, l) ∈ g := by
  obtain ⟨e, he, rfl⟩ := List.mem_map.1 h
  exact ⟨e.2, he⟩

/-! ### counting -/

theorem pr_snoc_ne (res : List Nat) (v i : Nat) (e : Nat × List Nat) (h : e.1 ≠ i) :
    pr (res ++ [i]) v e = pr res v e := by
  simp [pr, h]

theorem cnt_snoc_notin (g : Graph) (res : List Nat) (v i : Nat) (h : i ∉ verts g) :
    cnt g (res ++ [i]) v = cnt g res v := by
  unfold cnt
  induction g with
  | nil => rfl
  | cons e g ih =>
    simp only [verts, List.map_cons, List.mem_cons, not_or] at h
    rw [List.countP_cons, List.countP_cons, ih (by simpa [verts] using h.2),
      pr_snoc_ne res v i e (fun x => h.1 x.symm)]

theorem cnt_snoc (g : Graph) (hk : (verts g).Nodup) (res : List Nat) (v i : Nat) (l : List Nat)
    (hi : (i, l) ∈ g) (hr : i ∉ res) :
    cnt g (res ++ [i]) v + (if v ∈ l then 1 else 0) = cnt g res v := by
  induction g with
  | nil => simp at hi
  | cons e g ih =>
    simp only [verts, List.map_cons, List.nodup_cons] at hk
    unfold cnt at *
    rw [List.countP_cons, List.countP_cons]
    rcases List.mem_cons.1 hi with h | h
    · subst h
      have := cnt_snoc_notin g res v i hk.1
      unfold cnt at this
      rw [this]
      have h1 : pr (res ++ [i]) v (i, l) = false := by simp [pr]
      have h2 : pr res v (i, l) = decide (v ∈ l) := by simp [pr, hr]
      rw [h1, h2]
      by_cases hv : v ∈ l <;> simp [hv]
    · have hne : e.1 ≠ i := by
        intro x; apply hk.1; rw [x]; exact List.mem_map.2 ⟨(i, l), h, rfl⟩
      rw [pr_snoc_ne res v i e hne]
      have := ih hk.2 h
      omega

theorem indeg_eq_cnt (g : Graph) (hn : ∀ e ∈ g, e.2.Nodup) (v : Nat) : indeg g v = cnt g [] v := by
  unfold indeg cnt
  induction g with
  | nil => rfl
  | cons e g ih =>
    rw [List.flatMap_cons, List.count_append, List.countP_cons,
      ih (fun e' he' => hn e' (List.mem_cons_of_mem _ he')),
      (hn e List.mem_cons_self).count]
    have : pr [] v e = decide (v ∈ e.2) := by simp [pr]
    rw [this]
    by_cases hv : v ∈ e.2 <;> simp [hv] <;> omega

/-- number of vertices not yet output -/
def unproc (g : Graph) (res : List Nat) : Nat := (verts g).countP (fun v => !res.contains v)

theorem countP_snoc_notin (V res : List Nat) (i : Nat) (h : i ∉ V) :
    V.countP (fun v => !(res ++ [i]).contains v) = V.countP (fun v => !res.contains v) := by
  induction V with
  | nil => rfl
  | cons a V ih =>
    simp only [List.mem_cons, not_or] at h
    rw [List.countP_cons, List.countP_cons, ih h.2]
    have : (res ++ [i]).contains a = res.contains a := by
      have : ¬ a = i := fun x => h.1 x.symm
      simp [this]
    rw [this]

theorem countP_snoc (V res : List Nat) (i : Nat) (hV : V.Nodup) (hi : i ∈ V) (hr : i ∉ res) :
    V.countP (fun v => !(res ++ [i]).contains v) + 1 = V.countP (fun v => !res.contains v) := by
  induction V with
  | nil => simp at hi
  | cons a V ih =>
    have hV' := List.nodup_cons.1 hV
    rw [List.countP_cons, List.countP_cons]
    rcases List.mem_cons.1 hi with h | h
    · subst h
      rw [countP_snoc_notin V res i hV'.1]
      simp [hr]
    · have hne : ¬ a = i := fun x => hV'.1 (x ▸ h)
      have : (res ++ [i]).contains a = res.contains a := by simp [hne]
      rw [this]
      have := ih hV'.2 h
      omega

/-! ### `relax` -/

theorem relax_spec : ∀ (js : List Nat) (wt : HashMap Nat Nat) (q : List Nat), js.Nodup →
    (∀ v ∈ js, ∃ c, wt.get? v = some (c + 1)) →
    ∃ wt', relax js wt q = ok (wt', q ++ js.filter (fun v => wt.get? v == some 1)) ∧
      (∀ v, wt'.get? v = if v ∈ js then (wt.get? v).map (· - 1) else wt.get? v) := by
  intro js
  induction js with
  | nil => intro wt q _ _; exact ⟨wt, by simp [relax], by simp⟩
  | cons j js ih =>
    intro wt q hnd hpos
    have hnd' := List.nodup_cons.1 hnd
    obtain ⟨c, hc⟩ := hpos j List.mem_cons_self
    rw [relax, hc]
    simp only
    have hsame : ∀ v ∈ js, (wt.insert j c).get? v = wt.get? v := by
      intro v hv
      have : ¬ j = v := fun x => hnd'.1 (x ▸ hv)
      rw [HashMap.get?_insert]; simp [this]
    obtain ⟨wt', hrel, hwt'⟩ := ih (wt.insert j c) (if c = 0 then q ++ [j] else q) hnd'.2
      (fun v hv => by rw [hsame v hv]; exact hpos v (List.mem_cons_of_mem _ hv))
    refine ⟨wt', ?_, ?_⟩
    · rw [hrel]
      congr 2
      rw [List.filter_cons]
      have hfil : js.filter (fun v => (wt.insert j c).get? v == some 1) = js.filter (fun v => wt.get? v == some 1) :=
        List.filter_congr (fun v hv => by rw [hsame v hv])
      rw [hfil, hc]
      by_cases h0 : c = 0
      · subst h0; simp
      · have : (some (c + 1) == some 1) = false := by simp [h0]
        simp [h0]
    · intro v
      rw [hwt']
      by_cases hvj : v = j
      · subst hvj
        simp only [hnd'.1, if_false, List.mem_cons, true_or, if_true]
        rw [HashMap.get?_insert, hc]; simp
      · by_cases hv : v ∈ js
        · simp only [hv, if_true, List.mem_cons, or_true]
          rw [hsame v hv]
        · simp only [hv, if_false, List.mem_cons, hvj, or_self]
          have : ¬ j = v := fun x => hvj x.symm
          rw [HashMap.get?_insert]; simp [this]

/-! ### the main loop -/

structure KInv (g : Graph) (wt : HashMap Nat Nat) (q res : List Nat) : Prop where
  nodup : (res ++ q).Nodup
  sub : ∀ v ∈ res ++ q, v ∈ verts g
  wt : ∀ v ∈ verts g, wt.get? v = some (cnt g res v)
  zero : ∀ v ∈ verts g, v ∈ res ++ q ↔ cnt g res v = 0
  ord : res.Pairwise (fun a b => a ∉ succs g b)

theorem nat_bound (rk : Nat → Nat) (l : List Nat) : ∃ B, ∀ v ∈ l, rk v < B := by
  induction l with
  | nil => exact ⟨0, by simp⟩
  | cons a l ih =>
    obtain ⟨B, hB⟩ := ih
    refine ⟨B + rk a + 1, ?_⟩
    intro v hv
    rcases List.mem_cons.1 hv with h | h
    · subst h; omega
    · have := hB v h; omega

/-- when the queue is empty every vertex has been output: a vertex left over would have a predecessor
left over, of strictly larger rank -/
theorem all_output {g : Graph} (hg : GWF g) {res : List Nat}
    (hz : ∀ v ∈ verts g, v ∈ res ↔ cnt g res v = 0) : ∀ v ∈ verts g, v ∈ res := by
  obtain ⟨rk, hrk⟩ := hg.acyc
  obtain ⟨B, hB⟩ := nat_bound rk (verts g)
  have key : ∀ d v, v ∈ verts g → B - rk v ≤ d → v ∈ res := by
    intro d
    induction d with
    | zero => intro v hv hd; have := hB v hv; omega
    | succ d ih =>
      intro v hv hd
      apply Classical.byContradiction
      intro hnot
      have hc : cnt g res v ≠ 0 := fun h0 => hnot ((hz v hv).2 h0)
      have hpos : 0 < g.countP (pr res v) := Nat.pos_of_ne_zero hc
      obtain ⟨e, he, hp⟩ := List.countP_pos_iff.1 hpos
      simp only [pr, Bool.and_eq_true, List.contains_eq_mem, decide_eq_true_eq, Bool.not_eq_true',
        decide_eq_false_iff_not] at hp
      have hev : e.1 ∈ verts g := List.mem_map.2 ⟨e, he, rfl⟩
      have h1 := hrk e he v hp.1
      have h2 := hB e.1 hev
      exact hp.2 (ih e.1 hev (by omega))
  intro v hv
  exact key (B - rk v) v hv (Nat.le_refl _)

theorem kahnLoop_spec (g : Graph) (hg : GWF g) : ∀ (fuel : Nat) (wt : HashMap Nat Nat) (q res : List Nat),
    KInv g wt q res → unproc g res + 1 ≤ fuel →
    ∃ L, kahnLoop g fuel wt q res = ok L ∧ L.Perm (verts g) ∧ L.Pairwise (fun a b => a ∉ succs g b) := by
  intro fuel
  induction fuel with
  | zero => intro _ _ _ _ h; omega
  | succ fuel ih =>
    intro wt q res hinv hfuel
    rw [kahnLoop.eq_def]
    cases q with
    | nil =>
      refine ⟨res, rfl, ?_, hinv.ord⟩
      have hnd : res.Nodup := by simpa using hinv.nodup
      rw [List.perm_ext_iff_of_nodup hnd hg.keys]
      intro v
      constructor
      · intro hv; exact hinv.sub v (by simpa using hv)
      · intro hv
        exact all_output hg (fun v hv => by simpa using hinv.zero v hv) v hv
    | cons i q =>
      simp only
      have hiV : i ∈ verts g := hinv.sub i (by simp)
      have hnd := hinv.nodup
      rw [List.nodup_append] at hnd
      obtain ⟨hndr, hndq, hdisj⟩ := hnd
      have hndq' := List.nodup_cons.1 hndq
      have hir : i ∉ res := fun h => hdisj i h i List.mem_cons_self rfl
      obtain ⟨l, hil⟩ := mem_verts hiV
      have hsl : succs g i = l := succs_of_mem hg.keys hil
      rw [hsl]
      have hlV : ∀ v ∈ l, v ∈ verts g := hg.succMem (i, l) hil
      have hlpos : ∀ v ∈ l, 0 < cnt g res v := by
        intro v hv
        apply List.countP_pos_iff.2
        exact ⟨(i, l), hil, by simp [pr, hv, hir]⟩
      have hlold : ∀ v ∈ l, v ∉ res ++ i :: q := by
        intro v hv hmem
        have := (hinv.zero v (hlV v hv)).1 hmem
        have := hlpos v hv
        omega
      obtain ⟨wt', hrel, hwt'⟩ := relax_spec l wt q (hg.succNodup (i, l) hil) (by
        intro v hv
        have := hlpos v hv
        refine ⟨cnt g res v - 1, ?_⟩
        rw [hinv.wt v (hlV v hv)]
        congr 1; omega)
      rw [hrel]
      show ∃ L, kahnLoop g fuel wt' _ (res ++ [i]) = ok L ∧ _
      have hcs := fun v => cnt_snoc g hg.keys res v i l hil hir
      have hfilt : ∀ v, v ∈ l.filter (fun v => wt.get? v == some 1) ↔ v ∈ l ∧ cnt g res v = 1 := by
        intro v
        rw [List.mem_filter]
        constructor
        · rintro ⟨h1, h2⟩
          rw [hinv.wt v (hlV v h1)] at h2
          exact ⟨h1, by simpa using h2⟩
        · rintro ⟨h1, h2⟩
          refine ⟨h1, ?_⟩
          rw [hinv.wt v (hlV v h1), h2]; simp
      apply ih
      · refine ⟨?_, ?_, ?_, ?_, ?_⟩
        · -- nodup
          rw [List.nodup_append]
          refine ⟨?_, ?_, ?_⟩
          · rw [List.nodup_append]
            refine ⟨hndr, by simp, ?_⟩
            intro a ha b hb; simp at hb; subst hb
            exact fun e => hir (e ▸ ha)
          · rw [List.nodup_append]
            refine ⟨hndq'.2, (hg.succNodup (i, l) hil).sublist List.filter_sublist, ?_⟩
            intro a ha b hb e
            have hb' := ((hfilt b).1 hb).1
            apply hlold b hb'
            rw [← e]
            exact List.mem_append_right _ (List.mem_cons_of_mem _ ha)
          · intro a ha b hb e
            rcases List.mem_append.1 hb with hb | hb
            · rcases List.mem_append.1 ha with ha | ha
              · exact hdisj a ha b (List.mem_cons_of_mem _ hb) e
              · simp at ha; subst ha; exact hndq'.1 (e ▸ hb)
            · have hb' := ((hfilt b).1 hb).1
              apply hlold b hb'
              rw [← e]
              rcases List.mem_append.1 ha with ha | ha
              · exact List.mem_append_left _ ha
              · simp at ha; subst ha; exact List.mem_append_right _ List.mem_cons_self
        · intro v hv
          rcases List.mem_append.1 hv with hv | hv
          · rcases List.mem_append.1 hv with hv | hv
            · exact hinv.sub v (List.mem_append_left _ hv)
            · simp at hv; subst hv; exact hiV
          · rcases List.mem_append.1 hv with hv | hv
            · exact hinv.sub v (List.mem_append_right _ (List.mem_cons_of_mem _ hv))
            · exact hlV v ((hfilt v).1 hv).1
        · intro v hv
          rw [hwt', hinv.wt v hv]
          have := hcs v
          by_cases hvl : v ∈ l
          · simp only [hvl, if_true] at this ⊢
            simp only [Option.map_some]
            congr 1; omega
          · simp only [hvl, if_false] at this ⊢
            congr 1; omega
        · intro v hv
          have hc := hcs v
          have hz := hinv.zero v hv
          by_cases hvl : v ∈ l
          · simp only [hvl, if_true] at hc
            have hold := hlold v hvl
            have hpos := hlpos v hvl
            constructor
            · intro hmem
              rcases List.mem_append.1 hmem with h | h
              · exfalso; apply hold
                rcases List.mem_append.1 h with h | h
                · exact List.mem_append_left _ h
                · simp at h; subst h; exact List.mem_append_right _ List.mem_cons_self
              · rcases List.mem_append.1 h with h | h
                · exfalso; exact hold (List.mem_append_right _ (List.mem_cons_of_mem _ h))
                · have := ((hfilt v).1 h).2; omega
            · intro h0
              apply List.mem_append_right
              apply List.mem_append_right
              exact (hfilt v).2 ⟨hvl, by omega⟩
          · simp only [hvl, if_false, Nat.add_zero] at hc
            rw [hc, ← hz]
            constructor
            · intro hmem
              rcases List.mem_append.1 hmem with h | h
              · rcases List.mem_append.1 h with h | h
                · exact List.mem_append_left _ h
                · simp at h; subst h; exact List.mem_append_right _ List.mem_cons_self
              · rcases List.mem_append.1 h with h | h
                · exact List.mem_append_right _ (List.mem_cons_of_mem _ h)
                · exact absurd ((hfilt v).1 h).1 hvl
            · intro hmem
              rcases List.mem_append.1 hmem with h | h
              · exact List.mem_append_left _ (List.mem_append_left _ h)
              · rcases List.mem_cons.1 h with h | h
                · subst h; exact List.mem_append_left _ (List.mem_append_right _ (by simp))
                · exact List.mem_append_right _ (List.mem_append_left _ h)
        · rw [List.pairwise_append]
          refine ⟨hinv.ord, by simp, ?_⟩
          intro a ha b hb
          simp at hb; subst hb
          rw [hsl]
          intro hal
          exact hlold a hal (List.mem_append_left _ ha)
      · have := countP_snoc (verts g) res i hg.keys hiV hir
        unfold unproc at *
        omega

/-! ### `top_sort` -/

theorem fold_wt (f : Nat → Nat) : ∀ (keys : List Nat) (m : HashMap Nat Nat) (v : Nat),
    (keys.foldl (fun m v => m.insert v (f v)) m).get? v = if v ∈ keys then some (f v) else m.get? v := by
  intro keys
  induction keys with
  | nil => intro m v; simp
  | cons k keys ih =>
    intro m v
    rw [List.foldl_cons, ih]
    by_cases hv : v ∈ keys
    · simp [hv]
    · simp only [hv, if_false, List.mem_cons, or_false]
      rw [HashMap.get?_insert]
      by_cases hk : k = v
      · subst hk; simp
      · have : ¬ v = k := fun x => hk x.symm
        simp [hk, this]

/-- Kahn's algorithm on a well-formed acyclic graph, for every iteration order `keys` of the vertices:
returns all vertices, no edge goes from a later to an earlier vertex -/
theorem topSort_spec (g : Graph) (hg : GWF g) (keys : List Nat) (hperm : keys.Perm (verts g)) :
    ∃ L, topSort g keys = ok L ∧ L.Perm (verts g) ∧ L.Pairwise (fun a b => a ∉ succs g b) := by
  unfold topSort
  by_cases hempty : g.isEmpty = true
  · simp only [hempty, if_true]
    have : g = [] := by simpa using hempty
    subst this
    exact ⟨[], rfl, by simp [verts], List.Pairwise.nil⟩
  · simp only [hempty, Bool.false_eq_true, if_false]
    have hkeysmem : ∀ v, v ∈ keys ↔ v ∈ verts g := fun v => hperm.mem_iff
    have hany : (g.flatMap (fun e => e.2)).any (fun v => !keys.contains v) = false := by
      rw [List.any_eq_false]
      intro v hv
      obtain ⟨e, he, hve⟩ := List.mem_flatMap.1 hv
      have := (hkeysmem v).2 (hg.succMem e he v hve)
      simp [this]
    simp only [hany, Bool.false_eq_true, if_false]
    have hknd : keys.Nodup := hperm.nodup_iff.2 hg.keys
    -- the initial invariant
    have hinv : KInv g (keys.foldl (fun m v => m.insert v (indeg g v)) {}) (keys.filter (fun v => indeg g v == 0)) [] := by
      refine ⟨?_, ?_, ?_, ?_, List.Pairwise.nil⟩
      · simpa using hknd.sublist List.filter_sublist
      · intro v hv
        simp only [List.nil_append, List.mem_filter] at hv
        exact (hkeysmem v).1 hv.1
      · intro v hv
        rw [fold_wt, if_pos ((hkeysmem v).2 hv), indeg_eq_cnt g hg.succNodup]
      · intro v hv
        simp only [List.nil_append, List.mem_filter, beq_iff_eq]
        rw [indeg_eq_cnt g hg.succNodup]
        constructor
        · exact fun h => h.2
        · exact fun h => ⟨(hkeysmem v).2 hv, h⟩
    have hq : (keys.filter (fun v => indeg g v == 0)).isEmpty = false := by
      cases hqe : (keys.filter (fun v => indeg g v == 0)).isEmpty with
      | false => rfl
      | true =>
        exfalso
        have hnil : keys.filter (fun v => indeg g v == 0) = [] := by simpa using hqe
        have hall := all_output hg (res := []) (fun v hv => by
          have := hinv.zero v hv
          rw [hnil] at this
          simpa using this)
        cases g with
        | nil => simp at hempty
        | cons e g => exact absurd (hall e.1 (by simp [verts])) (by simp)
    simp only [hq, Bool.false_eq_true, if_false]
    have hfuel : unproc g [] + 1 ≤ g.length + 1 := by
      have : unproc g [] ≤ (verts g).length := List.countP_le_length
      simp only [verts, List.length_map] at this
      omega
    obtain ⟨L, hL, hp, hord⟩ := kahnLoop_spec g hg (g.length + 1) _ _ [] hinv hfuel
    rw [hL]
    have hlen : L.length = g.length := by rw [hp.length_eq]; simp [verts]
    simp only [hlen, Nat.lt_irrefl, if_false]
    exact ⟨L, rfl, hp, hord⟩

/-! ### `result()` -/

theorem attachRows_spec (S : Pivs) : ∀ (L : List Nat), (∀ j ∈ L, hasCol S j = true) →
    ∃ R, attachRows S L = ok R ∧ R.map (·.2) = L ∧ ∀ p ∈ R, rowFor S p.2 = some p.1 := by
  intro L
  induction L with
  | nil => intro _; exact ⟨[], rfl, rfl, by simp⟩
  | cons j L ih =>
    intro h
    obtain ⟨i, hi⟩ := rowFor_of_hasCol (h j List.mem_cons_self)
    obtain ⟨R, hR, hmap, hrow⟩ := ih (fun j' hj' => h j' (List.mem_cons_of_mem _ hj'))
    refine ⟨(i, j) :: R, ?_, by simp [hmap], ?_⟩
    · rw [attachRows, hi]; simp only; rw [hR]; rfl
    · intro p hp
      rcases List.mem_cons.1 hp with hp | hp
      · subst hp; exact hi
      · exact hrow p hp

theorem nodup_of_map {α β} (f : α → β) {l : List α} (h : (l.map f).Nodup) : l.Nodup :=
  (List.pairwise_map.1 h).imp (fun hne e => hne (congrArg f e))

theorem depGraph_verts (s : Str) (S : Pivs) : verts (depGraph s S) = S.map (·.2) := by
  simp [verts, depGraph, List.map_map, Function.comp_def]

theorem depGraph_gwf (s : Str) (hwf : s.WF) (S : Pivs) (h : PInv s S) : GWF (depGraph s S) := by
  refine ⟨by rw [depGraph_verts]; exact h.cols, ?_, ?_, ?_⟩
  · intro e he
    obtain ⟨p, _, rfl⟩ := List.mem_map.1 he
    exact (hwf.nodup p.1).sublist List.filter_sublist
  · intro e he v hv
    obtain ⟨p, _, rfl⟩ := List.mem_map.1 he
    rw [depGraph_verts]
    simp only [List.mem_filter, Bool.and_eq_true] at hv
    exact hasCol_iff.1 hv.2.2
  · obtain ⟨rk, hrk⟩ := h.acyc
    refine ⟨rk, ?_⟩
    intro e he v hv
    obtain ⟨p, hp, rfl⟩ := List.mem_map.1 he
    simp only [List.mem_filter, Bool.and_eq_true, bne_iff_ne, ne_eq] at hv
    obtain ⟨q, hq, hqv⟩ := List.mem_map.1 (hasCol_iff.1 hv.2.2)
    have hqv' : q.2 = v := hqv
    rw [← hqv']
    exact hrk p hp q hq (by rw [hqv']; exact hv.2.1) (by rw [hqv']; exact hv.1)

/-- `result()` on a table satisfying the invariant, for every hash-map iteration order: `top_sort(..).unwrap()`
and `row_for(j).unwrap()` do not panic, the returned list is a permutation of the table and a triangular order -/
theorem result_spec (s : Str) (hwf : s.WF) (S : Pivs) (h : PInv s S) (keys : List Nat)
    (hk : keys.Perm (S.map (·.2))) :
    ∃ L, result s S keys = ok L ∧ L.Perm S ∧ Triangular s L := by
  have hg := depGraph_gwf s hwf S h
  obtain ⟨T, hT, hperm, hord⟩ := topSort_spec (depGraph s S) hg keys (by rw [depGraph_verts]; exact hk)
  rw [depGraph_verts] at hperm
  have hTcol : ∀ j ∈ T, hasCol S j = true := fun j hj => hasCol_iff.2 (hperm.mem_iff.1 hj)
  obtain ⟨R, hR, hmap, hrow⟩ := attachRows_spec S T hTcol
  refine ⟨R, by unfold result; rw [hT]; exact hR, ?_, ?_⟩
  · -- R is a permutation of S: both have distinct columns and the same members
    have hRmem : ∀ p, p ∈ R → p ∈ S := fun p hp => by
      have := rowFor_some_mem (hrow p hp); exact this
    have hRnd : R.Nodup := by
      have : (R.map (·.2)).Nodup := by rw [hmap]; exact hperm.nodup_iff.2 h.cols
      exact nodup_of_map _ this
    have hSnd : S.Nodup := nodup_of_map _ h.cols
    rw [List.perm_ext_iff_of_nodup hRnd hSnd]
    intro p
    constructor
    · exact hRmem p
    · intro hp
      have hpT : p.2 ∈ T := hperm.mem_iff.2 (List.mem_map.2 ⟨p, hp, rfl⟩)
      rw [← hmap] at hpT
      obtain ⟨r, hr, hr2⟩ := List.mem_map.1 hpT
      have h1 := hrow r hr
      have hr2' : r.2 = p.2 := hr2
      rw [hr2', rowFor_of_mem h.cols hp] at h1
      have : r = p := by
        cases r; cases p; simp at h1 hr2' ⊢; exact ⟨h1.symm, hr2'⟩
      rw [← this]; exact hr
  · -- triangular
    unfold Triangular
    have hTnd : T.Nodup := hperm.nodup_iff.2 h.cols
    have hpw : (R.map (·.2)).Pairwise (fun a b => a ∉ succs (depGraph s S) b ∧ a ≠ b) := by
      rw [hmap]; exact hord.and hTnd
    rw [List.pairwise_map] at hpw
    refine hpw.imp_of_mem ?_
    intro p q hp hq hpq hin
    apply hpq.1
    have hqS : q ∈ S := rowFor_some_mem (hrow q hq)
    have hmemg : (q.2, (colsIn s q.1).filter (fun j2 => q.2 != j2 && hasCol S j2)) ∈ depGraph s S :=
      List.mem_map.2 ⟨q, hqS, rfl⟩
    rw [succs_of_mem hg.keys hmemg]
    simp only [List.mem_filter, Bool.and_eq_true, bne_iff_ne, ne_eq]
    refine ⟨hin, fun e => hpq.2 e.symm, ?_⟩
    exact hasCol_of_rowFor (hrow p hp)

end Yuiv.C11
