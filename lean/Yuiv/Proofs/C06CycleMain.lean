import Yuiv.Proofs.C06CycleAlg
import Yuiv.Proofs.C06CycleD
import Yuiv.Proofs.C06CycleHash
/-
C06Cycle — assembly (helper lemmas; the property theorems are in `Props/C06Cycle.lean`):
  * `bicoloured_spec`, `edge_shape` : under H every cube edge out of the state is a merge of two differently coloured
    circles (`goneOf = #[i1, i2]`, `bornOf = #[j0]`);
  * `edgeTerms_merge`, `edge_sum_zero` : the edge map on the canonical chain, coefficient by coefficient, is zero;
  * `dRaw_of_edges`, `chain_zero` : all edges together, with the base-point filter of the reduced theory.
-/
namespace Yuiv.C06Cycle
open Yuiv Yuiv.KhRef Yuiv.C06Canon Yuiv.C04Inv

/-! ### the hypothesis H, unfolded -/

theorem bicoloured_spec (l : Link) (cs : Array (Array Nat)) (cols : List Colour) (H : bicoloured l cs cols = true)
    (x : Crossing) (hx : x ∈ l) (hxr : x.ct.isResolved = false) :
    (∀ e ∈ x.e, circleIdx cs e < cs.size) ∧
    (∃ e1 ∈ x.e, ∃ e2 ∈ x.e, circleIdx cs e1 ≠ circleIdx cs e2) ∧
    (∀ e1 ∈ x.e, ∀ e2 ∈ x.e, circleIdx cs e1 ≠ circleIdx cs e2 →
      cols.getD (circleIdx cs e1) .a ≠ cols.getD (circleIdx cs e2) .a) := by
  unfold bicoloured at H
  rw [Array.all_eq_true_iff_forall_mem] at H
  have := H x hx
  simp [hxr] at this
  obtain ⟨⟨h1, i, hi, j, hj, hne⟩, h3⟩ := this
  refine ⟨fun e he => ?_, ⟨x.e[i], Array.getElem_mem hi, x.e[j], Array.getElem_mem hj, hne⟩, ?_⟩
  · obtain ⟨i, hi, rfl⟩ := Array.mem_iff_getElem.1 he
    exact h1 i hi
  · intro e1 he1 e2 he2 hne'
    obtain ⟨i, hi, rfl⟩ := Array.mem_iff_getElem.1 he1
    obtain ⟨j, hj, rfl⟩ := Array.mem_iff_getElem.1 he2
    rcases h3 i hi j hj with h | h
    · exact absurd h hne'
    · simpa [List.getD_eq_getElem?_getD] using h

/-- (i) EVERY EDGE OUT OF THE STATE IS A MERGE: for a valid diagram, a state `s` whose circles are coloured such that
every unresolved crossing touches exactly two, differently coloured, circles (H), and a crossing `k` that is
0-resolved in `s`: passing to `s ||| 1 <<< k` removes exactly two circles `i1 < i2` of different colours and creates
exactly one circle `j0`; all other circles are common to both states. -/
theorem edge_shape (l : Link) (hv : validK l = true) (s k : Nat) (hk : k < crossingNum l)
    (hb : s.testBit k = false) (cols : List Colour)
    (H : bicoloured l (circles l (edgeLabels l) s) cols = true) :
    ∃ i1 i2 j0, i1 < i2 ∧ i2 < (circles l (edgeLabels l) s).size ∧
      j0 < (circles l (edgeLabels l) (s ||| 1 <<< k)).size ∧
      goneOf (circles l (edgeLabels l) s) (circles l (edgeLabels l) (s ||| 1 <<< k)) = #[i1, i2] ∧
      bornOf (circles l (edgeLabels l) s) (circles l (edgeLabels l) (s ||| 1 <<< k)) = #[j0] ∧
      cols.getD i1 .a ≠ cols.getD i2 .a := by
  obtain ⟨x, a, b, c, d, hxl, hxr, hperm, cab, ccd, hmain⟩ := neighbour_conn l hv s k hk hb
  have hwf := wf_of_validK l hv
  have spec := circles_spec l hwf s
  have spec' := circles_spec l hwf (s ||| 1 <<< k)
  obtain ⟨_, hex, hcol⟩ := bicoloured_spec l _ cols H x hxl hxr
  have hmem : ∀ e, e ∈ x.e ↔ e ∈ [a, b, c, d] := by
    intro e
    rw [← Array.mem_toList_iff]
    exact hperm.mem_iff
  have hlab : ∀ e, e ∈ x.e → e ∈ edgeLabels l := fun e he => (mem_edgeLabels l e).2 ⟨x, hxl, he⟩
  have ha := hlab a ((hmem a).2 (by simp))
  have hb' := hlab b ((hmem b).2 (by simp))
  have hc := hlab c ((hmem c).2 (by simp))
  have hd := hlab d ((hmem d).2 (by simp))
  -- labels on one arc lie on one circle
  have same : ∀ {u v}, u ∈ edgeLabels l → v ∈ edgeLabels l → Conn (statePairs l s) u v →
      circleIdx (circles l (edgeLabels l) s) u = circleIdx (circles l (edgeLabels l) s) v := by
    intro u v hu hv huv
    obtain ⟨i, hi, hui⟩ := spec.cover u hu
    rw [circleIdx_of_mem spec hi hui, circleIdx_of_mem spec hi (spec.mem_of_conn hi hui hv huv)]
  have eab := same ha hb' cab
  have ecd := same hc hd ccd
  have hne : circleIdx (circles l (edgeLabels l) s) a ≠ circleIdx (circles l (edgeLabels l) s) c := by
    obtain ⟨e1, he1, e2, he2, hne⟩ := hex
    rw [hmem] at he1 he2
    simp only [List.mem_cons, List.not_mem_nil, or_false] at he1 he2
    intro e
    rcases he1 with rfl | rfl | rfl | rfl <;> rcases he2 with rfl | rfl | rfl | rfl <;>
      first
        | exact hne rfl
        | (apply hne; simp only [← eab, ← ecd, e])
  have hnac : ¬ Conn (statePairs l s) a c := fun hac => hne (same ha hc hac)
  have hcolac := hcol a ((hmem a).2 (by simp)) c ((hmem c).2 (by simp)) hne
  obtain ⟨i1, i2, j0, h12, h2, hj0, hg, hbn, hidx⟩ := merge_shape spec spec' a c ha hc hnac (hmain hnac)
  refine ⟨i1, i2, j0, h12, h2, hj0, hg, hbn, ?_⟩
  rcases hidx with ⟨e1, e2⟩ | ⟨e1, e2⟩
  · rw [← e1, ← e2]; exact hcolac
  · rw [← e1, ← e2]; exact fun e => hcolac e.symm

/-! ### one edge -/

theorem carry_congr (cs cs' : Array (Array Nat)) (m m' : Nat)
    (h : ∀ i, i < cs.size → cs'.contains cs[i]! = true → m.testBit i = m'.testBit i) :
    carry cs cs' m = carry cs cs' m' := by
  unfold carry
  have : ∀ (ks : List Nat) (acc : Nat), (∀ i ∈ ks, i < cs.size) →
      ks.foldl (fun m0 i => if cs'.contains cs[i]! then
        setBit m0 ((cs'.findIdx? (· == cs[i]!)).getD 0) (m.testBit i) else m0) acc =
      ks.foldl (fun m0 i => if cs'.contains cs[i]! then
        setBit m0 ((cs'.findIdx? (· == cs[i]!)).getD 0) (m'.testBit i) else m0) acc := by
    intro ks
    induction ks with
    | nil => intro acc _; rfl
    | cons k ks ih =>
      intro acc hks
      simp only [List.foldl_cons]
      by_cases hc : cs'.contains cs[k]! = true
      · rw [h k (hks k (by simp)) hc]
        exact ih _ (fun i hi => hks i (List.mem_cons_of_mem _ hi))
      · simp only [hc]
        exact ih _ (fun i hi => hks i (List.mem_cons_of_mem _ hi))
  exact this _ 0 (fun i hi => List.mem_range.1 hi)

theorem not_contains_of_gone (cs cs' : Array (Array Nat)) (i : Nat) (hi : i ∈ goneOf cs cs') :
    cs'.contains cs[i]! = false := by
  unfold goneOf at hi
  rw [Array.mem_filter] at hi
  simpa using hi.2

/-- the merge terms of the generator `⟨s, m⟩` along the edge `k` -/
def mergeTerms (c : Cube) (h : Int) (s k i1 i2 j0 m : Nat) : List Term :=
  (prod h 0 (m.testBit i1) (m.testBit i2)).filterMap (fun (ya : Bool × Int) =>
    if ya.2 != 0 then
      some ((⟨s ||| 1 <<< k, setBit (carry (c.circ[s]!) (c.circ[s ||| 1 <<< k]!) m) j0 ya.1⟩ : Gen),
        edgeSign s k * ya.2)
    else none)

/-- (ii) the edge map of a merge edge: multiplication on the two merged factors, identity elsewhere -/
theorem edgeTerms_merge (c : Cube) (h : Int) (red : Bool) (s k i1 i2 j0 m : Nat)
    (hg : goneOf (c.circ[s]!) (c.circ[s ||| 1 <<< k]!) = #[i1, i2])
    (hb : bornOf (c.circ[s]!) (c.circ[s ||| 1 <<< k]!) = #[j0]) :
    edgeTerms c ⟨h, 0, red⟩ ⟨s, m⟩ k = some (mergeTerms c h s k i1 i2 j0 m) := by
  unfold edgeTerms mergeTerms
  simp [hg, hb]

/-- (ii)+(iii) ONE EDGE: the merge edge map kills the canonical chain, coefficient by coefficient -/
theorem edge_sum_zero (c : Cube) (h : Int) (s k i1 i2 j0 : Nat) (cols : List Colour)
    (h12 : i1 < i2) (h2 : i2 < cols.length)
    (hg : goneOf (c.circ[s]!) (c.circ[s ||| 1 <<< k]!) = #[i1, i2])
    (hne : cols.getD i1 .a ≠ cols.getD i2 .a) (y : Gen) :
    ((expand h cols).map (fun t => t.2 * termSum y (mergeTerms c h s k i1 i2 j0 t.1))).sum = 0 := by
  rw [sum_expand h cols (fun m => termSum y (mergeTerms c h s k i1 i2 j0 m))]
  simp only [mergeTerms, termSum_merge]
  have hi1 : (c.circ[s ||| 1 <<< k]!).contains (c.circ[s]!)[i1]! = false :=
    not_contains_of_gone _ _ i1 (by rw [hg]; simp)
  have hi2 : (c.circ[s ||| 1 <<< k]!).contains (c.circ[s]!)[i2]! = false :=
    not_contains_of_gone _ _ i2 (by rw [hg]; simp)
  apply merge_sum_zero h cols i1 i2 (by omega) (by omega) h2 hne
    (fun m b => if (⟨s ||| 1 <<< k, setBit (carry (c.circ[s]!) (c.circ[s ||| 1 <<< k]!) m) j0 b⟩ : Gen) == y
      then edgeSign s k else 0)
  · intro m b
    rw [carry_congr _ _ (m ^^^ 1 <<< i1) m]
    intro i _ hc
    by_cases e : i1 = i
    · subst e; rw [hi1] at hc; cases hc
    · exact tb_flip_ne m i1 i e
  · intro m b
    rw [carry_congr _ _ (m ^^^ 1 <<< i2) m]
    intro i _ hc
    by_cases e : i2 = i
    · subst e; rw [hi2] at hc; cases hc
    · exact tb_flip_ne m i2 i e

/-! ### all edges -/

/-- the terms of `d g` before the base-point filter, edge by edge -/
def rawTerms (c : Cube) (p : Params) (g : Gen) : List Term :=
  (List.range c.n).flatMap (fun k => if g.s.testBit k then [] else (edgeTerms c p g k).getD [])

theorem dRaw_of_edges (c : Cube) (p : Params) (g : Gen)
    (h : ∀ k, k < c.n → g.s.testBit k = false → (edgeTerms c p g k).isSome = true) :
    dRaw c p g = some (rawTerms c p g) := by
  unfold dRaw rawTerms
  have : ∀ (ks : List Nat) (out : List Term), (∀ k ∈ ks, k < c.n) →
      ks.foldlM (fun out k =>
        if g.s.testBit k then some out else (edgeTerms c p g k).map (fun ts => out ++ ts)) out =
      some (out ++ ks.flatMap (fun k => if g.s.testBit k then [] else (edgeTerms c p g k).getD [])) := by
    intro ks
    induction ks with
    | nil => intro out _; simp
    | cons k ks ih =>
      intro out hks
      rw [List.foldlM_cons, List.flatMap_cons]
      have ih' := fun out => ih out (fun k' hk' => hks k' (List.mem_cons_of_mem _ hk'))
      by_cases hb : g.s.testBit k = true
      · simp only [hb, if_true, List.nil_append]
        exact ih' out
      · have hb' : g.s.testBit k = false := by simpa using hb
        have hs := h k (hks k (by simp)) hb'
        obtain ⟨ts, hts⟩ := Option.isSome_iff_exists.1 hs
        simp only [hb', hts, Option.map_some, Option.getD_some, Bool.false_eq_true, if_false]
        show (some (out ++ ts)).bind _ = _
        rw [Option.bind_some, ih' (out ++ ts), List.append_assoc]
  have := this (List.range c.n) [] (fun k hk => List.mem_range.1 hk)
  simpa using this

/-- `d g` as a list of terms: the raw terms, filtered in the reduced theory -/
def dTerms (c : Cube) (p : Params) (g : Gen) : List Term :=
  match c.base with
  | none => rawTerms c p g
  | some _ => (rawTerms c p g).filter (fun t => baseKeep c t.1)

theorem cube_d_of_edges (c : Cube) (p : Params) (g : Gen)
    (h : ∀ k, k < c.n → g.s.testBit k = false → (edgeTerms c p g k).isSome = true) :
    c.d p g = some (dTerms c p g).toArray := by
  rw [cube_d_eq, dRaw_of_edges c p g h]
  unfold dTerms
  cases c.base <;> rfl

theorem termSum_filter_keep (c : Cube) (y : Gen) (ts : List Term) :
    termSum y (ts.filter (fun t => baseKeep c t.1)) = if baseKeep c y then termSum y ts else 0 := by
  unfold termSum
  rw [List.filter_filter]
  by_cases hk : baseKeep c y = true
  · rw [if_pos hk]
    congr 2
    apply List.filter_congr
    intro t _
    by_cases e : (t.1 == y) = true
    · have : t.1 = y := eq_of_beq e
      rw [this] at e ⊢
      simp [hk]
    · simp [e]
  · rw [if_neg hk]
    have : ts.filter (fun t => (t.1 == y) && baseKeep c t.1) = [] := by
      rw [List.filter_eq_nil_iff]
      intro t _
      by_cases e : (t.1 == y) = true
      · have : t.1 = y := eq_of_beq e
        rw [this]; simp [hk]
      · simp [e]
    rw [this]; rfl

theorem sum_map_zero {α : Type} (xs : List α) (f : α → Int) (h : ∀ x ∈ xs, f x = 0) : (xs.map f).sum = 0 := by
  induction xs with
  | nil => rfl
  | cons x xs ih =>
    rw [List.map_cons, List.sum_cons, h x (by simp), ih (fun x' hx' => h x' (List.mem_cons_of_mem _ hx'))]
    rfl

theorem sum_map_add {α : Type} (xs : List α) (f g : α → Int) :
    (xs.map (fun x => f x + g x)).sum = (xs.map f).sum + (xs.map g).sum := by
  induction xs with
  | nil => rfl
  | cons x xs ih => simp only [List.map_cons, List.sum_cons, ih]; omega

/-- (iv) the sum over all edges: if every edge kills the chain, so does `d` -/
theorem chain_zero (c : Cube) (p : Params) (z : Chain) (y : Gen)
    (h : ∀ k, k < c.n →
      (z.map (fun ga => ga.2 * termSum y (if ga.1.s.testBit k then [] else (edgeTerms c p ga.1 k).getD []))).sum = 0) :
    chainSum (dTerms c p) z y = 0 := by
  have raw : (z.map (fun ga => ga.2 * termSum y (rawTerms c p ga.1))).sum = 0 := by
    unfold rawTerms
    have : ∀ ks : List Nat, (∀ k ∈ ks, k < c.n) →
        (z.map (fun ga => ga.2 * termSum y (ks.flatMap (fun k =>
          if ga.1.s.testBit k then [] else (edgeTerms c p ga.1 k).getD [])))).sum = 0 := by
      intro ks
      induction ks with
      | nil => intro _; exact sum_map_zero _ _ (fun ga _ => by simp [termSum_nil])
      | cons k ks ih =>
        intro hks
        simp only [List.flatMap_cons, termSum_append, Int.mul_add]
        rw [sum_map_add, h k (hks k (by simp)), ih (fun k' hk' => hks k' (List.mem_cons_of_mem _ hk'))]
        rfl
    exact this _ (fun k hk => List.mem_range.1 hk)
  unfold chainSum dTerms
  cases hbase : c.base with
  | none => exact raw
  | some e =>
    simp only [termSum_filter_keep]
    by_cases hk : baseKeep c y = true
    · simp only [hk, if_true]; exact raw
    · simp only [hk]
      exact sum_map_zero _ _ (fun ga _ => by simp)

/-! ### the cube of `mkCube`, the state of `ori_pres_state`, the shape of `canonCyclesAt` -/

theorem mkCube_circ (l : Link) (p : Params) (base : Option Nat) (s : Nat) (hs : s < 2 ^ crossingNum l) :
    ({ mkCube l p with base := base } : Cube).circ[s]! = circles l (edgeLabels l) s := by
  show ((Array.range (2 ^ crossingNum l)).map (fun s => circles l (edgeLabels l) s))[s]! = _
  rw [getElem!_pos _ _ (by simpa using hs)]
  simp [Array.getElem_range]

theorem bitsToNat_lt (bs : List Bool) : bitsToNat bs < 2 ^ bs.length := by
  induction bs with
  | nil => simp [bitsToNat]
  | cons b bs ih =>
    simp only [bitsToNat, List.length_cons, Nat.pow_succ]
    split <;> omega

theorem oriPresState_lt (signs : List Int) : oriPresState signs < 2 ^ signs.length := by
  have := bitsToNat_lt (oriPresBits signs)
  simpa [oriPresState, oriPresBits] using this

theorem getD_map_other (cols : List Colour) (i1 i2 : Nat) (h1 : i1 < cols.length) (h2 : i2 < cols.length)
    (hne : cols.getD i1 .a ≠ cols.getD i2 .a) :
    (cols.map Colour.other).getD i1 .a ≠ (cols.map Colour.other).getD i2 .a := by
  simp only [List.getD_eq_getElem?_getD, List.getElem?_map, List.getElem?_eq_getElem h1,
    List.getElem?_eq_getElem h2, Option.map_some, Option.getD_some] at hne ⊢
  intro e
  apply hne
  cases h1 : cols[i1] <;> cases h2 : cols[i2] <;> simp_all [Colour.other]

/-- what `canonCyclesAt` returns, with the coloured Seifert circles it was built from -/
theorem canonCyclesAt_cc (l : Link) (signs : List Int) (h : Int) (base : Option Nat) (zs : List Chain)
    (hz : canonCyclesAt l signs h base = .ok zs) :
    zs = [] ∨ ∃ start cc, (match base with | some e => some e | none => firstEdge l) = some start ∧
      coloredSeifertCircles l signs start = .ok cc ∧
      zs = if base.isSome then
          [chainOf (oriPresState signs) h
            (coloursInRefOrder cc (circles l (edgeLabels l) (oriPresState signs)).toList)]
        else
          [chainOf (oriPresState signs) h
            (coloursInRefOrder cc (circles l (edgeLabels l) (oriPresState signs)).toList),
           chainOf (oriPresState signs) h
            ((coloursInRefOrder cc (circles l (edgeLabels l) (oriPresState signs)).toList).map Colour.other)] := by
  unfold canonCyclesAt at hz
  split at hz
  · split at hz
    · left; cases hz; rfl
    · split at hz
      · cases hz
      · split at hz
        · right
          rename_i _ start hstart _ cc hcc
          refine ⟨start, cc, hstart, hcc, ?_⟩
          split at hz <;> (cases hz; simp [chainOf, *])
        · cases hz
        · cases hz
  · cases hz
  · cases hz

/-! ### assembly -/

/-- the edge data of every cube edge out of `s`, for the cube `{ mkCube l p with base }` and any colour list `cols'`
that separates whatever `cols` separates -/
theorem cube_edge_data (l : Link) (hv : validK l = true) (p : Params) (base : Option Nat) (s : Nat)
    (hs : s < 2 ^ crossingNum l) (cols cols' : List Colour)
    (hlen : cols'.length = (circles l (edgeLabels l) s).size)
    (H : bicoloured l (circles l (edgeLabels l) s) cols = true)
    (hcc : ∀ i1 i2, i1 < cols'.length → i2 < cols'.length → cols.getD i1 .a ≠ cols.getD i2 .a →
      cols'.getD i1 .a ≠ cols'.getD i2 .a)
    (k : Nat) (hk : k < crossingNum l) (hb : s.testBit k = false) :
    ∃ i1 i2 j0, i1 < i2 ∧ i2 < cols'.length ∧
      goneOf (({ mkCube l p with base := base } : Cube).circ[s]!)
        (({ mkCube l p with base := base } : Cube).circ[s ||| 1 <<< k]!) = #[i1, i2] ∧
      bornOf (({ mkCube l p with base := base } : Cube).circ[s]!)
        (({ mkCube l p with base := base } : Cube).circ[s ||| 1 <<< k]!) = #[j0] ∧
      cols'.getD i1 .a ≠ cols'.getD i2 .a := by
  have hs' : s ||| 1 <<< k < 2 ^ crossingNum l := by
    apply Nat.or_lt_two_pow hs
    rw [Nat.one_shiftLeft]
    exact Nat.pow_lt_pow_right (by omega) hk
  rw [mkCube_circ l p base s hs, mkCube_circ l p base _ hs']
  obtain ⟨i1, i2, j0, h12, h2, _, hg, hbn, hne⟩ := edge_shape l hv s k hk hb cols H
  exact ⟨i1, i2, j0, h12, by omega, hg, hbn, hcc i1 i2 (by omega) (by omega) hne⟩

/-- `d` of the canonical chain of the colours `cols'`, in the cube `{ mkCube l ⟨h, 0, false⟩ with base }`, is zero -/
theorem chain_cycle_core (l : Link) (hv : validK l = true) (h : Int) (base : Option Nat) (red : Bool) (s : Nat)
    (hs : s < 2 ^ crossingNum l) (cols cols' : List Colour)
    (hlen : cols'.length = (circles l (edgeLabels l) s).size)
    (H : bicoloured l (circles l (edgeLabels l) s) cols = true)
    (hcc : ∀ i1 i2, i1 < cols'.length → i2 < cols'.length → cols.getD i1 .a ≠ cols.getD i2 .a →
      cols'.getD i1 .a ≠ cols'.getD i2 .a) :
    Yuiv.Drv.C06.dOfChain { mkCube l ⟨h, 0, false⟩ with base := base } ⟨h, 0, red⟩ (chainOf s h cols') = some [] := by
  have key := cube_edge_data l hv ⟨h, 0, false⟩ base s hs cols cols' hlen H hcc
  generalize hc : ({ mkCube l ⟨h, 0, false⟩ with base := base } : Cube) = c at key ⊢
  have hn : c.n = crossingNum l := by rw [← hc]; rfl
  have hgs : ∀ ga ∈ chainOf s h cols', ∃ m, ga.1 = ⟨s, m⟩ := by
    intro ga hga
    unfold chainOf at hga
    obtain ⟨t, _, rfl⟩ := List.mem_map.1 hga
    exact ⟨t.1, rfl⟩
  apply dOfChain_zero c ⟨h, 0, red⟩ _ (dTerms c ⟨h, 0, red⟩)
  · intro ga hga
    obtain ⟨m, hm⟩ := hgs ga hga
    rw [hm]
    apply cube_d_of_edges
    intro k hk hb
    obtain ⟨i1, i2, j0, _, _, hg, hbn, _⟩ := key k (hn ▸ hk) hb
    rw [edgeTerms_merge c h red s k i1 i2 j0 m hg hbn]
    rfl
  · intro y
    apply chain_zero
    intro k hk
    unfold chainOf
    rw [List.map_map]
    by_cases hb : s.testBit k = true
    · apply sum_map_zero
      intro t _
      simp [hb, termSum_nil]
    · have hb' : s.testBit k = false := by simpa using hb
      obtain ⟨i1, i2, j0, h12, h2, hg, hbn, hne⟩ := key k (hn ▸ hk) hb'
      have := edge_sum_zero c h s k i1 i2 j0 cols' h12 h2 hg hne y
      refine Eq.trans ?_ this
      congr 1
      apply List.map_congr_left
      intro t _
      simp only [Function.comp, hb', Bool.false_eq_true, if_false,
        edgeTerms_merge c h red s k i1 i2 j0 t.1 hg hbn, Option.getD_some]

end Yuiv.C06Cycle
