import Yuiv.Proofs.C05EngineScriptDD
/-
C05 (cobordisms) — the `d ∘ d = 0` theorems of the engine model once more, for edge labels of an ARBITRARY type `E`
(no ring structure, partial operations) seen through a VALUE map `val : E → A` into a ring `A`: an edge operation is
lawful when the value of its result is the ring expression in the values of its arguments.  The identity elements
are LOCAL (`a·a⁻¹` only has to act as an identity on the labels that leave the target of `a`, the delooping
decomposition only between the labels into and out of the delooped vertex), as in a ring with one idempotent per
object.  This is the form that the real edge algebra `lcOps h t` can satisfy (`Proofs/C05CobLc.lean`).
The proofs are those of `Proofs/C05Engine{DD,DeloopDD,ConnectDD,ScriptDD}.lean` with `ent` replaced by `entV val`.
-/
namespace Yuiv.C05.Engine
open Yuiv Yuiv.C05 Yuiv.C05.Tng

variable {E A : Type} [Ring A]

/-- the value of the entry `k → l` (`0` when there is no edge) -/
def entV (val : E → A) (cx : Cx E) (k l : TKey) : A := ((cx.edge? k l).map val).getD 0

/-- the `(k, m)` entry of `d ∘ d` in values -/
def ddAtV (val : E → A) (cx : Cx E) (k m : TKey) : A :=
  ∑ l ∈ (cx.verts.map (·.1)).toFinset, entV val cx l m * entV val cx k l

/-- `d ∘ d = 0` in values -/
def DDV (val : E → A) (cx : Cx E) : Prop := ∀ k m, ddAtV val cx k m = 0

/-- `eliminate`'s operations are lawful for `val` -/
structure ValEdgeOps (ops : EdgeOps E) (val : E → A) : Prop where
  cab : ∀ c ainv b r, ops.cab c ainv b = .ok r → val r = val c * val ainv * val b
  sub : ∀ d x, val (ops.sub d x) = val d - val x
  neg : ∀ x, val (ops.neg x) = - val x
  zero : ∀ x, ops.isZero x = true → val x = 0

theorem entV_zero_of_not_key (val : E → A) (ops : EdgeOps E) (cx : Cx E) (hwf : WF ops cx) (a b : TKey)
    (h : a ∉ cx.verts.map (·.1) ∨ b ∉ cx.verts.map (·.1)) : entV val cx a b = 0 := by
  unfold entV
  rcases he : cx.edge? a b with _ | f
  · rfl
  · obtain ⟨h1, h2⟩ := hwf.ends _ (hwf.edge_mem a b f he)
    rcases h with h | h
    · exact absurd h1 h
    · exact absurd h2 h

theorem entV_self (val : E → A) (ops : EdgeOps E) (cx : Cx E) (hwf : WF ops cx) (x : TKey) : entV val cx x x = 0 := by
  unfold entV
  rcases hx : cx.edge? x x with _ | f
  · rfl
  · have := hwf.deg _ (hwf.edge_mem x x f hx)
    simp only at this
    omega

theorem entV_of_edge (val : E → A) (cx : Cx E) (k l : TKey) (f : E) (h : cx.edge? k l = some f) :
    entV val cx k l = val f := by unfold entV; rw [h]; rfl

theorem entV_of_none (val : E → A) (cx : Cx E) (k l : TKey) (h : cx.edge? k l = none) :
    entV val cx k l = 0 := by unfold entV; rw [h]; rfl

/-- entries after `eliminate` in values -/
theorem entV_eliminate (val : E → A) (ops : EdgeOps E) (hops : ValEdgeOps ops val) (cx cx' : Cx E) (k0 k1 : TKey)
    (hwf : WF ops cx) (h : cx.eliminate ops k0 k1 = .ok cx') :
    ∃ a ainv, cx.edge? k0 k1 = some a ∧ ops.inv a = .ok ainv ∧
      ∀ l0 l1 : TKey,
        ((isPivot k0 k1 l0 = true ∨ isPivot k0 k1 l1 = true) → entV val cx' l0 l1 = 0) ∧
        (isPivot k0 k1 l0 = false → isPivot k0 k1 l1 = false →
          entV val cx' l0 l1 = entV val cx l0 l1 - entV val cx k0 l1 * val ainv * entV val cx l0 k1) := by
  obtain ⟨a, ainv, ha, hi, hall⟩ := eliminate_rewrites_edges ops cx cx' k0 k1 hwf h
  refine ⟨a, ainv, ha, hi, ?_⟩
  intro l0 l1
  refine ⟨fun hp => entV_of_none val cx' l0 l1 ((hall l0 l1).1 hp), ?_⟩
  intro p0 p1
  obtain ⟨hsome, hnone⟩ := (hall l0 l1).2 p0 p1
  rcases hb : cx.edge? l0 k1 with _ | b
  · have e := hnone (.inl hb)
    have : entV val cx' l0 l1 = entV val cx l0 l1 := by unfold entV; rw [e]
    rw [this, entV_of_none val cx l0 k1 hb]; simp
  · rcases hc : cx.edge? k0 l1 with _ | c
    · have e := hnone (.inr hc)
      have : entV val cx' l0 l1 = entV val cx l0 l1 := by unfold entV; rw [e]
      rw [this, entV_of_none val cx k0 l1 hc]; simp
    · obtain ⟨cab, hcab, he⟩ := hsome b c hb hc
      have hv := hops.cab c ainv b cab hcab
      rw [entV_of_edge val cx l0 k1 b hb, entV_of_edge val cx k0 l1 c hc, ← hv]
      rcases hd : cx.edge? l0 l1 with _ | dd
      · simp only [hd] at he
        rw [entV_of_none val cx l0 l1 hd, zero_sub, ← hops.neg]
        by_cases hz : ops.isZero (ops.neg cab) = true
        · rw [if_pos hz] at he
          rw [entV_of_none val cx' l0 l1 he, hops.zero _ hz]
        · rw [if_neg hz] at he
          exact entV_of_edge val cx' l0 l1 _ he
      · simp only [hd] at he
        rw [entV_of_edge val cx l0 l1 dd hd, ← hops.sub]
        by_cases hz : ops.isZero (ops.sub dd cab) = true
        · rw [if_pos hz] at he
          rw [entV_of_none val cx' l0 l1 he, hops.zero _ hz]
        · rw [if_neg hz] at he
          exact entV_of_edge val cx' l0 l1 _ he

/-- **`eliminate` preserves `d ∘ d = 0` in values**; the inverse only has to be a LOCAL two-sided inverse:
`a·a⁻¹` fixes the labels out of `k1` from the right, `a⁻¹·a` fixes the labels into `k0` from the left -/
theorem eliminate_ddV (val : E → A) (ops : EdgeOps E) (hops : ValEdgeOps ops val) (cx cx' : Cx E) (k0 k1 : TKey)
    (hwf : WF ops cx)
    (hunit : ∀ a ainv, cx.edge? k0 k1 = some a → ops.inv a = .ok ainv →
      (∀ m, entV val cx k1 m * (val a * val ainv) = entV val cx k1 m) ∧
      (∀ k, (val ainv * val a) * entV val cx k k0 = entV val cx k k0))
    (hdd : DDV val cx) (h : cx.eliminate ops k0 k1 = .ok cx') : DDV val cx' := by
  obtain ⟨a, ainv, ha, hinv, hent⟩ := entV_eliminate val ops hops cx cx' k0 k1 hwf h
  obtain ⟨hu1, hu2⟩ := hunit a ainv ha hinv
  generalize hav : val a = av at hu1 hu2
  generalize hiv : val ainv = iv at hu1 hu2 hent
  have hverts := (eliminate_verts ops cx cx' k0 k1 h).1
  -- the pivot edge and its end points
  have hpe := hwf.edge_mem k0 k1 a ha
  obtain ⟨hk0, hk1⟩ := hwf.ends _ hpe
  have hdeg := hwf.deg _ hpe
  simp only at hk0 hk1 hdeg
  have hne : k0 ≠ k1 := by intro e; rw [e] at hdeg; omega
  -- no self loops
  have hself : ∀ x, entV val cx x x = 0 := by
    intro x
    unfold entV
    rcases hx : cx.edge? x x with _ | f
    · rfl
    · have := hwf.deg _ (hwf.edge_mem x x f hx)
      simp only at this
      omega
  have hA : entV val cx k0 k1 = av := by rw [entV_of_edge val cx k0 k1 a ha, hav]
  intro k m
  unfold ddAtV
  have hS : (cx'.verts.map (·.1)).toFinset =
      (cx.verts.map (·.1)).toFinset.filter (fun l => isPivot k0 k1 l = false) := by
    rw [hverts]
    ext x
    simp only [List.mem_toFinset, List.mem_map, List.mem_filter, Finset.mem_filter, Bool.not_eq_eq_eq_not, Bool.not_true]
    constructor
    · rintro ⟨v, ⟨hv, hp⟩, rfl⟩; exact ⟨⟨v, hv, rfl⟩, hp⟩
    · rintro ⟨⟨v, hv, rfl⟩, hp⟩; exact ⟨v, ⟨hv, hp⟩, rfl⟩
  rw [hS]
  by_cases pk : isPivot k0 k1 k = true
  · apply Finset.sum_eq_zero
    intro l _
    rw [(hent k l).1 (.inl pk), mul_zero]
  by_cases pm : isPivot k0 k1 m = true
  · apply Finset.sum_eq_zero
    intro l _
    rw [(hent l m).1 (.inr pm), zero_mul]
  have pk' : isPivot k0 k1 k = false := by simpa using pk
  have pm' : isPivot k0 k1 m = false := by simpa using pm
  -- rewrite the entries of the new complex
  have hterm : ∀ l ∈ (cx.verts.map (·.1)).toFinset.filter (fun l => isPivot k0 k1 l = false),
      entV val cx' l m * entV val cx' k l =
        entV val cx l m * entV val cx k l - (entV val cx l m * entV val cx k0 l) * (iv * entV val cx k k1)
          - (entV val cx k0 m * iv) * (entV val cx l k1 * entV val cx k l)
          + (entV val cx k0 m * iv) * (entV val cx l k1 * entV val cx k0 l) * (iv * entV val cx k k1) := by
    intro l hl
    have pl : isPivot k0 k1 l = false := (Finset.mem_filter.1 hl).2
    rw [(hent l m).2 pl pm', (hent k l).2 pk' pl]
    noncomm_ring
  rw [Finset.sum_congr rfl hterm]
  simp only [Finset.sum_add_distrib, Finset.sum_sub_distrib, ← Finset.sum_mul, ← Finset.mul_sum]
  -- the four instances of `d ∘ d = 0` of the old complex, split at the pivots
  have hS0 := Finset.mem_coe.1 (List.mem_toFinset.2 hk0)
  have hS1 := Finset.mem_coe.1 (List.mem_toFinset.2 hk1)
  have e1 := hdd k m
  have e2 := hdd k0 m
  have e3 := hdd k k1
  have e4 := hdd k0 k1
  unfold ddAtV at e1 e2 e3 e4
  rw [sum_split_pivots _ k0 k1 hS0 hS1 hne] at e1 e2 e3 e4
  rw [hself k0, hA] at e2
  rw [hself k1, hA] at e3
  rw [hself k0, hself k1, hA] at e4
  simp only [mul_zero, zero_mul, add_zero] at e2 e3 e4
  -- solve for the four partial sums
  have s1 := eq_neg_of_add_eq_zero_left e1
  have s4 := e4
  have s2 : ∑ l ∈ (cx.verts.map (·.1)).toFinset.filter (fun l => isPivot k0 k1 l = false),
      entV val cx l m * entV val cx k0 l = -(entV val cx k1 m * av) := eq_neg_of_add_eq_zero_left e2
  have s3 : ∑ l ∈ (cx.verts.map (·.1)).toFinset.filter (fun l => isPivot k0 k1 l = false),
      entV val cx l k1 * entV val cx k l = -(av * entV val cx k k0) := eq_neg_of_add_eq_zero_left e3
  have s1' : ∑ l ∈ (cx.verts.map (·.1)).toFinset.filter (fun l => isPivot k0 k1 l = false),
      entV val cx l m * entV val cx k l = -(entV val cx k0 m * entV val cx k k0) - entV val cx k1 m * entV val cx k k1 := by
    have := e1
    have h' : ∑ l ∈ (cx.verts.map (·.1)).toFinset.filter (fun l => isPivot k0 k1 l = false),
        entV val cx l m * entV val cx k l = -(entV val cx k0 m * entV val cx k k0 + entV val cx k1 m * entV val cx k k1) := by
      apply eq_neg_of_add_eq_zero_left
      rw [← add_assoc]; exact this
    rw [h']; abel
  rw [s1', s2, s3, s4]
  calc -(entV val cx k0 m * entV val cx k k0) - entV val cx k1 m * entV val cx k k1 - -(entV val cx k1 m * av) * (iv * entV val cx k k1)
        - entV val cx k0 m * iv * -(av * entV val cx k k0) + entV val cx k0 m * iv * 0 * (iv * entV val cx k k1)
      = -(entV val cx k0 m * entV val cx k k0) - entV val cx k1 m * entV val cx k k1 + entV val cx k1 m * (av * iv) * entV val cx k k1
        + entV val cx k0 m * (iv * av) * entV val cx k k0 := by noncomm_ring
    _ = 0 := by rw [hu1 m, mul_assoc (entV val cx k0 m), hu2 k]; noncomm_ring


/-! ### delooping -/

/-- `cap_off` on the target / source side multiplies the value by a cap / cup (for the circle `c`) -/
structure ValDeloopOps (ops : EdgeOps E) (val : E → A) (c : Path) (cap cup : Dot → A) : Prop where
  tgt : ∀ d f g, ops.capOff .tgt c d f = .ok g → val g = cap d * val f
  src : ∀ d f g, ops.capOff .src c d f = .ok g → val g = val f * cup d
  zero : ∀ x, ops.isZero x = true → val x = 0

theorem deloopWith_entV (val : E → A) (ops : EdgeOps E) (cx cx' : Cx E) (k : TKey) (r : Nat) (birth death : Dot)
    (t : Tng) (c : Path) (cap cup : Dot → A) (hwf : WF ops cx) (ht : cx.tng? k = some t) (hc : t[r]? = some c)
    (hops : ValDeloopOps ops val c cap cup) (h : cx.deloopWith ops k r birth death = .ok cx') (a b : TKey) :
    entV val cx' a b =
      if b = k then cap death * entV val cx a b else if a = k then entV val cx a b * cup birth else entV val cx a b := by
  obtain ⟨t0, circ, t', ht0, hrm, _, hall⟩ := deloopWith_edges ops cx cx' k r birth death hwf.edges h
  rw [ht] at ht0
  cases ht0
  have hcirc : circ = c := by
    unfold Tng.removeAt at hrm
    rw [hc] at hrm
    simp only [Res.ok.injEq, Prod.mk.injEq] at hrm
    exact hrm.1.symm
  subst hcirc
  obtain ⟨hnone, hsome⟩ := hall a b
  rcases he : cx.edge? a b with _ | f
  · rw [entV_of_none val cx' a b (hnone he), entV_of_none val cx a b he]
    simp
  · obtain ⟨h1, h2, h3⟩ := hsome f he
    rw [entV_of_edge val cx a b f he]
    by_cases hb : b = k
    · obtain ⟨g, hg, hr⟩ := h1 hb
      rw [if_pos hb, ← hops.tgt _ _ _ hg]
      by_cases hz : ops.isZero g = true
      · rw [if_pos hz] at hr
        rw [entV_of_none val cx' a b hr, hops.zero _ hz]
      · rw [if_neg hz] at hr
        exact entV_of_edge val cx' a b g hr
    · by_cases ha : a = k
      · obtain ⟨g, hg, hr⟩ := h2 hb ha
        rw [if_neg hb, if_pos ha, ← hops.src _ _ _ hg]
        by_cases hz : ops.isZero g = true
        · rw [if_pos hz] at hr
          rw [entV_of_none val cx' a b hr, hops.zero _ hz]
        · rw [if_neg hz] at hr
          exact entV_of_edge val cx' a b g hr
      · rw [if_neg hb, if_neg ha]
        exact entV_of_edge val cx' a b f (h3 hb ha)

/-- **every entry after `deloop(k, r)`**: `L(b) · d(π a → π b) · R(a)`, and nothing at the old key -/
theorem deloop_entV (val : E → A) (ops : EdgeOps E) (cx cx' : Cx E) (k : TKey) (r : Nat) (upd : List TKey) (t : Tng) (c : Path)
    (cap cup : Dot → A) (hwf : WF ops cx) (ht : cx.tng? k = some t) (hc : t[r]? = some c)
    (hops : ValDeloopOps ops val c cap cup) (h : cx.deloop ops k r = .ok (upd, cx')) (a b : TKey) :
    entV val cx' a b =
      if a = k ∨ b = k then 0
      else dlL cap k (!cx.containsBase c) b * entV val cx (dlPi k (!cx.containsBase c) a) (dlPi k (!cx.containsBase c) b)
            * dlR cup k (!cx.containsBase c) a := by
  obtain ⟨t0, c0, ht0, hc0, _, _, c1, h1, hb, hu⟩ := deloop_factors ops cx cx' k r upd h
  rw [ht] at ht0; cases ht0
  rw [hc] at hc0; cases hc0
  have hkX := push_ne k .X
  have hkI := push_ne k .I
  have hXI := pushX_ne_pushI k
  have w1 := wf_renameKey ops cx c1 _ _ hwf (weight_push k .X) h1
  obtain ⟨_, hkS, hXS, _⟩ := renameKey_ok cx c1 k (k.push .X) h1
  have hself : entV val cx k k = 0 := entV_self val ops cx hwf k
  have hX1 : ∀ y, entV val cx (k.push .X) y = 0 := fun y => entV_zero_of_not_key val ops cx hwf _ _ (.inl hXS)
  have hX2 : ∀ y, entV val cx y (k.push .X) = 0 := fun y => entV_zero_of_not_key val ops cx hwf _ _ (.inr hXS)
  have e1 : ∀ a b, entV val c1 a b = if a = k ∨ b = k then 0 else entV val cx (backFn k (k.push .X) a) (backFn k (k.push .X) b) := by
    intro a b
    unfold entV
    rw [renameKey_edge? ops cx c1 k _ hwf h1 a b]
    split <;> rfl
  have t1 : c1.tng? (k.push .X) = some t := by rw [renameKey_tng? cx c1 k _ h1, ht]
  by_cases hbase : cx.containsBase c = true
  · -- based: only the X copy
    have h3 := hb hbase
    have e3 := deloopWith_entV val ops c1 cx' (k.push .X) r _ _ t c cap cup w1 t1 hc hops h3 a b
    rw [e3, e1 a b]
    simp only [hbase, Bool.not_true, dlPi, dlL, dlR, Bool.false_eq_true, false_and, or_false, if_false, Deloop.copyX, dotOf, backFn]
    by_cases ha : a = k.push .X <;> by_cases hb' : b = k.push .X <;> by_cases ha' : a = k <;> by_cases hb'' : b = k <;>
      simp_all
  · -- unbased: the copies X and 1
    have hbase' : cx.containsBase c = false := by simpa using hbase
    obtain ⟨c2, c3, h2, h3, h4⟩ := hu hbase'
    have w2 := wf_duplicateKey ops c1 c2 _ _ w1 (by rfl) h2
    have w3 := wf_deloopWith ops c2 c3 _ _ _ _ w2 h3
    obtain ⟨_, _, _, hIS1, _⟩ := duplicateKey_ok c1 c2 _ _ h2
    have hIS : k.push .I ∉ cx.verts.map (·.1) := by
      intro hm
      apply hIS1
      rw [renameKey_keys cx c1 k _ h1]
      refine List.mem_map.2 ⟨k.push .I, hm, ?_⟩
      simp [renameFn, hkI]
    have hI1 : ∀ y, entV val cx (k.push .I) y = 0 := fun y => entV_zero_of_not_key val ops cx hwf _ _ (.inl hIS)
    have hI2 : ∀ y, entV val cx y (k.push .I) = 0 := fun y => entV_zero_of_not_key val ops cx hwf _ _ (.inr hIS)
    obtain ⟨t2X, t2I⟩ := duplicateKey_tng? c1 c2 _ _ t t1 h2
    have t3I : c3.tng? (k.push .I) = some t := by
      rw [deloopWith_tng? ops c2 c3 _ _ r _ _ (Ne.symm hXI) h3, t2I]
    have e2 : ∀ a b, entV val c2 a b = if b = k.push .I then entV val c1 a (k.push .X) else if a = k.push .I then entV val c1 (k.push .X) b else entV val c1 a b := by
      intro a b
      unfold entV
      rw [duplicateKey_edge? ops c1 c2 _ _ w1 h2 a b]
      split
      · rfl
      · split <;> rfl
    have e3 := deloopWith_entV val ops c2 c3 (k.push .X) r _ _ t c cap cup w2 t2X hc hops h3
    have e4 := deloopWith_entV val ops c3 cx' (k.push .I) r _ _ t c cap cup w3 t3I hc hops h4 a b
    rw [e4]
    simp only [e3, e2, e1]
    simp only [hbase', Bool.not_false, dlPi, dlL, dlR, true_and, Deloop.copyX, Deloop.copyI, dotOf, backFn]
    have ca : a = k ∨ a = k.push .X ∨ a = k.push .I ∨ (a ≠ k ∧ a ≠ k.push .X ∧ a ≠ k.push .I) := by
      by_cases x1 : a = k
      · exact .inl x1
      · by_cases x2 : a = k.push .X
        · exact .inr (.inl x2)
        · by_cases x3 : a = k.push .I
          · exact .inr (.inr (.inl x3))
          · exact .inr (.inr (.inr ⟨x1, x2, x3⟩))
    have cb : b = k ∨ b = k.push .X ∨ b = k.push .I ∨ (b ≠ k ∧ b ≠ k.push .X ∧ b ≠ k.push .I) := by
      by_cases x1 : b = k
      · exact .inl x1
      · by_cases x2 : b = k.push .X
        · exact .inr (.inl x2)
        · by_cases x3 : b = k.push .I
          · exact .inr (.inr (.inl x3))
          · exact .inr (.inr (.inr ⟨x1, x2, x3⟩))
    rcases ca with ha | ha | ha | ⟨ha1, ha2, ha3⟩ <;> rcases cb with hb' | hb' | hb' | ⟨hb1, hb2, hb3⟩ <;>
      first
        | (subst ha; subst hb'; simp [hkX, hkI, hXI, hXI.symm, hkX.symm, hkI.symm, hself, hX1, hX2, hI1, hI2])
        | (subst ha; simp [hkX, hkI, hXI, hXI.symm, hkX.symm, hkI.symm, hself, hX1, hX2, hI1, hI2, hb1, hb2, hb3])
        | (subst hb'; simp [hkX, hkI, hXI, hXI.symm, hkX.symm, hkI.symm, hself, hX1, hX2, hI1, hI2, ha1, ha2, ha3])
        | simp [hkX, hkI, hXI, hXI.symm, hkX.symm, hkI.symm, hself, hX1, hX2, hI1, hI2, ha1, ha2, ha3, hb1, hb2, hb3]


/-- **delooping preserves `d ∘ d = 0`** -/
theorem deloop_ddV (val : E → A) (ops : EdgeOps E) (cx cx' : Cx E) (k : TKey) (r : Nat) (upd : List TKey) (t : Tng) (c : Path)
    (cap cup : Dot → A) (hwf : WF ops cx) (ht : cx.tng? k = some t) (hc : t[r]? = some c)
    (hops : ValDeloopOps ops val c cap cup)
    (hiso : if cx.containsBase c = true then
              ∀ x y, entV val cx k y * (cup .X * cap .none) * entV val cx x k = entV val cx k y * entV val cx x k
            else ∀ x y, entV val cx k y * (cup .X * cap .none + cup .none * cap .Y) * entV val cx x k
              = entV val cx k y * entV val cx x k)
    (hdd : DDV val cx) (h : cx.deloop ops k r = .ok (upd, cx')) : DDV val cx' := by
  have hent := deloop_entV val ops cx cx' k r upd t c cap cup hwf ht hc hops h
  have hS := deloop_vertex_set ops cx cx' k r upd t c hwf ht hc h
  obtain ⟨t0, c0, ht0, hc0, _, _, c1, h1, _, hu⟩ := deloop_factors ops cx cx' k r upd h
  rw [ht] at ht0; cases ht0
  rw [hc] at hc0; cases hc0
  obtain ⟨_, hkS, hXS, _⟩ := renameKey_ok cx c1 k (k.push .X) h1
  have hkX := push_ne k .X
  have hkI := push_ne k .I
  have hXI := pushX_ne_pushI k
  intro j m
  unfold ddAtV
  by_cases hjm : j = k ∨ m = k
  · apply Finset.sum_eq_zero
    intro l _
    rcases hjm with hj | hm
    · rw [hent j l, if_pos (.inl hj), mul_zero]
    · rw [hent l m, if_pos (.inr hm), zero_mul]
  have hj : j ≠ k := fun e => hjm (.inl e)
  have hm : m ≠ k := fun e => hjm (.inr e)
  set u : Bool := !cx.containsBase c with hu_def
  -- every vertex of the new complex differs from the old key
  have hlk : ∀ l ∈ (cx'.verts.map (·.1)).toFinset, l ≠ k := by
    intro l hl
    rw [hS] at hl
    split at hl
    · simp only [Finset.mem_insert, Finset.mem_erase] at hl
      rcases hl with rfl | ⟨h', _⟩
      · exact hkX
      · exact h'
    · simp only [Finset.mem_insert, Finset.mem_erase] at hl
      rcases hl with rfl | rfl | ⟨h', _⟩
      · exact hkI
      · exact hkX
      · exact h'
  have hterm : ∀ l ∈ (cx'.verts.map (·.1)).toFinset, entV val cx' l m * entV val cx' j l =
      dlL cap k u m * (entV val cx (dlPi k u l) (dlPi k u m) * (dlR cup k u l * dlL cap k u l) * entV val cx (dlPi k u j) (dlPi k u l))
        * dlR cup k u j := by
    intro l hl
    have hl' := hlk l hl
    rw [hent l m, hent j l]
    simp only [hl', hj, hm, or_self, if_false]
    noncomm_ring
  rw [Finset.sum_congr rfl hterm, ← Finset.sum_mul, ← Finset.mul_sum]
  -- the middle sum is the old `d ∘ d`
  have hmid : ∑ l ∈ (cx'.verts.map (·.1)).toFinset,
      entV val cx (dlPi k u l) (dlPi k u m) * (dlR cup k u l * dlL cap k u l) * entV val cx (dlPi k u j) (dlPi k u l)
      = ddAtV val cx (dlPi k u j) (dlPi k u m) := by
    unfold ddAtV
    have hSk : k ∈ (cx.verts.map (·.1)).toFinset := List.mem_toFinset.2 hkS
    rw [← Finset.add_sum_erase _ _ hSk]
    have hX_not : k.push .X ∉ (cx.verts.map (·.1)).toFinset.erase k := by
      intro hm'; exact hXS (List.mem_toFinset.1 (Finset.mem_of_mem_erase hm'))
    -- on the old vertices other than `k` nothing changes
    have hrest : ∀ l ∈ (cx.verts.map (·.1)).toFinset.erase k,
        entV val cx (dlPi k u l) (dlPi k u m) * (dlR cup k u l * dlL cap k u l) * entV val cx (dlPi k u j) (dlPi k u l)
          = entV val cx l (dlPi k u m) * entV val cx (dlPi k u j) l := by
      intro l hl
      have hlS : l ∈ cx.verts.map (·.1) := List.mem_toFinset.1 (Finset.mem_of_mem_erase hl)
      have hlX : l ≠ k.push .X := fun e => hXS (e ▸ hlS)
      by_cases hlI : u = true ∧ l = k.push .I
      · -- `k·1` is not an old vertex in the unbased case
        exfalso
        have hbase' : cx.containsBase c = false := by simpa [hu_def] using hlI.1
        obtain ⟨c2, _, h2, _, _⟩ := hu hbase'
        obtain ⟨_, _, _, hIS1, _⟩ := duplicateKey_ok c1 c2 _ _ h2
        apply hIS1
        rw [renameKey_keys cx c1 k _ h1]
        refine List.mem_map.2 ⟨k.push .I, hlI.2 ▸ hlS, ?_⟩
        simp [renameFn, hkI]
      · simp [dlPi, dlL, dlR, hlX, hlI]
    rw [hS]
    by_cases hbase : cx.containsBase c = true
    · have hu' : u = false := by simp [hu_def, hbase]
      rw [hbase] at hiso
      simp only [if_true] at hiso
      rw [if_pos hbase, Finset.sum_insert hX_not, Finset.sum_congr rfl hrest]
      simp only [dlPi, dlL, dlR, hu', Bool.false_eq_true, false_and, or_false, if_true, if_false]
      rw [hiso]
    · have hbase' : cx.containsBase c = false := by simpa using hbase
      have hu' : u = true := by simp [hu_def, hbase']
      rw [hbase'] at hiso
      simp only [Bool.false_eq_true, if_false] at hiso
      have hI_not : k.push .I ∉ insert (k.push .X) ((cx.verts.map (·.1)).toFinset.erase k) := by
        intro hm'
        rcases Finset.mem_insert.1 hm' with e | e
        · exact hXI e.symm
        · have hlS : k.push .I ∈ cx.verts.map (·.1) := List.mem_toFinset.1 (Finset.mem_of_mem_erase e)
          obtain ⟨c2, _, h2, _, _⟩ := hu hbase'
          obtain ⟨_, _, _, hIS1, _⟩ := duplicateKey_ok c1 c2 _ _ h2
          apply hIS1
          rw [renameKey_keys cx c1 k _ h1]
          exact List.mem_map.2 ⟨k.push .I, hlS, by simp [renameFn, hkI]⟩
      rw [if_neg hbase, Finset.sum_insert hI_not, Finset.sum_insert hX_not, Finset.sum_congr rfl hrest]
      simp only [dlPi, dlL, dlR, hu', true_and, hXI, hXI.symm, or_true, true_or, if_true, if_false]
      rw [← add_assoc]
      congr 1
      have : entV val cx k (if m = k.push .X ∨ m = k.push .I then k else m) * (cup Dot.none * cap Dot.Y) *
            entV val cx (if j = k.push .X ∨ j = k.push .I then k else j) k +
          entV val cx k (if m = k.push .X ∨ m = k.push .I then k else m) * (cup Dot.X * cap Dot.none) *
            entV val cx (if j = k.push .X ∨ j = k.push .I then k else j) k
          = entV val cx k (if m = k.push .X ∨ m = k.push .I then k else m) *
              (cup Dot.X * cap Dot.none + cup Dot.none * cap Dot.Y) *
            entV val cx (if j = k.push .X ∨ j = k.push .I then k else j) k := by noncomm_ring
      rw [this, hiso]
  rw [hmid, hdd, mul_zero, zero_mul]


/-! ### the product complex -/

/-- horizontal composition with an identity in values: `val (D(f, 1)) = tl (val f) w`, `val (±D(1, g)) = ±tr (val g) v`,
with `tl`, `tr` additive and multiplicative on `A` -/
structure ValTensorOps (ops : EdgeOps E) (val : E → A) (tl tr : A → Tng → A) : Prop where
  hL : ∀ f w g, ops.hcompL f w = .ok g → val g = tl (val f) w
  hR : ∀ neg f v g, ops.hcompR neg f v = .ok g → val g = if neg = true then -(tr (val f) v) else tr (val f) v
  zero : ∀ x, ops.isZero x = true → val x = 0
  tl_zero : ∀ w, tl 0 w = 0
  tr_zero : ∀ v, tr 0 v = 0
  tl_add : ∀ f g w, tl (f + g) w = tl f w + tl g w
  tr_add : ∀ f g v, tr (f + g) v = tr f v + tr g v
  tl_mul : ∀ f g w, tl (f * g) w = tl f w * tl g w
  tr_mul : ∀ f g v, tr (f * g) v = tr f v * tr g v

/-- the sign of `connect_edges` on a value -/
def sgV (left : Cx E) (k : TKey) (z : A) : A := if signNeg left k = true then -z else z

theorem entV_of_mem (val : E → A) (ops : EdgeOps E) (cx : Cx E) (hwf : WF ops cx) (a : (TKey × TKey) × E)
    (ha : a ∈ cx.edges) : entV val cx a.1.1 a.1.2 = val a.2 := by
  apply entV_of_edge
  unfold Cx.edge?
  exact lookup_of_mem_nodup cx.edges hwf.edges (a.1.1, a.1.2) a.2 ha

/-- the entries of the product complex in values -/
theorem connect_entV (val : E → A) (ops : EdgeOps E) (tl tr : A → Tng → A) (hops : ValTensorOps ops val tl tr)
    (left right cx' : Cx E) (hl : WF ops left) (hr : WF ops right) (hbl : Bounded left) (hbr : Bounded right)
    (h : left.connect ops right = .ok cx') (k x l y : TKey) (v w : Tng)
    (hx : x ∈ left.verts.map (·.1)) (hy : y ∈ right.verts.map (·.1))
    (hv : left.tng? k = some v) (hw : right.tng? l = some w) :
    entV val cx' (k.append l) (x.append y) =
      (if y = l then tl (entV val left k x) w else 0) + (if x = k then sgV left k (tr (entV val right l y) v) else 0) := by
  have hk := tng?_some_mem left k v hv
  have hl' := tng?_some_mem right l w hw
  have hw' := wf_connect ops left right cx' hl hr h
  obtain ⟨_, hinj⟩ := connect_verts ops left right cx' hl hr h
  have hP : ∀ a b, a ∈ left.verts.map (·.1) → b ∈ right.verts.map (·.1) → (a, b) ∈ allPairs left right :=
    fun a b ha hb => mem_allPairs left right hbl hbr a b ha hb
  have hpair : ∀ a b a' b', a ∈ left.verts.map (·.1) → b ∈ right.verts.map (·.1) → a' ∈ left.verts.map (·.1) →
      b' ∈ right.verts.map (·.1) → a.append b = a'.append b' → a = a' ∧ b = b' := by
    intro a b a' b' ha hb ha' hb' he
    have := hinj (a, b) (hP a b ha hb) (a', b') (hP a' b' ha' hb') he
    exact ⟨congrArg Prod.fst this, congrArg Prod.snd this⟩
  rcases he : cx'.edge? (k.append l) (x.append y) with _ | f
  · have hnone : ∀ g, ((k.append l, x.append y), g) ∉ cx'.edges := by
      intro g hg
      have := lookup_of_mem_nodup cx'.edges hw'.edges _ g hg
      unfold Cx.edge? at he
      rw [he] at this
      cases this
    have hA : (if y = l then tl (entV val left k x) w else 0) = 0 := by
      split
      · rename_i hyl
        subst hyl
        rcases hf : left.edge? k x with _ | f1
        · rw [entV_of_none val left k x hf]; exact hops.tl_zero w
        · have ha := hl.edge_mem k x f1 hf
          obtain ⟨g, hg, hmem⟩ := connect_complete_left ops left right cx' hl hbl hbr h _ ha y w hw
          rw [entV_of_edge val left k x f1 hf, ← hops.hL _ _ _ hg]
          by_cases hz : ops.isZero g = true
          · exact hops.zero _ hz
          · exact absurd (hmem (by simpa using hz)) (hnone _)
      · rfl
    have hB : (if x = k then sgV left k (tr (entV val right l y) v) else 0) = 0 := by
      split
      · rename_i hxk
        subst hxk
        rcases hf : right.edge? l y with _ | g1
        · rw [entV_of_none val right l y hf]; unfold sgV; simp [hops.tr_zero]
        · have ha := hr.edge_mem l y g1 hf
          obtain ⟨g, hg, hmem⟩ := connect_complete_right ops left right cx' hr hbl hbr h _ ha x v hv
          have hvg := hops.hR _ _ _ _ hg
          rw [entV_of_edge val right l y g1 hf]
          unfold sgV
          rw [← hvg]
          by_cases hz : ops.isZero g = true
          · exact hops.zero _ hz
          · exact absurd (hmem (by simpa using hz)) (hnone _)
      · rfl
    rw [entV_of_none val cx' _ _ he, hA, hB]
    simp
  · have hmem := mem_of_lookup cx'.edges _ f he
    obtain ⟨k0, l0, v0, w0, hv0, hw0, hcase⟩ := connect_sound ops left right cx' h _ hmem
    have hk0 := tng?_some_mem left k0 v0 hv0
    have hl0 := tng?_some_mem right l0 w0 hw0
    rw [entV_of_edge val cx' _ _ f he]
    rcases hcase with ⟨a, ha, hak, g, hg, heq⟩ | ⟨a, ha, hak, g, hg, heq⟩
    · obtain ⟨_, ha2⟩ := hl.ends a ha
      have e1 : k.append l = k0.append l0 := congrArg (fun z => z.1.1) heq
      have e2 : x.append y = a.1.2.append l0 := congrArg (fun z => z.1.2) heq
      have e3 : f = g := congrArg (fun z => z.2) heq
      obtain ⟨rfl, rfl⟩ := hpair k l k0 l0 hk hl' hk0 hl0 e1
      obtain ⟨rfl, rfl⟩ := hpair x y a.1.2 l hx hy ha2 hl' e2
      rw [hw] at hw0; cases hw0
      have hvg := hops.hL _ _ _ hg
      have hdeg := hl.deg a ha
      have hne : a.1.2 ≠ k := by intro e; rw [e, hak] at hdeg; omega
      have hent : entV val left k a.1.2 = val a.2 := by rw [← hak]; exact entV_of_mem val ops left hl a ha
      rw [if_pos rfl, if_neg hne, hent, add_zero, e3, hvg]
    · obtain ⟨_, ha2⟩ := hr.ends a ha
      have e1 : k.append l = k0.append l0 := congrArg (fun z => z.1.1) heq
      have e2 : x.append y = k0.append a.1.2 := congrArg (fun z => z.1.2) heq
      have e3 : f = g := congrArg (fun z => z.2) heq
      obtain ⟨rfl, rfl⟩ := hpair k l k0 l0 hk hl' hk0 hl0 e1
      obtain ⟨rfl, rfl⟩ := hpair x y k a.1.2 hx hy hk ha2 e2
      rw [hv] at hv0; cases hv0
      have hvg := hops.hR _ _ _ _ hg
      have hdeg := hr.deg a ha
      have hne : a.1.2 ≠ l := by intro e; rw [e, hak] at hdeg; omega
      have hent : entV val right l a.1.2 = val a.2 := by rw [← hak]; exact entV_of_mem val ops right hr a ha
      rw [if_neg hne, if_pos rfl, hent, zero_add, e3, hvg]
      rfl

theorem tl_sumV (val : E → A) (ops : EdgeOps E) (tl tr : A → Tng → A) (hops : ValTensorOps ops val tl tr) (w : Tng)
    (S : Finset TKey) (f : TKey → A) : tl (∑ x ∈ S, f x) w = ∑ x ∈ S, tl (f x) w := by
  classical
  induction S using Finset.induction_on with
  | empty => simp [hops.tl_zero]
  | insert a S ha ih => rw [Finset.sum_insert ha, Finset.sum_insert ha, hops.tl_add, ih]

theorem tr_sumV (val : E → A) (ops : EdgeOps E) (tl tr : A → Tng → A) (hops : ValTensorOps ops val tl tr) (v : Tng)
    (S : Finset TKey) (f : TKey → A) : tr (∑ x ∈ S, f x) v = ∑ x ∈ S, tr (f x) v := by
  classical
  induction S using Finset.induction_on with
  | empty => simp [hops.tr_zero]
  | insert a S ha ih => rw [Finset.sum_insert ha, Finset.sum_insert ha, hops.tr_add, ih]

/-- **the product complex has `d ∘ d = 0`** -/
theorem connect_ddV (val : E → A) (ops : EdgeOps E) (tl tr : A → Tng → A) (hops : ValTensorOps ops val tl tr)
    (left right cx' : Cx E) (hl : WF ops left) (hr : WF ops right) (hbl : Bounded left) (hbr : Bounded right)
    (hX : ∀ k k' l l' f g, left.edge? k k' = some f → right.edge? l l' = some g →
      tr (val g) (tngOf left k') * tl (val f) (tngOf right l) = tl (val f) (tngOf right l') * tr (val g) (tngOf left k))
    (hd1 : DDV val left) (hd2 : DDV val right) (h : left.connect ops right = .ok cx') : DDV val cx' := by
  classical
  have hw' := wf_connect ops left right cx' hl hr h
  obtain ⟨hverts, hinj⟩ := connect_verts ops left right cx' hl hr h
  have hP : ∀ a b, a ∈ left.verts.map (·.1) → b ∈ right.verts.map (·.1) → (a, b) ∈ allPairs left right :=
    fun a b ha hb => mem_allPairs left right hbl hbr a b ha hb
  have hPinv : ∀ p ∈ allPairs left right, p.1 ∈ left.verts.map (·.1) ∧ p.2 ∈ right.verts.map (·.1) := by
    intro p hp
    unfold allPairs at hp
    simp only [List.mem_flatMap] at hp
    obtain ⟨i, _, hi⟩ := hp
    have := (mem_collectKeys left right i p.1 p.2).1 hi
    exact ⟨this.1, this.2.1⟩
  set S1 := (left.verts.map (·.1)).toFinset with hS1
  set S2 := (right.verts.map (·.1)).toFinset with hS2
  have hS' : (cx'.verts.map (·.1)).toFinset = (S1 ×ˢ S2).image pkey := by
    rw [hverts]
    ext z
    rw [List.mem_toFinset, Finset.mem_image]
    constructor
    · intro hz
      obtain ⟨p, hp, rfl⟩ := List.mem_map.1 hz
      exact ⟨p, Finset.mem_product.2 ⟨List.mem_toFinset.2 (hPinv p hp).1, List.mem_toFinset.2 (hPinv p hp).2⟩, rfl⟩
    · rintro ⟨p, hp, rfl⟩
      obtain ⟨h1, h2⟩ := Finset.mem_product.1 hp
      exact List.mem_map.2 ⟨p, hP p.1 p.2 (List.mem_toFinset.1 h1) (List.mem_toFinset.1 h2), rfl⟩
  intro a c
  unfold ddAtV
  -- outside the product vertices everything vanishes
  by_cases ha : a ∈ cx'.verts.map (·.1)
  swap
  · apply Finset.sum_eq_zero
    intro b _
    rw [entV_zero_of_not_key val ops cx' hw' a b (.inl ha), mul_zero]
  by_cases hc : c ∈ cx'.verts.map (·.1)
  swap
  · apply Finset.sum_eq_zero
    intro b _
    rw [entV_zero_of_not_key val ops cx' hw' b c (.inr hc), zero_mul]
  rw [hverts] at ha hc
  obtain ⟨⟨k, l⟩, hkl, rfl⟩ := List.mem_map.1 ha
  obtain ⟨⟨k'', l''⟩, hkl'', rfl⟩ := List.mem_map.1 hc
  obtain ⟨hk, hl0⟩ := hPinv _ hkl
  obtain ⟨hk'', hl''⟩ := hPinv _ hkl''
  simp only at hk hl0 hk'' hl''
  rw [hS', Finset.sum_image (by
    intro p hp q hq hpq
    simp only [Finset.mem_coe, Finset.mem_product, hS1, hS2, List.mem_toFinset] at hp hq
    exact hinj p (hP _ _ hp.1 hp.2) q (hP _ _ hq.1 hq.2) hpq), Finset.sum_product]
  -- rewrite every entry
  have hterm : ∀ x ∈ S1, ∀ y ∈ S2,
      entV val cx' (pkey (x, y)) (pkey (k'', l'')) * entV val cx' (pkey (k, l)) (pkey (x, y)) =
        ((if l'' = y then tl (entV val left x k'') (tngOf right y) else 0)
          + (if k'' = x then sgV left x (tr (entV val right y l'') (tngOf left x)) else 0))
        * ((if y = l then tl (entV val left k x) (tngOf right l) else 0)
          + (if x = k then sgV left k (tr (entV val right l y) (tngOf left k)) else 0)) := by
    intro x hx y hy
    simp only [hS1, hS2, List.mem_toFinset] at hx hy
    unfold pkey
    simp only
    rw [connect_entV val ops tl tr hops left right cx' hl hr hbl hbr h x k'' y l'' _ _ hk'' hl''
        (tng?_tngOf left x hx) (tng?_tngOf right y hy),
      connect_entV val ops tl tr hops left right cx' hl hr hbl hbr h k x l y _ _ hx hy
        (tng?_tngOf left k hk) (tng?_tngOf right l hl0)]
  rw [Finset.sum_congr rfl (fun x hx => Finset.sum_congr rfl (fun y hy => hterm x hx y hy))]
  have hkS : k ∈ S1 := by simp [hS1, hk]
  have hlS : l ∈ S2 := by simp [hS2, hl0]
  have hk''S : k'' ∈ S1 := by simp [hS1, hk'']
  have hl''S : l'' ∈ S2 := by simp [hS2, hl'']
  simp only [add_mul, mul_add, Finset.sum_add_distrib]
  -- the four groups of paths of length two
  have hAA : ∑ x ∈ S1, ∑ y ∈ S2, (if l'' = y then tl (entV val left x k'') (tngOf right y) else 0)
      * (if y = l then tl (entV val left k x) (tngOf right l) else 0) = 0 := by
    have : ∀ x ∈ S1, ∑ y ∈ S2, (if l'' = y then tl (entV val left x k'') (tngOf right y) else 0)
        * (if y = l then tl (entV val left k x) (tngOf right l) else 0)
        = if l'' = l then tl (entV val left x k'' * entV val left k x) (tngOf right l) else 0 := by
      intro x _
      simp only [mul_ite, mul_zero, Finset.sum_ite_eq', hlS, if_true]
      split
      · exact (hops.tl_mul _ _ _).symm
      · simp
    rw [Finset.sum_congr rfl this]
    split
    · rw [← tl_sumV val ops tl tr hops]
      have := hd1 k k''
      unfold ddAtV at this
      rw [this, hops.tl_zero]
    · simp
  have hBB : ∑ x ∈ S1, ∑ y ∈ S2, (if k'' = x then sgV left x (tr (entV val right y l'') (tngOf left x)) else 0)
      * (if x = k then sgV left k (tr (entV val right l y) (tngOf left k)) else 0) = 0 := by
    rw [Finset.sum_comm]
    have : ∀ y ∈ S2, ∑ x ∈ S1, (if k'' = x then sgV left x (tr (entV val right y l'') (tngOf left x)) else 0)
        * (if x = k then sgV left k (tr (entV val right l y) (tngOf left k)) else 0)
        = if k'' = k then tr (entV val right y l'' * entV val right l y) (tngOf left k) else 0 := by
      intro y _
      simp only [mul_ite, mul_zero, Finset.sum_ite_eq', hkS, if_true]
      split
      · rw [hops.tr_mul]
        unfold sgV
        split <;> simp
      · simp
    rw [Finset.sum_congr rfl this]
    split
    · rw [← tr_sumV val ops tl tr hops]
      have := hd2 l l''
      unfold ddAtV at this
      rw [this, hops.tr_zero]
    · simp
  have hAB : ∑ x ∈ S1, ∑ y ∈ S2, (if l'' = y then tl (entV val left x k'') (tngOf right y) else 0)
      * (if x = k then sgV left k (tr (entV val right l y) (tngOf left k)) else 0)
      = tl (entV val left k k'') (tngOf right l'') * sgV left k (tr (entV val right l l'') (tngOf left k)) := by
    have : ∀ x ∈ S1, ∑ y ∈ S2, (if l'' = y then tl (entV val left x k'') (tngOf right y) else 0)
        * (if x = k then sgV left k (tr (entV val right l y) (tngOf left k)) else 0)
        = if x = k then tl (entV val left x k'') (tngOf right l'') * sgV left k (tr (entV val right l l'') (tngOf left k)) else 0 := by
      intro x _
      by_cases hxk : x = k
      · simp only [hxk, if_true, ite_mul, zero_mul, Finset.sum_ite_eq, hl''S]
      · simp [hxk]
    rw [Finset.sum_congr rfl this, Finset.sum_ite_eq' S1 k, if_pos hkS]
  have hBA : ∑ x ∈ S1, ∑ y ∈ S2, (if k'' = x then sgV left x (tr (entV val right y l'') (tngOf left x)) else 0)
      * (if y = l then tl (entV val left k x) (tngOf right l) else 0)
      = sgV left k'' (tr (entV val right l l'') (tngOf left k'')) * tl (entV val left k k'') (tngOf right l) := by
    have : ∀ x ∈ S1, ∑ y ∈ S2, (if k'' = x then sgV left x (tr (entV val right y l'') (tngOf left x)) else 0)
        * (if y = l then tl (entV val left k x) (tngOf right l) else 0)
        = if k'' = x then sgV left x (tr (entV val right l l'') (tngOf left x)) * tl (entV val left k x) (tngOf right l) else 0 := by
      intro x _
      by_cases hkx : k'' = x
      · simp only [hkx, if_true, mul_ite, mul_zero, Finset.sum_ite_eq', hlS]
      · simp [hkx]
    rw [Finset.sum_congr rfl this, Finset.sum_ite_eq S1 k'', if_pos hk''S]
  rw [hAA, hAB, hBA, hBB]
  -- the two mixed paths cancel: interchange law and opposite signs
  rcases hf : left.edge? k k'' with _ | f
  · have : entV val left k k'' = 0 := by unfold entV; rw [hf]; rfl
    simp [this, hops.tl_zero]
  · rcases hg : right.edge? l l'' with _ | g
    · have : entV val right l l'' = 0 := by unfold entV; rw [hg]; rfl
      simp [this, hops.tr_zero, sgV]
    · have e1 : entV val left k k'' = val f := by unfold entV; rw [hf]; rfl
      have e2 : entV val right l l'' = val g := by unfold entV; rw [hg]; rfl
      have hdeg := hl.deg _ (hl.edge_mem k k'' f hf)
      simp only at hdeg
      have hsign : signNeg left k'' = !signNeg left k := by
        unfold signNeg
        rw [hdeg]
        push_cast
        rcases Int.emod_two_eq_zero_or_one ((k.weight : Int) - left.dh) with h0 | h0
        · have : ((k.weight : Int) + 1 - left.dh) % 2 = 1 := by omega
          simp [h0, this]
        · have : ((k.weight : Int) + 1 - left.dh) % 2 = 0 := by omega
          simp [h0, this]
      have hx := hX k k'' l l'' f g hf hg
      rw [e1, e2]
      unfold sgV
      rw [hsign]
      by_cases hs : signNeg left k = true
      · simp [hs, hx]
      · simp [hs, hx]

/-! ### every script, in values -/

theorem ddV_makeX (val : E → A) (ops : EdgeOps E) (mkSdl : CobComp → E) (ct : KhRef.CT) (e : Array Nat) (x : Cx E)
    (h : makeX ops mkSdl ct e = .ok x) : DDV val x := by
  rcases makeX_cases ops mkSdl ct e x h with ⟨t, rfl⟩ | ⟨t0, t1, f, rfl⟩
  · intro k m
    unfold ddAtV entV Cx.edge?
    simp
  · intro k m
    unfold ddAtV
    apply Finset.sum_eq_zero
    intro l _
    unfold entV Cx.edge?
    simp only [List.lookup_cons, List.lookup_nil]
    by_cases h1 : ((l, m) == ((⟨[false], []⟩ : TKey), (⟨[true], []⟩ : TKey))) = true
    · have hl : l = ⟨[false], []⟩ := by simp at h1; exact h1.1
      have h2 : ((k, l) == ((⟨[false], []⟩ : TKey), (⟨[true], []⟩ : TKey))) = false := by
        rw [hl]; simp
      simp [h2]
    · have h1' : ((l, m) == ((⟨[false], []⟩ : TKey), (⟨[true], []⟩ : TKey))) = false := by simpa using h1
      simp [h1']

/-- what a script keeps, in values -/
structure GoodV (val : E → A) (ops : EdgeOps E) (base : Option Nat) (cx : Cx E) : Prop where
  base : cx.base = base
  wf : WF ops cx
  bd : Bounded cx
  dd : DDV val cx

/-- the hypotheses on the edge algebra, all in terms of the values of labels -/
structure ValLaws (val : E → A) (ops : EdgeOps E) (base : Option Nat) (tl tr : A → Tng → A) : Prop where
  edge : ValEdgeOps ops val
  tensor : ValTensorOps ops val tl tr
  /-- interchange: `(1 ⊗ g)(f ⊗ 1) = (f ⊗ 1)(1 ⊗ g)` -/
  inter : ∀ (f g : E) (v v' w w' : Tng), tr (val g) v' * tl (val f) w = tl (val f) w' * tr (val g) v
  /-- the inverse used by `eliminate` is a local two-sided inverse -/
  unit : ∀ (cx : Cx E) k0 k1 a ainv, WF ops cx → cx.edge? k0 k1 = some a → ops.inv a = .ok ainv →
    (∀ m, entV val cx k1 m * (val a * val ainv) = entV val cx k1 m) ∧
    (∀ k, (val ainv * val a) * entV val cx k k0 = entV val cx k k0)
  /-- `cap_off` multiplies by a cap / cup, and the copies decompose the identity of the delooped vertex locally -/
  deloop : ∀ (cx : Cx E) k t (c : Path), WF ops cx → cx.base = base → cx.tng? k = some t → c ∈ t →
    ∃ cap cup : Dot → A, ValDeloopOps ops val c cap cup ∧
      (if cx.containsBase c = true then
        ∀ x y, entV val cx k y * (cup .X * cap .none) * entV val cx x k = entV val cx k y * entV val cx x k
       else ∀ x y, entV val cx k y * (cup .X * cap .none + cup .none * cap .Y) * entV val cx x k
        = entV val cx k y * entV val cx x k)

theorem goodV_connect (val : E → A) (ops : EdgeOps E) (base obase : Option Nat) (tl tr : A → Tng → A)
    (hL : ValLaws val ops base tl tr) (cx o cx' : Cx E)
    (hg : GoodV val ops base cx) (ho : GoodV val ops obase o) (hb : base.or obase = base)
    (h : cx.connect ops o = .ok cx') : GoodV val ops base cx' := by
  refine ⟨?_, wf_connect ops cx o cx' hg.wf ho.wf h, bounded_connect ops cx o cx' hg.bd ho.bd h,
    connect_ddV val ops tl tr hL.tensor cx o cx' hg.wf ho.wf hg.bd ho.bd
      (fun k k' l l' f g _ _ => hL.inter f g _ _ _ _) hg.dd ho.dd h⟩
  rw [(connect_meta ops cx o cx' h).2, hg.base, ho.base, hb]

theorem goodV_step (val : E → A) (ops : EdgeOps E) (mkSdl : CobComp → E) (base : Option Nat) (tl tr : A → Tng → A)
    (hL : ValLaws val ops base tl tr) (cx cx' : Cx E) (st : Step E) (hg : GoodV val ops base cx)
    (hcon : ∀ o, st = .con o → ∃ obase, GoodV val ops obase o ∧ base.or obase = base)
    (h : applyStep ops mkSdl cx st = .ok cx') : GoodV val ops base cx' := by
  cases st with
  | app ct e =>
    simp only [applyStep, Cx.appendX] at h
    rcases hx : makeX ops mkSdl ct e with x | _ | _
    · simp only [hx] at h
      obtain ⟨bx, bbase⟩ := bounded_makeX ops mkSdl ct e x hx
      exact goodV_connect val ops base none tl tr hL cx x cx' hg
        ⟨bbase, wf_makeX ops mkSdl ct e x hx, bx, ddV_makeX val ops mkSdl ct e x hx⟩ (by cases base <;> rfl) h
    · simp [hx] at h
    · simp [hx] at h
  | dl k r =>
    simp only [applyStep] at h
    rcases hd : cx.deloop ops k r with ⟨upd, c'⟩ | _ | _
    · simp only [hd, Res.ok.injEq] at h
      subst h
      obtain ⟨t, c, ht, hc, _, _⟩ := deloop_factors ops cx _ k r upd hd
      have hct : c ∈ t := List.mem_of_getElem? hc
      obtain ⟨cap, cup, ho, hi⟩ := hL.deloop cx k t c hg.wf hg.base ht hct
      exact ⟨(deloop_base ops cx _ k r upd hd).trans hg.base, wf_deloop ops cx _ k r upd hg.wf hd,
        bounded_deloop ops cx _ k r upd hg.bd hd,
        deloop_ddV val ops cx _ k r upd t c cap cup hg.wf ht hc ho hi hg.dd hd⟩
    · simp [hd] at h
    · simp [hd] at h
  | el k0 k1 =>
    simp only [applyStep] at h
    exact ⟨((eliminate_verts ops cx cx' k0 k1 h).2.2.2.1).trans hg.base, wf_eliminate ops cx cx' k0 k1 hg.wf h,
      bounded_eliminate ops cx cx' k0 k1 hg.bd h,
      eliminate_ddV val ops hL.edge cx cx' k0 k1 hg.wf (fun a ainv ha hi => hL.unit cx k0 k1 a ainv hg.wf ha hi) hg.dd h⟩
  | con o =>
    simp only [applyStep] at h
    obtain ⟨obase, ho, hb⟩ := hcon o rfl
    exact goodV_connect val ops base obase tl tr hL cx o cx' hg ho hb h

theorem goodV_init (val : E → A) (ops : EdgeOps E) (dh dq : Int) (base : Option Nat) :
    GoodV val ops base (Cx.init dh dq base : Cx E) := by
  refine ⟨rfl, wf_init ops dh dq base, ?_, ?_⟩
  · intro k hk
    simp [Cx.init] at hk
    subst hk
    show TKey.init.weight ≤ 0
    decide
  · intro k m
    unfold ddAtV entV Cx.edge?
    simp [Cx.init]

/-- every script, in values -/
theorem script_ddV (val : E → A) (ops : EdgeOps E) (mkSdl : CobComp → E) (base : Option Nat) (tl tr : A → Tng → A)
    (hL : ValLaws val ops base tl tr) (steps : List (Step E)) (cx cx' : Cx E) (hg : GoodV val ops base cx)
    (hcon : ∀ o, Step.con o ∈ steps → ∃ obase, GoodV val ops obase o ∧ base.or obase = base)
    (h : runScript ops mkSdl steps cx = .ok cx') : GoodV val ops base cx' := by
  unfold runScript at h
  refine foldRes_inv (GoodV val ops base) _ steps ?_ cx cx' hg h
  intro b st b' hst hb hstep
  exact goodV_step val ops mkSdl base tl tr hL b b' st hb (fun o ho => hcon o (ho ▸ hst)) hstep

end Yuiv.C05.Engine
