import Mathlib.Data.Matrix.Block
import Mathlib.Data.Matrix.ColumnRowPartitioned
import Mathlib.LinearAlgebra.Matrix.Permutation
import Mathlib.Tactic.Abel
/-
Spec definitions and helper lemmas for the Schur-complement step of the chain-complex
reducer (C08).  No property theorem here; the final theorems are in `C08SchurThms.lean`.

Conventions.  A matrix `A : Matrix p q R` is a map from the module with basis `q` to the module
with basis `p` (columns = source, rows = target), composition is matrix multiplication.

The middle differential is `M = fromBlocks a b c d : Matrix (r ⊕ m) (r ⊕ n) R`
(`C_src`, basis `r ⊕ n`  ⟶  `C_tgt`, basis `r ⊕ m`), the pivot block `a : Matrix r r R` has a
two-sided inverse `ainv`.  Nothing below needs commutativity of `R`, so everything is stated for
`[Ring R]` (in particular it applies to every `CommRing`).
-/
namespace Yuiv.C08
open Matrix

variable {R : Type*} [Ring R]
variable {r m n k l : Type*}

/-! ### the Schur complement and the transfer maps (as built by `yui-matrix/src/sparse/schur.rs`) -/

/-- Schur complement `S = d - c a⁻¹ b`. -/
def schurS [Fintype r] (ainv : Matrix r r R) (b : Matrix r n R) (c : Matrix m r R)
    (d : Matrix m n R) : Matrix m n R :=
  d - c * ainv * b

/-- `F_src = [0 1] : C_src → C_src'`. -/
def Fsrc (R : Type*) [Ring R] (r n : Type*) [DecidableEq n] : Matrix n (r ⊕ n) R :=
  fromCols 0 1

/-- `B_src = [-a⁻¹b ; 1] : C_src' → C_src`. -/
def Bsrc [Fintype r] [DecidableEq n] (ainv : Matrix r r R) (b : Matrix r n R) :
    Matrix (r ⊕ n) n R :=
  fromRows (-(ainv * b)) 1

/-- `F_tgt = [-c a⁻¹  1] : C_tgt → C_tgt'`. -/
def Ftgt [Fintype r] [DecidableEq m] (ainv : Matrix r r R) (c : Matrix m r R) :
    Matrix m (r ⊕ m) R :=
  fromCols (-(c * ainv)) 1

/-- `B_tgt = [0 ; 1] : C_tgt' → C_tgt`. -/
def Btgt (R : Type*) [Ring R] (r m : Type*) [DecidableEq m] : Matrix (r ⊕ m) m R :=
  fromRows 0 1

/-- The homotopy `h = [[-a⁻¹, 0], [0, 0]] : C_tgt → C_src` (zero in every other degree). -/
def hmt (n m : Type*) (ainv : Matrix r r R) : Matrix (r ⊕ n) (r ⊕ m) R :=
  fromBlocks (-ainv) 0 0 0

/-! ### cancellation helpers for a two-sided inverse given as a pair of equations -/

section cancel
variable [Fintype r] [DecidableEq r] {a ainv : Matrix r r R}

theorem inv_mul_cancel_left' (hia : ainv * a = 1) (X : Matrix r n R) : ainv * (a * X) = X := by
  rw [← Matrix.mul_assoc, hia, Matrix.one_mul]

theorem mul_inv_cancel_left' (hai : a * ainv = 1) (X : Matrix r n R) : a * (ainv * X) = X := by
  rw [← Matrix.mul_assoc, hai, Matrix.one_mul]

theorem mul_inv_cancel_right' (hai : a * ainv = 1) (X : Matrix m r R) : X * a * ainv = X := by
  rw [Matrix.mul_assoc, hai, Matrix.mul_one]

theorem inv_mul_cancel_right' (hia : ainv * a = 1) (X : Matrix m r R) : X * ainv * a = X := by
  rw [Matrix.mul_assoc, hia, Matrix.mul_one]

/-- top row of `M * N = 0` solved for `x`. -/
theorem x_eq_of_top [Fintype n] (hia : ainv * a = 1) {b : Matrix r n R} {x : Matrix r k R}
    {y : Matrix n k R} (h : a * x + b * y = 0) : x = -(ainv * b * y) := by
  have h1 : a * x = -(b * y) := eq_neg_of_add_eq_zero_left h
  have h2 : ainv * (a * x) = ainv * -(b * y) := by rw [h1]
  rw [inv_mul_cancel_left' hia, Matrix.mul_neg, ← Matrix.mul_assoc] at h2
  exact h2

/-- left column of `L * M = 0` solved for `z`. -/
theorem z_eq_of_left [Fintype m] (hai : a * ainv = 1) {c : Matrix m r R} {z : Matrix l r R}
    {w : Matrix l m R} (h : z * a + w * c = 0) : z = -(w * c * ainv) := by
  have h1 : z * a = -(w * c) := eq_neg_of_add_eq_zero_left h
  have h2 : z * a * ainv = -(w * c) * ainv := by rw [h1]
  rw [mul_inv_cancel_right' hai, Matrix.neg_mul] at h2
  exact h2

end cancel

/-! ### splitting the hypotheses `M * N = 0` and `L * M = 0` into blocks -/

section split

theorem MN_zero_iff [Fintype r] [Fintype n] {a : Matrix r r R} {b : Matrix r n R} {c : Matrix m r R} {d : Matrix m n R}
    {x : Matrix r k R} {y : Matrix n k R} :
    fromBlocks a b c d * fromRows x y = 0 ↔ a * x + b * y = 0 ∧ c * x + d * y = 0 := by
  rw [fromBlocks_mul_fromRows, ← fromRows_zero, fromRows_ext_iff]

theorem LM_zero_iff [Fintype r] [Fintype m] {a : Matrix r r R} {b : Matrix r n R} {c : Matrix m r R} {d : Matrix m n R}
    {z : Matrix l r R} {w : Matrix l m R} :
    fromCols z w * fromBlocks a b c d = 0 ↔ z * a + w * c = 0 ∧ z * b + w * d = 0 := by
  rw [fromCols_mul_fromBlocks, ← fromCols_zero, fromCols_ext_iff]

end split

/-! ### reduction data for whole complexes

Direction convention: the complex is `… → C_{i+1} --d i--> C_i → … → C_0`, where `C_i` has basis
`ι i`, so `d i : Matrix (ι i) (ι (i+1)) R` and "`d ∘ d = 0`" reads `d i * d (i+1) = 0`.
`F i : C_i → C'_i` and `B i : C'_i → C_i`.  (The opposite, cohomological convention is obtained by
transposing everything / reading the indices backwards; no lemma below depends on the choice.) -/

section reduction
variable {ι κ : ℕ → Type*} [∀ i, Fintype (ι i)] [∀ i, Fintype (κ i)]
  [∀ i, DecidableEq (ι i)] [∀ i, DecidableEq (κ i)]

/-- `(F, B)` is a reduction of the complex `d` to the complex `d'`: both are chain maps and
`F ∘ B = id`. -/
structure IsReduction (d : ∀ i, Matrix (ι i) (ι (i + 1)) R) (d' : ∀ i, Matrix (κ i) (κ (i + 1)) R)
    (F : ∀ i, Matrix (κ i) (ι i) R) (B : ∀ i, Matrix (ι i) (κ i) R) : Prop where
  F_comm : ∀ i, F i * d i = d' i * F (i + 1)
  B_comm : ∀ i, d i * B (i + 1) = B i * d' i
  FB : ∀ i, F i * B i = 1

/-- A reduction together with a chain homotopy `h i : C_i → C_{i+1}` from `B ∘ F` to the identity:
`B F - 1 = d h + h d` (the second summand is absent in degree `0`). -/
structure IsHomotopyEquiv (d : ∀ i, Matrix (ι i) (ι (i + 1)) R)
    (d' : ∀ i, Matrix (κ i) (κ (i + 1)) R)
    (F : ∀ i, Matrix (κ i) (ι i) R) (B : ∀ i, Matrix (ι i) (κ i) R)
    (h : ∀ i, Matrix (ι (i + 1)) (ι i) R) : Prop extends IsReduction d d' F B where
  htpy_zero : B 0 * F 0 - 1 = d 0 * h 0
  htpy_succ : ∀ i, B (i + 1) * F (i + 1) - 1 = d (i + 1) * h (i + 1) + h i * d i

end reduction

/-! ### concrete witness data (over `ℤ`, `r = k = l = Fin 1`, `m = n = Fin 2`) used by the
satisfiability `example`s in `C08SchurThms.lean`; here `S = diag(0, 5) ≠ 0`. -/

namespace Ex
def a : Matrix (Fin 1) (Fin 1) ℤ := !![1]
def ainv : Matrix (Fin 1) (Fin 1) ℤ := !![1]
def b : Matrix (Fin 1) (Fin 2) ℤ := !![2, 0]
def c : Matrix (Fin 2) (Fin 1) ℤ := !![3; 0]
def d : Matrix (Fin 2) (Fin 2) ℤ := !![6, 0; 0, 5]
/-- incoming neighbour `N = [x ; y]` -/
def x : Matrix (Fin 1) (Fin 1) ℤ := !![-2]
def y : Matrix (Fin 2) (Fin 1) ℤ := !![1; 0]
/-- outgoing neighbour `L = [z w]` -/
def z : Matrix (Fin 1) (Fin 1) ℤ := !![-3]
def w : Matrix (Fin 1) (Fin 2) ℤ := !![1, 0]
/-- a constant two-dimensional complex with `d ∘ d = 0`, `d ≠ 0` -/
def dd : ∀ _ : ℕ, Matrix (Fin 2) (Fin 2) ℤ := fun _ => !![0, 1; 0, 0]
/-- swap the two basis vectors in every degree -/
def σ : ∀ _ : ℕ, Equiv.Perm (Fin 2) := fun _ => Equiv.swap 0 1
end Ex

end Yuiv.C08
