import Yuiv.Model.C10Q
import Yuiv.Proofs.C10
import Mathlib.Algebra.QuadraticAlgebra.Basic
/-
Spec definitions and helper lemmas for the quadratic-ring checkers of C10 (no property theorem here).
-/
namespace Yuiv.C10.Q
open Yuiv Yuiv.C10 Finset

/-- the ring ℤ[θ], θ² = u + vθ, as Mathlib's `QuadraticAlgebra` -/
abbrev ZK (k : QK) := QuadraticAlgebra ℤ k.u k.v
/-- its fraction field ℚ(θ) (as a ring; no field structure is needed for the statements) -/
abbrev FK (k : QK) := QuadraticAlgebra ℚ (k.u : ℚ) (k.v : ℚ)

def toZ (k : QK) (x : QI) : ZK k := ⟨x.1, x.2⟩
def toF (k : QK) (x : QF) : FK k := ⟨x.1, x.2⟩
/-- the embedding ℤ[θ] → ℚ(θ) -/
def castK (k : QK) (z : ZK k) : FK k := ⟨(z.re : ℚ), (z.im : ℚ)⟩

theorem toZ_inj (k : QK) (x y : QI) : toZ k x = toZ k y ↔ x = y := by
  constructor
  · intro h
    have h1 := congrArg QuadraticAlgebra.re h
    have h2 := congrArg QuadraticAlgebra.im h
    exact Prod.ext h1 h2
  · intro h; rw [h]

theorem toF_inj (k : QK) (x y : QF) : toF k x = toF k y ↔ x = y := by
  constructor
  · intro h
    have h1 := congrArg QuadraticAlgebra.re h
    have h2 := congrArg QuadraticAlgebra.im h
    exact Prod.ext h1 h2
  · intro h; rw [h]

theorem toZ_add (k : QK) (x y : QI) : toZ k (qadd x y) = toZ k x + toZ k y := by
  ext <;> simp [toZ, qadd]
theorem toZ_mul (k : QK) (x y : QI) : toZ k (qmul k x y) = toZ k x * toZ k y := by
  ext <;> simp [toZ, qmul]
theorem toZ_zero (k : QK) : toZ k (0, 0) = 0 := by ext <;> simp [toZ]
theorem toZ_one (k : QK) : toZ k (1, 0) = 1 := rfl
theorem toZ_norm (k : QK) (x : QI) : QuadraticAlgebra.norm (toZ k x) = qnorm k x := by
  simp [QuadraticAlgebra.norm_def, toZ, qnorm]

theorem toF_add (k : QK) (x y : QF) : toF k (fadd x y) = toF k x + toF k y := by
  ext <;> simp [toF, fadd]
theorem toF_mul (k : QK) (x y : QF) : toF k (fmul k x y) = toF k x * toF k y := by
  ext <;> simp [toF, fmul]
theorem toF_zero (k : QK) : toF k (0, 0) = 0 := by ext <;> simp [toF]
theorem toF_conj (k : QK) (x : QF) : toF k (fconj k x) = star (toF k x) := by
  ext <;> simp [toF, fconj]
theorem toF_norm (k : QK) (x : QF) : QuadraticAlgebra.norm (toF k x) = fnorm k x := by
  simp [QuadraticAlgebra.norm_def, toF, fnorm]
theorem toF_ofQI (k : QK) (x : QI) : toF k (ofQI x) = castK k (toZ k x) := by
  ext <;> simp [toF, ofQI, castK, toZ]

theorem foldr_qadd (k : QK) (l : List QI) : toZ k (l.foldr qadd (0, 0)) = (l.map (toZ k)).sum := by
  induction l with
  | nil => simp [toZ_zero]
  | cons a t ih => simp [List.foldr, toZ_add, ih]

theorem sumLtP_eq (k : QK) (n : Nat) (f : Nat → QI) : toZ k (sumLtP n f) = ∑ i ∈ range n, toZ k (f i) := by
  unfold sumLtP
  rw [foldr_qadd]
  induction n with
  | zero => simp
  | succ t ih => rw [List.range_succ, List.map_append, List.map_append, List.sum_append, ih, Finset.sum_range_succ]; simp

theorem foldr_fadd (k : QK) (l : List QF) : toF k (l.foldr fadd (0, 0)) = (l.map (toF k)).sum := by
  induction l with
  | nil => simp [toF_zero]
  | cons a t ih => simp [List.foldr, toF_add, ih]

theorem sumLtF_eq (k : QK) (n : Nat) (f : Nat → QF) : toF k (sumLtF n f) = ∑ i ∈ range n, toF k (f i) := by
  unfold sumLtF
  rw [foldr_fadd]
  induction n with
  | zero => simp
  | succ t ih => rw [List.range_succ, List.map_append, List.map_append, List.sum_append, ih, Finset.sum_range_succ]; simp

theorem hdot_eq (k : QK) (n : Nat) (x y : Nat → QF) :
    toF k (hdot k n x y) = ∑ c ∈ range n, toF k (x c) * star (toF k (y c)) := by
  unfold hdot
  rw [sumLtF_eq]
  exact Finset.sum_congr rfl (fun c _ => by rw [toF_mul, toF_conj])

/-! ### transforms -/

def toMatrixQ (k : QK) (m n : Nat) (A : MatQ) : Matrix (Fin m) (Fin n) (ZK k) := fun i j => toZ k (entq A i.val j.val)

theorem mulEqQ_iff (k : QK) (m l n : Nat) (P A : MatQ) (B : Nat → Nat → QI) :
    mulEqQ k m l n P A B = true ↔
      toMatrixQ k m l P * toMatrixQ k l n A = (fun i j => toZ k (B i.val j.val) : Matrix (Fin m) (Fin n) (ZK k)) := by
  simp only [mulEqQ, allLt_iff, beq_iff_eq, mulEntQ]
  constructor
  · intro h
    apply Matrix.ext
    intro i j
    rw [Matrix.mul_apply]
    have := congrArg (toZ k) (h i.val i.isLt j.val j.isLt)
    rw [sumLtP_eq] at this
    rw [← this, ← Fin.sum_univ_eq_sum_range (fun t => toZ k (qmul k (entq P i.val t) (entq A t j.val)))]
    exact Finset.sum_congr rfl (fun t _ => by rw [toZ_mul]; rfl)
  · intro h i hi j hj
    have := congrFun (congrFun h ⟨i, hi⟩) ⟨j, hj⟩
    rw [Matrix.mul_apply] at this
    rw [← toZ_inj k, sumLtP_eq, ← this,
      ← Fin.sum_univ_eq_sum_range (fun t => toZ k (qmul k (entq P i t) (entq A t j)))]
    exact Finset.sum_congr rfl (fun t _ => by rw [toZ_mul]; rfl)

/-! ### Hermite shape -/

structure IsHnfQ (k : QK) (m n : Nat) (H : Nat → Nat → ZK k) (lead : Nat → Nat) : Prop where
  le : ∀ i < m, lead i ≤ n
  zero_left : ∀ i < m, ∀ j < lead i, H i j = 0
  /-- pivots are non-zero and normalised: first sector `re > 0`, `im ≥ 0` -/
  pivot_norm : ∀ i < m, lead i < n → 0 < (H i (lead i)).re ∧ 0 ≤ (H i (lead i)).im
  strict : ∀ i < m, ∀ i' < m, i < i' → lead i < n → lead i < lead i'
  zero_last : ∀ i < m, ∀ i' < m, i < i' → lead i = n → lead i' = n
  below : ∀ i < m, ∀ i' < m, i < i' → lead i < n → H i' (lead i) = 0
  above : ∀ i < m, ∀ i' < i, lead i < n →
    QuadraticAlgebra.norm (H i' (lead i)) < QuadraticAlgebra.norm (H i (lead i))

theorem isHnfQ_sound' (k : QK) (m n : Nat) (H : MatQ) (h : isHnfQ k m n H = true) :
    IsHnfQ k m n (fun i j => toZ k (entq H i j)) (leadColQ n H) := by
  simp only [isHnfQ, allLt_iff, Bool.and_eq_true, Bool.or_eq_true, Bool.not_eq_true', decide_eq_true_eq,
    decide_eq_false_iff_not, beq_iff_eq, qnormalised] at h
  refine ⟨fun i hi => (h i hi).1.1.1, ?_, ?_, ?_, ?_, ?_, ?_⟩
  · intro i hi j hj
    have h1 := (h i hi).1.1.2 j (lt_of_lt_of_le hj (h i hi).1.1.1)
    rcases h1 with h1 | h1
    · exact absurd hj h1
    · show toZ k (entq H i j) = 0
      rw [h1, toZ_zero]
  · intro i hi hl
    rcases (h i hi).1.2 with h1 | h1
    · exact absurd hl h1
    · exact h1.1
  · intro i hi i' hi' hlt hl
    rcases (h i hi).1.2 with h1 | h1
    · exact absurd hl h1
    · have := h1.2 i' hi'
      rw [if_pos hlt] at this
      simp only [Bool.and_eq_true, decide_eq_true_eq, beq_iff_eq] at this
      exact this.1
  · intro i hi i' hi' hlt hl
    rcases (h i hi).2 with h1 | h1
    · simp [hl] at h1
    · rcases h1 i' hi' with h2 | h2
      · exact absurd hlt h2
      · exact h2
  · intro i hi i' hi' hlt hl
    rcases (h i hi).1.2 with h1 | h1
    · exact absurd hl h1
    · have := h1.2 i' hi'
      rw [if_pos hlt] at this
      simp only [Bool.and_eq_true, decide_eq_true_eq, beq_iff_eq] at this
      show toZ k (entq H i' _) = 0
      rw [this.2, toZ_zero]
  · intro i hi i' hlt hl
    rcases (h i hi).1.2 with h1 | h1
    · exact absurd hl h1
    · have := h1.2 i' (lt_trans hlt hi)
      rw [if_neg (by omega), if_pos hlt] at this
      simp only [decide_eq_true_eq] at this
      show QuadraticAlgebra.norm (toZ k _) < QuadraticAlgebra.norm (toZ k _)
      rw [toZ_norm, toZ_norm]
      exact this

/-! ### LLL-reducedness -/

/-- Gram–Schmidt decomposition over ℚ(θ) w.r.t. the Hermitian form `⟨x, y⟩ = Σ x_c · star y_c` -/
structure IsGSQ (k : QK) (m n : Nat) (B : Nat → Nat → ZK k) (bs mu : Nat → Nat → FK k) : Prop where
  decomp : ∀ i < m, ∀ c < n, castK k (B i c) = bs i c + ∑ j ∈ range i, mu i j * bs j c
  orth : ∀ i < m, ∀ j < i, ∑ c ∈ range n, bs i c * star (bs j c) = 0
  pos : ∀ i < m, 0 < (∑ c ∈ range n, bs i c * star (bs i c)).re ∧ (∑ c ∈ range n, bs i c * star (bs i c)).im = 0

/-- `N(μ_ij) ≤ ρ` and the Lovász condition with constant `α` -/
def IsLLLReducedQ (k : QK) (m n : Nat) (B : Nat → Nat → ZK k) (α ρ : ℚ) : Prop :=
  ∃ bs mu : Nat → Nat → FK k, IsGSQ k m n B bs mu ∧
    (∀ i < m, ∀ j < i, QuadraticAlgebra.norm (mu i j) ≤ ρ) ∧
    (∀ t, 0 < t → t < m →
      (α - QuadraticAlgebra.norm (mu t (t - 1))) * (∑ c ∈ range n, bs (t - 1) c * star (bs (t - 1) c)).re
        ≤ (∑ c ∈ range n, bs t c * star (bs t c)).re)

theorem reducedWithQ_sound (k : QK) (m n : Nat) (B : MatQ) (p q rp rq : Int) (bs mu : MatF)
    (h : reducedWithQ k m n B p q rp rq bs mu = true) :
    IsGSQ k m n (fun i c => toZ k (entq B i c)) (fun i c => toF k (entf bs i c)) (fun i j => toF k (entf mu i j)) ∧
    (∀ i < m, ∀ j < i, QuadraticAlgebra.norm (toF k (entf mu i j)) ≤ (rp : ℚ) / (rq : ℚ)) ∧
    (∀ t, 0 < t → t < m →
      ((p : ℚ) / (q : ℚ) - QuadraticAlgebra.norm (toF k (entf mu t (t - 1))))
        * (∑ c ∈ range n, toF k (entf bs (t - 1) c) * star (toF k (entf bs (t - 1) c))).re
        ≤ (∑ c ∈ range n, toF k (entf bs t c) * star (toF k (entf bs t c))).re) := by
  simp only [reducedWithQ, allLt_iff, Bool.and_eq_true, Bool.or_eq_true, decide_eq_true_eq, beq_iff_eq] at h
  obtain ⟨⟨⟨⟨h1, h2⟩, h3⟩, h4⟩, h5⟩ := h
  have hn : ∀ i, (∑ c ∈ range n, toF k (entf bs i c) * star (toF k (entf bs i c)))
      = toF k (hdot k n (entf bs i) (entf bs i)) := fun i => (hdot_eq k n _ _).symm
  refine ⟨⟨?_, ?_, ?_⟩, ?_, ?_⟩
  · intro i hi c hc
    have := congrArg (toF k) (h1 i hi c hc)
    rw [toF_ofQI, toF_add, sumLtF_eq] at this
    simp only [toF_mul] at this
    exact this
  · intro i hi j hj
    have := congrArg (toF k) (h2 i hi j hj)
    rw [hdot_eq, toF_zero] at this
    exact this
  · intro i hi
    rw [hn i]
    exact ⟨(h3 i hi).1, (h3 i hi).2⟩
  · intro i hi j hj
    rw [toF_norm]
    exact h4 i hi j hj
  · intro t ht0 ht
    rcases h5 t ht with h | h
    · omega
    · rw [hn, hn, toF_norm]
      exact h

end Yuiv.C10.Q
