import Yuiv.Proofs.KhSnfUnitPhase
import Yuiv.Proofs.KhSnfDensePhase
import Yuiv.Proofs.KhSnfRows
import Yuiv.Proofs.KhSnfChain
import Yuiv.Proofs.KhSnfTrans
/-
KhSnf — assembly: the specification of `KhRef.smithInvariants` (helper; property theorems in `Props/KhSnf.lean`).
-/
namespace Yuiv.KhSnf
open Yuiv Yuiv.KhRef Matrix Yuiv.C03Uct

/-! ### `chain` on the tail of a diagonal -/

theorem gcdStep_append (pre d : List Int) (ij : Nat × Nat) (hij : ij.1 < ij.2) (hj : ij.2 < d.length)
    {m n : Nat} {A : Matrix (Fin m) (Fin n) ℤ} (h : EquivDiag A (pre ++ d)) : EquivDiag A (pre ++ gcdStep d ij) := by
  unfold gcdStep
  simp only
  by_cases hg : ((Int.ofNat (Int.gcd (d.getD ij.1 0) (d.getD ij.2 0)) : Int) != 0) = true
  · simp only [hg, if_true]
    have hg' : Int.gcd (d.getD ij.1 0) (d.getD ij.2 0) ≠ 0 := by
      intro e; rw [e] at hg; simp at hg
    have e1 : (pre ++ d).getD (pre.length + ij.1) 0 = d.getD ij.1 0 := by
      simp [List.getD_eq_getElem?_getD, List.getElem?_append_right]
    have e2 : (pre ++ d).getD (pre.length + ij.2) 0 = d.getD ij.2 0 := by
      simp [List.getD_eq_getElem?_getD, List.getElem?_append_right]
    have := equivDiag_gcd_pair h (pre.length + ij.1) (pre.length + ij.2) (by omega)
      (by rw [List.length_append]; omega) (by rw [e1, e2]; exact hg')
    rw [e1, e2] at this
    have s1 : ∀ (l : List Int) (k : Nat) (x : Int), (pre ++ l).set (pre.length + k) x = pre ++ l.set k x := by
      intro l k x
      rw [List.set_append]
      simp
    rw [s1, s1] at this
    exact this
  · simp only [hg]
    exact h

theorem equivDiag_chain {m n : Nat} {A : Matrix (Fin m) (Fin n) ℤ} (pre : List Int) (d : Array Int)
    (h : EquivDiag A (pre ++ d.toList)) : EquivDiag A (pre ++ (chain d).toList) := by
  rw [chain_eq_fold]
  have : ∀ (ps : List (Nat × Nat)) (l : List Int), l.length = d.size → (∀ p ∈ ps, p.1 < p.2 ∧ p.2 < d.size) →
      EquivDiag A (pre ++ l) → EquivDiag A (pre ++ ps.foldl gcdStep l) := by
    intro ps
    induction ps with
    | nil => intro l _ _ hl; exact hl
    | cons p ps ih =>
      intro l hlen hps hl
      rw [List.foldl_cons]
      have hp := hps p (by simp)
      apply ih
      · rw [Chain.gcdStep_length, hlen]
      · intro q hq; exact hps q (List.mem_cons_of_mem _ hq)
      · exact gcdStep_append pre l p hp.1 (by rw [hlen]; exact hp.2) hl
  exact this _ _ (by simp) (fun p hp => Chain.mem_chainPairs _ p hp) h

/-! ### the final bookkeeping: ones, filter, divisibility -/

theorem filter_ones_perm (l : List Int) :
    l.Perm (List.replicate (l.length - (l.filter (fun x => x != 1)).length) 1 ++ l.filter (fun x => x != 1)) := by
  induction l with
  | nil => simp
  | cons x l ih =>
    by_cases hx : x = 1
    · subst hx
      have hle : (l.filter (fun x => x != 1)).length ≤ l.length := List.length_filter_le _ _
      have : (1 :: l).length - ((1 :: l).filter (fun x => x != 1)).length =
          (l.length - (l.filter (fun x => x != 1)).length) + 1 := by
        simp; omega
      rw [this, List.replicate_succ]
      simp only [List.filter_cons, bne_self_eq_false, Bool.false_eq_true, if_false, List.cons_append]
      exact List.Perm.cons _ ih
    · have hx' : (x != 1) = true := by simpa using hx
      have hle : (l.filter (fun x => x != 1)).length ≤ l.length := List.length_filter_le _ _
      have : (x :: l).length - ((x :: l).filter (fun x => x != 1)).length =
          l.length - (l.filter (fun x => x != 1)).length := by
        simp [List.filter_cons, hx']
      rw [this]
      simp only [List.filter_cons, hx', if_true]
      exact (List.Perm.cons _ ih).trans List.perm_middle.symm

/-- THE SPECIFICATION OF `smithInvariants` -/
theorem smithInvariants_spec (n : Nat) (rows0 : Array Row) (hok : ∀ r ∈ rows0.toList, RowOK n r) :
    (smithInvariants rows0).2.size ≤ (smithInvariants rows0).1 ∧
    EquivDiag (matOf n rows0)
      (List.replicate ((smithInvariants rows0).1 - (smithInvariants rows0).2.size) 1 ++ (smithInvariants rows0).2.toList) ∧
    (∀ x ∈ (smithInvariants rows0).2.toList, 1 < x) ∧
    (smithInvariants rows0).2.toList.Pairwise (fun x y => x ∣ y) := by
  have hg := rowGetSpec
  have ha : RowAxpySpecNe := rowAxpySpec'
  -- initial state: the non-empty rows
  have G0 : GInv rows0.size n (matOf n rows0) rows0.size n (rowsFn rows0) 0 := ginv_init rows0.size n (rowsFn rows0)
  obtain ⟨idx, hidx, hinj, hmiss⟩ := filter_index rows0 (fun r => decide (r.size > 0))
  have hok00 : ∀ r ∈ (rows0.filter (fun r => decide (r.size > 0))).toList, RowOK n r := by
    intro r hr
    rw [Array.toList_filter] at hr
    exact hok r (List.mem_filter.1 hr).1
  have G00 : GInv rows0.size n (matOf n rows0) (rows0.filter (fun r => decide (r.size > 0))).size n
      (rowsFn (rows0.filter (fun r => decide (r.size > 0)))) 0 := by
    have := ginv_rows (rows0.filter (fun r => decide (r.size > 0))).size idx (fun p hp => (hidx p hp).1) hinj
      (by
        intro k hk hno c _
        have := hmiss k hk hno
        simp only [decide_eq_false_iff_not, Nat.not_lt, Nat.le_zero_eq] at this
        exact rval_eq_zero_of_size_zero _ this c) G0
    refine ginv_congr ?_ this
    intro k c hk _
    show rval rows0[idx k]! c = rval (rows0.filter (fun r => decide (r.size > 0)))[k]! c
    rw [(hidx k hk).2]
  -- the unit phase
  obtain ⟨hokU, GU⟩ := unitLoop_ginv hg ha ((rows0.filter (fun r => decide (r.size > 0))).size + 1)
    (rows0.filter (fun r => decide (r.size > 0))) 0 hok00 G00
  rw [smithInvariants_eq]
  simp only
  generalize unitLoop ((rows0.filter (fun r => decide (r.size > 0))).size + 1)
    (rows0.filter (fun r => decide (r.size > 0))) 0 = ru at hokU GU ⊢
  obtain ⟨rows, units⟩ := ru
  simp only at hokU GU ⊢
  by_cases hz : (rows.size == 0) = true
  · simp only [hz, if_true]
    have hz' : rows.size = 0 := by simpa using hz
    rw [hz'] at GU
    have := ginv_final 0 (Nat.le_refl 0) (Nat.zero_le n) (fun _ => 1) (fun _ h => absurd h (Nat.not_lt_zero _))
      (fun _ h => absurd h (Nat.not_lt_zero _)) (fun k _ hk => absurd hk (Nat.not_lt_zero _)) GU
    refine ⟨by simp, by simpa using this, by simp, by simp⟩
  · have hzf : (rows.size == 0) = false := by simpa using hz
    simp only [hzf, Bool.false_eq_true, if_false]
    -- the dense phase
    obtain ⟨dS, dlt, dinj, dval, dzero⟩ := denseOf_spec hg n rows hokU
    have GD : GInv rows0.size n (matOf n rows0) rows.size (colsOf rows).size (afn (denseOf rows)) units := by
      have := ginv_cols (colsOf rows).size (fun c => (colsOf rows)[c]!) dlt dinj
        (by
          intro j _ hno k hk
          exact dzero j hno k hk) GU
      refine ginv_congr ?_ this
      intro k c hk hc
      exact (dval k c hk hc).symm
    obtain ⟨E1, hpos⟩ := denseDiag_equivDiag dS GD
    have E2 := equivDiag_chain (List.replicate units 1) (denseDiag (denseOf rows)) E1
    have hpos2 := chain_pos _ hpos
    have hdvd := chain_dvd' (denseDiag (denseOf rows))
    have hcs := chain_size (denseDiag (denseOf rows))
    generalize chain (denseDiag (denseOf rows)) = dg at E2 hpos2 hdvd hcs ⊢
    have hsz : (dg.filter (fun x => x != 1)).size ≤ dg.size := by
      rw [← Array.length_toList, Array.toList_filter, ← Array.length_toList]
      exact List.length_filter_le _ _
    refine ⟨by omega, ?_, ?_, ?_⟩
    · have hperm := filter_ones_perm dg.toList
      have hl1 : (dg.filter (fun x => x != 1)).size = (dg.toList.filter (fun x => x != 1)).length := by
        rw [← Array.length_toList, Array.toList_filter]
      have hl2 : dg.size = dg.toList.length := by simp
      have e : units + dg.size - (dg.filter (fun x => x != 1)).size =
          units + (dg.toList.length - (dg.toList.filter (fun x => x != 1)).length) := by
        omega
      rw [e, List.replicate_add, List.append_assoc, Array.toList_filter]
      exact equivDiag_perm E2 (List.Perm.append_left _ hperm)
    · intro x hx
      rw [Array.toList_filter, List.mem_filter] at hx
      have h1 := hpos2 x hx.1
      have h2 : x ≠ 1 := by simpa using hx.2
      omega
    · rw [Array.toList_filter]
      apply List.Pairwise.filter
      rw [List.pairwise_iff_getElem]
      intro i j hi hj hij
      have := hdvd i j hij (by rw [← hcs]; simpa using hj)
      rw [List.getD_eq_getElem?_getD, List.getD_eq_getElem?_getD, List.getElem?_eq_getElem hi,
        List.getElem?_eq_getElem hj] at this
      exact this

end Yuiv.KhSnf
