import Yuiv.Model.C03
import Yuiv.Proofs.C03UctRank
import Yuiv.Proofs.C03UctHom
import Mathlib.Data.ZMod.Basic
import Mathlib.Algebra.Field.ZMod
import Mathlib.Data.Rat.Cast.CharZero
/-
C03Uct, part 3 — the counting form of the universal coefficient theorem for integer matrices.

`EquivDiag A d` : `A` is equivalent over ℤ to the rectangular diagonal matrix with diagonal `d`
(`P * A * Q = rectDiag d`, `det P`, `det Q` units).  Every Smith normal form is such data (this is what
`yui-matrix/src/dense/snf.rs` computes and property C09 proves about the code model); the divisibility chain
`d₁ ∣ d₂ ∣ …` is NOT needed for any of the counts below.

Spec vocabulary (the library's reporting convention, proved correct in C07):
  free rank of H  := n − #{dₖ(A) ≠ 0} − #{dₖ(B) ≠ 0}
  torsion of H    := the dₖ(A) with dₖ ≠ 0, |dₖ| ≠ 1            (A = incoming differential)
-/
namespace Yuiv.C03Uct
open Matrix Yuiv.C03

/-- `A` is equivalent over ℤ to `rectDiag m n d` (entries beyond the list are 0) -/
def EquivDiag {m n : ℕ} (A : Matrix (Fin m) (Fin n) ℤ) (d : List ℤ) : Prop :=
  d.length ≤ min m n ∧ ∃ (P : Matrix (Fin m) (Fin m) ℤ) (Q : Matrix (Fin n) (Fin n) ℤ),
    IsUnit P.det ∧ IsUnit Q.det ∧ P * A * Q = rectDiag m n (fun k => d.getD k 0)

/-- the form in which the code has the data: explicit two-sided transforms with their inverses -/
theorem EquivDiag.of_inverses {m n : ℕ} (A : Matrix (Fin m) (Fin n) ℤ) (d : List ℤ)
    (P Pinv : Matrix (Fin m) (Fin m) ℤ) (Q Qinv : Matrix (Fin n) (Fin n) ℤ)
    (hlen : d.length ≤ min m n) (hP : P * Pinv = 1) (hQ : Q * Qinv = 1)
    (h : P * A * Q = rectDiag m n (fun k => d.getD k 0)) : EquivDiag A d :=
  ⟨hlen, P, Q, Matrix.isUnit_det_of_right_inverse hP, Matrix.isUnit_det_of_right_inverse hQ, h⟩

/-- a diagonal matrix is (trivially) in diagonal form -/
theorem EquivDiag.rectDiag (m n : ℕ) (d : List ℤ) (hlen : d.length ≤ min m n) :
    EquivDiag (Yuiv.C03Uct.rectDiag m n (fun k => d.getD k 0)) d :=
  ⟨hlen, 1, 1, by simp, by simp, by simp⟩

/-- `A ⊗ 𝔽_p` : entrywise reduction mod `p` -/
abbrev redMod (p : ℕ) {m n : ℕ} (A : Matrix (Fin m) (Fin n) ℤ) : Matrix (Fin m) (Fin n) (ZMod p) :=
  A.map (Int.castRingHom (ZMod p))
/-- `A ⊗ ℚ` -/
abbrev toRat {m n : ℕ} (A : Matrix (Fin m) (Fin n) ℤ) : Matrix (Fin m) (Fin n) ℚ :=
  A.map (Int.castRingHom ℚ)

theorem redMod_mul_eq_zero (p : ℕ) {l n k : ℕ} (A : Matrix (Fin n) (Fin l) ℤ) (B : Matrix (Fin k) (Fin n) ℤ)
    (hBA : B * A = 0) : redMod p B * redMod p A = 0 := by
  unfold redMod; rw [← Matrix.map_mul, hBA]; ext i j; simp

theorem toRat_mul_eq_zero {l n k : ℕ} (A : Matrix (Fin n) (Fin l) ℤ) (B : Matrix (Fin k) (Fin n) ℤ)
    (hBA : B * A = 0) : toRat B * toRat A = 0 := by
  unfold toRat; rw [← Matrix.map_mul, hBA]; ext i j; simp

/-! ### counting positions of a list -/

theorem card_filter_getD (q : ℤ → Bool) (hq : q 0 = false) (l : List ℤ) :
    ∀ N, l.length ≤ N →
      ((Finset.range N).filter (fun k => q (l.getD k 0) = true)).card = (l.filter q).length := by
  induction l with
  | nil => intro N _; simp [hq]
  | cons x t ih =>
    intro N hN
    obtain ⟨N', rfl⟩ : ∃ N', N = N' + 1 := ⟨N - 1, by simp at hN; omega⟩
    have hN' : t.length ≤ N' := by simp at hN; omega
    rw [Finset.card_filter, Finset.sum_range_succ']
    simp only [List.getD_cons_succ, List.getD_cons_zero]
    rw [← Finset.card_filter, ih N' hN', List.filter_cons]
    cases q x <;> simp

/-- rank of the image of `A` in any field `K`, from diagonal-form data: the number of `dₖ` not killed by `ℤ → K` -/
theorem rank_map_of_equivDiag {K : Type*} [Field K] [DecidableEq K] (f : ℤ →+* K) {m n : ℕ}
    (A : Matrix (Fin m) (Fin n) ℤ) (d : List ℤ) (h : EquivDiag A d) :
    (A.map f).rank = (d.filter (fun x => decide (f x ≠ 0))).length := by
  obtain ⟨hlen, P, Q, hP, hQ, hD⟩ := h
  rw [rank_map_eq_of_equiv f A _ P Q hP hQ hD, rectDiag_map _ _ _ _ (map_zero f), rank_rectDiag,
    ← card_filter_getD (fun x => decide (f x ≠ 0)) (by simp) d _ hlen]
  congr 1
  apply Finset.filter_congr
  intro k _
  simp

/-! ### (a) ranks over ℚ and over 𝔽_p -/

/-- number of non-zero entries -/
def nz (d : List ℤ) : ℕ := (d.filter (fun x => x != 0)).length
/-- number of entries not divisible by `p` -/
def ndiv (p : ℤ) (d : List ℤ) : ℕ := (d.filter (fun x => !(x % p == 0))).length
/-- number of non-zero entries divisible by `p` -/
def tdiv (p : ℤ) (d : List ℤ) : ℕ := (d.filter (fun x => x != 0 && x % p == 0)).length

theorem rank_rat_of_equivDiag {m n : ℕ} (A : Matrix (Fin m) (Fin n) ℤ) (d : List ℤ) (h : EquivDiag A d) :
    (A.map (Int.castRingHom ℚ)).rank = nz d := by
  rw [rank_map_of_equivDiag (Int.castRingHom ℚ) A d h, nz]
  congr 1
  apply List.filter_congr
  intro x _
  by_cases hx : x = 0 <;> simp [hx]

theorem zmod_cast_ne_zero_iff (p : ℕ) (x : ℤ) : ((Int.castRingHom (ZMod p)) x ≠ 0) ↔ ¬ (x % (p : ℤ) = 0) := by
  rw [eq_intCast, Ne, ZMod.intCast_zmod_eq_zero_iff_dvd, Int.dvd_iff_emod_eq_zero]

theorem rank_zmod_of_equivDiag (p : ℕ) [Fact p.Prime] {m n : ℕ} (A : Matrix (Fin m) (Fin n) ℤ) (d : List ℤ)
    (h : EquivDiag A d) :
    (A.map (Int.castRingHom (ZMod p))).rank = ndiv p d := by
  rw [rank_map_of_equivDiag (Int.castRingHom (ZMod p)) A d h, ndiv]
  congr 1
  apply List.filter_congr
  intro x _
  have := zmod_cast_ne_zero_iff p x
  by_cases hx : x % (p : ℤ) = 0 <;> simp_all

/-- non-zero entries = entries not divisible by `p` + non-zero entries divisible by `p` -/
theorem nz_eq_ndiv_add_tdiv (p : ℤ) (d : List ℤ) : nz d = ndiv p d + tdiv p d := by
  unfold nz ndiv tdiv
  induction d with
  | nil => rfl
  | cons x t ih =>
    by_cases hx0 : x = 0
    · subst hx0; simpa using ih
    · by_cases hm : x % p = 0
      · simp [hx0, hm] at ih ⊢; omega
      · simp [hx0, hm] at ih ⊢; omega

/-! ### the library's reporting convention -/

/-- torsion orders read off a diagonal: non-zero non-unit entries (same filter as `diagHomologyZ`) -/
def torsOf (d : List ℤ) : List ℤ := d.filter (fun x => x != 0 ∧ x.natAbs != 1)

/-- the cell reported for `Hⁱ` of `… --A--> ℤⁿ --B--> …` from the diagonals `dA`, `dB` -/
def cellOf (n : ℕ) (dA dB : List ℤ) : Cell := ⟨n - nz dA - nz dB, torsOf dA⟩

/-- units contribute nothing: for `p ≥ 2` the torsion orders divisible by `p` are exactly the non-zero diagonal
entries divisible by `p` — this is the count `dimFp` takes on the reported cell -/
theorem tors_count (p : ℤ) (hp : 2 ≤ p) (d : List ℤ) :
    ((torsOf d).filter (fun a => a % p == 0)).length = tdiv p d := by
  unfold torsOf tdiv
  rw [List.filter_filter]
  congr 1
  apply List.filter_congr
  intro x _
  by_cases hx0 : x = 0
  · simp [hx0]
  · by_cases hm : x % p = 0
    · have hx1 : x.natAbs ≠ 1 := by
        intro h1
        have hd : p ∣ x := Int.dvd_of_emod_eq_zero hm
        have h2 : p.natAbs ∣ x.natAbs := Int.natAbs_dvd_natAbs.mpr hd
        rw [h1] at h2
        have : p.natAbs = 1 := Nat.dvd_one.mp h2
        omega
      simp [hx0, hm, hx1]
    · have hb : (x % p == 0) = false := by simpa using hm
      simp [hb]

/-! ### (b) the complex `ℤˡ --A--> ℤⁿ --B--> ℤᵏ` -/

/-- `B * A = 0` forces `#{dₖ(A) ≠ 0} + #{dₖ(B) ≠ 0} ≤ n` (rank–nullity over ℚ) -/
theorem nz_add_nz_le {l n k : ℕ} (A : Matrix (Fin n) (Fin l) ℤ) (B : Matrix (Fin k) (Fin n) ℤ)
    (hBA : B * A = 0) (dA dB : List ℤ) (hA : EquivDiag A dA) (hB : EquivDiag B dB) :
    nz dA + nz dB ≤ n := by
  have h0 : B.map (Int.castRingHom ℚ) * A.map (Int.castRingHom ℚ) = 0 := by
    rw [← Matrix.map_mul, hBA]; ext i j; simp
  have := rank_add_rank_le_card_of_mul_eq_zero h0
  rw [rank_rat_of_equivDiag A dA hA, rank_rat_of_equivDiag B dB hB, Fintype.card_fin] at this
  omega

/-- the arithmetic core of the counting UCT -/
theorem uct_arith (p : ℕ) [Fact p.Prime] {l n k : ℕ} (A : Matrix (Fin n) (Fin l) ℤ)
    (B : Matrix (Fin k) (Fin n) ℤ) (hBA : B * A = 0) (dA dB : List ℤ)
    (hA : EquivDiag A dA) (hB : EquivDiag B dB) :
    n - (A.map (Int.castRingHom (ZMod p))).rank - (B.map (Int.castRingHom (ZMod p))).rank
      = (n - nz dA - nz dB) + tdiv p dA + tdiv p dB := by
  rw [rank_zmod_of_equivDiag p A dA hA, rank_zmod_of_equivDiag p B dB hB]
  have h1 := nz_add_nz_le A B hBA dA dB hA hB
  have h2 := nz_eq_ndiv_add_tdiv p dA
  have h3 := nz_eq_ndiv_add_tdiv p dB
  omega

/-! ### (c) the diagonal complex of `Model/C03` is the special case -/

theorem nz_add_zeros (a : List ℤ) : nz a + (a.filter (· == 0)).length = a.length := by
  unfold nz
  induction a with
  | nil => rfl
  | cons x t ih =>
    by_cases hx : x = 0
    · subst hx; simp at ih ⊢; omega
    · simp [hx] at ih ⊢; omega

/-- `diagHomologyZ a` is the pair of cells the general convention reports for
`0 --> ℤⁿ --diag(a)--> ℤⁿ --> 0` (degrees 0 → 1) -/
theorem diagHomologyZ_eq (a : List ℤ) :
    diagHomologyZ a = (cellOf a.length [] a, cellOf a.length a []) := by
  have h := nz_add_zeros a
  have e : (a.filter (· == 0)).length = a.length - nz a := by omega
  simp only [diagHomologyZ, cellOf, torsOf, e]
  simp [nz]

theorem diagDimFp_eq (p : ℤ) (a : List ℤ) : diagDimFp p a + ndiv p a = a.length := by
  unfold diagDimFp ndiv
  induction a with
  | nil => rfl
  | cons x t ih =>
    by_cases hm : x % p = 0
    · simp [hm] at ih ⊢; omega
    · simp [hm] at ih ⊢; omega

end Yuiv.C03Uct
