import Yuiv.Gen.SpMatFn
set_option linter.unusedSectionVars false
set_option linter.unusedSimpArgs false
/-
Helper lemmas for `Yuiv/Props/C13Gen.lean` (no property theorem here).

`Yuiv.GenSpMat.*` is GENERATED from `/repo/yui-matrix/src/sparse/sp_mat.rs` by `tools/rs2lean_fn.py fn:spmat`;
`Yuiv.C13.*` (`Yuiv/Model/C13.lean`) is the hand-written model.  Both use the same representation (`C13.SpMat R`,
`C13.SpVec R`, `C13.Perm`), so no abstraction map is needed.
-/
namespace Yuiv.C13Gen
open Yuiv Res Yuiv.Rust Yuiv.C13

variable {R : Type} [Zero R] [One R] [Add R] [DecidableEq R]

def mapR {β γ} (f : β → γ) : Res β → Res γ
  | .ok a => .ok (f a)
  | .panic => .panic
  | .err => .err

theorem mapR_ok {β γ} (f : β → γ) (a : β) : mapR f (ok a) = ok (f a) := rfl
theorem assert_true : Res.assert true = ok () := rfl
theorem assert_false : Res.assert false = (.panic : Res Unit) := rfl
theorem pure_eq_ok {β} (a : β) : (pure a : Res β) = ok a := rfl
theorem bind_mapR {β γ δ} (f : β → γ) (x : Res β) (g : γ → Res δ) : (mapR f x >>= g) = (x >>= fun a => g (f a)) := by
  cases x <;> rfl
theorem bind_congr' {α β} (x : Res α) {f g : α → Res β} (h : ∀ a, f a = g a) : (x >>= f) = (x >>= g) := by
  cases x <;> simp [h] <;> rfl

/-! ### `from_entries`: the `CooMatrix` push loop -/

theorem from_entries_step (t : Trip R) (c : Sp.Coo R) :
    GenSpMat.SpMat.from_entries_for1 t c =
      if t.2.2 = 0 then ok (Ctl.next c)
      else if t.1 < c.m ∧ t.2.1 < c.n then ok (Ctl.next { c with es := c.es ++ [t] }) else Res.panic := by
  obtain ⟨i, j, a⟩ := t
  unfold GenSpMat.SpMat.from_entries_for1
  by_cases ha : a = 0
  · simp [ha]
  · by_cases hr : i < c.m ∧ j < c.n
    · simp [ha, hr, Sp.Coo.push]
    · simp only [ha, decide_false, Bool.false_eq_true, if_false, Sp.Coo.push, hr]; rfl

/-- the non-zero triplets -/
def nz (es : List (Trip R)) : List (Trip R) := es.filter (fun t => t.2.2 ≠ 0)
/-- all triplets inside an `m × n` shape -/
def inR (m n : Nat) (es : List (Trip R)) : Bool := es.all (fun t => t.1 < m && t.2.1 < n)

theorem nz_cons_zero {t : Trip R} (es : List (Trip R)) (h : t.2.2 = 0) : nz (t :: es) = nz es :=
  List.filter_cons_of_neg (by simp [h])
theorem nz_cons_nz {t : Trip R} (es : List (Trip R)) (h : ¬ t.2.2 = 0) : nz (t :: es) = t :: nz es :=
  List.filter_cons_of_pos (by simp [h])
theorem inR_cons (m n : Nat) (t : Trip R) (es : List (Trip R)) :
    inR m n (t :: es) = ((decide (t.1 < m) && decide (t.2.1 < n)) && inR m n es) := rfl
theorem fromEntries_def (m n : Nat) (es : List (Trip R)) :
    fromEntries m n es = if inR m n (nz es) = true then ok (cooToCsc m n (nz es)) else Res.panic := rfl

/-- the loop of `from_entries` pushes the non-zero entries; a push outside the shape panics -/
theorem from_entries_loop (m n : Nat) : ∀ (es acc : List (Trip R)),
    Sp.forList es (GenSpMat.SpMat.from_entries_for1 (R := R)) (⟨m, n, acc⟩ : Sp.Coo R) =
      if inR m n (nz es) = true then ok ((⟨m, n, acc ++ nz es⟩ : Sp.Coo R), true) else Res.panic := by
  intro es
  induction es with
  | nil => intro acc; simp [Sp.forList, nz, inR]
  | cons t es ih =>
    intro acc
    unfold Sp.forList
    rw [from_entries_step]
    by_cases ha : t.2.2 = 0
    · rw [if_pos ha]
      simp only [bind_ok]
      rw [ih acc, nz_cons_zero es ha]
    · rw [if_neg ha, nz_cons_nz es ha, inR_cons]
      by_cases hr : t.1 < m ∧ t.2.1 < n
      · have hd : (decide (t.1 < m) && decide (t.2.1 < n)) = true := by simp [hr]
        show ((if t.1 < m ∧ t.2.1 < n then _ else _) >>= _) = _
        rw [if_pos hr, hd, Bool.true_and]
        simp only [bind_ok]
        rw [ih (acc ++ [t])]
        simp only [List.append_assoc, List.cons_append, List.nil_append]
      · have hd : (decide (t.1 < m) && decide (t.2.1 < n)) = false := by
          by_cases h1 : t.1 < m
          · have h2 : ¬ t.2.1 < n := fun h2 => hr ⟨h1, h2⟩
            simp [h1, h2]
          · simp [h1]
        show ((if t.1 < m ∧ t.2.1 < n then _ else _) >>= _) = _
        rw [if_neg hr, hd, Bool.false_and]
        rfl

/-- `unwrap()` of `try_from_csc_data` is the model's `tryFromCsc` -/
theorem try_unwrap (m n : Nat) (offs rows : List Nat) (vals : List R) :
    Opt.unwrap (Sp.try_from_csc_data m n offs rows vals) = tryFromCsc m n offs rows vals := by
  unfold Sp.try_from_csc_data tryFromCsc
  by_cases h : offs.length = n + 1 ∧ offs.head? = some 0 ∧ offs.getLast? = some rows.length
      ∧ monotone offs = true ∧ vals.length = rows.length
      ∧ (splitLanes rows offs).all (fun l => l.all (· < m) && strictInc l) = true
  · rw [if_pos h]; rfl
  · rw [if_neg h]; rfl

theorem extract_step (f : Nat → Nat → Res (Option (Nat × Nat))) (i j : Nat) (a : R) :
    GenSpMat.SpMat.extract_closure1 f (i, j, a) = (f i j >>= fun r => ok (r.map fun ij => (ij.1, ij.2, a))) := by
  unfold GenSpMat.SpMat.extract_closure1
  refine bind_congr' _ (fun r => ?_)
  cases r with
  | none => rfl
  | some ij => rfl

/-- the `filter_map` of `extract` is the model's `mapTrips` -/
theorem extract_map (f : Nat → Nat → Res (Option (Nat × Nat))) : ∀ ts : List (Trip R),
    Iter.filterMapM (GenSpMat.SpMat.extract_closure1 (R := R) f) ts = mapTrips f ts := by
  intro ts
  induction ts with
  | nil => rfl
  | cons t ts ih =>
    obtain ⟨i, j, a⟩ := t
    rw [Iter.filterMapM, mapTrips, ih, extract_step]
    cases f i j with
    | ok r =>
      simp only [bind_ok]
      refine bind_congr' _ (fun rest => ?_)
      cases r with
      | none => rfl
      | some ij => rfl
    | panic => rfl
    | err => rfl

/-! ### `from_col_vecs`: the loop over the column vectors (raw CSC arrays) -/

/-- the step of the model's `foldl` in `fromColVecs` -/
def fcvStep (acc : List Nat × List Nat × List R) (v : SpVec R) : List Nat × List Nat × List R :=
  let rows := acc.2.1 ++ v.ents.map (·.1)
  (acc.1 ++ [rows.length], rows, acc.2.2 ++ v.ents.map (·.2))

theorem fcv_loop (n : Nat) : ∀ (vs : List (SpVec R)) (offs rows : List Nat) (vals : List R),
    GenSpMat.SpMat.from_col_vecs_loop1 vs n offs rows vals =
      if vs.all (fun v => decide (n = v.dim)) = true then ok (vs.foldl fcvStep (offs, rows, vals)) else Res.panic := by
  intro vs
  induction vs with
  | nil => intro offs rows vals; rfl
  | cons v vs ih =>
    intro offs rows vals
    rw [GenSpMat.SpMat.from_col_vecs_loop1, List.all_cons, List.foldl_cons]
    by_cases hd : n = v.dim
    · have hd' : decide (n = v.dim) = true := by simp [hd]
      simp only [hd', assert_true, bind_ok, Bool.true_and]
      simp only [Sp.disassemble, Sp.vec_inner, C13.SpVec.toMat, C13.SpMat.disassemble, List.flatten_cons, List.flatten_nil,
        List.append_nil]
      rw [ih]
      rfl
    · have hd' : decide (n = v.dim) = false := by simp [hd]
      simp only [hd', assert_false, Bool.false_and, Bool.false_eq_true, if_false]
      rfl

theorem fcv_offs_len : ∀ (vs : List (SpVec R)) (acc : List Nat × List Nat × List R),
    (vs.foldl fcvStep acc).1.length = acc.1.length + vs.length := by
  intro vs
  induction vs with
  | nil => intro acc; rfl
  | cons v vs ih =>
    intro acc
    rw [List.foldl_cons, ih]
    simp [fcvStep]
    omega

/-! ### `from_row_perm` / `from_col_perm`: `(0..n).map(|i| (p.at(i), i, 1))` -/

theorem perm_map_row (p : Perm) : ∀ (c s : Nat),
    Iter.mapM (GenSpMat.SpMat.from_row_perm_closure1 (R := R) p) (List.range' s c) =
      mapR (fun im => (enumFrom' s im).map (fun (x : Nat × Nat) => (x.2, x.1, (1 : R)))) (permImages p (List.range' s c)) := by
  intro c
  induction c with
  | zero => intro s; rfl
  | succ c ih =>
    intro s
    rw [List.range'_succ, Iter.mapM, permImages, ih]
    unfold GenSpMat.SpMat.from_row_perm_closure1
    cases p.at s with
    | ok x =>
      simp only [bind_ok]
      cases permImages p (List.range' (s + 1) c) <;> rfl
    | panic => rfl
    | err => rfl

theorem perm_map_col (p : Perm) : ∀ (c s : Nat),
    Iter.mapM (GenSpMat.SpMat.from_col_perm_closure1 (R := R) p) (List.range' s c) =
      mapR (fun im => (enumFrom' s im).map (fun (x : Nat × Nat) => (x.1, x.2, (1 : R)))) (permImages p (List.range' s c)) := by
  intro c
  induction c with
  | zero => intro s; rfl
  | succ c ih =>
    intro s
    rw [List.range'_succ, Iter.mapM, permImages, ih]
    unfold GenSpMat.SpMat.from_col_perm_closure1
    cases p.at s with
    | ok x =>
      simp only [bind_ok]
      cases permImages p (List.range' (s + 1) c) <;> rfl
    | panic => rfl
    | err => rfl

/-! ### `divide4`: the classification loop -/

section d4
variable (k l : Nat)
def qa (xs : List (Trip R)) : List (Trip R) := xs.filter (fun t => t.1 < k && t.2.1 < l)
def qb (xs : List (Trip R)) : List (Trip R) :=
  (xs.filter (fun t => t.1 < k && !(t.2.1 < l))).map (fun t => (t.1, t.2.1 - l, t.2.2))
def qc (xs : List (Trip R)) : List (Trip R) :=
  (xs.filter (fun t => !(t.1 < k) && t.2.1 < l)).map (fun t => (t.1 - k, t.2.1, t.2.2))
def qd (xs : List (Trip R)) : List (Trip R) :=
  (xs.filter (fun t => !(t.1 < k) && !(t.2.1 < l))).map (fun t => (t.1 - k, t.2.1 - l, t.2.2))
end d4

theorem rc0 (k i : Nat) : Sp.range_contains (0, k) i = decide (i < k) := by simp [Sp.range_contains]

/-- one iteration of the loop of `divide4` -/
theorem divide4_step (k l : Nat) (t : Trip R) (a b c d : Sp.Coo R) :
    GenSpMat.SpMat.divide4_for1 k l t (a, b, c, d) =
      if t.2.2 = 0 then ok (Ctl.next (a, b, c, d))
      else if t.1 < k then
        (if t.2.1 < l then (Sp.Coo.push a t.1 t.2.1 t.2.2 >>= fun a' => ok (Ctl.next (a', b, c, d)))
         else (Sp.Coo.push b t.1 (t.2.1 - l) t.2.2 >>= fun b' => ok (Ctl.next (a, b', c, d))))
      else
        (if t.2.1 < l then (Sp.Coo.push c (t.1 - k) t.2.1 t.2.2 >>= fun c' => ok (Ctl.next (a, b, c', d)))
         else (Sp.Coo.push d (t.1 - k) (t.2.1 - l) t.2.2 >>= fun d' => ok (Ctl.next (a, b, c, d')))) := by
  obtain ⟨i, j, r⟩ := t
  unfold GenSpMat.SpMat.divide4_for1
  simp only [rc0]
  by_cases hr : r = 0
  · simp [hr]
  · by_cases hi : i < k <;> by_cases hj : j < l
    · simp [hr, hi, hj]
      cases Sp.Coo.push a i j r <;> rfl
    · have : l ≤ j := by omega
      simp [hr, hi, hj, U64.sub, this]
      cases Sp.Coo.push b i (j - l) r <;> rfl
    · have : k ≤ i := by omega
      simp [hr, hi, hj, U64.sub, this]
      cases Sp.Coo.push c (i - k) j r <;> rfl
    · have h1 : k ≤ i := by omega
      have h2 : l ≤ j := by omega
      simp [hr, hi, hj, U64.sub, h1, h2]
      cases Sp.Coo.push d (i - k) (j - l) r <;> rfl


section cons
variable (k l : Nat) (t : Trip R) (xs : List (Trip R))
theorem q_aa (hi : t.1 < k) (hj : t.2.1 < l) :
    qa k l (t :: xs) = t :: qa k l xs ∧ qb k l (t :: xs) = qb k l xs ∧ qc k l (t :: xs) = qc k l xs ∧ qd k l (t :: xs) = qd k l xs := by
  simp [qa, qb, qc, qd, List.filter_cons, hi, hj]
theorem q_ab (hi : t.1 < k) (hj : ¬ t.2.1 < l) :
    qa k l (t :: xs) = qa k l xs ∧ qb k l (t :: xs) = (t.1, t.2.1 - l, t.2.2) :: qb k l xs ∧ qc k l (t :: xs) = qc k l xs ∧ qd k l (t :: xs) = qd k l xs := by
  simp [qa, qb, qc, qd, List.filter_cons, hi, hj]
theorem q_ba (hi : ¬ t.1 < k) (hj : t.2.1 < l) :
    qa k l (t :: xs) = qa k l xs ∧ qb k l (t :: xs) = qb k l xs ∧ qc k l (t :: xs) = (t.1 - k, t.2.1, t.2.2) :: qc k l xs ∧ qd k l (t :: xs) = qd k l xs := by
  simp [qa, qb, qc, qd, List.filter_cons, hi, hj]
theorem q_bb (hi : ¬ t.1 < k) (hj : ¬ t.2.1 < l) :
    qa k l (t :: xs) = qa k l xs ∧ qb k l (t :: xs) = qb k l xs ∧ qc k l (t :: xs) = qc k l xs ∧ qd k l (t :: xs) = (t.1 - k, t.2.1 - l, t.2.2) :: qd k l xs := by
  simp [qa, qb, qc, qd, List.filter_cons, hi, hj]
end cons

/-- all four blocks inside their shapes -/
def ok4 (k l M N : Nat) (xs : List (Trip R)) : Bool :=
  inR k l (qa k l xs) && inR k N (qb k l xs) && inR M l (qc k l xs) && inR M N (qd k l xs)

theorem push_eq (c : Sp.Coo R) (i j : Nat) (a : R) :
    Sp.Coo.push c i j a = if (decide (i < c.m) && decide (j < c.n)) = true then ok ⟨c.m, c.n, c.es ++ [(i, j, a)]⟩ else Res.panic := by
  unfold Sp.Coo.push
  by_cases h : i < c.m ∧ j < c.n
  · simp [h]
  · rw [if_neg h]
    by_cases h1 : i < c.m
    · have h2 : ¬ j < c.n := fun h2 => h ⟨h1, h2⟩
      simp [h1, h2]
    · simp [h1]

theorem divide4_loop (k l M N : Nat) : ∀ (ts A B C D : List (Trip R)),
    Sp.forList ts (GenSpMat.SpMat.divide4_for1 (R := R) k l)
        ((⟨k, l, A⟩ : Sp.Coo R), (⟨k, N, B⟩ : Sp.Coo R), (⟨M, l, C⟩ : Sp.Coo R), (⟨M, N, D⟩ : Sp.Coo R)) =
      if ok4 k l M N (nz ts) = true then
        ok (((⟨k, l, A ++ qa k l (nz ts)⟩ : Sp.Coo R), (⟨k, N, B ++ qb k l (nz ts)⟩ : Sp.Coo R),
             (⟨M, l, C ++ qc k l (nz ts)⟩ : Sp.Coo R), (⟨M, N, D ++ qd k l (nz ts)⟩ : Sp.Coo R)), true)
      else Res.panic := by
  intro ts
  induction ts with
  | nil => intro A B C D; simp [Sp.forList, nz, ok4, inR, qa, qb, qc, qd]
  | cons t ts ih =>
    intro A B C D
    unfold Sp.forList
    rw [divide4_step]
    by_cases hz : t.2.2 = 0
    · rw [if_pos hz, nz_cons_zero ts hz]
      simp only [bind_ok]
      exact ih A B C D
    · rw [if_neg hz, nz_cons_nz ts hz]
      by_cases hi : t.1 < k <;> by_cases hj : t.2.1 < l
      · obtain ⟨e1, e2, e3, e4⟩ := q_aa k l t (nz ts) hi hj
        simp only [hi, hj, if_true, push_eq, ok4, e1, e2, e3, e4, inR_cons, decide_true, Bool.true_and, bind_ok]
        rw [ih]
        simp only [ok4, List.append_assoc, List.cons_append, List.nil_append]
      · obtain ⟨e1, e2, e3, e4⟩ := q_ab k l t (nz ts) hi hj
        simp only [hi, hj, if_true, if_false, push_eq, ok4, e1, e2, e3, e4, inR_cons, decide_true, Bool.true_and]
        cases hc : decide (t.2.1 - l < N)
        · simp
        · simp only [if_true, bind_ok, Bool.true_and]
          rw [ih]
          simp only [ok4, List.append_assoc, List.cons_append, List.nil_append]
      · obtain ⟨e1, e2, e3, e4⟩ := q_ba k l t (nz ts) hi hj
        simp only [hi, hj, if_true, if_false, push_eq, ok4, e1, e2, e3, e4, inR_cons, decide_true, Bool.and_true]
        cases hc : decide (t.1 - k < M)
        · simp
        · simp only [if_true, bind_ok, Bool.true_and]
          rw [ih]
          simp only [ok4, List.append_assoc, List.cons_append, List.nil_append]
      · obtain ⟨e1, e2, e3, e4⟩ := q_bb k l t (nz ts) hi hj
        simp only [hi, hj, if_false, push_eq, ok4, e1, e2, e3, e4, inR_cons]
        cases hc : (decide (t.1 - k < M) && decide (t.2.1 - l < N))
        · simp
        · simp only [if_true, bind_ok, Bool.true_and]
          rw [ih]
          simp only [ok4, List.append_assoc, List.cons_append, List.nil_append]


theorem cooFrom_def (m n : Nat) (es : List (Trip R)) :
    cooFrom m n es = if inR m n es = true then ok (cooToCsc m n es) else Res.panic := rfl

end Yuiv.C13Gen
