import Yuiv.Proofs.C09Euc
import Mathlib.Algebra.Field.ZMod
/-
C09 — instances of `LawfulEuc` for the field operation records of the driver: `ratOps` (ℚ) and `fpOps p` (𝔽_p,
`p` prime; residues are natural numbers, `φ = Nat.cast : ℕ → ZMod p`).  Both go through `lawfulEuc_field`: a
record whose `normUnit` is the inverse, `/` is the field division, `%` is zero, `size` is `0/1` and `gcdx` is
the generic `EucRing::gcdx` specialised to a field (`fieldGcdx`) is lawful.
-/
set_option linter.unusedSectionVars false
set_option linter.unusedSimpArgs false
namespace Yuiv.C09
open Yuiv

variable {α F : Type} [Field F]

/-- a field operation record is a lawful Euclidean operation record -/
theorem lawfulEuc_field (e : EOps α) (φ : α → F) (LE : LawfulE e φ)
    (hnu0 : ∀ a, φ a = 0 → φ (e.normUnit a) = 1)
    (hnu : ∀ a, φ a ≠ 0 → φ (e.normUnit a) = (φ a)⁻¹)
    (hinv : ∀ a, φ a ≠ 0 → ∃ v, e.inv a = some v)
    (hunit : ∀ a, e.isUnit a = true ↔ φ a ≠ 0)
    (hquo : ∀ a b, φ b ≠ 0 → φ (e.quo a b) = φ a / φ b)
    (hrem : ∀ a b, φ (e.rem a b) = 0)
    (hsize0 : ∀ a, φ a = 0 → e.size a = 0) (hsize1 : ∀ a, φ a ≠ 0 → e.size a = 1)
    (hgcdx : ∀ x y, e.gcdx x y = fieldGcdx e.toROps e.normUnit x y) : LawfulEuc e φ := by
  have L := LE.toLawful
  have hnune : ∀ a, φ (e.normUnit a) ≠ 0 := by
    intro a
    by_cases h : φ a = 0
    · rw [hnu0 a h]; exact one_ne_zero
    · rw [hnu a h]; exact inv_ne_zero h
  have hnmul : ∀ a, φ (e.normUnit (e.mul a (e.normUnit a))) = 1 := by
    intro a
    by_cases h : φ a = 0
    · apply hnu0; rw [L.mul, h, zero_mul]
    · have h1 : φ (e.mul a (e.normUnit a)) = 1 := by rw [L.mul, hnu a h, mul_inv_cancel₀ h]
      rw [hnu _ (by rw [h1]; exact one_ne_zero), h1, inv_one]
  have hnorm01 : ∀ a, φ (e.normUnit a) = 1 → φ a = 0 ∨ φ a = 1 := by
    intro a ha
    by_cases h : φ a = 0
    · exact Or.inl h
    · right
      rw [hnu a h] at ha
      exact inv_eq_one.1 ha
  have hsz_le : ∀ a, e.size a ≤ 1 := by
    intro a
    by_cases h : φ a = 0
    · rw [hsize0 a h]; exact Nat.zero_le _
    · rw [hsize1 a h]
  have hz : ∀ a, e.isZero a = true ↔ φ a = 0 := isZero_iff L
  refine { toLawfulE := LE, inv_normUnit := fun a => hinv _ (hnune a), normUnit_congr := ?_, norm_mul := hnmul,
           norm_unique := ?_, isUnit_iff := ?_, div_rem := ?_, size_rem := ?_, size_dvd := ?_,
           gcdx_bezout := ?_, gcdx_dvd := ?_, gcdx_norm := ?_ }
  · intro a b h
    by_cases h0 : φ a = 0
    · rw [hnu0 a h0, hnu0 b (by rw [← h]; exact h0)]
    · rw [hnu a h0, hnu b (by rw [← h]; exact h0), h]
  · intro a b ha hb h1 h2
    rcases hnorm01 a ha with ha | ha <;> rcases hnorm01 b hb with hb | hb
    · rw [ha, hb]
    · rw [ha, hb] at h1; exact absurd (zero_dvd_iff.1 h1) one_ne_zero
    · rw [ha, hb] at h2; exact absurd (zero_dvd_iff.1 h2) one_ne_zero
    · rw [ha, hb]
  · intro a
    rw [hunit, isUnit_iff_ne_zero]
  · intro a b hb
    rw [hquo a b hb, hrem, add_zero, div_mul_cancel₀ _ hb]
  · intro a b hb
    rw [hsize0 _ (hrem a b), hsize1 b hb]; exact Nat.one_pos
  · intro a b hb _
    rw [hsize1 b hb]; exact hsz_le a
  · intro x y
    rw [hgcdx]; unfold fieldGcdx
    split
    · simp [L.zero]
    · split
      · simp only [L.mul, L.zero]; ring
      · simp only [L.mul, L.zero]; ring
  · intro x y
    rw [hgcdx]; unfold fieldGcdx
    split
    · rename_i h
      simp only [Bool.and_eq_true, hz] at h
      simp only [L.zero, h.1, h.2]
      exact ⟨dvd_refl _, dvd_refl _⟩
    · split
      · rename_i hx
        simp only [Bool.not_eq_true', ← Bool.not_eq_true, hz] at hx
        have : IsUnit (φ (e.mul x (e.normUnit x))) := by
          rw [L.mul]; exact (isUnit_iff_ne_zero.2 (mul_ne_zero hx (hnune x)))
        exact ⟨this.dvd, this.dvd⟩
      · rename_i h hx
        simp only [Bool.not_eq_true', ← Bool.not_eq_true, hz, not_not] at hx
        have hy : φ y ≠ 0 := by
          intro hy; apply h; simp only [Bool.and_eq_true, hz]; exact ⟨hx, hy⟩
        have : IsUnit (φ (e.mul y (e.normUnit y))) := by
          rw [L.mul]; exact (isUnit_iff_ne_zero.2 (mul_ne_zero hy (hnune y)))
        exact ⟨this.dvd, this.dvd⟩
  · intro x y
    rw [hgcdx]; unfold fieldGcdx
    split
    · exact hnu0 _ L.zero
    · split
      · exact hnmul x
      · exact hnmul y

/-! ### ℚ -/

theorem lawfulEuc_rat : LawfulEuc ratOps (id : Rat → Rat) := by
  refine lawfulEuc_field ratOps id lawfulE_rat ?_ ?_ ?_ ?_ ?_ ?_ ?_ ?_ ?_
  · intro a h; simp only [id] at h; subst h; rfl
  · intro a h
    simp only [id] at h ⊢
    simp [ratOps, h]
  · intro a h
    simp only [id] at h
    simp [ratOps, h]
  · intro a
    simp [ratOps]
  · intro a b _; rfl
  · intro a b; rfl
  · intro a h; simp only [id] at h; subst h; rfl
  · intro a h
    simp only [id] at h
    simp [ratOps, h]
  · intro x y; rfl

/-! ### 𝔽_p -/

section fp
variable (p : Nat) [Fact p.Prime]

local instance : NeZero p := ⟨(Fact.out : p.Prime).ne_zero⟩

theorem fp_cast_eq_zero (a : Nat) : ((a : ZMod p) = 0) ↔ a % p = 0 := by
  rw [ZMod.natCast_eq_zero_iff, Nat.dvd_iff_mod_eq_zero]

/-- the search `fpInv` finds the inverse of a non-zero residue -/
theorem fpInv_spec (a : Nat) (h : (a : ZMod p) ≠ 0) : (a : ZMod p) * (fpInv p a : ZMod p) = 1 := by
  have hp1 : 1 < p := (Fact.out : p.Prime).one_lt
  have hmod : ∀ b : Nat, (a * b % p == 1) = true ↔ (a : ZMod p) * (b : ZMod p) = 1 := by
    intro b
    rw [beq_iff_eq, ← Nat.cast_mul, ← Nat.cast_one (R := ZMod p), ZMod.natCast_eq_natCast_iff',
      Nat.mod_eq_of_lt hp1]
  unfold fpInv
  cases hf : (List.range p).find? (fun b => a * b % p == 1) with
  | none =>
    exfalso
    rw [List.find?_eq_none] at hf
    have := hf ((a : ZMod p)⁻¹).val (List.mem_range.2 (ZMod.val_lt _))
    apply this
    rw [hmod, ZMod.natCast_zmod_val]
    exact mul_inv_cancel₀ h
  | some b =>
    have := List.find?_some hf
    simp only [Option.getD_some]
    exact (hmod b).1 this

theorem fp_normUnit (a : Nat) : (fpOps p).normUnit a = if a % p == 0 then 1 % p else fpInv p (a % p) := rfl

theorem fpInv_cast (a : Nat) (h : (a : ZMod p) ≠ 0) : ((fpInv p (a % p) : Nat) : ZMod p) = (a : ZMod p)⁻¹ := by
  have h' : ((a % p : Nat) : ZMod p) ≠ 0 := by rw [ZMod.natCast_mod]; exact h
  have := fpInv_spec p (a % p) h'
  rw [ZMod.natCast_mod] at this
  exact eq_inv_of_mul_eq_one_right this

theorem lawfulEuc_fp : LawfulEuc (fpOps p) (fun a : Nat => (a : ZMod p)) := by
  have hp1 : 1 < p := (Fact.out : p.Prime).one_lt
  refine lawfulEuc_field (fpOps p) _ (lawfulE_fp p) ?_ ?_ ?_ ?_ ?_ ?_ ?_ ?_ ?_
  · intro a h
    beta_reduce at h ⊢
    rw [fp_normUnit, if_pos (by rw [beq_iff_eq]; exact (fp_cast_eq_zero p a).1 h), ZMod.natCast_mod]
    exact Nat.cast_one
  · intro a h
    beta_reduce at h ⊢
    rw [fp_normUnit, if_neg (by rw [beq_iff_eq]; exact fun h0 => h ((fp_cast_eq_zero p a).2 h0))]
    exact fpInv_cast p a h
  · intro a h
    beta_reduce at h
    have h0 : ¬ (a % p == 0) = true := by rw [beq_iff_eq]; exact fun h0 => h ((fp_cast_eq_zero p a).2 h0)
    have h1 : (a * fpInv p (a % p) % p == 1) = true := by
      rw [beq_iff_eq]
      have := fpInv_cast p a h
      have h2 : ((a * fpInv p (a % p) : Nat) : ZMod p) = ((1 : Nat) : ZMod p) := by
        rw [Nat.cast_mul, this, Nat.cast_one]; exact mul_inv_cancel₀ h
      rw [ZMod.natCast_eq_natCast_iff', Nat.mod_eq_of_lt hp1] at h2
      exact h2
    refine ⟨fpInv p (a % p), ?_⟩
    show (if (a % p == 0) = true then none else
      if (a * fpInv p (a % p) % p == 1) = true then some (fpInv p (a % p)) else none) = _
    rw [if_neg h0, if_pos h1]
  · intro a
    show (!(a % p == 0)) = true ↔ _
    rw [Bool.not_eq_true', ← Bool.not_eq_true, beq_iff_eq, ne_eq, fp_cast_eq_zero]
  · intro a b hb
    beta_reduce at hb ⊢
    show (((a * fpInv p (b % p)) % p : Nat) : ZMod p) = _
    rw [ZMod.natCast_mod, Nat.cast_mul, fpInv_cast p b hb, div_eq_mul_inv]
  · intro a b; exact Nat.cast_zero
  · intro a h
    show (if (a % p == 0) = true then 0 else 1) = 0
    rw [if_pos (by rw [beq_iff_eq]; exact (fp_cast_eq_zero p a).1 h)]
  · intro a h
    show (if (a % p == 0) = true then 0 else 1) = 1
    rw [if_neg (by rw [beq_iff_eq]; exact fun h0 => h ((fp_cast_eq_zero p a).2 h0))]
  · intro x y; rfl

end fp

end Yuiv.C09
