import Yuiv.Gen.HomCalcFn
/-
Helper lemmas for `Yuiv/Props/C07Gen.lean` (no property theorem here).

`Yuiv.GenHomCalc.*` is GENERATED from `/repo/yui-homology/src/utils/homology_calc.rs` by `tools/rs2lean_fn.py fn:homcalc`;
`Yuiv.C07.*` (`Yuiv/Model/C07Calc.lean`) is the hand-written model.  Both run on the same types (`C07.Mat`, `C07.Snf`,
`C07.Trans`, the SNF routine as a parameter), so no abstraction map is needed.
-/
namespace Yuiv.C07Gen
open Yuiv Res Yuiv.Rust Yuiv.GenHomCalc Yuiv.C07

theorem assert_true : Res.assert true = ok () := rfl
theorem assert_false : Res.assert false = (.panic : Res Unit) := rfl
theorem pure_eq_ok {β} (a : β) : (pure a : Res β) = ok a := rfl
theorem bind_congr' {α β} (x : Res α) {f g : α → Res β} (h : ∀ a, f a = g a) : (x >>= f) = (x >>= g) := by
  cases x <;> simp [h] <;> rfl
theorem bind_congr_eq {α β} (x : Res α) {f g : α → Res β} (h : ∀ a, x = ok a → f a = g a) : (x >>= f) = (x >>= g) := by
  cases x with
  | ok a => exact h a rfl
  | panic => rfl
  | err => rfl
theorem bind_assoc' {β γ δ} (x : Res β) (f : β → Res γ) (g : γ → Res δ) :
    ((x >>= f) >>= g) = (x >>= fun a => f a >>= g) := by cases x <;> rfl

/-- `assert_eq!` on `usize` values / pairs: `decide (a = b)` is the model's `==` -/
theorem nat_beq (a b : Nat) : decide (a = b) = (a == b) := by
  by_cases h : a = b <;> simp [h]
theorem pair_beq (a b c d : Nat) : decide ((a, b) = (c, d)) = (a == c && b == d) := by
  by_cases h1 : a = c <;> by_cases h2 : b = d <;> simp [h1, h2]

/-- `Option::unwrap` of the prelude is the model's -/
theorem unwrap_eq {α : Type} (o : Option α) : Opt.unwrap o = C07.unwrap o := by cases o <;> rfl

/-- checked `usize` subtraction of the prelude is the model's -/
theorem sub_eq (a b : Nat) : U64.sub a b = subR a b := rfl

/-- `Ring::is_unit` of the integers (`is_one(a) || is_one(-a)`) is the model's `|a| = 1` -/
theorem is_unit_eq (a : Int) : RInt.is_unit a = isUnitZ a := by
  unfold RInt.is_unit RInt.is_one isUnitZ
  by_cases h1 : a = 1
  · subst h1; rfl
  · by_cases h2 : a = -1
    · subst h2; rfl
    · have : a.natAbs ≠ 1 := by omega
      have h3 : ¬ -a = 1 := by omega
      simp [h1, h3, this]

/-- the `filter_map` of `result` is the model's `filter` -/
theorem tors_eq (l : List Int) :
    List.filterMap HomologyCalc.result_closure1 l = l.filter fun a => !isUnitZ a := by
  induction l with
  | nil => rfl
  | cons a l ih =>
    simp only [List.filterMap_cons, List.filter_cons, HomologyCalc.result_closure1, is_unit_eq, ih]
    cases isUnitZ a <;> rfl

/-- the `filter(..).count()` of `trans` is the length of the model's `filter` -/
theorem tcount_eq (l : List Int) :
    List.filter HomologyCalc.trans_closure1 l = l.filter fun a => !isUnitZ a := by
  congr 1
  funext a
  simp [HomologyCalc.trans_closure1, is_unit_eq]

end Yuiv.C07Gen
