import Yuiv.Proofs.C01SqPatA
import Yuiv.Proofs.C01SqPatB
import Yuiv.Proofs.C01SqGeom2
/-
C01Sq — EVERY FACE OF THE CUBE OF A VALID DIAGRAM COMMUTES (helper; the property theorems are in `Props/C01Sq.lean`).

`Sq`: the data of a face — the circle lists of the four states with their specifications, the geometry `EG` of the
four edges (crossing `a` with slots `a1..a4` on `00 → 10` and `01 → 11`, crossing `b` with slots `b1..b4` on `00 → 01`
and `10 → 11`) and the fact that the four edges are merges or splits.  `Face`: there are descriptors of the four edges
such that the two path functionals agree.  `face_of_sq : Sq … → Face …` by the classification

    a, b merge at 00 : the merged pairs are equal (`face_same`), share one circle (`face_31`), are disjoint;
    a, b split at 00 : different circles (disjoint), the same circle and then b merges the pieces (`face_11`) or
                       b splits one piece (`face_13`);
    a merges, b splits: b's circle is not one of a's (disjoint) or it is (`face_frob`);  a splits, b merges: symmetric.

All relation reasoning is done on circle names (`N cs e = N cs e'` iff `e`, `e'` lie on one circle), where `grind`
decides it from the merge descriptions `Mrg.pack` of the four edges.
-/
namespace Yuiv.C01Sq
open Yuiv Yuiv.KhRef Yuiv.C04Inv Yuiv.C06Cycle
open Yuiv.C02Mirror (Circ edgeOK)

variable {L : Array Nat}

/-! ### merges in terms of names -/

section pack
variable {Pf Pc : List (Nat × Nat)} {csf csc : Circ} {p r : Nat}

theorem Mrg.iffN (m : Mrg L Pf Pc csf csc p r) (hf : CirclesSpec L Pf csf) (hc : CirclesSpec L Pc csc)
    (hp : p ∈ L) (hr : r ∈ L) {x y : Nat} (hx : x ∈ L) (hy : y ∈ L) :
    N csc x = N csc y ↔ N csf x = N csf y ∨
      ((N csf x = N csf p ∨ N csf x = N csf r) ∧ (N csf y = N csf p ∨ N csf y = N csf r)) := by
  rw [N_eq_iff hc hx hy, N_eq_iff hf hx hy, N_eq_iff hf hx hp, N_eq_iff hf hx hr, N_eq_iff hf hy hp,
    N_eq_iff hf hy hr]
  exact m.co x y

theorem Mrg.persistN (m : Mrg L Pf Pc csf csc p r) (hf : CirclesSpec L Pf csf) (hc : CirclesSpec L Pc csc)
    (hp : p ∈ L) (hr : r ∈ L) {x : Nat} (hx : x ∈ L) (h1 : N csf x ≠ N csf p) (h2 : N csf x ≠ N csf r) :
    N csc x = N csf x :=
  persist hf hc m.co hx (fun c => h1 ((N_eq_iff hf hx hp).2 c)) (fun c => h2 ((N_eq_iff hf hx hr).2 c))

/-- everything `grind` needs to know about a merge, for four labels -/
theorem Mrg.pack (m : Mrg L Pf Pc csf csc p r) (hf : CirclesSpec L Pf csf) (hc : CirclesSpec L Pc csc)
    (hp : p ∈ L) (hr : r ∈ L) {w x y z : Nat} (hw : w ∈ L) (hx : x ∈ L) (hy : y ∈ L) (hz : z ∈ L) :
    N csf p ≠ N csf r ∧ N csc p = N csc r ∧
    (N csc w = N csc x ↔ N csf w = N csf x ∨
      ((N csf w = N csf p ∨ N csf w = N csf r) ∧ (N csf x = N csf p ∨ N csf x = N csf r))) ∧
    (N csc w = N csc y ↔ N csf w = N csf y ∨
      ((N csf w = N csf p ∨ N csf w = N csf r) ∧ (N csf y = N csf p ∨ N csf y = N csf r))) ∧
    (N csc w = N csc z ↔ N csf w = N csf z ∨
      ((N csf w = N csf p ∨ N csf w = N csf r) ∧ (N csf z = N csf p ∨ N csf z = N csf r))) ∧
    (N csc x = N csc y ↔ N csf x = N csf y ∨
      ((N csf x = N csf p ∨ N csf x = N csf r) ∧ (N csf y = N csf p ∨ N csf y = N csf r))) ∧
    (N csc x = N csc z ↔ N csf x = N csf z ∨
      ((N csf x = N csf p ∨ N csf x = N csf r) ∧ (N csf z = N csf p ∨ N csf z = N csf r))) ∧
    (N csc y = N csc z ↔ N csf y = N csf z ∨
      ((N csf y = N csf p ∨ N csf y = N csf r) ∧ (N csf z = N csf p ∨ N csf z = N csf r))) ∧
    (N csf w ≠ N csf p → N csf w ≠ N csf r → N csc w = N csf w) ∧
    (N csf x ≠ N csf p → N csf x ≠ N csf r → N csc x = N csf x) ∧
    (N csf y ≠ N csf p → N csf y ≠ N csf r → N csc y = N csf y) ∧
    (N csf z ≠ N csf p → N csf z ≠ N csf r → N csc z = N csf z) :=
  ⟨fun e => m.ne ((N_eq_iff hf hp hr).1 e), (N_eq_iff hc hp hr).2 m.co.pr,
    m.iffN hf hc hp hr hw hx, m.iffN hf hc hp hr hw hy, m.iffN hf hc hp hr hw hz,
    m.iffN hf hc hp hr hx hy, m.iffN hf hc hp hr hx hz, m.iffN hf hc hp hr hy hz,
    m.persistN hf hc hp hr hw, m.persistN hf hc hp hr hx, m.persistN hf hc hp hr hy, m.persistN hf hc hp hr hz⟩

theorem Mrg.swap (m : Mrg L Pf Pc csf csc p r) (hc : CirclesSpec L Pc csc) (hp : p ∈ L) (hr : r ∈ L) :
    Mrg L Pf Pc csf csc r p := by
  refine ⟨fun c => m.ne c.symm, ?_, ?_⟩
  · intro x y
    rw [m.co x y]
    constructor
    · rintro (h | ⟨h1, h2⟩)
      · exact Or.inl h
      · exact Or.inr ⟨h1.symm, h2.symm⟩
    · rintro (h | ⟨h1, h2⟩)
      · exact Or.inl h
      · exact Or.inr ⟨h1.symm, h2.symm⟩
  · have e : N csc r = N csc p := (N_eq_iff hc hr hp).2 m.co.pr.symm
    rw [e]
    exact m.rel.swap

end pack

/-! ### faces -/

/-- a commuting face: descriptors of the four edges with equal path functionals -/
def Face (cs00 cs10 cs01 cs11 : Circ) : Prop :=
  ∃ ea0 eb1 eb0 ea1, IsEdge cs00 cs10 ea0 ∧ IsEdge cs10 cs11 eb1 ∧ IsEdge cs00 cs01 eb0 ∧ IsEdge cs01 cs11 ea1 ∧
    ∀ (h t : Int) (f f'' : Name → Bool),
      pathF h t cs10 cs11 ea0 eb1 f f'' = pathF h t cs01 cs11 eb0 ea1 f f''

theorem Face.symm {cs00 cs10 cs01 cs11 : Circ} (h : Face cs00 cs10 cs01 cs11) : Face cs00 cs01 cs10 cs11 := by
  obtain ⟨ea0, eb1, eb0, ea1, h1, h2, h3, h4, h5⟩ := h
  exact ⟨eb0, ea1, ea0, eb1, h3, h4, h1, h2, fun h t f f'' => (h5 h t f f'').symm⟩

/-- the data of a face -/
structure Sq (L : Array Nat) (P00 P10 P01 P11 : List (Nat × Nat)) (cs00 cs10 cs01 cs11 : Circ)
    (a1 a2 a3 a4 b1 b2 b3 b4 : Nat) : Prop where
  s00 : CirclesSpec L P00 cs00
  s10 : CirclesSpec L P10 cs10
  s01 : CirclesSpec L P01 cs01
  s11 : CirclesSpec L P11 cs11
  ga0 : EG L P00 P10 a1 a2 a3 a4
  ga1 : EG L P01 P11 a1 a2 a3 a4
  gb0 : EG L P00 P01 b1 b2 b3 b4
  gb1 : EG L P10 P11 b1 b2 b3 b4
  oa0 : edgeOK cs00 cs10 = true
  oa1 : edgeOK cs01 cs11 = true
  ob0 : edgeOK cs00 cs01 = true
  ob1 : edgeOK cs10 cs11 = true

section sq
variable {P00 P10 P01 P11 : List (Nat × Nat)} {cs00 cs10 cs01 cs11 : Circ} {a1 a2 a3 a4 b1 b2 b3 b4 : Nat}

theorem Sq.swapA (q : Sq L P00 P10 P01 P11 cs00 cs10 cs01 cs11 a1 a2 a3 a4 b1 b2 b3 b4) :
    Sq L P00 P10 P01 P11 cs00 cs10 cs01 cs11 a3 a4 a1 a2 b1 b2 b3 b4 :=
  ⟨q.s00, q.s10, q.s01, q.s11, q.ga0.swap, q.ga1.swap, q.gb0, q.gb1, q.oa0, q.oa1, q.ob0, q.ob1⟩

theorem Sq.swapB (q : Sq L P00 P10 P01 P11 cs00 cs10 cs01 cs11 a1 a2 a3 a4 b1 b2 b3 b4) :
    Sq L P00 P10 P01 P11 cs00 cs10 cs01 cs11 a1 a2 a3 a4 b3 b4 b1 b2 :=
  ⟨q.s00, q.s10, q.s01, q.s11, q.ga0, q.ga1, q.gb0.swap, q.gb1.swap, q.oa0, q.oa1, q.ob0, q.ob1⟩

theorem Sq.flip (q : Sq L P00 P10 P01 P11 cs00 cs10 cs01 cs11 a1 a2 a3 a4 b1 b2 b3 b4) :
    Sq L P00 P01 P10 P11 cs00 cs01 cs10 cs11 b1 b2 b3 b4 a1 a2 a3 a4 :=
  ⟨q.s00, q.s01, q.s10, q.s11, q.gb0, q.gb1, q.ga0, q.ga1, q.ob0, q.ob1, q.oa0, q.oa1⟩

/-! ### a and b merge at 00 -/

theorem face_mm_disj (q : Sq L P00 P10 P01 P11 cs00 cs10 cs01 cs11 a1 a2 a3 a4 b1 b2 b3 b4)
    (ma0 : Mrg L P00 P10 cs00 cs10 a1 a3) (mb0 : Mrg L P00 P01 cs00 cs01 b1 b3)
    (n11 : N cs00 a1 ≠ N cs00 b1) (n13 : N cs00 a1 ≠ N cs00 b3) (n31 : N cs00 a3 ≠ N cs00 b1)
    (n33 : N cs00 a3 ≠ N cs00 b3) : Face cs00 cs10 cs01 cs11 := by
  have la1 := q.ga0.lp; have la3 := q.ga0.lr; have lb1 := q.gb0.lp; have lb3 := q.gb0.lr
  have F0 := ma0.pack q.s00 q.s10 la1 la3 la1 la3 lb1 lb3
  have G0 := mb0.pack q.s00 q.s01 lb1 lb3 la1 la3 lb1 lb3
  rcases edge_cases q.gb1 q.s10 q.s11 q.ob1 with mb1 | mb1'
  swap
  · exfalso
    have := (N_eq_iff q.s10 lb1 lb3).2 mb1'.co.pr
    grind
  rcases edge_cases q.ga1 q.s01 q.s11 q.oa1 with ma1 | ma1'
  swap
  · exfalso
    have := (N_eq_iff q.s01 la1 la3).2 ma1'.co.pr
    grind
  have F1 := ma1.pack q.s01 q.s11 la1 la3 la1 la3 lb1 lb3
  have G1 := mb1.pack q.s10 q.s11 lb1 lb3 la1 la3 lb1 lb3
  have e1 : N cs10 b1 = N cs00 b1 := by grind
  have e2 : N cs10 b3 = N cs00 b3 := by grind
  have e3 : N cs11 b1 = N cs01 b1 := by grind
  have e4 : N cs01 a1 = N cs00 a1 := by grind
  have e5 : N cs01 a3 = N cs00 a3 := by grind
  have e6 : N cs11 a1 = N cs10 a1 := by grind
  have ha0 := ma0.rel
  have hb0 := mb0.rel
  have hb1 := mb1.rel
  have ha1 := ma1.rel
  rw [e1, e2, e3] at hb1
  rw [e4, e5, e6] at ha1
  exact ⟨.merge (N cs00 a1) (N cs00 a3) (N cs10 a1), .merge (N cs00 b1) (N cs00 b3) (N cs01 b1),
    .merge (N cs00 b1) (N cs00 b3) (N cs01 b1), .merge (N cs00 a1) (N cs00 a3) (N cs10 a1), ha0, hb1, hb0, ha1,
    fun h t f f'' => face_disjoint h t cs00 cs10 cs01 cs11 (.merge (N cs00 a1) (N cs00 a3) (N cs10 a1))
      (.merge (N cs00 b1) (N cs00 b3) (N cs01 b1)) ha0 hb0 hb1 ha1 f f''⟩

theorem face_mm_31 (q : Sq L P00 P10 P01 P11 cs00 cs10 cs01 cs11 a1 a2 a3 a4 b1 b2 b3 b4)
    (ma0 : Mrg L P00 P10 cs00 cs10 a1 a3) (mb0 : Mrg L P00 P01 cs00 cs01 b1 b3)
    (c31 : N cs00 a3 = N cs00 b1) (n13 : N cs00 a1 ≠ N cs00 b3) : Face cs00 cs10 cs01 cs11 := by
  have la1 := q.ga0.lp; have la3 := q.ga0.lr; have lb1 := q.gb0.lp; have lb3 := q.gb0.lr
  have F0 := ma0.pack q.s00 q.s10 la1 la3 la1 la3 lb1 lb3
  have G0 := mb0.pack q.s00 q.s01 lb1 lb3 la1 la3 lb1 lb3
  rcases edge_cases q.gb1 q.s10 q.s11 q.ob1 with mb1 | mb1'
  swap
  · exfalso
    have := (N_eq_iff q.s10 lb1 lb3).2 mb1'.co.pr
    grind
  rcases edge_cases q.ga1 q.s01 q.s11 q.oa1 with ma1 | ma1'
  swap
  · exfalso
    have := (N_eq_iff q.s01 la1 la3).2 ma1'.co.pr
    grind
  have F1 := ma1.pack q.s01 q.s11 la1 la3 la1 la3 lb1 lb3
  have G1 := mb1.pack q.s10 q.s11 lb1 lb3 la1 la3 lb1 lb3
  have e1 : N cs10 b1 = N cs10 a1 := by grind
  have e2 : N cs10 b3 = N cs00 b3 := by grind
  have e3 : N cs01 a1 = N cs00 a1 := by grind
  have e4 : N cs01 a3 = N cs01 b1 := by grind
  have e5 : N cs11 a1 = N cs11 b1 := by grind
  have ha0 := ma0.rel
  have hb0 := mb0.rel
  have hb1 := mb1.rel
  have ha1 := ma1.rel
  rw [← c31] at hb0
  rw [e1, e2] at hb1
  rw [e3, e4, e5] at ha1
  exact ⟨.merge (N cs00 a1) (N cs00 a3) (N cs10 a1), .merge (N cs10 a1) (N cs00 b3) (N cs11 b1),
    .merge (N cs00 a3) (N cs00 b3) (N cs01 b1), .merge (N cs00 a1) (N cs01 b1) (N cs11 b1), ha0, hb1, hb0, ha1,
    fun h t f f'' => face_31 h t cs00 cs10 cs01 cs11 _ _ _ _ _ _ ha0 hb0 hb1 ha1 f f''⟩

theorem face_mm_same (q : Sq L P00 P10 P01 P11 cs00 cs10 cs01 cs11 a1 a2 a3 a4 b1 b2 b3 b4)
    (ma0 : Mrg L P00 P10 cs00 cs10 a1 a3) (mb0 : Mrg L P00 P01 cs00 cs01 b1 b3)
    (c11 : N cs00 a1 = N cs00 b1) (c33 : N cs00 a3 = N cs00 b3) : Face cs00 cs10 cs01 cs11 := by
  have la1 := q.ga0.lp; have la3 := q.ga0.lr; have lb1 := q.gb0.lp; have lb3 := q.gb0.lr
  have F0 := ma0.pack q.s00 q.s10 la1 la3 la1 la3 lb1 lb3
  have G0 := mb0.pack q.s00 q.s01 lb1 lb3 la1 la3 lb1 lb3
  rcases edge_cases q.gb1 q.s10 q.s11 q.ob1 with mb1 | mb1'
  · exfalso
    have := fun e => mb1.ne ((N_eq_iff q.s10 lb1 lb3).1 e)
    grind
  rcases edge_cases q.ga1 q.s01 q.s11 q.oa1 with ma1 | ma1'
  · exfalso
    have := fun e => ma1.ne ((N_eq_iff q.s01 la1 la3).1 e)
    grind
  have F1 := ma1'.pack q.s11 q.s01 la1 la3 la1 la3 lb1 lb3
  have G1 := mb1'.pack q.s11 q.s10 lb1 lb3 la1 la3 lb1 lb3
  -- the two intermediate relations coincide
  have same : ∀ x y, x ∈ L → y ∈ L → (N cs10 x = N cs10 y ↔ N cs01 x = N cs01 y) := by
    intro x y hx hy
    have i1 := ma0.iffN q.s00 q.s10 la1 la3 hx hy
    have i2 := mb0.iffN q.s00 q.s01 lb1 lb3 hx hy
    grind
  have cross : ∀ x, x ∈ L → N cs01 x = N cs10 x := by
    intro x hx
    apply N_cross q.s01 q.s10 hx hx
    intro y hy
    rw [← N_eq_iff q.s01 hx hy, ← N_eq_iff q.s10 hx hy]
    exact (same x y hx hy).symm
  have hmem : ∀ c, c ∈ cs10 ↔ c ∈ cs01 := by
    intro c
    constructor
    · intro hc
      obtain ⟨e, he, rfl⟩ := exists_N q.s10 hc
      rw [← cross e he]; exact N_mem q.s01 he
    · intro hc
      obtain ⟨e, he, rfl⟩ := exists_N q.s01 hc
      rw [cross e he]; exact N_mem q.s10 he
  have eP : N cs01 b1 = N cs10 a1 := by
    rw [cross b1 lb1]; grind
  have eG : N cs01 a1 = N cs10 b1 := by
    rw [cross a1 la1]; grind
  have hpair : (N cs11 a1 = N cs11 b1 ∧ N cs11 a3 = N cs11 b3) ∨ (N cs11 a1 = N cs11 b3 ∧ N cs11 a3 = N cs11 b1) := by
    grind
  have ha0 := ma0.rel
  have hb0 := mb0.rel
  have hb1 := mb1'.rel
  have ha1 := ma1'.rel
  rw [← c11, ← c33, eP] at hb0
  rw [eG] at ha1
  have ha1' : MergeRel cs11 cs01 (N cs11 b1) (N cs11 b3) (N cs10 b1) := by
    rcases hpair with ⟨h1, h2⟩ | ⟨h1, h2⟩
    · rw [h1, h2] at ha1; exact ha1
    · rw [h1, h2] at ha1; exact ha1.swap
  exact ⟨.merge (N cs00 a1) (N cs00 a3) (N cs10 a1), .split (N cs10 b1) (N cs11 b1) (N cs11 b3),
    .merge (N cs00 a1) (N cs00 a3) (N cs10 a1), .split (N cs10 b1) (N cs11 b1) (N cs11 b3), ha0, hb1, hb0, ha1',
    fun h t f f'' => face_same h t cs10 cs01 cs11 _ _ hmem f f''⟩

theorem face_mm (q : Sq L P00 P10 P01 P11 cs00 cs10 cs01 cs11 a1 a2 a3 a4 b1 b2 b3 b4)
    (ma0 : Mrg L P00 P10 cs00 cs10 a1 a3) (mb0 : Mrg L P00 P01 cs00 cs01 b1 b3) : Face cs00 cs10 cs01 cs11 := by
  have la1 := q.ga0.lp; have la3 := q.ga0.lr; have lb1 := q.gb0.lp; have lb3 := q.gb0.lr
  have na : N cs00 a1 ≠ N cs00 a3 := fun e => ma0.ne ((N_eq_iff q.s00 la1 la3).1 e)
  have nb : N cs00 b1 ≠ N cs00 b3 := fun e => mb0.ne ((N_eq_iff q.s00 lb1 lb3).1 e)
  have ma0' := ma0.swap q.s10 la1 la3
  have mb0' := mb0.swap q.s01 lb1 lb3
  by_cases c31 : N cs00 a3 = N cs00 b1
  · by_cases c13 : N cs00 a1 = N cs00 b3
    · exact face_mm_same q.swapB ma0 mb0' c13 c31
    · exact face_mm_31 q ma0 mb0 c31 c13
  · by_cases c11 : N cs00 a1 = N cs00 b1
    · by_cases c33 : N cs00 a3 = N cs00 b3
      · exact face_mm_same q ma0 mb0 c11 c33
      · exact face_mm_31 q.swapA ma0' mb0 c11 c33
    · by_cases c13 : N cs00 a1 = N cs00 b3
      · have c33 : N cs00 a3 ≠ N cs00 b3 := fun e => na (c13.trans e.symm)
        exact face_mm_31 q.swapA.swapB ma0' mb0' c13 c31
      · by_cases c33 : N cs00 a3 = N cs00 b3
        · exact face_mm_31 q.swapB ma0 mb0' c33 c11
        · exact face_mm_disj q ma0 mb0 c11 c13 c31 c33

/-! ### a and b split at 00 -/

theorem face_ss_disj (q : Sq L P00 P10 P01 P11 cs00 cs10 cs01 cs11 a1 a2 a3 a4 b1 b2 b3 b4)
    (ma0 : Mrg L P10 P00 cs10 cs00 a1 a3) (mb0 : Mrg L P01 P00 cs01 cs00 b1 b3)
    (hne : N cs00 a1 ≠ N cs00 b1) : Face cs00 cs10 cs01 cs11 := by
  have la1 := q.ga0.lp; have la3 := q.ga0.lr; have lb1 := q.gb0.lp; have lb3 := q.gb0.lr
  have F0 := ma0.pack q.s10 q.s00 la1 la3 la1 la3 lb1 lb3
  have G0 := mb0.pack q.s01 q.s00 lb1 lb3 la1 la3 lb1 lb3
  rcases edge_cases q.gb1 q.s10 q.s11 q.ob1 with mb1 | mb1'
  · exfalso
    have := fun e => mb1.ne ((N_eq_iff q.s10 lb1 lb3).1 e)
    grind
  rcases edge_cases q.ga1 q.s01 q.s11 q.oa1 with ma1 | ma1'
  · exfalso
    have := fun e => ma1.ne ((N_eq_iff q.s01 la1 la3).1 e)
    grind
  have F1 := ma1'.pack q.s11 q.s01 la1 la3 la1 la3 lb1 lb3
  have G1 := mb1'.pack q.s11 q.s10 lb1 lb3 la1 la3 lb1 lb3
  have e1 : N cs10 b1 = N cs00 b1 := by grind
  have e2 : N cs11 b1 = N cs01 b1 := by grind
  have e3 : N cs11 b3 = N cs01 b3 := by grind
  have e4 : N cs01 a1 = N cs00 a1 := by grind
  have e5 : N cs11 a1 = N cs10 a1 := by grind
  have e6 : N cs11 a3 = N cs10 a3 := by grind
  have ha0 := ma0.rel
  have hb0 := mb0.rel
  have hb1 := mb1'.rel
  have ha1 := ma1'.rel
  rw [e1, e2, e3] at hb1
  rw [e4, e5, e6] at ha1
  exact ⟨.split (N cs00 a1) (N cs10 a1) (N cs10 a3), .split (N cs00 b1) (N cs01 b1) (N cs01 b3),
    .split (N cs00 b1) (N cs01 b1) (N cs01 b3), .split (N cs00 a1) (N cs10 a1) (N cs10 a3), ha0, hb1, hb0, ha1,
    fun h t f f'' => face_disjoint h t cs00 cs10 cs01 cs11 (.split (N cs00 a1) (N cs10 a1) (N cs10 a3))
      (.split (N cs00 b1) (N cs01 b1) (N cs01 b3)) ha0 hb0 hb1 ha1 f f''⟩

theorem face_ss_11 (q : Sq L P00 P10 P01 P11 cs00 cs10 cs01 cs11 a1 a2 a3 a4 b1 b2 b3 b4)
    (ma0 : Mrg L P10 P00 cs10 cs00 a1 a3) (mb0 : Mrg L P01 P00 cs01 cs00 b1 b3)
    (hs : N cs00 a1 = N cs00 b1) (hnb : N cs10 b1 ≠ N cs10 b3) : Face cs00 cs10 cs01 cs11 := by
  have la1 := q.ga0.lp; have la3 := q.ga0.lr; have lb1 := q.gb0.lp; have lb3 := q.gb0.lr
  have F0 := ma0.pack q.s10 q.s00 la1 la3 la1 la3 lb1 lb3
  have G0 := mb0.pack q.s01 q.s00 lb1 lb3 la1 la3 lb1 lb3
  rcases edge_cases q.gb1 q.s10 q.s11 q.ob1 with mb1 | mb1'
  swap
  · exfalso
    exact hnb ((N_eq_iff q.s10 lb1 lb3).2 mb1'.co.pr)
  have G1 := mb1.pack q.s10 q.s11 lb1 lb3 la1 la3 lb1 lb3
  rcases edge_cases q.ga1 q.s01 q.s11 q.oa1 with ma1 | ma1'
  swap
  · exfalso
    have := fun e => ma1'.ne ((N_eq_iff q.s11 la1 la3).1 e)
    grind
  have F1 := ma1.pack q.s01 q.s11 la1 la3 la1 la3 lb1 lb3
  have hp1 : (N cs10 b1 = N cs10 a1 ∧ N cs10 b3 = N cs10 a3) ∨ (N cs10 b1 = N cs10 a3 ∧ N cs10 b3 = N cs10 a1) := by
    grind
  have hp2 : (N cs01 a1 = N cs01 b1 ∧ N cs01 a3 = N cs01 b3) ∨ (N cs01 a1 = N cs01 b3 ∧ N cs01 a3 = N cs01 b1) := by
    grind
  have e5 : N cs11 a1 = N cs11 b1 := by grind
  have ha0 := ma0.rel
  have hb0 := mb0.rel
  have hb1 := mb1.rel
  have ha1 := ma1.rel
  rw [← hs] at hb0
  rw [e5] at ha1
  have hb1' : MergeRel cs10 cs11 (N cs10 a1) (N cs10 a3) (N cs11 b1) := by
    rcases hp1 with ⟨h1, h2⟩ | ⟨h1, h2⟩
    · rw [h1, h2] at hb1; exact hb1
    · rw [h1, h2] at hb1; exact hb1.swap
  have ha1' : MergeRel cs01 cs11 (N cs01 b1) (N cs01 b3) (N cs11 b1) := by
    rcases hp2 with ⟨h1, h2⟩ | ⟨h1, h2⟩
    · rw [h1, h2] at ha1; exact ha1
    · rw [h1, h2] at ha1; exact ha1.swap
  exact ⟨.split (N cs00 a1) (N cs10 a1) (N cs10 a3), .merge (N cs10 a1) (N cs10 a3) (N cs11 b1),
    .split (N cs00 a1) (N cs01 b1) (N cs01 b3), .merge (N cs01 b1) (N cs01 b3) (N cs11 b1), ha0, hb1', hb0, ha1',
    fun h t f f'' => face_11 h t cs00 cs10 cs01 cs11 _ _ _ _ _ _ ha0 hb0 hb1' ha1' f f''⟩

theorem face_ss_13 (q : Sq L P00 P10 P01 P11 cs00 cs10 cs01 cs11 a1 a2 a3 a4 b1 b2 b3 b4)
    (ma0 : Mrg L P10 P00 cs10 cs00 a1 a3) (mb0 : Mrg L P01 P00 cs01 cs00 b1 b3)
    (hs : N cs00 a1 = N cs00 b1) (hb : N cs10 b1 = N cs10 b3) (h1 : N cs10 b1 = N cs10 a1)
    (h2 : N cs01 a1 = N cs01 b3) : Face cs00 cs10 cs01 cs11 := by
  have la1 := q.ga0.lp; have la3 := q.ga0.lr; have lb1 := q.gb0.lp; have lb3 := q.gb0.lr
  have F0 := ma0.pack q.s10 q.s00 la1 la3 la1 la3 lb1 lb3
  have G0 := mb0.pack q.s01 q.s00 lb1 lb3 la1 la3 lb1 lb3
  rcases edge_cases q.gb1 q.s10 q.s11 q.ob1 with mb1 | mb1'
  · exfalso
    exact mb1.ne ((N_eq_iff q.s10 lb1 lb3).1 hb)
  have G1 := mb1'.pack q.s11 q.s10 lb1 lb3 la1 la3 lb1 lb3
  rcases edge_cases q.ga1 q.s01 q.s11 q.oa1 with ma1 | ma1'
  · exfalso
    have := (N_eq_iff q.s11 la1 la3).2 ma1.co.pr
    grind
  have F1 := ma1'.pack q.s11 q.s01 la1 la3 la1 la3 lb1 lb3
  have e1 : N cs11 b1 = N cs01 b1 := by grind
  have e2 : N cs11 a3 = N cs10 a3 := by grind
  have e3 : N cs11 a1 = N cs11 b3 := by grind
  have ha0 := ma0.rel
  have hb0 := mb0.rel
  have hb1 := mb1'.rel
  have ha1 := ma1'.rel
  rw [← hs] at hb0
  rw [e1, h1] at hb1
  rw [e3, e2, h2] at ha1
  exact ⟨.split (N cs00 a1) (N cs10 a1) (N cs10 a3), .split (N cs10 a1) (N cs01 b1) (N cs11 b3),
    .split (N cs00 a1) (N cs01 b1) (N cs01 b3), .split (N cs01 b3) (N cs11 b3) (N cs10 a3), ha0, hb1, hb0, ha1,
    fun h t f f'' => face_13 h t cs00 cs10 cs01 cs11 _ _ _ _ _ _ ha0 hb0 hb1 ha1 f f''⟩

theorem face_ss (q : Sq L P00 P10 P01 P11 cs00 cs10 cs01 cs11 a1 a2 a3 a4 b1 b2 b3 b4)
    (ma0 : Mrg L P10 P00 cs10 cs00 a1 a3) (mb0 : Mrg L P01 P00 cs01 cs00 b1 b3) : Face cs00 cs10 cs01 cs11 := by
  have la1 := q.ga0.lp; have la3 := q.ga0.lr; have lb1 := q.gb0.lp; have lb3 := q.gb0.lr
  have F0 := ma0.pack q.s10 q.s00 la1 la3 la1 la3 lb1 lb3
  have G0 := mb0.pack q.s01 q.s00 lb1 lb3 la1 la3 lb1 lb3
  have ma0' := ma0.swap q.s00 la1 la3
  have mb0' := mb0.swap q.s00 lb1 lb3
  by_cases hs : N cs00 a1 = N cs00 b1
  · by_cases hb : N cs10 b1 = N cs10 b3
    · -- b splits one of the two pieces: which one, and in which piece of b's splitting do a's slots lie?
      have hA : N cs10 b1 = N cs10 a1 ∨ N cs10 b1 = N cs10 a3 := by grind
      have hB : N cs01 a1 = N cs01 b3 ∨ N cs01 a1 = N cs01 b1 := by grind
      have hB' : N cs01 a3 = N cs01 b3 ∨ N cs01 a3 = N cs01 b1 := by grind
      rcases hA with hA | hA
      · rcases hB with hB | hB
        · exact face_ss_13 q ma0 mb0 hs hb hA hB
        · exact face_ss_13 q.swapB ma0 mb0' (by grind) hb.symm (by grind) hB
      · rcases hB' with hB' | hB'
        · exact face_ss_13 q.swapA ma0' mb0 (by grind) hb hA hB'
        · exact face_ss_13 q.swapA.swapB ma0' mb0' (by grind) hb.symm (by grind) hB'
    · exact face_ss_11 q ma0 mb0 hs hb
  · exact face_ss_disj q ma0 mb0 hs

/-! ### a merges, b splits at 00 -/

theorem face_ms_disj (q : Sq L P00 P10 P01 P11 cs00 cs10 cs01 cs11 a1 a2 a3 a4 b1 b2 b3 b4)
    (ma0 : Mrg L P00 P10 cs00 cs10 a1 a3) (mb0 : Mrg L P01 P00 cs01 cs00 b1 b3)
    (n1 : N cs00 b1 ≠ N cs00 a1) (n3 : N cs00 b1 ≠ N cs00 a3) : Face cs00 cs10 cs01 cs11 := by
  have la1 := q.ga0.lp; have la3 := q.ga0.lr; have lb1 := q.gb0.lp; have lb3 := q.gb0.lr
  have F0 := ma0.pack q.s00 q.s10 la1 la3 la1 la3 lb1 lb3
  have G0 := mb0.pack q.s01 q.s00 lb1 lb3 la1 la3 lb1 lb3
  rcases edge_cases q.gb1 q.s10 q.s11 q.ob1 with mb1 | mb1'
  · exfalso
    have := fun e => mb1.ne ((N_eq_iff q.s10 lb1 lb3).1 e)
    grind
  rcases edge_cases q.ga1 q.s01 q.s11 q.oa1 with ma1 | ma1'
  swap
  · exfalso
    have := (N_eq_iff q.s01 la1 la3).2 ma1'.co.pr
    grind
  have F1 := ma1.pack q.s01 q.s11 la1 la3 la1 la3 lb1 lb3
  have G1 := mb1'.pack q.s11 q.s10 lb1 lb3 la1 la3 lb1 lb3
  have e1 : N cs10 b1 = N cs00 b1 := by grind
  have e2 : N cs11 b1 = N cs01 b1 := by grind
  have e3 : N cs11 b3 = N cs01 b3 := by grind
  have e4 : N cs01 a1 = N cs00 a1 := by grind
  have e5 : N cs01 a3 = N cs00 a3 := by grind
  have e6 : N cs11 a1 = N cs10 a1 := by grind
  have ha0 := ma0.rel
  have hb0 := mb0.rel
  have hb1 := mb1'.rel
  have ha1 := ma1.rel
  rw [e1, e2, e3] at hb1
  rw [e4, e5, e6] at ha1
  exact ⟨.merge (N cs00 a1) (N cs00 a3) (N cs10 a1), .split (N cs00 b1) (N cs01 b1) (N cs01 b3),
    .split (N cs00 b1) (N cs01 b1) (N cs01 b3), .merge (N cs00 a1) (N cs00 a3) (N cs10 a1), ha0, hb1, hb0, ha1,
    fun h t f f'' => face_disjoint h t cs00 cs10 cs01 cs11 (.merge (N cs00 a1) (N cs00 a3) (N cs10 a1))
      (.split (N cs00 b1) (N cs01 b1) (N cs01 b3)) ha0 hb0 hb1 ha1 f f''⟩

theorem face_ms_frob (q : Sq L P00 P10 P01 P11 cs00 cs10 cs01 cs11 a1 a2 a3 a4 b1 b2 b3 b4)
    (ma0 : Mrg L P00 P10 cs00 cs10 a1 a3) (mb0 : Mrg L P01 P00 cs01 cs00 b1 b3)
    (c : N cs00 b1 = N cs00 a1) (d : N cs01 a1 = N cs01 b1) : Face cs00 cs10 cs01 cs11 := by
  have la1 := q.ga0.lp; have la3 := q.ga0.lr; have lb1 := q.gb0.lp; have lb3 := q.gb0.lr
  have F0 := ma0.pack q.s00 q.s10 la1 la3 la1 la3 lb1 lb3
  have G0 := mb0.pack q.s01 q.s00 lb1 lb3 la1 la3 lb1 lb3
  rcases edge_cases q.gb1 q.s10 q.s11 q.ob1 with mb1 | mb1'
  · exfalso
    have := fun e => mb1.ne ((N_eq_iff q.s10 lb1 lb3).1 e)
    grind
  rcases edge_cases q.ga1 q.s01 q.s11 q.oa1 with ma1 | ma1'
  swap
  · exfalso
    have := (N_eq_iff q.s01 la1 la3).2 ma1'.co.pr
    grind
  have F1 := ma1.pack q.s01 q.s11 la1 la3 la1 la3 lb1 lb3
  have G1 := mb1'.pack q.s11 q.s10 lb1 lb3 la1 la3 lb1 lb3
  have e1 : N cs11 b1 = N cs11 a1 := by grind
  have e2 : N cs11 b3 = N cs01 b3 := by grind
  have e3 : N cs10 b1 = N cs10 a1 := by grind
  have e4 : N cs01 a3 = N cs00 a3 := by grind
  have ha0 := ma0.rel
  have hb0 := mb0.rel
  have hb1 := mb1'.rel
  have ha1 := ma1.rel
  rw [c] at hb0
  rw [e1, e2, e3] at hb1
  rw [d, e4] at ha1
  exact ⟨.merge (N cs00 a1) (N cs00 a3) (N cs10 a1), .split (N cs10 a1) (N cs11 a1) (N cs01 b3),
    .split (N cs00 a1) (N cs01 b1) (N cs01 b3), .merge (N cs01 b1) (N cs00 a3) (N cs11 a1), ha0, hb1, hb0, ha1,
    fun h t f f'' => face_frob h t cs00 cs10 cs01 cs11 _ _ _ _ _ _ ha0 hb0 hb1 ha1 f f''⟩

theorem face_ms (q : Sq L P00 P10 P01 P11 cs00 cs10 cs01 cs11 a1 a2 a3 a4 b1 b2 b3 b4)
    (ma0 : Mrg L P00 P10 cs00 cs10 a1 a3) (mb0 : Mrg L P01 P00 cs01 cs00 b1 b3) : Face cs00 cs10 cs01 cs11 := by
  have la1 := q.ga0.lp; have la3 := q.ga0.lr; have lb1 := q.gb0.lp; have lb3 := q.gb0.lr
  have F0 := ma0.pack q.s00 q.s10 la1 la3 la1 la3 lb1 lb3
  have G0 := mb0.pack q.s01 q.s00 lb1 lb3 la1 la3 lb1 lb3
  have ma0' := ma0.swap q.s10 la1 la3
  have mb0' := mb0.swap q.s00 lb1 lb3
  by_cases c1 : N cs00 b1 = N cs00 a1
  · have hd : N cs01 a1 = N cs01 b1 ∨ N cs01 a1 = N cs01 b3 := by grind
    rcases hd with hd | hd
    · exact face_ms_frob q ma0 mb0 c1 hd
    · exact face_ms_frob q.swapB ma0 mb0' (by grind) hd
  · by_cases c3 : N cs00 b1 = N cs00 a3
    · have hd : N cs01 a3 = N cs01 b1 ∨ N cs01 a3 = N cs01 b3 := by grind
      rcases hd with hd | hd
      · exact face_ms_frob q.swapA ma0' mb0 c3 hd
      · exact face_ms_frob q.swapA.swapB ma0' mb0' (by grind) hd
    · exact face_ms_disj q ma0 mb0 c1 c3

/-- EVERY FACE COMMUTES -/
theorem face_of_sq (q : Sq L P00 P10 P01 P11 cs00 cs10 cs01 cs11 a1 a2 a3 a4 b1 b2 b3 b4) :
    Face cs00 cs10 cs01 cs11 := by
  rcases edge_cases q.ga0 q.s00 q.s10 q.oa0 with ma0 | ma0 <;>
    rcases edge_cases q.gb0 q.s00 q.s01 q.ob0 with mb0 | mb0
  · exact face_mm q ma0 mb0
  · exact face_ms q ma0 mb0
  · exact (face_ms q.flip mb0 ma0).symm
  · exact face_ss q ma0 mb0

end sq

end Yuiv.C01Sq
