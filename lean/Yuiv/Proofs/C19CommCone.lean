import Yuiv.Proofs.C19CommMain
/-
C19Comm — the cone of `1 + τ` in the list representation of the driver (`Model/C19.khiHomology`: `dI`, targets with odd
coefficient, repeated targets cancel in pairs) and `D∘D = 0 (mod 2)` from `d∘d = 0 (mod 2)` and the chain-map property.
-/
namespace Yuiv.C19Comm
open Yuiv Yuiv.KhRef Yuiv.C19 Yuiv.C06Cycle Yuiv.C19Inv

/-- the differential of the reference complex over 𝔽₂ as `khiHomology` uses it: the targets of the terms with odd
coefficient (`[]` where `Cube.d` is undefined — `khiHomology` reports `malformed` then) -/
def dK (c : Cube) (p : Params) (g : Gen) : List Gen := oddSupp ((c.d p g).getD #[]).toList

/-- the cone differential of `khiHomology` (`dI` there): `D(Bx) = B dx + Qx + Qτx`, `D(Qx) = Q dx` -/
def dI (ic : ICube) (p : Params) : IGen → List IGen
  | (false, g) => (dK ic.cube p g).map (fun y => (false, y)) ++ [(true, g), (true, ic.tau g)]
  | (true, g) => (dK ic.cube p g).map (fun y => (true, y))

theorem dK_eq (c : Cube) (p : Params) (g : Gen) : dK c p g = oddSupp ((dList c p g).getD []) := by
  unfold dK
  rw [cube_d_list]
  cases dList c p g <;> rfl

/-- τ is a chain map over 𝔽₂ (list form, up to the order of the terms) -/
theorem dK_comm (F : Array Nat → Array Nat) (ic : ICube) (h : icubeWf' F ic = true) (p : Params) (g : Gen)
    (hs : g.s < 2 ^ ic.cube.n) : ((dK ic.cube p g).map ic.tau).Perm (dK ic.cube p (ic.tau g)) := by
  have := dList_comm F ic h p g hs
  rw [dK_eq, dK_eq]
  cases hd : dList ic.cube p g with
  | none =>
    rw [hd] at this
    simp only at this
    rw [this]
    exact List.Perm.refl _
  | some ts =>
    rw [hd] at this
    obtain ⟨ts', e, hp⟩ := this
    rw [e]
    exact hp

theorem count_map_pair (b b' : Bool) (z : Gen) (l : List Gen) :
    (l.map (fun y => (b', y))).count (b, z) = if b = b' then l.count z else 0 := by
  induction l with
  | nil => simp
  | cons a l ih =>
    rw [List.map_cons, List.count_cons, ih, List.count_cons]
    by_cases hb : b = b'
    · subst hb
      simp only [if_true]
      congr 1
      by_cases e : a = z
      · subst e; simp
      · have : ((b, a) == (b, z)) = false := by
          rw [beq_eq_false_iff_ne]; intro e'; exact e (Prod.mk.inj e').2
        have e2 : (a == z) = false := by rw [beq_eq_false_iff_ne]; exact e
        simp [this, e2]
    · have : ((b', a) == (b, z)) = false := by
        rw [beq_eq_false_iff_ne]; intro e'; exact hb (Prod.mk.inj e').1.symm
      simp [hb, this]

theorem count_B_part (ic : ICube) (p : Params) (b : Bool) (z : Gen) (l : List Gen) :
    ((l.map (fun y => ((false, y) : IGen))).flatMap (dI ic p)).count (b, z) =
      if b = false then (l.flatMap (dK ic.cube p)).count z else l.count z + (l.map ic.tau).count z := by
  induction l with
  | nil => simp
  | cons a l ih =>
    rw [List.map_cons, List.flatMap_cons, List.count_append, ih]
    simp only [dI, List.count_append, count_map_pair, List.flatMap_cons, List.map_cons, List.count_cons, List.count_nil]
    cases b
    · simp
    · have e1 : (((true, a) : IGen) == (true, z)) = (a == z) := by
        by_cases e : a = z
        · subst e; simp
        · have : (((true, a) : IGen) == (true, z)) = false := by
            rw [beq_eq_false_iff_ne]; intro e'; exact e (Prod.mk.inj e').2
          rw [this]; exact (beq_eq_false_iff_ne.2 e).symm
      have e2 : (((true, ic.tau a) : IGen) == (true, z)) = (ic.tau a == z) := by
        by_cases e : ic.tau a = z
        · rw [e]; simp
        · have : (((true, ic.tau a) : IGen) == (true, z)) = false := by
            rw [beq_eq_false_iff_ne]; intro e'; exact e (Prod.mk.inj e').2
          rw [this]; exact (beq_eq_false_iff_ne.2 e).symm
      simp only [e1, e2, Bool.true_eq_false, if_false, Nat.zero_add]
      omega

theorem count_Q_part (ic : ICube) (p : Params) (b : Bool) (z : Gen) (l : List Gen) :
    ((l.map (fun y => ((true, y) : IGen))).flatMap (dI ic p)).count (b, z) =
      if b = true then (l.flatMap (dK ic.cube p)).count z else 0 := by
  induction l with
  | nil => simp
  | cons a l ih =>
    rw [List.map_cons, List.flatMap_cons, List.count_append, ih]
    simp only [dI, count_map_pair, List.flatMap_cons, List.count_append]
    cases b <;> simp

/-- `D∘D = 0 (mod 2)` for the cone of `1 + τ`, from `d∘d = 0 (mod 2)` at `g` and the chain-map property at `g` -/
theorem cone_sq_even (ic : ICube) (p : Params) (g : Gen)
    (hd : ∀ z, ((dK ic.cube p g).flatMap (dK ic.cube p)).count z % 2 = 0)
    (hτ : ((dK ic.cube p g).map ic.tau).Perm (dK ic.cube p (ic.tau g))) (b : Bool) (z : IGen) :
    (((dI ic p (b, g)).flatMap (dI ic p)).count z) % 2 = 0 := by
  obtain ⟨bz, z⟩ := z
  cases b
  · simp only [dI, List.flatMap_append, List.count_append, count_B_part, List.flatMap_cons, List.flatMap_nil,
      List.append_nil, count_map_pair]
    cases bz
    · simp only [if_true, Bool.false_eq_true, if_false]
      have := hd z
      omega
    · simp only [Bool.true_eq_false, if_false, if_true]
      rw [hτ.count_eq z]
      omega
  · simp only [dI, count_Q_part]
    cases bz
    · simp
    · simp only [if_true]
      exact hd z

end Yuiv.C19Comm
