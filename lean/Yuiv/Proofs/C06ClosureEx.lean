import Yuiv.Proofs.C06Closure
/-
C06Closure — example diagrams for the non-vacuity `example`s of `Props/C06Closure.lean`: the closures of `σ₁³` (trefoil),
`σ₁⁻²` (Hopf link, two components) and `σ₁σ₂⁻¹σ₁σ₂⁻¹` (figure eight), and the value of `KhRef.edgeLabels` on them
(`Array.qsort` does not reduce in the kernel; it is evaluated by unfolding its equations with `simp`).
-/
open private Array.qsort.sort from Init.Data.Array.QSort.Basic
open private Array.qpartition.loop from Init.Data.Array.QSort.Basic
namespace Yuiv.C06Closure
open Yuiv Yuiv.KhRef Yuiv.C04Inv Yuiv.C18Bridge

def trefoilB : C18.Link := [⟨.X, 0, 2, 3, 1⟩, ⟨.X, 2, 4, 5, 3⟩, ⟨.X, 4, 0, 1, 5⟩]
def hopfB : C18.Link := [⟨.X, 1, 0, 2, 3⟩, ⟨.X, 3, 2, 0, 1⟩]
def fig8B : C18.Link := [⟨.X, 0, 3, 4, 1⟩, ⟨.X, 2, 4, 5, 6⟩, ⟨.X, 3, 0, 8, 5⟩, ⟨.X, 6, 8, 1, 2⟩]

theorem closure_trefoilB : C18.closure 2 [1, 1, 1] = .ok trefoilB := by decide +kernel
theorem closure_hopfB : C18.closure 2 [-1, -1] = .ok hopfB := by decide +kernel
theorem closure_fig8B : C18.closure 3 [1, -2, 1, -2] = .ok fig8B := by decide +kernel

theorem qsortT : (#[0, 2, 3, 1, 4, 5] : Array Nat).qsort (· < ·) = #[0, 1, 2, 3, 4, 5] := by
  simp [Array.qsort, Array.qsort.sort, Array.qpartition, Array.qpartition.loop]

theorem qsortH : (#[1, 0, 2, 3] : Array Nat).qsort (· < ·) = #[0, 1, 2, 3] := by
  simp [Array.qsort, Array.qsort.sort, Array.qpartition, Array.qpartition.loop]

theorem qsortF : (#[0, 3, 4, 1, 2, 5, 6, 8] : Array Nat).qsort (· < ·) = #[0, 1, 2, 3, 4, 5, 6, 8] := by
  simp [Array.qsort, Array.qsort.sort, Array.qpartition, Array.qpartition.loop]

theorem edgeLabels_trefoilB : edgeLabels (toKh trefoilB) = #[0, 1, 2, 3, 4, 5] := by
  rw [edgeLabels_eq, show preLabels (toKh trefoilB) = #[0, 2, 3, 1, 4, 5] by decide +kernel, qsortT]

theorem edgeLabels_hopfB : edgeLabels (toKh hopfB) = #[0, 1, 2, 3] := by
  rw [edgeLabels_eq, show preLabels (toKh hopfB) = #[1, 0, 2, 3] by decide +kernel, qsortH]

theorem edgeLabels_fig8B : edgeLabels (toKh fig8B) = #[0, 1, 2, 3, 4, 5, 6, 8] := by
  rw [edgeLabels_eq, show preLabels (toKh fig8B) = #[0, 3, 4, 1, 2, 5, 6, 8] by decide +kernel, qsortF]

end Yuiv.C06Closure
