import Yuiv.Proofs.C06Closure
/-
C06Closure — the converse of `pos_of_conn`: in the orientation preserving state of a braid closure all labels of ONE
strand position lie on ONE circle (helper; property theorems in `Props/C06Closure.lean`).

This needs the order of the crossings along a strand, which `C18.BForm` does not expose; so the fold of `closureStep` is
followed once more with the invariant `Chain`: before the final renaming, every label created so far is joined — by the
arcs (entering label at a position, leaving label at the same position) of the crossings created so far — to the
CURRENT bottom label of its position.  The final renaming `connRename bottom` sends the bottom label of position `k` to
`k`, so every label of the closure is joined to the label `posLab e` itself.
-/
namespace Yuiv.C06Closure
open Yuiv Yuiv.KhRef Yuiv.C04Inv Yuiv.C06Cycle Yuiv.C06Canon
open Yuiv.C18 (closure BForm posLab bX closureStep closurePD connRename hasFreeLoop RInv CInv rawX PD)
open Yuiv.C18Bridge (toKh crossingKh)

/-- arcs (before the final renaming) of the orientation preserving state at the crossings of the prefix `u`:
the entering label `tops[2j]`, `tops[2j+1]` with the leaving label `n + 2j (+1)` of the same position -/
def prePairs (n : Nat) (u : List Int) (tops : List Nat) : List (Nat × Nat) :=
  (List.range u.length).flatMap (fun j =>
    if u.getD j 0 > 0 then [(tops.getD (2 * j) 0, n + 2 * j), (tops.getD (2 * j + 1) 0, n + 2 * j + 1)]
    else [(tops.getD (2 * j) 0, n + 2 * j + 1), (tops.getD (2 * j + 1) 0, n + 2 * j)])

theorem mem_prePairs (n : Nat) (u : List Int) (tops : List Nat) (p : Nat × Nat) :
    p ∈ prePairs n u tops ↔ ∃ j, j < u.length ∧
      p ∈ (if u.getD j 0 > 0 then [(tops.getD (2 * j) 0, n + 2 * j), (tops.getD (2 * j + 1) 0, n + 2 * j + 1)]
        else [(tops.getD (2 * j) 0, n + 2 * j + 1), (tops.getD (2 * j + 1) 0, n + 2 * j)]) := by
  unfold prePairs
  simp only [List.mem_flatMap, List.mem_range]

/-- every label created so far has a position below the width, and is joined to the current bottom label there -/
def Chain (n : Nat) (u : List Int) (tops : List Nat) (count : Nat) (bottom : List Nat) : Prop :=
  ∀ e, e < count → posLab n u e < bottom.length ∧
    Conn (prePairs n u tops) e (bottom.getD (posLab n u e) 0)

theorem chain_init (n : Nat) : Chain n [] [] n (List.range n) := by
  intro e he
  have hp : posLab n [] e = e := by unfold posLab; rw [if_pos he]
  rw [hp]
  refine ⟨by simpa using he, ?_⟩
  have : (List.range n).getD e 0 = e := by
    simp [List.getD_eq_getElem?_getD, List.getElem?_range he]
  rw [this]
  exact Conn.refl e

theorem prePairs_mono (n : Nat) (u : List Int) (tops : List Nat) (s : Int) (t0 t1 : Nat)
    (htl : tops.length = 2 * u.length) (p : Nat × Nat) (hp : p ∈ prePairs n u tops) :
    p ∈ prePairs n (u ++ [s]) (tops ++ [t0, t1]) := by
  rw [mem_prePairs] at hp ⊢
  obtain ⟨j, hj, h⟩ := hp
  refine ⟨j, by simp; omega, ?_⟩
  rw [C18.br_getD_app_left _ _ _ _ hj, C18.br_getD_app_left _ _ _ _ (by omega),
    C18.br_getD_app_left _ _ _ _ (by omega)]
  exact h

theorem prePairs_new (n : Nat) (u : List Int) (tops : List Nat) (s : Int) (t0 t1 : Nat)
    (htl : tops.length = 2 * u.length) (p : Nat × Nat)
    (hp : p ∈ (if s > 0 then [(t0, n + 2 * u.length), (t1, n + 2 * u.length + 1)]
      else [(t0, n + 2 * u.length + 1), (t1, n + 2 * u.length)])) :
    p ∈ prePairs n (u ++ [s]) (tops ++ [t0, t1]) := by
  rw [mem_prePairs]
  refine ⟨u.length, by simp, ?_⟩
  rw [C18.br_getD_app_right _ _ _ _ (Nat.le_refl _), C18.br_getD_app_right _ _ _ _ (by omega),
    C18.br_getD_app_right _ _ _ _ (by omega)]
  have e0 : 2 * u.length - tops.length = 0 := by omega
  have e1 : 2 * u.length + 1 - tops.length = 1 := by omega
  rw [Nat.sub_self, e0, e1]
  exact hp

theorem getD_set2 (bottom : List Nat) (g c d k : Nat) :
    ((bottom.set g c).set (g + 1) d).getD k 0 =
      if k = g + 1 ∧ k < bottom.length then d else if k = g ∧ k < bottom.length then c else bottom.getD k 0 := by
  simp only [List.getD_eq_getElem?_getD]
  by_cases h1 : k = g + 1
  · subst h1
    by_cases h2 : g + 1 < bottom.length
    · rw [if_pos ⟨rfl, h2⟩, List.getElem?_set_self (by simpa using h2)]; rfl
    · rw [if_neg (fun h => h2 h.2), if_neg (fun h => h2 h.2), List.getElem?_eq_none (by simp; omega),
        List.getElem?_eq_none (by omega)]
  · rw [if_neg (fun h => h1 h.1), List.getElem?_set_ne (by omega)]
    by_cases h0 : k = g
    · subst h0
      by_cases h2 : k < bottom.length
      · rw [if_pos ⟨rfl, h2⟩, List.getElem?_set_self h2]; rfl
      · rw [if_neg (fun h => h2 h.2), List.getElem?_eq_none (by simp; omega), List.getElem?_eq_none (by omega)]
    · rw [if_neg (fun h => h0 h.1), List.getElem?_set_ne (by omega)]

/-- one letter -/
theorem chain_step (n : Nat) (u : List Int) (tops : List Nat) (count : Nat) (bottom : List Nat) (s : Int)
    (a b t0 t1 : Nat) (hcnt : count = n + 2 * u.length) (htl : tops.length = 2 * u.length)
    (hg : s.natAbs - 1 + 1 < bottom.length) (ha : bottom[s.natAbs - 1]'(by omega) = a)
    (hb : bottom[s.natAbs - 1 + 1] = b)
    (ht : (s > 0 ∧ t0 = a ∧ t1 = b) ∨ (¬ s > 0 ∧ t0 = b ∧ t1 = a))
    (hC : Chain n u tops count bottom) :
    Chain n (u ++ [s]) (tops ++ [t0, t1]) (count + 2)
      ((bottom.set (s.natAbs - 1) count).set (s.natAbs - 1 + 1) (count + 1)) := by
  have hga : bottom.getD (s.natAbs - 1) 0 = a := by rw [C18.br_getD_of_lt _ _ _ (by omega)]; exact ha
  have hgb : bottom.getD (s.natAbs - 1 + 1) 0 = b := by rw [C18.br_getD_of_lt _ _ _ hg]; exact hb
  -- the two new arcs
  have hpa : (a, count) ∈ prePairs n (u ++ [s]) (tops ++ [t0, t1]) := by
    apply prePairs_new n u tops s t0 t1 htl
    rcases ht with ⟨hs, rfl, rfl⟩ | ⟨hs, rfl, rfl⟩
    · rw [if_pos hs, hcnt]; simp
    · rw [if_neg hs, hcnt]; simp
  have hpb : (b, count + 1) ∈ prePairs n (u ++ [s]) (tops ++ [t0, t1]) := by
    apply prePairs_new n u tops s t0 t1 htl
    rcases ht with ⟨hs, rfl, rfl⟩ | ⟨hs, rfl, rfl⟩
    · rw [if_pos hs, hcnt]; simp
    · rw [if_neg hs, hcnt]; simp
  intro e he
  rw [List.length_set, List.length_set, getD_set2]
  by_cases hold : e < count
  · have hpe : posLab n (u ++ [s]) e = posLab n u e := C18.posLab_append n u [s] e (by omega)
    rw [hpe]
    obtain ⟨h1, h2⟩ := hC e hold
    refine ⟨h1, ?_⟩
    have h2' : Conn (prePairs n (u ++ [s]) (tops ++ [t0, t1])) e (bottom.getD (posLab n u e) 0) :=
      h2.mono (fun p hp => prePairs_mono n u tops s t0 t1 htl p hp)
    by_cases k1 : posLab n u e = s.natAbs - 1 + 1
    · rw [if_pos ⟨k1, by omega⟩]
      rw [k1, hgb] at h2'
      exact h2'.trans (Conn.of_mem hpb)
    · rw [if_neg (fun h => k1 h.1)]
      by_cases k0 : posLab n u e = s.natAbs - 1
      · rw [if_pos ⟨k0, by omega⟩]
        rw [k0, hga] at h2'
        exact h2'.trans (Conn.of_mem hpa)
      · rw [if_neg (fun h => k0 h.1)]
        exact h2'
  · have hcases : count = e ∨ count + 1 = e := by omega
    rcases hcases with rfl | rfl
    · have hp : posLab n (u ++ [s]) count = s.natAbs - 1 := by
        have := C18.posLab_new n u s [] 0 (by omega)
        rw [hcnt]; simpa using this
      rw [hp]
      refine ⟨by omega, ?_⟩
      rw [if_neg (by omega), if_pos ⟨rfl, by omega⟩]
      exact Conn.refl _
    · have hp : posLab n (u ++ [s]) (count + 1) = s.natAbs - 1 + 1 := by
        have := C18.posLab_new n u s [] 1 (by omega)
        rw [hcnt]; exact this
      rw [hp]
      refine ⟨hg, ?_⟩
      rw [if_pos ⟨rfl, hg⟩]
      exact Conn.refl _

/-- `rinv_step` with the chain invariant -/
theorem rchain_step (n : Nat) (u : List Int) (tops : List Nat) (st st' : Nat × List Nat × PD) (s : Int)
    (hI : RInv n u tops st) (hC : Chain n u tops st.1 st.2.1) (h : closureStep st s = .ok st') :
    ∃ t0 t1, RInv n (u ++ [s]) (tops ++ [t0, t1]) st' ∧ Chain n (u ++ [s]) (tops ++ [t0, t1]) st'.1 st'.2.1 := by
  have hC' := C18.cinv_step n st st' s hI.cinv h
  obtain ⟨a, b, hs0, ha, hb, rfl⟩ := C18.closureStep_ok h
  obtain ⟨count, bottom, pd⟩ := st
  simp only at ha hb hC' hC ⊢
  have hi : s.natAbs - 1 < bottom.length := by
    rcases Nat.lt_or_ge (s.natAbs - 1) bottom.length with h | h
    · exact h
    · rw [List.getElem?_eq_none h] at ha; cases ha
  have hi1 : s.natAbs - 1 + 1 < bottom.length := by
    rcases Nat.lt_or_ge (s.natAbs - 1 + 1) bottom.length with h | h
    · exact h
    · rw [List.getElem?_eq_none h] at hb; cases hb
  have ha' : bottom[s.natAbs - 1] = a := by
    rw [List.getElem?_eq_getElem hi] at ha; exact Option.some.inj ha
  have hb' : bottom[s.natAbs - 1 + 1] = b := by
    rw [List.getElem?_eq_getElem hi1] at hb; exact Option.some.inj hb
  have hcnt : count = n + 2 * u.length := hI.cnt
  have htl := hI.tlen
  by_cases hs : s > 0
  · refine ⟨a, b, ?_, chain_step n u tops count bottom s a b a b hcnt htl hi1 ha' hb' (Or.inl ⟨hs, rfl, rfl⟩) hC⟩
    have hx : (if s > 0 then (a, count, count + 1, b) else (b, a, count, count + 1)) = rawX s a b count := by
      unfold rawX; rw [if_pos hs, if_pos hs]
    rw [hx] at hC' ⊢
    exact C18.rinv_step_core n u tops count bottom pd s a b _ _ hI hC' hs0 hi hi1 ha' hb'
      (Or.inl ⟨hs, rfl, rfl⟩)
  · refine ⟨b, a, ?_, chain_step n u tops count bottom s a b b a hcnt htl hi1 ha' hb' (Or.inr ⟨hs, rfl, rfl⟩) hC⟩
    have hx : (if s > 0 then (a, count, count + 1, b) else (b, a, count, count + 1)) = rawX s b a count := by
      unfold rawX; rw [if_neg hs, if_neg hs]
    rw [hx] at hC' ⊢
    exact C18.rinv_step_core n u tops count bottom pd s b a _ _ hI hC' hs0 hi1 hi hb' ha'
      (Or.inr ⟨hs, rfl, rfl⟩)

theorem rchain_foldl (n : Nat) (v : List Int) : ∀ (u : List Int) (tops : List Nat)
    (st st' : Nat × List Nat × PD), RInv n u tops st → Chain n u tops st.1 st.2.1 →
    v.foldlM closureStep st = .ok st' →
    ∃ tops', RInv n (u ++ v) tops' st' ∧ Chain n (u ++ v) tops' st'.1 st'.2.1 := by
  induction v with
  | nil =>
    intro u tops st st' hI hC h
    simp only [List.foldlM_nil, pure] at h; cases h
    exact ⟨tops, by rw [List.append_nil]; exact ⟨hI, hC⟩⟩
  | cons s v ih =>
    intro u tops st st' hI hC h
    simp only [List.foldlM_cons] at h
    cases hs : closureStep st s with
    | panic => rw [hs] at h; cases h
    | err => rw [hs] at h; cases h
    | ok st1 =>
      rw [hs] at h
      obtain ⟨t0, t1, hI1, hC1⟩ := rchain_step n u tops st st1 s hI hC hs
      obtain ⟨tops', hI', hC'⟩ := ih (u ++ [s]) _ st1 st' hI1 hC1 h
      refine ⟨tops', ?_⟩
      rw [List.append_assoc] at hI' hC'
      exact ⟨hI', hC'⟩

/-- the final renaming: from the invariants to the closed-up strands -/
theorem strands_of_rinv (n : Nat) (w : List Int) (tops : List Nat) (count : Nat) (bottom : List Nat) (pdr : PD)
    (L : C18.Link) (hI : RInv n w tops (count, bottom, pdr)) (hC : Chain n w tops count bottom)
    (hfl : hasFreeLoop bottom = false)
    (hB : BForm n w L tops ((List.range' n (2 * w.length)).map (connRename bottom))) :
    (∀ m, m < 2 * w.length →
        (posLab n w (tops.getD m 0) < n ∧
          Conn (statePairs (toKh L) (braidState w)) (tops.getD m 0) (posLab n w (tops.getD m 0))) ∧
        (posLab n w (((List.range' n (2 * w.length)).map (connRename bottom)).getD m 0) < n ∧
          Conn (statePairs (toKh L) (braidState w)) (((List.range' n (2 * w.length)).map (connRename bottom)).getD m 0)
            (posLab n w (((List.range' n (2 * w.length)).map (connRename bottom)).getD m 0)))) ∧
      ∀ k, k < n → ∃ m, m < 2 * w.length ∧ ((List.range' n (2 * w.length)).map (connRename bottom)).getD m 0 = k := by
  obtain ⟨hCI, hcnt, htl, htn, htf, hpl, hsh, hpb⟩ := hI
  simp only at hcnt htf hpl hsh hpb
  have hne := C18.hasFreeLoop_false bottom hfl
  have hlen : bottom.length = n := hCI.len
  have hbn : bottom.Nodup := C18.br_cinv_bottom_nodup hCI
  have hge : ∀ x ∈ bottom, n ≤ x := by
    intro x hx
    obtain ⟨k, hk, rfl⟩ := List.getElem_of_mem hx
    rcases hCI.own k hk with h | h
    · exact absurd h (hne k hk)
    · exact h
  have hblt : ∀ e ∈ bottom, e < count := C18.br_cinv_bottom_lt hCI
  -- the renaming
  have hpos : ∀ x, posLab n w (connRename bottom x) = posLab n w x := by
    intro x
    by_cases hx : x ∈ bottom
    · obtain ⟨h1, h2⟩ := C18.br_connRename_mem bottom x hx
      rw [h1]
      have := hpb _ h2
      rw [List.getElem_idxOf h2] at this
      rw [this]; unfold posLab; rw [if_pos (by omega)]
    · rw [C18.br_connRename_nmem bottom x hx]
  have hfb : ∀ k, k < n → connRename bottom (bottom.getD k 0) = k := by
    intro k hk
    have hk' : k < bottom.length := by omega
    rw [C18.br_getD_of_lt _ _ _ hk']
    rw [(C18.br_connRename_mem bottom _ (List.getElem_mem hk')).1]
    exact hbn.idxOf_getElem k hk'
  have hout : ∀ k, k < 2 * w.length →
      ((List.range' n (2 * w.length)).map (connRename bottom)).getD k 0 = connRename bottom (n + k) := by
    intro k hk
    simp only [List.getD_eq_getElem?_getD, List.getElem?_map, List.getElem?_range' hk, Nat.one_mul,
      Option.map_some, Option.getD_some]
  have hin : ∀ k, k < 2 * w.length → connRename bottom (tops.getD k 0) = tops.getD k 0 := by
    intro k hk
    have m0 : tops.getD k 0 ∈ tops := by
      rw [C18.br_getD_of_lt _ _ _ (by omega)]; exact List.getElem_mem _
    exact C18.br_connRename_nmem bottom _ (htf _ m0).1
  have hinlt : ∀ k, k < 2 * w.length → tops.getD k 0 < count := by
    intro k hk
    have m0 : tops.getD k 0 ∈ tops := by
      rw [C18.br_getD_of_lt _ _ _ (by omega)]; exact List.getElem_mem _
    exact (htf _ m0).2
  -- arcs before the renaming are arcs after it
  have hmap : ∀ x y, Conn (prePairs n w tops) x y →
      Conn (statePairs (toKh L) (braidState w)) (connRename bottom x) (connRename bottom y) := by
    intro x y c
    induction c with
    | refl x => exact Conn.refl _
    | symm x y _ ih => exact ih.symm
    | trans x y z _ _ ih1 ih2 => exact ih1.trans ih2
    | rel x y hr =>
      have hr' : (x, y) ∈ prePairs n w tops := hr
      rw [mem_prePairs] at hr'
      obtain ⟨j, hj, hm⟩ := hr'
      have o0 := hout (2 * j) (by omega)
      have o1 := hout (2 * j + 1) (by omega)
      have i0 := hin (2 * j) (by omega)
      have i1 := hin (2 * j + 1) (by omega)
      by_cases hs : w.getD j 0 > 0
      · rw [if_pos hs] at hm
        simp only [List.mem_cons, Prod.mk.injEq, List.not_mem_nil, or_false] at hm
        rcases hm with ⟨rfl, rfl⟩ | ⟨rfl, rfl⟩
        · rw [i0, ← o0]
          exact Conn.of_mem ((statePairs_closure hB _).2 ⟨j, hj, Or.inl (by rw [if_pos hs])⟩)
        · rw [i1, Nat.add_assoc, ← o1]
          exact (Conn.of_mem ((statePairs_closure hB _).2 ⟨j, hj, Or.inr (by rw [if_pos hs])⟩)).symm
      · rw [if_neg hs] at hm
        simp only [List.mem_cons, Prod.mk.injEq, List.not_mem_nil, or_false] at hm
        rcases hm with ⟨rfl, rfl⟩ | ⟨rfl, rfl⟩
        · rw [i0, Nat.add_assoc, ← o1]
          exact Conn.of_mem ((statePairs_closure hB _).2 ⟨j, hj, Or.inl (by rw [if_neg hs])⟩)
        · rw [i1, ← o0]
          exact Conn.of_mem ((statePairs_closure hB _).2 ⟨j, hj, Or.inr (by rw [if_neg hs])⟩)
  -- every label `e < count`, renamed
  have hall : ∀ e, e < count → posLab n w (connRename bottom e) < n ∧
      Conn (statePairs (toKh L) (braidState w)) (connRename bottom e) (posLab n w (connRename bottom e)) := by
    intro e he
    obtain ⟨h1, h2⟩ := hC e he
    rw [hpos]
    refine ⟨by omega, ?_⟩
    have := hmap _ _ h2
    rw [hfb _ (by omega)] at this
    exact this
  refine ⟨fun m hm => ⟨?_, ?_⟩, ?_⟩
  · have := hall _ (hinlt m hm)
    rw [hin m hm] at this
    exact this
  · rw [hout m hm]
    exact hall _ (by omega)
  · intro k hk
    have hk' : k < bottom.length := by omega
    have hb1 := hge _ (List.getElem_mem hk')
    have hb2 := hblt _ (List.getElem_mem hk')
    refine ⟨bottom[k] - n, by omega, ?_⟩
    rw [hout _ (by omega)]
    have : n + (bottom[k] - n) = bottom[k] := by omega
    rw [this, ← C18.br_getD_of_lt bottom k 0 hk']
    exact hfb k hk

/-- **the strands close up**: normal form of the closure together with, for every label `x` occurring as an entering
or leaving label, `posLab x < n` and `x` joined (in the orientation preserving state) to the label `posLab x`; every
`k < n` is itself a (leaving) label, of position `k` -/
theorem closure_strands (n : Nat) (w : List Int) (l : C18.Link) (h : closure n w = .ok l) :
    ∃ ins outs, BForm n w l ins outs ∧
      (∀ m, m < 2 * w.length →
        (posLab n w (ins.getD m 0) < n ∧
          Conn (statePairs (toKh l) (braidState w)) (ins.getD m 0) (posLab n w (ins.getD m 0))) ∧
        (posLab n w (outs.getD m 0) < n ∧
          Conn (statePairs (toKh l) (braidState w)) (outs.getD m 0) (posLab n w (outs.getD m 0)))) ∧
      ∀ k, k < n → ∃ m, m < 2 * w.length ∧ outs.getD m 0 = k := by
  unfold closure at h
  cases hp : closurePD n w with
  | panic => rw [hp] at h; cases h
  | err => rw [hp] at h; cases h
  | ok pd =>
    rw [hp] at h
    simp only [bind, Res.bind, pure] at h
    cases h
    unfold closurePD at hp
    cases hf : w.foldlM closureStep (n, List.range n, []) with
    | panic => rw [hf] at hp; cases hp
    | err => rw [hf] at hp; cases hp
    | ok st =>
      rw [hf] at hp
      simp only [bind, Res.bind] at hp
      obtain ⟨tops, hI, hC⟩ := rchain_foldl n w [] [] _ st (C18.rinv_init n) (chain_init n) hf
      rw [List.nil_append] at hI hC
      cases hfl : hasFreeLoop st.2.1 with
      | true => rw [hfl] at hp; simp at hp
      | false =>
        rw [hfl] at hp
        simp only [Bool.false_eq_true, if_false, pure] at hp
        cases hp
        have hB := C18.bform_of_rinv n w tops st hI hfl
        obtain ⟨count, bottom, pdr⟩ := st
        exact ⟨_, _, hB, strands_of_rinv n w tops count bottom pdr _ hI hC hfl hB⟩

/-- the labels of the translated closure are the entering and leaving labels -/
theorem mem_labels_closure {n : Nat} {w : List Int} {l : C18.Link} {ins outs : List Nat}
    (hB : BForm n w l ins outs) (x : Nat) :
    x ∈ edgeLabels (toKh l) ↔ ∃ m, m < 2 * w.length ∧ (x = ins.getD m 0 ∨ x = outs.getD m 0) := by
  rw [mem_edgeLabels]
  constructor
  · rintro ⟨c, hc, hx⟩
    obtain ⟨j, hj, rfl⟩ := mem_toKh_closure hB c hc
    have hx' : x ∈ (crossingKh (bX (w.getD j 0) (ins.getD (2 * j) 0) (ins.getD (2 * j + 1) 0) (outs.getD (2 * j) 0)
      (outs.getD (2 * j + 1) 0))).e.toList := by simpa using hx
    by_cases hs : w.getD j 0 > 0
    · rw [bX, if_pos hs] at hx'
      simp only [crossingKh, List.mem_cons, List.not_mem_nil, or_false] at hx'
      rcases hx' with rfl | rfl | rfl | rfl
      · exact ⟨2 * j, by omega, Or.inl rfl⟩
      · exact ⟨2 * j, by omega, Or.inr rfl⟩
      · exact ⟨2 * j + 1, by omega, Or.inr rfl⟩
      · exact ⟨2 * j + 1, by omega, Or.inl rfl⟩
    · rw [bX, if_neg hs] at hx'
      simp only [crossingKh, List.mem_cons, List.not_mem_nil, or_false] at hx'
      rcases hx' with rfl | rfl | rfl | rfl
      · exact ⟨2 * j, by omega, Or.inl rfl⟩
      · exact ⟨2 * j + 1, by omega, Or.inl rfl⟩
      · exact ⟨2 * j, by omega, Or.inr rfl⟩
      · exact ⟨2 * j + 1, by omega, Or.inr rfl⟩
  · rintro ⟨m, hm, hx⟩
    obtain ⟨j, hj, hm2⟩ : ∃ j, j < w.length ∧ (m = 2 * j ∨ m = 2 * j + 1) := ⟨m / 2, by omega, by omega⟩
    have hc : crossingKh (bX (w.getD j 0) (ins.getD (2 * j) 0) (ins.getD (2 * j + 1) 0)
        (outs.getD (2 * j) 0) (outs.getD (2 * j + 1) 0)) ∈ toKh l := by
      have := toKh_getElem? l j
      rw [(hB.cr _ hj).2] at this
      exact Array.mem_toList_iff.1 (List.mem_of_getElem? this)
    refine ⟨_, hc, ?_⟩
    rw [← Array.mem_toList_iff]
    by_cases hs : w.getD j 0 > 0
    · rw [bX, if_pos hs]
      simp only [crossingKh, List.mem_cons, List.not_mem_nil, or_false]
      rcases hm2 with rfl | rfl <;> rcases hx with h | h <;> rw [h] <;> simp
    · rw [bX, if_neg hs]
      simp only [crossingKh, List.mem_cons, List.not_mem_nil, or_false]
      rcases hm2 with rfl | rfl <;> rcases hx with h | h <;> rw [h] <;> simp

/-- **each strand position carries exactly one circle**: the arc relation of the orientation preserving state,
restricted to the labels of the closure, is "same strand position"; the positions are exactly `0, …, n−1`, and `k < n` is
itself the label of position `k` -/
theorem conn_iff_pos (n : Nat) (w : List Int) (l : C18.Link) (h : closure n w = .ok l) :
    (∀ x ∈ edgeLabels (toKh l), ∀ y ∈ edgeLabels (toKh l),
      (Conn (statePairs (toKh l) (braidState w)) x y ↔ posLab n w x = posLab n w y)) ∧
    (∀ x ∈ edgeLabels (toKh l), posLab n w x < n) ∧
    (∀ k, k < n → k ∈ edgeLabels (toKh l) ∧ posLab n w k = k) := by
  obtain ⟨ins, outs, hB, hS, hK⟩ := closure_strands n w l h
  have key : ∀ x ∈ edgeLabels (toKh l), posLab n w x < n ∧
      Conn (statePairs (toKh l) (braidState w)) x (posLab n w x) := by
    intro x hx
    obtain ⟨m, hm, rfl | rfl⟩ := (mem_labels_closure hB x).1 hx
    · exact (hS m hm).1
    · exact (hS m hm).2
  refine ⟨fun x hx y hy => ⟨pos_of_conn hB, fun e => ?_⟩, fun x hx => (key x hx).1, fun k hk => ?_⟩
  · have := (key y hy).2
    rw [← e] at this
    exact (key x hx).2.trans this.symm
  · obtain ⟨m, hm, e⟩ := hK k hk
    refine ⟨(mem_labels_closure hB k).2 ⟨m, hm, Or.inr e.symm⟩, ?_⟩
    unfold posLab; rw [if_pos hk]

/-- the circles of the orientation preserving state of a braid closure with `n` strands: exactly `n`, one per strand
position, each consisting of ALL labels of its position -/
theorem circles_are_strands (n : Nat) (w : List Int) (l : C18.Link) (h : closure n w = .ok l) :
    (circles (toKh l) (edgeLabels (toKh l)) (braidState w)).size = n ∧
    (∀ i, i < (circles (toKh l) (edgeLabels (toKh l)) (braidState w)).size →
      ∀ x ∈ (circles (toKh l) (edgeLabels (toKh l)) (braidState w))[i]!, ∀ y,
        y ∈ (circles (toKh l) (edgeLabels (toKh l)) (braidState w))[i]! ↔
          y ∈ edgeLabels (toKh l) ∧ posLab n w y = posLab n w x) ∧
    (∀ k, k < n → ∃ i, i < (circles (toKh l) (edgeLabels (toKh l)) (braidState w)).size ∧
      k ∈ (circles (toKh l) (edgeLabels (toKh l)) (braidState w))[i]!) := by
  obtain ⟨hc, hlt, hk⟩ := conn_iff_pos n w l h
  have hv := validK_toKh l (C18.closure_valid' n w l h)
  have spec := circles_spec (toKh l) (wf_of_validK _ hv) (braidState w)
  generalize circles (toKh l) (edgeLabels (toKh l)) (braidState w) = cs at spec
  have h0 : ∀ i, i < cs.size → (cs[i]!)[0]! ∈ cs[i]! := by
    intro i hi
    obtain ⟨x, hx⟩ := spec.nonempty hi
    have hpos : 0 < (cs[i]!).size := by
      rcases Nat.eq_zero_or_pos (cs[i]!).size with h | h
      · rw [Array.size_eq_zero_iff.1 h] at hx; simp at hx
      · exact h
    rw [getElem!_pos (cs[i]!) 0 hpos]; exact Array.getElem_mem hpos
  have hmem : ∀ i, i < cs.size → ∀ x ∈ cs[i]!, ∀ y,
      y ∈ cs[i]! ↔ y ∈ edgeLabels (toKh l) ∧ posLab n w y = posLab n w x := by
    intro i hi x hx y
    rw [spec.mem_iff hi hx y]
    constructor
    · rintro ⟨hy, c⟩
      exact ⟨hy, ((hc x (spec.mem_labels hi hx) y hy).1 c).symm⟩
    · rintro ⟨hy, e⟩
      exact ⟨hy, (hc x (spec.mem_labels hi hx) y hy).2 e.symm⟩
  have hcov : ∀ k, k < n → ∃ i, i < cs.size ∧ k ∈ cs[i]! := fun k hk' => spec.cover k (hk k hk').1
  refine ⟨?_, hmem, hcov⟩
  -- count: `i ↦ position of circle i` is a bijection onto `{0, …, n−1}`
  have hperm : ((List.range cs.size).map (fun i => posLab n w ((cs[i]!)[0]!))).Perm (List.range n) := by
    rw [List.perm_ext_iff_of_nodup _ List.nodup_range]
    · intro k
      simp only [List.mem_map, List.mem_range]
      constructor
      · rintro ⟨i, hi, rfl⟩
        exact hlt _ (spec.mem_labels hi (h0 i hi))
      · intro hk'
        obtain ⟨i, hi, hm⟩ := hcov k hk'
        refine ⟨i, hi, ?_⟩
        have := ((hmem i hi _ (h0 i hi) k).1 hm).2
        rw [← this]; exact (hk k hk').2
    · rw [List.nodup_map_iff_inj_on List.nodup_range]
      intro i hi j hj e
      simp only [List.mem_range] at hi hj
      exact spec.sep i j hi hj _ _ (h0 i hi) (h0 j hj)
        ((hc _ (spec.mem_labels hi (h0 i hi)) _ (spec.mem_labels hj (h0 j hj))).2 e)
  have := hperm.length_eq
  simpa using this

end Yuiv.C06Closure
