import Yuiv.Proofs.SnfUniqueRank
import Yuiv.Props.C09Euc
/-
Uniqueness of the Smith normal form over a FIELD — definitions and lemmas (property theorems: `Props/SnfUniqueField.lean`).

Over a field `K` every non-zero element is a unit, so a divisibility chain `d_0 ∣ d_1 ∣ …` only says "zeros come last",
and a normalised non-zero entry is one fixed constant `c` (`c = 1` for the library's `normalizing_unit = a⁻¹`).  Hence the
Smith diagonal is `c^r 0^(k-r)` with `r = Matrix.rank`, which is invariant under `A ↦ U·A·V`.

Second part: bridge to the C09 framework (`LawfulEuc e φ` with `φ : α → K`, `K` a field): `IsSnfOfE e φ A T` is the
conclusion of `C09.snf_total_correct_euc` about the final target `T`.
-/
namespace Yuiv.SnfField
open Matrix Finset

variable {K : Type} [Field K] {m n : ℕ}

/-- the `k`-th diagonal entry, `0` outside the matrix -/
def dgK (D : Matrix (Fin m) (Fin n) K) (k : ℕ) : K :=
  if h : k < m ∧ k < n then D ⟨k, h.1⟩ ⟨k, h.2⟩ else 0

/-- all entries off the main diagonal vanish -/
def IsDiagK (D : Matrix (Fin m) (Fin n) K) : Prop := ∀ (i : Fin m) (j : Fin n), i.1 ≠ j.1 → D i j = 0

theorem dgK_out (D : Matrix (Fin m) (Fin n) K) (k : ℕ) (h : min m n ≤ k) : dgK D k = 0 := by
  unfold dgK
  rw [dif_neg (by omega)]

theorem dgK_apply (D : Matrix (Fin m) (Fin n) K) (i : Fin m) (j : Fin n) (hij : i.1 = j.1) : D i j = dgK D i.1 := by
  unfold dgK
  rw [dif_pos ⟨i.2, hij ▸ j.2⟩]
  congr 1
  exact Fin.ext hij.symm

/-- a diagonal matrix is determined by its diagonal -/
theorem eq_of_dgK_eq (D D' : Matrix (Fin m) (Fin n) K) (hD : IsDiagK D) (hD' : IsDiagK D')
    (h : ∀ k, dgK D k = dgK D' k) : D = D' := by
  ext i j
  by_cases hij : i.1 = j.1
  · rw [dgK_apply D i j hij, dgK_apply D' i j hij, h]
  · rw [hD i j hij, hD' i j hij]

/-- the rank of a rectangular diagonal matrix (non-zero entries ANYWHERE on the diagonal) is the number of its non-zero
diagonal entries -/
theorem rank_diagK [DecidableEq K] (D : Matrix (Fin m) (Fin n) K) (hD : IsDiagK D) :
    D.rank = #{k ∈ range (min m n) | dgK D k ≠ 0} := by
  apply le_antisymm
  · have hsub : Function.support D.row ⊆ ↑(Finset.univ.filter fun i : Fin m => dgK D i.1 ≠ 0) := by
      intro i hi
      simp only [Finset.coe_filter, Finset.mem_univ, true_and, Set.mem_ofPred_eq]
      intro h0
      apply hi
      funext j
      by_cases hij : i.1 = j.1
      · simp [Matrix.row, dgK_apply D i j hij, h0]
      · simp [Matrix.row, hD i j hij]
    refine (rank_le_card_of_support_subset D _ hsub).trans ?_
    apply Finset.card_le_card_of_injOn Fin.val _ Fin.val_injective.injOn
    intro i hi
    simp only [Finset.coe_filter, Finset.mem_univ, true_and, Set.mem_ofPred_eq] at hi
    simp only [Finset.coe_filter, mem_range, Set.mem_ofPred_eq]
    refine ⟨?_, hi⟩
    by_contra hlt
    exact hi (dgK_out D i.1 (by omega))
  · let r : {k // k ∈ (range (min m n)).filter (fun k => dgK D k ≠ 0)} → Fin m := fun s =>
      ⟨s.1, by have := mem_range.1 (mem_filter.1 s.2).1; omega⟩
    let c : {k // k ∈ (range (min m n)).filter (fun k => dgK D k ≠ 0)} → Fin n := fun s =>
      ⟨s.1, by have := mem_range.1 (mem_filter.1 s.2).1; omega⟩
    have hsub : D.submatrix r c = diagonal (fun s => dgK D s.1) := by
      ext a b
      simp only [submatrix_apply, diagonal_apply]
      by_cases hab : a = b
      · subst hab
        rw [if_pos rfl]
        exact dgK_apply D _ _ rfl
      · rw [if_neg hab]
        exact hD _ _ (fun h => hab (Subtype.ext h))
    have := rank_submatrix_le D r c
    rw [hsub, rank_of_det_ne_zero (by
      rw [det_diagonal]; exact Finset.prod_ne_zero_iff.2 (fun s _ => (mem_filter.1 s.2).2))] at this
    simpa using this

/-- over a field a divisibility chain says exactly: a zero is followed by a zero -/
theorem chain_iff_zeros_last (d : ℕ → K) : (∀ k, d k ∣ d (k + 1)) ↔ ∀ k, d k = 0 → d (k + 1) = 0 := by
  constructor
  · intro h k h0
    have := h k
    rw [h0] at this
    exact zero_dvd_iff.1 this
  · intro h k
    by_cases h0 : d k = 0
    · rw [h0, h k h0]
    · exact (IsUnit.mk0 _ h0).dvd

/-- a Smith diagonal over a field with normalised non-zero entries equal to the constant `c`
(`c = 1` for `normalizing_unit a = a⁻¹`): off-diagonal zero, `d_k ∣ d_{k+1}`, `d_k ≠ 0 → d_k = c` -/
structure IsSmithK (c : K) (D : Matrix (Fin m) (Fin n) K) : Prop where
  diag : IsDiagK D
  chain : ∀ k, dgK D k ∣ dgK D (k + 1)
  norm : ∀ k, dgK D k ≠ 0 → dgK D k = c

/-- the chain and the normalisation force the shape `c^r 0^…` with `r = rank D` -/
theorem smithK_dg (c : K) (D : Matrix (Fin m) (Fin n) K) (h : IsSmithK c D) (k : ℕ) :
    dgK D k = if k < D.rank then c else 0 := by
  classical
  obtain ⟨r, hr, hk⟩ := SnfUnique.initial_segment (fun k => dgK D k ≠ 0)
    (fun k h1 h0 => h1 ((chain_iff_zeros_last _).1 h.chain k h0)) (min m n)
  have hrank : D.rank = r := by
    rw [rank_diagK D h.diag]
    exact SnfUnique.card_filter_initial _ _ r hr hk
  rw [hrank]
  by_cases hkm : k < min m n
  · by_cases hkr : k < r
    · rw [if_pos hkr]
      exact h.norm k ((hk k hkm).2 hkr)
    · rw [if_neg hkr]
      exact not_not.1 (fun h1 => hkr ((hk k hkm).1 h1))
  · rw [dgK_out D k (by omega), if_neg (by omega)]

theorem rank_equiv (A : Matrix (Fin m) (Fin n) K) (U : Matrix (Fin m) (Fin m) K) (V : Matrix (Fin n) (Fin n) K)
    (hU : IsUnit U.det) (hV : IsUnit V.det) : (U * A * V).rank = A.rank := by
  rw [rank_mul_eq_left_of_isUnit_det _ _ hV, rank_mul_eq_right_of_isUnit_det _ _ hU]

theorem rank_le_min (A : Matrix (Fin m) (Fin n) K) : A.rank ≤ min m n := by
  have h1 := A.rank_le_height
  have h2 := A.rank_le_width
  omega

/-- the list form of `c^r 0^(N-r)` -/
theorem map_ite_eq_replicate (c : K) (r N : ℕ) (hr : r ≤ N) :
    (List.range N).map (fun k => if k < r then c else 0) = List.replicate r c ++ List.replicate (N - r) 0 := by
  apply List.ext_getElem
  · simp; omega
  · intro k h1 h2
    simp only [List.getElem_map, List.getElem_range]
    by_cases hk : k < r
    · rw [if_pos hk, List.getElem_append_left (by simpa using hk), List.getElem_replicate]
    · rw [if_neg hk, List.getElem_append_right (by simpa using hk), List.getElem_replicate]

end Yuiv.SnfField

namespace Yuiv.C09
open Yuiv Matrix Yuiv.SnfField

variable {α K : Type} [Field K] {e : EOps α} {φ : α → K} {m n : Nat}

/-- `T` is a Smith normal form of `A` for the operation record `e` read through `φ`, witnessed by `P, P⁻¹, Q, Q⁻¹`:
literally the conclusion of `snf_total_correct_euc` / `snf_correct_euc` about the final state `(t, p, pinv, q, qinv)` -/
def SnfWitnessE (e : EOps α) (φ : α → K) (A T : Mat α m n) (P Pi : Mat α m m) (Q Qi : Mat α n n) : Prop :=
  (toM φ P * toM φ A * toM φ Q = toM φ T ∧ toM φ P * toM φ Pi = 1 ∧ toM φ Q * toM φ Qi = 1) ∧
    (∀ (i : Fin m) (j : Fin n), i.1 ≠ j.1 → φ (T.get i j) = 0) ∧
    ShapeSpec (NormalisedIn e φ) ((diagL T).map φ)

/-- `T` is a Smith normal form of `A` (for some invertible transforms) -/
def IsSnfOfE (e : EOps α) (φ : α → K) (A T : Mat α m n) : Prop := ∃ P Pi Q Qi, SnfWitnessE e φ A T P Pi Q Qi

/-- the normalised associate of `1`: the only non-zero normalised element of a field -/
def normOne (e : EOps α) (φ : α → K) : K := φ (e.mul e.one (e.normUnit e.one))

theorem normOne_ne_zero (L : LawfulEuc e φ) : normOne e φ ≠ 0 := by
  unfold normOne
  rw [L.phi_mul, L.phi_one, one_mul]
  exact L.normUnit_ne_zero _

/-- over a field a non-zero normalised element is the constant `normOne` -/
theorem normalised_eq_normOne (L : LawfulEuc e φ) (x : K) (hx : x ≠ 0) (hn : NormalisedIn e φ x) :
    x = normOne e φ := by
  obtain ⟨a, rfl, hn⟩ := hn
  exact L.norm_unique a _ hn (L.norm_mul e.one) (IsUnit.mk0 _ hx).dvd (IsUnit.mk0 _ (normOne_ne_zero L)).dvd

omit [Field K] in
theorem diagL_map_length (T : Mat α m n) : ((diagL T).map φ).length = min m n := by simp [diagL]

theorem diagL_map_getElem (T : Mat α m n) (k : Nat) (h : k < ((diagL T).map φ).length) :
    ((diagL T).map φ)[k] = dgK (toM φ T) k := by
  have hk : k < min m n := by simpa [diagL] using h
  simp only [diagL, List.getElem_map, List.getElem_ofFn, dgK, toM_apply]
  rw [dif_pos ⟨by omega, by omega⟩]

theorem diagL_map_eq (T : Mat α m n) : (diagL T).map φ = (List.range (min m n)).map (dgK (toM φ T)) := by
  apply List.ext_getElem
  · simp [diagL]
  · intro k h1 h2
    rw [diagL_map_getElem]
    simp

/-- the framework's shape predicate gives a field Smith diagonal with constant `normOne` -/
theorem isSmithK_of_shape (L : LawfulEuc e φ) (T : Mat α m n)
    (hd : ∀ (i : Fin m) (j : Fin n), i.1 ≠ j.1 → φ (T.get i j) = 0)
    (hs : ShapeSpec (NormalisedIn e φ) ((diagL T).map φ)) : IsSmithK (normOne e φ) (toM φ T) := by
  obtain ⟨r, hr, hnz, hz, _⟩ := hs
  have hlen := diagL_map_length (φ := φ) T
  have hzero : ∀ k, r ≤ k → dgK (toM φ T) k = 0 := by
    intro k hk
    by_cases hkm : k < min m n
    · have := hz k (by omega) hk
      rwa [diagL_map_getElem] at this
    · exact dgK_out _ k (by omega)
  have hnon : ∀ k, k < r → dgK (toM φ T) k ≠ 0 ∧ NormalisedIn e φ (dgK (toM φ T) k) := by
    intro k hk
    have := hnz k (by omega) hk
    rwa [diagL_map_getElem] at this
  refine ⟨fun i j hij => hd i j hij, (chain_iff_zeros_last _).2 ?_, ?_⟩
  · intro k h0
    apply hzero
    by_contra hlt
    exact (hnon k (by omega)).1 h0
  · intro k h0
    have hk : k < r := by
      by_contra hlt
      exact h0 (hzero k (by omega))
    exact normalised_eq_normOne L _ h0 (hnon k hk).2

theorem SnfWitnessE.isSmithK (L : LawfulEuc e φ) {A T : Mat α m n} {P Pi : Mat α m m} {Q Qi : Mat α n n}
    (h : SnfWitnessE e φ A T P Pi Q Qi) : IsSmithK (normOne e φ) (toM φ T) :=
  isSmithK_of_shape L T h.2.1 h.2.2

theorem SnfWitnessE.rank_eq {A T : Mat α m n} {P Pi : Mat α m m} {Q Qi : Mat α n n}
    (h : SnfWitnessE e φ A T P Pi Q Qi) : (toM φ T).rank = (toM φ A).rank := by
  rw [← h.1.1]
  exact rank_equiv _ _ _ (Matrix.isUnit_det_of_right_inverse h.1.2.1) (Matrix.isUnit_det_of_right_inverse h.1.2.2)

/-- the diagonal of every Smith form of `A` over a field is `c^r 0^…`, `r = rank A`, `c = normOne` -/
theorem dgK_of_isSnfOfE (L : LawfulEuc e φ) (A T : Mat α m n) (h : IsSnfOfE e φ A T) (k : Nat) :
    dgK (toM φ T) k = if k < (toM φ A).rank then normOne e φ else 0 := by
  obtain ⟨P, Pi, Q, Qi, w⟩ := h
  rw [smithK_dg _ _ (w.isSmithK L), w.rank_eq]

theorem diagL_of_isSnfOfE (L : LawfulEuc e φ) (A T : Mat α m n) (h : IsSnfOfE e φ A T) :
    (diagL T).map φ = List.replicate (toM φ A).rank (normOne e φ) ++
      List.replicate (min m n - (toM φ A).rank) 0 := by
  rw [diagL_map_eq, ← map_ite_eq_replicate _ _ _ (rank_le_min _)]
  exact List.map_congr_left fun k _ => dgK_of_isSnfOfE L A T h k

/-! ### the constant is `1` for the two field records of the model -/

theorem normOne_rat : normOne ratOps (id : Rat → Rat) = 1 := by
  simp [normOne, ratOps]

theorem normOne_fp (p : Nat) [Fact p.Prime] : normOne (fpOps p) (fun a : Nat => (a : ZMod p)) = 1 := by
  have L := lawfulEuc_fp p
  have h1 : ((fpOps p).one : ZMod p) = 1 := L.phi_one
  have hne : (((fpOps p).one : Nat) : ZMod p) ≠ 0 := by rw [h1]; exact one_ne_zero
  have hm := L.phi_mul (fpOps p).one ((fpOps p).normUnit (fpOps p).one)
  beta_reduce at hm
  show (((fpOps p).mul (fpOps p).one ((fpOps p).normUnit (fpOps p).one) : Nat) : ZMod p) = 1
  rw [hm, h1, one_mul, fp_normUnit,
    if_neg (by rw [beq_iff_eq]; exact fun h0 => hne ((fp_cast_eq_zero p _).2 h0)), fpInv_cast p _ hne, h1, inv_one]

end Yuiv.C09
