import Yuiv.Proofs.C04InvUF
import Yuiv.Proofs.C06Canon
import Yuiv.Drv.C06
/-
C06Cycle — shared definitions for the lift of the local cycle lemma (`Props/C06Canon.canon_is_cycle_local`) to the
cube reference: `KhRef.Cube.d` applied to the canonical chain is zero (`Props/C06Cycle.lean`).

  * `CirclesSpec`   : what `KhRef.circles` returns, in terms of the arc relation `C04Inv.Conn (statePairs l s)`;
  * `goneOf`, `bornOf`, `carry`, `edgeTerms`, `dRaw`, `baseKeep` : loop-free functional form of `KhRef.Cube.d`;
  * `termSum`, `chainSum` : coefficient of a target generator in `d z`, the meaning of the driver's `dOfChain`;
  * `validK`        : every crossing has four slots and every edge label occurs in exactly two slots;
  * `circleIdx`, `bicoloured` : the per-instance hypothesis H — every unresolved crossing touches exactly two circles
    of the state and these carry different colours.
-/
namespace Yuiv.C06Cycle
open Yuiv Yuiv.KhRef Yuiv.C06Canon

/-! ### circles -/

/-- what `KhRef.circles l labels s` returns for a well-formed link: every circle is the sub-list of `labels`
(in the order of `labels`) cut out by the class of one of its labels under the arc relation `P`; different circles
are different classes; every label lies on a circle. -/
structure CirclesSpec (labels : Array Nat) (P : List (Nat × Nat)) (cs : Array (Array Nat)) : Prop where
  rep : ∀ i, i < cs.size → ∃ x, x ∈ labels ∧ ∃ p : Nat → Bool,
    (cs[i]!).toList = labels.toList.filter p ∧ ∀ y, y ∈ labels → (p y = true ↔ C04Inv.Conn P x y)
  sep : ∀ i j, i < cs.size → j < cs.size → ∀ x y, x ∈ cs[i]! → y ∈ cs[j]! → C04Inv.Conn P x y → i = j
  cover : ∀ x, x ∈ labels → ∃ i, i < cs.size ∧ x ∈ cs[i]!

/-! ### functional form of `Cube.d` -/

/-- indices of the circles of `cs` that are not circles of `cs'` -/
def goneOf (cs cs' : Array (Array Nat)) : Array Nat :=
  (Array.range cs.size).filter (fun i => !cs'.contains cs[i]!)

/-- indices of the circles of `cs'` that are not circles of `cs` -/
def bornOf (cs cs' : Array (Array Nat)) : Array Nat :=
  (Array.range cs'.size).filter (fun i => !cs.contains cs'[i]!)

/-- the labels carried over on the common circles (`m0` of `Cube.d`) -/
def carry (cs cs' : Array (Array Nat)) (mask : Nat) : Nat :=
  (List.range cs.size).foldl (fun m0 i =>
    if cs'.contains cs[i]! then setBit m0 ((cs'.findIdx? (· == cs[i]!)).getD 0) (mask.testBit i) else m0) 0

/-- the terms contributed by the cube edge that flips bit `k` (`none`: neither a merge nor a split) -/
def edgeTerms (c : Cube) (p : Params) (g : Gen) (k : Nat) : Option (List Term) :=
  let cs := c.circ[g.s]!
  let s' := g.s ||| (1 <<< k)
  let cs' := c.circ[s']!
  let sign : Int := edgeSign g.s k
  let gone := goneOf cs cs'
  let born := bornOf cs cs'
  let m0 := carry cs cs' g.mask
  if gone.size == 2 && born.size == 1 then
    some ((prod p.h p.t (g.mask.testBit gone[0]!) (g.mask.testBit gone[1]!)).filterMap (fun (ya : Bool × Int) =>
      if ya.2 != 0 then some ((⟨s', setBit m0 born[0]! ya.1⟩ : Gen), sign * ya.2) else none))
  else if gone.size == 1 && born.size == 2 then
    some ((coprod p.h p.t (g.mask.testBit gone[0]!)).filterMap (fun (yya : Bool × Bool × Int) =>
      if yya.2.2 != 0 then
        some ((⟨s', setBit (setBit m0 born[0]! yya.1) born[1]! yya.2.1⟩ : Gen), sign * yya.2.2) else none))
  else none

/-- `Cube.d` before the base-point filter -/
def dRaw (c : Cube) (p : Params) (g : Gen) : Option (List Term) :=
  (List.range c.n).foldlM (fun out k =>
    if g.s.testBit k then some out else (edgeTerms c p g k).map (fun ts => out ++ ts)) []

/-- the filter of the reduced theory (always `true` for `c.base = none`, since then `baseCircle = none`) -/
def baseKeep (c : Cube) (y : Gen) : Bool :=
  match c.baseCircle y.s with
  | some b => y.mask.testBit b
  | none => true

/-! ### coefficients of `d z` -/

/-- coefficient of the target generator `y` in a list of terms -/
def termSum (y : Gen) (ts : List Term) : Int := ((ts.filter (fun t => t.1 == y)).map (fun t => t.2)).sum

/-- coefficient of `y` in `d z` when `d g = D g` -/
def chainSum (D : Gen → List Term) (z : Chain) (y : Gen) : Int :=
  (z.map (fun ga => ga.2 * termSum y (D ga.1))).sum

/-! ### validity and the hypothesis H -/

/-- all slot labels, crossing by crossing -/
def slotLabels (l : Link) : List Nat := l.toList.flatMap (fun c => c.e.toList)

/-- every crossing has four slots and every edge label occurs in exactly two slots (planar-diagram code of a link
diagram without free ends) -/
def validK (l : Link) : Bool :=
  l.all (fun c => c.e.size == 4) && (slotLabels l).all (fun x => (slotLabels l).count x == 2)

/-- index of the first circle containing the label `e` (`cs.size` if there is none) -/
def circleIdx (cs : Array (Array Nat)) (e : Nat) : Nat := (cs.findIdx? (fun c => c.contains e)).getD cs.size

/-- H: every unresolved crossing touches (with its four labels) circles of `cs` only, at least two different ones,
and any two different circles it touches have different colours (with two colours: it touches exactly two circles and
they are coloured differently).  `cols` = colours in the order of `cs`. -/
def bicoloured (l : Link) (cs : Array (Array Nat)) (cols : List Colour) : Bool :=
  l.all (fun x => x.ct.isResolved ||
    (let idx := x.e.toList.map (circleIdx cs)
     idx.all (fun i => i < cs.size) &&
     idx.any (fun i => idx.any (fun j => i != j)) &&
     idx.all (fun i => idx.all (fun j => i == j || cols.getD i .a != cols.getD j .a))))

end Yuiv.C06Cycle
