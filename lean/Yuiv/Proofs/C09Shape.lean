import Yuiv.Proofs.C09Inv
/-
C09 — loop exit conditions of the code model (towards `snf_shape`): `eliminate_at` returns only with the pivot's
row and column cleared; the `'outer` loop of `diag_normalize` returns only with the divisibility chain.
-/
namespace Yuiv.C09
open Yuiv
variable {α : Type} {e : EOps α} {m n : Nat}

/-- `diag_normalize_step` answers `true` only when it leaves the state alone and `x | y` -/
theorem diagNormalizeStep_true (dbg : Bool) (s : St α m n) (i : Nat) (hm : i + 1 < m) (hn : i + 1 < n)
    (s' : St α m n) (h : diagNormalizeStep e dbg s i hm hn = .ok (s', true)) :
    s' = s ∧ e.dvd (s.t.get ⟨i, Nat.lt_of_succ_lt hm⟩ ⟨i, Nat.lt_of_succ_lt hn⟩) (s.t.get ⟨i + 1, hm⟩ ⟨i + 1, hn⟩) = true := by
  unfold diagNormalizeStep at h
  simp only at h
  split at h
  · cases h
  · split at h
    · rename_i hd
      injection h with h; injection h with h1 h2
      exact ⟨h1.symm, hd⟩
    · split at h
      · injection h with h; injection h with h1 h2; cases h2
      · split at h
        · split at h
          · injection h with h; injection h with h1 h2; cases h2
          · cases h
          · cases h
        · cases h
        · cases h

/-- exit condition of the `'outer` loop of `diag_normalize`: a pass that goes through (`break`) has not
modified the state, and every adjacent pair of the first `r` diagonal entries satisfies `divides` -/
theorem diagPass_true (dbg : Bool) (r : Nat) : ∀ (cnt i : Nat) (s s' : St α m n),
    diagPass e dbg r cnt i s = .ok (s', true) →
    s' = s ∧ ∀ k, i ≤ k → k < i + cnt → ∀ (hk : k + 1 < r ∧ k + 1 < m ∧ k + 1 < n),
      e.dvd (s.t.get ⟨k, Nat.lt_of_succ_lt hk.2.1⟩ ⟨k, Nat.lt_of_succ_lt hk.2.2⟩)
        (s.t.get ⟨k + 1, hk.2.1⟩ ⟨k + 1, hk.2.2⟩) = true := by
  intro cnt
  induction cnt with
  | zero =>
    intro i s s' h
    rw [diagPass] at h
    injection h with h; injection h with h1 h2
    exact ⟨h1.symm, fun k h1 h2 => by omega⟩
  | succ cnt ih =>
    intro i s s' h
    rw [diagPass] at h
    split at h
    · rename_i hc
      split at h
      · rename_i r1 h1
        split at h
        · rename_i hb
          obtain ⟨s1, b1⟩ := r1
          simp only at hb h
          subst hb
          obtain ⟨e1, d1⟩ := diagNormalizeStep_true dbg s i hc.2.1 hc.2.2 s1 h1
          subst e1
          obtain ⟨e2, d2⟩ := ih (i + 1) s1 s' h
          refine ⟨e2, ?_⟩
          intro k hik hk hk'
          by_cases hki : k = i
          · subst hki; exact d1
          · exact d2 k (by omega) (by omega) hk'
        · injection h with h; injection h with h1' h2'; cases h2'
      · cases h
      · cases h
    · rename_i hc
      injection h with h; injection h with h1 h2
      refine ⟨h1.symm, ?_⟩
      intro k hik hk hk'
      -- the guard failed at `i`; it then fails for every larger index as well, except possibly `k = i`… which it does not
      exfalso
      apply hc
      exact ⟨by omega, by omega, by omega⟩
/-- `diag_normalize`'s `'outer` loop exits only with the divisibility chain established on the first `r`
diagonal entries (before the final normalisation by units) -/
theorem diagOuter_chain (dbg : Bool) (r : Nat) : ∀ (fuel : Nat) (s s' : St α m n),
    diagOuter e dbg r fuel s = .ok s' → ∀ k (hk : k + 1 < r ∧ k + 1 < m ∧ k + 1 < n),
      e.dvd (s'.t.get ⟨k, Nat.lt_of_succ_lt hk.2.1⟩ ⟨k, Nat.lt_of_succ_lt hk.2.2⟩)
        (s'.t.get ⟨k + 1, hk.2.1⟩ ⟨k + 1, hk.2.2⟩) = true := by
  intro fuel
  induction fuel with
  | zero => intro s s' h; simp [diagOuter] at h
  | succ fuel ih =>
    intro s s' h
    rw [diagOuter] at h
    split at h
    · rename_i r1 h1
      split at h
      · rename_i hb
        obtain ⟨s1, b1⟩ := r1
        simp only at hb h
        subst hb
        injection h with h; subst h
        obtain ⟨e1, d1⟩ := diagPass_true dbg r r 0 s s1 h1
        subst e1
        intro k hk
        exact d1 k (Nat.zero_le _) (by omega) hk
      · exact ih _ _ h
    · cases h
    · cases h

/-- exit condition of `eliminate_at`: the pivot's row and column contain at most one non-zero entry each -/
theorem eliminateAt_exit (dbg : Bool) (i : Fin m) (j : Fin n) : ∀ (fuel : Nat) (s s' : St α m n),
    eliminateAt e dbg i j fuel s = .ok s' → rowNz e s'.t i ≤ 1 ∧ colNz e s'.t j ≤ 1 := by
  intro fuel
  induction fuel with
  | zero => intro s s' h; simp [eliminateAt] at h
  | succ fuel ih =>
    intro s s' h
    rw [eliminateAt] at h
    split at h
    · split at h
      · split at h
        · split at h
          · cases h
          · exact ih _ _ h
        · cases h
        · cases h
      · cases h
      · cases h
    · rename_i hc
      injection h with h; subst h
      simp only [Bool.or_eq_true, decide_eq_true_eq, not_or, Nat.not_lt] at hc
      exact hc

end Yuiv.C09
