import Yuiv.Proofs.C18Part
import Yuiv.Proofs.C18Renumber
/-
C18Inv — shared spec definitions for the invariance / orientation theorems about the EXISTING model
`Yuiv.C18` (no model change).

Slots (half-edges) are pairs `(i, j)`; `thru l` = other end of the strand through the crossing (`pass`),
`partner l` = other end of the edge (`pass_edge`), `step l = partner ∘ thru` (all from `Proofs/C18Orbit`,
`Proofs/C18Part`).

An ORIENTATION of a valid code is given by the set `O` of slots at which the oriented strands ENTER a
crossing: of the two ends of a strand through a crossing exactly one is an entrance, and of the two ends of
an edge exactly one is an entrance (`Orient`).  It is consistent with the under-strand directions of the code
if every under-strand enters at slot 0 (`UnderIn`).  The sign read off such an orientation at crossing `i`
is the entry of the Rust table (`signAt`) at the slot where the over-strand enters (`sgnAt`).
-/
namespace Yuiv.C18
open Yuiv

/-- `O` (entrance slots) is an orientation of `l`: bounded-quantifier form, decidable for concrete `O` -/
def Orient (l : Link) (O : Nat × Nat → Bool) : Prop :=
  ∀ i, i < l.length → ∀ j, j < 4 →
    O (thru l (i, j)) = !O (i, j) ∧ O (partner l (i, j)) = !O (i, j)

instance (l : Link) (O : Nat × Nat → Bool) : Decidable (Orient l O) := by unfold Orient; infer_instance

/-- the orientation is consistent with the code: every strand through slot 0 enters there -/
def UnderIn (l : Link) (O : Nat × Nat → Bool) : Prop := ∀ i, i < l.length → O (i, 0) = true

instance (l : Link) (O : Nat × Nat → Bool) : Decidable (UnderIn l O) := by unfold UnderIn; infer_instance

/-- sign of crossing `i` for the orientation `O`: the Rust sign table at the slot where the over-strand
(slots 1, 3) enters; `none` for resolved crossings -/
def sgnAt (l : Link) (O : Nat × Nat → Bool) (i : Nat) : Option Sign :=
  signAt (ctypeAt l i) (if O (i, 1) then 1 else 3)

/-- the list of signs of the unresolved crossings, in crossing order -/
def signsOf (l : Link) (O : Nat × Nat → Bool) : List Sign := (List.range l.length).filterMap (sgnAt l O)

/-- `b` is reached from `a` by moves along strands through crossings (`thru`) and along edges (`partner`):
the two slots lie on the same component -/
inductive SConn (l : Link) : Nat × Nat → Nat × Nat → Prop
  | refl (a : Nat × Nat) : SConn l a a
  | thru {a b : Nat × Nat} : SConn l a b → SConn l a (thru l b)
  | partner {a b : Nat × Nat} : SConn l a b → SConn l a (partner l b)

/-- every edge lies on a component that contains an under-strand end (slot 0 of some crossing): the
orientation consistent with the code is then unique (`orient_unique`) -/
def Determined (l : Link) : Prop :=
  ∀ i, i < l.length → ∀ j, j < 4 → ∃ i', i' < l.length ∧ SConn l (i', 0) (i, j)

/-- decidable sufficient criterion for `Determined` (`determined_of_B`): each slot, or the other end of its
edge, is reached within `4n` steps by the walk started at slot 0 of some crossing -/
def DeterminedB (l : Link) : Prop :=
  ∀ i, i < l.length → ∀ j, j < 4 → ∃ i', i' < l.length ∧ ∃ k, k < 4 * l.length ∧
    (iter (step l) k (i', 0) = (i, j) ∨ iter (step l) k (i', 0) = partner l (i, j))

instance (l : Link) : Decidable (DeterminedB l) := by unfold DeterminedB; infer_instance

/-- the link with its crossing list reordered: position `k` of the new list is crossing `p[k]` of `l` -/
def permute (p : List Nat) (l : Link) : Link := p.filterMap (fun i => l[i]?)

/-- reversing the orientation of every component at once: `[a,b,c,d] ↦ [c,d,a,b]` -/
def reverseAll (l : Link) : Link := l.map (fun c => ⟨c.ctype, c.e2, c.e3, c.e0, c.e1⟩)

/-- writhe of a list of signs -/
def writheOf (s : List Sign) : Int := (s.count .pos : Int) - (s.count .neg : Int)

/-- all crossings are genuine crossings (`X` / `Xm`): a PD code, possibly mirrored in places -/
def AllX (l : Link) : Prop := ∀ c ∈ l, c.isResolved = false

instance (l : Link) : Decidable (AllX l) := by unfold AllX; infer_instance

theorem Orient.thru_eq {l : Link} {O : Nat × Nat → Bool} (hO : Orient l O) (h : Nat × Nat) (hh : HE l h) :
    O (thru l h) = !O h := (hO h.1 hh.1 h.2 hh.2).1

theorem Orient.partner_eq {l : Link} {O : Nat × Nat → Bool} (hO : Orient l O) (h : Nat × Nat) (hh : HE l h) :
    O (partner l h) = !O h := (hO h.1 hh.1 h.2 hh.2).2

/-- entrances are closed under the half-edge map -/
theorem Orient.step_eq {l : Link} {O : Nat × Nat → Bool} (hO : Orient l O) (hv : Valid l) (h : Nat × Nat)
    (hh : HE l h) : O (step l h) = O h := by
  rw [C18.step_eq l hv h hh, hO.partner_eq _ (C18.thru_spec l h hh).1, hO.thru_eq h hh, Bool.not_not]

theorem Orient.iter_eq {l : Link} {O : Nat × Nat → Bool} (hO : Orient l O) (hv : Valid l) (h : Nat × Nat)
    (hh : HE l h) : ∀ k, O (iter (step l) k h) = O h
  | 0 => rfl
  | k + 1 => by
    show O (step l (iter (step l) k h)) = O h
    rw [hO.step_eq hv _ (iter_HE l hv h hh k)]
    exact Orient.iter_eq hO hv h hh k

theorem SConn.trans {l : Link} {a b c : Nat × Nat} (h1 : SConn l a b) (h2 : SConn l b c) : SConn l a c := by
  induction h2 with
  | refl => exact h1
  | thru _ ih => exact SConn.thru ih
  | partner _ ih => exact SConn.partner ih

theorem SConn.he {l : Link} (hv : Valid l) {a b : Nat × Nat} (h : SConn l a b) (ha : C18.HE l a) : C18.HE l b := by
  induction h with
  | refl => exact ha
  | thru _ ih => exact (thru_spec l _ ih).1
  | partner _ ih => exact (partner_spec l hv _ ih).1

theorem SConn.iter_step {l : Link} (hv : Valid l) (a : Nat × Nat) (ha : C18.HE l a) :
    ∀ k, SConn l a (iter (C18.step l) k a)
  | 0 => SConn.refl a
  | k + 1 => by
    show SConn l a (C18.step l (iter (C18.step l) k a))
    rw [C18.step_eq l hv _ (iter_HE l hv a ha k)]
    exact SConn.partner (SConn.thru (SConn.iter_step hv a ha k))

theorem determined_of_B {l : Link} (hv : Valid l) (h : DeterminedB l) : Determined l := by
  intro i hi j hj
  obtain ⟨i', hi', k, _, hk⟩ := h i hi j hj
  have hs : HE l (i', 0) := ⟨hi', by omega⟩
  refine ⟨i', hi', ?_⟩
  have h1 := SConn.iter_step hv (i', 0) hs k
  rcases hk with hk | hk
  · rw [hk] at h1; exact h1
  · rw [hk] at h1
    have h2 := SConn.partner h1
    rw [(partner_spec l hv (i, j) ⟨hi, hj⟩).2.2.2] at h2
    exact h2

/-- two orientations that agree at one slot agree on its whole component -/
theorem orient_agree {l : Link} (hv : Valid l) {O O' : Nat × Nat → Bool} (hO : Orient l O) (hO' : Orient l O')
    {a b : Nat × Nat} (h : SConn l a b) (ha : HE l a) (hab : O' a = O a) : O' b = O b := by
  induction h with
  | refl => exact hab
  | thru hc ih => rw [hO.thru_eq _ (hc.he hv ha), hO'.thru_eq _ (hc.he hv ha), ih]
  | partner hc ih => rw [hO.partner_eq _ (hc.he hv ha), hO'.partner_eq _ (hc.he hv ha), ih]

/-- on a `Determined` code the orientation consistent with the under-strands is unique -/
theorem orient_unique {l : Link} (hv : Valid l) (hD : Determined l) {O O' : Nat × Nat → Bool}
    (hO : Orient l O) (hU : UnderIn l O) (hO' : Orient l O') (hU' : UnderIn l O')
    (h : Nat × Nat) (hh : HE l h) : O' h = O h := by
  obtain ⟨i', hi', hc⟩ := hD h.1 hh.1 h.2 hh.2
  exact orient_agree hv hO hO' hc ⟨hi', by omega⟩ (by rw [hU i' hi', hU' i' hi'])

theorem sgnAt_congr (l : Link) (O O' : Nat × Nat → Bool) (i : Nat) (h : O' (i, 1) = O (i, 1)) :
    sgnAt l O' i = sgnAt l O i := by
  unfold sgnAt; rw [h]

theorem signsOf_congr (l : Link) (O O' : Nat × Nat → Bool) (h : ∀ i, i < l.length → O' (i, 1) = O (i, 1)) :
    signsOf l O' = signsOf l O := by
  unfold signsOf
  have : ∀ (xs : List Nat), (∀ i ∈ xs, i < l.length) → xs.filterMap (sgnAt l O') = xs.filterMap (sgnAt l O) := by
    intro xs
    induction xs with
    | nil => intro _; rfl
    | cons a r ih =>
      intro hx
      rw [List.filterMap_cons, List.filterMap_cons, sgnAt_congr l O O' a (h a (hx a List.mem_cons_self)),
        ih (fun i hi => hx i (List.mem_cons_of_mem _ hi))]
  exact this _ (fun i hi => List.mem_range.1 hi)

end Yuiv.C18
