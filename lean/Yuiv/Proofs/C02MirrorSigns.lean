import Yuiv.Proofs.C18BridgeMain
/-
C02Mirror, part G (helper): whenever the reference's `crossingSigns` succeeds, it returns one non-zero sign per
unresolved crossing, so `n₊ + n₋ = n` (the relation between the degree shifts and the dimension of the cube that the
degree part of the mirror duality needs).  No hypothesis on the link.
-/
namespace Yuiv.C02Mirror
open Yuiv Yuiv.KhRef Yuiv.C18Bridge

theorem outF_fold (l : Link) (sg : Array Int) (is : List Nat) (acc out : Array Int)
    (h : is.foldlM (fun out i =>
      if l[i]!.ct.isResolved then some out else if sg[i]! == 0 then none else some (out.push sg[i]!)) acc = some out) :
    out.size = acc.size + (is.filter (fun i => !l[i]!.ct.isResolved)).length ∧
      ((∀ x ∈ acc, x ≠ 0) → ∀ x ∈ out, x ≠ 0) := by
  induction is generalizing acc with
  | nil =>
    simp only [List.foldlM_nil] at h
    cases h
    exact ⟨by simp, fun h => h⟩
  | cons i is ih =>
    rw [List.foldlM_cons] at h
    cases hr : l[i]!.ct.isResolved
    · simp only [hr, Bool.false_eq_true, if_false] at h
      by_cases hz : (sg[i]! == 0) = true
      · simp [hz] at h
      · simp only [hz, Option.bind_eq_bind] at h
        obtain ⟨h1, h2⟩ := ih _ h
        refine ⟨?_, fun hacc => h2 ?_⟩
        · rw [h1, List.filter_cons]; simp [hr]; omega
        · intro x hx
          rcases Array.mem_push.1 hx with hx | rfl
          · exact hacc x hx
          · simpa using hz
    · simp only [hr, if_true, Option.bind_eq_bind, Option.bind_some] at h
      obtain ⟨h1, h2⟩ := ih _ h
      refine ⟨?_, h2⟩
      rw [h1, List.filter_cons]; simp [hr]

theorem range_map_getElem! (l : Link) : (List.range l.size).map (fun i => l[i]!) = l.toList := by
  apply List.ext_getElem
  · simp
  · intro i h1 h2
    simp at h1 h2
    simp [getElem!_pos, h1]

theorem filter_size {α : Type} (p : α → Bool) (a : Array α) : (a.filter p).size = (a.toList.filter p).length := by
  rw [← Array.toList_filter, Array.length_toList]

theorem count_unresolved (l : Link) :
    ((List.range l.size).filter (fun i => !l[i]!.ct.isResolved)).length = crossingNum l := by
  unfold crossingNum
  rw [filter_size, ← range_map_getElem! l, List.filter_map, List.length_map]
  rfl

theorem pos_add_neg (a : Array Int) (h : ∀ x ∈ a, x ≠ 0) : nPosK a + nNegK a = a.size := by
  unfold nPosK nNegK
  rw [filter_size, filter_size, ← Array.length_toList]
  have h' : ∀ x ∈ a.toList, x ≠ 0 := fun x hx => h x (by simpa using hx)
  generalize a.toList = xs at h'
  induction xs with
  | nil => rfl
  | cons x xs ih =>
    have hx := h' x (by simp)
    have := ih (fun y hy => h' y (by simp [hy]))
    simp only [gt_iff_lt] at this
    rcases Int.lt_trichotomy x 0 with hlt | heq | hgt
    · have h1 : ¬ x > 0 := by omega
      simp [hlt, h1]; omega
    · exact absurd heq hx
    · have h1 : ¬ x < 0 := by omega
      simp [hgt, h1]; omega

/-- `n₊ + n₋ = n` for the signs the reference computes -/
theorem signs_count (l : Link) (sg : Array Int) (h : KhRef.crossingSigns l = some sg) :
    nPosK sg + nNegK sg = crossingNum l := by
  rw [crossingSigns_eq] at h
  unfold signsF at h
  simp only at h
  split at h
  · cases h
  · unfold outF at h
    obtain ⟨h1, h2⟩ := outF_fold l _ _ _ _ h
    rw [pos_add_neg sg (h2 (by simp)), h1, count_unresolved]
    simp

end Yuiv.C02Mirror
