import Yuiv.Proofs.C09Euc
/-
C09 — the generic `EucRing::gcdx` of `yui/src/abst/euc_ring.rs` (early returns on `x | y`, `y | x`, the extended
Euclidean `while` loop, final multiplication by the normalising unit), written over an operation record, and the
proof that for lawful base operations (`LawfulEucBase`) it is an extended gcd with a normalised result.  Hence a
record whose `gcdx` is this function is `LawfulEuc` (used for the Gaussian integers; ℤ has its own `gcdx`).
-/
set_option linter.unusedSectionVars false
namespace Yuiv.C09
open Yuiv

variable {α K : Type} [CommRing K] [IsDomain K]

/-- the `while !y.is_zero()` loop of `EucRing::gcdx`; fuel `size y + 1` suffices -/
def genGcdxLoop (e : EOps α) : Nat → (x y s0 s1 t0 t1 : α) → α × α × α
  | 0, x, _, s0, _, t0, _ => (x, s0, t0)
  | f + 1, x, y, s0, s1, t0, t1 =>
    if e.isZero y then (x, s0, t0)
    else
      let q := e.quo x y
      let r := e.rem x y
      genGcdxLoop e f y r s1 (e.sub s0 (e.mul q s1)) t1 (e.sub t0 (e.mul q t1))

/-- generic `EucRing::gcdx` -/
def genGcdx (e : EOps α) (x y : α) : α × α × α :=
  if e.isZero x && e.isZero y then (e.zero, e.zero, e.zero)
  else if e.dvd x y then (e.mul x (e.normUnit x), e.normUnit x, e.zero)
  else if e.dvd y x then (e.mul y (e.normUnit y), e.zero, e.normUnit y)
  else
    let g := genGcdxLoop e (e.size y + 1) x y e.one e.zero e.zero e.one
    let u := e.normUnit g.1
    if e.isOne u then g else (e.mul g.1 u, e.mul g.2.1 u, e.mul g.2.2 u)

section
variable {e : EOps α} {φ : α → K} (L : LawfulEucBase e φ)
include L

theorem normUnit_of_zero (a : α) (h : φ a = 0) : φ (e.normUnit a) = 1 := by
  have h1 := L.norm_mul a
  rw [L.normUnit_congr (e.mul a (e.normUnit a)) a (by rw [L.phi_mul, h, zero_mul])] at h1
  exact h1

theorem genGcdxLoop_spec (X Y : K) : ∀ (fuel : Nat) (x y s0 s1 t0 t1 : α),
    (φ y ≠ 0 → e.size y < fuel) → φ x = φ s0 * X + φ t0 * Y → φ y = φ s1 * X + φ t1 * Y →
    (∀ z : K, z ∣ φ x → z ∣ φ y → z ∣ X ∧ z ∣ Y) →
    φ (genGcdxLoop e fuel x y s0 s1 t0 t1).1 =
      φ (genGcdxLoop e fuel x y s0 s1 t0 t1).2.1 * X + φ (genGcdxLoop e fuel x y s0 s1 t0 t1).2.2 * Y ∧
    φ (genGcdxLoop e fuel x y s0 s1 t0 t1).1 ∣ X ∧ φ (genGcdxLoop e fuel x y s0 s1 t0 t1).1 ∣ Y := by
  intro fuel
  induction fuel with
  | zero =>
    intro x y s0 s1 t0 t1 hf h0 h1 hd
    have hy : φ y = 0 := by
      by_contra hy; exact absurd (hf hy) (Nat.not_lt_zero _)
    rw [genGcdxLoop]
    exact ⟨h0, hd (φ x) (dvd_refl _) (by rw [hy]; exact dvd_zero _)⟩
  | succ fuel ih =>
    intro x y s0 s1 t0 t1 hf h0 h1 hd
    rw [genGcdxLoop]
    split
    · rename_i hz
      have hy : φ y = 0 := (L.isZero_iff y).1 hz
      exact ⟨h0, hd (φ x) (dvd_refl _) (by rw [hy]; exact dvd_zero _)⟩
    · rename_i hz
      have hy : φ y ≠ 0 := fun h => hz ((L.isZero_iff y).2 h)
      have hdr := L.div_rem x y hy
      have hsz := L.size_rem x y hy
      have hfy := hf hy
      apply ih
      · intro _; omega
      · exact h1
      · rw [sub_eq L.lawful, sub_eq L.lawful, L.phi_mul, L.phi_mul]
        linear_combination h0 - hdr - φ (e.quo x y) * h1
      · intro z ha hb
        apply hd z _ ha
        rw [hdr]
        exact dvd_add (Dvd.dvd.mul_left ha _) hb

/-- the generic `EucRing::gcdx` is an extended gcd with a normalised result -/
theorem genGcdx_spec (x y : α) :
    φ (genGcdx e x y).1 = φ (genGcdx e x y).2.1 * φ x + φ (genGcdx e x y).2.2 * φ y ∧
    (φ (genGcdx e x y).1 ∣ φ x ∧ φ (genGcdx e x y).1 ∣ φ y) ∧ φ (e.normUnit (genGcdx e x y).1) = 1 := by
  unfold genGcdx
  split
  · rename_i h
    simp only [Bool.and_eq_true, L.isZero_iff] at h
    refine ⟨?_, ?_, normUnit_of_zero L _ L.phi_zero⟩
    · simp only [L.phi_zero]; ring
    · simp only [L.phi_zero, h.1, h.2]
      exact ⟨dvd_refl _, dvd_refl _⟩
  · split
    · rename_i hxy
      rw [L.dvd_iff] at hxy
      have hu := L.normUnit_isUnit x
      refine ⟨?_, ⟨?_, ?_⟩, L.norm_mul x⟩
      · simp only [L.phi_mul, L.phi_zero]; ring
      · simp only [L.phi_mul]; rw [hu.mul_right_dvd]
      · simp only [L.phi_mul]; rw [hu.mul_right_dvd]; exact hxy.2
    · split
      · rename_i hyx
        rw [L.dvd_iff] at hyx
        have hu := L.normUnit_isUnit y
        refine ⟨?_, ⟨?_, ?_⟩, L.norm_mul y⟩
        · simp only [L.phi_mul, L.phi_zero]; ring
        · simp only [L.phi_mul]; rw [hu.mul_right_dvd]; exact hyx.2
        · simp only [L.phi_mul]; rw [hu.mul_right_dvd]
      · obtain ⟨g1, g2, g3⟩ := genGcdxLoop_spec L (φ x) (φ y) (e.size y + 1) x y e.one e.zero e.zero e.one
          (fun _ => Nat.lt_succ_self _) (by rw [L.phi_one, L.phi_zero]; ring) (by rw [L.phi_one, L.phi_zero]; ring)
          (fun z h1 h2 => ⟨h1, h2⟩)
        generalize genGcdxLoop e (e.size y + 1) x y e.one e.zero e.zero e.one = g at g1 g2 g3
        simp only
        split
        · rename_i hone
          exact ⟨g1, ⟨g2, g3⟩, (L.isOne_iff _).1 hone⟩
        · have hu := L.normUnit_isUnit g.1
          refine ⟨?_, ⟨?_, ?_⟩, L.norm_mul g.1⟩
          · simp only [L.phi_mul]; rw [g1]; ring
          · simp only [L.phi_mul]; rw [hu.mul_right_dvd]; exact g2
          · simp only [L.phi_mul]; rw [hu.mul_right_dvd]; exact g3

end

/-- lawful base operations + the generic `gcdx` = a lawful Euclidean operation record -/
theorem lawfulEuc_of_genGcdx (e : EOps α) (φ : α → K) (L : LawfulEucBase e φ)
    (hg : ∀ x y, e.gcdx x y = genGcdx e x y) : LawfulEuc e φ where
  toLawfulEucBase := L
  gcdx_bezout x y := by rw [hg]; exact (genGcdx_spec L x y).1
  gcdx_dvd x y := by rw [hg]; exact (genGcdx_spec L x y).2.1
  gcdx_norm x y := by rw [hg]; exact (genGcdx_spec L x y).2.2

end Yuiv.C09
