import Yuiv.Model.C06Canon
import Yuiv.Proofs.C18BridgeDefs
import Yuiv.Proofs.C04InvUF
/-
C06Walk — definitions for the SPECIFICATION OF THE WALK MODEL `C06Canon.componentsOf` (`Link::components`,
`Link::seifert_circles` at the level of the cube reference's links).

  * `toC18 L ts`     : the link of the C18 code model with the labels of `L` and the crossing types `ts` (the walk model
                       takes the types separately: `components` = own types, `seifert_circles` = `resolvedTypes`);
  * `convPath`       : C18's `Path` ↦ C06Canon's `Path`;
  * `passPairs L ts` : the pairs (label at slot `j`, label at slot `ts[i].pass j`) — two ends of a strand through a
                       crossing; for resolved types these are the arcs of the state;
  * `WalkSpec L P paths` : what the walk returns, in terms of the equivalence `C04Inv.Conn P`.
-/
namespace Yuiv.C06Walk
open Yuiv Yuiv.KhRef Yuiv.C06Canon

/-- inverse of `C18Bridge.ctKh` -/
def ctC18 : CT → C18.CType
  | .X => .X
  | .Xm => .Xm
  | .V => .V
  | .H => .H

/-- the C18 link with the labels of `L` and the types `ts` -/
def toC18 (L : Link) (ts : Array CT) : C18.Link :=
  (List.range L.size).map (fun i => ⟨ctC18 ts[i]!, L[i]!.e[0]!, L[i]!.e[1]!, L[i]!.e[2]!, L[i]!.e[3]!⟩)

def convPath (p : C18.Path) : Path := ⟨p.edges, p.closed⟩

/-- the two ends of every strand through a crossing: slot `j` and slot `ts[i].pass j` -/
def passPairs (L : Link) (ts : Array CT) : List (Nat × Nat) :=
  (List.range L.size).flatMap (fun i => (List.range 4).map (fun j => (L[i]!.e[j]!, L[i]!.e[ts[i]!.pass j]!)))

/-- consecutive entries (cyclically) of `es` are related by `R` -/
def CyclicChain (R : Nat → Nat → Prop) (es : List Nat) : Prop :=
  ∀ k, k < es.length → R (es.getD k 0) (es.getD ((k + 1) % es.length) 0)

/-- the walk's result: closed non-empty paths, every label of the diagram on exactly one path exactly once, every path
is one class of `Conn P`, and runs cyclically along the pairs of `P` -/
structure WalkSpec (L : Link) (P : List (Nat × Nat)) (paths : List Path) : Prop where
  cover : ∀ e, e ∈ edgeLabels L ↔ ∃ p ∈ paths, e ∈ p.edges
  nodup : (paths.flatMap (·.edges)).Nodup
  closed : ∀ p ∈ paths, p.closed = true ∧ p.edges ≠ []
  cls : ∀ p ∈ paths, ∀ e ∈ p.edges, ∀ e', C04Inv.Conn P e e' ↔ e' ∈ p.edges
  cyc : ∀ p ∈ paths, CyclicChain (fun a b => (a, b) ∈ P) p.edges

end Yuiv.C06Walk
