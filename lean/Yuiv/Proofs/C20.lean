import Yuiv.Model.C20
/-
C20 — helper lemmas for `Yuiv/Props/C20.lean` (core Lean only).
-/
namespace Yuiv.C20
open Yuiv

/-! ### the run -/

theorem loadAndCompute_table (lk : LinkClass) (b b' : Bool) (h : loadAndCompute lk b = .table b') :
    lk = .ok ∧ b' = b := by
  cases lk <;> simp [loadAndCompute] at h
  exact ⟨rfl, h.symm⟩

theorem khRun_table (r : Ring) (o : Opts) (lk : LinkClass) (b : Bool) (h : khRun r o lk = .table b) :
    ∃ hh tt, parsePair r o.cval.toList = .ok (hh, tt) ∧ (o.reduced = true → tt.isZero = true) ∧
      (o.alpha = true → tt.isZero = true) ∧ lk = .ok ∧
      b = ((hh.isZero && tt.isZero) || o.cval == "H" || o.cval == "0,T") := by
  unfold khRun at h
  split at h
  · cases h
  · cases h
  · rename_i hh tt hp
    split at h
    · cases h
    split at h
    · cases h
    split at h
    · cases h
    split at h
    · cases h
    rename_i h1 h2 h3 h4
    have := loadAndCompute_table _ _ _ h
    refine ⟨hh, tt, hp, ?_, ?_, this.1, this.2⟩
    · intro hr; cases hz : tt.isZero <;> simp [hr, hz] at h1 ⊢
    · intro ha; cases hz : tt.isZero <;> simp [ha, hz] at h2 ⊢

theorem ckhRun_table (r : Ring) (o : Opts) (lk : LinkClass) (b : Bool) (h : ckhRun r o lk = .table b) :
    ∃ hh tt, parsePair r o.cval.toList = .ok (hh, tt) ∧ (o.reduced = true → tt.isZero = true) ∧
      (o.alpha = true → tt.isZero = true) ∧ lk = .ok := by
  unfold ckhRun at h
  split at h
  · cases h
  · cases h
  · rename_i hh tt hp
    split at h
    · cases h
    split at h
    · cases h
    rename_i h1 h2
    have := loadAndCompute_table _ _ _ h
    refine ⟨hh, tt, hp, ?_, ?_, this.1⟩
    · intro hr; cases hz : tt.isZero <;> simp [hr, hz] at h1 ⊢
    · intro ha; cases hz : tt.isZero <;> simp [ha, hz] at h2 ⊢

theorem guardPanic_table (r r' : Ring) (x : RunRes) (b : Bool) (h : guardPanic r' x = .table r b) :
    r' = r ∧ x = .table b := by
  cases x <;> simp [guardPanic] at h
  exact ⟨h.1, by rw [h.2]⟩

theorem runParsed_table (f : Feat) (c : Cmd) (ct : CType) (o : Opts) (lk : LinkClass) (r : Ring) (b : Bool)
    (h : runParsed f c ct o lk = .table r b) :
    dispatch c f ct (polyVars o.cval) = some (.run r) ∧ appRun c r o lk = .table b := by
  unfold runParsed at h
  split at h
  · cases h
  · cases h
  · cases h
  · rename_i r' hd
    have := guardPanic_table _ _ _ _ h
    obtain ⟨h1, h2⟩ := this
    subst h1
    exact ⟨hd, h2⟩

theorem table_only_if_aux (f : Feat) (c : Cmd) (ct : CType) (o : Opts) (lk : LinkClass) (r : Ring) (b : Bool)
    (h : runParsed f c ct o lk = .table r b) :
    dispatch c f ct (polyVars o.cval) = some (.run r) ∧ lk = .ok ∧
    ∃ hh tt, parsePair r o.cval.toList = .ok (hh, tt) ∧ (o.reduced = true → tt.isZero = true) ∧
      (o.alpha = true → tt.isZero = true) := by
  obtain ⟨hd, ha⟩ := runParsed_table f c ct o lk r b h
  refine ⟨hd, ?_⟩
  cases c
  · obtain ⟨hh, tt, hp, h1, h2, h3, _⟩ := khRun_table r o lk b ha
    exact ⟨h3, hh, tt, hp, h1, h2⟩
  · obtain ⟨hh, tt, hp, h1, h2, h3⟩ := ckhRun_table r o lk b ha
    exact ⟨h3, hh, tt, hp, h1, h2⟩

theorem kh_bigraded_aux (f : Feat) (ct : CType) (o : Opts) (lk : LinkClass) (r : Ring) (b : Bool) (hh tt : Val)
    (h : runParsed f .kh ct o lk = .table r b) (hp : parsePair r o.cval.toList = .ok (hh, tt)) :
    b = true ↔ ((hh.isZero = true ∧ tt.isZero = true) ∨ o.cval = "H" ∨ o.cval = "0,T") := by
  obtain ⟨_, ha⟩ := runParsed_table f .kh ct o lk r b h
  obtain ⟨hh', tt', hp', _, _, _, hb⟩ := khRun_table r o lk b ha
  rw [hp] at hp'
  injection hp' with hp'
  injection hp' with e1 e2
  subst e1 e2
  rw [hb]
  simp [Bool.or_eq_true, Bool.and_eq_true, or_assoc]

end Yuiv.C20
