import Yuiv.Model.C20
/-
C20 — helper lemmas for `Yuiv/Props/C20.lean` (core Lean only).
-/
namespace Yuiv.C20
open Yuiv

/-! ### the run -/

theorem loadAndCompute_table (lk : LinkClass) (b b' : Bool) (h : loadAndCompute lk b = .table b') :
    lk = .ok ∧ b' = b := by
  cases lk <;> simp [loadAndCompute] at h
  exact ⟨rfl, h.symm⟩

theorem khRun_table (r : Ring) (o : Opts) (lk : LinkClass) (b : Bool) (h : khRun r o lk = .table b) :
    ∃ hh tt, parsePair r o.cval.toList = .ok (hh, tt) ∧ (o.reduced = true → tt.isZero = true) ∧
      (o.alpha = true → tt.isZero = true) ∧ lk = .ok ∧
      b = ((hh.isZero && tt.isZero) || o.cval == "H" || o.cval == "0,T") := by
  unfold khRun at h
  split at h
  · cases h
  · cases h
  · rename_i hh tt hp
    split at h
    · cases h
    split at h
    · cases h
    split at h
    · cases h
    split at h
    · cases h
    rename_i h1 h2 h3 h4
    have := loadAndCompute_table _ _ _ h
    refine ⟨hh, tt, hp, ?_, ?_, this.1, this.2⟩
    · intro hr; cases hz : tt.isZero <;> simp [hr, hz] at h1 ⊢
    · intro ha; cases hz : tt.isZero <;> simp [ha, hz] at h2 ⊢

theorem ckhRun_table (r : Ring) (o : Opts) (lk : LinkClass) (b : Bool) (h : ckhRun r o lk = .table b) :
    ∃ hh tt, parsePair r o.cval.toList = .ok (hh, tt) ∧ (o.reduced = true → tt.isZero = true) ∧
      (o.alpha = true → tt.isZero = true) ∧ lk = .ok := by
  unfold ckhRun at h
  split at h
  · cases h
  · cases h
  · rename_i hh tt hp
    split at h
    · cases h
    split at h
    · cases h
    rename_i h1 h2
    have := loadAndCompute_table _ _ _ h
    refine ⟨hh, tt, hp, ?_, ?_, this.1⟩
    · intro hr; cases hz : tt.isZero <;> simp [hr, hz] at h1 ⊢
    · intro ha; cases hz : tt.isZero <;> simp [ha, hz] at h2 ⊢

theorem guardPanic_table (r r' : Ring) (x : RunRes) (b : Bool) (h : guardPanic r' x = .table r b) :
    r' = r ∧ x = .table b := by
  cases x <;> simp [guardPanic] at h
  exact ⟨h.1, by rw [h.2]⟩

theorem runParsed_table (f : Feat) (c : Cmd) (ct : CType) (o : Opts) (lk : LinkClass) (r : Ring) (b : Bool)
    (h : runParsed f c ct o lk = .table r b) :
    dispatch c f ct (polyVars o.cval) = some (.run r) ∧ appRun c r o lk = .table b := by
  unfold runParsed at h
  split at h
  · cases h
  · cases h
  · cases h
  · rename_i r' hd
    have := guardPanic_table _ _ _ _ h
    obtain ⟨h1, h2⟩ := this
    subst h1
    exact ⟨hd, h2⟩

theorem table_only_if_aux (f : Feat) (c : Cmd) (ct : CType) (o : Opts) (lk : LinkClass) (r : Ring) (b : Bool)
    (h : runParsed f c ct o lk = .table r b) :
    dispatch c f ct (polyVars o.cval) = some (.run r) ∧ lk = .ok ∧
    ∃ hh tt, parsePair r o.cval.toList = .ok (hh, tt) ∧ (o.reduced = true → tt.isZero = true) ∧
      (o.alpha = true → tt.isZero = true) := by
  obtain ⟨hd, ha⟩ := runParsed_table f c ct o lk r b h
  refine ⟨hd, ?_⟩
  cases c
  · obtain ⟨hh, tt, hp, h1, h2, h3, _⟩ := khRun_table r o lk b ha
    exact ⟨h3, hh, tt, hp, h1, h2⟩
  · obtain ⟨hh, tt, hp, h1, h2, h3⟩ := ckhRun_table r o lk b ha
    exact ⟨h3, hh, tt, hp, h1, h2⟩

theorem kh_bigraded_aux (f : Feat) (ct : CType) (o : Opts) (lk : LinkClass) (r : Ring) (b : Bool) (hh tt : Val)
    (h : runParsed f .kh ct o lk = .table r b) (hp : parsePair r o.cval.toList = .ok (hh, tt)) :
    b = true ↔ ((hh.isZero = true ∧ tt.isZero = true) ∨ o.cval = "H" ∨ o.cval = "0,T") := by
  obtain ⟨_, ha⟩ := runParsed_table f .kh ct o lk r b h
  obtain ⟨hh', tt', hp', _, _, _, hb⟩ := khRun_table r o lk b ha
  rw [hp] at hp'
  injection hp' with hp'
  injection hp' with e1 e2
  subst e1 e2
  rw [hb]
  simp [Bool.or_eq_true, Bool.and_eq_true, or_assoc]

/-! ### cell texts: `readCell` inverts `rmodStr` -/

def SymOK (sym : List Char) : Prop :=
  (∃ c r, sym = c :: r ∧ c ≠ '(' ∧ c ≠ '0') ∧ '⊕' ∉ sym

def TorOK (t : List Char) : Prop := '⊕' ∉ t

theorem superDigit_ok : ∀ d, d < 10 → isSuper (superDigit d) = true ∧ unsuperDigit (superDigit d) = d ∧
    superDigit d ≠ '⊕' := by decide

theorem natDigits_lt (n : Nat) : ∀ d ∈ natDigits n, d < 10 := by
  fun_induction natDigits n with
  | case1 n h => intro d hd; simp at hd; omega
  | case2 n h ih =>
    intro d hd
    simp at hd
    rcases hd with hd | hd
    · exact ih d hd
    · omega

theorem natDigits_ne_nil (n : Nat) : natDigits n ≠ [] := by
  rw [natDigits]; split <;> simp

theorem natDigits_fold (n : Nat) : (natDigits n).foldl (fun a d => 10 * a + d) 0 = n := by
  fun_induction natDigits n with
  | case1 n h => simp
  | case2 n h ih => rw [List.foldl_append, ih]; simp; omega

theorem decode_map (l : List Nat) (h : ∀ d ∈ l, d < 10) (a : Nat) :
    (l.map superDigit).foldl (fun a c => 10 * a + unsuperDigit c) a = l.foldl (fun a d => 10 * a + d) a := by
  induction l generalizing a with
  | nil => rfl
  | cons d l ih =>
    simp only [List.map_cons, List.foldl_cons]
    rw [(superDigit_ok d (h d (by simp))).2.1]
    exact ih (fun x hx => h x (by simp [hx])) _

theorem decode_superscript (n : Nat) : decodeSuper (superscript n) = n := by
  unfold decodeSuper superscript
  rw [decode_map _ (natDigits_lt n), natDigits_fold]

theorem superscript_all (n : Nat) : ∀ c ∈ superscript n, isSuper c = true := by
  intro c hc
  simp [superscript] at hc
  obtain ⟨d, hd, rfl⟩ := hc
  exact (superDigit_ok d (natDigits_lt n d hd)).1

theorem superscript_noOplus (n : Nat) : '⊕' ∉ superscript n := by
  intro hc
  simp [superscript] at hc
  obtain ⟨d, hd, he⟩ := hc
  exact (superDigit_ok d (natDigits_lt n d hd)).2.2 he

theorem superscript_ne_nil (n : Nat) : superscript n ≠ [] := by
  simp [superscript, natDigits_ne_nil]

theorem superscript_isEmpty (n : Nat) : (superscript n).isEmpty = false := by
  have hne := superscript_ne_nil n
  cases hsup : superscript n with
  | nil => exact absurd hsup hne
  | cons a b => rfl

theorem breakOplus_none (p : List Char) (hp : '⊕' ∉ p) : breakOplus p = (p, none) := by
  induction p with
  | nil => rfl
  | cons c p ih =>
    have hp' : '⊕' ∉ p := fun h => hp (by simp [h])
    have hne : ¬ (c = ' ' ∧ p.take 2 = ['⊕', ' ']) := by
      intro ⟨_, h2⟩
      cases p with
      | nil => simp at h2
      | cons d p => cases p <;> simp at h2 <;> (apply hp; simp [h2.1])
    simp [breakOplus, hne, ih hp']

theorem breakOplus_append (p q : List Char) (hp : '⊕' ∉ p) : breakOplus (p ++ oplus ++ q) = (p, some q) := by
  induction p with
  | nil => simp [breakOplus, oplus]
  | cons c p ih =>
    have hp' : '⊕' ∉ p := fun h => hp (by simp [h])
    have hne : ¬ (c = ' ' ∧ (p ++ oplus ++ q).take 2 = ['⊕', ' ']) := by
      intro ⟨_, h2⟩
      cases p with
      | nil => simp [oplus] at h2
      | cons d p =>
        have : d = '⊕' := by
          cases p <;> simp [oplus] at h2 <;> first | exact h2.1 | exact h2
        apply hp; simp [this]
    have e : c :: p ++ oplus ++ q = c :: (p ++ oplus ++ q) := by simp
    rw [e]
    simp only [breakOplus, hne, if_false, ih hp']

theorem joinWith_length (ps : List (List Char)) : ps.length ≤ (joinWith oplus ps).length + 1 := by
  induction ps with
  | nil => simp
  | cons p ps ih =>
    cases ps with
    | nil => simp [joinWith]
    | cons q rest => simp [joinWith, oplus] at ih ⊢; omega

theorem splitOplus_join (ps : List (List Char)) (hne : ps ≠ []) (h : ∀ p ∈ ps, '⊕' ∉ p) (fuel : Nat)
    (hf : ps.length ≤ fuel + 1) : splitOplus fuel (joinWith oplus ps) = ps := by
  induction ps generalizing fuel with
  | nil => exact absurd rfl hne
  | cons p ps ih =>
    cases ps with
    | nil =>
      cases fuel with
      | zero => simp [splitOplus, joinWith]
      | succ n => simp [splitOplus, joinWith, breakOplus_none p (h p (by simp))]
    | cons q rest =>
      cases fuel with
      | zero => simp at hf
      | succ n =>
        have hp := h p (by simp)
        simp only [joinWith, splitOplus, breakOplus_append p _ hp]
        rw [ih (by simp) (fun x hx => h x (by simp [hx])) n (by simp at hf ⊢; omega)]

theorem stripPrefix_append (p r : List Char) : stripPrefix p (p ++ r) = some r := by
  induction p with
  | nil => cases r <;> rfl
  | cons c p ih => simp [stripPrefix, ih]

theorem takeWhile_append_cons (p : Char → Bool) (l1 l2 : List Char) (a : Char) (h1 : ∀ x ∈ l1, p x = true)
    (ha : p a = false) : (l1 ++ a :: l2).takeWhile p = l1 ∧ (l1 ++ a :: l2).dropWhile p = a :: l2 := by
  induction l1 with
  | nil => simp [ha]
  | cons x l ih =>
    have hx := h1 x (by simp)
    have := ih (fun y hy => h1 y (by simp [hy]))
    simp [hx, this]

theorem readTor_torPiece (sym t : List Char) (k : Nat) (hk : 1 ≤ k) : readTor sym (torPiece sym t k) = some (t, k) := by
  have key : ∀ sup : List Char, (∀ c ∈ sup, isSuper c = true) →
      readTor sym (['('] ++ sym ++ ['/'] ++ t ++ [')'] ++ sup) = some (t, if sup.isEmpty then 1 else decodeSuper sup) := by
    intro sup hs
    have e : ['('] ++ sym ++ ['/'] ++ t ++ [')'] ++ sup = ('(' :: sym ++ ['/']) ++ (t ++ [')'] ++ sup) := by simp
    unfold readTor
    rw [e, stripPrefix_append]
    have er : (t ++ [')'] ++ sup).reverse = sup.reverse ++ ')' :: t.reverse := by simp
    have hs' : ∀ x ∈ sup.reverse, isSuper x = true := fun x hx => hs x (by simpa using hx)
    have := takeWhile_append_cons isSuper sup.reverse t.reverse ')' hs' (by decide)
    simp only [er, this.1, this.2, List.reverse_reverse]
  unfold torPiece
  split
  · rename_i h
    have := key (superscript k) (superscript_all k)
    rw [this]
    rw [superscript_isEmpty k]
    simp [decode_superscript]
  · rename_i h
    have := key [] (by simp)
    simp only [List.append_nil] at this
    rw [this]
    have : k = 1 := by omega
    simp [this]

theorem readFree_sym (sym : List Char) : readFree sym sym = some 1 := by
  have := stripPrefix_append sym []
  simp only [List.append_nil] at this
  simp [readFree, this]

theorem readFree_super (sym : List Char) (n : Nat) : readFree sym (sym ++ superscript n) = some n := by
  unfold readFree
  rw [stripPrefix_append]
  have h1 : (superscript n).all isSuper = true := by
    rw [List.all_eq_true]; exact superscript_all n
  simp [h1, superscript_isEmpty n, decode_superscript]

theorem runs_spec (l : List (List Char)) : ∀ e ∈ runs l, 1 ≤ e.2 ∧ e.1 ∈ l := by
  induction l with
  | nil => simp [runs]
  | cons t ts ih =>
    intro e he
    unfold runs at he
    cases hr : runs ts with
    | nil => simp [hr] at he; subst he; simp
    | cons uk rest =>
      obtain ⟨u, k⟩ := uk
      simp only [hr] at he
      rw [hr] at ih
      split at he
      · rename_i htu
        simp at he
        rcases he with he | he
        · subst he; simp [htu]
        · have := ih e (by simp [he]); exact ⟨this.1, by simp [this.2]⟩
      · simp at he
        rcases he with he | he | he
        · subst he; simp
        · subst he; have := ih (u, k) (by simp); exact ⟨this.1, by simp [this.2]⟩
        · have := ih e (by simp [he]); exact ⟨this.1, by simp [this.2]⟩

def expandRuns : List (List Char × Nat) → List (List Char)
  | [] => []
  | (t, k) :: rest => List.replicate k t ++ expandRuns rest

theorem expand_runs (l : List (List Char)) : expandRuns (runs l) = l := by
  induction l with
  | nil => rfl
  | cons t ts ih =>
    unfold runs
    cases hr : runs ts with
    | nil =>
      rw [hr] at ih
      simp [expandRuns] at ih ⊢
      exact ih
    | cons uk rest =>
      obtain ⟨u, k⟩ := uk
      rw [hr] at ih
      simp only
      split
      · rename_i htu
        subst htu
        simp [expandRuns, List.replicate_succ] at ih ⊢
        exact ih
      · simp [expandRuns] at ih ⊢
        exact ih

theorem runs_injective (l1 l2 : List (List Char)) (h : runs l1 = runs l2) : l1 = l2 := by
  rw [← expand_runs l1, ← expand_runs l2, h]

theorem mapM_map_some {α β : Type} (f : α → β) (g : β → Option α) (l : List α) (h : ∀ x ∈ l, g (f x) = some x) :
    (l.map f).mapM g = some l := by
  induction l with
  | nil => rfl
  | cons x l ih =>
    simp [List.mapM_cons, h x (by simp), ih (fun y hy => h y (by simp [hy]))]

theorem torPiece_noOplus (sym t : List Char) (k : Nat) (hs : '⊕' ∉ sym) (ht : '⊕' ∉ t) : '⊕' ∉ torPiece sym t k := by
  have := superscript_noOplus k
  unfold torPiece
  split <;> simp [hs, ht, this]

theorem torPiece_paren (sym t : List Char) (k : Nat) : ∃ r, torPiece sym t k = '(' :: r := by
  unfold torPiece; split <;> simp

theorem joinWith_head (c : Char) (r : List Char) (ps : List (List Char)) :
    ∃ r', joinWith oplus ((c :: r) :: ps) = c :: r' := by
  cases ps <;> simp [joinWith]

theorem readCell_of_pieces (sym p : List Char) (ps : List (List Char)) (h : ∀ x ∈ p :: ps, '⊕' ∉ x)
    (c : Char) (r : List Char) (hp : p = c :: r) (hc0 : c ≠ '0') :
    readCell sym (joinWith oplus (p :: ps)) =
      if startsParen p then
        match (p :: ps).mapM (readTor sym) with
        | some ts => some (0, ts)
        | none => none
      else
        match readFree sym p, ps.mapM (readTor sym) with
        | some r, some ts => some (r, ts)
        | _, _ => none := by
  have hs0 : joinWith oplus (p :: ps) ≠ ['0'] := by
    obtain ⟨r', hr'⟩ := joinWith_head c r ps
    rw [hp, hr']
    intro he
    injection he with he _
    exact hc0 he
  have hsplit := splitOplus_join (p :: ps) (by simp) h (joinWith oplus (p :: ps)).length (joinWith_length _)
  unfold readCell
  rw [if_neg hs0, hsplit]
  rfl

theorem readCell_rmodStr (sym : List Char) (rank : Nat) (tors : List (List Char))
    (hs : SymOK sym) (ht : ∀ t ∈ tors, TorOK t) :
    readCell sym (rmodStr sym rank tors) = some (rank, runs tors) := by
  obtain ⟨⟨c, r, hsym, hc1, hc0⟩, hso⟩ := hs
  have htp : ∀ e ∈ runs tors, readTor sym ((fun (x : List Char × Nat) => torPiece sym x.1 x.2) e) = some e := by
    intro e he
    exact readTor_torPiece sym e.1 e.2 (runs_spec tors e he).1
  have hmap := mapM_map_some (fun (x : List Char × Nat) => torPiece sym x.1 x.2) (readTor sym) (runs tors) htp
  have hno : ∀ p ∈ (runs tors).map (fun (x : List Char × Nat) => torPiece sym x.1 x.2), '⊕' ∉ p := by
    intro p hp
    simp only [List.mem_map] at hp
    obtain ⟨e, he, rfl⟩ := hp
    exact torPiece_noOplus sym e.1 e.2 hso (ht e.1 (runs_spec tors e he).2)
  have hfun : (fun (x : List Char × Nat) => match x with | (t, k) => torPiece sym t k) =
      (fun (x : List Char × Nat) => torPiece sym x.1 x.2) := by
    funext x; obtain ⟨t, k⟩ := x; rfl
  unfold rmodStr
  rw [hfun]
  split
  · rename_i h
    obtain ⟨h1, h2⟩ := h
    subst h1 h2
    simp [readCell, runs]
  · rename_i hnz
    by_cases hr0 : rank = 0
    · -- only torsion pieces
      subst hr0
      have htn : tors ≠ [] := fun h => hnz ⟨rfl, h⟩
      cases hrt : runs tors with
      | nil =>
        have := expand_runs tors
        rw [hrt] at this
        exact absurd this.symm htn
      | cons e es =>
        rw [hrt] at hmap hno
        obtain ⟨r', hr'⟩ := torPiece_paren sym e.1 e.2
        have hfp0 : freePiece sym 0 = [] := by simp [freePiece]
        rw [hfp0]
        simp only [List.map_cons, List.nil_append] at hmap hno ⊢
        rw [readCell_of_pieces sym _ _ hno '(' r' hr' (by decide)]
        have : startsParen (torPiece sym e.1 e.2) = true := by rw [hr']; rfl
        rw [if_pos this, hmap]
    · -- a free piece first
      have hfp : ∃ fp, freePiece sym rank = [fp] ∧ readFree sym fp = some rank ∧ (∃ r2, fp = c :: r2) ∧ '⊕' ∉ fp := by
        unfold freePiece
        by_cases h1 : rank > 1
        · refine ⟨sym ++ superscript rank, by simp [h1], readFree_super sym rank, ⟨r ++ superscript rank, by simp [hsym]⟩, ?_⟩
          have := superscript_noOplus rank
          simp [hso, this]
        · have : rank = 1 := by omega
          subst this
          exact ⟨sym, by simp, readFree_sym sym, ⟨r, hsym⟩, hso⟩
      obtain ⟨fp, hfp1, hfp2, ⟨r2, hfp3⟩, hfp4⟩ := hfp
      rw [hfp1]
      simp only [List.cons_append, List.nil_append]
      have hall : ∀ x ∈ fp :: (runs tors).map (fun (x : List Char × Nat) => torPiece sym x.1 x.2), '⊕' ∉ x := by
        intro x hx
        simp only [List.mem_cons] at hx
        rcases hx with hx | hx
        · rw [hx]; exact hfp4
        · exact hno x hx
      rw [readCell_of_pieces sym _ _ hall c r2 hfp3 hc0]
      have : startsParen fp = false := by
        rw [hfp3]
        unfold startsParen
        split
        · rename_i heq; injection heq with h1 _; exact absurd h1 hc1
        · rfl
      rw [this]
      simp only [Bool.false_eq_true, if_false, hfp2, hmap]

end Yuiv.C20
