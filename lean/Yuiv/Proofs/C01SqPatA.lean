import Yuiv.Proofs.C01SqDefs
import Mathlib.Tactic.Ring
/-
C01Sq, pattern A — FACE COMMUTATION at the level of names (for `d ∘ d = 0` of the reference cube).

A face has the circle lists `cs00 → cs10 → cs11` (edge a, then b) and `cs00 → cs01 → cs11` (edge b, then a).
For arbitrary `h t : Int` and arbitrary name-indexed labellings `f f'' : Name → Bool`:

  * `face_disjoint` : the two edges act on disjoint circles (all four merge/split combinations; the descriptors of
                      parallel edges are literally equal — disjointness FOLLOWS from the four `IsEdge` hypotheses);
  * `face_31`       : three circles become one (associativity + commutativity of the product);
  * `face_13`       : one circle becomes three (coassociativity).

Method: `compatB_iffA` turns the Boolean compatibility test into `∀ c ∈ cs, c ∈ cs' → f' c = f c`; on each side of a face
this is equivalent to "(values of `f''` on the circles born at the first edge = the summation variables) ∧ K", with the
SAME `K` (`f'' = f` on the untouched circles of `cs00`) on both sides (`ecoef_of_iff`).  If `K` fails both sides are `0`,
otherwise the sums over `[true, false]` are explicit and the identity is checked on all Boolean values.
-/

namespace Yuiv.C01Sq
open Yuiv Yuiv.KhRef Yuiv.C02Mirror

/-- the Boolean compatibility test, as a statement about names -/
theorem compatB_iffA (cs cs' : Circ) (f f' : Name → Bool) :
    compatB cs cs' f f' = true ↔ ∀ c ∈ cs, c ∈ cs' → f' c = f c := by
  unfold compatB
  rw [Array.all_eq_true_iff_forall_mem]
  constructor
  · intro H c hc hc'
    have := H c hc
    simpa [hc'] using this
  · intro H c hc
    by_cases hc' : c ∈ cs'
    · simp [hc', H c hc hc']
    · simp [hc']

/-- `ecoef` with the compatibility condition replaced by an equivalent decidable proposition -/
theorem ecoef_of_iff (h t : Int) (cs cs' : Circ) (e : Edge) (f f' : Name → Bool) (K : Prop) [Decidable K]
    (hiff : (∀ c ∈ cs, c ∈ cs' → f' c = f c) ↔ K) :
    ecoef h t cs cs' e f f' = if K then loc h t e f f' else 0 := by
  unfold ecoef
  by_cases hK : K
  · rw [if_pos hK, if_pos ((compatB_iffA ..).2 (hiff.2 hK))]
  · rw [if_neg hK, if_neg (fun hc => hK (hiff.1 ((compatB_iffA ..).1 hc)))]

/-- associativity + commutativity of the product table: `(a·b)·c = a·(b·c)` coefficientwise -/
theorem prod_assoc_coef (h t : Int) (a b c r : Bool) :
    ([true, false].map (fun y => prodCoef h t a b y * prodCoef h t y c r)).sum =
    ([true, false].map (fun y => prodCoef h t b c y * prodCoef h t a y r)).sum := by
  cases a <;> cases b <;> cases c <;> cases r <;> simp [prodCoef, prod]

/-- three circles A, B, C become one: a merges A,B ↦ P, b merges B,C ↦ Q; then b merges P,C ↦ R resp. a merges A,Q ↦ R
(associativity + commutativity of the product) -/
theorem face_31 (h t : Int) (cs00 cs10 cs01 cs11 : Circ) (A B C P Q R : Name)
    (ha0 : MergeRel cs00 cs10 A B P) (hb0 : MergeRel cs00 cs01 B C Q)
    (hb1 : MergeRel cs10 cs11 P C R) (ha1 : MergeRel cs01 cs11 A Q R) (f f'' : Name → Bool) :
    pathF h t cs10 cs11 (.merge A B P) (.merge P C R) f f'' = pathF h t cs01 cs11 (.merge B C Q) (.merge A Q R) f f'' := by
  classical
  obtain ⟨a0, a1, a2, a3, a4⟩ := ha0
  obtain ⟨b0, b1, b2, b3, b4⟩ := hb0
  obtain ⟨c0, c1, c2, c3, c4⟩ := hb1
  obtain ⟨d0, d1, d2, d3, d4⟩ := ha1
  have hCP : C ≠ P := by rintro rfl; exact a3 b1
  have hAQ : A ≠ Q := by rintro rfl; exact b3 a0
  have hL : ∀ y, (∀ c ∈ cs10, c ∈ cs11 → f'' c = ov f P y c) ↔
      (∀ c ∈ cs00, c ≠ A → c ≠ B → c ≠ C → f'' c = f c) := by
    intro y
    unfold ov
    constructor
    · intro H c hc h1 h2 h3
      have hcP : c ≠ P := by rintro rfl; exact a3 hc
      have := H c ((a4 c).2 (Or.inr ⟨hc, h1, h2⟩)) ((c4 c).2 (Or.inr ⟨(a4 c).2 (Or.inr ⟨hc, h1, h2⟩), hcP, h3⟩))
      simpa [hcP] using this
    · intro H c hc hc'
      grind -ext
  have hR : ∀ y, (∀ c ∈ cs01, c ∈ cs11 → f'' c = ov f Q y c) ↔
      (∀ c ∈ cs00, c ≠ A → c ≠ B → c ≠ C → f'' c = f c) := by
    intro y
    unfold ov
    constructor
    · intro H c hc h1 h2 h3
      grind -ext
    · intro H c hc hc'
      grind -ext
  unfold pathF
  simp only [ecoef_of_iff h t _ _ _ _ _ _ (hL _), ecoef_of_iff h t _ _ _ _ _ _ (hR _)]
  by_cases hK : (∀ c ∈ cs00, c ≠ A → c ≠ B → c ≠ C → f'' c = f c)
  · simp only [if_pos hK, loc, ov, if_pos, if_neg hCP, if_neg hAQ]
    exact prod_assoc_coef h t _ _ _ _
  · simp only [if_neg hK]
    simp


/-- one circle R becomes three A, B, C: a splits R ↦ P, C, b splits R ↦ A, Q; then b splits P ↦ A, B resp. a splits
Q ↦ B, C (coassociativity) -/
theorem face_13 (h t : Int) (cs00 cs10 cs01 cs11 : Circ) (R P C A Q B : Name)
    (ha0 : IsEdge cs00 cs10 (.split R P C)) (hb0 : IsEdge cs00 cs01 (.split R A Q))
    (hb1 : IsEdge cs10 cs11 (.split P A B)) (ha1 : IsEdge cs01 cs11 (.split Q B C)) (f f'' : Name → Bool) :
    pathF h t cs10 cs11 (.split R P C) (.split P A B) f f'' = pathF h t cs01 cs11 (.split R A Q) (.split Q B C) f f'' := by
  classical
  obtain ⟨a0, a1, a2, a3, a4⟩ := ha0
  obtain ⟨b0, b1, b2, b3, b4⟩ := hb0
  obtain ⟨c0, c1, c2, c3, c4⟩ := hb1
  obtain ⟨d0, d1, d2, d3, d4⟩ := ha1
  have hL : ∀ y1 y2, (∀ c ∈ cs10, c ∈ cs11 → f'' c = ov (ov f P y1) C y2 c) ↔
      (f'' C = y2 ∧ ∀ c ∈ cs00, c ≠ R → f'' c = f c) := by
    intro y1 y2
    unfold ov
    constructor
    · intro H
      refine ⟨?_, ?_⟩
      · grind -ext
      · intro c hc h1
        grind -ext
    · rintro ⟨H1, H⟩ c hc hc'
      grind -ext
  have hR : ∀ y1 y2, (∀ c ∈ cs01, c ∈ cs11 → f'' c = ov (ov f A y1) Q y2 c) ↔
      (f'' A = y1 ∧ ∀ c ∈ cs00, c ≠ R → f'' c = f c) := by
    intro y1 y2
    unfold ov
    constructor
    · intro H
      refine ⟨?_, ?_⟩
      · grind -ext
      · intro c hc h1
        grind -ext
    · rintro ⟨H1, H⟩ c hc hc'
      grind -ext
  unfold pathF
  simp only [ecoef_of_iff h t _ _ _ _ _ _ (hL _ _), ecoef_of_iff h t _ _ _ _ _ _ (hR _ _)]
  by_cases hK : (∀ c ∈ cs00, c ≠ R → f'' c = f c)
  · simp only [eq_true hK, and_true, loc, ov, if_pos, if_neg a2]
    generalize f R = r
    generalize f'' A = a
    generalize f'' B = b
    generalize f'' C = c
    cases r <;> cases a <;> cases b <;> cases c <;> simp [coprodCoef, coprod]
  · simp [hK]


/-- `ea` merges `A, B ↦ P`, `eb` merges `C, D ↦ Q` -/
theorem face_disjoint_mm (h t : Int) (cs00 cs10 cs01 cs11 : Circ) (A B P C D Q : Name)
    (ha0 : MergeRel cs00 cs10 A B P) (hb0 : MergeRel cs00 cs01 C D Q)
    (hb1 : MergeRel cs10 cs11 C D Q) (ha1 : MergeRel cs01 cs11 A B P) (f f'' : Name → Bool) :
    pathF h t cs10 cs11 (.merge A B P) (.merge C D Q) f f'' = pathF h t cs01 cs11 (.merge C D Q) (.merge A B P) f f'' := by
  classical
  obtain ⟨a0, a1, a2, a3, a4⟩ := ha0
  obtain ⟨b0, b1, b2, b3, b4⟩ := hb0
  obtain ⟨c0, c1, c2, c3, c4⟩ := hb1
  obtain ⟨d0, d1, d2, d3, d4⟩ := ha1
  have hCP : C ≠ P := by rintro rfl; exact a3 b0
  have hDP : D ≠ P := by rintro rfl; exact a3 b1
  have hAQ : A ≠ Q := by rintro rfl; exact b3 a0
  have hBQ : B ≠ Q := by rintro rfl; exact b3 a1
  have hL : ∀ y, (∀ c ∈ cs10, c ∈ cs11 → f'' c = ov f P y c) ↔
      (f'' P = y ∧ ∀ c ∈ cs00, c ≠ A → c ≠ B → c ≠ C → c ≠ D → f'' c = f c) := by
    intro y
    unfold ov
    constructor
    · intro H
      refine ⟨?_, ?_⟩
      · grind -ext
      · intro c hc h1 h2 h3 h4
        grind -ext
    · rintro ⟨H1, H⟩ c hc hc'
      grind -ext
  have hR : ∀ y, (∀ c ∈ cs01, c ∈ cs11 → f'' c = ov f Q y c) ↔
      (f'' Q = y ∧ ∀ c ∈ cs00, c ≠ A → c ≠ B → c ≠ C → c ≠ D → f'' c = f c) := by
    intro y
    unfold ov
    constructor
    · intro H
      refine ⟨?_, ?_⟩
      · grind -ext
      · intro c hc h1 h2 h3 h4
        grind -ext
    · rintro ⟨H1, H⟩ c hc hc'
      grind -ext
  unfold pathF
  simp only [ecoef_of_iff h t _ _ _ _ _ _ (hL _), ecoef_of_iff h t _ _ _ _ _ _ (hR _)]
  by_cases hK : (∀ c ∈ cs00, c ≠ A → c ≠ B → c ≠ C → c ≠ D → f'' c = f c)
  · simp only [eq_true hK, and_true, loc, ov, if_neg hCP, if_neg hDP, if_neg hAQ, if_neg hBQ]
    generalize f'' P = p
    generalize f'' Q = q
    cases p <;> cases q <;> simp [Int.mul_comm]
  · simp [hK]


/-- `ea` merges `A, B ↦ P`, `eb` splits `G ↦ Q0, Q1` -/
theorem face_disjoint_ms (h t : Int) (cs00 cs10 cs01 cs11 : Circ) (A B P G Q0 Q1 : Name)
    (ha0 : MergeRel cs00 cs10 A B P) (hb0 : MergeRel cs01 cs00 Q0 Q1 G)
    (hb1 : MergeRel cs11 cs10 Q0 Q1 G) (ha1 : MergeRel cs01 cs11 A B P) (f f'' : Name → Bool) :
    pathF h t cs10 cs11 (.merge A B P) (.split G Q0 Q1) f f'' =
      pathF h t cs01 cs11 (.split G Q0 Q1) (.merge A B P) f f'' := by
  classical
  obtain ⟨a0, a1, a2, a3, a4⟩ := ha0
  obtain ⟨b0, b1, b2, b3, b4⟩ := hb0
  obtain ⟨c0, c1, c2, c3, c4⟩ := hb1
  obtain ⟨d0, d1, d2, d3, d4⟩ := ha1
  have hG0 : G ∈ cs00 := (b4 G).2 (Or.inl rfl)
  have hGP : G ≠ P := by rintro rfl; exact a3 hG0
  have hQ0 : Q0 ∉ cs00 := by grind -ext
  have hQ1 : Q1 ∉ cs00 := by grind -ext
  have hAQ0 : A ≠ Q0 := by rintro rfl; exact hQ0 a0
  have hAQ1 : A ≠ Q1 := by rintro rfl; exact hQ1 a0
  have hBQ0 : B ≠ Q0 := by rintro rfl; exact hQ0 a1
  have hBQ1 : B ≠ Q1 := by rintro rfl; exact hQ1 a1
  have hL : ∀ y, (∀ c ∈ cs10, c ∈ cs11 → f'' c = ov f P y c) ↔
      (f'' P = y ∧ ∀ c ∈ cs00, c ≠ A → c ≠ B → c ≠ G → f'' c = f c) := by
    intro y
    unfold ov
    constructor
    · intro H
      refine ⟨?_, ?_⟩
      · grind -ext
      · intro c hc h1 h2 h3
        grind -ext
    · rintro ⟨H1, H⟩ c hc hc'
      grind -ext
  have hR : ∀ y1 y2, (∀ c ∈ cs01, c ∈ cs11 → f'' c = ov (ov f Q0 y1) Q1 y2 c) ↔
      ((f'' Q0 = y1 ∧ f'' Q1 = y2) ∧ ∀ c ∈ cs00, c ≠ A → c ≠ B → c ≠ G → f'' c = f c) := by
    intro y1 y2
    unfold ov
    constructor
    · intro H
      refine ⟨⟨?_, ?_⟩, ?_⟩
      · grind -ext
      · grind -ext
      · intro c hc h1 h2 h3
        grind -ext
    · rintro ⟨⟨H1, H2⟩, H⟩ c hc hc'
      grind -ext
  unfold pathF
  simp only [ecoef_of_iff h t _ _ _ _ _ _ (hL _), ecoef_of_iff h t _ _ _ _ _ _ (hR _ _)]
  by_cases hK : (∀ c ∈ cs00, c ≠ A → c ≠ B → c ≠ G → f'' c = f c)
  · simp only [eq_true hK, and_true, loc, ov, if_neg hGP, if_neg hAQ0, if_neg hAQ1, if_neg hBQ0, if_neg hBQ1]
    generalize f'' P = p
    generalize f'' Q0 = q0
    generalize f'' Q1 = q1
    cases p <;> cases q0 <;> cases q1 <;> simp [Int.mul_comm]
  · simp [hK]

/-- `ea` splits `G ↦ P0, P1`, `eb` splits `G' ↦ Q0, Q1` -/
theorem face_disjoint_ss (h t : Int) (cs00 cs10 cs01 cs11 : Circ) (G P0 P1 G' Q0 Q1 : Name)
    (ha0 : MergeRel cs10 cs00 P0 P1 G) (hb0 : MergeRel cs01 cs00 Q0 Q1 G')
    (hb1 : MergeRel cs11 cs10 Q0 Q1 G') (ha1 : MergeRel cs11 cs01 P0 P1 G) (f f'' : Name → Bool) :
    pathF h t cs10 cs11 (.split G P0 P1) (.split G' Q0 Q1) f f'' =
      pathF h t cs01 cs11 (.split G' Q0 Q1) (.split G P0 P1) f f'' := by
  classical
  obtain ⟨a0, a1, a2, a3, a4⟩ := ha0
  obtain ⟨b0, b1, b2, b3, b4⟩ := hb0
  obtain ⟨c0, c1, c2, c3, c4⟩ := hb1
  obtain ⟨d0, d1, d2, d3, d4⟩ := ha1
  have hG'P0 : G' ≠ P0 := by grind -ext
  have hG'P1 : G' ≠ P1 := by grind -ext
  have hGQ0 : G ≠ Q0 := by grind -ext
  have hGQ1 : G ≠ Q1 := by grind -ext
  have hL : ∀ y1 y2, (∀ c ∈ cs10, c ∈ cs11 → f'' c = ov (ov f P0 y1) P1 y2 c) ↔
      ((f'' P0 = y1 ∧ f'' P1 = y2) ∧ ∀ c ∈ cs00, c ≠ G → c ≠ G' → f'' c = f c) := by
    intro y1 y2
    unfold ov
    constructor
    · intro H
      refine ⟨⟨?_, ?_⟩, ?_⟩
      · grind -ext
      · grind -ext
      · intro c hc h1 h2
        grind -ext
    · rintro ⟨⟨H1, H2⟩, H⟩ c hc hc'
      by_cases h1 : c = P1
      · simp [h1, H2]
      by_cases h0 : c = P0
      · simp [h0, H1, a2]
      have hc0 : c ∈ cs00 := (a4 c).2 (Or.inr ⟨hc, h0, h1⟩)
      have hG : c ≠ G := by rintro rfl; exact a3 hc
      have hG' : c ≠ G' := by rintro rfl; exact c3 hc'
      simp [h0, h1, H c hc0 hG hG']
  have hR : ∀ y1 y2, (∀ c ∈ cs01, c ∈ cs11 → f'' c = ov (ov f Q0 y1) Q1 y2 c) ↔
      ((f'' Q0 = y1 ∧ f'' Q1 = y2) ∧ ∀ c ∈ cs00, c ≠ G → c ≠ G' → f'' c = f c) := by
    intro y1 y2
    unfold ov
    constructor
    · intro H
      refine ⟨⟨?_, ?_⟩, ?_⟩
      · grind -ext
      · grind -ext
      · intro c hc h1 h2
        grind -ext
    · rintro ⟨⟨H1, H2⟩, H⟩ c hc hc'
      by_cases h1 : c = Q1
      · simp [h1, H2]
      by_cases h0 : c = Q0
      · simp [h0, H1, b2]
      have hc0 : c ∈ cs00 := (b4 c).2 (Or.inr ⟨hc, h0, h1⟩)
      have hG : c ≠ G := by rintro rfl; exact d3 hc'
      have hG' : c ≠ G' := by rintro rfl; exact b3 hc
      simp [h0, h1, H c hc0 hG hG']
  unfold pathF
  simp only [ecoef_of_iff h t _ _ _ _ _ _ (hL _ _), ecoef_of_iff h t _ _ _ _ _ _ (hR _ _)]
  by_cases hK : (∀ c ∈ cs00, c ≠ G → c ≠ G' → f'' c = f c)
  · simp only [eq_true hK, and_true, loc, ov, if_neg hG'P0, if_neg hG'P1, if_neg hGQ0, if_neg hGQ1]
    generalize f'' P0 = p0
    generalize f'' P1 = p1
    generalize f'' Q0 = q0
    generalize f'' Q1 = q1
    cases p0 <;> cases p1 <;> cases q0 <;> cases q1 <;> simp [Int.mul_comm]
  · simp [hK]

/-- the two edges act on disjoint sets of circles (any types: merge/merge, merge/split, split/merge, split/split):
the descriptors of the parallel edges are literally the same -/
theorem face_disjoint (h t : Int) (cs00 cs10 cs01 cs11 : Circ) (ea eb : Edge)
    (ha0 : IsEdge cs00 cs10 ea) (hb0 : IsEdge cs00 cs01 eb) (hb1 : IsEdge cs10 cs11 eb) (ha1 : IsEdge cs01 cs11 ea)
    (f f'' : Name → Bool) :
    pathF h t cs10 cs11 ea eb f f'' = pathF h t cs01 cs11 eb ea f f'' := by
  cases ea with
  | merge A B P =>
    cases eb with
    | merge C D Q => exact face_disjoint_mm h t cs00 cs10 cs01 cs11 A B P C D Q ha0 hb0 hb1 ha1 f f''
    | split G Q0 Q1 => exact face_disjoint_ms h t cs00 cs10 cs01 cs11 A B P G Q0 Q1 ha0 hb0 hb1 ha1 f f''
  | split G P0 P1 =>
    cases eb with
    | merge C D Q => exact (face_disjoint_ms h t cs00 cs01 cs10 cs11 C D Q G P0 P1 hb0 ha0 ha1 hb1 f f'').symm
    | split G' Q0 Q1 => exact face_disjoint_ss h t cs00 cs10 cs01 cs11 G P0 P1 G' Q0 Q1 ha0 hb0 hb1 ha1 f f''


end Yuiv.C01Sq
