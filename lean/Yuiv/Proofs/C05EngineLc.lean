import Yuiv.Model.C05Engine
import Yuiv.Proofs.C05
import Yuiv.Proofs.C05Engine
/-
C05 (engine) — what the REAL edge algebra `lcOps h t` (linear combinations of cobordisms, `Lc<Cob, R>`) provably
satisfies of the ring-like hypotheses used by the `d ∘ d = 0` theorems.

`LcCob R` is not a ring (composition is partial, results are `Res`, lists are order-dependent), so the hypotheses are
checked through an arbitrary SEMANTICS: an additive invariant `φ : Cob → S` into an `R`-module that respects the Rust
equality of `Cob` (`cobEq`).  `lcVal φ f = Σ r • φ(cob)` is the value of a linear combination.  Proved here: every
`Lc` combinator is linear for every such `φ`, and composition (`*` = stacking), horizontal composition with a
cobordism, `cap_off` and `part_eval` on linear combinations are the (bi)linear extensions of the cobordism-level
operations.  What remains are identities about single cobordisms, listed in `Props/C05EngineLc.lean`.
-/
namespace Yuiv.C05.Engine
open Yuiv Yuiv.C05 Yuiv.C05.Tng

section
variable {R S : Type} [CommRing R] [CoefU R] [LawfulCoef R] [AddCommGroup S] [Module R S]

/-- the value of a linear combination under an additive invariant of cobordisms -/
def lcVal (φ : Cob → S) (f : LcCob R) : S := (f.map (fun p => p.2 • φ p.1)).sum

/-- the invariant does not distinguish cobordisms that the Rust `Eq` identifies -/
def Respects (φ : Cob → S) : Prop := ∀ k k' : Cob, cobEq k' k = true → φ k' = φ k

omit [CoefU R] [LawfulCoef R] in
@[simp] theorem lcVal_nil (φ : Cob → S) : lcVal φ ([] : LcCob R) = 0 := rfl
omit [CoefU R] [LawfulCoef R] in
@[simp] theorem lcVal_cons (φ : Cob → S) (p : Cob × R) (l : LcCob R) :
    lcVal φ (p :: l) = p.2 • φ p.1 + lcVal φ l := by simp [lcVal]
omit [CoefU R] [LawfulCoef R] in
theorem lcVal_append (φ : Cob → S) (a b : LcCob R) : lcVal φ (a ++ b) = lcVal φ a + lcVal φ b := by
  simp [lcVal]

theorem lcVal_insert (φ : Cob → S) (hφ : Respects φ) (l : LcCob R) (k : Cob) (r : R) :
    lcVal φ (lcInsert l k r) = lcVal φ l + r • φ k := by
  induction l with
  | nil => simp [lcInsert]
  | cons a l ih =>
    unfold lcInsert; split
    · rename_i h
      simp only [lcVal_cons, LawfulCoef.add_eq, add_smul, hφ k a.1 h]; abel
    · simp only [lcVal_cons, ih]; abel

theorem lcVal_addPair (φ : Cob → S) (hφ : Respects φ) (l : LcCob R) (k : Cob) (r : R) :
    lcVal φ (lcAddPair l k r) = lcVal φ l + r • φ k := by
  unfold lcAddPair; split
  · rename_i h; rw [LawfulCoef.isZero_sound r h]; simp
  · exact lcVal_insert φ hφ l k r

theorem lcVal_clean (φ : Cob → S) (l : LcCob R) : lcVal φ (lcClean l) = lcVal φ l := by
  induction l with
  | nil => rfl
  | cons a l ih =>
    unfold lcClean at *
    rw [List.filter_cons]; split
    · simp only [lcVal_cons, ih]
    · rename_i h
      have h0 : a.2 = 0 := LawfulCoef.isZero_sound a.2 (by simpa using h)
      simp only [lcVal_cons, ih, h0, zero_smul, zero_add]

theorem lcVal_foldl (φ : Cob → S) (hφ : Respects φ) (b a : LcCob R) :
    lcVal φ (b.foldl (fun acc p => lcAddPair acc p.1 p.2) a) = lcVal φ a + lcVal φ b := by
  induction b generalizing a with
  | nil => simp
  | cons q b ih => simp only [List.foldl_cons, ih, lcVal_addPair φ hφ, lcVal_cons]; abel

/-- `collect()` keeps the value: merging `Eq`-equal keys and dropping zeros is invisible to `φ` -/
theorem lcVal_collect (φ : Cob → S) (hφ : Respects φ) (ps : List (Cob × R)) :
    lcVal φ (lcCollect ps) = lcVal φ ps := by
  unfold lcCollect; rw [lcVal_clean, lcVal_foldl φ hφ]; simp

theorem lcVal_add (φ : Cob → S) (hφ : Respects φ) (a b : LcCob R) :
    lcVal φ (lcAdd a b) = lcVal φ a + lcVal φ b := by
  unfold lcAdd; rw [lcVal_clean, lcVal_foldl φ hφ]

omit [CoefU R] [LawfulCoef R] in
theorem lcVal_map_coef (φ : Cob → S) (g : R → R) (c : R) (hg : ∀ r, g r = c * r) (a : LcCob R) :
    lcVal φ (a.map (fun p => (p.1, g p.2))) = c • lcVal φ a := by
  induction a with
  | nil => simp
  | cons q a ih => rw [List.map_cons, lcVal_cons, lcVal_cons, ih]; simp only [hg, smul_add, mul_smul]

theorem lcVal_neg (φ : Cob → S) (hφ : Respects φ) (a : LcCob R) : lcVal φ (lcNeg a) = - lcVal φ a := by
  unfold lcNeg
  rw [lcVal_collect φ hφ, lcVal_map_coef φ (fun r => Coef.neg r) (-1) (by intro r; simp [LawfulCoef.neg_eq])]
  simp

theorem lcVal_sub (φ : Cob → S) (hφ : Respects φ) (a b : LcCob R) :
    lcVal φ (lcSub a b) = lcVal φ a - lcVal φ b := by
  unfold lcSub
  rw [lcVal_clean]
  have : ∀ (b a : LcCob R), lcVal φ (b.foldl (fun acc p => lcAddPair acc p.1 (Coef.neg p.2)) a)
      = lcVal φ a - lcVal φ b := by
    intro b
    induction b with
    | nil => intro a; simp
    | cons q b ih =>
      intro a
      rw [List.foldl_cons, ih, lcVal_addPair φ hφ, lcVal_cons, LawfulCoef.neg_eq, neg_smul]
      abel
  exact this b a

theorem lcVal_smul (φ : Cob → S) (a : LcCob R) (r : R) : lcVal φ (lcSmul a r) = r • lcVal φ a := by
  unfold lcSmul; split
  · rename_i h; rw [LawfulCoef.isOne_sound r h, one_smul]
  · rw [lcVal_clean, lcVal_map_coef φ (fun x => Coef.mul x r) r (by intro x; simp [LawfulCoef.mul_eq, mul_comm])]

theorem lcVal_sum (φ : Cob → S) (hφ : Respects φ) (ls : List (LcCob R)) :
    lcVal φ (lcSum ls) = (ls.map (lcVal φ)).sum := by
  unfold lcSum
  have : ∀ (ls : List (LcCob R)) (acc : LcCob R), lcVal φ (ls.foldl lcAdd acc) = lcVal φ acc + (ls.map (lcVal φ)).sum := by
    intro ls
    induction ls with
    | nil => intro acc; simp
    | cons l ls ih => intro acc; simp only [List.foldl_cons, ih, lcVal_add φ hφ, List.map_cons, List.sum_cons]; abel
  simpa using this ls []

theorem lcVal_fromPair (φ : Cob → S) (hφ : Respects φ) (k : Cob) (r : R) :
    lcVal φ (lcFromPair k r : LcCob R) = r • φ k := by
  unfold lcFromPair; rw [lcVal_collect φ hφ]; simp

theorem lcVal_single (φ : Cob → S) (hφ : Respects φ) (k : Cob) : lcVal φ (lcSingle k : LcCob R) = φ k := by
  unfold lcSingle; rw [lcVal_fromPair φ hφ, LawfulCoef.one_eq, one_smul]

/-! ### maps on generators: `connected`, `cap_off` -/

/-- `map` / `modify` followed by `collect()`: the linear extension of the map on cobordisms (`G` = the map where it
does not panic; with `zeroOut`, `φ` must vanish on cobordisms with `is_zero_cob`) -/
theorem lcVal_mapGens (φ : Cob → S) (hφ : Respects φ) (zeroOut : Bool) (f : Cob → Res Cob) (G : Cob → Cob)
    (a c : LcCob R) (hG : ∀ p ∈ a, f p.1 = .ok (G p.1))
    (hz : zeroOut = true → ∀ k, Cob.isZeroCob k = true → φ k = 0)
    (h : lcMapGens zeroOut f a = .ok c) : lcVal φ c = lcVal (fun k => φ (G k)) a := by
  unfold lcMapGens at h
  split at h
  · rename_i ps hps
    cases h
    rw [lcVal_collect φ hφ]
    have hF := mapMRes_ok_forall₂ _ _ _ hps
    clear hps
    induction hF with
    | nil => rfl
    | @cons p q a' ps' hpq _ ih =>
      have hp := hG p List.mem_cons_self
      rw [hp] at hpq
      simp only [Res.ok.injEq] at hpq
      rw [lcVal_cons, lcVal_cons, ih (fun x hx => hG x (List.mem_cons_of_mem _ hx)), ← hpq]
      congr 1
      simp only
      split
      · rename_i hc
        simp only [Bool.and_eq_true] at hc
        rw [LawfulCoef.zero_eq, zero_smul, hz hc.1 _ hc.2, smul_zero]
      · rfl
  · cases h
  · cases h

/-! ### products: `combine` -/

/-- the bilinear extension of a binary operation on cobordisms -/
def bilVal (φ : Cob → S) (G : Cob → Cob → Cob) (a b : LcCob R) : S :=
  lcVal (fun x => lcVal (fun y => φ (G x y)) b) a

omit [CoefU R] [LawfulCoef R] in
theorem lcVal_smul_fun (ψ : Cob → S) (r : R) (b : LcCob R) :
    lcVal (fun y => r • ψ y) b = r • lcVal ψ b := by
  induction b with
  | nil => simp
  | cons q b ih => simp only [lcVal_cons, ih, smul_add, smul_comm q.2 r]

/-- `Lc::combine`: the value of the product is the bilinear extension -/
theorem lcVal_combine (φ : Cob → S) (hφ : Respects φ) (F : Cob → Cob → Res Cob) (G : Cob → Cob → Cob)
    (a b c : LcCob R) (hG : ∀ x ∈ a, ∀ y ∈ b, F x.1 y.1 = .ok (G x.1 y.1))
    (h : lcCombine F a b = .ok c) : lcVal φ c = bilVal φ G a b := by
  unfold lcCombine at h
  simp only at h
  split at h
  · rename_i ps hps
    cases h
    rw [lcVal_collect φ hφ]
    -- the list of pairs, row by row
    have key : ∀ (a : LcCob R) (ps : List (Cob × R)),
        (∀ x ∈ a, ∀ y ∈ b, F x.1 y.1 = .ok (G x.1 y.1)) →
        mapMRes (fun (xy : (Cob × R) × (Cob × R)) =>
          match F xy.1.1 xy.2.1 with
          | .ok k => .ok (k, Coef.mul xy.1.2 xy.2.2)
          | .panic => .panic
          | .err => .err) (a.flatMap (fun x => b.map (fun y => (x, y)))) = .ok ps →
        lcVal φ ps = bilVal φ G a b := by
      intro a
      induction a with
      | nil => intro ps _ h; simp [mapMRes] at h; subst h; rfl
      | cons x a ih =>
        intro ps hG' h
        rw [List.flatMap_cons] at h
        -- split the result at the end of the first row
        have hsplit : ∀ (l1 l2 : List ((Cob × R) × (Cob × R))) (ps : List (Cob × R)),
            mapMRes (fun (xy : (Cob × R) × (Cob × R)) =>
              match F xy.1.1 xy.2.1 with
              | .ok k => .ok (k, Coef.mul xy.1.2 xy.2.2)
              | .panic => .panic
              | .err => .err) (l1 ++ l2) = .ok ps →
            ∃ p1 p2, mapMRes (fun (xy : (Cob × R) × (Cob × R)) =>
              match F xy.1.1 xy.2.1 with
              | .ok k => .ok (k, Coef.mul xy.1.2 xy.2.2)
              | .panic => .panic
              | .err => .err) l1 = .ok p1 ∧
              mapMRes (fun (xy : (Cob × R) × (Cob × R)) =>
              match F xy.1.1 xy.2.1 with
              | .ok k => .ok (k, Coef.mul xy.1.2 xy.2.2)
              | .panic => .panic
              | .err => .err) l2 = .ok p2 ∧ ps = p1 ++ p2 := by
          intro l1
          induction l1 with
          | nil => intro l2 ps h; exact ⟨[], ps, rfl, h, rfl⟩
          | cons z l1 ih1 =>
            intro l2 ps h
            rw [List.cons_append] at h
            obtain ⟨q, qs, hq, hqs, rfl⟩ := (mapMRes_cons_ok _ z (l1 ++ l2) ps).1 h
            obtain ⟨p1, p2, h1, h2, rfl⟩ := ih1 l2 qs hqs
            exact ⟨q :: p1, p2, (mapMRes_cons_ok _ z l1 (q :: p1)).2 ⟨q, p1, hq, h1, rfl⟩, h2, rfl⟩
        obtain ⟨p1, p2, h1, h2, rfl⟩ := hsplit _ _ ps h
        rw [lcVal_append, ih p2 (fun x' hx' => hG' x' (List.mem_cons_of_mem _ hx')) h2]
        unfold bilVal
        rw [lcVal_cons]
        congr 1
        -- the first row
        have hrow : ∀ (b' : LcCob R) (p1 : List (Cob × R)), (∀ y ∈ b', F x.1 y.1 = .ok (G x.1 y.1)) →
            mapMRes (fun (xy : (Cob × R) × (Cob × R)) =>
              match F xy.1.1 xy.2.1 with
              | .ok k => .ok (k, Coef.mul xy.1.2 xy.2.2)
              | .panic => .panic
              | .err => .err) (b'.map (fun y => (x, y))) = .ok p1 →
            lcVal φ p1 = x.2 • lcVal (fun y => φ (G x.1 y)) b' := by
          intro b'
          induction b' with
          | nil => intro p1 _ h; simp [mapMRes] at h; subst h; simp
          | cons y b' ihb =>
            intro p1 hGy h
            rw [List.map_cons] at h
            obtain ⟨q, qs, hq, hqs, rfl⟩ := (mapMRes_cons_ok _ _ _ p1).1 h
            simp only [hGy y List.mem_cons_self, Res.ok.injEq] at hq
            rw [lcVal_cons, lcVal_cons, ihb qs (fun y' hy' => hGy y' (List.mem_cons_of_mem _ hy')) hqs, ← hq]
            simp only [LawfulCoef.mul_eq, smul_add, mul_smul]
        exact hrow b p1 (fun y hy => hG' x List.mem_cons_self y hy) h1
    exact key a ps hG hps
  · cases h
  · cases h

end
end Yuiv.C05.Engine
